package ctext

// Generated from naga_flow_test.go (same WGSL cases and hand-computed expectations);
// HLSL-specific findings are recorded in hlslKnownDefects (naga_hlsl_harness_test.go).

import "testing"

func TestNagaHLSLControlFlow(t *testing.T) {
	runNagaHLSLCases(t, []nagaCase{
		{
			name: "loop continuing break-if",
			wgsl: outI + inI + `@compute @workgroup_size(1) fn main() {
  var i = 0; var s = 0;
  loop {
    if i >= a[0] { break; }          // a[0] = 10
    if i % 2 == 1 { continue; }      // continuing still runs
    s += i;
    continuing { i++; }
  }
  o[0] = s;                          // 0+2+4+6+8
  o[1] = i;
  var j = 0; var c = 0;
  loop {
    c += 10;
    continuing { j += 3; break if j > 7; }
  }
  o[2] = c * 100 + j;                // j: 3, 6, 9 -> 3 iterations
  var k = 0;
  loop { k++; if k == 5 { break; } }
  o[3] = k;
}`,
			bufs: map[gb][]byte{{0, 0}: zeros(16), {0, 1}: i32s(10)},
			want: map[gb][]any{{0, 0}: wordsOf(20, 10, 3009, 5)},
		},
		{
			name: "for while nested break continue",
			wgsl: outI + inI + `@compute @workgroup_size(1) fn main() {
  var s = 0;
  for (var i = 0; i < a[0]; i++) {   // 6
    if i == 1 { continue; }
    if i == 4 { break; }
    s += i * 10;                     // 0, 20, 30
  }
  o[0] = s;
  var n = a[1]; var w = 0;           // 100
  while n > 1 { n = n / 3; w++; }    // 33, 11, 3, 1
  o[1] = w * 10 + n;
  var cnt = 0;
  for (var x = 0; x < 4; x++) {
    for (var y = 0; y < 4; y++) {
      if y > x { break; }
      if (x + y) % 2 == 1 { continue; }
      cnt += 1;
    }
  }
  o[2] = cnt;                        // pairs y<=x with even sum: (0,0),(1,1),(2,0),(2,2),(3,1),(3,3)
  var acc = 0;
  for (var i = 10; i > 0; i -= 3) { acc = acc * 10 + i; }   // 10, 7, 4, 1
  o[3] = acc;
  var z = 0;
  for (; z < 3; ) { z += 2; }
  o[4] = z;
}`,
			bufs: map[gb][]byte{{0, 0}: zeros(20), {0, 1}: i32s(6, 100)},
			want: map[gb][]any{{0, 0}: wordsOf(50, 41, 6, 10741, 4)},
		},
		{
			name: "switch default in the middle and multi-value cases",
			wgsl: outI + inI + `
fn classify(x: i32) -> i32 {
  var r = 0;
  switch x {
    case 1: { r = 10; }
    default: { r = 99; }
    case 3, 4: { r = 30 + x; }
    case -2: { r = -20; }
  }
  return r;
}
@compute @workgroup_size(1) fn main() {
  o[0] = classify(a[0]);   // 1 -> 10
  o[1] = classify(a[1]);   // 2 -> default 99
  o[2] = classify(a[2]);   // 3 -> 33
  o[3] = classify(a[3]);   // 4 -> 34
  o[4] = classify(a[4]);   // -2 -> -20
  o[5] = classify(a[5]);   // 7 -> 99
  var u = 0u;
  switch u32(a[2]) { case 3u: { u = 5u; } case 4u: { u = 6u; } default: { u = 7u; } }
  o[6] = i32(u);
}`,
			bufs: map[gb][]byte{{0, 0}: zeros(28), {0, 1}: i32s(1, 2, 3, 4, -2, 7)},
			want: map[gb][]any{{0, 0}: wordsOf(10, 99, 33, 34, -20, 99, 5)},
		},
		{
			name: "switch inside loop with break and continue",
			wgsl: outI + inI + `@compute @workgroup_size(1) fn main() {
  var s = 0; var i = 0;
  loop {
    if i >= 6 { break; }
    let cur = i;
    i++;
    switch cur {
      case 0: { s += 1; }              // break of the switch only
      case 1: { continue; }            // continues the loop
      case 2: { if a[0] == 1 { break; } s += 1000; }  // break leaves the switch, skipping the add
      default: { s += 100; }
    }
    s += 10;                           // runs for cur = 0, 2, 3, 4, 5
  }
  o[0] = s;                            // 1 + 300 + 50
  o[1] = i;
}`,
			bufs: map[gb][]byte{{0, 0}: zeros(8), {0, 1}: i32s(1)},
			want: map[gb][]any{{0, 0}: wordsOf(351, 6)},
		},
		{
			name: "early return and guard",
			wgsl: outI + inI + `
fn f(x: i32) -> i32 {
  if x < 0 { return -1; }
  for (var i = 0; i < 10; i++) { if i * i > x { return i; } }
  return 100;
}
@compute @workgroup_size(4) fn main(@builtin(global_invocation_id) gid: vec3<u32>) {
  if gid.x >= u32(a[0]) { return; }    // only 3 of 4 invocations write
  o[gid.x] = f(a[gid.x + 1u]);
}`,
			bufs: map[gb][]byte{{0, 0}: i32s(-7, -7, -7, -7), {0, 1}: i32s(3, -5, 10, 200)},
			want: map[gb][]any{{0, 0}: wordsOf(-1, 4, 100, -7)},
		},
		{
			name: "if else chains and short circuit",
			wgsl: outI + inI + `
var<private> calls: i32 = 0;
fn side(v: bool) -> bool { calls += 1; return v; }
@compute @workgroup_size(1) fn main() {
  let x = a[0];                         // 5
  var r = 0;
  if x < 0 { r = 1; } else if x < 3 { r = 2; } else if x < 10 { r = 3; } else { r = 4; }
  o[0] = r;
  let p = side(false) && side(true);    // second not evaluated
  let q = side(true) || side(false);    // second not evaluated
  let s = side(true) && side(false);    // both
  o[1] = calls * 10 + i32(p) + i32(q) * 2 + i32(s) * 4;   // 4 calls, q only
  // guarded division: the right operand is evaluated only when safe
  let d = a[1];                         // 0
  o[2] = i32(d != 0 && (10 / d) > 1);
}`,
			bufs: map[gb][]byte{{0, 0}: zeros(12), {0, 1}: i32s(5, 0)},
			want: map[gb][]any{{0, 0}: wordsOf(3, 42, 0)},
		},
	})
}

func TestNagaHLSLFunctions(t *testing.T) {
	runNagaHLSLCases(t, []nagaCase{
		{
			name: "pointer parameters",
			wgsl: outI + inI + `
struct Pt { x: i32, y: i32 }
fn swap(p: ptr<function, i32>, q: ptr<function, i32>) { let t = *p; *p = *q; *q = t; }
fn incr(p: ptr<function, i32>, by: i32) -> i32 { *p += by; return *p * 2; }
fn setv(v: ptr<function, vec3<i32>>, i: i32) { (*v)[i] = 9; (*v).x += 1; }
fn move_pt(p: ptr<function, Pt>) { (*p).x += 10; (*p).y = (*p).x * 2; }
fn fill(arr: ptr<function, array<i32, 4>>) { for (var i = 0; i < 4; i++) { (*arr)[i] = i * i; } }
@compute @workgroup_size(1) fn main() {
  var x = a[0]; var y = a[1];          // 3, 8
  swap(&x, &y);
  o[0] = x * 10 + y;                   // 83
  let r = incr(&x, 2);                 // x = 10, r = 20
  o[1] = r + x;
  var v = vec3<i32>(1, 2, 3);
  setv(&v, 2);
  o[2] = v.x * 100 + v.y * 10 + v.z;   // 2, 2, 9
  var p = Pt(1, 1);
  move_pt(&p);
  o[3] = p.x * 100 + p.y;              // 11, 22
  var arr: array<i32, 4>;
  fill(&arr);
  o[4] = arr[1] + arr[2] * 10 + arr[3] * 100;  // 1 + 40 + 900
  var pr = Pt(5, 6);
  swap(&pr.x, &pr.y);
  o[5] = pr.x * 10 + pr.y;             // 65
}`,
			bufs: map[gb][]byte{{0, 0}: zeros(24), {0, 1}: i32s(3, 8)},
			want: map[gb][]any{{0, 0}: wordsOf(83, 30, 229, 1122, 941, 65)},
		},
		{
			name: "struct values through functions",
			wgsl: outF + inF + `
struct In { v: vec2<f32>, k: array<f32, 3> }
struct Out { inner: In, n: i32 }
fn mk(x: f32) -> In { return In(vec2<f32>(x, x + 1.0), array<f32, 3>(x * 2.0, x * 3.0, x * 4.0)); }
fn wrap(i: In, n: i32) -> Out { var o2: Out; o2.inner = i; o2.n = n; o2.inner.k[1] += 0.5; return o2; }
fn sum(o2: Out) -> f32 { return o2.inner.v.x + o2.inner.v.y + o2.inner.k[0] + o2.inner.k[1] + o2.inner.k[2] + f32(o2.n); }
@compute @workgroup_size(1) fn main() {
  let i = mk(a[0]);                    // 2: v = (2,3), k = (4,6,8)
  let w = wrap(i, 7);                  // k[1] = 6.5
  o[0] = sum(w);                       // 2+3+4+6.5+8+7
  o[1] = i.k[1];                       // the argument was passed by value: still 6
  var arr = array<In, 2>(mk(1.0), i);
  arr[0].v = arr[1].v * 2.0;
  o[2] = arr[0].v.y + arr[0].k[2];     // 6 + 4
}`,
			bufs: map[gb][]byte{{0, 0}: zeros(12), {0, 1}: f32s(2)},
			want: map[gb][]any{{0, 0}: wordsOf(float32(30.5), float32(6), float32(10))},
		},
		{
			name: "helper call order and nesting",
			wgsl: outI + inI + `
var<private> log: i32 = 0;
fn rec(d: i32) -> i32 { log = log * 10 + d; return d; }
fn add3(x: i32, y: i32, z: i32) -> i32 { return x * 100 + y * 10 + z; }
fn twice(x: i32) -> i32 { return add3(x, x, x) + rec(4); }
@compute @workgroup_size(1) fn main() {
  o[0] = add3(rec(1), rec(2), rec(3));   // WGSL evaluates arguments left to right
  o[1] = log;                            // 123
  o[2] = twice(a[0]);                    // 555 + 4
  o[3] = log;                            // 1234
}`,
			bufs: map[gb][]byte{{0, 0}: zeros(16), {0, 1}: i32s(5)},
			want: map[gb][]any{{0, 0}: wordsOf(123, 123, 559, 1234)},
		},
	})
}

func TestNagaHLSLWorkgroup(t *testing.T) {
	runNagaHLSLCases(t, []nagaCase{
		{
			name: "workgroup reduction with barriers",
			wgsl: outU + inU + `
var<workgroup> tmp: array<u32, 8>;
@compute @workgroup_size(8) fn main(@builtin(local_invocation_index) li: u32, @builtin(workgroup_id) wid: vec3<u32>) {
  tmp[li] = a[wid.x * 8u + li];
  workgroupBarrier();
  for (var s = 4u; s > 0u; s = s >> 1u) {
    if li < s { tmp[li] += tmp[li + s]; }
    workgroupBarrier();
  }
  if li == 0u { o[wid.x] = tmp[0]; }
}`,
			groups: [3]uint32{2, 1, 1},
			bufs:   map[gb][]byte{{0, 0}: zeros(8), {0, 1}: u32s(1, 2, 3, 4, 5, 6, 7, 8, 10, 20, 30, 40, 50, 60, 70, 80)},
			want:   map[gb][]any{{0, 0}: wordsOf(uint32(36), uint32(360))},
		},
		{
			name: "workgroup variables are zero initialised and per workgroup",
			wgsl: outU + `
var<workgroup> counter: atomic<u32>;
var<workgroup> flag: u32;
var<workgroup> st: array<vec2<i32>, 2>;
@compute @workgroup_size(4) fn main(@builtin(local_invocation_index) li: u32, @builtin(workgroup_id) wid: vec3<u32>, @builtin(num_workgroups) nw: vec3<u32>) {
  atomicAdd(&counter, li + 1u);        // 1+2+3+4 per workgroup, starting from zero
  if li == 3u { flag = 7u + wid.x; st[1].y = 5; }
  workgroupBarrier();
  let c = atomicLoad(&counter);
  o[wid.x * 4u + li] = c * 1000u + flag * 10u + u32(st[1].y + st[0].x) + nw.x * 100u;
}`,
			groups: [3]uint32{3, 1, 1},
			bufs:   map[gb][]byte{{0, 0}: zeros(48)},
			want: map[gb][]any{{0, 0}: wordsOf(uint32(10375), uint32(10375), uint32(10375), uint32(10375), uint32(10385), uint32(10385), uint32(10385), uint32(10385),
				uint32(10395), uint32(10395), uint32(10395), uint32(10395))},
		},
		{
			name: "storage atomics",
			wgsl: "struct A { cnt: atomic<u32>, mx: atomic<i32>, mn: atomic<i32>, bits: atomic<u32>, last: atomic<u32> }\n@group(0) @binding(0) var<storage, read_write> at: A;\n@group(0) @binding(1) var<storage, read_write> o: array<u32>;\n" + `
@compute @workgroup_size(4) fn main(@builtin(global_invocation_id) gid: vec3<u32>) {
  let i = gid.x;                         // 0..7
  let old = atomicAdd(&at.cnt, 2u);
  atomicMax(&at.mx, i32(i) - 3);         // max over -3..4 and initial 0 -> 4
  atomicMin(&at.mn, i32(i) - 3);         // min -> -3
  atomicOr(&at.bits, 1u << i);           // 0xFF
  atomicAnd(&at.bits, ~(1u << 9u));      // clears nothing relevant
  atomicXor(&at.last, 1u);               // toggled 8 times -> unchanged
  if i == 0u { atomicStore(&at.last, atomicLoad(&at.last) + 100u); }
  o[i] = u32(old >= 5u);                 // the counter never drops below its initial value
  if i == 7u { o[8] = u32(atomicExchange(&at.mx, 50) * 0 + 1); }
  atomicSub(&at.cnt, 1u);
}`,
			groups: [3]uint32{2, 1, 1},
			bufs:   map[gb][]byte{{0, 0}: cat(u32s(5), i32s(0, 0), u32s(0x300, 4)), {0, 1}: zeros(36)},
			want: map[gb][]any{
				{0, 1}: wordsOf(uint32(1), uint32(1), uint32(1), uint32(1), uint32(1), uint32(1), uint32(1), uint32(1), uint32(1)),
				{0, 0}: wordsOf(uint32(13), 50, -3, uint32(0x1FF), uint32(104)),
			},
		},
		{
			name: "compare exchange",
			wgsl: "@group(0) @binding(0) var<storage, read_write> v: atomic<u32>;\n@group(0) @binding(1) var<storage, read_write> o: array<u32>;\n" + `
@compute @workgroup_size(1) fn main() {
  let r1 = atomicCompareExchangeWeak(&v, 5u, 9u);    // matches: v = 9
  o[0] = r1.old_value; o[1] = u32(r1.exchanged);
  let r2 = atomicCompareExchangeWeak(&v, 5u, 11u);   // no match
  o[2] = r2.old_value; o[3] = u32(r2.exchanged);
}`,
			bufs: map[gb][]byte{{0, 0}: u32s(5), {0, 1}: zeros(16)},
			want: map[gb][]any{{0, 1}: wordsOf(uint32(5), uint32(1), uint32(9), uint32(0)), {0, 0}: wordsOf(uint32(9))},
		},
		{
			name: "builtin inputs in a 3D dispatch",
			wgsl: outU + `
@compute @workgroup_size(2, 2, 2) fn main(@builtin(global_invocation_id) gid: vec3<u32>, @builtin(local_invocation_id) lid: vec3<u32>,
    @builtin(local_invocation_index) li: u32, @builtin(workgroup_id) wid: vec3<u32>, @builtin(num_workgroups) nw: vec3<u32>) {
  let w = nw.x * 2u; let h = nw.y * 2u;
  let flat = gid.z * w * h + gid.y * w + gid.x;
  o[flat] = wid.x * 100000u + wid.y * 10000u + wid.z * 1000u + li * 100u + lid.x * 10u + lid.y + lid.z * 5u;
}`,
			groups: [3]uint32{2, 1, 2},
			bufs:   map[gb][]byte{{0, 0}: zeros(4 * 32)},
			// spot checks: gid (3,1,2): wid (1,0,1), lid (1,1,0), li = 0*4 + 1*2 + 1 = 3 ; flat = 2*4*2 + 1*4 + 3 = 23
			//              gid (0,0,1): wid (0,0,0), lid (0,0,1), li = 4 ; flat = 8
			want: map[gb][]any{{0, 0}: append(append(append(wordsOf(uint32(0)), repeatAny(skip, 7)...), uint32(0+400+5)), append(repeatAny(skip, 14), uint32(100000+1000+300+10+1))...)},
		},
		{
			name: "private variables are per invocation",
			wgsl: outU + `
var<private> seed: u32 = 1u;
fn next() -> u32 { seed = seed * 3u + 1u; return seed; }
@compute @workgroup_size(4) fn main(@builtin(local_invocation_index) li: u32) {
  for (var i = 0u; i < li; i++) { next(); }
  o[li] = next();                       // 4, 13, 40, 121
}`,
			bufs: map[gb][]byte{{0, 0}: zeros(16)},
			want: map[gb][]any{{0, 0}: wordsOf(uint32(4), uint32(13), uint32(40), uint32(121))},
		},
	})
}
