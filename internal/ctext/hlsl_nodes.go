package ctext

import "math"

// HLSL expression nodes that the shared AST does not have.  They implement
// customExpr (hlsl_ext.go).

type (
	// hlslCast is a C-style cast "(T)e" (HLSL reference, "Cast" / "Type
	// casts").  A scalar may be cast to any numeric, array or structure type
	// (every component receives the converted scalar: "(S)0").
	hlslCast struct {
		ExprBase
		TypeX *TypeExpr
		X     Expr
		flat  bool // aggregate cast: component-by-component over the flattened lists
	}
	// hlslCtor is a numeric constructor / functional cast "T(a, b, ...)".
	hlslCtor struct {
		ExprBase
		TypeX *TypeExpr
		Args  []Expr
		cast  bool // single differently sized operand: function-style cast
	}
	// hlslConv is an implicit conversion.
	hlslConv struct {
		ExprBase
		X Expr
	}
	// hlslInit is a brace initialiser; its elements are flattened into the
	// scalar components of the declared type (HLSL reference, "Variable
	// syntax > Initial_Value": initialiser lists are flattened).
	hlslInit struct {
		ExprBase
		TypeX *TypeExpr // declared type (nil for a nested list)
		Elems []Expr
		kinds []Kind // per flattened source leaf: its scalar kind
	}
	// hlslSelect is "c ? a : b" with HLSL (pre-2021) semantics: all three
	// operands are evaluated, a vector condition selects per component.
	hlslSelect struct {
		ExprBase
		C, A, B Expr
	}
)

// ---------------------------------------------------------------------------
// conversions
// ---------------------------------------------------------------------------

const (
	whyHLSLFtoI = "conversion of a NaN, infinite or out-of-range floating-point value to int is undefined in HLSL (DXC lowers the cast to LLVM fptosi, whose result is undefined when the truncated value does not fit; FXC's ftoi saturates: implementations differ)"
	whyHLSLFtoU = "conversion of a NaN, infinite, negative (<= -1) or out-of-range floating-point value to uint is undefined in HLSL (DXC lowers the cast to LLVM fptoui; FXC's ftou saturates: implementations differ)"
)

func hlslIsNumeric(t *Type) bool {
	return t.IsScalar() || t.Kind == KVec || t.Kind == KMat
}

// hlslDims returns (rows, cols) in HLSL terms: scalar (1,1), vector (1,N),
// matrix (R,C).
func hlslDims(t *Type) (int, int) {
	switch t.Kind {
	case KVec:
		return 1, t.N
	case KMat:
		return t.Cols, t.Rows // shared Cols = HLSL rows (see hlslNumericType)
	}
	return 1, 1
}

// hlslShape builds the numeric type with the given HLSL dimensions and base.
func hlslShape(base Kind, rows, cols int) *Type {
	s := scalarType(base)
	switch {
	case rows == 1 && cols == 1:
		return s
	case rows == 1:
		return vecOf(s, cols)
	}
	if base != KFloat && base != KDouble {
		return nil
	}
	return matOf(s, rows, cols)
}

// hlslImplicitShape reports whether a value of numeric shape from may be
// implicitly converted to shape to: identical, scalar -> anything (splat), or
// truncation to a shape that is no larger in either dimension (HLSL reference
// "Type casts": "implicit truncation of vector type", warning X3206).
func hlslImplicitShape(from, to *Type) bool {
	fr, fc := hlslDims(from)
	tr, tc := hlslDims(to)
	if fr == 1 && fc == 1 {
		return true
	}
	if from.Kind == KVec && to.Kind == KMat || from.Kind == KMat && to.Kind == KVec {
		return false
	}
	return tr <= fr && tc <= fc
}

func (ev *evaluator) hlslConvCell(c Cell, from, to Kind) Cell {
	if c.P != 0 || from == to {
		return c
	}
	switch to {
	case KBool:
		switch from {
		case KInt, KUint:
			return boolCell(c.B != 0)
		case KFloat:
			return boolCell(c.F() != 0) // NaN != 0 is true
		}
	case KInt:
		switch from {
		case KBool, KUint:
			return Cell{B: c.B}
		case KFloat:
			f := c.F()
			if isNaN32(f) || isInf32(f) {
				return Cell{P: ev.poison(whyHLSLFtoI)}
			}
			t := math.Trunc(float64(f))
			if t < -2147483648 || t > 2147483647 {
				return Cell{P: ev.poison(whyHLSLFtoI)}
			}
			return i32Cell(int32(t))
		}
	case KUint:
		switch from {
		case KBool, KInt:
			return Cell{B: c.B}
		case KFloat:
			f := c.F()
			if isNaN32(f) || isInf32(f) {
				return Cell{P: ev.poison(whyHLSLFtoU)}
			}
			t := math.Trunc(float64(f))
			if t < 0 || t > 4294967295 {
				return Cell{P: ev.poison(whyHLSLFtoU)}
			}
			return u32Cell(uint32(t))
		}
	case KFloat:
		switch from {
		case KBool:
			if c.B != 0 {
				return f32Cell(1)
			}
			return f32Cell(0)
		case KInt:
			return f32Cell(itof(c.I()))
		case KUint:
			return f32Cell(utof(c.U()))
		}
	}
	ev.trap("unsupported: conversion between component kinds %d and %d", from, to)
	return Cell{}
}

// hlslConvertValue converts a numeric value to another numeric type (splat,
// truncation, component conversion) or a scalar to an aggregate (every leaf).
func (ev *evaluator) hlslConvertValue(v Value, to *Type) Value {
	if v.T == to {
		return v
	}
	if v.T.Base() == KDouble || to.Base() == KDouble {
		ev.trap("unsupported: double-precision arithmetic")
	}
	r := ev.mk(to)
	if !hlslIsNumeric(to) {
		// scalar -> struct / array: every leaf
		if !v.T.IsScalar() {
			ev.trap("unsupported: conversion of %s to %s", hlslTypeName(v.T), hlslTypeName(to))
		}
		for i := range r.C {
			k := leafKind(to, i)
			if k == KVoid || k == KDouble {
				ev.trap("unsupported: conversion of a scalar to %s", hlslTypeName(to))
			}
			r.C[i] = ev.hlslConvCell(v.C[0], v.T.Kind, k)
		}
		return r
	}
	fb, tb := v.T.Base(), to.Base()
	fr, fc := hlslDims(v.T)
	tr, tc := hlslDims(to)
	switch {
	case fr == 1 && fc == 1:
		c := ev.hlslConvCell(v.C[0], fb, tb)
		for i := range r.C {
			r.C[i] = c
		}
	case fr*fc == tr*tc && (v.T.Kind != to.Kind):
		// vector <-> matrix with the same number of components (explicit casts)
		for i := range r.C {
			r.C[i] = ev.hlslConvCell(v.C[i], fb, tb)
		}
	default:
		for i := 0; i < tr; i++ {
			for j := 0; j < tc; j++ {
				r.C[i*tc+j] = ev.hlslConvCell(v.C[i*fc+j], fb, tb)
			}
		}
	}
	return r
}

func (x *hlslConv) checkCustom(c *checker) Expr { return x }
func (x *hlslConv) evalCustom(ev *evaluator) Value {
	return ev.hlslConvertValue(ev.eval(x.X), x.T)
}

// ---------------------------------------------------------------------------
// casts
// ---------------------------------------------------------------------------

func (x *hlslCast) checkCustom(c *checker) Expr {
	t := c.resolveType(x.TypeX, unsizedNo)
	x.X = c.value(x.X)
	ft := x.X.base().T
	x.T = t
	x.Const = x.X.base().Const
	if t.Kind == KVoid {
		c.invalid(x.Pos, "type", "cast to void")
	}
	if t.Kind == KOpaque || t.containsKind(KOpaque) || ft.Kind == KOpaque {
		c.unsupported(x.Pos, "cast involving object type %s", hlslTypeName(t))
	}
	if ft == t {
		return x
	}
	switch {
	case hlslIsNumeric(ft) && hlslIsNumeric(t):
		fr, fc := hlslDims(ft)
		tr, tc := hlslDims(t)
		ok := hlslImplicitShape(ft, t) || (fr*fc == tr*tc)
		if !ok {
			c.invalid(x.Pos, "type", "cannot cast %s to %s", hlslTypeName(ft), hlslTypeName(t))
		}
	case ft.IsScalar():
		// (S)0, (T[N])0: the scalar is converted to every component
	default:
		// HLSL reference, "Type casts": an explicit cast between aggregate /
		// numeric types is allowed when the flattened component lists have the
		// same length (struct <-> matrix, array of struct <-> array of matrix);
		// components are converted one by one.
		if ft.nsc == t.nsc && !ft.hasRuntimeArray() && !t.hasRuntimeArray() {
			x.flat = true
			return x
		}
		if ft.nsc > t.nsc {
			c.unsupported(x.Pos, "truncating cast of aggregate %s to %s", hlslTypeName(ft), hlslTypeName(t))
		}
		c.invalid(x.Pos, "type", "cannot cast %s to %s", hlslTypeName(ft), hlslTypeName(t))
	}
	return x
}

func (x *hlslCast) evalCustom(ev *evaluator) Value {
	v := ev.eval(x.X)
	if x.flat {
		r := ev.mk(x.T)
		for i := range r.C {
			r.C[i] = ev.hlslConvCell(v.C[i], leafKind(v.T, i), leafKind(x.T, i))
		}
		return r
	}
	return ev.hlslConvertValue(v, x.T)
}

// ---------------------------------------------------------------------------
// numeric constructors
// ---------------------------------------------------------------------------

func (x *hlslCtor) checkCustom(c *checker) Expr {
	t := c.resolveType(x.TypeX, unsizedNo)
	if !hlslIsNumeric(t) {
		c.unsupported(x.Pos, "constructor of %s", hlslTypeName(t))
	}
	x.T = t
	x.Const = true
	total := 0
	for i := range x.Args {
		x.Args[i] = c.value(x.Args[i])
		at := x.Args[i].base().T
		if !hlslIsNumeric(at) {
			c.invalid(x.Args[i].base().Pos, "type", "constructor %s: argument %d of type %s is not a scalar, vector or matrix", hlslTypeName(t), i+1, hlslTypeName(at))
		}
		if !x.Args[i].base().Const {
			x.Const = false
		}
		total += at.nsc
	}
	switch {
	case len(x.Args) == 0:
		c.invalid(x.Pos, "type", "constructor %s needs arguments", hlslTypeName(t))
	case total == t.nsc:
	case len(x.Args) == 1 && hlslImplicitShape(x.Args[0].base().T, t):
		// T(e) with a differently sized operand is a function-style cast: DXC
		// accepts splat / truncation here like (T)e; FXC is reported to reject a
		// scalar operand (X3014).  naga emits float3(-0.75) in module-scope
		// constants.  Modelled with DXC's meaning; recorded as a warning.
		x.cast = true
		c.prog.hl.warnings = append(c.prog.hl.warnings, "function-style cast "+hlslTypeName(t)+"("+hlslTypeName(x.Args[0].base().T)+") with a differently sized operand at "+x.Pos.String()+" (DXC: splat / truncation; FXC: X3014)")
	case len(x.Args) == 1:
		c.unsupported(x.Pos, "function-style cast %s(%s) with a differently sized operand", hlslTypeName(t), hlslTypeName(x.Args[0].base().T))
	default:
		// FXC error X3014: incorrect number of arguments to numeric-type constructor
		c.invalid(x.Pos, "type", "constructor %s needs exactly %d components, got %d (X3014)", hlslTypeName(t), t.nsc, total)
	}
	return x
}

func (x *hlslCtor) evalCustom(ev *evaluator) Value {
	if x.cast {
		return ev.hlslConvertValue(ev.eval(x.Args[0]), x.T)
	}
	r := ev.mk(x.T)
	tb := x.T.Base()
	if tb == KDouble {
		ev.trap("unsupported: double-precision arithmetic")
	}
	k := 0
	for _, a := range x.Args {
		v := ev.eval(a)
		ab := v.T.Base()
		if ab == KDouble {
			ev.trap("unsupported: double-precision arithmetic")
		}
		for _, c := range v.C {
			r.C[k] = ev.hlslConvCell(c, ab, tb)
			k++
		}
	}
	return r
}

// ---------------------------------------------------------------------------
// brace initialisers
// ---------------------------------------------------------------------------

func (x *hlslInit) flatten(c *checker) (n int, kinds []Kind, allConst bool) {
	allConst = true
	for i, e := range x.Elems {
		if il, ok := e.(*hlslInit); ok {
			m, ks, cst := il.flatten(c)
			n += m
			kinds = append(kinds, ks...)
			allConst = allConst && cst
			continue
		}
		e = c.value(e)
		x.Elems[i] = e
		et := e.base().T
		if et.Kind == KOpaque || et.containsKind(KOpaque) || et.hasRuntimeArray() {
			c.unsupported(e.base().Pos, "object of type %s in an initialiser list", hlslTypeName(et))
		}
		for k := 0; k < et.nsc; k++ {
			kinds = append(kinds, leafKind(et, k))
		}
		n += et.nsc
		allConst = allConst && e.base().Const
	}
	return
}

func (x *hlslInit) checkCustom(c *checker) Expr {
	if x.TypeX == nil || x.TypeX.T == nil {
		c.invalid(x.Pos, "syntax", "initialiser list without a declared type")
	}
	t := x.TypeX.T
	n, kinds, cst := x.flatten(c)
	if t.Kind == KArray && t.N < 0 {
		if t.Elem.nsc == 0 || n == 0 || n%t.Elem.nsc != 0 {
			c.invalid(x.Pos, "type", "initialiser list with %d components cannot size an array of %s", n, hlslTypeName(t.Elem))
		}
		t = c.prog.tt.arrayOf(t.Elem, n/t.Elem.nsc)
	}
	if t.Kind == KOpaque || t.containsKind(KOpaque) {
		c.unsupported(x.Pos, "initialiser list for object type %s", hlslTypeName(t))
	}
	if n != t.nsc {
		// FXC error X3017 / DXC "too few/many elements in initializer"
		c.invalid(x.Pos, "type", "initialiser list has %d components, %s needs %d", n, hlslTypeName(t), t.nsc)
	}
	for i, k := range kinds {
		tk := leafKind(t, i)
		if k == KDouble || tk == KDouble {
			c.prog.usesDouble = true
		}
	}
	x.kinds = kinds
	x.T = t
	x.Const = cst
	return x
}

func (x *hlslInit) evalInto(ev *evaluator, dst []Cell, k *int, target *Type) {
	for _, e := range x.Elems {
		if il, ok := e.(*hlslInit); ok {
			il.evalInto(ev, dst, k, target)
			continue
		}
		v := ev.eval(e)
		for j, c := range v.C {
			from := leafKind(v.T, j)
			to := leafKind(target, *k)
			dst[*k] = ev.hlslConvCell(c, from, to)
			*k++
		}
	}
}

func (x *hlslInit) evalCustom(ev *evaluator) Value {
	r := ev.mk(x.T)
	k := 0
	x.evalInto(ev, r.C, &k, x.T)
	return r
}

// ---------------------------------------------------------------------------
// ?:
// ---------------------------------------------------------------------------

func (x *hlslSelect) checkCustom(c *checker) Expr { return x }

func (x *hlslSelect) evalCustom(ev *evaluator) Value {
	// HLSL before version 2021 evaluates both the second and the third
	// operand ("the ternary operator does not short-circuit"); naga's output
	// is judged on these semantics.  The value not selected is discarded, so
	// poison in it does not propagate (a trap in it still traps).
	cv := ev.eval(x.C)
	a := ev.eval(x.A)
	b := ev.eval(x.B)
	if len(cv.C) == 1 {
		if cv.C[0].P != 0 {
			ev.observe(cv.C[0].P, "undefined value used as the condition of ?:", x.Pos)
		}
		if cv.C[0].Bool() {
			return a
		}
		return b
	}
	r := ev.mk(x.T)
	for i := range r.C {
		switch {
		case cv.C[i].P != 0:
			r.C[i].P = cv.C[i].P
		case cv.C[i].Bool():
			r.C[i] = a.C[i]
		default:
			r.C[i] = b.C[i]
		}
	}
	return r
}
