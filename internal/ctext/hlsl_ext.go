package ctext

// Extension points of the shared core used by the HLSL dialect (and free for
// any other dialect).  All of them are optional: the shared checker asserts
// them on checker.rules, the shared evaluator looks at nil-able fields of
// Program, so a dialect that does not need one simply does not implement it.

// customExpr is an expression node whose typing and evaluation are owned by a
// dialect (C-style casts, brace initialisers, component-wise ?: ...).
type customExpr interface {
	Expr
	checkCustom(c *checker) Expr
	evalCustom(ev *evaluator) Value
}

// convertRules: the dialect builds the node for an implicit conversion of e to
// t (nil = not convertible).  Default: a *Convert node when implicitConv holds.
type convertRules interface {
	convertNode(c *checker, e Expr, t *Type) Expr
}

// conditionRules: typing of the controlling expression of if / while / for /
// do-while.  Default: must be a scalar bool.
type conditionRules interface {
	condition(c *checker, e Expr, what string) Expr
}

// condExprRules: typing of c ? a : b.  Default: GLSL rules.
type condExprRules interface {
	condExpr(c *checker, x *Cond) Expr
}

// callRules: resolution of a call that did not match a user function.  A nil
// result falls back to the table-driven built-in overload resolution.
type callRules interface {
	resolveCall(c *checker, x *Call) Expr
}

// switchRules: additional dialect rules on a checked switch statement.
type switchRules interface {
	checkSwitch(c *checker, x *SwitchStmt)
}

// indexRules: dialect typing of x[i] after both operands have been checked
// (object indexing, index conversions).  A nil result continues with the
// shared rules.
type indexRules interface {
	index(c *checker, x *Index) Expr
}

// overloadRules: the dialect's overload resolution among candidates (result:
// the chosen candidate's ref, or nil with why = "none" / "ambiguous").
// Default: GLSL 4.60 §6.1.1.
type overloadRules interface {
	pickOverload(c *checker, x *Call, cands []candidate) (ref any, why string)
}

// dialectHooks are the evaluator-side hooks of a Program.
type dialectHooks struct {
	// binary evaluates a Binary / compound assignment whose Mode is bmCustom.
	binary func(ev *evaluator, op string, l, r Value, rt *Type, pos Pos) Value
	// mapReason rewrites the citation text of a poison reason of the shared core.
	mapReason func(reason string) string
	// run replaces Program.Run.
	run func(p *Program, cfg RunConfig) (*RunResult, error)
	// entry is called for every invocation after the entry function's frame has
	// been created and before its body runs.
	entry func(ev *evaluator, fn *Function)
	// typeStr spells a type in the dialect.
	typeStr func(t *Type) string
	// unary replaces the evaluation of + - ! ~ (MSL: C++ promotion and
	// undefined-behaviour rules).
	unary func(ev *evaluator, op string, v Value) Value
	// convert replaces evaluator.convertValue (implicit conversions that the
	// shared core performs itself: compound assignment, out parameters).
	convert func(ev *evaluator, v Value, to *Type) Value
	// loadLeaf / storeLeaf replace the 32-bit scalar buffer accesses (MSL:
	// 8- and 16-bit leaves, 1-byte bool).
	loadLeaf  func(ev *evaluator, b *boundBuf, off int, t *Type) Cell
	storeLeaf func(ev *evaluator, b *boundBuf, off int, t *Type, c Cell, pos Pos)
}

// ts spells a type in the program's dialect.
func (p *Program) ts(t *Type) string {
	if p.hooks != nil && p.hooks.typeStr != nil {
		return p.hooks.typeStr(t)
	}
	return t.String()
}
