package ctext

import (
	"fmt"
	"testing"
)

// Constant-buffer packing.  Expected offsets are computed by hand from the
// rules cited in hlsl_layout.go (HLSL reference "Packing Rules for Constant
// Variables" + the DXC / FXC treatment of array and struct tails).

const hlslCBSrc = `
struct Inner { float3 a; float b; };
struct S3 { float2 p; float3 q; float r; };
struct Tail { float3 a; };
cbuffer CB : register(b3, space2) {
  float3 v0;
  float  f0;
  float2 v1;
  float3 v2;
  float  f1;
  float  arr[3];
  float  f2;
  float3 arr3[2];
  float  f3;
  Inner  in1;
  float  f4;
  S3     s3;
  Inner  ia[2];
  float3x3 m_col;
  float  f5;
  row_major float3x3 m_row;
  float  f6;
  float2x3 m23;
  row_major float2x3 m23r;
  float2 tail;
  int2 iv; bool bb; uint u;
  Tail  tl;
  float after_tl;
  float4x4 m44[2];
  column_major float3x2 m32c;
}
RWByteAddressBuffer o : register(u0);
[numthreads(1, 1, 1)]
void main() {
  float r[40];
  r[0] = v0.z; r[1] = f0; r[2] = v1.y; r[3] = v2.x; r[4] = f1;
  r[5] = arr[2]; r[6] = f2; r[7] = arr3[1].z; r[8] = f3; r[9] = in1.b; r[10] = f4;
  r[11] = s3.p.y; r[12] = s3.q.x; r[13] = s3.r; r[14] = ia[1].a.y;
  r[15] = m_col[1][2]; r[16] = f5; r[17] = m_row[1][2]; r[18] = f6;
  r[19] = m23[1][2]; r[20] = m23r[1][2]; r[21] = tail.x;
  r[22] = (float)iv.y; r[23] = bb ? 1.0 : 0.0; r[24] = (float)u;
  r[25] = tl.a.z; r[26] = after_tl; r[27] = m44[1][2][3]; r[28] = m32c[2][1];
  r[29] = m_col[2].x; r[30] = m_row[2].x; r[31] = m23[0].z;
  for (int i = 0; i < 32; i++) { o.Store(4 * i, asuint(r[i])); }
}
`

func TestHLSLCBufferPacking(t *testing.T) {
	p := mustParseHLSL(t, hlslCBSrc)
	// buffer: word i holds float(i), except the integer members
	const size = 640
	buf := make([]byte, size)
	for i := 0; i < size/4; i++ {
		copy(buf[4*i:], f32s(float32(i)))
	}
	want := map[string]int{
		"v0": 0, "f0": 12, "v1": 16, "v2": 32, "f1": 44,
		"arr": 48, "f2": 84, "arr3": 96, "f3": 124, "in1": 128, "f4": 144,
		"s3": 160, "ia": 192, "m_col": 224, "f5": 268, "m_row": 272, "f6": 316,
		"m23": 320, "m23r": 368, "tail": 400, "iv": 408, "bb": 416, "u": 420,
		"tl": 432, "after_tl": 444, "m44": 448, "m32c": 576,
	}
	var cb *HLSLResource
	rs := p.HLSLResources()
	for i := range rs {
		if rs[i].Name == "CB" {
			cb = &rs[i]
		}
	}
	if cb == nil {
		t.Fatalf("no CB resource: %+v", rs)
	}
	if cb.Kind != "cbuffer" || cb.Class != 'b' || cb.Register != 3 || cb.Space != 2 || !cb.HasSpace {
		t.Errorf("CB reflection wrong: %+v", cb)
	}
	seen := 0
	for _, m := range cb.Members {
		if w, ok := want[m.Name]; ok {
			seen++
			if m.Offset != w {
				t.Errorf("member %s at offset %d, want %d", m.Name, m.Offset, w)
			}
		}
		switch m.Name {
		case "s3":
			if m.Members[1].Offset != 16 || m.Members[2].Offset != 28 || m.Size != 32 {
				t.Errorf("S3 layout: %+v", m)
			}
		case "arr":
			if m.ArrayStride != 16 || m.Size != 36 {
				t.Errorf("arr layout: %+v", m)
			}
		case "arr3":
			if m.ArrayStride != 16 || m.Size != 28 {
				t.Errorf("arr3 layout: %+v", m)
			}
		case "m_col":
			if m.RowMajor || m.MatrixStride != 16 || m.Size != 44 {
				t.Errorf("m_col layout: %+v", m)
			}
		case "m_row":
			if !m.RowMajor || m.Size != 44 {
				t.Errorf("m_row layout: %+v", m)
			}
		case "m23":
			if m.Size != 40 { // 3 column registers of 2 floats
				t.Errorf("m23 layout: %+v", m)
			}
		case "m23r":
			if m.Size != 28 { // 2 row registers of 3 floats
				t.Errorf("m23r layout: %+v", m)
			}
		case "tl":
			if m.Size != 12 {
				t.Errorf("tl layout: %+v", m)
			}
		case "m44":
			if m.ArrayStride != 64 || m.Size != 128 {
				t.Errorf("m44 layout: %+v", m)
			}
		case "m32c":
			if m.Size != 28 { // column_major float3x2: 2 column registers of 3 floats
				t.Errorf("m32c layout: %+v", m)
			}
		}
	}
	if seen != len(want) {
		t.Errorf("saw %d of %d members", seen, len(want))
	}
	if cb.Size != 608 {
		t.Errorf("CB size %d, want 608", cb.Size)
	}
	out := zeros(4 * 32)
	res, err := p.Run(RunConfig{Buffers: map[Slot][]byte{{Class: 'u', Index: 0}: out, {Class: 'b', Index: 3, Space: 2}: buf}, NumWorkgroups: [3]uint32{1, 1, 1}, StepLimit: 1_000_000})
	if err != nil {
		t.Fatal(err)
	}
	clean(t, res)
	// expected word index (= value) of each read
	wantWord := []float32{
		2,                    // v0.z: 0+8
		3,                    // f0: 12
		5,                    // v1.y: 16+4
		8,                    // v2.x: 32
		11,                   // f1: 44
		(48 + 32) / 4,        // arr[2]
		21,                   // f2: 84
		(96 + 16 + 8) / 4,    // arr3[1].z
		31,                   // f3: 124
		(128 + 12) / 4,       // in1.b
		36,                   // f4: 144
		(160 + 4) / 4,        // s3.p.y
		(160 + 16) / 4,       // s3.q.x
		(160 + 28) / 4,       // s3.r
		(192 + 16 + 4) / 4,   // ia[1].a.y
		(224 + 2*16 + 4) / 4, // m_col[1][2]: column 2 register, row 1
		67,                   // f5: 268
		(272 + 16 + 8) / 4,   // m_row[1][2]: row 1 register, column 2
		79,                   // f6: 316
		(320 + 2*16 + 4) / 4, // m23[1][2]: column 2 register, row 1
		(368 + 16 + 8) / 4,   // m23r[1][2]
		100,                  // tail.x: 400
	}
	got := words32(out)
	for i, w := range wantWord {
		if g := getF32(out, i); g != w {
			t.Errorf("read %d = %g (word %#x), want %g", i, g, got[i], w)
		}
	}
	// integer members were written as floats: iv.y is the float bit pattern of
	// 103 converted to float; just check the addresses through the bits
	if g := getF32(out, 22); g != float32(int32(fbits(103))) {
		t.Errorf("iv.y read %g", g)
	}
	if g := getF32(out, 23); g != 1 {
		t.Errorf("bb read %g (non-zero word must be true)", g)
	}
	if g := getF32(out, 24); g != float32(fbits(105)) {
		t.Errorf("u read %g", g)
	}
	rest := map[int]float32{
		25: (432 + 8) / 4,             // tl.a.z
		26: 111,                       // after_tl: 444 (packs into the tail of tl)
		27: (448 + 64 + 3*16 + 8) / 4, // m44[1][2][3]: column-major: column 3 register, row 2
		28: (576 + 1*16 + 2*4) / 4,    // m32c[2][1]: column 1 register, row 2
		29: (224 + 0*16 + 2*4) / 4,    // m_col[2].x = m_col[2][0]: column 0, row 2
		30: (272 + 2*16) / 4,          // m_row[2].x: row 2
		31: (320 + 2*16) / 4,          // m23[0].z: column 2, row 0
	}
	for i, w := range rest {
		if g := getF32(out, i); g != w {
			t.Errorf("read %d = %g, want %g", i, g, w)
		}
	}
}

func TestHLSLConstantBufferTemplate(t *testing.T) {
	src := `
struct NagaConstants { int first_vertex; int first_instance; uint other; };
ConstantBuffer<NagaConstants> _NagaConstants: register(b5, space7);
RWByteAddressBuffer o : register(u0);
[numthreads(2, 1, 1)]
void main(uint3 wid : SV_GroupID, uint li : SV_GroupIndex) {
  uint3 n = uint3(_NagaConstants.first_vertex, _NagaConstants.first_instance, _NagaConstants.other);
  if (li == 0u) { o.Store(wid.x * 4 + wid.y * 8, n.x * 100u + n.y * 10u + n.z); }
}`
	p := mustParseHLSL(t, src)
	out := zeros(16)
	slot := Slot{Class: 'b', Index: 5, Space: 7}
	res, err := p.Run(RunConfig{Buffers: map[Slot][]byte{{Class: 'u', Index: 0}: out}, NumWorkgroups: [3]uint32{2, 2, 1}, NumWorkgroupsSlot: &slot, StepLimit: 100000})
	if err != nil {
		t.Fatal(err)
	}
	clean(t, res)
	for i, w := range words32(out) {
		if w != 221 {
			t.Errorf("word %d = %d, want 221", i, w)
		}
	}
	rs := p.HLSLResources()
	if rs[0].Kind != "ConstantBuffer" || rs[0].Generic != "<NagaConstants>" || rs[0].Register != 5 || rs[0].Space != 7 || len(rs[0].Members) != 1 || rs[0].Members[0].Members[2].Offset != 8 {
		t.Errorf("reflection: %+v", rs[0])
	}
}

func TestHLSLReflection(t *testing.T) {
	src := `
struct In { uint3 gid : SV_DispatchThreadID; uint li : SV_GroupIndex; };
ByteAddressBuffer a : register(t1, space3);
RWByteAddressBuffer b : register(u2);
RWByteAddressBuffer c;
Texture2D<float4> tex : register(t4);
static float priv = 1.0;
groupshared uint wg[4];
static const int K = 3;
float helper(float x, inout int y, out uint z) { z = 1u; y = y + K; return x; }
[numthreads(4, 2, 1)]
void cs_main(In input, uint3 lid : SV_GroupThreadID) {
  int q = 0; uint w;
  { float inner = helper(priv, q, w); b.Store(0, asuint(inner)); }
}
[numthreads(1, 1, 1)]
void second() { }
`
	p := mustParseHLSL(t, src)
	rs := p.HLSLResources()
	desc := ""
	for _, r := range rs {
		desc += fmt.Sprintf("%s:%s:%c%d:s%d:%v;", r.Name, r.Kind, r.Class, r.Register, r.Space, r.Modelled)
	}
	if want := "a:ByteAddressBuffer:t1:s3:true;b:RWByteAddressBuffer:u2:s0:true;c:RWByteAddressBuffer:\x00-1:s0:true;tex:Texture2D:t4:s0:false;"; desc != want {
		t.Errorf("resources:\n got %q\nwant %q", desc, want)
	}
	bdesc := ""
	for _, b := range p.Blocks() {
		bdesc += fmt.Sprintf("%s:%s:%c%d:%s:%s:%v;", b.Name, b.Type, b.Class, b.Binding, b.Space, b.Layout, b.ReadOnly)
	}
	if want := "a:ByteAddressBuffer:t1:space3:raw:true;b:RWByteAddressBuffer:u2:space0:raw:false;c:RWByteAddressBuffer:u-1:space0:raw:false;"; bdesc != want {
		t.Errorf("blocks:\n got %q\nwant %q", bdesc, want)
	}
	eps := p.HLSLEntryPoints()
	if len(eps) != 2 || eps[0].Name != "cs_main" || eps[0].NumThreads != [3]uint32{4, 2, 1} || eps[1].Name != "second" {
		t.Fatalf("entry points: %+v", eps)
	}
	if eps[0].Params[0].Fields[0].Semantic != "SV_DispatchThreadID" || eps[0].Params[0].Fields[1].Semantic != "SV_GroupIndex" || eps[0].Params[1].Semantic != "SV_GroupThreadID" || eps[0].Params[1].Type != "uint3" {
		t.Errorf("entry params: %+v", eps[0].Params)
	}
	ids := map[string]string{}
	for _, id := range p.Identifiers() {
		ids[id.Name] = id.Kind
	}
	for name, kind := range map[string]string{"In": "struct", "gid": "struct-member", "a": "global", "tex": "global", "priv": "global", "wg": "global", "K": "global",
		"helper": "function", "x": "param", "z": "param", "cs_main": "function", "input": "param", "q": "local", "inner": "local", "second": "function"} {
		if ids[name] != kind {
			t.Errorf("identifier %s: kind %q, want %q", name, ids[name], kind)
		}
	}
	var fdesc string
	for _, f := range p.Functions() {
		fdesc += f.Name + "("
		for _, prm := range f.Params {
			fdesc += prm.Dir + " " + prm.Type + ","
		}
		fdesc += ")" + f.Ret + ";"
	}
	if want := "helper(in float,inout int,out uint,)float;cs_main(in In,in uint3,)void;second()void;"; fdesc != want {
		t.Errorf("functions:\n got %q\nwant %q", fdesc, want)
	}
	var gdesc string
	for _, g := range p.Globals() {
		gdesc += g.Name + ":" + g.Type + ":" + g.Storage + ";"
	}
	if want := "a:ByteAddressBuffer:const;b:RWByteAddressBuffer:const;c:RWByteAddressBuffer:const;tex:Texture2D<float4>:const;priv:float:global;wg:uint[4]:shared;K:int:const;"; gdesc != want {
		t.Errorf("globals:\n got %q\nwant %q", gdesc, want)
	}
	// run the first entry point: binding by name for the resource without register
	out := zeros(4)
	res, err := p.Run(RunConfig{Entry: "cs_main", Buffers: map[Slot][]byte{{Class: 'u', Index: 2}: out}, NumWorkgroups: [3]uint32{1, 1, 1}, StepLimit: 100000})
	if err != nil {
		t.Fatal(err)
	}
	clean(t, res)
	if getF32(out, 0) != 1 || res.Invocations != 8 {
		t.Errorf("run: %g, %d invocations", getF32(out, 0), res.Invocations)
	}
	if _, err := p.Run(RunConfig{NumWorkgroups: [3]uint32{1, 1, 1}}); err == nil {
		t.Errorf("Run without Entry on a two-entry-point program must fail")
	}
}
