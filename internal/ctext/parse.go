package ctext

// Shared recursive-descent / Pratt parser for the C-family statement and
// expression grammar.  Everything dialect specific goes through the frontend
// hooks.

type frontend interface {
	// checkIdent panics with an InvalidError if the token cannot be used as
	// an identifier being DECLARED in this dialect (keyword, reserved word,
	// reserved prefix).
	checkDeclIdent(p *parser, t Token)
	// isReservedWord reports keywords/reserved words (they can never be used
	// as names in expressions either).
	isReservedWord(p *parser, word string) bool
	// startsDecl reports whether a declaration starts at the current token
	// (statement context).
	startsDecl(p *parser) bool
	// parseDeclStmt parses a local declaration statement including its ';'.
	parseDeclStmt(p *parser) Stmt
	// parsePrimary parses dialect-specific primary expressions (type
	// constructors, casts, ...); it returns nil to fall back to the shared
	// primary forms.
	parsePrimary(p *parser) Expr
	// numberLit converts a numeric token to a typed literal.
	numberLit(p *parser, t Token) Expr
	// hasDiscard reports whether "discard" is a statement keyword.
	hasDiscard() bool
}

type parser struct {
	d    Dialect
	fe   frontend
	toks []Token
	i    int
	prog *Program
	// struct type names visible at the current point, innermost scope last
	typeScopes []map[string]bool
	// names declared as variables that hide a type name, per scope
	varScopes []map[string]bool
	depth     int // nesting depth guard
}

const maxNesting = 400

func (p *parser) peek() Token { return p.toks[p.i] }
func (p *parser) peekN(n int) Token {
	if p.i+n < len(p.toks) {
		return p.toks[p.i+n]
	}
	return p.toks[len(p.toks)-1]
}
func (p *parser) next() Token {
	t := p.toks[p.i]
	if t.Kind != TEOF {
		p.i++
	}
	return t
}
func (p *parser) isPunct(s string) bool {
	t := p.peek()
	return t.Kind == TPunct && t.Text == s
}
func (p *parser) isWord(s string) bool {
	t := p.peek()
	return t.Kind == TIdent && t.Text == s
}
func (p *parser) accept(s string) bool {
	if p.isPunct(s) {
		p.i++
		return true
	}
	return false
}
func (p *parser) acceptWord(s string) bool {
	if p.isWord(s) {
		p.i++
		return true
	}
	return false
}
func (p *parser) expect(s string) Token {
	t := p.peek()
	if t.Kind != TPunct || t.Text != s {
		t.Pos.invalid(p.d, "syntax", "expected %q, found %q", s, t.String())
	}
	p.i++
	return t
}
func (p *parser) expectWord(s string) Token {
	t := p.peek()
	if t.Kind != TIdent || t.Text != s {
		t.Pos.invalid(p.d, "syntax", "expected %q, found %q", s, t.String())
	}
	p.i++
	return t
}

// declIdent consumes an identifier that is being declared.
func (p *parser) declIdent() Token {
	t := p.peek()
	if t.Kind != TIdent {
		t.Pos.invalid(p.d, "syntax", "expected identifier, found %q", t.String())
	}
	p.fe.checkDeclIdent(p, t)
	p.i++
	return t
}

func (p *parser) enter(pos Pos) {
	p.depth++
	if p.depth > maxNesting {
		pos.unsupported(p.d, "nesting deeper than %d", maxNesting)
	}
}
func (p *parser) leave() { p.depth-- }

func (p *parser) pushScope() {
	p.typeScopes = append(p.typeScopes, map[string]bool{})
	p.varScopes = append(p.varScopes, map[string]bool{})
}
func (p *parser) popScope() {
	p.typeScopes = p.typeScopes[:len(p.typeScopes)-1]
	p.varScopes = p.varScopes[:len(p.varScopes)-1]
}
func (p *parser) declareType(name string) { p.typeScopes[len(p.typeScopes)-1][name] = true }
func (p *parser) declareVar(name string)  { p.varScopes[len(p.varScopes)-1][name] = true }

// isTypeName reports whether name currently denotes a user struct type.
func (p *parser) isTypeName(name string) bool {
	for i := len(p.typeScopes) - 1; i >= 0; i-- {
		if p.varScopes[i][name] {
			return false
		}
		if p.typeScopes[i][name] {
			return true
		}
	}
	return false
}

// ---------------------------------------------------------------------------
// Expressions
// ---------------------------------------------------------------------------

var binPrec = map[string]int{
	"*": 12, "/": 12, "%": 12,
	"+": 11, "-": 11,
	"<<": 10, ">>": 10,
	"<": 9, ">": 9, "<=": 9, ">=": 9,
	"==": 8, "!=": 8,
	"&": 7, "^": 6, "|": 5,
	"&&": 4, "^^": 3, "||": 2,
}

var assignOps = map[string]string{
	"=": "", "+=": "+", "-=": "-", "*=": "*", "/=": "/", "%=": "%",
	"<<=": "<<", ">>=": ">>", "&=": "&", "|=": "|", "^=": "^",
}

// parseExpr parses a full expression (comma level).
func (p *parser) parseExpr() Expr {
	e := p.parseAssign()
	for p.isPunct(",") {
		t := p.next()
		r := p.parseAssign()
		e = &Comma{ExprBase: ExprBase{Pos: t.Pos}, L: e, R: r}
	}
	return e
}

// parseAssign parses an assignment-expression.
func (p *parser) parseAssign() Expr {
	p.enter(p.peek().Pos)
	defer p.leave()
	lhs := p.parseCond()
	t := p.peek()
	if t.Kind == TPunct {
		if op, ok := assignOps[t.Text]; ok {
			p.next()
			rhs := p.parseAssign()
			return &Assign{ExprBase: ExprBase{Pos: t.Pos}, Op: op, L: lhs, R: rhs}
		}
	}
	return lhs
}

func (p *parser) parseCond() Expr {
	c := p.parseBinary(2)
	if p.isPunct("?") {
		t := p.next()
		a := p.parseExpr()
		p.expect(":")
		b := p.parseAssign()
		return &Cond{ExprBase: ExprBase{Pos: t.Pos}, C: c, A: a, B: b}
	}
	return c
}

func (p *parser) parseBinary(minPrec int) Expr {
	lhs := p.parseUnary()
	for {
		t := p.peek()
		if t.Kind != TPunct {
			return lhs
		}
		prec, ok := binPrec[t.Text]
		if !ok || prec < minPrec {
			return lhs
		}
		p.next()
		rhs := p.parseBinary(prec + 1)
		lhs = &Binary{ExprBase: ExprBase{Pos: t.Pos}, Op: t.Text, L: lhs, R: rhs}
	}
}

func (p *parser) parseUnary() Expr {
	t := p.peek()
	if t.Kind == TPunct {
		switch t.Text {
		case "+", "-", "!", "~":
			p.next()
			p.enter(t.Pos)
			x := p.parseUnary()
			p.leave()
			return &Unary{ExprBase: ExprBase{Pos: t.Pos}, Op: t.Text, X: x}
		case "++", "--":
			p.next()
			p.enter(t.Pos)
			x := p.parseUnary()
			p.leave()
			return &IncDec{ExprBase: ExprBase{Pos: t.Pos}, X: x, Dec: t.Text == "--"}
		}
	}
	return p.parsePostfix()
}

func (p *parser) parseArgs() []Expr {
	p.expect("(")
	var args []Expr
	if p.accept(")") {
		return args
	}
	// f(void)
	if p.isWord("void") && p.peekN(1).Kind == TPunct && p.peekN(1).Text == ")" {
		p.next()
		p.next()
		return args
	}
	for {
		args = append(args, p.parseAssign())
		if p.accept(",") {
			continue
		}
		p.expect(")")
		return args
	}
}

func (p *parser) parsePostfix() Expr {
	e := p.parsePrimary()
	for {
		t := p.peek()
		if t.Kind != TPunct {
			return e
		}
		switch t.Text {
		case "[":
			p.next()
			idx := p.parseExpr()
			p.expect("]")
			e = &Index{ExprBase: ExprBase{Pos: t.Pos}, X: e, I: idx}
		case "(":
			id, ok := e.(*Ident)
			if !ok {
				t.Pos.invalid(p.d, "syntax", "call of something that is not a function name or a type")
			}
			args := p.parseArgs()
			e = &Call{ExprBase: ExprBase{Pos: id.Pos}, Name: id.Name, Args: args}
		case ".":
			p.next()
			nt := p.peek()
			if nt.Kind != TIdent {
				nt.Pos.invalid(p.d, "syntax", "expected member name after '.', found %q", nt.String())
			}
			p.next()
			if p.isPunct("(") {
				args := p.parseArgs()
				e = &Method{ExprBase: ExprBase{Pos: nt.Pos}, X: e, Name: nt.Text, Args: args}
			} else {
				e = &Member{ExprBase: ExprBase{Pos: nt.Pos}, X: e, Name: nt.Text, Field: -1}
			}
		case "++", "--":
			p.next()
			e = &IncDec{ExprBase: ExprBase{Pos: t.Pos}, X: e, Dec: t.Text == "--", Post: true}
		default:
			return e
		}
	}
}

func (p *parser) parsePrimary() Expr {
	if e := p.fe.parsePrimary(p); e != nil {
		return e
	}
	t := p.peek()
	switch t.Kind {
	case TNumber:
		p.next()
		return p.fe.numberLit(p, t)
	case TIdent:
		switch t.Text {
		case "true", "false":
			p.next()
			return &Lit{ExprBase: ExprBase{Pos: t.Pos}, V: boolValue(t.Text == "true")}
		}
		if p.fe.isReservedWord(p, t.Text) {
			t.Pos.invalid(p.d, "keyword", "keyword or reserved word %q used in an expression", t.Text)
		}
		p.next()
		return &Ident{ExprBase: ExprBase{Pos: t.Pos}, Name: t.Text}
	case TPunct:
		if t.Text == "(" {
			p.next()
			p.enter(t.Pos)
			e := p.parseExpr()
			p.leave()
			p.expect(")")
			return e
		}
	}
	t.Pos.invalid(p.d, "syntax", "unexpected %q in expression", t.String())
	return nil
}

// ---------------------------------------------------------------------------
// Statements
// ---------------------------------------------------------------------------

func (p *parser) parseBlock() *BlockStmt {
	lb := p.expect("{")
	p.enter(lb.Pos)
	defer p.leave()
	p.pushScope()
	defer p.popScope()
	b := &BlockStmt{Pos: lb.Pos}
	for !p.isPunct("}") {
		if p.peek().Kind == TEOF {
			p.peek().Pos.invalid(p.d, "syntax", "unexpected end of input in block")
		}
		b.Stmts = append(b.Stmts, p.parseStmt())
	}
	p.next()
	return b
}

func (p *parser) parseStmt() Stmt {
	t := p.peek()
	p.enter(t.Pos)
	defer p.leave()
	if t.Kind == TDirective {
		t.Pos.unsupported(p.d, "preprocessor directive inside a function: #%s", t.Text)
	}
	if t.Kind == TPunct {
		switch t.Text {
		case "{":
			return p.parseBlock()
		case ";":
			p.next()
			return &ExprStmt{Pos: t.Pos}
		}
	}
	if t.Kind == TIdent {
		switch t.Text {
		case "if":
			p.next()
			p.expect("(")
			c := p.parseExpr()
			p.expect(")")
			s := &IfStmt{Pos: t.Pos, Cond: c}
			s.Then = p.parseSubStmt()
			if p.acceptWord("else") {
				s.Else = p.parseSubStmt()
			}
			return s
		case "while":
			p.next()
			p.expect("(")
			s := &WhileStmt{Pos: t.Pos}
			p.pushScope()
			defer p.popScope()
			if p.fe.startsDecl(p) {
				s.CondDecl = p.parseCondDecl()
			} else {
				s.Cond = p.parseExpr()
			}
			p.expect(")")
			s.Body = p.parseSubStmt()
			return s
		case "do":
			p.next()
			s := &DoWhileStmt{Pos: t.Pos}
			s.Body = p.parseSubStmt()
			p.expectWord("while")
			p.expect("(")
			s.Cond = p.parseExpr()
			p.expect(")")
			p.expect(";")
			return s
		case "for":
			p.next()
			p.expect("(")
			s := &ForStmt{Pos: t.Pos}
			p.pushScope()
			defer p.popScope()
			if p.isPunct(";") {
				p.next()
			} else if p.fe.startsDecl(p) {
				s.Init = p.fe.parseDeclStmt(p)
			} else {
				e := p.parseExpr()
				p.expect(";")
				s.Init = &ExprStmt{Pos: e.base().Pos, X: e}
			}
			if !p.isPunct(";") {
				if p.fe.startsDecl(p) {
					s.CondDecl = p.parseCondDecl()
				} else {
					s.Cond = p.parseExpr()
				}
			}
			p.expect(";")
			if !p.isPunct(")") {
				s.Post = p.parseExpr()
			}
			p.expect(")")
			s.Body = p.parseSubStmt()
			return s
		case "switch":
			return p.parseSwitch()
		case "case", "default":
			t.Pos.invalid(p.d, "syntax", "%q label outside the statement list of a switch", t.Text)
		case "break":
			p.next()
			p.expect(";")
			return &BreakStmt{Pos: t.Pos}
		case "continue":
			p.next()
			p.expect(";")
			return &ContinueStmt{Pos: t.Pos}
		case "discard":
			if p.fe.hasDiscard() {
				p.next()
				p.expect(";")
				return &DiscardStmt{Pos: t.Pos}
			}
		case "return":
			p.next()
			s := &ReturnStmt{Pos: t.Pos}
			if !p.isPunct(";") {
				s.X = p.parseExpr()
			}
			p.expect(";")
			return s
		case "else":
			t.Pos.invalid(p.d, "syntax", "'else' without matching 'if'")
		}
	}
	if p.fe.startsDecl(p) {
		return p.fe.parseDeclStmt(p)
	}
	e := p.parseExpr()
	p.expect(";")
	return &ExprStmt{Pos: t.Pos, X: e}
}

// parseSubStmt parses the sub-statement of if/for/while/do: a declaration
// there would be scoped to the sub-statement only, so give it a scope.
func (p *parser) parseSubStmt() Stmt {
	if p.isPunct("{") {
		return p.parseBlock()
	}
	p.pushScope()
	defer p.popScope()
	s := p.parseStmt()
	if _, isDecl := s.(*DeclStmt); isDecl {
		// keep it in a block so that the checker scopes it
		return &BlockStmt{Pos: s.stmtPos(), Stmts: []Stmt{s}}
	}
	return s
}

// parseCondDecl parses "type name = initializer" in a loop condition.
func (p *parser) parseCondDecl() *VarDecl {
	// reuse the declaration parser on a synthetic basis: the dialect parses a
	// full declaration statement terminated by ';', which does not fit here;
	// the form is rare (never emitted by naga) so it is not modelled.
	p.peek().Pos.unsupported(p.d, "declaration used as a loop condition")
	return nil
}

func (p *parser) parseSwitch() Stmt {
	t := p.expectWord("switch")
	p.expect("(")
	s := &SwitchStmt{Pos: t.Pos, defaultIdx: -1}
	s.X = p.parseExpr()
	p.expect(")")
	lb := p.expect("{")
	p.enter(lb.Pos)
	defer p.leave()
	p.pushScope()
	defer p.popScope()
	for !p.isPunct("}") {
		c := p.peek()
		if c.Kind == TEOF {
			c.Pos.invalid(p.d, "syntax", "unexpected end of input in switch")
		}
		if c.Kind == TIdent && c.Text == "case" {
			p.next()
			x := p.parseExpr()
			p.expect(":")
			s.Body = append(s.Body, &CaseLabel{Pos: c.Pos, X: x})
			continue
		}
		if c.Kind == TIdent && c.Text == "default" {
			p.next()
			p.expect(":")
			s.Body = append(s.Body, &CaseLabel{Pos: c.Pos})
			continue
		}
		s.Body = append(s.Body, p.parseStmt())
	}
	p.next()
	return s
}
