// Package ctext is an independent front end (tokenizer, parser, type checker)
// and interpreter for the C-family shader text emitted by naga: GLSL now; MSL
// and HLSL dialects plug into the same core.  See README.md.
package ctext

import (
	"fmt"
)

// Program is a parsed, resolved and type-checked translation unit.
type Program struct {
	Dialect    Dialect
	Version    int    // GLSL: 430, 310 ...
	ES         bool   // GLSL: ES profile
	Profile    string // GLSL: "core", "compatibility", "es" or ""
	Extensions []string

	fe          *glslFE
	tt          typeTab
	lc          layoutCache
	structs     []*StructDef
	structTypes map[*StructDef]*Type
	blocks      []*IfaceBlock
	globals     []*GlobalVar
	funcs       []*Function
	idents      []IdentInfo

	localSize    [3]uint32
	localSizeSet [3]bool
	hasLocalSize bool
	privSize     int
	sharedSize   int
	usesDouble   bool

	hooks *dialectHooks // evaluator-side dialect hooks (hlsl_ext.go); nil for GLSL
	hl    *hlslState    // HLSL dialect state (hlsl_*.go)
	msl   *mslState     // MSL dialect state (msl_*.go)
}

// Parse tokenizes, parses, resolves and type-checks src.  The error is an
// *InvalidError (the text is not valid in the target language) or an
// *UnsupportedError (valid, but not modelled by this front end).
func Parse(d Dialect, src string) (prog *Program, err error) {
	defer func() {
		if r := recover(); r != nil {
			if b, ok := r.(bail); ok {
				prog, err = nil, b.err
				return
			}
			panic(r)
		}
	}()
	switch d {
	case GLSL:
		return parseGLSL(src), nil
	case HLSL:
		return parseHLSL(src), nil
	case MSL:
		return parseMSL(src), nil
	}
	return nil, fmt.Errorf("ctext: unknown dialect %d", int(d))
}

func parseGLSL(src string) *Program {
	prog := &Program{Dialect: GLSL, lc: layoutCache{}, structTypes: map[*StructDef]*Type{}, localSize: [3]uint32{1, 1, 1}}
	fe := &glslFE{}
	prog.fe = fe
	toks := lex(GLSL, src)
	p := &parser{d: GLSL, fe: fe, toks: toks, prog: prog}
	p.pushScope()
	decls := fe.parseTranslationUnit(p)
	p.popScope()
	for _, e := range prog.Extensions {
		switch e {
		case "GL_ARB_compute_shader:require", "GL_ARB_shader_storage_buffer_object:require":
		default:
			// an extension may add built-ins to an older version; do not gate
			// built-in functions by version then
			fe.lenient = true
		}
	}
	rules := &glslRules{fe: fe}
	c := &checker{prog: prog, d: GLSL, rules: rules}
	c.ev = &evaluator{sh: newShared(prog), constMode: true}
	c.push()
	rules.checkTop(c, decls)
	c.pop()
	c.checkRecursion()
	if prog.usesDouble {
		Pos{1, 1}.unsupported(GLSL, "double-precision types")
	}
	return prog
}

// ---------------------------------------------------------------------------
// reflection
// ---------------------------------------------------------------------------

// MemberInfo describes one member of an interface block (or, nested, of a
// structure / array element type inside it) with its byte placement.
type MemberInfo struct {
	Name         string
	Type         string
	Offset       int // bytes from the start of the enclosing block / struct
	Size         int // bytes (0 for a runtime-sized array)
	Align        int
	ArrayStride  int // arrays: bytes between elements
	ArrayLen     int // arrays: element count, -1 = runtime-sized, 0 = not an array
	MatrixStride int // matrices (and arrays of matrices): bytes between columns (rows if RowMajor)
	RowMajor     bool
	Members      []MemberInfo // struct-typed members (or array-of-struct element): nested placement
}

// BlockInfo describes an interface block.
type BlockInfo struct {
	Name     string
	Instance string
	Class    byte   // 's' storage (buffer), 'u' uniform
	Binding  int    // -1: no binding qualifier in the text
	Layout   string // "std430", "std140", "shared", "packed"
	ReadOnly bool
	Size     int // bytes of the fixed-size part
	Members  []MemberInfo
	// MSL: address space of the buffer argument ("device", "constant") and
	// the spelled type of the referenced object; Name is the argument name,
	// Instance the entry point, Class 'b' ([[buffer(n)]]), Binding n or -1.
	// HLSL: Class is the register class ('b', 't', 'u'), Binding the register
	// number, Layout "cbuffer" or "raw", Space "space<N>" (register space, "space0"
	// when the text has none), Type the resource kind ("cbuffer", "ConstantBuffer",
	// "ByteAddressBuffer", "RWByteAddressBuffer"); see also Program.HLSLResources.
	Space string
	Type  string
}

// GlobalInfo describes a module-scope variable.
type GlobalInfo struct {
	Name    string
	Type    string
	Storage string // "const", "shared", "global", "in", "out", "uniform"
	HasInit bool
}

// ParamInfo describes a function parameter.
type ParamInfo struct {
	Name string
	Type string
	Dir  string // "in", "out", "inout"
}

// FuncInfo describes a function.
type FuncInfo struct {
	Name        string
	Params      []ParamInfo
	Ret         string
	HasBody     bool
	UsesBarrier bool
}

// IdentInfo is one declared identifier.
type IdentInfo struct {
	Name  string
	Kind  string // "struct", "struct-member", "block", "block-member", "block-instance", "global", "function", "param", "local"
	Depth int    // 0 = global scope, 1 = function parameters and outermost body, 2.. nested blocks
	Pos   Pos
}

func memberInfo(name string, t *Type, off int, l *TypeLayout) MemberInfo {
	mi := MemberInfo{Name: name, Type: t.String(), Offset: off, Size: l.Size, Align: l.Align}
	inner, il := t, l
	if t.Kind == KArray {
		mi.ArrayStride = l.Stride
		mi.ArrayLen = t.N
		for inner.Kind == KArray {
			inner, il = inner.Elem, il.Elem
		}
	}
	switch inner.Kind {
	case KMat:
		mi.MatrixStride = il.Stride
		mi.RowMajor = il.RowMajor
	case KStruct:
		for i, f := range inner.Struct.Fields {
			mi.Members = append(mi.Members, memberInfo(f.Name, f.T, il.Fields[i].Off, il.Fields[i].L))
		}
	}
	return mi
}

// Blocks lists the interface blocks in declaration order.
func (p *Program) Blocks() []BlockInfo {
	if p.hl != nil {
		return p.hlslBlocks()
	}
	if p.msl != nil {
		return p.mslBlocks()
	}
	var out []BlockInfo
	for _, b := range p.blocks {
		bi := BlockInfo{Name: b.Name, Instance: b.Instance, Class: b.Class, Binding: b.Binding, Layout: b.Layout, Size: b.Size,
			ReadOnly: b.Class == 'u' || b.Quals.Readonly}
		for _, m := range b.Members {
			bi.Members = append(bi.Members, memberInfo(m.Name, m.T, m.Offset, m.Lay))
		}
		out = append(out, bi)
	}
	return out
}

// Globals lists module-scope variables in declaration order.
func (p *Program) Globals() []GlobalInfo {
	var out []GlobalInfo
	for _, g := range p.globals {
		out = append(out, GlobalInfo{Name: g.Name, Type: p.ts(g.T), Storage: g.Storage, HasInit: g.Init != nil})
	}
	return out
}

// Functions lists user functions (one entry per distinct signature).
func (p *Program) Functions() []FuncInfo {
	var out []FuncInfo
	for _, f := range p.funcs {
		fi := FuncInfo{Name: f.Name, Ret: p.ts(f.Ret), HasBody: f.Body != nil, UsesBarrier: f.hasBarrier}
		for _, prm := range f.Params {
			fi.Params = append(fi.Params, ParamInfo{Name: prm.Name, Type: p.ts(prm.T), Dir: prm.Dir})
		}
		out = append(out, fi)
	}
	return out
}

// Identifiers lists every declared identifier in source order.
func (p *Program) Identifiers() []IdentInfo {
	return append([]IdentInfo(nil), p.idents...)
}

// LocalSize returns the workgroup size ({1,1,1} components when unspecified).
func (p *Program) LocalSize() [3]uint32 { return p.localSize }

// IsCompute reports whether a local_size layout declaration was seen.
func (p *Program) IsCompute() bool { return p.hasLocalSize }
