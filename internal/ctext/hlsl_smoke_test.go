package ctext

import "testing"

func TestHLSLSmoke(t *testing.T) {
	w := hlslU(t, "", "", []string{
		"uv.x + 1u",
		"asuint(iv.y / 2)",
		"asuint(fv.x * 2.0)",
		"uint(iv.x) + uv.w",
	})
	wantW(t, w, uint32(8), -3, float32(3), uint32(39))
}
