package ctext

import (
	"reflect"
	"strings"
	"testing"
)

func TestMSLControlFlow(t *testing.T) {
	decls := `
int classify(int x) {
    int r = 0;
    switch(x) {
        case 1: {
            r = 10;
            break;
        }
        default: {
            r = 99;
            break;
        }
        case 3:
        case 4: {
            r = 30 + x;
            break;
        }
        case 5:
            r = 50;      // falls through
        case 6: {
            r = r + 6;
            break;
        }
    }
    return r;
}
uint loops(uint n) {
    uint s = 0u;
    for (uint i = 0u; i < n; i++) {
        if (i == 1u) { continue; }
        if (i == 4u) { break; }
        s += i * 10u;
    }
    uint k = 0u;
    do { k += 3u; } while (k < 7u);
    uint w = 100u;
    while (w > 1u) { w = w / 3u; s++; }
    bool loop_init = true;
    uint j = 0u;
    while(true) {
        if (!loop_init) { j += 1u; }
        loop_init = false;
        if (j < 3u) { } else { break; }
        switch(j) { case 1u: { continue; } default: { s += 1000u; break; } }
        s += 100u;
    }
    return s + k;
}
`
	checkMSLExprs(t, decls, "", []ew{
		{"static_cast<uint>(classify(1))", uint32(10)},
		{"static_cast<uint>(classify(2))", uint32(99)},
		{"static_cast<uint>(classify(3))", uint32(33)},
		{"static_cast<uint>(classify(4))", uint32(34)},
		{"static_cast<uint>(classify(5))", uint32(56)},
		{"static_cast<uint>(classify(6))", uint32(6)},
		{"static_cast<uint>(classify(-2))", uint32(99)},
		// for: 0 + 20 + 30 = 50; do-while: 3,6,9 -> k = 9; while: 33, 11, 3, 1 -> 4 steps;
		// last loop: j = 0 -> 1100, j = 1 -> continue, j = 2 -> 1100: 2200
		{"loops(6u)", uint32(50 + 9 + 4 + 2200)},
	})
}

func TestMSLThreadgroupAndBarriers(t *testing.T) {
	src := mslHdr + `
struct Arr { uint inner[8]; };
kernel void k(
  uint li [[thread_index_in_threadgroup]]
, metal::uint3 wid [[threadgroup_position_in_grid]]
, metal::uint3 gid [[thread_position_in_grid]]
, metal::uint3 nw [[threadgroups_per_grid]]
, metal::uint3 lid [[thread_position_in_threadgroup]]
, device type_o& o [[buffer(0)]]
, device type_o const& a [[buffer(1)]]
) {
    threadgroup Arr tmp;
    threadgroup metal::atomic_uint counter;
    if (metal::all(lid == metal::uint3(0u))) {
        metal::atomic_store_explicit(&counter, 0, metal::memory_order_relaxed);
    }
    tmp.inner[li] = a[wid.x * 8u + li];
    metal::threadgroup_barrier(metal::mem_flags::mem_threadgroup);
    for (uint s = 4u; s > 0u; s = s >> 1u) {
        if (li < s) { tmp.inner[li] += tmp.inner[li + s]; }
        metal::threadgroup_barrier(metal::mem_flags::mem_threadgroup);
    }
    uint old = metal::atomic_fetch_add_explicit(&counter, li + 1u, metal::memory_order_relaxed);
    metal::threadgroup_barrier(metal::mem_flags::mem_threadgroup | metal::mem_flags::mem_device);
    if (li == 0u) {
        o[wid.x * 2u] = tmp.inner[0];
        o[wid.x * 2u + 1u] = metal::atomic_load_explicit(&counter, metal::memory_order_relaxed) + nw.x * 100u + gid.x * 0u;
    }
}
`
	p := mustParseMSL(t, src)
	for _, rev := range []bool{false, true} {
		out := zeros(16)
		in := u32s(1, 2, 3, 4, 5, 6, 7, 8, 10, 20, 30, 40, 50, 60, 70, 80)
		res := runMSL(t, p, RunConfig{NumWorkgroups: [3]uint32{2, 1, 1}, LocalSize: [3]uint32{8, 1, 1}, ReverseOrder: rev,
			Buffers: map[Slot][]byte{{Class: 'b', Index: 0}: out, {Class: 'b', Index: 1}: in}})
		clean(t, res)
		if got := words32(out); !reflect.DeepEqual(got, []uint32{36, 236, 360, 236}) {
			t.Errorf("rev=%v: got %v", rev, got)
		}
		if res.Invocations != 16 {
			t.Errorf("invocations = %d", res.Invocations)
		}
	}
	// uninitialised threadgroup memory is indeterminate
	src2 := mslHdr + `
kernel void k(uint li [[thread_index_in_threadgroup]], device type_o& o [[buffer(0)]]) {
    threadgroup uint t;
    threadgroup uint z;
    if (li == 0u) { z = 5u; }
    metal::threadgroup_barrier(metal::mem_flags::mem_threadgroup);
    o[li] = z;
    o[li + 2u] = t;
}
`
	p2 := mustParseMSL(t, src2)
	out := zeros(16)
	res := runMSL(t, p2, RunConfig{LocalSize: [3]uint32{2, 1, 1}, Buffers: map[Slot][]byte{{Class: 'b', Index: 0}: out}})
	if len(res.Poison) == 0 || !strings.Contains(res.Poison[0], "threadgroup memory that was never written") {
		t.Errorf("want a poison report for the threadgroup read, got %v", res.Poison)
	}
	if getU32(out, 0) != 5 || getU32(out, 1) != 5 {
		t.Errorf("z: %v", words32(out))
	}
	// a barrier that part of the threadgroup does not reach
	src3 := mslHdr + `
kernel void k(uint li [[thread_index_in_threadgroup]], device type_o& o [[buffer(0)]]) {
    if (li == 0u) { return; }
    metal::threadgroup_barrier(metal::mem_flags::mem_threadgroup);
    o[li] = 1u;
}
`
	res = runMSL(t, mustParseMSL(t, src3), RunConfig{LocalSize: [3]uint32{2, 1, 1}, Buffers: map[Slot][]byte{{Class: 'b', Index: 0}: zeros(8)}})
	if !strings.Contains(res.Trap, "threadgroup_barrier reached by 1 threads") {
		t.Errorf("want a divergent-barrier trap, got %q", res.Trap)
	}
	// threadgroup reference argument
	src4 := mslHdr + `
void bump(threadgroup uint& x, uint by) { x = x + by; }
kernel void k(uint li [[thread_index_in_threadgroup]], threadgroup uint& shared_x [[threadgroup(0)]], device type_o& o [[buffer(0)]]) {
    if (li == 0u) { shared_x = 40u; }
    metal::threadgroup_barrier(metal::mem_flags::mem_threadgroup);
    if (li == 1u) { bump(shared_x, 2u); }
    metal::threadgroup_barrier(metal::mem_flags::mem_threadgroup);
    o[li] = shared_x;
}
`
	out = zeros(8)
	res = runMSL(t, mustParseMSL(t, src4), RunConfig{LocalSize: [3]uint32{2, 1, 1}, Buffers: map[Slot][]byte{{Class: 'b', Index: 0}: out}})
	clean(t, res)
	if !reflect.DeepEqual(words32(out), []uint32{42, 42}) {
		t.Errorf("threadgroup argument: %v", words32(out))
	}
}

func TestMSLTemplatesAndAtomics(t *testing.T) {
	src := mslHdr + `
struct R { uint old_value; bool exchanged; char _pad2[3]; };
struct RI { int old_value; bool exchanged; char _pad2[3]; };
template <typename A>
RI cas(device A *atomic_ptr, int cmp, int v) {
    bool swapped = metal::atomic_compare_exchange_weak_explicit(atomic_ptr, &cmp, v, metal::memory_order_relaxed, metal::memory_order_relaxed);
    return RI{cmp, swapped};
}
template <typename A>
R cas(device A *atomic_ptr, uint cmp, uint v) {
    bool swapped = metal::atomic_compare_exchange_weak_explicit(atomic_ptr, &cmp, v, metal::memory_order_relaxed, metal::memory_order_relaxed);
    return R{cmp, swapped};
}
template <typename A>
R cas(threadgroup A *atomic_ptr, uint cmp, uint v) {
    bool swapped = metal::atomic_compare_exchange_weak_explicit(atomic_ptr, &cmp, v, metal::memory_order_relaxed, metal::memory_order_relaxed);
    return R{cmp, swapped};
}
struct At { metal::atomic_uint u; metal::atomic_int i; metal::atomic_uint arr[2]; };
kernel void k(device At& at [[buffer(0)]], device type_o& o [[buffer(1)]]) {
    threadgroup metal::atomic_uint tg;
    metal::atomic_store_explicit(&tg, 7u, metal::memory_order_relaxed);
    R r1 = cas(&at.u, 5u, 9u);          // matches: 5 -> 9
    R r2 = cas(&at.u, 5u, 11u);         // no match: old 9
    RI r3 = cas(&at.i, -3, 4);          // matches
    R r4 = cas(&tg, 7u, 8u);
    o[0] = r1.old_value * 10u + static_cast<uint>(r1.exchanged);
    o[1] = r2.old_value * 10u + static_cast<uint>(r2.exchanged);
    o[2] = static_cast<uint>(r3.old_value) + static_cast<uint>(r3.exchanged);
    o[3] = r4.old_value * 10u + metal::atomic_load_explicit(&tg, metal::memory_order_relaxed);
    o[4] = metal::atomic_fetch_max_explicit(&at.i, 2, metal::memory_order_relaxed);   // old 4, stays 4
    o[5] = metal::atomic_fetch_min_explicit(&at.i, -9, metal::memory_order_relaxed);  // old 4 -> -9
    o[6] = metal::atomic_fetch_sub_explicit(&at.arr[1], 1u, metal::memory_order_relaxed); // 0 - 1 wraps
    o[7] = metal::atomic_exchange_explicit(&at.arr[0], 3u, metal::memory_order_relaxed) + metal::atomic_fetch_xor_explicit(&at.arr[0], 1u, metal::memory_order_relaxed);
    o[8] = metal::atomic_fetch_or_explicit(&at.u, 6u, metal::memory_order_relaxed) + metal::atomic_fetch_and_explicit(&at.u, 12u, metal::memory_order_relaxed);
}
`
	p := mustParseMSL(t, src)
	at := cat(u32s(5), i32s(-3), u32s(100, 0))
	out := zeros(36)
	res := runMSL(t, p, RunConfig{Buffers: map[Slot][]byte{{Class: 'b', Index: 0}: at, {Class: 'b', Index: 1}: out}})
	clean(t, res)
	want := []uint32{51, 90, 0xFFFFFFFD + 1, 78, 4, 4, 0, 103, 9 + 15}
	if got := words32(out); !reflect.DeepEqual(got, want) {
		t.Errorf("out = %v, want %v", got, want)
	}
	// u: 9 | 6 = 15, & 12 = 12 ; i: -9 ; arr: 3 ^ 1 = 2, 0xFFFFFFFF
	if got := words32(at); !reflect.DeepEqual(got, []uint32{12, 0xFFFFFFF7, 2, 0xFFFFFFFF}) {
		t.Errorf("at = %#x", got)
	}
	if res.Info["atomic.compare_exchange_weak"] != 4 {
		t.Errorf("Info: %v", res.Info)
	}
	// four instantiations, each once
	n := 0
	for _, f := range p.Functions() {
		if f.Name == "cas" {
			n++
		}
	}
	if n != 3 {
		t.Errorf("want 3 instantiated specialisations of cas (device uint, device int, threadgroup uint), got %d: %+v", n, p.Functions())
	}
}

func TestMSLBufferBinding(t *testing.T) {
	src := mslHdr + `
struct _mslBufferSizes { uint size0; uint size3; };
struct P { metal::float2 pos; uint id; char _pad2[4]; };
typedef P type_3[1];
struct Hdr { uint n; uint pad; type_3 items; };
uint len0(constant _mslBufferSizes& _buffer_sizes) { return 1 + (_buffer_sizes.size0 - 8 - 16) / 16; }
kernel void k(device Hdr& h [[user(fake0)]], device type_o& raw [[user(fake0)]], constant _mslBufferSizes& _buffer_sizes [[user(fake0)]]) {
    h.n = len0(_buffer_sizes);
    raw[0] = 1 + (_buffer_sizes.size3 - 0 - 4) / 4;
    uint i = 2u;
    if (uint(i) < 1 + (_buffer_sizes.size0 - 8 - 16) / 16) { h.items[i].id = 77u; }
    raw[1] = uint(9) < 1 + (_buffer_sizes.size3 - 0 - 4) / 4 ? raw[9] : DefaultConstructible();
    raw[2] = h.items[metal::min(unsigned(5), (_buffer_sizes.size0 - 8 - 16) / 16)].id;
}
`
	p := mustParseMSL(t, src)
	h := zeros(8 + 3*16)
	raw := zeros(20)
	res := runMSL(t, p, RunConfig{BlockByName: map[string][]byte{"h": h, "raw": raw}, SizesFromName: map[string]string{"size0": "h", "size3": "raw"}})
	clean(t, res)
	if getU32(h, 0) != 3 || getU32(h, 2+2*4+2) != 77 {
		t.Errorf("h = %v", words32(h))
	}
	if got := words32(raw)[:3]; !reflect.DeepEqual(got, []uint32{5, 0, 77}) {
		t.Errorf("raw = %v", got)
	}
	// explicit slots and SizesFrom
	src2 := strings.ReplaceAll(strings.ReplaceAll(strings.ReplaceAll(src, "h [[user(fake0)]]", "h [[buffer(4)]]"), "raw [[user(fake0)]]", "raw [[buffer(2)]]"), "_buffer_sizes [[user(fake0)]]", "_buffer_sizes [[buffer(30)]]")
	p2 := mustParseMSL(t, src2)
	h, raw = zeros(8+3*16), zeros(20)
	s4, s2 := Slot{Class: 'b', Index: 4}, Slot{Class: 'b', Index: 2}
	res = runMSL(t, p2, RunConfig{Buffers: map[Slot][]byte{s4: h, s2: raw}, SizesFrom: map[string]Slot{"size0": s4, "size3": s2}})
	clean(t, res)
	if getU32(h, 0) != 3 || getU32(raw, 0) != 5 {
		t.Errorf("h = %v raw = %v", words32(h), words32(raw))
	}
	// the sizes buffer bound explicitly wins
	h, raw = zeros(8+3*16), zeros(20)
	res = runMSL(t, p2, RunConfig{Buffers: map[Slot][]byte{s4: h, s2: raw, {Class: 'b', Index: 30}: u32s(8+2*16, 8)}})
	clean(t, res)
	if getU32(h, 0) != 2 || getU32(raw, 0) != 2 {
		t.Errorf("explicit sizes: h = %v raw = %v", words32(h), words32(raw))
	}
	// a member that was not provided is poison when it is used
	h, raw = zeros(8+3*16), zeros(20)
	res = runMSL(t, p2, RunConfig{Buffers: map[Slot][]byte{s4: h, s2: raw}, SizesFrom: map[string]Slot{"size0": s4}})
	if len(res.Poison) == 0 || !strings.Contains(strings.Join(res.Poison, ";"), "size3 of _mslBufferSizes was not provided") {
		t.Errorf("want poison for the missing size, got %v", res.Poison)
	}
	// an unbound buffer traps on access
	res = runMSL(t, p2, RunConfig{Buffers: map[Slot][]byte{s4: h}, SizesFrom: map[string]Slot{"size0": s4, "size3": s4}})
	if !strings.Contains(res.Trap, "raw which has no buffer bound") {
		t.Errorf("want an unbound-buffer trap, got %q", res.Trap)
	}
}

func TestMSLReflection(t *testing.T) {
	src := mslHdr + `
struct S { metal::float4 pos [[position]]; float v [[user(loc0)]]; };
constant float K = 2.0;
float helper(thread float& acc, float x) { float tmp = x * K; acc += tmp; return acc; }
vertex S vs(uint vi [[vertex_id]]) { return S { metal::float4(0.0), 1.0 }; }
fragment metal::float4 fs(S in [[stage_in]]) { return in.pos; }
kernel void cs(metal::uint3 gid [[thread_position_in_grid]], device type_f& o [[buffer(0)]]) {
    float acc = 0.0;
    { float inner = helper(acc, 3.0); o[gid.x] = inner; }
}
`
	p := mustParseMSL(t, src)
	var stages []string
	for _, e := range p.EntryPoints() {
		stages = append(stages, e.Stage+" "+e.Name)
	}
	if strings.Join(stages, ",") != "vertex vs,fragment fs,kernel cs" {
		t.Errorf("entry points: %v", stages)
	}
	ep := p.EntryPoints()[2]
	if ep.Args[0].Builtin != "thread_position_in_grid" || ep.Args[0].Type != "uint3" || ep.Args[1].Buffer != 0 || ep.Args[1].Type != "float[1]" {
		t.Errorf("cs args: %+v", ep.Args)
	}
	var fns []string
	for _, f := range p.Functions() {
		s := f.Ret + " " + f.Name + "("
		for i, prm := range f.Params {
			if i > 0 {
				s += ", "
			}
			s += prm.Dir + " " + prm.Type
		}
		fns = append(fns, s+")")
	}
	wantFns := "float helper(ref float, in float);S vs(in uint);float4 fs(in S);void cs(in uint3, ref float[1])"
	if strings.Join(fns, ";") != wantFns {
		t.Errorf("functions:\n got  %s\n want %s", strings.Join(fns, ";"), wantFns)
	}
	idents := map[string]string{}
	for _, id := range p.Identifiers() {
		idents[id.Name] = id.Kind + "/" + itoa(id.Depth)
	}
	for name, want := range map[string]string{"S": "struct/0", "pos": "struct-member/1", "K": "global/0", "helper": "function/0", "acc": "local/1",
		"tmp": "local/1", "inner": "local/2", "gid": "param/1", "type_f": "typedef/0", "DefaultConstructible": "struct/0", "cs": "function/0"} {
		if idents[name] != want && !(name == "acc" && idents[name] == "param/1") {
			t.Errorf("identifier %s: %q, want %q", name, idents[name], want)
		}
	}
	if g := p.Globals(); len(g) != 1 || g[0].Name != "K" || g[0].Storage != "const" || g[0].Type != "float" {
		t.Errorf("globals: %+v", g)
	}
	// run the kernel of a text that also has vertex / fragment functions
	out := zeros(8)
	res := runMSL(t, p, RunConfig{Entry: "cs", LocalSize: [3]uint32{2, 1, 1}, Buffers: map[Slot][]byte{{Class: 'b', Index: 0}: out}})
	clean(t, res)
	if getF32(out, 0) != 6 || getF32(out, 1) != 6 {
		t.Errorf("out = %v", words32(out))
	}
}

func TestMSLDeterministicAndConcurrent(t *testing.T) {
	src := mslExprShader("", "", []string{"in.uv[0] * 3u", "static_cast<uint>(in.iv[3] - 1)"})
	p := mustParseMSL(t, src)
	type outcome struct {
		words  []uint32
		poison string
		steps  int64
	}
	run := func() outcome {
		out := zeros(4 * 34)
		res, err := p.Run(RunConfig{NumWorkgroups: [3]uint32{1, 1, 1}, Buffers: map[Slot][]byte{{Class: 'b', Index: 0}: out, {Class: 'b', Index: 1}: stdInputBuf()}})
		if err != nil {
			t.Error(err)
		}
		return outcome{words32(out)[:2], strings.Join(res.Poison, ";"), res.Steps}
	}
	first := run()
	done := make(chan outcome, 8)
	for i := 0; i < 8; i++ {
		go func() { done <- run() }()
	}
	for i := 0; i < 8; i++ {
		if o := <-done; !reflect.DeepEqual(o, first) {
			t.Errorf("run differs: %+v vs %+v", o, first)
		}
	}
}
