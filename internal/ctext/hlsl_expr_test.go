package ctext

import (
	"math"
	"testing"
)

// Expectations in this file are computed by hand from the HLSL reference.
// Inputs (see stdInputBuf): iv = (7, -7, 0, INT_MIN), uv = (7, 0xFFFFFFFF, 0, 32),
// fv = (1.5, -2.5, 0.0, 1e10).

func TestHLSLMatrixConventions(t *testing.T) {
	pre := `
  float2x3 M = float2x3(1, 2, 3, 4, 5, 6);          // rows (1,2,3) and (4,5,6)
  float3x2 N = float3x2(1, 2, 3, 4, 5, 6);          // rows (1,2), (3,4), (5,6)
  float2 rv = mul(float2(1, 10), M);                // row vector x M
  float2 cv = mul(M, float3(1, 10, 100));           // M x column vector
  float2x2 MN = mul(M, N);
  float3x3 NM = mul(N, M);
  float3x2 Mt = transpose(M);
  float2x3 MM = M * M;                              // component-wise
  float2x2 fromRows = float2x2(float2(1, 2), float2(3, 4));
  float2x3 W = M; W[1] = float3(7, 8, 9); W[0][2] = 30; W[1].y = 80;
`
	w := hlslU(t, "", pre, []string{
		"asuint(M[1].x)", "asuint(M[0][2])", "asuint(M[1][1])",
		"asuint(mul(float2(1, 10), M).x)", "asuint(mul(float2(1, 10), M).y)", "asuint(mul(float2(1, 10), M).z)",
		"asuint(cv.x)", "asuint(cv.y)",
		"asuint(MN[0][0])", "asuint(MN[0][1])", "asuint(MN[1][0])", "asuint(MN[1][1])",
		"asuint(NM[0].z)", "asuint(NM[1].y)", "asuint(NM[2].x)", "asuint(NM[2][2])",
		"asuint(Mt[2].x)", "asuint(Mt[2].y)", "asuint(Mt[0].y)",
		"asuint(MM[1][2])",
		"asuint(determinant(float2x2(1, 2, 3, 4)))",
		"asuint(fromRows[1].x)",
		"asuint(mul(2.0, M)[1][2])",
		"asuint(mul(float3(1, 2, 3), float3(4, 5, 6)))",
		"asuint(W[1].x)", "asuint(W[0].z)", "asuint(W[1][1])", "asuint(W[0].x)",
		"asuint(determinant(float3x3(2, 0, 0, 0, 3, 0, 0, 0, 4)))",
		"asuint(rv.x)",
	})
	wantW(t, w, float32(4), float32(3), float32(5),
		float32(41), float32(52), float32(63),
		float32(321), float32(654),
		float32(22), float32(28), float32(49), float32(64),
		float32(15), float32(26), float32(29), float32(51),
		float32(3), float32(6), float32(4),
		float32(36),
		float32(-2),
		float32(3),
		float32(12),
		float32(32),
		float32(7), float32(30), float32(80), float32(1),
		float32(24),
		float32(41))
}

func TestHLSLMulSizeErrors(t *testing.T) {
	for _, e := range []string{
		"mul(float3(1, 2, 3), float2x3(1, 2, 3, 4, 5, 6))", // row vector must have 2 components
		"mul(float2x3(1, 2, 3, 4, 5, 6), float2(1, 2))",    // column vector must have 3 components
		"mul(float2x3(1, 2, 3, 4, 5, 6), float2x3(1, 2, 3, 4, 5, 6))",
	} {
		src := hlslExprShader("", "", []string{"asuint(" + e + ".x)"})
		if code, err := hlslParseErr(src); code != "no-overload" {
			t.Errorf("%s: got %q (%v), want no-overload", e, code, err)
		}
	}
}

func TestHLSLCastsAndZeroInit(t *testing.T) {
	decls := `
struct S { float3 a; int b; uint c[2]; bool d; };
typedef float ret_arr[3];
ret_arr mk(float x) { float r[3] = { x, x + 1.0, x + 2.0 }; return r; }
`
	pre := `
  S s = (S)0;
  S s1 = (S)1.5;
  float z[3] = (float[3])0;
  float q[3] = mk(5.0);
  int3 i3 = (int3)2.7;
  float2 t2 = (float2)float3(1, 2, 3);
`
	w := hlslU(t, decls, pre, []string{
		"asuint(s.a.y)", "asuint(s.b)", "s.c[1]", "uint(s.d)",
		"asuint(s1.a.z)", "asuint(s1.b)", "s1.c[0]", "uint(s1.d)",
		"asuint(z[2])", "asuint(q[0] + q[1] + q[2])",
		"asuint(i3.x + i3.y + i3.z)",
		"asuint(t2.x + t2.y)",
		"(uint)-1", "asuint((int)0x80000000u)", "asuint(int(3.9))", "asuint(int(-3.9))",
		"uint((bool)2)", "asuint(float(true))", "uint(true) + uint(true)",
		"asuint((float)iv.y)", "asuint((float)uv.y)", "uint(fv.x)", "asuint(int(fv.y))",
		"asuint(float3(1, 2, 3).zy.x)", "asuint(float4(float2(1, 2), 3, 4).w)", "asuint(float4(1, float2(2, 3), 4).z)",
		"asuint((1.5).xxx.z)", "asuint(int2(uint2(3u, 4u)).y)",
	})
	wantW(t, w, float32(0), 0, uint32(0), uint32(0),
		float32(1.5), 1, uint32(1), uint32(1),
		float32(0), float32(18),
		6,
		float32(3),
		uint32(0xFFFFFFFF), math.MinInt32, 3, -3,
		uint32(1), float32(1), uint32(2),
		float32(-7), float32(4294967296), uint32(1), -2,
		float32(3), float32(4), float32(3),
		float32(1.5), 4)
}

func TestHLSLImplicitConversions(t *testing.T) {
	decls := `
float half_of(float x) { return x / 2; }
int trunc_ret(float x) { return x; }
uint3 splat(uint3 v) { return v; }
`
	pre := `
  float f = 3;
  int i = 2.9;
  uint u = -1;
  float3 v = 2;
  float2 tr = float3(1, 2, 3);
  int x = true + true;
  uint4 cnt = 0; cnt += 2; cnt.y += 1.5;
  float acc = 1; acc += 1u; acc *= 2;
  int sh = 1; sh <<= 3u;
`
	w := hlslU(t, decls, pre, []string{
		"asuint(f)", "asuint(i)", "u", "asuint(v.x + v.y + v.z)", "asuint(tr.x + tr.y)", "asuint(x)",
		"uv.y + iv.y",              // int converted to uint: 0xFFFFFFFF + 0xFFFFFFF9
		"uint(iv.y < uv.x)",        // -7 converted to uint is not less than 7
		"uint(iv.y < iv.x)",        // signed comparison
		"asuint(fv.x + iv.x)",      // 1.5 + 7
		"asuint(half_of(3))",       // argument int -> float
		"asuint(trunc_ret(-2.75))", // return float -> int
		"splat(5).z",               // scalar -> uint3
		"cnt.x + cnt.y * 10u",      // 2 + 3*10 (2 + 1.5 = 3.5 -> 3)
		"asuint(acc)",              // (1 + 1) * 2
		"asuint(sh)",
		"asuint(uv.x * fv.x)",            // uint * float -> float 10.5
		"asuint(-uv.x)",                  // unary minus on uint wraps
		"uint(!iv.z) + uint(!iv.x) * 2u", // ! on int: (iv.z == 0), (iv.x == 0)
		"asuint(iv.x / 2u)",              // int / uint -> uint 3
		"asuint(iv.y / 2u)",              // (uint)-7 / 2 = 0x7FFFFFFC
		"asuint(float2(1, 2) + 1)",       // vector + int: float2(2, 3) truncated to its first component
	})
	wantW(t, w, float32(3), 2, uint32(0xFFFFFFFF), float32(6), float32(3), 2,
		uint32(0xFFFFFFF8), uint32(0), uint32(1), float32(8.5), float32(1.5), -2, uint32(5),
		uint32(32), float32(4), 8, float32(10.5), uint32(0xFFFFFFF9), uint32(1), uint32(3), uint32(0x7FFFFFFC), float32(2))
}

func TestHLSLOperators(t *testing.T) {
	w := hlslU(t, "", "", []string{
		"asuint(iv.y / 2)", "asuint(iv.y % 3)", "asuint(iv.x % -3)", // -3, -1, 1 (sign of the dividend)
		"uv.y / 2u", "uv.y % 10u",
		"1u << 33u",           // shift amount masked: 1 << 1
		"asuint(iv.w >> 35u)", // arithmetic, masked to 3
		"uv.y >> 36u",         // logical, masked to 4
		"asuint(iv.w - 1)",    // wraps
		"asuint(fv.y % 2.0)",  // float %: -0.5 (sign of the dividend)
		"asuint(7.5 % -2.0)",  // 1.5
		"uint(all(uint3(1u, 2u, 3u) == uint3(1u, 2u, 3u))) + uint(any(uint2(1u, 2u) != uint2(1u, 2u))) * 2u",
		"uint(all(float2(1, 2) < float2(2, 3))) + uint((float2(1, 5) < float2(2, 3)).y) * 2u",
		"(uv.x > 3u ? 10u : 20u) + (uv.z > 3u ? 1u : 2u)",
		"(bool3(true, false, true) ? uint3(1u, 2u, 3u) : uint3(4u, 5u, 6u)).y * 10u + (bool3(true, false, true) ? uint3(1u, 2u, 3u) : uint3(4u, 5u, 6u)).z",
		"uint((bool2(true, false) && bool2(true, true)).x) + uint((bool2(true, false) || bool2(false, false)).y) * 2u",
		"uint(iv.x == 7 & uv.x == 7u) + uint((iv.x == 0) | (uv.x == 7u)) * 2u", // == binds tighter than &
		"3u + 4u * 2u - 6u / 3u",
		"~uv.x ^ 0xFFu",
		"asuint(-fv.z)",                              // -0.0
		"uint(fv.z == -fv.z)",                        // 0 == -0
		"uint((fv.w * fv.w * fv.w * fv.w) > 3.0e38)", // +inf
		"uint(isnan((fv.w * fv.w * fv.w * fv.w) - (fv.w * fv.w * fv.w * fv.w)))",
		"uint(1.#INF > 3.0e38) + uint(-1.#INF < -3.0e38) * 2u", // FXC / DXC spelling of infinity
	})
	wantW(t, w, -3, -1, 1, uint32(0x7FFFFFFF), uint32(5), uint32(2), -268435456, uint32(0x0FFFFFFF), math.MaxInt32,
		float32(-0.5), float32(1.5), uint32(1), uint32(1), uint32(12), uint32(53), uint32(1), uint32(3), uint32(9), uint32(0xFFFFFF07),
		uint32(0x80000000), uint32(1), uint32(1), uint32(1), uint32(3))
}

func TestHLSLNoShortCircuit(t *testing.T) {
	// HLSL 2018: && || and ?: evaluate all their operands.
	decls := `
static int calls = 0;
bool side(bool r) { calls = calls + 1; return r; }
uint pick(uint v) { calls = calls + 10; return v; }
`
	pre := `
  bool a = false && side(true);
  bool b = true || side(false);
  uint c = true ? pick(1u) : pick(2u);
`
	w := hlslU(t, decls, pre, []string{"uint(a)", "uint(b)", "c", "asuint(calls)"})
	wantW(t, w, uint32(0), uint32(1), uint32(1), 22)
}

func TestHLSLIntrinsics(t *testing.T) {
	w := hlslU(t, "", "", []string{
		"firstbithigh(0x00F0u)", "firstbithigh(0u)", "asuint(firstbithigh(-8))", "asuint(firstbithigh(-1))", "asuint(firstbithigh(8))",
		"firstbitlow(0xF0u)", "firstbitlow(0u)", "countbits(0xF0F0u)", "reversebits(1u)",
		"asuint(sign(fv.y))", "asuint(sign(iv.x))", // int results
		"asuint(round(2.5))", "asuint(round(3.5))", "asuint(round(-0.5))", "asuint(round(-2.5))",
		"asuint(frac(fv.y))", "asuint(trunc(fv.y))", "asuint(floor(fv.y))", "asuint(ceil(fv.y))",
		"asuint(saturate(fv.y))", "asuint(saturate(fv.x))", "asuint(clamp(fv.x, 0.0, 1.0))", "asuint(clamp(iv.y, -3, 3))", "clamp(uv.y, 1u, 9u)",
		"asuint(min(iv.y, 3))", "max(uv.y, 3u)", "asuint(max(fv.x, fv.y))",
		"asuint(abs(iv.w))", "asuint(abs(fv.y))",
		"asuint(lerp(2.0, 4.0, 0.25))", "asuint(step(0.0, fv.y))", "asuint(step(0.0, fv.x))", "asuint(smoothstep(0.0, 2.0, 1.0))",
		"asuint(mad(2.0, 3.0, 1.0))", "asuint(mad(iv.x, 2, 1))",
		"asuint(dot(float3(1, 2, 3), float3(4, 5, 6)))", "asuint(dot(int2(3, -4), int2(2, 1)))",
		"asuint(cross(float3(1, 0, 0), float3(0, 1, 0)).z)", "asuint(length(float2(3, 4)))", "asuint(distance(float2(1, 1), float2(4, 5)))",
		"asuint(normalize(float2(3, 4)).y)",
		"f32tof16(1.0)", "asuint(f16tof32(0xC000u))", "asuint(f16tof32(0xFFFF3C00u))",
		"asuint(asfloat(0x3FC00000u))", "asuint(asint(fv.x))", "asuint(fmod(-7.5, 2.0))", "asuint(ldexp(fv.x, 3))",
		"asuint(sqrt(16.0))", "asuint(rsqrt(0.25))", "asuint(exp2(3.0))", "asuint(log2(8.0))", "asuint(pow(2.0, 3.0))", "asuint(rcp(4.0))",
		"uint(isnan(sqrt(-1.0))) + uint(isinf(rsqrt(0.0))) * 2u + uint(isnan(pow(-2.0, 2.0))) * 4u + uint(isinf(log(0.0))) * 8u",
		"asuint(min(sqrt(-1.0), 3.0))", "asuint(max(2.0, sqrt(-1.0)))", // NaN operand: the other one
		"asuint(reflect(float2(1, -1), float2(0, 1)).y)", "asuint(faceforward(float2(1, 2), float2(0, 1), float2(0, 1)).x)",
		"asuint(degrees(radians(90.0)))",
		"uint(all(bool2(true, true))) + uint(any(float2(0, 0))) * 2u + uint(all(1.0)) * 4u + uint(any(iv.xz)) * 8u",
		"asuint(transpose(float2x2(1, 2, 3, 4))[0].y)",
	})
	wantW(t, w, uint32(7), uint32(0xFFFFFFFF), 2, -1, 3,
		uint32(4), uint32(0xFFFFFFFF), uint32(8), uint32(0x80000000),
		-1, 1,
		float32(2), float32(4), float32(math.Copysign(0, -1)), float32(-2),
		float32(0.5), float32(-2), float32(-3), float32(-2),
		float32(0), float32(1), float32(1), -3, uint32(9),
		-7, uint32(0xFFFFFFFF), float32(1.5),
		math.MinInt32, float32(2.5),
		float32(2.5), float32(0), float32(1), float32(0.5),
		float32(7), 15,
		float32(32), 2,
		float32(1), float32(5), float32(5),
		approx(0.8),
		uint32(0x3C00), float32(-2), float32(1),
		float32(1.5), int32(0x3FC00000), float32(-1.5), float32(12),
		float32(4), approx(2), float32(8), float32(3), approx(8), approx(0.25),
		uint32(15),
		float32(3), float32(2),
		float32(1), float32(-1),
		approx(90),
		uint32(13),
		float32(3))
}

func TestHLSLOutInout(t *testing.T) {
	decls := `
void f(out int a, inout int b, int c) { a = c + 1; b = b + a; c = 100; }
void g(out float3 v, inout float m[2]) { v = float3(1, 2, 3); m[1] = m[0] + 1.0; }
void conv(out float r) { r = 2.5; }
float modf_wrap(float x, out float ip) { return modf(x, ip); }
`
	pre := `
  int x = 5, y = 10, z = 1;
  f(x, y, z);
  float3 vv; float mm[2] = { 4.0, 0.0 };
  g(vv, mm);
  int narrowed; conv(narrowed);            // out float copied back into an int: 2
  float ip; float fr = modf_wrap(-2.75, ip);
  float mant; float ex; mant = frexp(-12.0, ex);
  float s, c; sincos(0.0, s, c);
`
	w := hlslU(t, decls, pre, []string{
		"asuint(x)", "asuint(y)", "asuint(z)", "asuint(vv.z)", "asuint(mm[1])", "asuint(narrowed)",
		"asuint(fr)", "asuint(ip)", "asuint(mant)", "asuint(ex)", "asuint(s)", "asuint(c)",
	})
	// frexp: 12 = 0.75 * 2^4; the mantissa carries no sign (see hlsl_builtins.go)
	wantW(t, w, 2, 12, 1, float32(3), float32(5), 2, float32(-0.75), float32(-2), float32(0.75), float32(4), float32(0), float32(1))
}

func TestHLSLStatements(t *testing.T) {
	decls := `
uint sw(int k) {
  uint r = 0u;
  switch (k) {
    case 1: { r = 10u; break; }
    case 2:
    case 3: { r = 20u; break; }
    default: { r = 30u; break; }
    case 4: { return 40u; }
  }
  return r;
}
uint loops() {
  uint acc = 0u;
  for (uint i = 0u; i < 10u; i++) {
    if (i == 2u) { continue; }
    if (i == 6u) { break; }
    acc += i;                 // 0 + 1 + 3 + 4 + 5
  }
  int j = 0;
  while (true) { j++; if (j >= 4) { break; } }
  do { j += 10; } while (j < 30);  // 4 -> 14 -> 24 -> 34
  [loop] for (int k = 0; k < 2; ++k) { [branch] if (k == 1) { acc += 100u; } }
  {
    uint acc2 = acc;   // inner scope
    { uint acc = 1000u; acc2 += acc; }
    acc = acc2;
  }
  switch (j) { case 34: { while (true) { acc += 7u; if (acc > 0u) { break; } } break; } default: { break; } }
  return acc + uint(j);
}
`
	w := hlslU(t, decls, "", []string{"sw(1)", "sw(2)", "sw(3)", "sw(4)", "sw(9)", "loops()"})
	wantW(t, w, uint32(10), uint32(20), uint32(20), uint32(40), uint32(30), uint32(13+100+1000+7+34))
}

func TestHLSLGlobalsAndInit(t *testing.T) {
	decls := `
typedef int ret_a3[3];
ret_a3 mk3(int a, int b, int c) { int r[3] = { a, b, c }; return r; }
static const int C[3] = mk3(1, 2, 3);            // initialised by a function call at entry
static const float2 K2 = float2(1.5, 2.5);
static uint counter = 5u;
static float zeroed;                               // static without initialiser: zero
static int tab[2][3] = { { 1, 2, 3 }, { 4, 5, 6 } };
static const uint lits[4] = { 1u, 2u, 3u, 4u };
struct P { float2 a; int b[2]; };
static P pp = { 1.0, 2.0, 7, 8 };
static P qq = { float2(3.0, 4.0), { 9, 10 } };
void bump() { counter += 1u; }
`
	pre := "  bump(); bump();\n  int idx = iv.z + 2;\n"
	w := hlslU(t, decls, pre, []string{
		"asuint(C[idx] * 100 + C[0])", "asuint(K2.y)", "counter", "asuint(zeroed)", "asuint(tab[1][idx])", "asuint(tab[0][1])",
		"lits[idx]", "asuint(pp.a.y)", "asuint(pp.b[1])", "asuint(qq.a.x)", "asuint(qq.b[0])",
	})
	wantW(t, w, 301, float32(2.5), uint32(7), float32(0), 6, 2, uint32(3), float32(2), 8, float32(3), 9)
}
