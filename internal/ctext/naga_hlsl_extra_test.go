package ctext

import "testing"

// HLSL-specific WGSL cases: variants of cases that hit a known naga HLSL
// defect early (so that the rest of their expressions is still covered), and
// constructs whose HLSL lowering differs from the other backends (constant
// buffers with matCx2 members, num_workgroups through _NagaConstants, naga's
// helper functions).  Expectations are computed by hand from WGSL.

func TestNagaHLSLExtra(t *testing.T) {
	runNagaHLSLCases(t, []nagaCase{
		{
			name: "float builtins exact without sign",
			wgsl: outF + inF + `@compute @workgroup_size(1) fn main() {
  let x = a[0]; let y = a[1];          // -2.5, 1.75
  o[0] = floor(x); o[1] = ceil(x); o[2] = trunc(x); o[3] = fract(x);   // -3, -2, -2, 0.5
  o[4] = abs(x);
  o[7] = min(x, y); o[8] = max(x, y);
  o[9] = clamp(x, -1.0, 1.0); o[10] = saturate(y);
  o[11] = mix(2.0, 4.0, 0.25);         // 2.5
  o[12] = step(0.0, x); o[13] = step(0.0, y);
  o[14] = sqrt(16.0 * y * y / 3.0625); // sqrt(16) = 4
  o[15] = fma(x, 2.0, y);              // -3.25
  o[16] = round(y);                    // 2 (not a tie)
  o[17] = smoothstep(0.0, 2.0, 1.0);   // 0.5
  o[18] = floor(y) + ceil(y) * 10.0 + trunc(y) * 100.0 + fract(y); // 1 + 20 + 100 + 0.75
  o[19] = inverseSqrt(0.25);           // 2
  o[20] = exp2(3.0) + log2(8.0) + pow(2.0, 3.0); // 8 + 3 + 8
}`,
			bufs: map[gb][]byte{{0, 0}: zeros(84), {0, 1}: f32s(-2.5, 1.75)},
			want: map[gb][]any{{0, 0}: wordsOf(float32(-3), float32(-2), float32(-2), float32(0.5), float32(2.5), skip, skip, float32(-2.5), float32(1.75),
				float32(-1), float32(1), float32(2.5), float32(0), float32(1), float32(4), float32(-3.25), float32(2), float32(0.5), float32(121.75), approx(2), approx(19))},
		},
		{
			name: "sign of floats and ints",
			wgsl: outF + inF + `@compute @workgroup_size(1) fn main() {
  o[0] = sign(a[0]); o[1] = sign(a[1]); o[2] = sign(a[2]);   // -1, 1, 0
  o[3] = f32(sign(i32(a[0])));                                // integer sign: -1
  let v = sign(vec2<f32>(a[0], a[1]));
  o[4] = v.x + v.y * 10.0;                                    // -1 + 10
}`,
			bufs: map[gb][]byte{{0, 0}: zeros(20), {0, 1}: f32s(-2.5, 1.75, 0)},
			want: map[gb][]any{{0, 0}: wordsOf(float32(-1), float32(1), float32(0), float32(-1), float32(9))},
		},
		{
			name: "transcendental builtins without inverse hyperbolics",
			wgsl: outF + inF + `@compute @workgroup_size(1) fn main() {
  let x = a[0];                       // 0.5
  o[0] = sin(x); o[1] = cos(x); o[2] = tan(x);
  o[3] = asin(x); o[4] = acos(x); o[5] = atan(x); o[6] = atan2(x, 2.0);
  o[7] = sinh(x); o[8] = cosh(x); o[9] = tanh(x);
  o[13] = exp(x); o[14] = log(x); o[15] = pow(x, 3.0);
  o[16] = radians(x * 360.0); o[17] = degrees(x);
  o[18] = length(vec2<f32>(3.0, 4.0)) + distance(vec2<f32>(1.0, 1.0), vec2<f32>(4.0, 5.0));
  o[19] = normalize(vec3<f32>(0.0, 3.0, 4.0)).z;
}`,
			bufs: map[gb][]byte{{0, 0}: zeros(80), {0, 1}: f32s(0.5)},
			want: map[gb][]any{{0, 0}: wordsOf(approx(0.479425539), approx(0.877582562), approx(0.546302490), approx(0.523598776), approx(1.047197551), approx(0.463647609), approx(0.244978663),
				approx(0.521095305), approx(1.127625965), approx(0.462117157), skip, skip, skip,
				approx(1.648721271), approx(-0.693147181), approx(0.125), approx(3.141592654), approx(28.64788976), approx(10), approx(0.8))},
		},
		{
			name: "unpack without the snorm minimum",
			wgsl: outF + inU + `@compute @workgroup_size(1) fn main() {
  let p = unpack4x8unorm(a[0]);       // 0xFF000000 -> 0,0,0,1
  o[0] = p.x; o[1] = p.w;
  let q = unpack4x8snorm(a[1]);       // 0x00007F81 -> -1, 1, 0, 0
  o[2] = q.x; o[3] = q.y; o[4] = q.z;
  let r = unpack2x16float(a[2]);      // 0xC0003C00 -> 1, -2
  o[5] = r.x; o[6] = r.y;
  let s = unpack2x16unorm(a[3]);      // 0xFFFF0000 -> 0, 1
  o[7] = s.x; o[8] = s.y;
  let u = unpack2x16snorm(a[4]);      // 0x80017FFF -> 1, -32767/32767 = -1
  o[9] = u.x; o[10] = u.y;
  let k = unpack4x8unorm(a[5]);       // 0x00000033 -> 51/255 = 0.2
  o[11] = k.x;
}`,
			bufs: map[gb][]byte{{0, 0}: zeros(48), {0, 1}: u32s(0xFF000000, 0x7F81, 0xC0003C00, 0xFFFF0000, 0x80017FFF, 0x33)},
			want: map[gb][]any{{0, 0}: wordsOf(float32(0), float32(1), float32(-1), float32(1), float32(0), float32(1), float32(-2), float32(0), float32(1), float32(1), float32(-1), float32(0.2))},
		},
		{
			name: "unpack4x8snorm of -128",
			wgsl: outF + inU + `@compute @workgroup_size(1) fn main() {
  let q = unpack4x8snorm(a[0]);       // 0x80 -> max(-128 / 127, -1) = -1
  o[0] = q.x;
}`,
			bufs: map[gb][]byte{{0, 0}: zeros(4), {0, 1}: u32s(0x80)},
			want: map[gb][]any{{0, 0}: wordsOf(float32(-1))},
		},
		{
			name: "one-dimensional private and workgroup arrays",
			wgsl: outU + inU + `
var<private> pa: array<u32, 3> = array<u32, 3>(1u, 2u, 3u);
var<workgroup> wa: array<u32, 4>;
@compute @workgroup_size(1) fn main() {
  pa[a[0]] = 7u;
  wa[1] = pa[0] + pa[1] + pa[2];
  o[0] = wa[1];                     // 1 + 7 + 3
}`,
			bufs: map[gb][]byte{{0, 0}: zeros(4), {0, 1}: u32s(1)},
			want: map[gb][]any{{0, 0}: wordsOf(uint32(11))},
		},
		{
			name: "num_workgroups and workgroup_id",
			wgsl: outU + `@compute @workgroup_size(2, 1, 1) fn main(@builtin(num_workgroups) nwg: vec3<u32>, @builtin(workgroup_id) wid: vec3<u32>, @builtin(local_invocation_index) li: u32) {
  if (li == 0u) {
    o[wid.x + wid.y * nwg.x] = nwg.x * 100u + nwg.y * 10u + nwg.z + wid.x * 1000u + wid.y * 10000u;
  }
}`,
			groups: [3]uint32{3, 2, 1},
			bufs:   map[gb][]byte{{0, 0}: zeros(24)},
			want:   map[gb][]any{{0, 0}: wordsOf(uint32(321), uint32(1321), uint32(2321), uint32(10321), uint32(11321), uint32(12321))},
		},
		{
			name: "uniform matrices of every column height",
			wgsl: outF + `
struct U {
  m22: mat2x2<f32>,       // offset 0,  size 16
  m32: mat3x2<f32>,       // offset 16, size 24
  m42: mat4x2<f32>,       // offset 40, size 32
  m23: mat2x3<f32>,       // offset 80, size 32 (align 16)
  m33: mat3x3<f32>,       // offset 112, size 48
  m44: mat4x4<f32>,       // offset 160, size 64
  m43: mat4x3<f32>,       // offset 224, size 64
  s: f32,                 // offset 288
}
@group(0) @binding(1) var<uniform> u: U;
@compute @workgroup_size(1) fn main() {
  o[0] = u.m22[1].x;              // word 2
  o[1] = u.m32[2].y;              // (16 + 16 + 4) / 4 = 9
  o[2] = u.m42[3][0];             // (40 + 24) / 4 = 16
  o[3] = u.m23[1].z;              // (80 + 16 + 8) / 4 = 26
  o[4] = u.m33[2][1];             // (112 + 32 + 4) / 4 = 37
  o[5] = u.m44[3].w;              // (160 + 48 + 12) / 4 = 55
  o[6] = u.m43[3].z;              // (224 + 48 + 8) / 4 = 70
  o[7] = u.s;                     // 72
  let v = u.m32 * vec3<f32>(1.0, 10.0, 100.0);   // columns (4,5), (6,7), (8,9): x = 4 + 60 + 800, y = 5 + 70 + 900
  o[8] = v.x; o[9] = v.y;
  let w = vec2<f32>(1.0, 10.0) * u.m32;          // (4 + 50, 6 + 70, 8 + 90)
  o[10] = w.x + w.y + w.z;
  let t = u.m22 * u.m22;                          // columns (0,1), (2,3): [0] = (0*0 + 2*1, 1*0 + 3*1) = (2, 3)
  o[11] = t[0].x + t[0].y * 10.0 + t[1].x * 100.0 + t[1].y * 1000.0;  // [1] = (0*2 + 2*3, 1*2 + 3*3) = (6, 11)
  let c = u.m43[a_index()];
  o[12] = c.x + c.y + c.z;                        // column 2 of m43: words 64, 65, 66
}
fn a_index() -> i32 { return 2; }`,
			bufs: map[gb][]byte{{0, 0}: zeros(52), {0, 1}: seqF32(76)},
			want: map[gb][]any{{0, 0}: wordsOf(float32(2), float32(9), float32(16), float32(26), float32(37), float32(55), float32(70), float32(72),
				float32(864), float32(975), float32(54+76+98), float32(2+30+600+11000), float32(64+65+66))},
		},
		{
			name: "uniform nested structs and arrays of matCx2",
			wgsl: outF + `
struct Inner { v: vec3<f32>, k: f32 }                 // size 16
struct U {
  a: array<Inner, 2>,          // offset 0, stride 16
  am: array<mat2x2<f32>, 2>,   // offset 32, stride 16
  t: vec2<f32>,                // offset 64
  inner: Inner,                // offset 80 (align 16)
  arr: array<vec4<f32>, 2>,    // offset 96
}
@group(0) @binding(1) var<uniform> u: U;
@compute @workgroup_size(1) fn main() {
  o[0] = u.a[1].v.z + u.a[1].k;        // words 6 + 7
  o[1] = u.am[1][1].y;                 // (32 + 16 + 8 + 4) / 4 = 15
  o[2] = u.t.y;                        // 17
  o[3] = u.inner.k;                    // 23
  o[4] = u.arr[1].w;                   // (96 + 16 + 12) / 4 = 31
  let m = u.am[0];
  o[5] = m[1].x;                       // (32 + 8) / 4 = 10
  let whole = u.inner;
  o[6] = whole.v.y;                    // 21
}`,
			bufs: map[gb][]byte{{0, 0}: zeros(28), {0, 1}: seqF32(32)},
			want: map[gb][]any{{0, 0}: wordsOf(float32(13), float32(15), float32(17), float32(23), float32(31), float32(10), float32(21))},
		},
		{
			name: "storage matCx2 and mat3x3 read modify write",
			wgsl: `
struct S { m32: mat3x2<f32>, m33: mat3x3<f32>, tail: f32 }   // m32 at 0 (24 bytes), m33 at 32 (48 bytes), tail at 80
@group(0) @binding(0) var<storage, read_write> s: S;
@compute @workgroup_size(1) fn main() {
  s.m32[1] = s.m32[0] + s.m32[2];       // (0+4, 1+5)
  s.m32[2].y = 50.0;
  s.m33[1][2] = s.m33[2][0] + 1.0;      // word (32 + 16 + 8) / 4 = 14 <- word 16 + 1
  let t = transpose(s.m33)[0];          // row 0 of m33: words 8, 12, 16
  s.tail = t.x + t.y + t.z;
  s.m33[0] = s.m33 * vec3<f32>(1.0, 0.0, 0.0);   // column 0 unchanged
}`,
			bufs: map[gb][]byte{{0, 0}: seqF32(24)},
			want: map[gb][]any{{0, 0}: wordsOf(float32(0), float32(1), float32(4), float32(6), float32(4), float32(50), skip, skip,
				float32(8), float32(9), float32(10), skip, float32(12), float32(13), float32(17), skip, float32(16), float32(17), float32(18), skip, float32(36))},
		},
		{
			name: "integer division helpers",
			wgsl: outI + inI + `@compute @workgroup_size(1) fn main() {
  o[0] = a[0] / a[1];                   // 7 / 0 = 7 (WGSL: x / 0 = x)
  o[1] = a[0] % a[1];                   // 7 % 0 = 0
  o[2] = a[2] / a[3];                   // INT_MIN / -1 = INT_MIN
  o[3] = a[2] % a[3];                   // INT_MIN % -1 = 0
  o[4] = a[4] / a[5];                   // -7 / 2 = -3
  o[5] = a[4] % a[5];                   // -7 % 2 = -1
  o[6] = a[0] % a[3];                   // 7 % -1 = 0
  let v = vec2<i32>(a[0], a[4]) / vec2<i32>(a[1], a[5]);
  o[7] = v.x * 10 + v.y;                // 7, -3
  o[8] = i32(u32(a[0]) / u32(a[1])) + i32(u32(a[0]) % u32(a[1]));  // unsigned: 7 / 0 = 7, 7 % 0 = 0
}`,
			bufs: map[gb][]byte{{0, 0}: zeros(36), {0, 1}: i32s(7, 0, -2147483648, -1, -7, 2)},
			want: map[gb][]any{{0, 0}: wordsOf(7, 0, -2147483648, 0, -3, -1, 0, 67, 7)},
		},
		{
			name: "shift amounts and extract insert corner cases",
			wgsl: outU + inU + `@compute @workgroup_size(1) fn main() {
  o[0] = a[0] << (a[1] & 31u);          // 1 << 31
  o[1] = a[2] >> (a[3] % 32u);          // 0x80000000 >> 31 = 1
  o[2] = extractBits(a[2], 31u, 1u);    // 1
  o[3] = extractBits(a[2], 32u, 1u);    // offset clamped: 0
  o[4] = insertBits(0u, 0xFFFFFFFFu, 28u, 8u);  // count clamped to 4: 0xF0000000
  o[5] = insertBits(a[2], 1u, 0u, 0u);  // unchanged
  o[6] = u32(extractBits(i32(a[4]), 4u, 4u));   // 0xF0: field 0xF sign-extended = -1
}`,
			bufs: map[gb][]byte{{0, 0}: zeros(28), {0, 1}: u32s(1, 31, 0x80000000, 31, 0xF0)},
			want: map[gb][]any{{0, 0}: wordsOf(uint32(0x80000000), uint32(1), uint32(1), uint32(0), uint32(0xF0000000), uint32(0x80000000), uint32(0xFFFFFFFF))},
		},
		{
			name: "struct with runtime array and restrict indexing in range",
			wgsl: `
struct Item { pos: vec3<f32>, id: u32 }
struct Buf { count: u32, items: array<Item> }
@group(0) @binding(0) var<storage, read_write> b: Buf;
@group(0) @binding(1) var<storage, read_write> o: array<u32>;
@compute @workgroup_size(1) fn main() {
  let n = arrayLength(&b.items);        // (16 + 3*16 - 16) / 16 = 3
  o[0] = n;
  for (var i = 0u; i < n; i++) {
    b.items[i].id = b.items[i].id + u32(b.items[i].pos.y);
  }
  let last = b.items[b.count];          // count = 2
  o[1] = last.id + u32(last.pos.z);
}`,
			bufs: map[gb][]byte{{0, 0}: cat(u32s(2, 0, 0, 0), f32s(1, 2, 3), u32s(10), f32s(4, 5, 6), u32s(20), f32s(7, 8, 9), u32s(30)), {0, 1}: zeros(8)},
			want: map[gb][]any{
				{0, 0}: wordsOf(uint32(2), skip, skip, skip, float32(1), float32(2), float32(3), uint32(12), float32(4), float32(5), float32(6), uint32(25), float32(7), float32(8), float32(9), uint32(38)),
				{0, 1}: wordsOf(uint32(3), uint32(47)),
			},
		},
		{
			name: "atomics signed and sub",
			wgsl: `
@group(0) @binding(0) var<storage, read_write> o: array<i32>;
@group(0) @binding(1) var<storage, read_write> s: array<atomic<i32>, 4>;
@group(0) @binding(2) var<storage, read_write> us: array<atomic<u32>, 2>;
var<workgroup> wi: atomic<i32>;
var<workgroup> wu: atomic<u32>;
@compute @workgroup_size(4) fn main(@builtin(local_invocation_index) li: u32) {
  let k = i32(li);
  atomicSub(&s[0], k + 1);           // 100 - 10
  atomicMin(&s[1], k - 2);           // 5 -> -2
  atomicMax(&s[2], k - 10);          // -20 -> -7
  atomicXor(&s[3], 1 << li);         // 0 -> 15
  atomicMax(&us[0], li);             // 0xFFFFFFF0 stays (unsigned)
  atomicMin(&us[1], 0xFFFFFFF0u + li);  // 0xFFFFFFFF -> 0xFFFFFFF0
  atomicAdd(&wi, -k);                // 0 -1 -2 -3 = -6
  atomicOr(&wu, 1u << (li * 4u));    // 0x1111
  workgroupBarrier();
  if (li == 0u) {
    o[0] = atomicLoad(&wi);
    o[1] = i32(atomicLoad(&wu));     // 0x1111
    let old = atomicExchange(&wi, 9);
    o[2] = old + atomicLoad(&wi);    // -6 + 9
    atomicStore(&wu, 77u);
    o[3] = i32(atomicAnd(&wu, 0x0Fu)) + i32(atomicLoad(&wu)) * 1000; // 77 + 13000
  }
}`,
			bufs: map[gb][]byte{{0, 0}: zeros(16), {0, 1}: i32s(100, 5, -20, 0), {0, 2}: u32s(0xFFFFFFF0, 0xFFFFFFFF)},
			want: map[gb][]any{{0, 0}: wordsOf(-6, 0x1111, 3, 13077), {0, 1}: wordsOf(90, -2, -7, 15), {0, 2}: wordsOf(uint32(0xFFFFFFF0), uint32(0xFFFFFFF0))},
		},
		{
			name: "vector helpers and bool conversions",
			wgsl: outI + inI + `@compute @workgroup_size(1) fn main() {
  let v = vec3<i32>(a[0], a[1], a[2]);     // 7, -7, 0
  let q = v / vec3<i32>(2, 0, 5);          // 3, -7, 0
  let r = v % vec3<i32>(4, 3, 0);          // 3, -1, 0
  o[0] = q.x * 100 + q.y * 10 + q.z;       // 300 - 70
  o[1] = r.x * 100 + r.y * 10 + r.z;       // 300 - 10
  let n = -v;
  o[2] = n.x + n.y * 10;                   // -7 + 70
  let b = v > vec3<i32>(0);
  o[3] = i32(b.x) + i32(b.y) * 10 + i32(all(b)) * 100 + i32(any(b)) * 1000 + i32(!b.z) * 10000;  // 1 + 0 + 0 + 1000 + 10000
  let f = vec3<f32>(v);
  let back = vec3<i32>(f * 1.5);           // 10, -10, 0
  o[4] = back.x - back.y;                  // 20
  let u = vec2<u32>(v.xy);                 // 7, 0xFFFFFFF9
  o[5] = i32(u.y >> 28u) + i32(u.x);       // 15 + 7
  o[6] = abs(a[3]) + (-a[3]) + a[3];       // INT_MIN (abs wraps, negation wraps): MIN + MIN + MIN = MIN
  o[7] = i32(f32(a[0]) > 6.5) + i32(bool(a[2])) * 10 + i32(bool(a[1])) * 100 + i32(u32(true));  // 1 + 0 + 100 + 1
  o[8] = select(a[0], a[1], a[2] == 0) + select(1, 2, false);   // -7 + 1
  let sv = select(vec2<i32>(1, 2), vec2<i32>(3, 4), a[0] > 0);  // scalar condition with vectors: (3, 4)
  o[9] = sv.x * 10 + sv.y;
  o[10] = countOneBits(a[1]) + reverseBits(a[4]) + firstTrailingBit(a[4]) + firstLeadingBit(a[4]);  // 30 + 0x08000000 + 4 + 4
  o[11] = clamp(a[1], -3, 3) + max(a[0], a[1]) * 10 + min(a[0], a[1]) * 100;   // -3 + 70 - 700
}`,
			bufs: map[gb][]byte{{0, 0}: zeros(48), {0, 1}: i32s(7, -7, 0, -2147483648, 16)},
			want: map[gb][]any{{0, 0}: wordsOf(230, 290, 63, 11001, 20, 22, -2147483648, 102, -6, 34, 30+0x08000000+4+4, -633)},
		},
		{
			name: "vector modf frexp and math on vectors",
			wgsl: outF + inF + `@compute @workgroup_size(1) fn main() {
  let v = vec2<f32>(a[0], a[1]);           // 2.75, -12.0
  let m = modf(v);
  o[0] = m.fract.x; o[1] = m.whole.x; o[2] = m.fract.y; o[3] = m.whole.y;   // 0.75, 2, -0, -12
  let f = frexp(v);
  o[4] = f.fract.x; o[5] = f32(f.exp.x); o[6] = f.fract.y; o[7] = f32(f.exp.y);  // 0.6875, 2, -0.75, 4
  let l = ldexp(v, vec2<i32>(1, -2));      // 5.5, -3
  o[8] = l.x; o[9] = l.y;
  let c = clamp(v, vec2<f32>(0.0), vec2<f32>(1.0)); o[10] = c.x + c.y;  // 1 + 0
  let mx = mix(vec2<f32>(0.0, 10.0), vec2<f32>(4.0, 20.0), 0.5); o[11] = mx.x + mx.y;   // 2 + 15
  let mv = mix(vec2<f32>(0.0, 10.0), vec2<f32>(4.0, 20.0), vec2<f32>(0.25, 1.0)); o[12] = mv.x + mv.y; // 1 + 20
  o[13] = dot(v, v);                       // 7.5625 + 144
  let fl = floor(v) + ceil(v) + trunc(v) + round(v); o[14] = fl.x; o[15] = fl.y;   // 2+3+2+3, -48
  o[16] = f32(all(v == v)) + f32(any(v != v)) * 10.0;
  o[17] = pow(2.0, a[2]) + exp2(a[2]);     // a[2] = 3: 16 (approx)
  o[18] = quantizeToF16(a[3]);             // 0.1 -> 0.0999755859375
  o[19] = sqrt(a[4]) * inverseSqrt(a[4]);  // 4: 1 (approx)
  o[20] = f32(i32(a[5])) + f32(u32(a[5])) + f32(i32(-a[5]));   // 7.9: 7 + 7 - 7
  o[21] = a[0] % 2.0 + a[1] % 5.0;         // 0.75 + -2
  o[22] = fma(a[0], 2.0, 1.0) + step(1.0, a[0]) + smoothstep(2.0, 3.0, a[0]);   // 6.5 + 1 + 0.84375
}`,
			bufs: map[gb][]byte{{0, 0}: zeros(92), {0, 1}: f32s(2.75, -12, 3, 0.1, 4, 7.9)},
			want: map[gb][]any{{0, 0}: wordsOf(float32(0.75), float32(2), float32(0), float32(-12), float32(0.6875), float32(2), float32(-0.75), float32(4),
				float32(5.5), float32(-3), float32(1), float32(17), float32(21), float32(151.5625), float32(10), float32(-48), float32(1), approx(16), float32(0.0999755859375), approx(1), float32(7), float32(-1.25), float32(8.34375))},
		},
		{
			name: "dynamic index into a uniform array of matCx2",
			wgsl: outF + `
struct U { am: array<mat4x2<f32>, 2> }
@group(0) @binding(1) var<uniform> u: U;
@group(0) @binding(2) var<storage, read> idx: array<i32>;
@compute @workgroup_size(1) fn main() {
  let j = idx[0];                      // 1
  o[0] = u.am[j][2].y;                 // (32 + 16 + 4) / 4 = 13
}`,
			bufs: map[gb][]byte{{0, 0}: zeros(4), {0, 1}: seqF32(16), {0, 2}: i32s(1)},
			want: map[gb][]any{{0, 0}: wordsOf(float32(13))},
		},
	})
}

// seqF32 returns n floats 0, 1, 2, ...
func seqF32(n int) []byte {
	v := make([]float32, n)
	for i := range v {
		v[i] = float32(i)
	}
	return f32s(v...)
}
