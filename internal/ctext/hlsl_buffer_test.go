package ctext

import (
	"strings"
	"testing"
)

func runHLSLSrc(t *testing.T, src string, bufs map[Slot][]byte, groups [3]uint32) *RunResult {
	t.Helper()
	p := mustParseHLSL(t, src)
	res, err := p.Run(RunConfig{Buffers: bufs, NumWorkgroups: groups, StepLimit: 5_000_000})
	if err != nil {
		t.Fatalf("Run: %v\n%s", err, numbered(src))
	}
	return res
}

func TestHLSLByteAddressLoadStore(t *testing.T) {
	src := `
ByteAddressBuffer a : register(t1);
RWByteAddressBuffer o : register(u0, space2);
uint len_of(ByteAddressBuffer b) { uint n; b.GetDimensions(n); return n; }
uint len_rw(RWByteAddressBuffer b) { uint n; b.GetDimensions(n); return n; }
[numthreads(1, 1, 1)]
void main() {
  uint  l1 = a.Load(4);
  uint2 l2 = a.Load2(8);
  uint3 l3 = a.Load3(0);
  uint4 l4 = a.Load4(16);
  o.Store(0, l1);
  o.Store2(4, l2);
  o.Store3(12, l3);
  o.Store4(24, l4);
  o.Store(40, len_of(a) * 1000u + len_rw(o));
  float3 f = asfloat(a.Load3(32));
  o.Store3(44, asuint(f * 2.0));
  o.Store(56, asuint(asint(a.Load(4)) - 5));
  int addr = 60;
  o.Store(addr, a.Load(addr - 60 + 8));      // int address converts to uint
  // out of range: loads return 0, stores are dropped
  o.Store(64, a.Load(48) + 1u);               // a has 48 bytes: Load(48) = 0
  uint4 part = a.Load4(40);                   // bytes 40..55: last two components are outside
  o.Store4(68, part + 1u);
  o.Store2(84, uint2(7u, 8u));                // o has 88 bytes: the second component is dropped
  o.Store(4000, 9u);
  o.Store(0xFFFFFFFCu, 9u);
  o.Store3(0xFFFFFFF8u, uint3(1u, 2u, 3u));   // address arithmetic must not wrap into the buffer
}`
	in := cat(u32s(10, 11, 12, 13, 14, 15, 16, 17), f32s(1.5, -2, 0.25), u32s(99))
	out := zeros(88)
	res := runHLSLSrc(t, src, map[Slot][]byte{{Class: 't', Index: 1}: in, {Class: 'u', Index: 0, Space: 2}: out}, [3]uint32{1, 1, 1})
	clean(t, res)
	wantW(t, words32(out), uint32(11), uint32(12), uint32(13), uint32(10), uint32(11), uint32(12),
		uint32(14), uint32(15), uint32(16), uint32(17), uint32(48*1000+88),
		float32(3), float32(-4), float32(0.5), 6, uint32(12),
		uint32(1), fbits(0.25)+1, uint32(100), uint32(1), uint32(1), uint32(7))
	if res.Info["hlsl.oob.load"] != 3 || res.Info["hlsl.oob.store"] != 6 {
		t.Errorf("out-of-range counters: %v", res.Info)
	}
}

func TestHLSLInterlocked(t *testing.T) {
	src := `
RWByteAddressBuffer b : register(u0);
RWByteAddressBuffer o : register(u1);
groupshared uint gu;
groupshared int gi[2];
[numthreads(4, 1, 1)]
void main(uint li : SV_GroupIndex) {
  if (li == 0u) { gu = 0u; gi[0] = 100; gi[1] = -5; }
  GroupMemoryBarrierWithGroupSync();
  uint orig;
  b.InterlockedAdd(0, 5u, orig);              // 4 invocations: 1 -> 21
  b.InterlockedOr(4, 1u << li);               // 0 -> 0xF
  b.InterlockedAnd(8, ~(1u << li));           // 0xFF -> 0xF0
  b.InterlockedXor(12, 3u);                   // four times: unchanged
  b.InterlockedMax(16, li);                   // unsigned: 0xFFFFFFF0 stays
  b.InterlockedMax(20, int(li));              // signed: -16 -> 3
  b.InterlockedMin(24, li + 1u);              // unsigned: 7 -> 1
  b.InterlockedMin(28, int(li) - 2);          // signed: 7 -> -2
  uint prev; b.InterlockedExchange(32, 42u, prev);
  uint was; b.InterlockedCompareExchange(36, li, li + 1u, was);   // 0 -> 1 -> 2 -> 3 -> 4 in invocation order
  b.InterlockedCompareStore(40, 9u, 1u);      // never matches (value is 8)
  InterlockedAdd(gu, li + 1u);                // 1 + 2 + 3 + 4
  int before; InterlockedMax(gi[0], int(li) * 50, before);        // 100, 100, 100, 150
  InterlockedMin(gi[1], -int(li));            // -5 stays
  uint o0; InterlockedExchange(gu, gu, o0);   // no-op exchange
  GroupMemoryBarrierWithGroupSync();
  if (li == 3u) {
    o.Store(0, gu); o.Store(4, asuint(gi[0])); o.Store(8, asuint(gi[1])); o.Store(12, orig); o.Store(16, prev); o.Store(20, was);
  }
}`
	b := u32s(1, 0, 0xFF, 0x55, 0xFFFFFFF0, 0xFFFFFFF0, 7, 7, 1, 0, 8)
	o := zeros(24)
	res := runHLSLSrc(t, src, map[Slot][]byte{{Class: 'u', Index: 0}: b, {Class: 'u', Index: 1}: o}, [3]uint32{1, 1, 1})
	clean(t, res)
	wantW(t, words32(b), uint32(21), uint32(0xF), uint32(0xF0), uint32(0x55), uint32(0xFFFFFFF0), uint32(3), uint32(1), -2, uint32(42), uint32(4), uint32(8))
	// invocation 3 ran last in each phase: orig = 1 + 3*5, prev = 42, was = 3
	wantW(t, words32(o), uint32(10), uint32(150), -5, uint32(16), uint32(42), uint32(3))
}

func TestHLSLWorkgroupAndBuiltins(t *testing.T) {
	src := `
RWByteAddressBuffer o : register(u0);
groupshared uint tile[8];
[numthreads(4, 2, 1)]
void main(uint3 gid : SV_DispatchThreadID, uint3 lid : SV_GroupThreadID, uint li : SV_GroupIndex, uint3 wid : SV_GroupID) {
  tile[li] = gid.x * 100u + gid.y * 10u + wid.x;
  GroupMemoryBarrierWithGroupSync();
  // every invocation reads its mirror element
  uint m = tile[7u - li];
  uint base = (wid.x * 8u + li) * 4u;
  o.Store(base, m * 10u + lid.x + lid.y);
}`
	o := zeros(64)
	for _, rev := range []bool{false, true} {
		p := mustParseHLSL(t, src)
		for i := range o {
			o[i] = 0
		}
		res, err := p.Run(RunConfig{Buffers: map[Slot][]byte{{Class: 'u', Index: 0}: o}, NumWorkgroups: [3]uint32{2, 1, 1}, StepLimit: 1_000_000, ReverseOrder: rev})
		if err != nil {
			t.Fatal(err)
		}
		clean(t, res)
		if res.Invocations != 16 {
			t.Errorf("invocations %d", res.Invocations)
		}
		got := words32(o)
		for wg := uint32(0); wg < 2; wg++ {
			for li := uint32(0); li < 8; li++ {
				mi := 7 - li // mirror invocation
				gx, gy := wg*4+mi%4, mi/4
				want := (gx*100+gy*10+wg)*10 + li%4 + li/4
				if got[wg*8+li] != want {
					t.Errorf("rev=%v wg %d li %d: got %d want %d", rev, wg, li, got[wg*8+li], want)
				}
			}
		}
	}
}

func TestHLSLBarrierNotReachedByAll(t *testing.T) {
	src := `
RWByteAddressBuffer o : register(u0);
[numthreads(2, 1, 1)]
void main(uint li : SV_GroupIndex) {
  if (li == 0u) { GroupMemoryBarrierWithGroupSync(); }
  o.Store(0, 1u);
}`
	res := runHLSLSrc(t, src, map[Slot][]byte{{Class: 'u', Index: 0}: zeros(4)}, [3]uint32{1, 1, 1})
	if !strings.Contains(res.Trap, "barrier") {
		t.Errorf("trap = %q", res.Trap)
	}
}

func TestHLSLMissingBuffer(t *testing.T) {
	src := `
RWByteAddressBuffer o : register(u0);
ByteAddressBuffer a : register(t1);
cbuffer C : register(b2) { uint k; }
[numthreads(1, 1, 1)]
void main() { o.Store(0, SEL); }`
	for sel, want := range map[string]string{"a.Load(0)": "resource a which has no buffer bound", "k": "constant buffer C"} {
		res := runHLSLSrc(t, strings.Replace(src, "SEL", sel, 1), map[Slot][]byte{{Class: 'u', Index: 0}: zeros(4)}, [3]uint32{1, 1, 1})
		if !strings.Contains(res.Trap, want) || strings.HasPrefix(res.Trap, "unsupported") {
			t.Errorf("%s: trap = %q", sel, res.Trap)
		}
	}
	// a buffer bound under the wrong register class or space is not found
	res := runHLSLSrc(t, strings.Replace(src, "SEL", "a.Load(0)", 1), map[Slot][]byte{{Class: 'u', Index: 0}: zeros(4), {Class: 'u', Index: 1}: zeros(4), {Class: 't', Index: 1, Space: 1}: zeros(4)}, [3]uint32{1, 1, 1})
	if res.Trap == "" {
		t.Errorf("register class / space must be part of the binding")
	}
}
