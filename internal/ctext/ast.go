package ctext

// ---------------------------------------------------------------------------
// Shared AST.  Dialect parsers produce it; the shared checker annotates it
// (types, symbols, conversions); the shared evaluator executes it.
// ---------------------------------------------------------------------------

// Expr is an expression node.
type Expr interface{ base() *ExprBase }

// ExprBase carries the annotations every expression gets from the checker.
type ExprBase struct {
	Pos   Pos
	T     *Type
	LV    bool   // designates an l-value (may still be read-only: see checker.writable)
	Const bool   // is a constant expression of the target language
	CV    *Value // folded value when Const (may be nil if folding met poison)
}

func (b *ExprBase) base() *ExprBase { return b }

type (
	// Lit is a typed literal.
	Lit struct {
		ExprBase
		V Value
	}
	// Ident is a name use.
	Ident struct {
		ExprBase
		Name string
		Sym  *Symbol
	}
	// Unary is + - ! ~ .
	Unary struct {
		ExprBase
		Op string
		X  Expr
	}
	// IncDec is ++/-- in prefix or postfix position.
	IncDec struct {
		ExprBase
		X         Expr
		Dec, Post bool
	}
	// Binary is every binary operator except assignment and comma.
	Binary struct {
		ExprBase
		Op   string
		L, R Expr
		Mode binMode
	}
	// Assign is = and the compound assignments (Op is "" for plain =, else
	// the arithmetic operator, e.g. "+").
	Assign struct {
		ExprBase
		Op     string
		L, R   Expr
		Mode   binMode // compound only
		LConv  *Type   // compound only: type L's value is converted to before the operation (nil = none)
		OpType *Type   // compound only: result type of the operation before storing
	}
	// Cond is c ? a : b.
	Cond struct {
		ExprBase
		C, A, B Expr
	}
	// Call is a function call, constructor or intrinsic call.
	Call struct {
		ExprBase
		Name  string
		TypeX *TypeExpr // constructor syntax: T(...) / T[n](...)
		Args  []Expr
		// resolved by the checker (exactly one is set):
		Fn   *Function
		BI   *builtinSig
		Ctor *Type
	}
	// Index is x[i].
	Index struct {
		ExprBase
		X, I Expr
	}
	// Member is x.name: a struct field, a block-instance member or a swizzle.
	Member struct {
		ExprBase
		X     Expr
		Name  string
		Field int     // struct field index, or -1
		Swz   []uint8 // swizzle component indices, or nil
		BlkM  *BlockMember
	}
	// Method is x.name(args): GLSL .length(); HLSL buffer methods later.
	Method struct {
		ExprBase
		X    Expr
		Name string
		Args []Expr
		// Impl, when set by the dialect's checkMethod, evaluates the call
		// (default: GLSL .length()).
		Impl func(ev *evaluator, m *Method) Value
	}
	// Convert is an implicit conversion inserted by the checker.
	Convert struct {
		ExprBase
		X Expr
	}
	// Comma is the sequence operator.
	Comma struct {
		ExprBase
		L, R Expr
	}
	// InitList is a brace initialiser { a, b, ... }.
	InitList struct {
		ExprBase
		Elems []Expr
	}
)

// binMode tells the evaluator how a binary operator combines its operands.
type binMode uint8

const (
	bmComponent binMode = iota // component-wise with scalar broadcast
	bmMatVec                   // matrix * column vector
	bmVecMat                   // row vector * matrix
	bmMatMat                   // matrix * matrix
	bmWholeEq                  // == / != over the whole value
	bmLogical                  // && || ^^
	bmCustom                   // evaluated by Program.hooks.binary (dialect semantics, see hlsl_ext.go)
)

// TypeExpr is an unresolved type as written.
type TypeExpr struct {
	Pos    Pos
	Name   string
	Struct *StructDecl // inline struct specifier
	Dims   []Expr      // outermost first; nil entry = unsized []
	T      *Type       // resolved
}

// StructDecl is a struct specifier as written.
type StructDecl struct {
	Pos    Pos
	Name   string
	Fields []*VarDecl
	Def    *StructDef
}

// LayoutItem is one identifier[=value] of a layout(...) qualifier.
type LayoutItem struct {
	Pos  Pos
	Name string
	Val  Expr
	IVal int64
}

// Quals is the union of declaration qualifiers of the supported dialects.
type Quals struct {
	Const, In, Out, Inout   bool
	Uniform, Buffer, Shared bool
	Readonly, Writeonly     bool
	Coherent, Volatile      bool
	Restrict                bool
	Precision               string
	Interp                  string
	Centroid, Sample, Patch bool
	Invariant, Precise      bool
	Layout                  []LayoutItem
	HasLayout               bool
	Pos                     Pos
}

func (q *Quals) layoutItem(name string) *LayoutItem {
	for i := range q.Layout {
		if q.Layout[i].Name == name {
			return &q.Layout[i]
		}
	}
	return nil
}

// Stmt is a statement node.
type Stmt interface{ stmtPos() Pos }

type (
	BlockStmt struct {
		Pos   Pos
		Stmts []Stmt
	}
	DeclStmt struct {
		Pos  Pos
		Vars []*VarDecl
		// a declaration statement may also (only) declare a struct
		Struct *StructDecl
	}
	ExprStmt struct {
		Pos Pos
		X   Expr // nil: empty statement
	}
	IfStmt struct {
		Pos        Pos
		Cond       Expr
		Then, Else Stmt
	}
	ForStmt struct {
		Pos      Pos
		Init     Stmt
		Cond     Expr
		CondDecl *VarDecl // "for(;bool b = e;)" form
		Post     Expr
		Body     Stmt
	}
	WhileStmt struct {
		Pos      Pos
		Cond     Expr
		CondDecl *VarDecl
		Body     Stmt
	}
	DoWhileStmt struct {
		Pos  Pos
		Body Stmt
		Cond Expr
	}
	SwitchStmt struct {
		Pos  Pos
		X    Expr
		Body []Stmt // CaseLabel nodes are inline
		// filled by the checker:
		cases      map[uint32]int // value -> index in Body
		defaultIdx int            // -1 if none
	}
	CaseLabel struct {
		Pos Pos
		X   Expr // nil = default
		Val uint32
	}
	BreakStmt    struct{ Pos Pos }
	ContinueStmt struct{ Pos Pos }
	DiscardStmt  struct{ Pos Pos }
	ReturnStmt   struct {
		Pos Pos
		X   Expr
	}
)

func (s *BlockStmt) stmtPos() Pos    { return s.Pos }
func (s *DeclStmt) stmtPos() Pos     { return s.Pos }
func (s *ExprStmt) stmtPos() Pos     { return s.Pos }
func (s *IfStmt) stmtPos() Pos       { return s.Pos }
func (s *ForStmt) stmtPos() Pos      { return s.Pos }
func (s *WhileStmt) stmtPos() Pos    { return s.Pos }
func (s *DoWhileStmt) stmtPos() Pos  { return s.Pos }
func (s *SwitchStmt) stmtPos() Pos   { return s.Pos }
func (s *CaseLabel) stmtPos() Pos    { return s.Pos }
func (s *BreakStmt) stmtPos() Pos    { return s.Pos }
func (s *ContinueStmt) stmtPos() Pos { return s.Pos }
func (s *DiscardStmt) stmtPos() Pos  { return s.Pos }
func (s *ReturnStmt) stmtPos() Pos   { return s.Pos }

// VarDecl is one declarator (local, global, struct field, block member).
type VarDecl struct {
	Pos   Pos
	Name  string
	TypeX *TypeExpr
	Quals Quals
	Init  Expr
	T     *Type
	Sym   *Symbol
}

// ---------------------------------------------------------------------------
// Declarations and symbols
// ---------------------------------------------------------------------------

// SymKind classifies a Symbol.
type SymKind uint8

const (
	SymLocal SymKind = iota
	SymParam
	SymGlobal
	SymBlockMember   // member of an instance-less interface block
	SymBlockInstance // instance name of an interface block
	SymBuiltinVar
	SymFunc
	SymStruct
)

// Symbol is a resolved name.
type Symbol struct {
	Kind     SymKind
	Name     string
	T        *Type
	Pos      Pos
	Slot     int // SymLocal/SymParam: cell offset in the frame
	Global   *GlobalVar
	Block    *IfaceBlock
	Member   *BlockMember
	Funcs    []*Function
	ReadOnly bool
	Const    bool
	CV       *Value
	Builtin  builtinVar
	Depth    int
	// IsRef marks a C++ reference or pointer parameter (MSL `thread T&`,
	// `device T*`): the parameter designates the argument's object; RefSlot
	// indexes the per-call reference table of the evaluator.
	IsRef   bool
	RefSlot int
}

// GlobalVar is a module-scope variable (not an interface block member).
type GlobalVar struct {
	Decl    *VarDecl
	Name    string
	T       *Type
	Storage string // "const", "shared", "global", "in", "out", "uniform"
	Init    Expr
	CellOff int // offset in the per-invocation (global) or per-workgroup (shared) cell area
	initVal *Value
	Pos     Pos
}

// Param is a function parameter.
type Param struct {
	Pos   Pos
	Name  string
	TypeX *TypeExpr
	Quals Quals
	T     *Type
	Dir   string // "in", "out", "inout"
	Sym   *Symbol
}

// Function is a user function (definition or prototype).
type Function struct {
	Pos        Pos
	Name       string
	RetX       *TypeExpr
	Ret        *Type
	Params     []*Param
	Body       *BlockStmt // nil: prototype only
	FrameSize  int
	callees    map[*Function]bool
	def        *Function // for a prototype: its definition (once seen)
	hasBarrier bool
	RefCount   int // number of reference / pointer parameters (Dir "ref", "cref", "ptr")
}

// IfaceBlock is an interface block (GLSL buffer/uniform block; later: HLSL
// cbuffer, MSL buffer argument structs).
type IfaceBlock struct {
	Pos      Pos
	Name     string
	Instance string
	Class    byte // 's' storage, 'u' uniform
	Quals    Quals
	Binding  int    // -1 if absent
	Layout   string // "std430", "std140", "shared", "packed"
	RowMajor bool
	Members  []*BlockMember
	Size     int  // byte size of the fixed part
	idx      int  // index in Program.blocks
	ArrayDim bool // instance array (unsupported for execution)
}

// BlockMember is one member of an interface block with its byte placement.
type BlockMember struct {
	Decl   *VarDecl
	Name   string
	T      *Type
	Offset int
	Lay    *TypeLayout
	Block  *IfaceBlock
	Index  int
}

// refExpr is implemented by dialect expression nodes that designate an object
// (MSL `&x`, `*p`): evalRef asks them for the reference.
type refExpr interface {
	Expr
	refCustom(ev *evaluator) Ref
}
