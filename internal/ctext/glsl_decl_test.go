package ctext

import "testing"

func TestStructDeclaratorsAndDoWhileContinue(t *testing.T) {
	got, res := runBody(t, hdr430, "struct G { int a; } gg = G(3);\nstruct { float q; } anon;\nconst struct K { int z; } kk = K(4);\n", `
  struct L { int v; uint w[2]; } l1, l2[2];
  l1.v = gg.a; l1.w = uint[2](1u, 2u); l2[1] = l1; anon.q = 2.0;
  o[0] = uint(l2[1].v) + l2[1].w[1] + uint(anon.q) + uint(kk.z);
  int i = 0;
  do { i++; if (i < 3) continue; break; } while (true);
  o[1] = uint(i);
  uint k = 0u;
  for (int a = 0, b = 10; a < b; a++, b--) { k++; }
  o[2] = k;
  bool f = false;
  do { if (f) { o[3] = 7u; break; } f = true; continue; } while (f);
`, 4)
	clean(t, res)
	wantWords(t, got, 3+2+2+4, 3, 5, 7)
}
