package ctext

import (
	"encoding/binary"
	"fmt"
)

// ---------------------------------------------------------------------------
// run-time state
// ---------------------------------------------------------------------------

// boundBuf is the byte storage bound to one interface block.
type boundBuf struct {
	data  []byte
	blk   *IfaceBlock
	bound bool
}

// shared is the state common to all invocations of one Run (or of one
// constant evaluation).
type shared struct {
	prog      *Program
	bufs      []*boundBuf
	steps     int64
	limit     int64
	reasons   []string
	reasonIdx map[string]uint16
	events    []string
	eventSet  map[string]bool
	infos     map[string]int64
	numWG     [3]uint32
	accesses  int64 // executed buffer loads/stores
}

type workgroup struct {
	shared []Cell
	id     [3]uint32
}

// evaluator executes code for one invocation (or folds constants when
// constMode is set).
type evaluator struct {
	sh        *shared
	wg        *workgroup
	priv      []Cell
	frame     []Cell
	lid       [3]uint32
	gid       [3]uint32
	lidx      uint32
	constMode bool
	yield     func(struct{}) bool
	retVal    Value
	depth     int
	arena     []Cell
	refs      []Ref // objects designated by the reference / pointer parameters of the current call (Symbol.RefSlot)
}

// cells returns n zeroed cells carved from a chunk (values are immutable once
// built and chunks are never reused, so sharing a chunk is safe; this only
// reduces the number of heap allocations).
func (ev *evaluator) cells(n int) []Cell {
	if n > 64 {
		return make([]Cell, n)
	}
	if len(ev.arena) < n {
		ev.arena = make([]Cell, 1024)
	}
	c := ev.arena[:n:n]
	ev.arena = ev.arena[n:]
	return c
}

func (ev *evaluator) mk(t *Type) Value { return Value{T: t, C: ev.cells(t.nsc)} }

func (ev *evaluator) cloneValue(v Value) Value {
	c := ev.cells(len(v.C))
	copy(c, v.C)
	return Value{T: v.T, C: c}
}

type trapPanic struct{ msg string }
type stepPanic struct{}
type abortPanic struct{}

func (ev *evaluator) trap(format string, a ...any) {
	panic(trapPanic{fmt.Sprintf(format, a...)})
}

// poison interns a reason and returns its id.
func (ev *evaluator) poison(reason string) uint16 {
	sh := ev.sh
	if h := sh.prog.hooks; h != nil && h.mapReason != nil {
		reason = h.mapReason(reason)
	}
	if id, ok := sh.reasonIdx[reason]; ok {
		return id
	}
	if len(sh.reasons) >= 0xfffe {
		return uint16(len(sh.reasons))
	}
	sh.reasons = append(sh.reasons, reason)
	id := uint16(len(sh.reasons))
	sh.reasonIdx[reason] = id
	return id
}

func (ev *evaluator) reason(p uint16) string {
	if p == 0 || int(p) > len(ev.sh.reasons) {
		return "?"
	}
	return ev.sh.reasons[p-1]
}

// observe records that a poison value reached an observable use.
func (ev *evaluator) observe(p uint16, use string, pos Pos) {
	msg := fmt.Sprintf("%s at %s: %s", use, pos, ev.reason(p))
	if ev.sh.eventSet[msg] {
		return
	}
	if len(ev.sh.events) >= 32 {
		return
	}
	ev.sh.eventSet[msg] = true
	ev.sh.events = append(ev.sh.events, msg)
}

func (ev *evaluator) info(key string) { ev.sh.infos[key]++ }

func (ev *evaluator) step() {
	ev.sh.steps++
	if ev.sh.limit > 0 && ev.sh.steps > ev.sh.limit {
		panic(stepPanic{})
	}
}

func newShared(p *Program) *shared {
	return &shared{prog: p, reasonIdx: map[string]uint16{}, eventSet: map[string]bool{}, infos: map[string]int64{}}
}

// constEval folds a checked constant expression.
func (ev *evaluator) constEval(e Expr) (v Value, ok bool) {
	defer func() {
		if r := recover(); r != nil {
			switch r.(type) {
			case trapPanic, stepPanic:
				ok = false
			default:
				panic(r)
			}
		}
	}()
	return ev.eval(e), true
}

// ---------------------------------------------------------------------------
// references (l-values and addressable objects)
// ---------------------------------------------------------------------------

// Ref designates an object: either a run of cells, or a typed location in a
// bound byte buffer, optionally narrowed by a swizzle.
type Ref struct {
	T          *Type
	cells      []Cell
	buf        *boundBuf
	off        int
	lay        *TypeLayout
	compStride int // byte stride between vector components in a buffer (0 = 4)
	swz        []uint8
}

func (ev *evaluator) evalRef(e Expr) Ref {
	switch x := e.(type) {
	case *Ident:
		s := x.Sym
		switch s.Kind {
		case SymLocal, SymParam:
			if s.IsRef {
				return ev.refs[s.RefSlot]
			}
			return Ref{T: s.T, cells: ev.frame[s.Slot : s.Slot+s.T.nsc]}
		case SymGlobal:
			g := s.Global
			switch g.Storage {
			case "global":
				if ev.constMode {
					ev.trap("global variable in constant expression")
				}
				return Ref{T: s.T, cells: ev.priv[g.CellOff : g.CellOff+s.T.nsc]}
			case "shared":
				if ev.constMode {
					ev.trap("shared variable in constant expression")
				}
				return Ref{T: s.T, cells: ev.wg.shared[g.CellOff : g.CellOff+s.T.nsc]}
			case "const":
				if s.CV == nil {
					ev.trap("unsupported: constant %s has no folded value", s.Name)
				}
				return Ref{T: s.T, cells: s.CV.C} // read-only by construction (checker)
			}
			ev.trap("unsupported: access to %s variable %s", g.Storage, s.Name)
		case SymBlockMember:
			return ev.blockMemberRef(s.Member, x.Pos)
		case SymBuiltinVar:
			v := ev.builtinVarValue(s)
			return Ref{T: v.T, cells: v.C}
		}
	case *Index:
		return ev.indexRef(x)
	case *Member:
		if x.BlkM != nil {
			return ev.blockMemberRef(x.BlkM, x.Pos)
		}
		base := ev.evalRef(x.X)
		if x.Swz != nil {
			return swizzleRef(base, x.Swz, x.T)
		}
		if base.buf != nil {
			fl := base.lay.Fields[x.Field]
			return Ref{T: x.T, buf: base.buf, off: base.off + fl.Off, lay: fl.L}
		}
		o := fieldOffset(base.T, x.Field)
		return Ref{T: x.T, cells: base.cells[o : o+x.T.nsc]}
	case refExpr:
		return x.refCustom(ev)
	case *Cond:
		if x.LV {
			// C++ (MSL): an l-value conditional designates the selected operand
			cv := ev.eval(x.C)
			if cv.C[0].P != 0 {
				ev.observe(cv.C[0].P, "undefined value used as the condition of ?:", x.Pos)
			}
			if cv.C[0].Bool() {
				return ev.evalRef(x.A)
			}
			return ev.evalRef(x.B)
		}
	}
	// not an addressable expression: materialise the value
	v := ev.eval(e)
	return Ref{T: v.T, cells: v.C}
}

func swizzleRef(base Ref, swz []uint8, t *Type) Ref {
	r := base
	r.T = t
	if base.swz != nil {
		ns := make([]uint8, len(swz))
		for i, k := range swz {
			ns[i] = base.swz[k]
		}
		r.swz = ns
	} else {
		r.swz = swz
	}
	return r
}

func (ev *evaluator) blockMemberRef(m *BlockMember, pos Pos) Ref {
	if ev.constMode {
		ev.trap("buffer access in constant expression")
	}
	b := ev.sh.bufs[m.Block.idx]
	if !b.bound {
		ev.trap("unsupported: access to block %s which has no buffer bound", m.Block.Name)
	}
	return Ref{T: m.T, buf: b, off: m.Offset, lay: m.Lay}
}

func (ev *evaluator) builtinVarValue(s *Symbol) Value {
	if ev.constMode {
		if s.CV != nil {
			return *s.CV
		}
		ev.trap("built-in variable in constant expression")
	}
	u3 := func(a [3]uint32) Value {
		return Value{T: vecOf(tUint, 3), C: []Cell{u32Cell(a[0]), u32Cell(a[1]), u32Cell(a[2])}}
	}
	switch s.Builtin {
	case bvNumWorkGroups:
		return u3(ev.sh.numWG)
	case bvWorkGroupSize:
		return u3(ev.sh.prog.localSize)
	case bvWorkGroupID:
		return u3(ev.wg.id)
	case bvLocalInvocationID:
		return u3(ev.lid)
	case bvGlobalInvocationID:
		return u3(ev.gid)
	case bvLocalInvocationIndex:
		return uintValue(ev.lidx)
	}
	ev.trap("unsupported: built-in variable %s", s.Name)
	return Value{}
}

// runtimeLen is the number of elements of a runtime-sized array at ref.
func (ev *evaluator) runtimeLen(r Ref) int {
	if r.buf == nil || r.lay == nil || r.lay.Stride <= 0 {
		ev.trap("length of an unsized array that is not in a buffer")
	}
	if !r.buf.bound {
		ev.trap("unsupported: access to block %s which has no buffer bound", r.buf.blk.Name)
	}
	n := (len(r.buf.data) - r.off) / r.lay.Stride
	if n < 0 {
		n = 0
	}
	return n
}

func (ev *evaluator) indexRef(x *Index) Ref {
	base := ev.evalRef(x.X)
	iv := ev.eval(x.I)
	ic := iv.C[0]
	if ic.P != 0 {
		ev.observe(ic.P, "undefined value used as an index", x.Pos)
	}
	var idx int64
	if iv.T.Kind == KInt {
		idx = int64(ic.I())
	} else {
		idx = int64(ic.U())
	}
	bt := base.T
	var n int
	switch bt.Kind {
	case KArray:
		n = bt.N
		if n < 0 {
			n = ev.runtimeLen(base)
		}
	case KVec:
		n = bt.N
	case KMat:
		n = bt.Cols
	}
	if idx < 0 || idx >= int64(n) {
		// GLSL 4.60 §5.7 (arrays, vectors, matrices): "Behavior is undefined
		// if an index is out of range"; for buffer-block arrays §4.1.9.
		ev.trap("index %d out of range [0,%d) of %s at %s", idx, n, bt, x.Pos)
	}
	i := int(idx)
	switch bt.Kind {
	case KArray:
		if base.buf != nil {
			return Ref{T: bt.Elem, buf: base.buf, off: base.off + i*base.lay.Stride, lay: base.lay.Elem}
		}
		es := bt.Elem.nsc
		return Ref{T: bt.Elem, cells: base.cells[i*es : (i+1)*es]}
	case KVec:
		if base.swz != nil {
			i = int(base.swz[i])
		}
		if base.buf != nil {
			cs := base.compStride
			if cs == 0 {
				cs = leafSize(bt.Elem)
			}
			return Ref{T: bt.Elem, buf: base.buf, off: base.off + i*cs}
		}
		return Ref{T: bt.Elem, cells: base.cells[i : i+1]}
	case KMat:
		ct := vecOf(bt.Elem, bt.Rows)
		if base.buf != nil {
			if base.lay.RowMajor {
				return Ref{T: ct, buf: base.buf, off: base.off + i*4, compStride: base.lay.Stride}
			}
			return Ref{T: ct, buf: base.buf, off: base.off + i*base.lay.Stride}
		}
		return Ref{T: ct, cells: base.cells[i*bt.Rows : (i+1)*bt.Rows]}
	}
	ev.trap("index of non-indexable value")
	return Ref{}
}

// ---- buffer leaves ----------------------------------------------------------

func (ev *evaluator) bufLoad32(b *boundBuf, off int, t *Type) Cell {
	if h := ev.sh.prog.hooks; h != nil && h.loadLeaf != nil {
		return h.loadLeaf(ev, b, off, t)
	}
	if off < 0 || off+4 > len(b.data) {
		ev.trap("load of %s at byte offset %d outside the %d bytes bound to block %s", t, off, len(b.data), b.blk.Name)
	}
	ev.sh.accesses++
	u := binary.LittleEndian.Uint32(b.data[off:])
	if t.Kind == KBool {
		if u != 0 {
			u = 1
		}
	}
	return Cell{B: u}
}

func (ev *evaluator) bufStore32(b *boundBuf, off int, c Cell, pos Pos) {
	if off < 0 || off+4 > len(b.data) {
		ev.trap("store at byte offset %d outside the %d bytes bound to block %s", off, len(b.data), b.blk.Name)
	}
	ev.sh.accesses++
	if c.P != 0 {
		ev.observe(c.P, "undefined value stored to block "+b.blk.Name, pos)
	}
	binary.LittleEndian.PutUint32(b.data[off:], c.B)
}

// bufWalk visits the scalar leaves of a typed buffer location in value order.
func (ev *evaluator) bufWalk(t *Type, lay *TypeLayout, off int, compStride int, f func(off int, st *Type)) {
	switch t.Kind {
	case KBool, KInt, KUint, KFloat:
		f(off, t)
	case KVec:
		cs := compStride
		if cs == 0 {
			cs = leafSize(t.Elem)
		}
		for i := 0; i < t.N; i++ {
			f(off+i*cs, t.Elem)
		}
	case KMat:
		for c := 0; c < t.Cols; c++ {
			for r := 0; r < t.Rows; r++ {
				if lay.RowMajor {
					f(off+r*lay.Stride+c*4, t.Elem)
				} else {
					f(off+c*lay.Stride+r*leafSize(t.Elem), t.Elem)
				}
			}
		}
	case KArray:
		n := t.N
		if n < 0 {
			ev.trap("whole-array access to an array of unknown size")
		}
		for i := 0; i < n; i++ {
			ev.bufWalk(t.Elem, lay.Elem, off+i*lay.Stride, 0, f)
		}
	case KStruct:
		for i, fd := range t.Struct.Fields {
			ev.bufWalk(fd.T, lay.Fields[i].L, off+lay.Fields[i].Off, 0, f)
		}
	default:
		ev.trap("unsupported: buffer access of type %s", t)
	}
}

func (ev *evaluator) load(r Ref) Value {
	if r.buf != nil {
		if r.swz != nil {
			cs := r.compStride
			sc := r.T.Scalar()
			if cs == 0 {
				cs = leafSize(sc)
			}
			v := ev.mk(r.T)
			for i, k := range r.swz {
				v.C[i] = ev.bufLoad32(r.buf, r.off+int(k)*cs, sc)
			}
			return v
		}
		v := Value{T: r.T, C: ev.cells(r.T.nsc)[:0]}
		ev.bufWalk(r.T, r.lay, r.off, r.compStride, func(off int, st *Type) {
			v.C = append(v.C, ev.bufLoad32(r.buf, off, st))
		})
		return v
	}
	if r.swz != nil {
		v := ev.mk(r.T)
		for i, k := range r.swz {
			v.C[i] = r.cells[k]
		}
		return v
	}
	v := Value{T: r.T, C: ev.cells(len(r.cells))}
	copy(v.C, r.cells)
	return v
}

func (ev *evaluator) store(r Ref, v Value, pos Pos) {
	if r.buf != nil {
		if r.swz != nil {
			cs := r.compStride
			sc := r.T.Scalar()
			if cs == 0 {
				cs = leafSize(sc)
			}
			for i, k := range r.swz {
				if h := ev.sh.prog.hooks; h != nil && h.storeLeaf != nil {
					h.storeLeaf(ev, r.buf, r.off+int(k)*cs, sc, v.C[i], pos)
				} else {
					ev.bufStore32(r.buf, r.off+int(k)*cs, v.C[i], pos)
				}
			}
			return
		}
		i := 0
		h := ev.sh.prog.hooks
		ev.bufWalk(r.T, r.lay, r.off, r.compStride, func(off int, st *Type) {
			if h != nil && h.storeLeaf != nil {
				h.storeLeaf(ev, r.buf, off, st, v.C[i], pos)
			} else {
				ev.bufStore32(r.buf, off, v.C[i], pos)
			}
			i++
		})
		return
	}
	if r.swz != nil {
		for i, k := range r.swz {
			r.cells[k] = v.C[i]
		}
		return
	}
	copy(r.cells, v.C)
}

// ---------------------------------------------------------------------------
// expressions
// ---------------------------------------------------------------------------

func (ev *evaluator) eval(e Expr) Value {
	ev.step()
	b := e.base()
	if b.CV != nil {
		return ev.cloneValue(*b.CV)
	}
	if b.T != nil && b.T.Base() == KDouble {
		ev.trap("unsupported: double-precision arithmetic")
	}
	switch x := e.(type) {
	case *Lit:
		return ev.cloneValue(x.V)
	case *Ident:
		return ev.load(ev.evalRef(x))
	case *Unary:
		v := ev.eval(x.X)
		return ev.unary(x.Op, v)
	case *IncDec:
		r := ev.evalRef(x.X)
		old := ev.load(r)
		one := oneOf(old.T)
		op := "+"
		if x.Dec {
			op = "-"
		}
		nv := ev.binaryValues(op, bmComponent, old, one, old.T, x.Pos)
		ev.store(r, nv, x.Pos)
		if x.Post {
			return old
		}
		return nv
	case *Binary:
		if x.Mode == bmLogical {
			return ev.logical(x)
		}
		l := ev.eval(x.L)
		r := ev.eval(x.R)
		return ev.binaryValues(x.Op, x.Mode, l, r, x.T, x.Pos)
	case *Assign:
		return ev.assign(x)
	case *Cond:
		c := ev.eval(x.C)
		if c.C[0].P != 0 {
			ev.observe(c.C[0].P, "undefined value used as the condition of ?:", x.Pos)
		}
		if c.C[0].Bool() {
			return ev.eval(x.A)
		}
		return ev.eval(x.B)
	case *Call:
		switch {
		case x.Ctor != nil:
			return ev.construct(x)
		case x.Fn != nil:
			return ev.callUser(x)
		default:
			return ev.callBuiltin(x)
		}
	case *Index, *Member:
		return ev.load(ev.evalRef(e))
	case *Method:
		if x.Impl != nil {
			return x.Impl(ev, x)
		}
		// .length() of a runtime-sized array (sized cases are folded)
		r := ev.evalRef(x.X)
		return intValue(int32(ev.runtimeLen(r)))
	case *Convert:
		v := ev.eval(x.X)
		return ev.convertValue(v, x.T, false)
	case *Comma:
		ev.eval(x.L)
		return ev.eval(x.R)
	case customExpr:
		return x.evalCustom(ev)
	}
	ev.trap("unsupported: expression node %T", e)
	return Value{}
}

func oneOf(t *Type) Value {
	v := mkValue(t)
	var c Cell
	switch t.Base() {
	case KFloat:
		c = f32Cell(1)
	default:
		c = Cell{B: 1}
	}
	for i := range v.C {
		v.C[i] = c
	}
	return v
}

func (ev *evaluator) unary(op string, v Value) Value {
	if h := ev.sh.prog.hooks; h != nil && h.unary != nil {
		return h.unary(ev, op, v)
	}
	r := ev.mk(v.T)
	base := v.T.Base()
	for i, c := range v.C {
		if c.P != 0 {
			r.C[i].P = c.P
			continue
		}
		switch op {
		case "+":
			r.C[i] = c
		case "-":
			if base == KFloat {
				r.C[i] = Cell{B: c.B ^ 0x80000000}
			} else {
				r.C[i] = Cell{B: -c.B}
			}
		case "!":
			r.C[i] = boolCell(!c.Bool())
		case "~":
			r.C[i] = Cell{B: ^c.B}
		}
	}
	return r
}

func (ev *evaluator) logical(x *Binary) Value {
	l := ev.eval(x.L)
	lc := l.C[0]
	if lc.P != 0 {
		ev.observe(lc.P, "undefined value used as the left operand of "+x.Op, x.Pos)
	}
	switch x.Op {
	case "&&":
		if !lc.Bool() {
			return boolValue(false)
		}
		return ev.eval(x.R)
	case "||":
		if lc.Bool() {
			return boolValue(true)
		}
		return ev.eval(x.R)
	}
	// ^^ evaluates both
	r := ev.eval(x.R)
	if p := firstPoison(lc, r.C[0]); p != 0 {
		return Value{T: tBool, C: []Cell{{P: p}}}
	}
	return boolValue(lc.Bool() != r.C[0].Bool())
}

const (
	whyDivZero  = "integer division or modulus by zero yields an undefined value (GLSL 4.60 §5.9)"
	whyDivOvf   = "integer division overflow (INT_MIN / -1) yields an undefined value (GLSL 4.60 §4.1.3)"
	whyModNeg   = "operator % with a negative operand is undefined (GLSL 4.60 §5.9)"
	whyShift    = "shift by a negative amount or by at least the bit width is undefined (GLSL 4.60 §5.9)"
	whyUninit   = "read of a variable that was never written (undefined value, GLSL 4.60 §4.3 / §5.?)"
	whyOutParam = "out parameter read before being written (undefined value, GLSL 4.60 §6.1.1)"
)

// scalarBinary computes one component of a binary operator.
func (ev *evaluator) scalarBinary(op string, k Kind, rk Kind, a, b Cell) (Cell, string) {
	switch k {
	case KFloat:
		x, y := a.F(), b.F()
		switch op {
		case "+":
			return f32Cell(fadd(x, y)), ""
		case "-":
			return f32Cell(fsub(x, y)), ""
		case "*":
			return f32Cell(fmul(x, y)), ""
		case "/":
			return f32Cell(fdiv(x, y)), ""
		case "<":
			return boolCell(x < y), ""
		case ">":
			return boolCell(x > y), ""
		case "<=":
			return boolCell(x <= y), ""
		case ">=":
			return boolCell(x >= y), ""
		}
	case KInt:
		x, y := a.I(), b.I()
		switch op {
		case "+":
			return i32Cell(x + y), ""
		case "-":
			return i32Cell(x - y), ""
		case "*":
			return i32Cell(x * y), ""
		case "/":
			if y == 0 {
				return Cell{}, whyDivZero
			}
			if x == -2147483648 && y == -1 {
				return Cell{}, whyDivOvf
			}
			return i32Cell(x / y), ""
		case "%":
			if y == 0 {
				return Cell{}, whyDivZero
			}
			if x < 0 || y < 0 {
				return Cell{}, whyModNeg
			}
			return i32Cell(x % y), ""
		case "&":
			return i32Cell(x & y), ""
		case "|":
			return i32Cell(x | y), ""
		case "^":
			return i32Cell(x ^ y), ""
		case "<":
			return boolCell(x < y), ""
		case ">":
			return boolCell(x > y), ""
		case "<=":
			return boolCell(x <= y), ""
		case ">=":
			return boolCell(x >= y), ""
		case "<<", ">>":
			if (rk == KInt && b.I() < 0) || b.U() >= 32 {
				return Cell{}, whyShift
			}
			if op == "<<" {
				return i32Cell(x << b.U()), ""
			}
			return i32Cell(x >> b.U()), ""
		}
	case KUint:
		x, y := a.U(), b.U()
		switch op {
		case "+":
			return u32Cell(x + y), ""
		case "-":
			return u32Cell(x - y), ""
		case "*":
			return u32Cell(x * y), ""
		case "/":
			if y == 0 {
				return Cell{}, whyDivZero
			}
			return u32Cell(x / y), ""
		case "%":
			if y == 0 {
				return Cell{}, whyDivZero
			}
			return u32Cell(x % y), ""
		case "&":
			return u32Cell(x & y), ""
		case "|":
			return u32Cell(x | y), ""
		case "^":
			return u32Cell(x ^ y), ""
		case "<":
			return boolCell(x < y), ""
		case ">":
			return boolCell(x > y), ""
		case "<=":
			return boolCell(x <= y), ""
		case ">=":
			return boolCell(x >= y), ""
		case "<<", ">>":
			if (rk == KInt && b.I() < 0) || b.U() >= 32 {
				return Cell{}, whyShift
			}
			if op == "<<" {
				return u32Cell(x << y), ""
			}
			return u32Cell(x >> y), ""
		}
	}
	ev.trap("unsupported: operator %s on component kind %d", op, k)
	return Cell{}, ""
}

func (ev *evaluator) binaryValues(op string, mode binMode, l, r Value, rt *Type, pos Pos) Value {
	switch mode {
	case bmComponent:
		res := ev.mk(rt)
		k := l.T.Base()
		rk := r.T.Base()
		n := len(res.C)
		if rt == tBool {
			n = 1
		}
		for i := 0; i < n; i++ {
			a := l.C[0]
			if len(l.C) > 1 {
				a = l.C[i]
			}
			b := r.C[0]
			if len(r.C) > 1 {
				b = r.C[i]
			}
			if p := firstPoison(a, b); p != 0 {
				res.C[i].P = p
				continue
			}
			c, why := ev.scalarBinary(op, k, rk, a, b)
			if why != "" {
				c = Cell{P: ev.poison(why)}
			}
			res.C[i] = c
		}
		return res
	case bmWholeEq:
		eq := true
		var p uint16
		base := func(t *Type, i int) Kind { return leafKind(t, i) }
		for i := range l.C {
			a, b := l.C[i], r.C[i]
			if q := firstPoison(a, b); q != 0 {
				p = q
				continue
			}
			if base(l.T, i) == KFloat {
				if !(a.F() == b.F()) {
					eq = false
				}
			} else if a.B != b.B {
				eq = false
			}
		}
		if op == "!=" {
			eq = !eq
		}
		c := boolCell(eq)
		c.P = p
		return Value{T: tBool, C: []Cell{c}}
	case bmMatVec:
		// result[row] = sum over col of m[col][row] * v[col]
		m := l.T
		res := ev.mk(rt)
		for row := 0; row < m.Rows; row++ {
			res.C[row] = ev.dotCells(m.Cols, func(c int) (Cell, Cell) { return l.C[c*m.Rows+row], r.C[c] })
		}
		return res
	case bmVecMat:
		// result[col] = dot(v, m[col])
		m := r.T
		res := ev.mk(rt)
		for col := 0; col < m.Cols; col++ {
			res.C[col] = ev.dotCells(m.Rows, func(k int) (Cell, Cell) { return l.C[k], r.C[col*m.Rows+k] })
		}
		return res
	case bmMatMat:
		// result[col][row] = sum over k of l[k][row] * r[col][k]
		lm, rm := l.T, r.T
		res := ev.mk(rt)
		for col := 0; col < rm.Cols; col++ {
			for row := 0; row < lm.Rows; row++ {
				res.C[col*lm.Rows+row] = ev.dotCells(lm.Cols, func(k int) (Cell, Cell) {
					return l.C[k*lm.Rows+row], r.C[col*rm.Rows+k]
				})
			}
		}
		return res
	case bmCustom:
		if h := ev.sh.prog.hooks; h != nil && h.binary != nil {
			return h.binary(ev, op, l, r, rt, pos)
		}
	}
	ev.trap("unsupported: binary mode %d", mode)
	return Value{}
}

// dotCells accumulates products left to right in binary32.
func (ev *evaluator) dotCells(n int, at func(i int) (Cell, Cell)) Cell {
	var acc float32
	for i := 0; i < n; i++ {
		a, b := at(i)
		if p := firstPoison(a, b); p != 0 {
			return Cell{P: p}
		}
		m := fmul(a.F(), b.F())
		if i == 0 {
			acc = m
		} else {
			acc = fadd(acc, m)
		}
	}
	return f32Cell(acc)
}

// leafKind returns the scalar kind of the i-th cell of a value of type t.
func leafKind(t *Type, i int) Kind {
	for {
		switch t.Kind {
		case KVec, KMat:
			return t.Elem.Kind
		case KArray:
			i %= t.Elem.nsc
			t = t.Elem
		case KStruct:
			found := false
			for _, f := range t.Struct.Fields {
				if i < f.T.nsc {
					t = f.T
					found = true
					break
				}
				i -= f.T.nsc
			}
			if !found {
				return KVoid
			}
		default:
			return t.Kind
		}
	}
}

func (ev *evaluator) assign(x *Assign) Value {
	if x.Op == "" {
		// GLSL does not order the evaluation of the operands of '='; naga
		// only emits side-effect-free operands.  Evaluate the right operand
		// first, then the l-value.
		v := ev.eval(x.R)
		r := ev.evalRef(x.L)
		ev.store(r, v, x.Pos)
		return v
	}
	r := ev.evalRef(x.L)
	old := ev.load(r)
	if x.LConv != nil {
		old = ev.convertValue(old, x.LConv, false)
	}
	rv := ev.eval(x.R)
	nv := ev.binaryValues(x.Op, x.Mode, old, rv, x.OpType, x.Pos)
	if x.OpType != x.T {
		nv = ev.convertValue(nv, x.T, false)
	}
	ev.store(r, nv, x.Pos)
	return nv
}

// convertCell converts one scalar between basic types.  explicit selects
// constructor semantics (all conversions); implicit conversions are a subset
// with identical results.
func (ev *evaluator) convertCell(c Cell, from, to Kind) Cell {
	if c.P != 0 || from == to {
		return c
	}
	switch to {
	case KBool:
		switch from {
		case KInt, KUint:
			return boolCell(c.B != 0)
		case KFloat:
			return boolCell(c.F() != 0)
		}
	case KInt:
		switch from {
		case KBool, KUint:
			return Cell{B: c.B}
		case KFloat:
			v, ok := ftoi(c.F())
			if !ok {
				return Cell{P: ev.poison(fmt.Sprintf("conversion of a NaN, infinite or out-of-range floating-point value (%g) to int is undefined (GLSL 4.60 §5.4.1)", c.F()))}
			}
			return i32Cell(v)
		}
	case KUint:
		switch from {
		case KBool, KInt:
			return Cell{B: c.B}
		case KFloat:
			v, ok := ftou(c.F())
			if !ok {
				return Cell{P: ev.poison(fmt.Sprintf("conversion of a negative, NaN, infinite or out-of-range floating-point value (%g) to uint is undefined (GLSL 4.60 §5.4.1)", c.F()))}
			}
			return u32Cell(v)
		}
	case KFloat:
		switch from {
		case KBool:
			if c.B != 0 {
				return f32Cell(1)
			}
			return f32Cell(0)
		case KInt:
			return f32Cell(itof(c.I()))
		case KUint:
			return f32Cell(utof(c.U()))
		}
	}
	ev.trap("unsupported: conversion between component kinds %d and %d", from, to)
	return Cell{}
}

func (ev *evaluator) convertValue(v Value, to *Type, explicit bool) Value {
	if v.T == to {
		return v
	}
	if h := ev.sh.prog.hooks; h != nil && h.convert != nil {
		return h.convert(ev, v, to)
	}
	fb, tb := v.T.Base(), to.Base()
	if tb == KDouble || fb == KDouble {
		ev.trap("unsupported: double-precision arithmetic")
	}
	r := ev.mk(to)
	for i := range r.C {
		r.C[i] = ev.convertCell(v.C[i], fb, tb)
	}
	return r
}

// construct evaluates a constructor call (GLSL 4.60 §5.4).
func (ev *evaluator) construct(x *Call) Value {
	t := x.Ctor
	args := make([]Value, len(x.Args))
	for i, a := range x.Args {
		args[i] = ev.eval(a)
	}
	if t.Base() == KDouble {
		ev.trap("unsupported: double-precision arithmetic")
	}
	switch t.Kind {
	case KBool, KInt, KUint, KFloat:
		a := args[0]
		r := ev.mk(t)
		r.C[0] = ev.convertCell(a.C[0], a.T.Base(), t.Kind)
		return r
	case KVec:
		r := ev.mk(t)
		tb := t.Elem.Kind
		if len(args) == 1 && args[0].T.IsScalar() {
			c := ev.convertCell(args[0].C[0], args[0].T.Kind, tb)
			for i := range r.C {
				r.C[i] = c
			}
			return r
		}
		k := 0
		for _, a := range args {
			ab := a.T.Base()
			for _, c := range a.C {
				if k < len(r.C) {
					r.C[k] = ev.convertCell(c, ab, tb)
					k++
				}
			}
		}
		return r
	case KMat:
		r := ev.mk(t)
		tb := t.Elem.Kind
		if len(args) == 1 && args[0].T.IsScalar() {
			c := ev.convertCell(args[0].C[0], args[0].T.Kind, tb)
			for col := 0; col < t.Cols; col++ {
				for row := 0; row < t.Rows; row++ {
					if col == row {
						r.C[col*t.Rows+row] = c
					} else {
						r.C[col*t.Rows+row] = f32Cell(0)
					}
				}
			}
			return r
		}
		if len(args) == 1 && args[0].T.IsMat() {
			src := args[0]
			for col := 0; col < t.Cols; col++ {
				for row := 0; row < t.Rows; row++ {
					switch {
					case col < src.T.Cols && row < src.T.Rows:
						r.C[col*t.Rows+row] = src.C[col*src.T.Rows+row]
					case col == row:
						r.C[col*t.Rows+row] = f32Cell(1)
					default:
						r.C[col*t.Rows+row] = f32Cell(0)
					}
				}
			}
			return r
		}
		k := 0
		for _, a := range args {
			ab := a.T.Base()
			for _, c := range a.C {
				if k < len(r.C) {
					r.C[k] = ev.convertCell(c, ab, tb)
					k++
				}
			}
		}
		return r
	case KArray, KStruct:
		r := Value{T: t, C: make([]Cell, 0, t.nsc)}
		for _, a := range args {
			r.C = append(r.C, a.C...)
		}
		return r
	}
	ev.trap("unsupported: constructor of %s", t)
	return Value{}
}

const maxCallDepth = 200

func (ev *evaluator) callUser(x *Call) Value {
	fn := x.Fn
	if fn.Body == nil {
		ev.trap("unsupported: call of function %s which has no definition", fn.Name)
	}
	if ev.constMode {
		ev.trap("user function call in constant expression")
	}
	if ev.depth >= maxCallDepth {
		ev.trap("call depth exceeds %d", maxCallDepth)
	}
	frame := make([]Cell, fn.FrameSize)
	// every local starts undefined
	pUninit := ev.poison(whyUninit)
	for i := range frame {
		frame[i].P = pUninit
	}
	pOut := ev.poison(whyOutParam)
	var outRefs []Ref
	var refs []Ref
	if fn.RefCount > 0 {
		refs = make([]Ref, fn.RefCount)
	}
	// arguments are evaluated left to right
	for i, p := range fn.Params {
		slot := frame[p.Sym.Slot : p.Sym.Slot+p.T.nsc]
		switch p.Dir {
		case "in":
			v := ev.eval(x.Args[i])
			copy(slot, v.C)
		case "inout":
			r := ev.evalRef(x.Args[i])
			outRefs = append(outRefs, r)
			v := ev.load(r)
			copy(slot, v.C)
		case "out":
			r := ev.evalRef(x.Args[i])
			outRefs = append(outRefs, r)
			for k := range slot {
				slot[k].P = pOut
			}
		case "ref", "cref", "ptr":
			// C++ reference / pointer parameter: bind the argument's object
			refs[p.Sym.RefSlot] = ev.evalRef(x.Args[i])
		}
	}
	saved, savedRefs := ev.frame, ev.refs
	ev.frame, ev.refs = frame, refs
	ev.depth++
	ctl := ev.execBlock(fn.Body)
	ev.depth--
	ev.frame, ev.refs = saved, savedRefs
	var ret Value
	if fn.Ret.Kind != KVoid {
		if ctl == ctlReturn {
			ret = ev.retVal
		} else {
			// GLSL 4.60 §6.1: falling off the end of a non-void function
			// yields an undefined value
			ret = mkValue(fn.Ret)
			p := ev.poison("function " + fn.Name + " ended without returning a value (undefined result)")
			for i := range ret.C {
				ret.C[i].P = p
			}
		}
	} else {
		ret = Value{T: tVoid}
	}
	if ctl == ctlDiscard {
		ev.trap("unsupported: discard")
	}
	// copy out, in parameter order
	k := 0
	for _, p := range fn.Params {
		if p.Dir != "out" && p.Dir != "inout" {
			continue
		}
		r := outRefs[k]
		k++
		v := Value{T: p.T, C: frame[p.Sym.Slot : p.Sym.Slot+p.T.nsc]}
		if r.T != p.T {
			v = ev.convertValue(v, r.T, false)
		}
		ev.store(r, v, x.Pos)
	}
	return ret
}

func (ev *evaluator) callBuiltin(x *Call) Value {
	bi := x.BI
	args := make([]Value, len(x.Args))
	var refs []Ref
	if bi.out != nil || bi.lvalue != nil {
		refs = make([]Ref, len(x.Args))
	}
	for i, a := range x.Args {
		switch {
		case bi.out != nil && bi.out[i]:
			refs[i] = ev.evalRef(a)
		case bi.lvalue != nil && bi.lvalue[i]:
			refs[i] = ev.evalRef(a)
			args[i] = ev.load(refs[i])
			if p := args[i].anyPoison(); p != 0 {
				ev.observe(p, "undefined value read by atomic function "+bi.name, x.Pos)
			}
		default:
			args[i] = ev.eval(a)
		}
	}
	if bi.barrier {
		ev.barrier(x.Pos)
		return Value{T: tVoid}
	}
	ret := bi.impl(ev, bi, args)
	for i := range args {
		if (bi.out != nil && bi.out[i]) || (bi.lvalue != nil && bi.lvalue[i]) {
			v := args[i]
			if v.T != refs[i].T {
				v = ev.convertValue(v, refs[i].T, false)
			}
			ev.store(refs[i], v, x.Pos)
		}
	}
	return ret
}

func (ev *evaluator) barrier(pos Pos) {
	if ev.constMode {
		ev.trap("barrier in constant expression")
	}
	if ev.yield == nil {
		// scheduler runs without coroutines only when no barrier is reachable
		ev.trap("internal: barrier reached in a run scheduled without coroutines")
	}
	if !ev.yield(struct{}{}) {
		panic(abortPanic{})
	}
}
