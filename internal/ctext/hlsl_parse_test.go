package ctext

import (
	"strings"
	"testing"
)

const hlslMainHdr = "RWByteAddressBuffer o : register(u0);\n"

func hlslBody(decls, body string) string {
	return hlslMainHdr + decls + "\n[numthreads(1, 1, 1)]\nvoid main() {\n" + body + "\n}\n"
}

func TestHLSLParseClassification(t *testing.T) {
	cases := []struct {
		name, src, want string // want: "" ok, "unsupported", or an InvalidError code
	}{
		{"minimal", hlslBody("", "o.Store(0, 1u);"), ""},
		// ---- the declarator naga emits for private / workgroup arrays
		{"array suffix after type (static)", hlslBody("static uint[2][3] a = (uint[2][3])0;", ""), "syntax"},
		{"array suffix after type (groupshared)", hlslBody("groupshared uint[4] a;", ""), "syntax"},
		{"array suffix after type (local)", hlslBody("", "uint[2] a = (uint[2])0;"), "syntax"},
		{"array suffix after type (parameter)", hlslBody("void f(uint[2] a) { }", ""), "syntax"},
		{"array suffix after type (member)", hlslBody("struct S { uint[2] a; };", ""), "syntax"},
		{"array suffix after name", hlslBody("static uint a[2][3] = (uint[2][3])0; groupshared float b[4];", "uint c[2] = (uint[2])0; o.Store(0, a[1][2] + c[1]);"), ""},
		// ---- keywords and reserved words as identifiers
		{"keyword local", hlslBody("", "uint register = 1u;"), "keyword"},
		{"keyword type name", hlslBody("", "uint float3 = 1u;"), "keyword"},
		{"keyword param", hlslBody("void f(uint groupshared) { }", ""), "keyword"},
		{"reserved word", hlslBody("", "uint template = 1u;"), "keyword"},
		{"reserved word function", hlslBody("uint operator(uint x) { return x; }", ""), "keyword"},
		{"keyword struct member", hlslBody("struct S { uint in; };", ""), "keyword"},
		{"keyword struct name", hlslBody("struct matrix { uint a; };", ""), "keyword"},
		{"case-sensitive: Float is free", hlslBody("", "uint Float = 1u; uint Static = Float; o.Store(0, Static);"), ""},
		{"fxc case-insensitive", hlslBody("", "uint Pass = 1u;"), "keyword-fxc"},
		{"fxc case-insensitive technique", hlslBody("uint TECHNIQUE(uint x) { return x; }", ""), "keyword-fxc"},
		{"contextual words are free", hlslBody("", "uint sample = 1u; uint point = sample; uint line = point; o.Store(0, line);"), ""},
		{"keyword used in expression", hlslBody("", "o.Store(0, uint(typedef));"), "keyword"},
		// ---- names
		{"undeclared identifier", hlslBody("", "o.Store(0, nope);"), "undeclared"},
		{"undeclared function", hlslBody("", "o.Store(0, asuint(asinh(1.0)));"), "undeclared"},
		{"glsl builtin is not hlsl", hlslBody("", "o.Store(0, asuint(fract(1.5)));"), "undeclared"},
		{"redeclared local", hlslBody("", "uint a = 1u; uint a = 2u;"), "redeclared"},
		{"shadowing in inner scope", hlslBody("", "uint a = 1u; { uint a = 2u; o.Store(0, a); }"), ""},
		{"unknown type", hlslBody("", "vec3 a = 1;"), "undeclared"},
		{"unknown member", hlslBody("struct S { uint a; };", "S s = (S)0; o.Store(0, s.b);"), "undeclared"},
		{"unknown method", hlslBody("", "o.Write(0, 1u);"), "undeclared"},
		{"store on read-only buffer", hlslBody("ByteAddressBuffer r : register(t1);", "r.Store(0, 1u);"), "undeclared"},
		{"function used before declaration", hlslBody("", "o.Store(0, later());") + "uint later() { return 1u; }\n", "undeclared"},
		{"recursion", hlslBody("uint f(uint x) { return x == 0u ? 0u : f(x - 1u); }", "o.Store(0, f(3u));"), "recursion"},
		// ---- types
		{"constructor component count", hlslBody("", "float3 v = float3(1, 2);"), "type"},
		{"constructor too many", hlslBody("", "float2 v = float2(1, 2, 3);"), "type"},
		{"struct constructor syntax", hlslBody("struct S { uint a; uint b; };", "S s = S(1u, 2u);"), "syntax"},
		{"initialiser list count", hlslBody("", "uint a[3] = { 1u, 2u };"), "type"},
		{"vector extension is not implicit", hlslBody("", "float3 v = float2(1, 2);"), "type"},
		{"matrix shape mismatch", hlslBody("", "float2x3 m = float3x2(1, 2, 3, 4, 5, 6);"), "type"},
		{"struct arithmetic", hlslBody("struct S { uint a; };", "S s = (S)0; S t = s + s;"), "type"},
		{"assign struct of other type", hlslBody("struct S { uint a; }; struct T { uint a; };", "S s = (S)0; T t = s;"), "type"},
		{"bitwise on float", hlslBody("", "float a = 1.0; o.Store(0, asuint(a & 1));"), "type"},
		{"shift of float", hlslBody("", "float a = 1.0; o.Store(0, asuint(a << 1));"), "type"},
		{"swizzle out of range", hlslBody("", "float2 a = float2(1, 2); o.Store(0, asuint(a.z));"), "type"},
		{"mixed swizzle sets", hlslBody("", "float4 a = (float4)1; o.Store(0, asuint(a.xg));"), "type"},
		{"glsl swizzle set", hlslBody("", "float4 a = (float4)1; o.Store(0, asuint(a.st.x));"), "type"},
		{"assignment to repeated swizzle", hlslBody("", "float2 a = float2(1, 2); a.xx = float2(1, 2);"), "lvalue"},
		{"assignment to rvalue", hlslBody("", "uint a = 1u; (a + 1u) = 2u;"), "lvalue"},
		{"assignment to const", hlslBody("", "const uint a = 1u; a = 2u;"), "lvalue"},
		{"assignment to static const", hlslBody("static const uint K = 1u;", "K = 2u;"), "lvalue"},
		{"assignment to cbuffer member", hlslBody("cbuffer C : register(b0) { uint k; }", "k = 2u;"), "lvalue"},
		{"out argument must be an l-value", hlslBody("void f(out uint a) { a = 1u; }", "f(1u);"), "lvalue"},
		{"vector condition in if", hlslBody("", "if (uint2(1u, 0u)) { }"), "type"},
		{"int condition converts", hlslBody("", "int a = 2; if (a) { o.Store(0, 1u); } while (a) { a--; }"), ""},
		{"return type mismatch struct", hlslBody("struct S { uint a; }; uint f() { S s = (S)0; return s; }", ""), "type"},
		{"missing return value", hlslBody("uint f() { return; }", ""), "type"},
		{"void value", hlslBody("void f() { }", "uint a = f();"), "type"},
		{"wrong argument count", hlslBody("uint f(uint a) { return a; }", "o.Store(0, f(1u, 2u));"), "no-overload"},
		{"intrinsic argument count", hlslBody("", "o.Store(0, asuint(clamp(1.0, 2.0)));"), "no-overload"},
		{"asuint of bool", hlslBody("", "o.Store(0, asuint(true));"), "no-overload"},
		{"cross needs float3", hlslBody("", "o.Store(0, asuint(cross(float2(1, 2), float2(3, 4)).x));"), "no-overload"},
		{"interlocked on local", hlslBody("", "uint a = 0u; InterlockedAdd(a, 1u);"), "type"},
		{"groupshared initialiser", hlslBody("groupshared uint g = 1u;", ""), "syntax"},
		{"overloads", hlslBody("int f(int a) { return 1; } int f(uint a) { return 2; } int f(float2 a) { return 3; }", "o.Store(0, asuint(f(1) * 100 + f(1u) * 10 + f(float2(1, 2))));"), ""},
		// ---- statements
		{"switch fallthrough", hlslBody("", "uint a = 0u; switch (a) { case 0u: a = 1u; case 1u: a = 2u; break; }"), "fallthrough"},
		{"switch empty case group", hlslBody("", "uint a = 0u; switch (a) { case 0u: case 1u: { a = 2u; break; } default: { break; } }"), ""},
		{"duplicate case", hlslBody("", "uint a = 0u; switch (a) { case 0u: { break; } case 0u: { break; } }"), "syntax"},
		{"non-constant case", hlslBody("", "uint a = 0u; switch (a) { case a: { break; } }"), "const"},
		{"break outside loop", hlslBody("", "break;"), "syntax"},
		{"continue outside loop", hlslBody("", "switch (1) { case 1: { continue; } }"), "syntax"},
		{"unknown statement attribute", hlslBody("", "[looop] for (int i = 0; i < 2; i++) { }"), "syntax"},
		{"statement attributes", hlslBody("", "[unroll(2)] for (int i = 0; i < 2; i++) { [flatten] if (i == 1) { o.Store(0, 1u); } }"), ""},
		{"missing semicolon", hlslBody("", "uint a = 1u"), "syntax"},
		{"unterminated block", hlslMainHdr + "[numthreads(1,1,1)]\nvoid main() { ", "syntax"},
		{"bad literal suffix", hlslBody("", "uint a = 1x;"), "syntax"},
		{"bad register", hlslMainHdr + "ByteAddressBuffer a : register(u1);\n[numthreads(1,1,1)]\nvoid main() { }", "type"},
		{"bad register class name", hlslMainHdr + "ByteAddressBuffer a : register(q1);\n[numthreads(1,1,1)]\nvoid main() { }", "syntax"},
		{"numthreads arity", hlslMainHdr + "[numthreads(1,1)]\nvoid main() { }", "syntax"},
		// ---- valid but not modelled
		{"half", hlslBody("", "half a = 1.0;"), "unsupported"},
		{"min16float", hlslBody("", "min16float a = 1.0;"), "unsupported"},
		{"int64", hlslBody("", "int64_t a = 1;"), "unsupported"},
		{"double", hlslBody("", "double a = 1.0;"), "unsupported"},
		{"texture method", hlslBody("Texture2D<float4> tx : register(t1);", "float4 c = tx.Load(int3(0, 0, 0));"), "unsupported"},
		{"texture declared but unused", hlslBody("Texture2D<float4> tx : register(t1); SamplerState ss : register(s0);", "o.Store(0, 1u);"), ""},
		{"structured buffer index", hlslBody("StructuredBuffer<uint> sb : register(t1);", "o.Store(0, sb[0]);"), "unsupported"},
		{"wave intrinsic", hlslBody("", "o.Store(0, WaveGetLaneCount());"), "unsupported"},
		{"global without static", hlslBody("float g = 1.0;", ""), "unsupported"},
		{"preprocessor", "#define X 1\n" + hlslBody("", ""), "unsupported"},
		{"templated load", hlslBody("ByteAddressBuffer r : register(t1);", "float a = r.Load<float>(0);"), "unsupported"},
		{"scalar function-style cast to vector (DXC meaning)", hlslBody("", "float3 v = float3(1.0); float2 w = float2(v); o.Store(0, asuint(v.z + w.y));"), ""},
		{"function-style cast that extends a vector", hlslBody("", "float3 v = float3(float2(1, 2));"), "unsupported"},
		{"integer matrix", hlslBody("", "int2x2 m = (int2x2)0;"), "unsupported"},
	}
	for _, c := range cases {
		got, err := hlslParseErr(c.src)
		if got != c.want {
			t.Errorf("%s: got %q (%v), want %q\n%s", c.name, got, err, c.want, numbered(c.src))
		}
	}
}

func TestHLSLKeywordTables(t *testing.T) {
	for _, w := range []string{"float", "float4x4", "uint3", "bool2", "cbuffer", "register", "groupshared", "static", "discard", "RWByteAddressBuffer", "Texture2D", "typedef", "inout", "row_major", "true", "NULL", "min16float", "dword", "vector"} {
		if k := hlslReservedKind(w); k != "keyword" {
			t.Errorf("%s: %q, want keyword", w, k)
		}
	}
	for _, w := range []string{"auto", "goto", "new", "sizeof", "template", "this", "union", "virtual", "char", "long", "short", "signed", "enum"} {
		if k := hlslReservedKind(w); k != "reserved" {
			t.Errorf("%s: %q, want reserved", w, k)
		}
	}
	for _, w := range []string{"asm_", "Asm2", "PASS_", "Float", "float5", "float4x5", "main", "sample", "point", "line", "triangle", "linear", "buffer", "position", "color", "Color", "input", "output"} {
		if k := hlslReservedKind(w); k != "" {
			t.Errorf("%s: %q, want free", w, k)
		}
	}
	for _, w := range []string{"pass", "Pass", "PASS", "Technique", "DECL", "ASM"} {
		if k := hlslReservedKind(w); !strings.HasPrefix(k, "keyword") {
			t.Errorf("%s: %q, want a keyword class", w, k)
		}
	}
}
