package ctext

import (
	"errors"
	"os"
	"path/filepath"
	"sort"
	"strings"
	"testing"

	"github.com/gogpu/naga/ir"
)

// hlslTriagedNagaDefects: substrings of InvalidError messages on corpus outputs
// that were examined by hand and are defects of the generated HLSL (see the
// session report).  Every other InvalidError fails the test.
var hlslTriagedNagaDefects = []string{
	// "static uint[2][3] name = ..." / "groupshared uint[N] name;": array suffix between type and name
	"is not an HLSL declarator",
	// asinh / acosh / atanh do not exist in HLSL
	`call of undeclared function "asinh"`, `call of undeclared function "acosh"`, `call of undeclared function "atanh"`,
}

// TestHLSLCorpusParses compiles every compute entry point of the naga snapshot
// corpus to HLSL (several option sets) and requires that the text parses as
// HLSL.  Statistics are printed with -v.
func TestHLSLCorpusParses(t *testing.T) {
	files, _ := filepath.Glob("/repo/snapshot/testdata/in/*.wgsl")
	if len(files) == 0 {
		t.Skip("corpus not found")
	}
	sort.Strings(files)
	type result struct {
		file, entry, cfg string
		err              error
	}
	var results []result
	runStats := map[string]int{}
	skippedFront, skippedBackend, total := 0, 0, 0
	for _, f := range files {
		b, err := os.ReadFile(f)
		if err != nil {
			t.Fatal(err)
		}
		m, err := lowerWGSL(string(b))
		if err != nil || m == nil {
			skippedFront++
			continue
		}
		for _, ep := range m.EntryPoints {
			if ep.Stage != ir.StageCompute {
				continue
			}
			for _, cfg := range hlslConfigs {
				txt, info, cerr := compileHLSLModule(m, hlslOptions(hlslConfig{name: cfg.name, sm: cfg.sm, restrict: cfg.restrict, loopBnd: cfg.loopBnd, zeroWG: cfg.zeroWG}, ep.Name, nil))
				if cerr != nil {
					skippedBackend++
					continue
				}
				total++
				prog, perr := Parse(HLSL, txt)
				results = append(results, result{filepath.Base(f), ep.Name, cfg.name, perr})
				if prog == nil {
					continue
				}
				// smoke run over zero-filled buffers: must never panic
				rc := RunConfig{NumWorkgroups: [3]uint32{1, 1, 1}, StepLimit: 300000, BlockByName: map[string][]byte{}}
				if info != nil && info.EntryPointNames[ep.Name] != "" {
					rc.Entry = info.EntryPointNames[ep.Name]
				} else {
					rc.Entry = ep.Name
				}
				for _, bl := range prog.Blocks() {
					rc.BlockByName[bl.Name] = make([]byte, 1024)
				}
				res, rerr := prog.Run(rc)
				switch {
				case rerr != nil:
					runStats["error: "+firstWords(rerr.Error(), 5)]++
				case res.Trap != "":
					runStats["trap: "+firstWords(res.Trap, 5)]++
					if testing.Verbose() && cfg.name == hlslConfigs[0].name {
						t.Logf("    trap %s:%s: %s", filepath.Base(f), ep.Name, res.Trap)
					}
				case len(res.Poison) > 0:
					runStats["poison"]++
					if testing.Verbose() {
						t.Logf("    poison %s:%s:%s: %v", filepath.Base(f), ep.Name, cfg.name, res.Poison)
					}
				default:
					runStats["clean"]++
				}
			}
		}
	}
	ok, unsup, invalid := 0, 0, 0
	unsupWhat := map[string]int{}
	invalidByMsg := map[string][]string{}
	for _, r := range results {
		var ie *InvalidError
		var ue *UnsupportedError
		switch {
		case r.err == nil:
			ok++
		case errors.As(r.err, &ue):
			unsup++
			unsupWhat[ue.What]++
		case errors.As(r.err, &ie):
			invalid++
			key := ie.Code + ": " + ie.Msg
			invalidByMsg[key] = append(invalidByMsg[key], r.file+":"+r.entry+":"+r.cfg+"@"+ie.Pos.String())
		default:
			t.Errorf("%s %s %s: unexpected error type %v", r.file, r.entry, r.cfg, r.err)
		}
	}
	t.Logf("corpus: %d files, %d skipped by naga front end, %d (entry,config) rejected by the HLSL backend", len(files), skippedFront, skippedBackend)
	t.Logf("parsed %d texts: ok %d, unsupported %d, invalid %d", total, ok, unsup, invalid)
	for _, k := range sortedKeys(unsupWhat) {
		t.Logf("  unsupported x%d: %s", unsupWhat[k], k)
	}
	for _, k := range sortedKeys(runStats) {
		t.Logf("  smoke run x%d: %s", runStats[k], k)
	}
	untriaged := 0
	for _, k := range sortedKeys(invalidByMsg) {
		where := invalidByMsg[k]
		known := false
		for _, pat := range hlslTriagedNagaDefects {
			if strings.Contains(k, pat) {
				known = true
			}
		}
		tag := "UNTRIAGED"
		if known {
			tag = "naga defect"
		} else {
			untriaged += len(where)
		}
		t.Logf("  invalid [%s] x%d: %s   e.g. %s", tag, len(where), k, where[0])
	}
	if untriaged > 0 {
		t.Errorf("%d corpus texts fail to parse with an untriaged InvalidError", untriaged)
	}
	// the corpus contains many feature tests of constructs outside the modelled
	// surface (64-bit integers, f16, f64, textures, ray queries, wave operations)
	if total > 0 && unsup*4 > total {
		t.Errorf("more than 25%% of the corpus is unsupported (%d of %d)", unsup, total)
	}
}
