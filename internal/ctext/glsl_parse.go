package ctext

import (
	"math"
	"strconv"
	"strings"
)

// glslFE is the GLSL front end: preprocessor lines, qualifiers, interface
// blocks, declarations.  Grammar reference: GLSL 4.60 §9 "Shading Language
// Grammar" (and ESSL 3.20 §9).
type glslFE struct {
	version  int
	es       bool
	profile  string
	reserved map[string]bool
	lenient  bool // an #extension may add built-ins: do not gate built-in functions by version
}

var glslDesktopVersions = map[int]bool{110: true, 120: true, 130: true, 140: true, 150: true, 330: true, 400: true, 410: true, 420: true, 430: true, 440: true, 450: true, 460: true}
var glslESVersions = map[int]bool{100: true, 300: true, 310: true, 320: true}

var glslQualifierWords = words(`
const in out inout uniform buffer shared attribute varying
coherent volatile restrict readonly writeonly
layout centroid flat smooth noperspective patch sample
invariant precise highp mediump lowp subroutine
`)

var glslScalarVecMatTypes = func() map[string]*Type {
	m := map[string]*Type{"void": tVoid, "bool": tBool, "int": tInt, "uint": tUint, "float": tFloat, "double": tDouble}
	for n := 2; n <= 4; n++ {
		d := strconv.Itoa(n)
		m["vec"+d] = vecOf(tFloat, n)
		m["ivec"+d] = vecOf(tInt, n)
		m["uvec"+d] = vecOf(tUint, n)
		m["bvec"+d] = vecOf(tBool, n)
		m["dvec"+d] = vecOf(tDouble, n)
		m["mat"+d] = matOf(tFloat, n, n)
		m["dmat"+d] = matOf(tDouble, n, n)
		for r := 2; r <= 4; r++ {
			m["mat"+d+"x"+strconv.Itoa(r)] = matOf(tFloat, n, r)
			m["dmat"+d+"x"+strconv.Itoa(r)] = matOf(tDouble, n, r)
		}
	}
	return m
}()

// atLeast reports version >= desktop (non-ES) or >= es (ES); 0 = never.
func (fe *glslFE) atLeast(desktop, es int) bool {
	if fe.es {
		return es != 0 && fe.version >= es
	}
	return desktop != 0 && fe.version >= desktop
}

func (fe *glslFE) hasDiscard() bool { return true }

func (fe *glslFE) isReservedWord(p *parser, w string) bool { return fe.reserved[w] }

func (fe *glslFE) checkDeclIdent(p *parser, t Token) {
	if fe.reserved[t.Text] {
		t.Pos.invalid(GLSL, "keyword", "%q is a keyword or reserved word of GLSL %s and cannot be declared as an identifier", t.Text, fe.versionString())
	}
	if strings.HasPrefix(t.Text, "gl_") {
		t.Pos.invalid(GLSL, "reserved", "identifiers starting with \"gl_\" are reserved (%q)", t.Text)
	}
	if strings.Contains(t.Text, "__") {
		// GLSL 4.60 §3.7: "identifiers containing two consecutive underscores
		// (__) are reserved"; using one is an error in ESSL ("it is an error
		// to declare") and reserved for the implementation on desktop.
		t.Pos.invalid(GLSL, "reserved", "identifiers containing \"__\" are reserved (%q)", t.Text)
	}
}

func (fe *glslFE) versionString() string {
	s := strconv.Itoa(fe.version)
	if fe.es {
		s += " es"
	} else if fe.profile != "" {
		s += " " + fe.profile
	}
	return s
}

// isBuiltinTypeName: a type keyword valid in this version.
func (fe *glslFE) builtinType(w string) (*Type, bool) {
	if t, ok := glslScalarVecMatTypes[w]; ok {
		if t.Base() == KDouble && !fe.atLeast(400, 0) {
			return nil, false
		}
		if t.Base() == KUint && !fe.atLeast(130, 300) {
			return nil, false
		}
		return t, true
	}
	if glslIsOpaqueTypeName(w) && fe.reserved[w] {
		return &Type{Kind: KOpaque, Name: w}, true
	}
	return nil, false
}

// glslIsExtensionType reports type names that exist only with an extension
// (GL_ARB_gpu_shader_int64, GL_EXT_shader_explicit_arithmetic_types_*,
// GL_AMD_gpu_shader_half_float, GL_NV_gpu_shader5 ...).
func glslIsExtensionType(w string) bool {
	for _, p := range []string{"int8_t", "int16_t", "int32_t", "int64_t", "uint8_t", "uint16_t", "uint32_t", "uint64_t", "float16_t", "float32_t", "float64_t"} {
		if w == p {
			return true
		}
	}
	for _, p := range []string{"i8vec", "i16vec", "i32vec", "i64vec", "u8vec", "u16vec", "u32vec", "u64vec", "f16vec", "f32vec", "f64vec", "f16mat", "f32mat", "f64mat"} {
		if strings.HasPrefix(w, p) && len(w) > len(p) && w[len(p)] >= '2' && w[len(p)] <= '4' {
			return true
		}
	}
	return false
}

// extensionFeature raises the right error for a construct that needs an
// arithmetic-type extension: UnsupportedError when the text enables one,
// InvalidError otherwise.
func (fe *glslFE) extensionFeature(p *parser, pos Pos, what string) {
	for _, e := range p.prog.Extensions {
		if strings.HasSuffix(e, ":disable") {
			continue
		}
		for _, k := range []string{"int64", "explicit_arithmetic", "gpu_shader5", "half_float", "int16", "16bit_storage", "8bit_storage", "float16"} {
			if strings.Contains(e, k) {
				pos.unsupported(GLSL, "%s (extension %s)", what, e)
			}
		}
	}
	pos.invalid(GLSL, "extension", "%s requires an extension that the text does not enable with #extension", what)
}

func (fe *glslFE) isTypeStart(p *parser, t Token) bool {
	if t.Kind != TIdent {
		return false
	}
	if t.Text == "struct" {
		return true
	}
	if glslIsExtensionType(t.Text) && !p.varScopes[len(p.varScopes)-1][t.Text] {
		return true
	}
	if _, ok := fe.builtinType(t.Text); ok {
		return true
	}
	return p.isTypeName(t.Text)
}

func (fe *glslFE) startsDecl(p *parser) bool {
	t := p.peek()
	if t.Kind != TIdent {
		return false
	}
	if glslQualifierWords[t.Text] && fe.reserved[t.Text] {
		return true
	}
	if t.Text == "struct" {
		return true
	}
	if !fe.isTypeStart(p, t) {
		return false
	}
	// T name ... / T[..] name ... is a declaration; T( / T[..]( is a constructor
	j := 1
	for p.peekN(j).Kind == TPunct && p.peekN(j).Text == "[" {
		depth := 0
		for {
			tk := p.peekN(j)
			if tk.Kind == TEOF {
				return false
			}
			if tk.Kind == TPunct && tk.Text == "[" {
				depth++
			}
			if tk.Kind == TPunct && tk.Text == "]" {
				depth--
				if depth == 0 {
					j++
					break
				}
			}
			j++
		}
	}
	return p.peekN(j).Kind == TIdent
}

// ---------------------------------------------------------------------------
// literals
// ---------------------------------------------------------------------------

func (fe *glslFE) numberLit(p *parser, t Token) Expr {
	if t.IsFloat {
		switch t.Suffix {
		case "", "f", "F":
			if t.Suffix != "" && !fe.atLeast(120, 300) {
				t.Pos.invalid(GLSL, "version", "float suffix needs GLSL 1.20 / ESSL 3.00")
			}
			f, err := strconv.ParseFloat(t.Text, 32)
			if err != nil && !math.IsInf(f, 0) {
				t.Pos.invalid(GLSL, "syntax", "bad floating literal %q", t.Text)
			}
			return &Lit{ExprBase: ExprBase{Pos: t.Pos}, V: floatValue(float32(f))}
		case "lf", "LF":
			if !fe.atLeast(400, 0) {
				t.Pos.invalid(GLSL, "version", "double literal %q needs GLSL 4.00", t.String())
			}
			f, _ := strconv.ParseFloat(t.Text, 64)
			// doubles are type-checked only; the cell keeps the float32 image
			return &Lit{ExprBase: ExprBase{Pos: t.Pos}, V: Value{T: tDouble, C: []Cell{f32Cell(float32(f))}}}
		}
		switch strings.ToLower(t.Suffix) {
		case "hf":
			fe.extensionFeature(p, t.Pos, "half-precision literal "+t.String())
		}
		t.Pos.invalid(GLSL, "syntax", "bad suffix on floating literal %q", t.String())
	}
	typ := tInt
	switch t.Suffix {
	case "":
	case "u", "U":
		if !fe.atLeast(130, 300) {
			t.Pos.invalid(GLSL, "version", "unsigned literal needs GLSL 1.30 / ESSL 3.00")
		}
		typ = tUint
	default:
		switch strings.ToLower(t.Suffix) {
		case "l", "ul", "lu", "s", "us":
			fe.extensionFeature(p, t.Pos, "sized integer literal "+t.String())
		}
		t.Pos.invalid(GLSL, "syntax", "bad suffix on integer literal %q", t.String())
	}
	body := t.Text
	var v uint64
	var err error
	switch {
	case strings.HasPrefix(body, "0x") || strings.HasPrefix(body, "0X"):
		if len(body) == 2 {
			t.Pos.invalid(GLSL, "syntax", "bad hexadecimal literal %q", body)
		}
		v, err = strconv.ParseUint(body[2:], 16, 64)
	case len(body) > 1 && body[0] == '0':
		v, err = strconv.ParseUint(body[1:], 8, 64)
		if err != nil {
			t.Pos.invalid(GLSL, "syntax", "bad octal literal %q", body)
		}
	default:
		v, err = strconv.ParseUint(body, 10, 64)
	}
	if err != nil || v > 0xffffffff {
		// GLSL 4.60 §4.1.3: "It is a compile-time error to provide a literal
		// integer whose bit pattern cannot fit in 32 bits."
		t.Pos.invalid(GLSL, "literal", "integer literal %q does not fit in 32 bits", t.String())
	}
	return &Lit{ExprBase: ExprBase{Pos: t.Pos}, V: Value{T: typ, C: []Cell{{B: uint32(v)}}}}
}

// ---------------------------------------------------------------------------
// types, qualifiers
// ---------------------------------------------------------------------------

func (fe *glslFE) parseArrayDims(p *parser) []Expr {
	var dims []Expr
	for p.isPunct("[") {
		p.next()
		if p.accept("]") {
			dims = append(dims, nil)
			continue
		}
		e := p.parseCond() // constant_expression = conditional_expression
		p.expect("]")
		dims = append(dims, e)
	}
	return dims
}

// parseTypeSpec parses type_specifier: a type name or struct specifier plus
// optional array dimensions.
func (fe *glslFE) parseTypeSpec(p *parser) *TypeExpr {
	t := p.peek()
	if t.Kind != TIdent {
		t.Pos.invalid(GLSL, "syntax", "expected a type, found %q", t.String())
	}
	tx := &TypeExpr{Pos: t.Pos}
	switch {
	case t.Text == "struct":
		tx.Struct = fe.parseStructSpec(p)
		tx.Name = tx.Struct.Name
	default:
		if _, ok := fe.builtinType(t.Text); !ok && !p.isTypeName(t.Text) {
			if glslIsExtensionType(t.Text) {
				fe.extensionFeature(p, t.Pos, "type "+t.Text)
			}
			if fe.reserved[t.Text] {
				t.Pos.invalid(GLSL, "syntax", "expected a type, found keyword %q", t.Text)
			}
			t.Pos.invalid(GLSL, "undeclared", "unknown type name %q", t.Text)
		}
		p.next()
		tx.Name = t.Text
	}
	tx.Dims = fe.parseArrayDims(p)
	return tx
}

func (fe *glslFE) parseStructSpec(p *parser) *StructDecl {
	st := p.expectWord("struct")
	sd := &StructDecl{Pos: st.Pos}
	if p.peek().Kind == TIdent {
		sd.Name = p.declIdent().Text
	}
	p.expect("{")
	if p.isPunct("}") {
		p.peek().Pos.invalid(GLSL, "syntax", "a structure must have at least one member")
	}
	for !p.isPunct("}") {
		if p.peek().Kind == TEOF {
			p.peek().Pos.invalid(GLSL, "syntax", "unexpected end of input in struct")
		}
		sd.Fields = append(sd.Fields, fe.parseMemberDecls(p)...)
	}
	p.next()
	if sd.Name != "" {
		p.declareType(sd.Name)
	}
	return sd
}

// parseMemberDecls parses "quals type a, b[2];" inside a struct or block.
func (fe *glslFE) parseMemberDecls(p *parser) []*VarDecl {
	q := fe.parseQualifiers(p)
	tx := fe.parseTypeSpec(p)
	var out []*VarDecl
	for {
		name := p.declIdent()
		vd := &VarDecl{Pos: name.Pos, Name: name.Text, Quals: q}
		dims := fe.parseArrayDims(p)
		vd.TypeX = &TypeExpr{Pos: tx.Pos, Name: tx.Name, Struct: tx.Struct, Dims: append(append([]Expr{}, dims...), tx.Dims...)}
		if p.isPunct("=") {
			p.peek().Pos.invalid(GLSL, "syntax", "structure and block members cannot have initializers")
		}
		out = append(out, vd)
		if p.accept(",") {
			continue
		}
		p.expect(";")
		return out
	}
}

func (fe *glslFE) parseQualifiers(p *parser) Quals {
	var q Quals
	q.Pos = p.peek().Pos
	for {
		t := p.peek()
		if t.Kind != TIdent || !glslQualifierWords[t.Text] || !fe.reserved[t.Text] {
			return q
		}
		dup := func(b bool) {
			if b {
				t.Pos.invalid(GLSL, "syntax", "duplicate qualifier %q", t.Text)
			}
		}
		p.next()
		switch t.Text {
		case "const":
			dup(q.Const)
			q.Const = true
		case "in":
			dup(q.In)
			q.In = true
		case "out":
			dup(q.Out)
			q.Out = true
		case "inout":
			dup(q.Inout)
			q.Inout = true
		case "uniform":
			dup(q.Uniform)
			q.Uniform = true
		case "buffer":
			dup(q.Buffer)
			q.Buffer = true
		case "shared":
			dup(q.Shared)
			q.Shared = true
		case "attribute":
			q.In = true
		case "varying":
			q.Out = true
		case "coherent":
			q.Coherent = true
		case "volatile":
			q.Volatile = true
		case "restrict":
			q.Restrict = true
		case "readonly":
			q.Readonly = true
		case "writeonly":
			q.Writeonly = true
		case "centroid":
			q.Centroid = true
		case "patch":
			q.Patch = true
		case "sample":
			q.Sample = true
		case "flat", "smooth", "noperspective":
			if q.Interp != "" {
				t.Pos.invalid(GLSL, "syntax", "more than one interpolation qualifier")
			}
			q.Interp = t.Text
		case "invariant":
			q.Invariant = true
		case "precise":
			q.Precise = true
		case "highp", "mediump", "lowp":
			if q.Precision != "" {
				t.Pos.invalid(GLSL, "syntax", "more than one precision qualifier")
			}
			q.Precision = t.Text
		case "subroutine":
			t.Pos.unsupported(GLSL, "subroutine qualifier")
		case "layout":
			q.HasLayout = true
			p.expect("(")
			for {
				it := p.peek()
				if it.Kind != TIdent {
					it.Pos.invalid(GLSL, "syntax", "expected layout qualifier name, found %q", it.String())
				}
				p.next()
				item := LayoutItem{Pos: it.Pos, Name: it.Text}
				if p.accept("=") {
					item.Val = p.parseCond()
				}
				q.Layout = append(q.Layout, item)
				if p.accept(",") {
					continue
				}
				p.expect(")")
				break
			}
		}
	}
}

// ---------------------------------------------------------------------------
// expressions: constructors
// ---------------------------------------------------------------------------

func (fe *glslFE) parsePrimary(p *parser) Expr {
	t := p.peek()
	if t.Kind != TIdent {
		return nil
	}
	_, builtin := fe.builtinType(t.Text)
	if !builtin && !p.isTypeName(t.Text) {
		if glslIsExtensionType(t.Text) && p.peekN(1).Kind == TPunct && (p.peekN(1).Text == "(" || p.peekN(1).Text == "[") {
			fe.extensionFeature(p, t.Pos, "type "+t.Text)
		}
		return nil
	}
	// constructor: type_specifier ( args )
	p.next()
	tx := &TypeExpr{Pos: t.Pos, Name: t.Text}
	tx.Dims = fe.parseArrayDims(p)
	if !p.isPunct("(") {
		p.peek().Pos.invalid(GLSL, "syntax", "type name %q used as an expression (expected '(' for a constructor)", t.Text)
	}
	args := p.parseArgs()
	return &Call{ExprBase: ExprBase{Pos: t.Pos}, Name: t.Text, TypeX: tx, Args: args}
}

// ---------------------------------------------------------------------------
// local declarations
// ---------------------------------------------------------------------------

func (fe *glslFE) parseDeclStmt(p *parser) Stmt {
	start := p.peek()
	q := fe.parseQualifiers(p)
	if p.isWord("precision") {
		// precision statement at local scope is legal; ignore it
		fe.parsePrecisionDecl(p)
		return &ExprStmt{Pos: start.Pos}
	}
	tx := fe.parseTypeSpec(p)
	ds := &DeclStmt{Pos: start.Pos}
	if p.accept(";") {
		if tx.Struct == nil {
			start.Pos.invalid(GLSL, "syntax", "declaration declares nothing")
		}
		ds.Struct = tx.Struct
		return ds
	}
	ds.Struct = tx.Struct
	ds.Vars = fe.parseDeclarators(p, q, tx)
	p.expect(";")
	return ds
}

// parseDeclarators parses "a, b[2] = init, ..." up to (not including) ';'.
func (fe *glslFE) parseDeclarators(p *parser, q Quals, tx *TypeExpr) []*VarDecl {
	var out []*VarDecl
	for {
		name := p.declIdent()
		vd := &VarDecl{Pos: name.Pos, Name: name.Text, Quals: q}
		dims := fe.parseArrayDims(p)
		vd.TypeX = &TypeExpr{Pos: tx.Pos, Name: tx.Name, Struct: tx.Struct, Dims: append(append([]Expr{}, dims...), tx.Dims...)}
		if p.accept("=") {
			vd.Init = fe.parseInitializer(p)
		}
		// the name becomes visible after its initializer
		p.declareVar(name.Text)
		out = append(out, vd)
		if !p.accept(",") {
			return out
		}
	}
}

func (fe *glslFE) parseInitializer(p *parser) Expr {
	if p.isPunct("{") {
		lb := p.next()
		if !fe.atLeast(420, 0) {
			lb.Pos.invalid(GLSL, "version", "brace initializers need GLSL 4.20")
		}
		il := &InitList{ExprBase: ExprBase{Pos: lb.Pos}}
		for !p.isPunct("}") {
			il.Elems = append(il.Elems, fe.parseInitializer(p))
			if !p.accept(",") {
				break
			}
		}
		p.expect("}")
		return il
	}
	return p.parseAssign()
}

func (fe *glslFE) parsePrecisionDecl(p *parser) {
	p.expectWord("precision")
	t := p.next()
	if t.Kind != TIdent || (t.Text != "highp" && t.Text != "mediump" && t.Text != "lowp") {
		t.Pos.invalid(GLSL, "syntax", "expected precision qualifier, found %q", t.String())
	}
	ty := p.next()
	if ty.Kind != TIdent {
		ty.Pos.invalid(GLSL, "syntax", "expected type in precision statement")
	}
	if _, ok := fe.builtinType(ty.Text); !ok {
		ty.Pos.invalid(GLSL, "syntax", "precision statement needs float, int or an opaque type, found %q", ty.Text)
	}
	p.expect(";")
}

// ---------------------------------------------------------------------------
// translation unit
// ---------------------------------------------------------------------------

// topDecl is one external declaration in source order (the checker processes
// them in order because GLSL requires declaration before use).
type topDecl struct {
	Pos      Pos
	Struct   *StructDecl
	Vars     []*VarDecl
	Func     *Function
	Block    *IfaceBlock
	BlockDef *blockDecl
	QualOnly *Quals // "layout(local_size_x = 1) in;"
	Requal   []Token
}

// blockDecl is an interface block as written.
type blockDecl struct {
	Pos      Pos
	Quals    Quals
	Name     string
	Members  []*VarDecl
	Instance string
	InstPos  Pos
	InstDims []Expr
}

func (fe *glslFE) parseTranslationUnit(p *parser) []*topDecl {
	var decls []*topDecl
	first := true
	for {
		t := p.peek()
		if t.Kind == TEOF {
			break
		}
		if t.Kind == TDirective {
			p.next()
			fe.directive(p, t, first)
			first = false
			continue
		}
		if first {
			// no #version: GLSL 1.10
			fe.setVersion(p, t.Pos, 110, "")
			first = false
		}
		if p.accept(";") {
			continue
		}
		if fe.version < 300 {
			// a later #version line is the real error; look for it first
			for _, tk := range p.toks[p.i:] {
				if tk.Kind == TDirective && strings.HasPrefix(tk.Text, "version") {
					tk.Pos.invalid(GLSL, "syntax", "#version must be the first directive and precede everything but comments and white space")
				}
			}
			fe.checkVersionSupported(t.Pos)
		}
		if d := fe.parseExternalDecl(p); d != nil {
			decls = append(decls, d)
		}
	}
	if first {
		fe.setVersion(p, Pos{1, 1}, 110, "")
	}
	return decls
}

// checkVersionSupported is called before any declaration is parsed.
func (fe *glslFE) checkVersionSupported(pos Pos) {
	if !fe.atLeast(330, 300) {
		pos.unsupported(GLSL, "GLSL versions below 3.30 / ESSL 3.00 are not modelled")
	}
}

func (fe *glslFE) setVersion(p *parser, pos Pos, v int, profile string) {
	fe.version = v
	fe.profile = profile
	fe.es = profile == "es" || v == 100
	if fe.es {
		if !glslESVersions[v] {
			pos.invalid(GLSL, "version", "unknown ESSL version %d", v)
		}
	} else if !glslDesktopVersions[v] {
		pos.invalid(GLSL, "version", "unknown GLSL version %d", v)
	}
	fe.reserved = glslReservedSet(v, fe.es)
	p.prog.Version = v
	p.prog.ES = fe.es
	p.prog.Profile = profile
}

func (fe *glslFE) directive(p *parser, t Token, first bool) {
	f := strings.Fields(t.Text)
	if len(f) == 0 {
		return // null directive
	}
	switch f[0] {
	case "version":
		if !first {
			t.Pos.invalid(GLSL, "syntax", "#version must be the first directive and precede everything but comments and white space")
		}
		if len(f) < 2 || len(f) > 3 {
			t.Pos.invalid(GLSL, "syntax", "malformed #version")
		}
		v, err := strconv.Atoi(f[1])
		if err != nil {
			t.Pos.invalid(GLSL, "syntax", "malformed #version number %q", f[1])
		}
		profile := ""
		if len(f) == 3 {
			profile = f[2]
			switch profile {
			case "core", "compatibility":
				if v < 150 {
					t.Pos.invalid(GLSL, "version", "profile %q needs GLSL 1.50", profile)
				}
			case "es":
				if v < 300 {
					t.Pos.invalid(GLSL, "version", "#version %d es does not exist", v)
				}
			default:
				t.Pos.invalid(GLSL, "syntax", "unknown profile %q", profile)
			}
		} else if v == 300 || v == 310 || v == 320 {
			t.Pos.invalid(GLSL, "version", "#version %d requires the 'es' profile", v)
		}
		fe.setVersion(p, t.Pos, v, profile)
	case "extension":
		if first {
			fe.setVersion(p, t.Pos, 110, "")
		}
		rest := strings.TrimSpace(strings.TrimPrefix(t.Text, "extension"))
		parts := strings.Split(rest, ":")
		if len(parts) != 2 {
			t.Pos.invalid(GLSL, "syntax", "malformed #extension")
		}
		name, beh := strings.TrimSpace(parts[0]), strings.TrimSpace(parts[1])
		switch beh {
		case "require", "enable", "warn", "disable":
		default:
			t.Pos.invalid(GLSL, "syntax", "unknown #extension behaviour %q", beh)
		}
		p.prog.Extensions = append(p.prog.Extensions, name+":"+beh)
	case "pragma", "line":
		if first {
			fe.setVersion(p, t.Pos, 110, "")
		}
	case "define", "undef", "if", "ifdef", "ifndef", "else", "elif", "endif", "error":
		t.Pos.unsupported(GLSL, "preprocessor directive #%s", f[0])
	default:
		t.Pos.invalid(GLSL, "syntax", "unknown preprocessor directive #%s", f[0])
	}
}

func (fe *glslFE) parseExternalDecl(p *parser) *topDecl {
	start := p.peek()
	if start.Kind == TIdent && start.Text == "precision" {
		fe.parsePrecisionDecl(p)
		return nil
	}
	q := fe.parseQualifiers(p)
	anyQual := p.peek().Pos != start.Pos
	d := &topDecl{Pos: start.Pos}
	// "layout(...) in;"  "layout(std430) buffer;"
	if anyQual && p.accept(";") {
		d.QualOnly = &q
		return d
	}
	t := p.peek()
	if t.Kind != TIdent {
		t.Pos.invalid(GLSL, "syntax", "unexpected %q at global scope", t.String())
	}
	// interface block: quals Name { ... } [instance[dims]] ;
	if anyQual && p.peekN(1).Kind == TPunct && p.peekN(1).Text == "{" && t.Text != "struct" {
		name := p.declIdent()
		p.next() // {
		bd := &blockDecl{Pos: name.Pos, Quals: q, Name: name.Text}
		for !p.isPunct("}") {
			if p.peek().Kind == TEOF {
				p.peek().Pos.invalid(GLSL, "syntax", "unexpected end of input in interface block")
			}
			bd.Members = append(bd.Members, fe.parseMemberDecls(p)...)
		}
		p.next()
		if p.peek().Kind == TIdent {
			in := p.declIdent()
			bd.Instance = in.Text
			bd.InstPos = in.Pos
			bd.InstDims = fe.parseArrayDims(p)
			p.declareVar(in.Text)
		} else {
			for _, m := range bd.Members {
				p.declareVar(m.Name)
			}
		}
		p.expect(";")
		d.BlockDef = bd
		return d
	}
	// "invariant gl_Position;" / "precise x, y;"
	if anyQual && !fe.isTypeStart(p, t) && p.peekN(1).Kind == TPunct && (p.peekN(1).Text == ";" || p.peekN(1).Text == ",") {
		for {
			id := p.next()
			if id.Kind != TIdent {
				id.Pos.invalid(GLSL, "syntax", "expected identifier in requalification")
			}
			d.Requal = append(d.Requal, id)
			if p.accept(",") {
				continue
			}
			p.expect(";")
			break
		}
		d.QualOnly = &q
		return d
	}
	tx := fe.parseTypeSpec(p)
	if p.accept(";") {
		if tx.Struct == nil {
			start.Pos.invalid(GLSL, "syntax", "declaration declares nothing")
		}
		d.Struct = tx.Struct
		return d
	}
	d.Struct = tx.Struct
	// function?
	if p.peek().Kind == TIdent && p.peekN(1).Kind == TPunct && p.peekN(1).Text == "(" {
		name := p.peek()
		if name.Text != "main" {
			fe.checkDeclIdent(p, name)
		}
		p.next()
		fn := &Function{Pos: name.Pos, Name: name.Text, RetX: tx}
		if q.Const || q.In || q.Out || q.Uniform || q.Buffer || q.Shared || q.HasLayout {
			q.Pos.invalid(GLSL, "syntax", "storage or layout qualifier on a function return type")
		}
		p.expect("(")
		p.pushScope()
		if p.isWord("void") && p.peekN(1).Kind == TPunct && p.peekN(1).Text == ")" {
			p.next()
		}
		for !p.isPunct(")") {
			pq := fe.parseQualifiers(p)
			ptx := fe.parseTypeSpec(p)
			prm := &Param{Pos: ptx.Pos, Quals: pq, TypeX: ptx, Dir: "in"}
			n := 0
			if pq.In {
				n++
			}
			if pq.Out {
				prm.Dir = "out"
				n++
			}
			if pq.Inout {
				prm.Dir = "inout"
				n++
			}
			if n > 1 {
				pq.Pos.invalid(GLSL, "syntax", "more than one of in/out/inout on a parameter")
			}
			if pq.Uniform || pq.Buffer || pq.Shared || pq.HasLayout {
				pq.Pos.invalid(GLSL, "syntax", "storage or layout qualifier on a parameter")
			}
			if pq.Const && prm.Dir != "in" {
				pq.Pos.invalid(GLSL, "syntax", "const cannot be used with out or inout")
			}
			if p.peek().Kind == TIdent {
				nm := p.declIdent()
				prm.Name = nm.Text
				prm.Pos = nm.Pos
				dims := fe.parseArrayDims(p)
				prm.TypeX = &TypeExpr{Pos: ptx.Pos, Name: ptx.Name, Struct: ptx.Struct, Dims: append(append([]Expr{}, dims...), ptx.Dims...)}
				p.declareVar(nm.Text)
			}
			fn.Params = append(fn.Params, prm)
			if p.accept(",") {
				if p.isPunct(")") {
					p.peek().Pos.invalid(GLSL, "syntax", "trailing comma in parameter list")
				}
				continue
			}
			break
		}
		p.expect(")")
		if p.accept(";") {
			p.popScope()
			d.Func = fn
			return d
		}
		if !p.isPunct("{") {
			p.peek().Pos.invalid(GLSL, "syntax", "expected ';' or function body, found %q", p.peek().String())
		}
		// GLSL 4.60 §4.2.2: parameters and the outermost body block share one
		// scope; the parser only needs type-name visibility, so nesting is fine.
		fn.Body = p.parseBlock()
		p.popScope()
		d.Func = fn
		return d
	}
	d.Vars = fe.parseDeclarators(p, q, tx)
	p.expect(";")
	return d
}
