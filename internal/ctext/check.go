package ctext

import (
	"fmt"
	"sort"
)

// langRules are the typing rules of one dialect.
type langRules interface {
	// implicitConv reports whether a value of type from converts implicitly to to.
	implicitConv(from, to *Type) bool
	// convBetter reports whether converting `from` to a is a better
	// conversion than converting it to b (overload resolution).
	convBetter(from, a, b *Type) bool
	binaryTypes(c *checker, pos Pos, op string, lt, rt *Type) (res, lc, rc *Type, mode binMode)
	unaryType(c *checker, pos Pos, op string, t *Type) *Type
	checkCtor(c *checker, call *Call, t *Type)
	checkVecMember(c *checker, m *Member) bool
	checkMethod(c *checker, m *Method)
	// builtinFuncs returns the overloads of a builtin function name that
	// exist in the current language version.  known reports that the name is
	// a builtin of the language at all; unmodelled that it is valid but not
	// modelled (=> UnsupportedError); needs describes the version that has it.
	builtinFuncs(name string) (sigs []*builtinSig, known, unmodelled bool, needs string)
	builtinVar(c *checker, pos Pos, name string) *Symbol
	// userMayRedeclareBuiltin: false in ESSL.
	userMayRedeclareBuiltin() bool
	returnConverts() bool
	// namedType resolves a built-in type name of the dialect.
	namedType(name string) (*Type, bool)
	// checkArrayDims applies dialect restrictions on array declarators.
	checkArrayDims(c *checker, tx *TypeExpr)
}

type scope struct {
	syms map[string]*Symbol
}

type checker struct {
	prog   *Program
	d      Dialect
	rules  langRules
	scopes []*scope
	fn     *Function
	frame  int
	loops  int
	swits  int
	ev     *evaluator // constant folding
}

func (c *checker) invalid(pos Pos, code, format string, a ...any) {
	pos.invalid(c.d, code, format, a...)
}
func (c *checker) unsupported(pos Pos, format string, a ...any) {
	pos.unsupported(c.d, format, a...)
}

func (c *checker) push() { c.scopes = append(c.scopes, &scope{syms: map[string]*Symbol{}}) }
func (c *checker) pop()  { c.scopes = c.scopes[:len(c.scopes)-1] }

func (c *checker) lookup(name string) *Symbol {
	for i := len(c.scopes) - 1; i >= 0; i-- {
		if s, ok := c.scopes[i].syms[name]; ok {
			return s
		}
	}
	return nil
}

func (c *checker) declare(s *Symbol, kind string) {
	sc := c.scopes[len(c.scopes)-1]
	s.Depth = len(c.scopes) - 1
	if old, ok := sc.syms[s.Name]; ok {
		if !(old.Kind == SymFunc && s.Kind == SymFunc) {
			c.invalid(s.Pos, "redeclared", "%q redeclared in the same scope (previous declaration at %s)", s.Name, old.Pos)
		}
	}
	sc.syms[s.Name] = s
	c.prog.idents = append(c.prog.idents, IdentInfo{Name: s.Name, Kind: kind, Depth: s.Depth, Pos: s.Pos})
}

func (c *checker) noteIdent(name, kind string, depth int, pos Pos) {
	c.prog.idents = append(c.prog.idents, IdentInfo{Name: name, Kind: kind, Depth: depth, Pos: pos})
}

// ---------------------------------------------------------------------------
// types
// ---------------------------------------------------------------------------

type unsizedMode uint8

const (
	unsizedNo    unsizedMode = iota
	unsizedOuter             // outermost dimension may be [] (block last member, initialised declarations)
)

func (c *checker) resolveType(tx *TypeExpr, um unsizedMode) *Type {
	var t *Type
	if tx.Struct != nil {
		t = c.declareStruct(tx.Struct)
	} else if bt, ok := c.rules.namedType(tx.Name); ok {
		t = bt
	} else {
		s := c.lookup(tx.Name)
		if s == nil {
			c.invalid(tx.Pos, "undeclared", "unknown type %q", tx.Name)
		}
		if s.Kind != SymStruct {
			c.invalid(tx.Pos, "type", "%q is not a type here (hidden by a %s declared at %s)", tx.Name, symKindName(s.Kind), s.Pos)
		}
		t = s.T
	}
	if len(tx.Dims) > 0 {
		if t.Kind == KVoid {
			c.invalid(tx.Pos, "type", "array of void")
		}
		c.rules.checkArrayDims(c, tx)
		for i := len(tx.Dims) - 1; i >= 0; i-- {
			d := tx.Dims[i]
			if d == nil {
				if i != 0 || um == unsizedNo {
					c.invalid(tx.Pos, "type", "unsized array dimension not allowed here")
				}
				t = c.prog.tt.arrayOf(t, -1)
				continue
			}
			d = c.expr(d)
			tx.Dims[i] = d
			n := c.constInt(d, "array size")
			if n <= 0 {
				c.invalid(d.base().Pos, "type", "array size must be greater than zero, got %d", n)
			}
			if n > 1<<24 {
				c.unsupported(d.base().Pos, "array size %d too large", n)
			}
			t = c.prog.tt.arrayOf(t, int(n))
		}
	}
	tx.T = t
	if t.containsKind(KDouble) {
		c.prog.usesDouble = true
	}
	return t
}

// constInt evaluates a constant integral expression.
func (c *checker) constInt(e Expr, what string) int64 {
	b := e.base()
	if !b.T.IsScalar() || !b.T.IsIntegral() {
		c.invalid(b.Pos, "type", "%s must be a scalar integer expression, got %s", what, b.T)
	}
	if !b.Const {
		c.invalid(b.Pos, "const", "%s must be a constant expression", what)
	}
	v, ok := c.fold(e)
	if !ok || v.C[0].P != 0 {
		c.unsupported(b.Pos, "%s: constant expression has an undefined value", what)
	}
	if b.T.Kind == KInt {
		return int64(v.C[0].I())
	}
	return int64(v.C[0].U())
}

// fold evaluates a constant expression.
func (c *checker) fold(e Expr) (Value, bool) {
	b := e.base()
	if b.CV != nil {
		return *b.CV, true
	}
	if !b.Const {
		return Value{}, false
	}
	v, ok := c.ev.constEval(e)
	if ok {
		b.CV = &v
	}
	return v, ok
}

func (c *checker) declareStruct(sd *StructDecl) *Type {
	if sd.Def != nil {
		return c.lookupStructType(sd)
	}
	def := &StructDef{Name: sd.Name, Pos: sd.Pos}
	if def.Name == "" {
		def.Name = fmt.Sprintf("<anonymous struct at %s>", sd.Pos)
	}
	seen := map[string]bool{}
	for _, f := range sd.Fields {
		if f.Quals.Const || f.Quals.In || f.Quals.Out || f.Quals.Uniform || f.Quals.Buffer || f.Quals.Shared || f.Quals.HasLayout {
			c.invalid(f.Pos, "syntax", "structure member %q cannot have storage or layout qualifiers", f.Name)
		}
		ft := c.resolveType(f.TypeX, unsizedNo)
		if ft.Kind == KVoid {
			c.invalid(f.Pos, "type", "structure member %q of type void", f.Name)
		}
		if f.TypeX.Struct != nil {
			// GLSL 4.60 §4.1.8: "Structure definitions cannot be nested / embedded"
			c.invalid(f.Pos, "syntax", "embedded structure definitions are not allowed")
		}
		if seen[f.Name] {
			c.invalid(f.Pos, "redeclared", "duplicate structure member %q", f.Name)
		}
		seen[f.Name] = true
		f.T = ft
		def.Fields = append(def.Fields, Field{Name: f.Name, T: ft})
		c.noteIdent(f.Name, "struct-member", len(c.scopes), f.Pos)
	}
	sd.Def = def
	t := newStructType(def)
	c.prog.structs = append(c.prog.structs, def)
	c.prog.structTypes[def] = t
	if sd.Name != "" {
		c.declare(&Symbol{Kind: SymStruct, Name: sd.Name, T: t, Pos: sd.Pos}, "struct")
	}
	return t
}

func (c *checker) lookupStructType(sd *StructDecl) *Type { return c.prog.structTypes[sd.Def] }

func symKindName(k SymKind) string {
	switch k {
	case SymLocal:
		return "local variable"
	case SymParam:
		return "parameter"
	case SymGlobal:
		return "global variable"
	case SymBlockMember:
		return "block member"
	case SymBlockInstance:
		return "block instance"
	case SymBuiltinVar:
		return "built-in variable"
	case SymFunc:
		return "function"
	case SymStruct:
		return "struct"
	}
	return "symbol"
}

// ---------------------------------------------------------------------------
// expressions
// ---------------------------------------------------------------------------

// convertTo returns e converted implicitly to t, or nil if impossible.
func (c *checker) convertTo(e Expr, t *Type) Expr {
	b := e.base()
	if b.T == t {
		return e
	}
	if h, ok := c.rules.(convertRules); ok {
		return h.convertNode(c, e, t)
	}
	if !c.rules.implicitConv(b.T, t) {
		return nil
	}
	return &Convert{ExprBase: ExprBase{Pos: b.Pos, T: t, Const: b.Const}, X: e}
}

// value checks e and requires that it denotes a value (not void).
func (c *checker) value(e Expr) Expr {
	e = c.expr(e)
	if e.base().T.Kind == KVoid {
		c.invalid(e.base().Pos, "type", "expression of type void used as a value")
	}
	return e
}

func (c *checker) expr(e Expr) Expr {
	switch x := e.(type) {
	case *Lit:
		x.T = x.V.T
		if x.T == tDouble {
			c.prog.usesDouble = true
		}
		x.Const = true
		v := x.V
		x.CV = &v
		return x
	case *Ident:
		return c.ident(x)
	case *Unary:
		x.X = c.value(x.X)
		x.T = c.rules.unaryType(c, x.Pos, x.Op, x.X.base().T)
		x.Const = x.X.base().Const
		return x
	case *IncDec:
		x.X = c.value(x.X)
		t := x.X.base().T
		if !(t.IsNumericScalar() || ((t.IsVec() || t.IsMat()) && t.Base() != KBool)) {
			c.invalid(x.Pos, "type", "++/-- needs an integer or floating-point scalar, vector or matrix, got %s", t)
		}
		c.requireWritable(x.X, "operand of ++/--")
		x.T = t
		return x
	case *Binary:
		return c.binary(x)
	case *Assign:
		return c.assign(x)
	case *Cond:
		if h, ok := c.rules.(condExprRules); ok {
			return h.condExpr(c, x)
		}
		x.C = c.value(x.C)
		if x.C.base().T != tBool {
			c.invalid(x.C.base().Pos, "type", "condition of ?: must be a scalar bool, got %s", x.C.base().T)
		}
		x.A = c.expr(x.A)
		x.B = c.expr(x.B)
		at, bt := x.A.base().T, x.B.base().T
		switch {
		case at == bt:
			x.T = at
		case c.rules.implicitConv(at, bt):
			x.A = c.convertTo(x.A, bt)
			x.T = bt
		case c.rules.implicitConv(bt, at):
			x.B = c.convertTo(x.B, at)
			x.T = at
		default:
			c.invalid(x.Pos, "type", "second and third operands of ?: have mismatched types %s and %s", at, bt)
		}
		if x.T.Kind == KOpaque {
			c.invalid(x.Pos, "type", "?: on opaque type %s", x.T)
		}
		x.Const = x.C.base().Const && x.A.base().Const && x.B.base().Const
		return x
	case *Call:
		return c.call(x)
	case *Index:
		return c.index(x)
	case *Member:
		return c.member(x)
	case *Method:
		x.X = c.value(x.X)
		for i := range x.Args {
			x.Args[i] = c.value(x.Args[i])
		}
		c.rules.checkMethod(c, x)
		return x
	case *Comma:
		x.L = c.expr(x.L)
		x.R = c.expr(x.R)
		x.T = x.R.base().T
		return x
	case *InitList:
		c.unsupported(x.Pos, "brace initializer list")
	case *Convert:
		return x
	case customExpr:
		return x.checkCustom(c)
	}
	panic(fmt.Sprintf("ctext: unknown expression node %T", e))
}

func (c *checker) ident(x *Ident) Expr {
	s := c.lookup(x.Name)
	if s == nil {
		s = c.rules.builtinVar(c, x.Pos, x.Name)
	}
	if s == nil {
		if _, known, _, _ := c.rules.builtinFuncs(x.Name); known {
			c.invalid(x.Pos, "type", "function name %q used as a value", x.Name)
		}
		c.invalid(x.Pos, "undeclared", "undeclared identifier %q", x.Name)
	}
	switch s.Kind {
	case SymFunc:
		c.invalid(x.Pos, "type", "function name %q used as a value", x.Name)
	case SymStruct:
		c.invalid(x.Pos, "type", "type name %q used as a value", x.Name)
	}
	x.Sym = s
	x.T = s.T
	x.LV = s.Kind != SymBlockInstance
	if s.Const {
		x.Const = true
		x.CV = s.CV
	}
	return x
}

// rootSymbol walks an l-value expression down to its root identifier.
func rootSymbol(e Expr) (*Symbol, *BlockMember) {
	var bm *BlockMember
	for {
		switch x := e.(type) {
		case *Ident:
			if x.Sym != nil && x.Sym.Kind == SymBlockMember {
				bm = x.Sym.Member
			}
			return x.Sym, bm
		case *Index:
			e = x.X
		case *Member:
			if x.BlkM != nil {
				bm = x.BlkM
			}
			e = x.X
		default:
			return nil, nil
		}
	}
}

func (c *checker) requireWritable(e Expr, what string) {
	if cd, ok := e.(*Cond); ok && cd.LV {
		// C++ (MSL): c ? a : b with two l-values of one type is an l-value
		c.requireWritable(cd.A, what)
		c.requireWritable(cd.B, what)
		return
	}
	b := e.base()
	if !b.LV {
		c.invalid(b.Pos, "lvalue", "%s is not an l-value", what)
	}
	// swizzles with repeated components are not l-values
	for x := e; x != nil; {
		switch m := x.(type) {
		case *Member:
			if m.Swz != nil {
				seen := [4]bool{}
				for _, k := range m.Swz {
					if seen[k] {
						c.invalid(m.Pos, "lvalue", "swizzle .%s with repeated components is not an l-value", m.Name)
					}
					seen[k] = true
				}
			}
			x = m.X
		case *Index:
			x = m.X
		default:
			x = nil
		}
	}
	s, bm := rootSymbol(e)
	if s == nil {
		c.invalid(b.Pos, "lvalue", "%s is not an l-value", what)
	}
	if s.ReadOnly {
		c.invalid(b.Pos, "lvalue", "%s: %q is read-only (%s)", what, s.Name, symKindName(s.Kind))
	}
	if bm != nil {
		if bm.Block.Class == 'u' {
			c.invalid(b.Pos, "lvalue", "%s: uniform block member %q is read-only", what, bm.Name)
		}
		if bm.Block.Quals.Readonly || bm.Decl.Quals.Readonly {
			c.invalid(b.Pos, "lvalue", "%s: member %q of a readonly buffer block is read-only", what, bm.Name)
		}
	}
}

func (c *checker) binary(x *Binary) Expr {
	x.L = c.value(x.L)
	x.R = c.value(x.R)
	lt, rt := x.L.base().T, x.R.base().T
	res, lc, rc, mode := c.rules.binaryTypes(c, x.Pos, x.Op, lt, rt)
	if lc != lt {
		x.L = c.convertTo(x.L, lc)
	}
	if rc != rt {
		x.R = c.convertTo(x.R, rc)
	}
	if x.L == nil || x.R == nil {
		c.invalid(x.Pos, "type", "operator %s: cannot convert operands %s and %s", x.Op, lt, rt)
	}
	x.T = res
	x.Mode = mode
	x.Const = x.L.base().Const && x.R.base().Const
	return x
}

func (c *checker) assign(x *Assign) Expr {
	x.L = c.value(x.L)
	x.R = c.value(x.R)
	lt, rt := x.L.base().T, x.R.base().T
	c.requireWritable(x.L, "left operand of assignment")
	if lt.Kind == KOpaque {
		c.invalid(x.Pos, "type", "assignment to opaque type %s", lt)
	}
	if lt.hasRuntimeArray() {
		c.invalid(x.Pos, "type", "assignment to an array of unknown size")
	}
	if x.Op == "" {
		r := c.convertTo(x.R, lt)
		if r == nil {
			c.invalid(x.Pos, "type", "cannot assign %s to %s", rt, lt)
		}
		x.R = r
		x.T = lt
		return x
	}
	res, lc, rc, mode := c.rules.binaryTypes(c, x.Pos, x.Op, lt, rt)
	if res != lt && !c.rules.implicitConv(res, lt) {
		c.invalid(x.Pos, "type", "compound assignment %s=: result type %s cannot be assigned to %s", x.Op, res, lt)
	}
	if lc != lt {
		if !c.rules.implicitConv(lt, lc) {
			c.invalid(x.Pos, "type", "compound assignment %s=: cannot convert %s to %s", x.Op, lt, lc)
		}
		x.LConv = lc
	}
	if rc != rt {
		x.R = c.convertTo(x.R, rc)
		if x.R == nil {
			c.invalid(x.Pos, "type", "compound assignment %s=: cannot convert %s to %s", x.Op, rt, rc)
		}
	}
	x.Mode = mode
	x.OpType = res
	x.T = lt
	return x
}

func (c *checker) index(x *Index) Expr {
	x.X = c.value(x.X)
	x.I = c.value(x.I)
	if h, ok := c.rules.(indexRules); ok {
		if r := h.index(c, x); r != nil {
			return r
		}
	}
	it := x.I.base().T
	if it != tInt && it != tUint {
		c.invalid(x.I.base().Pos, "type", "index must be a scalar integer, got %s", it)
	}
	xt := x.X.base().T
	size := 0
	switch xt.Kind {
	case KArray:
		x.T = xt.Elem
		size = xt.N
	case KVec:
		x.T = xt.Elem
		size = xt.N
	case KMat:
		x.T = vecOf(xt.Elem, xt.Rows)
		size = xt.Cols
	default:
		c.invalid(x.Pos, "type", "cannot index a value of type %s", xt)
	}
	x.LV = x.X.base().LV
	if x.I.base().Const {
		if v, ok := c.fold(x.I); ok && v.C[0].P == 0 {
			var n int64
			if it == tInt {
				n = int64(v.C[0].I())
			} else {
				n = int64(v.C[0].U())
			}
			// GLSL 4.60 §5.7 / §4.1.9: indexing with a constant expression
			// that is negative or not less than the declared size is a
			// compile-time error.
			if (n < 0 || (size > 0 && n >= int64(size))) && c.d != MSL { // C++ (MSL) has no such rule: the access is undefined at run time
				c.invalid(x.I.base().Pos, "index", "constant index %d out of range for %s", n, xt)
			}
		}
	}
	x.Const = x.X.base().Const && x.I.base().Const
	return x
}

func (c *checker) member(x *Member) Expr {
	// block instance member?
	if id, ok := x.X.(*Ident); ok {
		if s := c.lookup(id.Name); s != nil && s.Kind == SymBlockInstance {
			id.Sym = s
			id.T = tVoid
			for _, m := range s.Block.Members {
				if m.Name == x.Name {
					x.BlkM = m
					x.T = m.T
					x.LV = true
					return x
				}
			}
			c.invalid(x.Pos, "undeclared", "block %q (instance %q) has no member %q", s.Block.Name, id.Name, x.Name)
		}
	}
	x.X = c.value(x.X)
	xt := x.X.base().T
	switch {
	case xt.Kind == KStruct:
		for i, f := range xt.Struct.Fields {
			if f.Name == x.Name {
				x.Field = i
				x.T = f.T
				x.LV = x.X.base().LV
				x.Const = x.X.base().Const
				return x
			}
		}
		c.invalid(x.Pos, "undeclared", "struct %s has no member %q", xt, x.Name)
	case xt.Kind == KVec || xt.IsScalar():
		if c.rules.checkVecMember(c, x) {
			return x
		}
	}
	c.invalid(x.Pos, "type", "cannot select member %q of a value of type %s", x.Name, xt)
	return nil
}

// ---------------------------------------------------------------------------
// calls
// ---------------------------------------------------------------------------

func (c *checker) call(x *Call) Expr {
	for i := range x.Args {
		x.Args[i] = c.value(x.Args[i])
	}
	if x.TypeX != nil {
		t := c.resolveType(x.TypeX, unsizedOuter)
		c.rules.checkCtor(c, x, t)
		x.Const = true
		for _, a := range x.Args {
			if !a.base().Const {
				x.Const = false
			}
		}
		return x
	}
	s := c.lookup(x.Name)
	if s != nil && s.Kind != SymFunc {
		c.invalid(x.Pos, "type", "%q is a %s (declared at %s), not a function", x.Name, symKindName(s.Kind), s.Pos)
	}
	if s != nil {
		if fn := c.resolveUser(x, s.Funcs); fn != nil {
			x.Fn = fn
			x.T = fn.Ret
			c.bindArgs(x, paramTypes(fn), paramDirs(fn))
			if c.fn != nil {
				c.fn.callees[fn] = true
			}
			return x
		}
	}
	if h, ok := c.rules.(callRules); ok {
		if r := h.resolveCall(c, x); r != nil {
			return r
		}
	}
	sigs, known, unmodelled, needs := c.rules.builtinFuncs(x.Name)
	if unmodelled {
		c.unsupported(x.Pos, "built-in function %s", x.Name)
	}
	if len(sigs) == 0 {
		if s != nil {
			c.invalid(x.Pos, "no-overload", "no overload of function %q matches argument types %s", x.Name, argTypes(x.Args))
		}
		if known {
			c.invalid(x.Pos, "version", "built-in function %q is not available in this version (%s)", x.Name, needs)
		}
		c.invalid(x.Pos, "undeclared", "call of undeclared function %q", x.Name)
	}
	bi := c.resolveBuiltin(x, sigs)
	x.BI = bi
	x.T = bi.ret
	dirs := make([]string, len(bi.params))
	for i := range dirs {
		dirs[i] = "in"
		if bi.out != nil && bi.out[i] {
			dirs[i] = "out"
		}
		if bi.lvalue != nil && bi.lvalue[i] {
			dirs[i] = "inout"
		}
	}
	c.bindArgs(x, bi.params, dirs)
	if bi.lvalue != nil {
		for i, lv := range bi.lvalue {
			if lv {
				c.checkAtomicTarget(x.Args[i])
			}
		}
	}
	x.Const = bi.pure
	for _, a := range x.Args {
		if !a.base().Const {
			x.Const = false
		}
	}
	if bi.barrier && c.fn != nil {
		c.fn.hasBarrier = true
	}
	return x
}

// checkAtomicTarget: GLSL 4.60 §8.11: the mem argument of atomic memory
// functions must be a buffer or shared variable (element/member thereof).
func (c *checker) checkAtomicTarget(e Expr) {
	for x := e; ; {
		switch m := x.(type) {
		case *Member:
			if m.Swz != nil && len(m.Swz) > 1 {
				c.invalid(m.Pos, "type", "atomic memory function on a multi-component swizzle")
			}
			x = m.X
			continue
		case *Index:
			x = m.X
			continue
		}
		break
	}
	s, bm := rootSymbol(e)
	ok := false
	if bm != nil && bm.Block.Class == 's' {
		ok = true
	}
	if s != nil && s.Kind == SymGlobal && s.Global.Storage == "shared" {
		ok = true
	}
	if !ok {
		c.invalid(e.base().Pos, "type", "atomic memory function needs a buffer or shared variable as its first argument")
	}
}

func paramTypes(fn *Function) []*Type {
	ts := make([]*Type, len(fn.Params))
	for i, p := range fn.Params {
		ts[i] = p.T
	}
	return ts
}
func paramDirs(fn *Function) []string {
	ds := make([]string, len(fn.Params))
	for i, p := range fn.Params {
		ds[i] = p.Dir
	}
	return ds
}

func argTypes(args []Expr) string {
	s := "("
	for i, a := range args {
		if i > 0 {
			s += ", "
		}
		s += a.base().T.String()
	}
	return s + ")"
}

// bindArgs inserts conversions for in-parameters and checks l-values for
// out/inout parameters.
func (c *checker) bindArgs(x *Call, params []*Type, dirs []string) {
	for i, a := range x.Args {
		switch dirs[i] {
		case "in":
			x.Args[i] = c.convertTo(a, params[i])
			if x.Args[i] == nil {
				c.invalid(a.base().Pos, "type", "argument %d of %s: cannot convert %s to %s", i+1, x.Name, a.base().T, params[i])
			}
		case "cref", "ptr":
			// C++ reference to const / pointer parameter (MSL): the argument
			// designates an object of exactly the parameter's type (argMatch);
			// no write access is required (the node that takes an address
			// checks its own operand).
		default:
			c.requireWritable(a, fmt.Sprintf("argument %d of %s (%s parameter)", i+1, x.Name, dirs[i]))
		}
	}
}

// argMatch classifies how arg type `at` fits a parameter: 2 exact, 1 via
// implicit conversion, 0 no.
func (c *checker) argMatch(at, pt *Type, dir string) int {
	if at == pt {
		return 2
	}
	switch dir {
	case "in":
		if c.rules.implicitConv(at, pt) {
			return 1
		}
	case "out":
		if c.rules.implicitConv(pt, at) {
			return 1
		}
	}
	return 0
}

type candidate struct {
	params []*Type
	dirs   []string
	ref    any
}

// pickOverload implements GLSL 4.60 §6.1.1 (function definitions / best
// match): an exact match wins; otherwise the unique best candidate among
// those reachable by implicit conversions; otherwise ambiguous.
func (c *checker) pickOverload(x *Call, cands []candidate) (any, string) {
	if h, ok := c.rules.(overloadRules); ok {
		return h.pickOverload(c, x, cands)
	}
	var viable []candidate
	for _, cd := range cands {
		if len(cd.params) != len(x.Args) {
			continue
		}
		exact, ok := true, true
		for i, a := range x.Args {
			m := c.argMatch(a.base().T, cd.params[i], cd.dirs[i])
			if m == 0 {
				ok = false
				break
			}
			if m == 1 {
				exact = false
			}
		}
		if !ok {
			continue
		}
		if exact {
			return cd.ref, ""
		}
		viable = append(viable, cd)
	}
	if len(viable) == 0 {
		return nil, "none"
	}
	if len(viable) == 1 {
		return viable[0].ref, ""
	}
	// A is better than B if for at least one argument A's conversion is
	// better and for none it is worse.
	better := func(a, b candidate) bool {
		oneBetter := false
		for i, arg := range x.Args {
			at := arg.base().T
			if a.dirs[i] != "in" {
				continue
			}
			ab := c.oneConvBetter(at, a.params[i], b.params[i])
			ba := c.oneConvBetter(at, b.params[i], a.params[i])
			if ba {
				return false
			}
			if ab {
				oneBetter = true
			}
		}
		return oneBetter
	}
	for i, a := range viable {
		best := true
		for j, b := range viable {
			if i != j && !better(a, b) {
				best = false
				break
			}
		}
		if best {
			return a.ref, ""
		}
	}
	return nil, "ambiguous"
}

func (c *checker) oneConvBetter(from, a, b *Type) bool {
	if a == b {
		return false
	}
	if from == a {
		return true // exact beats any conversion
	}
	if from == b {
		return false
	}
	return c.rules.convBetter(from, a, b)
}

func (c *checker) resolveUser(x *Call, fns []*Function) *Function {
	var cands []candidate
	for _, f := range fns {
		cands = append(cands, candidate{paramTypes(f), paramDirs(f), f})
	}
	ref, why := c.pickOverload(x, cands)
	if why == "ambiguous" {
		c.invalid(x.Pos, "no-overload", "call of %s%s is ambiguous", x.Name, argTypes(x.Args))
	}
	if ref == nil {
		return nil
	}
	return ref.(*Function)
}

func (c *checker) resolveBuiltin(x *Call, sigs []*builtinSig) *builtinSig {
	var cands []candidate
	for _, s := range sigs {
		dirs := make([]string, len(s.params))
		for i := range dirs {
			dirs[i] = "in"
			if s.out != nil && s.out[i] {
				dirs[i] = "out"
			}
			if s.lvalue != nil && s.lvalue[i] {
				dirs[i] = "inout"
			}
		}
		cands = append(cands, candidate{s.params, dirs, s})
	}
	ref, why := c.pickOverload(x, cands)
	if ref == nil {
		for _, a := range x.Args {
			if a.base().T.containsKind(KDouble) {
				c.unsupported(x.Pos, "built-in function %s with double-precision arguments", x.Name)
			}
		}
		if why == "ambiguous" {
			c.invalid(x.Pos, "no-overload", "call of built-in %s%s is ambiguous", x.Name, argTypes(x.Args))
		}
		c.invalid(x.Pos, "no-overload", "no overload of built-in function %s matches argument types %s", x.Name, argTypes(x.Args))
	}
	return ref.(*builtinSig)
}

// ---------------------------------------------------------------------------
// statements
// ---------------------------------------------------------------------------

func (c *checker) condition(e Expr, what string) Expr {
	if h, ok := c.rules.(conditionRules); ok {
		return h.condition(c, e, what)
	}
	e = c.value(e)
	if e.base().T != tBool {
		c.invalid(e.base().Pos, "type", "%s condition must be a scalar bool, got %s", what, e.base().T)
	}
	return e
}

func (c *checker) block(b *BlockStmt, newScope bool) {
	if newScope {
		c.push()
		defer c.pop()
	}
	for _, s := range b.Stmts {
		c.stmt(s)
	}
}

func (c *checker) stmt(s Stmt) {
	switch x := s.(type) {
	case *BlockStmt:
		c.block(x, true)
	case *DeclStmt:
		if x.Struct != nil && x.Struct.Def == nil {
			c.declareStruct(x.Struct)
		}
		for _, v := range x.Vars {
			c.localVar(v)
		}
	case *ExprStmt:
		if x.X != nil {
			x.X = c.expr(x.X)
		}
	case *IfStmt:
		x.Cond = c.condition(x.Cond, "if")
		c.subStmt(x.Then)
		if x.Else != nil {
			c.subStmt(x.Else)
		}
	case *WhileStmt:
		c.push()
		x.Cond = c.condition(x.Cond, "while")
		c.loops++
		c.subStmt(x.Body)
		c.loops--
		c.pop()
	case *DoWhileStmt:
		c.loops++
		c.subStmt(x.Body)
		c.loops--
		x.Cond = c.condition(x.Cond, "do-while")
	case *ForStmt:
		c.push()
		if x.Init != nil {
			c.stmt(x.Init)
		}
		if x.Cond != nil {
			x.Cond = c.condition(x.Cond, "for")
		}
		if x.Post != nil {
			x.Post = c.expr(x.Post)
		}
		c.loops++
		c.subStmt(x.Body)
		c.loops--
		c.pop()
	case *SwitchStmt:
		c.switchStmt(x)
	case *CaseLabel:
		c.invalid(x.Pos, "syntax", "case label outside switch")
	case *BreakStmt:
		if c.loops == 0 && c.swits == 0 {
			c.invalid(x.Pos, "syntax", "break outside a loop or switch")
		}
	case *ContinueStmt:
		if c.loops == 0 {
			c.invalid(x.Pos, "syntax", "continue outside a loop")
		}
	case *DiscardStmt:
		if c.prog.hasLocalSize {
			c.invalid(x.Pos, "syntax", "discard is only allowed in fragment shaders")
		}
	case *ReturnStmt:
		if x.X == nil {
			if c.fn.Ret.Kind != KVoid {
				c.invalid(x.Pos, "type", "return without a value in function %s returning %s", c.fn.Name, c.fn.Ret)
			}
			return
		}
		x.X = c.expr(x.X)
		if c.fn.Ret.Kind == KVoid {
			c.invalid(x.Pos, "type", "return with a value in void function %s", c.fn.Name)
		}
		rt := x.X.base().T
		if rt != c.fn.Ret {
			var r Expr
			if c.rules.returnConverts() {
				r = c.convertTo(x.X, c.fn.Ret)
			}
			if r == nil {
				c.invalid(x.Pos, "type", "return value of type %s in function %s returning %s", rt, c.fn.Name, c.fn.Ret)
			}
			x.X = r
		}
	default:
		panic(fmt.Sprintf("ctext: unknown statement node %T", s))
	}
}

// subStmt checks the sub-statement of a selection / iteration statement,
// which forms its own scope.
func (c *checker) subStmt(s Stmt) {
	if b, ok := s.(*BlockStmt); ok {
		c.block(b, true)
		return
	}
	c.push()
	c.stmt(s)
	c.pop()
}

func (c *checker) switchStmt(x *SwitchStmt) {
	x.X = c.value(x.X)
	st := x.X.base().T
	if st != tInt && st != tUint {
		c.invalid(x.X.base().Pos, "type", "switch expression must be a scalar integer, got %s", st)
	}
	x.cases = map[uint32]int{}
	x.defaultIdx = -1
	c.push()
	c.swits++
	lastLabel := -1
	for i, s := range x.Body {
		if cl, ok := s.(*CaseLabel); ok {
			lastLabel = i
			if cl.X == nil {
				if x.defaultIdx >= 0 {
					c.invalid(cl.Pos, "syntax", "more than one default label in a switch")
				}
				x.defaultIdx = i
				continue
			}
			cl.X = c.value(cl.X)
			ct := cl.X.base().T
			if ct != tInt && ct != tUint {
				c.invalid(cl.Pos, "type", "case label must be a scalar integer, got %s", ct)
			}
			if !cl.X.base().Const {
				c.invalid(cl.Pos, "const", "case label must be a constant expression")
			}
			v, ok := c.fold(cl.X)
			if !ok || v.C[0].P != 0 {
				c.unsupported(cl.Pos, "case label with undefined constant value")
			}
			cl.Val = v.C[0].B
			if _, dup := x.cases[cl.Val]; dup {
				c.invalid(cl.Pos, "syntax", "duplicate case label value")
			}
			x.cases[cl.Val] = i
			continue
		}
		if lastLabel < 0 {
			// GLSL 4.60 §6.2: "No statements are allowed in a switch
			// statement before the first case statement."
			c.invalid(s.stmtPos(), "syntax", "statement before the first case label of a switch")
		}
		c.stmt(s)
	}
	if lastLabel >= 0 && lastLabel == len(x.Body)-1 {
		// GLSL 4.60 §6.2: "It is a compile-time error to have no statement
		// between a label and the end of the switch statement."
		c.invalid(x.Body[lastLabel].stmtPos(), "syntax", "no statement between the last label and the end of the switch")
	}
	if h, ok := c.rules.(switchRules); ok {
		h.checkSwitch(c, x)
	}
	c.swits--
	c.pop()
}

func (c *checker) localVar(v *VarDecl) {
	if h, ok := c.rules.(localVarRules); ok && h.localVar(c, v) {
		return
	}
	q := v.Quals
	if q.In || q.Out || q.Inout || q.Uniform || q.Buffer || q.Shared || q.HasLayout {
		c.invalid(v.Pos, "syntax", "local variable %q cannot have storage or layout qualifiers other than const", v.Name)
	}
	t := c.resolveType(v.TypeX, unsizedOuter)
	if t.Kind == KVoid {
		c.invalid(v.Pos, "type", "variable %q of type void", v.Name)
	}
	if t.Kind == KOpaque || t.containsKind(KOpaque) {
		c.invalid(v.Pos, "type", "opaque type %s cannot be a local variable", t)
	}
	if v.Init != nil {
		v.Init = c.value(v.Init)
		it := v.Init.base().T
		if t.Kind == KArray && t.N < 0 {
			if it.Kind != KArray || it.Elem != t.Elem {
				c.invalid(v.Pos, "type", "cannot initialise %s with %s", t, it)
			}
			t = it
		}
		init := c.convertTo(v.Init, t)
		if init == nil {
			c.invalid(v.Pos, "type", "cannot initialise %q of type %s with a value of type %s", v.Name, t, it)
		}
		v.Init = init
	} else {
		if q.Const {
			c.invalid(v.Pos, "syntax", "const variable %q needs an initializer", v.Name)
		}
		if t.Kind == KArray && t.N < 0 {
			c.invalid(v.Pos, "type", "array %q of unknown size", v.Name)
		}
	}
	v.T = t
	s := &Symbol{Kind: SymLocal, Name: v.Name, T: t, Pos: v.Pos, Slot: c.frame, ReadOnly: q.Const}
	c.frame += t.nsc
	if c.frame > c.fn.FrameSize {
		c.fn.FrameSize = c.frame
	}
	if q.Const && v.Init.base().Const {
		if cv, ok := c.fold(v.Init); ok {
			s.Const = true
			s.CV = &cv
		}
	}
	v.Sym = s
	c.declare(s, "local")
}

// ---------------------------------------------------------------------------
// functions
// ---------------------------------------------------------------------------

func sameSignature(a, b *Function) bool {
	if len(a.Params) != len(b.Params) {
		return false
	}
	for i := range a.Params {
		if a.Params[i].T != b.Params[i].T {
			return false
		}
	}
	return true
}

func (c *checker) function(fn *Function) {
	fn.Ret = c.resolveType(fn.RetX, unsizedNo)
	if fn.RetX.Struct != nil {
		c.invalid(fn.Pos, "syntax", "structure definition in a function return type")
	}
	if fn.Ret.Kind == KOpaque || fn.Ret.containsKind(KOpaque) {
		c.invalid(fn.Pos, "type", "function %s returns opaque type", fn.Name)
	}
	fn.callees = map[*Function]bool{}
	for i, p := range fn.Params {
		p.T = c.resolveType(p.TypeX, unsizedNo)
		if p.T.Kind == KVoid {
			c.invalid(p.Pos, "type", "parameter %d of %s has type void", i+1, fn.Name)
		}
		if p.T.Kind == KOpaque && p.Dir != "in" {
			c.invalid(p.Pos, "type", "opaque parameter cannot be out/inout")
		}
	}
	if fn.Name == "main" && c.d == GLSL {
		if fn.Ret.Kind != KVoid || len(fn.Params) != 0 {
			c.invalid(fn.Pos, "type", "main must be declared as void main()")
		}
	}
	if _, known, _, _ := c.rules.builtinFuncs(fn.Name); known && !c.rules.userMayRedeclareBuiltin() {
		// ESSL 3.20 §6.1: "A shader cannot redefine or overload built-in functions."
		c.invalid(fn.Pos, "redeclared", "function %q redefines or overloads a built-in function, which ESSL forbids", fn.Name)
	}
	// merge with previous declarations
	sym := c.scopes[0].syms[fn.Name]
	if sym != nil && sym.Kind != SymFunc {
		c.invalid(fn.Pos, "redeclared", "%q redeclared as a function (previously a %s at %s)", fn.Name, symKindName(sym.Kind), sym.Pos)
	}
	var proto *Function
	if sym != nil {
		for _, o := range sym.Funcs {
			if sameSignature(o, fn) {
				if o.Ret != fn.Ret {
					c.invalid(fn.Pos, "redeclared", "function %s redeclared with a different return type", fn.Name)
				}
				for i := range o.Params {
					if o.Params[i].Dir != fn.Params[i].Dir {
						c.invalid(fn.Pos, "redeclared", "function %s redeclared with different parameter qualifiers", fn.Name)
					}
				}
				if o.Body != nil && fn.Body != nil {
					c.invalid(fn.Pos, "redeclared", "function %s%s defined twice", fn.Name, sigString(fn))
				}
				proto = o
			}
		}
	}
	if proto != nil {
		if fn.Body == nil {
			return // repeated prototype
		}
		if proto.Body == nil {
			// define the prototype in place so earlier calls resolve to it
			proto.Body = fn.Body
			proto.Params = fn.Params
			proto.Pos = fn.Pos
			fn = proto
		}
	} else {
		if sym == nil {
			sym = &Symbol{Kind: SymFunc, Name: fn.Name, Pos: fn.Pos}
			c.declare(sym, "function")
		} else {
			c.noteIdent(fn.Name, "function", 0, fn.Pos)
		}
		sym.Funcs = append(sym.Funcs, fn)
		c.prog.funcs = append(c.prog.funcs, fn)
	}
	if fn.callees == nil {
		fn.callees = map[*Function]bool{}
	}
	if fn.Body == nil {
		return
	}
	// body: parameters and the outermost block share one scope
	c.fn = fn
	c.frame = 0
	fn.FrameSize = 0
	c.push()
	for _, p := range fn.Params {
		s := &Symbol{Kind: SymParam, Name: p.Name, T: p.T, Pos: p.Pos, Slot: c.frame, ReadOnly: p.Quals.Const}
		c.frame += p.T.nsc
		if p.Dir == "ref" || p.Dir == "cref" || p.Dir == "ptr" {
			s.IsRef = true
			s.RefSlot = fn.RefCount
			fn.RefCount++
		}
		p.Sym = s
		if p.Name != "" {
			c.declare(s, "param")
		}
	}
	if c.frame > fn.FrameSize {
		fn.FrameSize = c.frame
	}
	c.block(fn.Body, false)
	c.pop()
	c.fn = nil
}

func sigString(fn *Function) string {
	s := "("
	for i, p := range fn.Params {
		if i > 0 {
			s += ", "
		}
		s += p.T.String()
	}
	return s + ")"
}

// checkRecursion rejects static recursion (GLSL 4.60 §6.1: "Recursion is not
// allowed, not even statically") and undefined-but-called functions.
func (c *checker) checkRecursion() {
	const (
		white = iota
		grey
		black
	)
	color := map[*Function]int{}
	var visit func(f *Function)
	visit = func(f *Function) {
		color[f] = grey
		callees := make([]*Function, 0, len(f.callees))
		for g := range f.callees {
			callees = append(callees, g)
		}
		sort.Slice(callees, func(i, j int) bool {
			a, b := callees[i].Pos, callees[j].Pos
			return a.Line < b.Line || (a.Line == b.Line && a.Col < b.Col)
		})
		for _, g := range callees {
			switch color[g] {
			case grey:
				c.invalid(g.Pos, "recursion", "function %s is (statically) recursive", g.Name)
			case white:
				visit(g)
			}
			if g.hasBarrier {
				f.hasBarrier = true
			}
		}
		color[f] = black
	}
	for _, f := range c.prog.funcs {
		if color[f] == white {
			visit(f)
		}
	}
}

// localVarRules: optional dialect hook tried first by localVar; it returns
// true when it has declared the variable itself (MSL `threadgroup T x;`
// inside a kernel: per-workgroup storage, not a frame slot).
type localVarRules interface {
	localVar(c *checker, v *VarDecl) bool
}
