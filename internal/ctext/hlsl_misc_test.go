package ctext

import (
	"bytes"
	"fmt"
	"sync"
	"testing"
)

// Two entry points with different workgroup sizes run concurrently on the same
// Program (the per-run workgroup size must not be shared state), together with
// concurrent Parse calls; run with -race.
func TestHLSLConcurrentParseAndRun(t *testing.T) {
	src := `
RWByteAddressBuffer o : register(u0);
ByteAddressBuffer a : register(t1);
typedef uint ret_k[2];
ret_k mk(uint x, uint y) { uint r[2] = { x, y }; return r; }
static const uint K[2] = mk(3u, 4u);
groupshared uint sh[8];
[numthreads(4, 1, 1)]
void four(uint li : SV_GroupIndex, uint3 wid : SV_GroupID) {
  sh[li] = a.Load(li * 4) * K[li & 1u];
  GroupMemoryBarrierWithGroupSync();
  o.Store((wid.x * 4 + li) * 4, sh[3u - li]);
}
[numthreads(8, 1, 1)]
void eight(uint li : SV_GroupIndex) {
  sh[li] = li;
  GroupMemoryBarrierWithGroupSync();
  o.Store(li * 4, sh[7u - li] + K[1]);
}`
	p := mustParseHLSL(t, src)
	in := u32s(1, 2, 3, 4)
	var wg sync.WaitGroup
	outs := make([][]byte, 12)
	for i := range outs {
		wg.Add(1)
		go func(i int) {
			defer wg.Done()
			if _, err := Parse(HLSL, src); err != nil {
				t.Error(err)
			}
			out := zeros(32)
			entry := "four"
			if i%2 == 1 {
				entry = "eight"
			}
			res, err := p.Run(RunConfig{Entry: entry, Buffers: map[Slot][]byte{{Class: 'u', Index: 0}: out, {Class: 't', Index: 1}: in}, NumWorkgroups: [3]uint32{2 - uint32(i%2), 1, 1}, StepLimit: 100000, ReverseOrder: i%4 >= 2})
			if err != nil || res.Trap != "" || len(res.Poison) > 0 {
				t.Errorf("run %d: %v %+v", i, err, res)
			}
			outs[i] = out
		}(i)
	}
	wg.Wait()
	for i := range outs {
		if !bytes.Equal(outs[i], outs[i%2]) {
			t.Errorf("run %d differs from run %d", i, i%2)
		}
	}
	// four: sh = (3, 8, 9, 16) reversed, for two workgroups
	if got, want := fmt.Sprint(words32(outs[0])), fmt.Sprint([]uint32{16, 9, 8, 3, 16, 9, 8, 3}); got != want {
		t.Errorf("four: %s want %s", got, want)
	}
	if got, want := fmt.Sprint(words32(outs[1])), fmt.Sprint([]uint32{11, 10, 9, 8, 7, 6, 5, 4}); got != want {
		t.Errorf("eight: %s want %s", got, want)
	}
	if p.LocalSize() != [3]uint32{4, 1, 1} || !p.IsCompute() {
		t.Errorf("LocalSize %v", p.LocalSize())
	}
}

// The same text parsed twice yields the same reflection and the same run
// result (no map-order dependence).
func TestHLSLDeterminism(t *testing.T) {
	var first string
	for i := 0; i < 5; i++ {
		p := mustParseHLSL(t, hlslCBSrc)
		s := fmt.Sprintf("%+v|%+v|%+v|%+v|%+v", p.HLSLResources(), p.HLSLEntryPoints(), p.Identifiers(), p.Functions(), p.Blocks())
		if i == 0 {
			first = s
		} else if s != first {
			t.Fatalf("reflection differs between parses")
		}
	}
}

func TestHLSLUnsupportedIsNotInvalid(t *testing.T) {
	// constructs outside the modelled surface must never be reported as invalid HLSL
	for _, src := range []string{
		"Texture2D<float4> t : register(t0);\nSamplerState s : register(s0);\nfloat4 ps(float2 uv : TEXCOORD0) : SV_Target { return t.Sample(s, uv); }\n",
		"struct VOut { float4 pos : SV_Position; nointerpolation uint id : LOC0; };\nVOut vs(uint vi : SV_VertexID) { VOut o = (VOut)0; o.pos = float4(0, 0, 0, 1); o.id = vi; return o; }\n",
		"RWStructuredBuffer<uint> b : register(u0);\n[numthreads(1,1,1)]\nvoid main() { b[0] = 1u; }\n",
		"[numthreads(1,1,1)]\nvoid main() { half h = 1.0h; }\n",
	} {
		code, err := hlslParseErr(src)
		if code != "" && code != "unsupported" {
			t.Errorf("got %q (%v) for\n%s", code, err, src)
		}
	}
	// a vertex / fragment module without compute entry points parses; Run reports it
	p := mustParseHLSL(t, "struct VOut { float4 pos : SV_Position; };\nVOut vs(uint vi : SV_VertexID) { VOut o = (VOut)0; return o; }\n")
	if p.IsCompute() {
		t.Errorf("IsCompute on a vertex-only module")
	}
	if _, err := p.Run(RunConfig{Entry: "vs", NumWorkgroups: [3]uint32{1, 1, 1}}); err == nil {
		t.Errorf("Run of a vertex entry point must fail")
	}
}

// Parse must return an error, never panic, on damaged text: every prefix cut at
// a token boundary and every single-token deletion of a large naga output.
func TestHLSLParseNeverPanics(t *testing.T) {
	m, err := lowerWGSL(`
struct S { a: vec3<f32>, b: f32, m: mat3x3<f32>, arr: array<vec2<u32>, 3> }
struct U { m: mat2x2<f32>, k: u32 }
@group(0) @binding(0) var<storage, read_write> o: array<u32>;
@group(0) @binding(1) var<storage, read> s: S;
@group(0) @binding(2) var<uniform> u: U;
var<workgroup> wa: array<u32, 4>;
var<private> pf: f32 = 1.5;
fn f(x: ptr<function, u32>, y: i32) -> i32 { *x = *x + 1u; return y / 2 + y % 3; }
@compute @workgroup_size(4) fn main(@builtin(global_invocation_id) gid: vec3<u32>, @builtin(local_invocation_index) li: u32) {
  var x = gid.x; let r = f(&x, i32(li));
  wa[li] = x + u32(r) + u.k; workgroupBarrier();
  var i = 0; loop { if i >= 4 { break; } i++; continuing { o[2] += 1u; } }
  switch i { case 1: { o[4] = 1u; } case 2, 3: { o[4] = 2u; } default: { o[4] = 3u; } }
  o[5] = u32((u.m * u.m)[0][1] + (s.m * s.a).x * pf) + select(1u, 2u, x > 3u) + arrayLength(&o) + wa[0];
}`)
	if err != nil {
		t.Fatal(err)
	}
	txt, _, err := compileHLSLModule(m, hlslOptions(hlslConfigs[3], "main", nil))
	if err != nil {
		t.Fatal(err)
	}
	if _, err := Parse(HLSL, txt); err != nil {
		t.Fatalf("base text: %v\n%s", err, numbered(txt))
	}
	toks := lex(HLSL, txt)
	offsets := make([]int, 0, len(toks))
	// recover byte offsets of token starts from line/column
	lineStart := []int{0}
	for i := 0; i < len(txt); i++ {
		if txt[i] == '\n' {
			lineStart = append(lineStart, i+1)
		}
	}
	for _, tk := range toks {
		if tk.Kind == TEOF {
			break
		}
		offsets = append(offsets, lineStart[tk.Pos.Line-1]+tk.Pos.Col-1)
	}
	try := func(what string, s string) {
		defer func() {
			if r := recover(); r != nil {
				t.Fatalf("%s: panic %v", what, r)
			}
		}()
		_, _ = Parse(HLSL, s)
	}
	for i, off := range offsets {
		try(fmt.Sprintf("prefix %d", i), txt[:off])
		end := len(txt)
		if i+1 < len(offsets) {
			end = offsets[i+1]
		}
		try(fmt.Sprintf("delete %d", i), txt[:off]+txt[end:])
		try(fmt.Sprintf("duplicate %d", i), txt[:end]+" "+txt[off:])
	}
}
