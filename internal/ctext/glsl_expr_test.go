package ctext

import (
	"math"
	"strings"
	"testing"
)

// Expectations in this file are computed BY HAND from the GLSL 4.60 / ESSL
// 3.20 specifications, never by running naga or this interpreter.

type xcase struct {
	expr string
	want uint32
}

func fb(f float32) uint32 { return math.Float32bits(f) }

func checkExprs(t *testing.T, hdr, decls, pre string, cases []xcase) {
	t.Helper()
	exprs := make([]string, len(cases))
	for i, c := range cases {
		exprs[i] = c.expr
	}
	got, res := evalExprs(t, hdr, decls, pre, exprs)
	clean(t, res)
	for i, c := range cases {
		if got[i] != c.want {
			t.Errorf("%s = %#x (%d, %g), want %#x (%d, %g)", c.expr, got[i], int32(got[i]), math.Float32frombits(got[i]), c.want, int32(c.want), math.Float32frombits(c.want))
		}
	}
}

func TestIntegerArithmetic(t *testing.T) {
	// iv = {7, -7, 0, INT_MIN}, uv = {7, 0xFFFFFFFF, 0, 32}
	checkExprs(t, hdr430, "", "", []xcase{
		{"uint(iv[0] + iv[1])", 0},
		{"uint(iv[3] - 1)", 0x7FFFFFFF}, // wraps (§4.1.3)
		{"uint(iv[0] * iv[1])", 0xFFFFFFCF},
		{"uint(iv[1] / 2)", 0xFFFFFFFD}, // -3
		{"uint(iv[0] % 4)", 3},
		{"uv[1] + 2u", 1},
		{"uv[1] * uv[1]", 1},
		{"uv[0] / 2u", 3},
		{"uv[0] % 4u", 3},
		{"uint(iv[1] >> 1)", 0xFFFFFFFC}, // arithmetic shift
		{"uv[1] >> 4u", 0x0FFFFFFF},
		{"uint(iv[0] << 2u)", 28},
		{"uint(iv[0] << 2)", 28},
		{"uv[0] << 31", 0x80000000},
		{"uint(-1)", 0xFFFFFFFF},
		{"uint(iv[1])", 0xFFFFFFF9},
		{"uint(~iv[0])", 0xFFFFFFF8},
		{"uint(iv[0] & 3) | (uv[0] ^ 5u)", 3},
		{"uint(-iv[3])", 0x80000000},
		{"uint(iv[0] < iv[1])", 0},
		{"uint(uv[0] < uv[1])", 1},
		{"uint(iv[0] >= 7)", 1},
		{"uint(iv[3] / 2)", 0xC0000000},
		{"uint(abs(iv[1]))", 7},
		{"uint(sign(iv[1]))", 0xFFFFFFFF},
		{"uint(min(iv[0], iv[1]))", 0xFFFFFFF9},
		{"max(uv[0], uv[1])", 0xFFFFFFFF},
		{"uint(clamp(iv[1], -3, 3))", 0xFFFFFFFD},
		{"clamp(uv[1], 1u, 9u)", 9},
	})
}

func TestPrecedenceAndLogic(t *testing.T) {
	checkExprs(t, hdr430, "", "", []xcase{
		{"uint(7 + 3 * 2)", 13},
		{"uint((7 + 3) * 2)", 20},
		{"uint(1 << 2 + 1)", 8},
		{"uint(8 - 4 - 2)", 2},
		{"uint(6 / 3 * 2)", 4},
		{"uint(1 | 2 ^ 3 & 4)", 3},
		{"uint(2 > 1 == true)", 1},
		{"uint(true || false && false)", 1},
		{"uint(true ^^ true)", 0},
		{"uint(!(iv[0] > 0) || iv[1] < 0)", 1},
		{"iv[0] > 0 ? 5u : 6u", 5},
		{"false ? 1u : true ? 2u : 3u", 2},
		{"uint(-iv[0] + 2)", 0xFFFFFFFB},
		{"uint(- -iv[0])", 7},
		{"uint(iv[0] - -1)", 8},
		// short circuit: the division by zero on the right is never evaluated
		{"uint(iv[2] != 0 && (7 / iv[2]) > 0)", 0},
		{"uint(iv[2] == 0 || (7 / iv[2]) > 0)", 1},
		{"(iv[2] == 0) ? 4u : uint(7 / iv[2])", 4},
	})
}

func TestImplicitConversions430(t *testing.T) {
	checkExprs(t, hdr430, "", "", []xcase{
		{"uv[0] + 1", 8}, // int -> uint (§4.1.10)
		{"floatBitsToUint(fv[0] + 1)", fb(2.5)},
		{"floatBitsToUint(fv[0] * uv[0])", fb(10.5)},
		{"floatBitsToUint(iv[1] * fv[0])", fb(-10.5)},
		{"uint(uv[0] == 7)", 1},
		{"uint(fv[2] == 0)", 1},
		{"uint(iv[1] < uv[0])", 0}, // -7 -> 4294967289u, not < 7
		{"floatBitsToUint(max(fv[0], 2))", fb(2)},
		{"floatBitsToUint(pow(2, 3))", fb(8)},
	})
}

func TestFloatAndConversions(t *testing.T) {
	checkExprs(t, hdr430, "", "", []xcase{
		{"floatBitsToUint(fv[0] / fv[2])", 0x7F800000},
		{"floatBitsToUint(-fv[2])", 0x80000000},
		{"floatBitsToUint(fv[0] + fv[1])", fb(-1)},
		{"floatBitsToUint(fv[3] * fv[3] * fv[3] * fv[3])", 0x7F800000}, // overflow to +inf
		{"uint(int(fv[1]))", 0xFFFFFFFE},                               // truncation toward zero (§5.4.1)
		{"uint(fv[0])", 1},
		{"uint(bool(fv[0]))", 1},
		{"uint(bool(iv[2]))", 0},
		{"uint(bool(fv[2]))", 0},
		{"floatBitsToUint(float(uv[1]))", 0x4F800000},
		{"floatBitsToUint(float(iv[1]))", 0xC0E00000},
		{"floatBitsToUint(float(true))", 0x3F800000},
		{"uint(float(16777217))", 16777216}, // round to nearest even
		{"uint(int(uv[1]))", 0xFFFFFFFF},    // bit pattern preserved
		{"floatBitsToUint(1.0e1)", fb(10)},
		{"floatBitsToUint(.5)", fb(0.5)},
		{"floatBitsToUint(2.)", fb(2)},
		{"floatBitsToUint(1.5f)", fb(1.5)},
		{"uint(0x10) + uint(010) + 0xFFu", 16 + 8 + 255},
		{"uint(3000000000)", 3000000000}, // bit pattern of the literal (§4.1.3)
		{"uint(isnan(fv[2] / fv[2]))", 1},
		{"uint(isinf(fv[0] / fv[2]))", 1},
		{"uint(fv[2] / fv[2] == fv[2] / fv[2])", 0},
		{"uint(floatBitsToInt(fv[1]))", 0xC0200000},
		{"floatBitsToUint(intBitsToFloat(0x40400000))", fb(3)},
		{"floatBitsToUint(uintBitsToFloat(uv[1] >> 1) )", 0x7FFFFFFF},
	})
}

func TestVectors(t *testing.T) {
	pre := "  vec4 v = vec4(fv[0], fv[1], 3.0, 4.0);\n  ivec3 q = ivec3(1, 2, 3);\n  vec4 w = v; w.zx = vec2(10.0, 20.0); w[1] = 30.0;\n  vec3 k = vec3(1.0); k.yz += vec2(1.0, 2.0); k.x++; --k.z;\n"
	checkExprs(t, hdr430, "", pre, []xcase{
		{"floatBitsToUint(v.wzyx.y)", fb(3)},
		{"floatBitsToUint(v.xy.y)", fb(-2.5)},
		{"floatBitsToUint(v[2])", fb(3)},
		{"floatBitsToUint((v * 2.0).w)", fb(8)},
		{"floatBitsToUint((2.0 * v).x)", fb(3)},
		{"floatBitsToUint((v * v).y)", fb(6.25)},
		{"floatBitsToUint(dot(v.xy, v.zw))", fb(-5.5)},
		{"floatBitsToUint(vec3(v).z)", fb(3)},
		{"floatBitsToUint(vec4(v.xy, v.xy).w)", fb(-2.5)},
		{"floatBitsToUint(vec2(5.0).y)", fb(5)},
		{"uint(ivec3(v.xyz).y)", 0xFFFFFFFE},
		{"floatBitsToUint(v.rgba.g)", fb(-2.5)},
		{"floatBitsToUint(v.stpq.p)", fb(3)},
		{"uint(v == v)", 1},
		{"uint(v.xy != v.zw)", 1},
		{"uint(lessThan(v.xy, v.zw).y)", 1},
		{"uint(any(equal(v, vec4(0.0))))", 0},
		{"uint(all(bvec2(true, iv[0] > 0)))", 1},
		{"uint(not(bvec2(true, false)).y)", 1},
		{"uint((q << 2).z + (q * q).y + (q % 2).x + (-q).x + (~q).y)", uint32(12 + 4 + 1 - 1 - 3)},
		{"uint((q + 1).x + (10 - q).z)", 2 + 7},
		{"uint((uvec2(1u, 2u) << uvec2(3u, 4u)).y)", 32},
		{"floatBitsToUint(w.x)", fb(20)},
		{"floatBitsToUint(w.y)", fb(30)},
		{"floatBitsToUint(w.z)", fb(10)},
		{"floatBitsToUint(w.w)", fb(4)},
		{"floatBitsToUint(k.x)", fb(2)},
		{"floatBitsToUint(k.y)", fb(2)},
		{"floatBitsToUint(k.z)", fb(2)},
		{"uint(v.length()) + uint(q.length())", 7},
		{"floatBitsToUint(float(vec3(7.0, 8.0, 9.0)))", fb(7)}, // scalar constructor takes the first component (§5.4.1)
		{"floatBitsToUint(vec2(mat2(1.0, 2.0, 3.0, 4.0)).y)", fb(2)},
		{"floatBitsToUint(vec4(1.0, vec2(2.0, 3.0), 4.0).z)", fb(3)},
		{"floatBitsToUint(vec3(1, 2u, true).z)", fb(1)},
		{"floatBitsToUint(cross(vec3(1.0, 0.0, 0.0), vec3(0.0, 1.0, 0.0)).z)", fb(1)},
		{"floatBitsToUint(length(vec2(3.0, 4.0)))", fb(5)},
		{"floatBitsToUint(distance(vec2(1.0, 1.0), vec2(4.0, 5.0)))", fb(5)},
		{"floatBitsToUint(normalize(vec2(0.0, 2.0)).y)", fb(1)},
		{"floatBitsToUint(reflect(vec2(1.0, -1.0), vec2(0.0, 1.0)).y)", fb(1)},
		{"floatBitsToUint(faceforward(vec2(1.0, 2.0), vec2(0.0, 1.0), vec2(0.0, 1.0)).y)", fb(-2)},
		{"floatBitsToUint((1.0).xx.y)", fb(1)}, // scalar swizzle (4.20)
	})
}

func TestMatrices(t *testing.T) {
	pre := `  mat2x3 m = mat2x3(1.0, 2.0, 3.0, 4.0, 5.0, 6.0);
  mat3x2 tr = transpose(m);
  mat2 a = mat2(1.0, 2.0, 3.0, 4.0);
  mat2 ia = inverse(a);
  mat3x2 op = outerProduct(vec2(1.0, 2.0), vec3(3.0, 4.0, 5.0));
  mat2 b = a; b[1] = vec2(7.0, 8.0); b[0][1] = 9.0; b[1].x += 1.0;
`
	checkExprs(t, hdr430, "", pre, []xcase{
		{"floatBitsToUint(m[1][0])", fb(4)}, // m[col][row] (§5.6)
		{"floatBitsToUint(m[0].z)", fb(3)},
		{"floatBitsToUint((m * vec2(1.0, 2.0)).y)", fb(12)},
		{"floatBitsToUint((vec3(1.0, 2.0, 3.0) * m).y)", fb(32)},
		{"floatBitsToUint((vec3(1.0, 2.0, 3.0) * m).x)", fb(14)},
		{"floatBitsToUint(tr[2][1])", fb(6)},
		{"floatBitsToUint(tr[1][0])", fb(2)},
		{"floatBitsToUint(mat2(2.0)[1][1])", fb(2)},
		{"floatBitsToUint(mat2(2.0)[0][1])", fb(0)},
		{"floatBitsToUint(mat3(m)[2][2])", fb(1)},
		{"floatBitsToUint(mat3(m)[1][2])", fb(6)},
		{"floatBitsToUint(mat3(m)[2][0])", fb(0)},
		{"floatBitsToUint(mat2(m)[1][1])", fb(5)},
		{"floatBitsToUint((a * a)[1][0])", fb(15)},
		{"floatBitsToUint((a * a)[0][1])", fb(10)},
		{"floatBitsToUint((a * a)[0][0])", fb(7)},
		{"floatBitsToUint((a * a)[1][1])", fb(22)},
		{"floatBitsToUint((m * a)[1][2])", fb(33)},
		{"floatBitsToUint(determinant(a))", fb(-2)},
		{"floatBitsToUint(ia[0][0])", fb(-2)},
		{"floatBitsToUint(ia[0][1])", fb(1)},
		{"floatBitsToUint(ia[1][0])", fb(1.5)},
		{"floatBitsToUint(ia[1][1])", fb(-0.5)},
		{"floatBitsToUint(matrixCompMult(a, a)[1][0])", fb(9)},
		{"floatBitsToUint(op[2][1])", fb(10)},
		{"floatBitsToUint(op[0][1])", fb(6)},
		{"floatBitsToUint((a + a)[1][1])", fb(8)},
		{"floatBitsToUint((a * 2.0)[0][1])", fb(4)},
		{"floatBitsToUint((a / a)[1][0])", fb(1)},
		{"floatBitsToUint((-a)[0][0])", fb(-1)},
		{"uint(mat2(vec2(1.0, 2.0), vec2(3.0, 4.0)) == a)", 1},
		{"floatBitsToUint(mat2(1.0, vec2(2.0, 3.0), 4.0)[1][0])", fb(3)},
		{"uint(m.length()) + uint(m[0].length())", 5},
		{"floatBitsToUint(b[0][0])", fb(1)},
		{"floatBitsToUint(b[0][1])", fb(9)},
		{"floatBitsToUint(b[1][0])", fb(8)},
		{"floatBitsToUint(b[1][1])", fb(8)},
		{"floatBitsToUint(determinant(mat3(2.0, 0.0, 0.0, 0.0, 3.0, 0.0, 1.0, 1.0, 4.0)))", fb(24)},
		{"floatBitsToUint(inverse(mat3(2.0, 0.0, 0.0, 0.0, 4.0, 0.0, 0.0, 0.0, 8.0))[2][2])", fb(0.125)},
		{"floatBitsToUint(determinant(mat4(2.0)))", fb(16)},
	})
}

func TestStructsArrays(t *testing.T) {
	decls := "struct S { int a; vec2 b; float c[2]; };\nconst int CK[3] = int[3](10, 20, 30);\nconst S CS = S(1, vec2(2.0), float[2](3.0, 4.0));\n"
	pre := `  S s = S(1, vec2(2.0, 3.0), float[2](4.0, 5.0));
  S s2 = s; s2.c[0] = 9.0;
  int arr[3] = int[](1, 2, 3);
  float aa[2][3] = float[2][3](float[3](1.0, 2.0, 3.0), float[3](4.0, 5.0, 6.0));
  aa[0][1] = 7.0;
  S ss[2] = S[2](s, s2);
  ss[1].b.y = 11.0;
`
	checkExprs(t, hdr430, decls, pre, []xcase{
		{"uint(s.a)", 1},
		{"floatBitsToUint(s.b.y)", fb(3)},
		{"floatBitsToUint(s.c[1])", fb(5)},
		{"uint(s == s2)", 0},
		{"uint(s != s2)", 1},
		{"uint(s == S(1, vec2(2.0, 3.0), float[2](4.0, 5.0)))", 1},
		{"uint(arr == int[3](1, 2, 3))", 1},
		{"floatBitsToUint(aa[1][2])", fb(6)},
		{"floatBitsToUint(aa[0][1])", fb(7)},
		{"uint(aa.length())", 2},
		{"uint(aa[0].length())", 3},
		{"uint(arr.length())", 3},
		{"uint(iv.length())", 4},
		{"uint(o.length())", 21}, // runtime-sized: (len(buffer) - offset) / stride
		{"floatBitsToUint(ss[1].c[0])", fb(9)},
		{"floatBitsToUint(ss[1].b.y)", fb(11)},
		{"floatBitsToUint(ss[0].b.y)", fb(3)},
		{"uint(CK[iv[0] - 6])", 20},
		{"uint(CK[2])", 30},
		{"floatBitsToUint(CS.c[1])", fb(4)},
		{"uint(int[2](5, 6)[1])", 6},
	})
}

func TestESNoImplicitConversion(t *testing.T) {
	// ESSL 3.10: no implicit conversions at all.
	for _, e := range []string{"uv[0] + 1", "floatBitsToUint(fv[0] + 1)", "uint(fv[2] == 0)", "floatBitsToUint(pow(2.0, 3))", "floatBitsToUint((1.0).xx.y)", "uint(fv.length()) + uint(vec2(1.0).length())"} {
		code, err := parseErr(exprShader(hdr310, "", "", []string{e}))
		if code == "" || code == "unsupported" {
			t.Errorf("ES 3.10: %s accepted (err=%v), want InvalidError", e, err)
		}
	}
	// but explicit forms are fine
	checkExprs(t, hdr310, "", "", []xcase{
		{"uv[0] + 1u", 8},
		{"floatBitsToUint(fv[0] + 1.0)", fb(2.5)},
		{"uint(iv[0] << 2u)", 28}, // shifts may mix signedness (§5.9)
		{"uint(fv.length())", 4},
	})
}

func TestBuiltinFunctions(t *testing.T) {
	checkExprs(t, hdr430, "", "", []xcase{
		{"floatBitsToUint(floor(fv[1]))", fb(-3)},
		{"floatBitsToUint(ceil(fv[1]))", fb(-2)},
		{"floatBitsToUint(trunc(fv[1]))", fb(-2)},
		{"floatBitsToUint(fract(fv[1]))", fb(0.5)},
		{"floatBitsToUint(roundEven(fv[1]))", fb(-2)},
		{"floatBitsToUint(roundEven(fv[0]))", fb(2)},
		{"floatBitsToUint(round(1.75))", fb(2)},
		{"floatBitsToUint(abs(fv[1]))", fb(2.5)},
		{"floatBitsToUint(sign(fv[1]))", fb(-1)},
		{"floatBitsToUint(mod(fv[1], 2.0))", fb(1.5)}, // -2.5 - 2*floor(-1.25) = -2.5 + 4
		{"floatBitsToUint(mod(5.5, -2.0))", fb(-0.5)}, // 5.5 - (-2)*floor(-2.75) = 5.5 - 6
		{"floatBitsToUint(min(fv[0], fv[1]))", fb(-2.5)},
		{"floatBitsToUint(max(vec2(1.0, 5.0), 3.0).x)", fb(3)},
		{"floatBitsToUint(clamp(fv[3], 0.0, 1.0))", fb(1)},
		{"floatBitsToUint(mix(2.0, 4.0, 0.25))", fb(2.5)},
		{"floatBitsToUint(mix(vec2(1.0, 2.0), vec2(3.0, 4.0), bvec2(true, false)).x)", fb(3)},
		{"floatBitsToUint(mix(vec2(1.0, 2.0), vec2(3.0, 4.0), bvec2(true, false)).y)", fb(2)},
		{"floatBitsToUint(step(1.0, fv[0]))", fb(1)},
		{"floatBitsToUint(step(2.0, fv[0]))", fb(0)},
		{"floatBitsToUint(smoothstep(0.0, 2.0, 1.0))", fb(0.5)},
		{"floatBitsToUint(sqrt(16.0))", fb(4)},
		{"floatBitsToUint(inversesqrt(4.0))", fb(0.5)},
		{"floatBitsToUint(pow(2.0, 10.0))", fb(1024)},
		{"floatBitsToUint(exp2(3.0))", fb(8)},
		{"floatBitsToUint(log2(8.0))", fb(3)},
		{"floatBitsToUint(exp(0.0))", fb(1)},
		{"floatBitsToUint(log(1.0))", fb(0)},
		{"floatBitsToUint(sin(0.0)) + floatBitsToUint(cos(0.0))", fb(1)},
		{"floatBitsToUint(atan(1.0, 1.0))", fb(float32(math.Pi / 4))},
		{"floatBitsToUint(radians(180.0))", fb(float32(math.Pi))},
		{"floatBitsToUint(degrees(0.0))", 0},
		{"floatBitsToUint(fma(2.0, 3.0, 4.0))", fb(10)},
		{"floatBitsToUint(ldexp(1.5, 3))", fb(12)},
		{"uint(bitCount(uv[1])) + uint(bitCount(iv[1]))", 32 + 30}, // -7 = ...11111001 has 30 ones
		{"bitfieldReverse(1u)", 0x80000000},
		{"uint(findLSB(8u))", 3},
		{"uint(findLSB(0u))", 0xFFFFFFFF},
		{"uint(findMSB(uv[1]))", 31},
		{"uint(findMSB(0u))", 0xFFFFFFFF},
		{"uint(findMSB(iv[1]))", 2}, // -7 = ~6; most significant 0 bit of ...11111001 is bit 2
		{"uint(findMSB(-1))", 0xFFFFFFFF},
		{"uint(findMSB(iv[0]))", 2},
		{"bitfieldExtract(0xABCD1234u, 8, 8)", 0x12},
		{"uint(bitfieldExtract(int(0x0000F000), 12, 4))", 0xFFFFFFFF}, // sign-extended
		{"bitfieldExtract(uv[1], 0, 32)", 0xFFFFFFFF},
		{"bitfieldExtract(uv[1], 5, 0)", 0},
		{"bitfieldInsert(0xFFFFFFFFu, 0u, 8, 8)", 0xFFFF00FF},
		{"bitfieldInsert(0u, 0xFFu, 28, 4)", 0xF0000000},
		{"packHalf2x16(vec2(1.0, -2.0))", 0xC0003C00},
		{"floatBitsToUint(unpackHalf2x16(0xC0003C00u).y)", fb(-2)},
		{"packUnorm4x8(vec4(0.0, 1.0, 2.0, -1.0))", 0x00FFFF00},
		{"packSnorm4x8(vec4(0.0, 1.0, -1.0, -2.0))", 0x81817F00},
		{"packUnorm2x16(vec2(1.0, 0.0))", 0x0000FFFF},
		{"packSnorm2x16(vec2(-1.0, 1.0))", 0x7FFF8001},
		{"floatBitsToUint(unpackUnorm4x8(0xFF000000u).w)", fb(1)},
		{"floatBitsToUint(unpackSnorm4x8(0x80u).x)", fb(-1)}, // clamp(-128/127, -1, 1)
		{"floatBitsToUint(unpackSnorm2x16(0x7FFF0000u).y)", fb(1)},
		{"floatBitsToUint(unpackUnorm2x16(0xFFFFu).x)", fb(1)},
	})
}

func TestOutParamBuiltins(t *testing.T) {
	pre := `  float whole; float fr = modf(fv[1], whole);
  int ex; float sig = frexp(12.0, ex);
  uint carry; uint sum = uaddCarry(uv[1], 2u, carry);
  uint borrow; uint diff = usubBorrow(1u, 2u, borrow);
  uint hi, lo; umulExtended(uv[1], uv[1], hi, lo);
  int ihi, ilo; imulExtended(iv[3], 2, ihi, ilo);
`
	checkExprs(t, hdr430, "", pre, []xcase{
		{"floatBitsToUint(whole)", fb(-2)},
		{"floatBitsToUint(fr)", fb(-0.5)},
		{"uint(ex)", 4},
		{"floatBitsToUint(sig)", fb(0.75)},
		{"sum", 1},
		{"carry", 1},
		{"diff", 0xFFFFFFFF},
		{"borrow", 1},
		{"hi", 0xFFFFFFFE},
		{"lo", 1},
		{"uint(ihi)", 0xFFFFFFFF},
		{"uint(ilo)", 0},
	})
}

// ---------------------------------------------------------------------------
// poison: one case per rule
// ---------------------------------------------------------------------------

func TestPoisonRules(t *testing.T) {
	cases := []struct {
		pre, expr, reason string
	}{
		{"", "uint(7 / iv[2])", "division or modulus by zero"},
		{"", "uv[0] / uv[2]", "division or modulus by zero"},
		{"", "uint(iv[0] % iv[2])", "division or modulus by zero"},
		{"", "uv[0] % uv[2]", "division or modulus by zero"},
		{"", "uint(iv[3] / -1)", "overflow"},
		{"", "uint(iv[1] % 2)", "negative operand"},
		{"", "uint(iv[0] % -2)", "negative operand"},
		{"", "uv[0] << uv[3]", "shift"},
		{"", "uv[0] >> 33u", "shift"},
		{"", "uint(iv[0] << iv[1])", "shift"},
		{"", "uint((ivec2(1, 2) << ivec2(1, iv[0] + 33)).y)", "shift"},
		{"", "uint(int(fv[3]))", "to int is undefined"},
		{"", "uint(int(fv[0] / fv[2]))", "to int is undefined"},
		{"", "uint(int(fv[2] / fv[2]))", "to int is undefined"},
		{"", "uint(fv[1])", "to uint is undefined"},
		{"", "uint(fv[3])", "to uint is undefined"},
		{"  int x;\n", "uint(x)", "never written"},
		{"  vec3 x; x.xy = vec2(1.0);\n", "floatBitsToUint(x.z)", "never written"},
		{"  int a[3]; a[0] = 1; a[2] = 3;\n", "uint(a[1])", "never written"},
		{"", "uint(sh)", "shared variable that was never written"},
		{"", "uint(gl)", "never written"},
		{"", "uint(noret(iv[0]))", "without returning a value"},
		{"  int r; outp(r);\n", "uint(r)", "out parameter read before being written"},
		{"", "floatBitsToUint(clamp(fv[0], 2.0, 1.0))", "minVal > maxVal"},
		{"", "uint(clamp(iv[0], 2, 1))", "minVal > maxVal"},
		{"", "clamp(uv[0], 2u, 1u)", "minVal > maxVal"},
		{"", "floatBitsToUint(smoothstep(1.0, 1.0, fv[0]))", "edge0 >= edge1"},
		{"", "floatBitsToUint(pow(fv[1], 2.0))", "pow(x, y) with x < 0"},
		{"", "floatBitsToUint(pow(fv[2], fv[2]))", "x = 0 and y <= 0"},
		{"", "floatBitsToUint(sqrt(fv[1]))", "sqrt"},
		{"", "floatBitsToUint(inversesqrt(fv[2]))", "inversesqrt"},
		{"", "floatBitsToUint(log(fv[2]))", "log(x)"},
		{"", "floatBitsToUint(log2(fv[1]))", "log2"},
		{"", "floatBitsToUint(asin(fv[0]))", "asin"},
		{"", "floatBitsToUint(acos(fv[1]))", "acos"},
		{"", "floatBitsToUint(acosh(fv[2]))", "acosh"},
		{"", "floatBitsToUint(atanh(1.0 + fv[2]))", "atanh"},
		{"", "floatBitsToUint(atan(fv[2], fv[2]))", "atan(y, x)"},
		{"", "floatBitsToUint(normalize(vec2(fv[2])).x)", "normalize"},
		{"", "bitfieldExtract(uv[0], 30, 3)", "bitfieldExtract"},
		{"", "bitfieldExtract(uv[0], -1, 3)", "bitfieldExtract"},
		{"", "bitfieldInsert(uv[0], 1u, 1, 32)", "bitfieldExtract"},
		{"", "floatBitsToUint(round(fv[1]))", "implementation-chosen"},
		{"", "floatBitsToUint(round(fv[0]))", "implementation-chosen"},
		{"", "floatBitsToUint(min(fv[0], fv[2] / fv[2]))", "NaN"},
		{"", "floatBitsToUint(max(fv[2] / fv[2], 1.0))", "NaN"},
		{"", "floatBitsToUint(clamp(fv[2] / fv[2], 0.0, 1.0))", "NaN"},
		{"", "floatBitsToUint(step(fv[2] / fv[2], 1.0))", "NaN"},
		{"", "packUnorm4x8(vec4(0.5))", "tie"},
		{"", "floatBitsToUint(inverse(mat2(1.0, 2.0, 2.0, 4.0))[0][0])", "singular"},
		{"", "floatBitsToUint(ldexp(1.0, 129))", "ldexp"},
	}
	decls := "shared int sh;\nint gl;\nint noret(int a) { if (a < 0) { return 1; } }\nvoid outp(out int r) { int t = r; r = t; }\n"
	for _, c := range cases {
		got, res := evalExprs(t, hdr430, decls, c.pre, []string{c.expr})
		_ = got
		if res.Trap != "" {
			t.Errorf("%s: trap %q", c.expr, res.Trap)
			continue
		}
		found := false
		for _, p := range res.Poison {
			if strings.Contains(p, c.reason) && strings.Contains(p, "stored to block O") {
				found = true
			}
		}
		if !found {
			t.Errorf("%s: want poison containing %q stored to O, got %v", c.expr, c.reason, res.Poison)
		}
	}
}

func TestPoisonObservedAtBranchesAndIndices(t *testing.T) {
	for _, c := range []struct{ body, want string }{
		{"int x; if (x > 0) { o[0] = 1u; }", "if condition"},
		{"int x; while (x > 0) { x = 0; }", "while condition"},
		{"int x; for (; x > 0;) { x = 0; }", "for condition"},
		{"int x; do { } while (x > 0);", "do-while condition"},
		{"int x; o[0] = x > 0 ? 1u : 2u;", "condition of ?:"},
		{"int x; switch (x) { case 0: o[0] = 1u; break; default: break; }", "switch selector"},
		{"int x; int a[2] = int[2](1, 2); x = a[0] / iv[2]; o[0] = uint(a[x]);", "used as an index"},
		{"bool b; if (b && true) { o[0] = 1u; }", "left operand of &&"},
	} {
		src := exprShader(hdr430, "", "  "+c.body+"\n", nil)
		p := mustParse(t, src)
		res := run1(t, p, map[Slot][]byte{{Class: 's', Index: 0}: zeros(16), {Class: 's', Index: 1}: stdInputBuf()}, [3]uint32{1, 1, 1})
		ok := false
		for _, e := range res.Poison {
			if strings.Contains(e, c.want) {
				ok = true
			}
		}
		if !ok {
			t.Errorf("%s: want poison event %q, got %v (trap %q)", c.body, c.want, res.Poison, res.Trap)
		}
	}
}

func TestPoisonNotObservedWhenOverwrittenOrUnused(t *testing.T) {
	// an undefined value that never reaches an observable use is not reported
	src := exprShader(hdr430, "", "  int x; int y = x + 1; y = 3; vec2 v; v.x = 1.0; v.y = 2.0;\n  bvec2 sel = bvec2(true, true); vec2 u; vec2 w = mix(u, v, sel);\n", []string{"uint(y)", "floatBitsToUint(v.y)", "floatBitsToUint(w.x)"})
	p := mustParse(t, src)
	out := zeros(12)
	res := run1(t, p, map[Slot][]byte{{Class: 's', Index: 0}: out, {Class: 's', Index: 1}: stdInputBuf()}, [3]uint32{1, 1, 1})
	clean(t, res)
	if getU32(out, 0) != 3 || getF32(out, 1) != 2 || getF32(out, 2) != 1 {
		t.Errorf("got %v", words32(out))
	}
}

func TestTraps(t *testing.T) {
	for _, c := range []struct{ pre, expr, want string }{
		{"  int a[3] = int[3](1, 2, 3);\n", "uint(a[iv[0]])", "out of range [0,3)"},
		{"  int a[3] = int[3](1, 2, 3);\n", "uint(a[iv[1]])", "out of range"},
		{"  vec3 v = vec3(1.0);\n", "floatBitsToUint(v[iv[0]])", "out of range [0,3)"},
		{"  mat2 m = mat2(1.0);\n", "floatBitsToUint(m[iv[0] - 5][0])", "out of range [0,2)"},
		{"", "uint(iv[uv[0]])", "out of range [0,4)"},
		{"", "o[uv[0]]", "out of range [0,1)"}, // runtime-sized array: length = bytes bound / stride
		{"  o[iv[0]] = 1u;\n", "1u", "out of range [0,1)"},
	} {
		_, res := evalExprs(t, hdr430, "", c.pre, []string{c.expr})
		if !strings.Contains(res.Trap, c.want) {
			t.Errorf("%s: want trap containing %q, got %q", c.expr, c.want, res.Trap)
		}
	}
}
