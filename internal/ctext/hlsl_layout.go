package ctext

// Constant-buffer packing ("legacy cbuffer layout").
//
// Sources: HLSL reference, "Packing Rules for Constant Variables":
//   - data is packed into 4-byte boundaries and never straddles a 16-byte
//     register ("HLSL packs data so that it does not cross a 16-byte
//     boundary"); a variable that would straddle moves to the next register;
//   - "Arrays are not packed in HLSL by default ... every element in an array
//     is stored in a four-component vector": array elements start on a
//     register boundary;
//   - structures start on a register boundary;
// and the DirectXShaderCompiler implementation of the same rules
// (CGHLSLMS.cpp AlignBaseOffset / AlignBufferOffsetInLegacy, which FXC's
// reflection output agrees with):
//   - an array's size is (N-1)*roundUp(elementSize,16) + elementSize: the last
//     element is NOT padded, so the next variable may share its register;
//   - a structure's size is the end of its last member (not padded either);
//   - a matrix is stored as an array of vectors, one register per column for
//     column_major (the default) or per row for row_major; it needs a new
//     register when it spans more than one.
//
// The reference page also says "the resulting size of any structure will
// always be evenly divisible by sizeof(four-component vector)" and "each
// structure forces the next variable to start on the next four-component
// vector"; neither compiler does that.  The compiler behaviour is encoded
// (judgement call, see the session report).

// cbLayout computes the packing of t as a constant-buffer member.  rowMajor:
// 0 = unspecified (column_major), 1 = row_major, 2 = column_major.
//
// Shared-core convention reminder: an HLSL floatRxC is the shared matrix with
// Cols=R, Rows=C, i.e. a shared "column" is an HLSL row.  TypeLayout.RowMajor
// is in shared terms, so HLSL row_major (HLSL rows contiguous = shared columns
// contiguous) is TypeLayout.RowMajor=false and HLSL column_major is true.
func (r *hlslRules) cbLayout(c *checker, t *Type, rowMajor int8) *TypeLayout {
	l := &TypeLayout{T: t}
	switch t.Kind {
	case KBool, KInt, KUint, KFloat:
		l.Size, l.Align = 4, 4
	case KDouble:
		l.Size, l.Align = 8, 8
	case KVec:
		es := 4
		if t.Elem.Kind == KDouble {
			es = 8
		}
		l.Size, l.Align = t.N*es, es
	case KMat:
		hr, hc := t.Cols, t.Rows // HLSL rows, columns
		regs, comps := hc, hr    // column_major: one register per column, hr components each
		l.RowMajor = true
		if rowMajor == 1 {
			regs, comps = hr, hc
			l.RowMajor = false
		}
		l.Stride = 16
		l.Size = (regs-1)*16 + comps*4
		l.Align = 4
		if regs > 1 {
			l.Align = 16
		}
	case KArray:
		el := r.cbLayout(c, t.Elem, rowMajor)
		l.Elem = el
		l.Stride = roundUp(el.Size, 16)
		l.Align = 16
		if t.N > 0 {
			l.Size = (t.N-1)*l.Stride + el.Size
		}
	case KStruct:
		l.Align = 16
		sd := r.st.structs[t.Struct]
		off := 0
		for i, f := range t.Struct.Fields {
			rm := int8(0)
			if sd != nil && i < len(sd.Fields) {
				rm = hlslRowMajorQual(sd.Fields[i].Quals)
			}
			fl := r.cbLayout(c, f.T, rm)
			off = hlslCBPlace(off, fl)
			l.Fields = append(l.Fields, FieldLayout{Off: off, L: fl})
			off += fl.Size
		}
		l.Size = off
	default:
		l.Align = 4
	}
	return l
}

// hlslCBPlace returns the offset at which a member with layout l is placed
// when the previous member ended at off.
func hlslCBPlace(off int, l *TypeLayout) int {
	if l.Align >= 16 {
		return roundUp(off, 16)
	}
	off = roundUp(off, l.Align)
	if l.Size > 0 && off/16 != (off+l.Size-1)/16 {
		off = roundUp(off, 16)
	}
	return off
}
