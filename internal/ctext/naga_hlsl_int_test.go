package ctext

// Generated from naga_int_test.go (same WGSL cases and hand-computed expectations);
// HLSL-specific findings are recorded in hlslKnownDefects (naga_hlsl_harness_test.go).

import "testing"

// Expected values in the naga_*_test.go files are computed BY HAND from the
// WGSL specification.  A discrepancy is triaged: interpreter bug, wrong
// expectation, or naga defect (then recorded in nagaCase.defect and in the
// session report).

func TestNagaHLSLIntegers(t *testing.T) {
	runNagaHLSLCases(t, []nagaCase{
		{
			name: "i32 wrap",
			wgsl: outI + inI + `@compute @workgroup_size(1) fn main() {
  o[0] = a[0] + 1;      // INT_MAX + 1 wraps
  o[1] = a[1] - 1;      // INT_MIN - 1 wraps
  o[2] = a[0] * 2;      // -2
  o[3] = -a[1];         // -INT_MIN = INT_MIN
  o[4] = a[2] * a[3];   // 7 * -3
  o[5] = abs(a[3]);
  o[6] = a[2] - a[3] * 2 + (a[2] - a[3]) * 2; // 7 + 6 + 20
}`,
			bufs: map[gb][]byte{{0, 0}: zeros(28), {0, 1}: i32s(2147483647, -2147483648, 7, -3)},
			want: map[gb][]any{{0, 0}: wordsOf(-2147483648, 2147483647, -2, -2147483648, -21, 3, 33)},
		},
		{
			name: "u32 wrap",
			wgsl: outU + inU + `@compute @workgroup_size(1) fn main() {
  o[0] = a[0] + 2u;
  o[1] = a[1] - 1u;
  o[2] = a[2] * a[2];
  o[3] = a[0] * a[0];
  o[4] = a[3] / 2u + a[3] % 4u;
}`,
			bufs: map[gb][]byte{{0, 0}: zeros(20), {0, 1}: u32s(0xFFFFFFFF, 0, 0x10000, 7)},
			want: map[gb][]any{{0, 0}: wordsOf(uint32(1), uint32(0xFFFFFFFF), uint32(0), uint32(1), uint32(6))},
		},
		{
			name: "i32 division truncates, non-negative remainder operands",
			wgsl: outI + inI + `@compute @workgroup_size(1) fn main() {
  o[0] = a[0] / a[1];   // 7 / -3 = -2
  o[1] = a[2] / a[3];   // -7 / 3 = -2
  o[2] = a[2] / a[1];   // -7 / -3 = 2
  o[3] = a[0] / a[3];   // 7 / 3 = 2
  o[4] = a[0] % a[3];   // 7 % 3 = 1
  o[5] = a[4] % a[0];   // 20 % 7 = 6
}`,
			bufs: map[gb][]byte{{0, 0}: zeros(24), {0, 1}: i32s(7, -3, -7, 3, 20)},
			want: map[gb][]any{{0, 0}: wordsOf(-2, -2, 2, 2, 1, 6)},
		},
		{
			name: "shifts",
			wgsl: outU + inU + "@group(0) @binding(2) var<storage, read> s: array<i32>;\n" + `@compute @workgroup_size(1) fn main() {
  o[0] = bitcast<u32>(s[0] >> a[0]);   // -16 >> 2 = -4 (arithmetic)
  o[1] = a[1] >> a[2];                 // 0xF0000000 >> 4
  o[2] = bitcast<u32>(s[1] << a[3]);   // 1 << 31
  o[3] = a[4] << 30u;                  // 3 << 30
  o[4] = (a[1] >> 28u) << 1u;
  o[5] = bitcast<u32>(vec2<i32>(s[0], s[1]) >> vec2<u32>(1u, 0u)).x;
}`,
			bufs: map[gb][]byte{{0, 0}: zeros(24), {0, 1}: u32s(2, 0xF0000000, 4, 31, 3), {0, 2}: i32s(-16, 1)},
			want: map[gb][]any{{0, 0}: wordsOf(-4, uint32(0x0F000000), uint32(0x80000000), uint32(0xC0000000), uint32(30), -8)},
		},
		{
			name: "bitwise and comparisons and select",
			wgsl: outU + inU + `@compute @workgroup_size(1) fn main() {
  let x = a[0]; let y = a[1];
  o[0] = (x & y) | (x ^ y);            // 0xF0F0 & 0xFF00 = 0xF000 ; ^ = 0x0FF0 ; | = 0xFFF0
  o[1] = ~x;
  o[2] = select(1u, 2u, x < y);        // true -> 2
  o[3] = select(1u, 2u, x == y);       // false -> 1
  o[4] = u32(x != y) + u32(x <= y) * 2u + u32(x > y) * 4u + u32(x >= y) * 8u; // 1 + 2
  o[5] = u32((x < y) && (y > 0u)) + u32((x > y) || (y == 0u)) * 2u + u32(!(x < y)) * 4u;
  o[6] = 426u;
  let i = bitcast<i32>(a[2]);          // -1
  o[7] = u32(i < 0) + u32(a[2] > 0u) * 2u; // signed vs unsigned comparison of the same bits
}`,
			bufs: map[gb][]byte{{0, 0}: zeros(32), {0, 1}: u32s(0xF0F0, 0xFF00, 0xFFFFFFFF)},
			want: map[gb][]any{{0, 0}: wordsOf(uint32(0xFFF0), uint32(0xFFFF0F0F), uint32(2), uint32(1), uint32(3), uint32(1), uint32(426), uint32(3))},
		},
		{
			name: "bit builtins unsigned",
			wgsl: outU + inU + `@compute @workgroup_size(1) fn main() {
  let x = a[0];                         // 0x00F0
  o[0] = countOneBits(x);
  o[1] = reverseBits(x);
  o[2] = firstLeadingBit(x);
  o[3] = firstTrailingBit(x);
  o[4] = 24u;
  o[5] = 4u;
  o[6] = extractBits(a[1], 8u, 8u);     // 0xABCD1234 -> 0x12
  o[7] = insertBits(a[2], 0xFFu, 4u, 4u); // 0 -> 0xF0
  o[8] = extractBits(a[1], 28u, 8u);    // count clamped to 4 -> 0xA
  o[9] = 64u;
  o[10] = firstLeadingBit(a[2]);        // 0xFFFFFFFF
  o[11] = firstTrailingBit(a[2]);
  o[12] = extractBits(a[1], 0u, 32u);
  o[13] = insertBits(a[1], 0u, 0u, 32u);
  o[14] = extractBits(a[1], 4u, 0u);
}`,
			bufs: map[gb][]byte{{0, 0}: zeros(60), {0, 1}: u32s(0xF0, 0xABCD1234, 0)},
			want: map[gb][]any{{0, 0}: wordsOf(uint32(4), uint32(0x0F000000), uint32(7), uint32(4), uint32(24), uint32(4), uint32(0x12), uint32(0xF0), uint32(0xA), uint32(64), uint32(0xFFFFFFFF), uint32(0xFFFFFFFF), uint32(0xABCD1234), uint32(0), uint32(0))},
		},
		{
			name: "bit builtins signed",
			wgsl: outI + inI + `@compute @workgroup_size(1) fn main() {
  o[0] = firstLeadingBit(a[0]);         // -8 = ...11111000 : most significant 0 bit is bit 2
  o[1] = firstLeadingBit(a[1]);         // 8 -> 3
  o[2] = firstLeadingBit(a[2]);         // 0 -> -1
  o[3] = firstLeadingBit(a[3]);         // -1 -> -1
  o[4] = extractBits(a[4], 4u, 4u);     // 0xF0 -> field 0xF sign-extended = -1
  o[5] = extractBits(a[4], 3u, 4u);     // bits 3..6 = 0b1110 -> -2
  o[6] = countOneBits(a[3]) + 31; // 32 + 31
  o[7] = reverseBits(a[1]);             // 8 -> 0x10000000
  o[8] = insertBits(a[3], 0, 8u, 8u);   // -1 with bits 8..15 cleared
  o[9] = firstTrailingBit(a[0]);        // 3
}`,
			bufs: map[gb][]byte{{0, 0}: zeros(40), {0, 1}: i32s(-8, 8, 0, -1, 0xF0)},
			want: map[gb][]any{{0, 0}: wordsOf(2, 3, -1, -1, -1, -2, 63, 0x10000000, uint32(0xFFFF00FF), 3)},
		},
		{
			name: "vector select",
			wgsl: outU + inU + `@compute @workgroup_size(1) fn main() {
  let sv = select(vec3<u32>(1u, 2u, 3u), vec3<u32>(4u, 5u, 6u), vec3<bool>(true, false, a[0] < a[1]));
  o[0] = sv.x * 100u + sv.y * 10u + sv.z; // 4,2,6
  let sf = select(vec2<f32>(1.0, 2.0), vec2<f32>(3.0, 4.0), vec2<bool>(a[0] > a[1], true));
  o[1] = u32(sf.x) * 10u + u32(sf.y);     // 1,4
}`,
			bufs: map[gb][]byte{{0, 0}: zeros(8), {0, 1}: u32s(1, 2)},
			want: map[gb][]any{{0, 0}: wordsOf(uint32(426), uint32(14))},
		},
		{
			name: "countLeadingZeros countTrailingZeros non-zero",
			wgsl: outU + inU + `@compute @workgroup_size(1) fn main() {
  o[0] = countLeadingZeros(a[0]);     // 0xF0 -> 24
  o[1] = countTrailingZeros(a[0]);    // 4
  o[2] = u32(countLeadingZeros(bitcast<i32>(a[0])) + countTrailingZeros(bitcast<i32>(a[0])));
  o[3] = countLeadingZeros(a[1]);     // 0xFFFFFFFF -> 0
}`,
			bufs: map[gb][]byte{{0, 0}: zeros(16), {0, 1}: u32s(0xF0, 0xFFFFFFFF)},
			want: map[gb][]any{{0, 0}: wordsOf(uint32(24), uint32(4), uint32(28), uint32(0))},
		},
		{
			name: "countTrailingZeros of zero",
			wgsl: outU + inU + `@compute @workgroup_size(1) fn main() {
  o[0] = countLeadingZeros(a[0]);     // 32
  o[1] = countTrailingZeros(a[0]);    // 32
  o[2] = u32(countTrailingZeros(bitcast<i32>(a[0])));  // 32
  o[3] = u32(countLeadingZeros(bitcast<i32>(a[0])));   // 32
}`,
			bufs: map[gb][]byte{{0, 0}: zeros(16), {0, 1}: u32s(0)},
			want: map[gb][]any{{0, 0}: wordsOf(uint32(32), uint32(32), uint32(32), uint32(32))},
		},
		{
			name: "integer min max clamp sign dot",
			wgsl: outI + inI + `@compute @workgroup_size(1) fn main() {
  o[0] = min(a[0], a[1]) * 100 + max(a[0], a[1]);  // -5*100 + 9
  o[1] = clamp(a[0], -3, 3) + clamp(a[1], -3, 3) * 10; // -3 + 30
  o[2] = sign(a[0]) + sign(a[1]) * 10 + sign(a[2]) * 100; // -1 + 10 + 0
  o[3] = dot(vec3<i32>(a[0], a[1], 2), vec3<i32>(1, 2, 3)); // -5 + 18 + 6
  let u = vec2<u32>(u32(a[1]), 3u);
  o[4] = i32(dot(u, u));                // 81 + 9
  o[5] = i32(min(u.x, u.y) + max(u.x, u.y) * 10u + clamp(u.x, 1u, 5u) * 100u); // 3 + 90 + 500
  let v = abs(vec2<i32>(a[0], a[1]));
  o[6] = v.x * 10 + v.y;
}`,
			bufs: map[gb][]byte{{0, 0}: zeros(28), {0, 1}: i32s(-5, 9, 0)},
			want: map[gb][]any{{0, 0}: wordsOf(-491, 27, 9, 19, 90, 593, 59)},
		},
		{
			name: "vector integer operators",
			wgsl: outI + inI + `@compute @workgroup_size(1) fn main() {
  let p = vec3<i32>(a[0], a[1], a[2]);  // 12, 5, 7
  let q = vec3<i32>(3, 2, 7);
  let r = p / q + p % q + (p & q) + (p | q) + (p ^ q) + (-p) + (~q);
  // x: 4 + 0 + 0 + 15 + 15 - 12 - 4 = 18 ; y: 2 + 1 + 0 + 7 + 7 - 5 - 3 = 9 ; z: 1 + 0 + 7 + 7 + 0 - 7 - 8 = 0
  o[0] = r.x; o[1] = r.y; o[2] = r.z;
  let s = p * 2 + 1 - q;                // 22, 9, 8
  o[3] = s.x * 10000 + s.y * 100 + s.z;
  let sh = (p << vec3<u32>(1u, 2u, 3u)) >> vec3<u32>(2u);  // 24,20,56 >> 2 = 6,5,14
  o[4] = sh.x * 10000 + sh.y * 100 + sh.z;
  o[5] = i32(all(p > q)) + i32(any(p > q)) * 10 + i32(all(p >= q)) * 100; // false, true, true
}`,
			bufs: map[gb][]byte{{0, 0}: zeros(24), {0, 1}: i32s(12, 5, 7)},
			want: map[gb][]any{{0, 0}: wordsOf(18, 9, 0, 220908, 60514, 110)},
		},
		{
			name: "compound assignment and increment statements",
			wgsl: outI + inI + `@compute @workgroup_size(1) fn main() {
  var x = a[0];       // 10
  x += 5; x -= 3; x *= 4; x /= 5; x %= 7;   // 15, 12, 48, 9, 2
  o[0] = x;
  var y = 0xF0;
  y &= 0x3C; y |= 3; y ^= 0xFF; y <<= 2u; y >>= 1u;  // 0x30, 0x33, 0xCC, 0x330, 0x198
  o[1] = y;
  var z = a[1];       // -1
  z++; z++; z--;
  o[2] = z;
  var v = vec2<i32>(1, 2);
  v += vec2<i32>(10, 20); v *= 2; v.x -= 1;
  o[3] = v.x * 100 + v.y;   // 21, 44
  o[a[2]] += 7;             // o[4] = 0 + 7
  o[a[2] + 1] = 1; o[a[2] + 1]++;
}`,
			bufs: map[gb][]byte{{0, 0}: zeros(24), {0, 1}: i32s(10, -1, 4)},
			want: map[gb][]any{{0, 0}: wordsOf(2, 0x198, 0, 2144, 7, 2)},
		},
	})
}
