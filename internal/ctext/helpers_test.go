package ctext

import (
	"encoding/binary"
	"errors"
	"math"
	"strings"
	"testing"
)

// ---- byte helpers -------------------------------------------------------------

func u32s(v ...uint32) []byte {
	b := make([]byte, 4*len(v))
	for i, x := range v {
		binary.LittleEndian.PutUint32(b[4*i:], x)
	}
	return b
}

func i32s(v ...int32) []byte {
	u := make([]uint32, len(v))
	for i, x := range v {
		u[i] = uint32(x)
	}
	return u32s(u...)
}

func f32s(v ...float32) []byte {
	u := make([]uint32, len(v))
	for i, x := range v {
		u[i] = math.Float32bits(x)
	}
	return u32s(u...)
}

func cat(bs ...[]byte) []byte {
	var out []byte
	for _, b := range bs {
		out = append(out, b...)
	}
	return out
}

func zeros(n int) []byte { return make([]byte, n) }

func getU32(b []byte, i int) uint32  { return binary.LittleEndian.Uint32(b[4*i:]) }
func getI32(b []byte, i int) int32   { return int32(getU32(b, i)) }
func getF32(b []byte, i int) float32 { return math.Float32frombits(getU32(b, i)) }
func fbits(f float32) uint32         { return math.Float32bits(f) }
func ibits(i int32) uint32           { return uint32(i) }
func words32(b []byte) (out []uint32) {
	for i := 0; i+4 <= len(b); i += 4 {
		out = append(out, binary.LittleEndian.Uint32(b[i:]))
	}
	return
}

// ---- running hand-written GLSL -------------------------------------------------

func mustParse(t *testing.T, src string) *Program {
	t.Helper()
	p, err := Parse(GLSL, src)
	if err != nil {
		t.Fatalf("Parse: %v\n%s", err, numbered(src))
	}
	return p
}

func numbered(src string) string {
	var sb strings.Builder
	for i, l := range strings.Split(src, "\n") {
		sb.WriteString(strings.TrimRight(strings.Join([]string{itoa(i + 1), l}, ": "), " "))
		sb.WriteByte('\n')
	}
	return sb.String()
}

func itoa(i int) string {
	s := ""
	if i == 0 {
		return "0"
	}
	for i > 0 {
		s = string(rune('0'+i%10)) + s
		i /= 10
	}
	return s
}

// parseErr returns the error code of an InvalidError ("" if Parse succeeds,
// "unsupported" for UnsupportedError).
func parseErr(src string) (string, error) {
	_, err := Parse(GLSL, src)
	if err == nil {
		return "", nil
	}
	var ie *InvalidError
	if errors.As(err, &ie) {
		return ie.Code, err
	}
	var ue *UnsupportedError
	if errors.As(err, &ue) {
		return "unsupported", err
	}
	return "other", err
}

func run1(t *testing.T, p *Program, bufs map[Slot][]byte, groups [3]uint32) *RunResult {
	t.Helper()
	res, err := p.Run(RunConfig{Buffers: bufs, NumWorkgroups: groups, StepLimit: 5_000_000})
	if err != nil {
		t.Fatalf("Run: %v", err)
	}
	return res
}

func clean(t *testing.T, res *RunResult) {
	t.Helper()
	if res.Trap != "" {
		t.Fatalf("unexpected trap: %s", res.Trap)
	}
	if len(res.Poison) > 0 {
		t.Fatalf("unexpected poison: %v", res.Poison)
	}
}

const hdr430 = "#version 430 core\nlayout(local_size_x = 1) in;\n"
const hdr310 = "#version 310 es\nprecision highp float;\nprecision highp int;\nlayout(local_size_x = 1) in;\n"

// stdInputs is bound at binding 1 by exprShader: iv, uv, fv.
var stdIV = []int32{7, -7, 0, -2147483648}
var stdUV = []uint32{7, 0xFFFFFFFF, 0, 32}
var stdFV = []float32{1.5, -2.5, 0.0, 1e10}

func stdInputBuf() []byte { return cat(i32s(stdIV...), u32s(stdUV...), f32s(stdFV...)) }

// exprShader builds a shader that stores each expression (already of type
// uint) into o[i].
func exprShader(hdr string, decls string, pre string, exprs []string) string {
	var sb strings.Builder
	sb.WriteString(hdr)
	sb.WriteString("layout(std430, binding = 0) buffer O { uint o[]; };\n")
	sb.WriteString("layout(std430, binding = 1) readonly buffer I { int iv[4]; uint uv[4]; float fv[4]; };\n")
	sb.WriteString(decls)
	sb.WriteString("\nvoid main() {\n")
	sb.WriteString(pre)
	for i, e := range exprs {
		sb.WriteString("  o[" + itoa(i) + "] = " + e + ";\n")
	}
	sb.WriteString("}\n")
	return sb.String()
}

// evalExprs runs exprShader and returns the stored words plus the result.
func evalExprs(t *testing.T, hdr, decls, pre string, exprs []string) ([]uint32, *RunResult) {
	t.Helper()
	src := exprShader(hdr, decls, pre, exprs)
	p := mustParse(t, src)
	out := zeros(4 * len(exprs))
	res := run1(t, p, map[Slot][]byte{{Class: 's', Index: 0}: out, {Class: 's', Index: 1}: stdInputBuf()}, [3]uint32{1, 1, 1})
	return words32(out), res
}
