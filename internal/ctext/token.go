package ctext

import (
	"strings"
)

// TokKind is the lexical class of a token.  Keyword classification is done by
// the dialect (it may depend on a #version line), not by the lexer.
type TokKind uint8

const (
	TEOF TokKind = iota
	TIdent
	TNumber    // Text = digits/body, Suffix = trailing letters, IsFloat
	TPunct     // operators and punctuation
	TDirective // a whole preprocessor line (Text without the leading '#')
)

// Token is one lexical token.
type Token struct {
	Kind    TokKind
	Text    string
	Suffix  string // TNumber only
	IsFloat bool   // TNumber only: has '.' or a decimal exponent
	Pos     Pos
}

func (t Token) String() string {
	switch t.Kind {
	case TEOF:
		return "end of input"
	case TNumber:
		return t.Text + t.Suffix
	case TDirective:
		return "#" + t.Text
	}
	return t.Text
}

var punct3 = []string{"<<=", ">>="}
var punct2 = []string{"++", "--", "<<", ">>", "<=", ">=", "==", "!=", "&&", "||", "^^", "+=", "-=", "*=", "/=", "%=", "&=", "|=", "^="}

const punct1 = "+-*/%<>=!~&|^?:;,.(){}[]"

// lex splits src into tokens.  It is shared by all dialects; dialect
// differences (keywords, numeric suffixes, '::') are handled by the parser.
func lex(d Dialect, src string) []Token {
	toks := make([]Token, 0, len(src)/3+16)
	line, col := 1, 1
	i := 0
	n := len(src)
	lineStart := true // only whitespace seen on this line so far
	adv := func(k int) {
		for j := 0; j < k; j++ {
			if src[i] == '\n' {
				line++
				col = 1
			} else {
				col++
			}
			i++
		}
	}
	for i < n {
		c := src[i]
		switch {
		case c == '\n':
			adv(1)
			lineStart = true
			continue
		case c == ' ' || c == '\t' || c == '\r' || c == '\f' || c == '\v':
			adv(1)
			continue
		case c == '\\' && i+1 < n && (src[i+1] == '\n' || (src[i+1] == '\r' && i+2 < n && src[i+2] == '\n')):
			// line continuation
			if src[i+1] == '\r' {
				adv(3)
			} else {
				adv(2)
			}
			continue
		case c == '/' && i+1 < n && src[i+1] == '/':
			for i < n && src[i] != '\n' {
				adv(1)
			}
			continue
		case c == '/' && i+1 < n && src[i+1] == '*':
			p := Pos{line, col}
			adv(2)
			closed := false
			for i < n {
				if src[i] == '*' && i+1 < n && src[i+1] == '/' {
					adv(2)
					closed = true
					break
				}
				adv(1)
			}
			if !closed {
				p.invalid(d, "syntax", "unterminated comment")
			}
			continue
		}
		p := Pos{line, col}
		if c == '#' {
			if !lineStart {
				p.invalid(d, "syntax", "'#' must be the first non-blank character of a line")
			}
			j := i + 1
			for j < n && src[j] != '\n' {
				j++
			}
			toks = append(toks, Token{Kind: TDirective, Text: strings.TrimSpace(src[i+1 : j]), Pos: p})
			adv(j - i)
			continue
		}
		lineStart = false
		switch {
		case isIdentStart(c):
			j := i + 1
			for j < n && isIdentPart(src[j]) {
				j++
			}
			toks = append(toks, Token{Kind: TIdent, Text: src[i:j], Pos: p})
			adv(j - i)
		case isDigit(c) || (c == '.' && i+1 < n && isDigit(src[i+1])):
			j := i
			isFloat := false
			if c == '0' && j+1 < n && (src[j+1] == 'x' || src[j+1] == 'X') {
				j += 2
				for j < n && isHex(src[j]) {
					j++
				}
			} else {
				for j < n && isDigit(src[j]) {
					j++
				}
				if j < n && src[j] == '.' {
					isFloat = true
					j++
					for j < n && isDigit(src[j]) {
						j++
					}
				}
				if j < n && (src[j] == 'e' || src[j] == 'E') {
					k := j + 1
					if k < n && (src[k] == '+' || src[k] == '-') {
						k++
					}
					if k < n && isDigit(src[k]) {
						isFloat = true
						for k < n && isDigit(src[k]) {
							k++
						}
						j = k
					}
				}
			}
			body := src[i:j]
			k := j
			for k < n && isIdentPart(src[k]) {
				k++
			}
			toks = append(toks, Token{Kind: TNumber, Text: body, Suffix: src[j:k], IsFloat: isFloat, Pos: p})
			adv(k - i)
		default:
			matched := ""
			if d != GLSL && strings.HasPrefix(src[i:], "::") {
				matched = "::"
			}
			if matched == "" {
				for _, s := range punct3 {
					if strings.HasPrefix(src[i:], s) {
						matched = s
						break
					}
				}
			}
			if matched == "" {
				for _, s := range punct2 {
					if strings.HasPrefix(src[i:], s) {
						matched = s
						break
					}
				}
			}
			if matched == "" && strings.IndexByte(punct1, c) >= 0 {
				matched = string(c)
			}
			if matched == "" {
				p.invalid(d, "syntax", "unexpected character %q", c)
			}
			toks = append(toks, Token{Kind: TPunct, Text: matched, Pos: p})
			adv(len(matched))
		}
	}
	toks = append(toks, Token{Kind: TEOF, Pos: Pos{line, col}})
	return toks
}

func isIdentStart(c byte) bool {
	return c == '_' || (c >= 'a' && c <= 'z') || (c >= 'A' && c <= 'Z')
}
func isIdentPart(c byte) bool { return isIdentStart(c) || isDigit(c) }
func isDigit(c byte) bool     { return c >= '0' && c <= '9' }
func isHex(c byte) bool {
	return isDigit(c) || (c >= 'a' && c <= 'f') || (c >= 'A' && c <= 'F')
}
