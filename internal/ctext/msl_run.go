package ctext

import (
	"encoding/binary"
	"errors"
	"fmt"
	"iter"
	"regexp"
	"sort"
	"strconv"
)

// ---------------------------------------------------------------------------
// Parse
// ---------------------------------------------------------------------------

var mslLangComment = regexp.MustCompile(`(?m)^//\s*language:\s*metal(\d+)\.(\d+)`)

func parseMSL(src string) *Program {
	prog := &Program{Dialect: MSL, lc: layoutCache{}, structTypes: map[*StructDef]*Type{}, localSize: [3]uint32{1, 1, 1}}
	st := &mslState{
		funcInfo:      map[*Function]*mslFuncInfo{},
		paramInfo:     map[*Param]*mslParamInfo{},
		memberAttrs:   map[string][]mslAttr{},
		userFuncs:     map[string]bool{},
		ptrs:          map[mslPtrKey]*Type{},
		zeroConv:      map[*Type]bool{},
		templates:     map[string][]*mslTemplate{},
		structPos:     map[string]Pos{},
		opaques:       map[string]*Type{},
		skipped:       map[string]*UnsupportedError{},
		unsupportedFn: map[*Function]*UnsupportedError{},
	}
	prog.msl = st
	if m := mslLangComment.FindStringSubmatch(src); m != nil {
		maj, _ := strconv.Atoi(m[1])
		min, _ := strconv.Atoi(m[2])
		st.version = maj*10 + min
		prog.Version = st.version
	}
	prog.hooks = &dialectHooks{
		binary: func(ev *evaluator, op string, l, r Value, rt *Type, pos Pos) Value {
			return ev.mslBinaryValues(op, l, r, rt, pos)
		},
		unary:    func(ev *evaluator, op string, v Value) Value { return ev.mslUnary(op, v) },
		convert:  func(ev *evaluator, v Value, to *Type) Value { return ev.mslConvertValue(v, to) },
		loadLeaf: func(ev *evaluator, b *boundBuf, off int, t *Type) Cell { return ev.mslLoadLeaf(b, off, t) },
		storeLeaf: func(ev *evaluator, b *boundBuf, off int, t *Type, c Cell, pos Pos) {
			ev.mslStoreLeaf(b, off, t, c, pos)
		},
		mapReason: mslMapReason,
		run:       func(p *Program, cfg RunConfig) (*RunResult, error) { return p.mslRun(cfg) },
		typeStr:   mslTypeString,
	}
	fe := &mslFE{st: st, usingNames: map[string]bool{}, templates: map[string]bool{}, zeroConv: map[string]bool{}, typedefs: map[string]bool{}}
	st.fe = fe
	toks := lex(MSL, src)
	mslPrescan(toks)
	p := &parser{d: MSL, fe: fe, toks: toks, prog: prog}
	st.parser = p
	p.pushScope() // stays open: template instantiations are parsed during checking
	decls := fe.parseTranslationUnit(p)
	rules := &mslRules{fe: fe, st: st}
	c := &checker{prog: prog, d: MSL, rules: rules}
	rules.c = c
	c.ev = &evaluator{sh: newShared(prog), constMode: true}
	c.push()
	rules.checkTop(c, decls)
	c.pop()
	func() {
		defer func() {
			if r := recover(); r != nil {
				if b, ok := r.(bail); ok {
					var ie *InvalidError
					if errors.As(b.err, &ie) && ie.Code == "recursion" {
						// MSL 2.4+ allows recursion in some contexts; earlier
						// versions do not: not modelled either way
						ie.Pos.unsupported(MSL, "recursive function calls")
					}
				}
				panic(r)
			}
		}()
		c.checkRecursion()
	}()
	for _, e := range st.entries {
		if e.Stage == "kernel" {
			prog.hasLocalSize = true // IsCompute(); the size itself is a dispatch parameter (RunConfig.LocalSize)
		}
	}
	return prog
}

// mslPrescan rejects (as unsupported) lexical forms of C++ that the shared
// lexer splits into other tokens.
func mslPrescan(toks []Token) {
	for i := 0; i+1 < len(toks); i++ {
		a, b := toks[i], toks[i+1]
		if a.Kind == TPunct && b.Kind == TPunct && a.Pos.Line == b.Pos.Line && b.Pos.Col == a.Pos.Col+len(a.Text) {
			switch {
			case (a.Text == "-" || a.Text == "--") && a.Text == "-" && b.Text == ">":
				a.Pos.unsupported(MSL, "-> operator")
			case a.Text == "." && b.Text == "." && i+2 < len(toks) && toks[i+2].Text == ".":
				a.Pos.unsupported(MSL, "ellipsis")
			case a.Text == "." && b.Text == "*":
				a.Pos.unsupported(MSL, ".* operator")
			}
		}
	}
}

// ---------------------------------------------------------------------------
// reflection
// ---------------------------------------------------------------------------

// ArgInfo describes one argument of an MSL entry point.
type ArgInfo struct {
	Name      string
	Type      string   // type of the value, or of the referenced / pointed-to object
	Space     string   // address space of a reference / pointer argument ("device", "constant", "threadgroup", "thread"); "" for values
	Ref       bool     // declared with &
	Ptr       bool     // declared with *
	Const     bool     // reference / pointer to const (or constant address space)
	Attrs     []string // attributes as written: "buffer(0)", "thread_position_in_grid", "user(fake0)"
	Buffer    int      // n of [[buffer(n)]]; -1 if absent
	User      string   // name of [[user(name)]]; "" if absent
	Builtin   string   // attribute naming a built-in input; "" if none
	BlockName string   // key of this argument in Blocks() / RunConfig.BlockByName (= Name) for buffer arguments
	Texture   int      // n of [[texture(n)]]; -1 if absent
	Sampler   int      // n of [[sampler(n)]]; -1 if absent
}

// EntryInfo describes an MSL entry point.
type EntryInfo struct {
	Name  string
	Stage string // "kernel", "vertex", "fragment"
	Args  []ArgInfo
	// Unsupported is non-empty when the function (or a function it calls)
	// uses a valid construct that is not modelled: it cannot be run; Args is
	// empty when even its declaration was skipped.
	Unsupported string
}

// EntryPoints lists the entry points of an MSL program in source order (nil
// for other dialects).
func (p *Program) EntryPoints() []EntryInfo {
	if p.msl == nil {
		return nil
	}
	var out []EntryInfo
	for _, e := range p.msl.entries {
		ei := EntryInfo{Name: e.Fn.Name, Stage: e.Stage}
		for _, a := range e.Args {
			t := a.Param.T
			if a.Info.Ptr {
				t = t.Elem
			}
			ai := ArgInfo{Name: a.Param.Name, Type: mslTypeString(t), Ref: a.Info.Ref, Ptr: a.Info.Ptr, Const: a.Info.ConstTo && (a.Info.Ref || a.Info.Ptr),
				Buffer: -1, Texture: -1, Sampler: -1, User: a.User, Builtin: a.Builtin}
			if a.Info.Ref || a.Info.Ptr {
				ai.Space = a.Info.Space
			}
			for _, at := range a.Info.Attrs {
				ai.Attrs = append(ai.Attrs, at.String())
				switch at.Name {
				case "buffer":
					ai.Buffer = a.Index
				case "texture", "sampler":
					if len(at.Args) == 1 {
						if n, err := strconv.Atoi(at.Args[0]); err == nil {
							if at.Name == "texture" {
								ai.Texture = n
							} else {
								ai.Sampler = n
							}
						}
					}
				}
			}
			if a.Kind == argBuffer {
				ai.BlockName = a.Param.Name
			}
			ei.Args = append(ei.Args, ai)
		}
		if ue := p.mslUnsupportedReach(e.Fn); ue != nil {
			ei.Unsupported = ue.What
		}
		out = append(out, ei)
	}
	for _, sk := range p.msl.skippedList {
		if sk.Stage != "" {
			out = append(out, EntryInfo{Name: sk.Name, Stage: sk.Stage, Unsupported: sk.Err.What})
		}
	}
	return out
}

// UnsupportedFunctions lists (in source order) the functions of an MSL text
// that use a valid construct this front end does not model, as "name: reason".
// Parse succeeds for such a text; Run of a kernel that reaches one of them
// returns the *UnsupportedError.
func (p *Program) UnsupportedFunctions() []string {
	if p.msl == nil {
		return nil
	}
	type item struct {
		pos Pos
		s   string
	}
	var items []item
	for _, sk := range p.msl.skippedList {
		items = append(items, item{sk.Pos, sk.Name + ": " + sk.Err.What})
	}
	for fn, ue := range p.msl.unsupportedFn {
		items = append(items, item{fn.Pos, fn.Name + ": " + ue.What})
	}
	sort.Slice(items, func(i, j int) bool {
		a, b := items[i].pos, items[j].pos
		if a.Line != b.Line {
			return a.Line < b.Line
		}
		if a.Col != b.Col {
			return a.Col < b.Col
		}
		return items[i].s < items[j].s
	})
	var out []string
	for _, it := range items {
		out = append(out, it.s)
	}
	return out
}

// mslUnsupportedReach returns the reason why fn cannot be executed, if it or
// a function reachable from it was marked unsupported.
func (p *Program) mslUnsupportedReach(fn *Function) *UnsupportedError {
	seen := map[*Function]bool{}
	var visit func(f *Function) *UnsupportedError
	visit = func(f *Function) *UnsupportedError {
		if seen[f] {
			return nil
		}
		seen[f] = true
		if ue := p.msl.unsupportedFn[f]; ue != nil {
			return ue
		}
		cs := make([]*Function, 0, len(f.callees))
		for g := range f.callees {
			cs = append(cs, g)
		}
		sort.Slice(cs, func(i, j int) bool {
			a, b := cs[i].Pos, cs[j].Pos
			return a.Line < b.Line || (a.Line == b.Line && a.Col < b.Col)
		})
		for _, g := range cs {
			if ue := visit(g); ue != nil {
				return ue
			}
		}
		return nil
	}
	return visit(fn)
}

func mslMemberInfo(name string, t *Type, off int, l *TypeLayout) MemberInfo {
	mi := MemberInfo{Name: name, Type: mslTypeString(t), Offset: off, Size: l.Size, Align: l.Align}
	inner, il := t, l
	if t.Kind == KArray {
		mi.ArrayStride = l.Stride
		mi.ArrayLen = t.N
		if t.N < 0 {
			mi.Size = 0
		}
		for inner.Kind == KArray {
			inner, il = inner.Elem, il.Elem
		}
	}
	switch inner.Kind {
	case KMat:
		mi.MatrixStride = il.Stride
	case KStruct:
		for i, f := range inner.Struct.Fields {
			mi.Members = append(mi.Members, mslMemberInfo(f.Name, f.T, il.Fields[i].Off, il.Fields[i].L))
		}
	}
	return mi
}

// mslBlocks reports every device / constant buffer argument of every entry
// point: Name = argument name, Instance = entry point name, Class 'b'
// ([[buffer(n)]] index space), Binding = n (-1: no buffer attribute, e.g.
// [[user(fake0)]]), Space = address space, Layout "metal".  A struct pointee
// is reported member by member; any other pointee as one member named "".
func (p *Program) mslBlocks() []BlockInfo {
	var out []BlockInfo
	for _, e := range p.msl.entries {
		for _, a := range e.Args {
			if a.Kind != argBuffer {
				continue
			}
			b := a.Block
			bi := BlockInfo{Name: b.Name, Instance: b.Instance, Class: b.Class, Binding: b.Binding, Layout: b.Layout, Size: b.Size,
				ReadOnly: b.Quals.Readonly, Space: a.Info.Space}
			pointee := a.Param.T
			if a.Info.Ptr {
				pointee = pointee.Elem
			}
			bi.Type = mslTypeString(pointee)
			for _, m := range b.Members {
				bi.Members = append(bi.Members, mslMemberInfo(m.Name, m.T, m.Offset, m.Lay))
			}
			out = append(out, bi)
		}
	}
	return out
}

// ---------------------------------------------------------------------------
// Run
// ---------------------------------------------------------------------------

// mslRun executes a kernel.
//
// Binding of arguments (documented contract):
//
//   - `device T& x [[buffer(n)]]` / `constant T& x [[buffer(n)]]` (or the
//     pointer forms) receive cfg.Buffers[Slot{Class: 'b', Index: n}]; without a
//     buffer attribute (FakeMissingBindings: every argument is
//     [[user(fake0)]]; default options: the sizes argument has no attribute)
//     or when no such slot is bound, cfg.BlockByName[<argument name>] is used.
//   - the `constant _mslBufferSizes& _buffer_sizes` argument, when nothing is
//     bound to it explicitly, is synthesised: member `sizeN` receives the byte
//     length of the buffer designated by cfg.SizesFrom["sizeN"] (a slot) or
//     cfg.SizesFromName["sizeN"] (an argument name); a member without an entry
//     is poison (reading it is reported).
//   - value arguments carry the built-in attributes [[thread_position_in_grid]],
//     [[thread_position_in_threadgroup]], [[thread_index_in_threadgroup]],
//     [[threadgroup_position_in_grid]], [[threadgroups_per_grid]],
//     [[threads_per_threadgroup]], [[threads_per_grid]] (MSL §5.2.3.6 Table
//     5.8 "Attributes for kernel function input arguments").
//   - `threadgroup T& x [[threadgroup(n)]]` arguments and `threadgroup T x;`
//     locals of the kernel are storage shared by the threadgroup, initially
//     indeterminate.
func (p *Program) mslRun(cfg RunConfig) (res *RunResult, err error) {
	st := p.msl
	var entry *mslEntry
	for _, e := range st.entries {
		if e.Stage != "kernel" {
			continue
		}
		if cfg.Entry == "" {
			if entry != nil {
				return nil, fmt.Errorf("ctext: the MSL text has more than one kernel; set RunConfig.Entry")
			}
			entry = e
		} else if e.Fn.Name == cfg.Entry {
			entry = e
		}
	}
	if entry == nil {
		for _, sk := range st.skippedList {
			if sk.Stage == "kernel" && (cfg.Entry == "" || cfg.Entry == sk.Name) {
				return nil, sk.Err
			}
		}
		if cfg.Entry == "" {
			return nil, &UnsupportedError{Dialect: MSL, What: "Run of an MSL text without a kernel function"}
		}
		return nil, fmt.Errorf("ctext: no kernel %q", cfg.Entry)
	}
	if ue := p.mslUnsupportedReach(entry.Fn); ue != nil {
		return nil, ue
	}
	ls := cfg.LocalSize
	for i := range ls {
		if ls[i] == 0 {
			ls[i] = 1
		}
	}
	sh := newShared(p)
	sh.limit = cfg.StepLimit
	sh.numWG = cfg.NumWorkgroups
	total := int64(1)
	for i := 0; i < 3; i++ {
		total *= int64(cfg.NumWorkgroups[i]) * int64(ls[i])
		if total > maxInvocations {
			return nil, fmt.Errorf("ctext: more than %d invocations", maxInvocations)
		}
	}
	// bind buffers (sh.bufs is indexed by IfaceBlock.idx over all entry points)
	sh.bufs = make([]*boundBuf, len(p.blocks))
	for _, b := range p.blocks {
		sh.bufs[b.idx] = &boundBuf{blk: b}
	}
	bySlotOrName := func(a *mslArg) ([]byte, bool) {
		if a.Index >= 0 {
			if d, ok := cfg.Buffers[Slot{Class: 'b', Index: uint32(a.Index)}]; ok {
				return d, true
			}
		}
		d, ok := cfg.BlockByName[a.Param.Name]
		return d, ok
	}
	run := &mslRunState{p: p, entry: entry, ls: ls, cfg: cfg}
	for _, a := range entry.Args {
		switch a.Kind {
		case argBuffer:
			bb := sh.bufs[a.Block.idx]
			if d, ok := bySlotOrName(a); ok {
				bb.data, bb.bound = d, true
			}
		case argValue, argThreadgroup:
		default:
			return nil, &UnsupportedError{Dialect: MSL, Pos: a.Param.Pos, What: fmt.Sprintf("kernel argument %s of type %s cannot be bound by the interpreter", a.Param.Name, mslTypeString(a.Param.T))}
		}
	}
	// the _mslBufferSizes argument
	for _, a := range entry.Args {
		if a.Kind != argBuffer || a.Param.T != st.sizesStruct || st.sizesStruct == nil {
			continue
		}
		if sh.bufs[a.Block.idx].bound {
			continue
		}
		t := st.sizesStruct
		cells := make([]Cell, t.nsc)
		tmp := &evaluator{sh: sh}
		for i, f := range t.Struct.Fields {
			var n int
			found := false
			if s, ok := cfg.SizesFrom[f.Name]; ok {
				if d, ok := cfg.Buffers[s]; ok {
					n, found = len(d), true
				}
			}
			if name, ok := cfg.SizesFromName[f.Name]; ok && !found {
				if d, ok := cfg.BlockByName[name]; ok {
					n, found = len(d), true
				} else {
					for _, o := range entry.Args {
						if o.Kind == argBuffer && o.Param.Name == name && sh.bufs[o.Block.idx].bound {
							n, found = len(sh.bufs[o.Block.idx].data), true
						}
					}
				}
			}
			if found && f.T == tUint {
				cells[i] = u32Cell(uint32(n))
			} else {
				cells[i] = Cell{P: tmp.poison("member " + f.Name + " of _mslBufferSizes was not provided (RunConfig.SizesFrom / SizesFromName)")}
			}
		}
		run.sizesCells = cells
		run.sizesArg = a
	}
	res = &RunResult{}
	var runErr error
	func() {
		defer func() {
			if r := recover(); r != nil {
				switch t := r.(type) {
				case trapPanic:
					res.Trap = t.msg
				case stepPanic:
					runErr = ErrStepLimit
				default:
					panic(r)
				}
			}
		}()
		run.dispatch(sh, res)
	}()
	res.Steps = sh.steps
	res.Poison = sh.events
	res.Info = sh.infos
	res.Accesses = sh.accesses
	return res, runErr
}

type mslRunState struct {
	p          *Program
	entry      *mslEntry
	ls         [3]uint32
	cfg        RunConfig
	sizesCells []Cell
	sizesArg   *mslArg
}

func (rs *mslRunState) newInvocation(sh *shared, wg *workgroup, lid [3]uint32) *evaluator {
	ev := &evaluator{sh: sh, wg: wg, lid: lid}
	for i := 0; i < 3; i++ {
		ev.gid[i] = wg.id[i]*rs.ls[i] + lid[i]
	}
	ev.lidx = lid[2]*rs.ls[0]*rs.ls[1] + lid[1]*rs.ls[0] + lid[0]
	return ev
}

// fillVec stores the first components of a uint3 built-in into an argument of
// type uint / uint2 / uint3 (or the ushort forms), MSL Table 5.8.
func fillVec(ev *evaluator, slot []Cell, t *Type, v [3]uint32, what string) {
	sc := t.Scalar()
	if sc == nil || (sc != tUint && sc != tUshort) || t.Kind == KMat || len(slot) > 3 {
		ev.trap("unsupported: built-in argument [[%s]] of type %s", what, mslTypeString(t))
	}
	for i := range slot {
		x := v[i]
		if sc == tUshort {
			x &= 0xffff
		}
		slot[i] = u32Cell(x)
	}
}

func (rs *mslRunState) runEntry(ev *evaluator) {
	fn := rs.entry.Fn
	frame := make([]Cell, fn.FrameSize)
	pu := ev.poison(whyUninit)
	for i := range frame {
		frame[i].P = pu
	}
	ev.frame = frame
	ev.refs = make([]Ref, fn.RefCount)
	nw := ev.sh.numWG
	for _, a := range rs.entry.Args {
		p := a.Param
		switch a.Kind {
		case argValue:
			slot := frame[p.Sym.Slot : p.Sym.Slot+p.T.nsc]
			switch a.Builtin {
			case "thread_position_in_grid":
				fillVec(ev, slot, p.T, ev.gid, a.Builtin)
			case "thread_position_in_threadgroup":
				fillVec(ev, slot, p.T, ev.lid, a.Builtin)
			case "threadgroup_position_in_grid":
				fillVec(ev, slot, p.T, ev.wg.id, a.Builtin)
			case "threadgroups_per_grid":
				fillVec(ev, slot, p.T, nw, a.Builtin)
			case "threads_per_threadgroup", "dispatch_threads_per_threadgroup":
				fillVec(ev, slot, p.T, rs.ls, a.Builtin)
			case "threads_per_grid":
				fillVec(ev, slot, p.T, [3]uint32{nw[0] * rs.ls[0], nw[1] * rs.ls[1], nw[2] * rs.ls[2]}, a.Builtin)
			case "thread_index_in_threadgroup":
				if p.T != tUint && p.T != tUshort {
					ev.trap("unsupported: [[thread_index_in_threadgroup]] argument of type %s", mslTypeString(p.T))
				}
				slot[0] = u32Cell(ev.lidx)
			default:
				ev.trap("unsupported: built-in argument [[%s]]", a.Builtin)
			}
		case argBuffer:
			pointee := p.T
			if a.Info.Ptr {
				pointee = pointee.Elem
			}
			if a == rs.sizesArg {
				ev.refs[p.Sym.RefSlot] = Ref{T: pointee, cells: rs.sizesCells}
				continue
			}
			ev.refs[p.Sym.RefSlot] = Ref{T: pointee, buf: ev.sh.bufs[a.Block.idx], off: 0, lay: rs.p.lc.mslLayoutOf(pointee)}
		case argThreadgroup:
			pointee := p.T
			if a.Info.Ptr {
				pointee = pointee.Elem
			}
			ev.refs[p.Sym.RefSlot] = Ref{T: pointee, cells: ev.wg.shared[a.tgOff : a.tgOff+pointee.nsc]}
		}
	}
	if c := ev.execBlock(fn.Body); c == ctlDiscard {
		ev.trap("unsupported: discard")
	}
}

func (rs *mslRunState) dispatch(sh *shared, res *RunResult) {
	p := rs.p
	nw := rs.cfg.NumWorkgroups
	ls := rs.ls
	// pre-compute the layouts (the cache is not safe for concurrent writers,
	// and coroutines interleave)
	for _, a := range rs.entry.Args {
		if a.Kind == argBuffer {
			pointee := a.Param.T
			if a.Info.Ptr {
				pointee = pointee.Elem
			}
			p.lc.mslLayoutOf(pointee)
		}
	}
	var wgIDs [][3]uint32
	for z := uint32(0); z < nw[2]; z++ {
		for y := uint32(0); y < nw[1]; y++ {
			for x := uint32(0); x < nw[0]; x++ {
				wgIDs = append(wgIDs, [3]uint32{x, y, z})
			}
		}
	}
	var lids [][3]uint32
	for z := uint32(0); z < ls[2]; z++ {
		for y := uint32(0); y < ls[1]; y++ {
			for x := uint32(0); x < ls[0]; x++ {
				lids = append(lids, [3]uint32{x, y, z})
			}
		}
	}
	if rs.cfg.ReverseOrder {
		for i, j := 0, len(wgIDs)-1; i < j; i, j = i+1, j-1 {
			wgIDs[i], wgIDs[j] = wgIDs[j], wgIDs[i]
		}
		for i, j := 0, len(lids)-1; i < j; i, j = i+1, j-1 {
			lids[i], lids[j] = lids[j], lids[i]
		}
	}
	useCoroutines := rs.entry.Fn.hasBarrier
	for _, id := range wgIDs {
		wg := &workgroup{id: id, shared: make([]Cell, p.sharedSize)}
		if p.sharedSize > 0 {
			tmp := &evaluator{sh: sh}
			pu := tmp.poison(whyMSLTG)
			for i := range wg.shared {
				wg.shared[i].P = pu
			}
		}
		if !useCoroutines {
			for _, lid := range lids {
				ev := rs.newInvocation(sh, wg, lid)
				rs.runEntry(ev)
				res.Invocations++
			}
			continue
		}
		rs.runWorkgroupCoroutines(sh, wg, lids, res)
	}
}

func (rs *mslRunState) runWorkgroupCoroutines(sh *shared, wg *workgroup, lids [][3]uint32, res *RunResult) {
	invs := make([]*coInv, len(lids))
	for i, lid := range lids {
		ci := &coInv{ev: rs.newInvocation(sh, wg, lid)}
		seq := iter.Seq[struct{}](func(yield func(struct{}) bool) {
			ci.ev.yield = yield
			defer func() {
				if r := recover(); r != nil {
					if _, abort := r.(abortPanic); !abort {
						ci.pan = r
					}
				}
			}()
			rs.runEntry(ci.ev)
		})
		ci.next, ci.stop = iter.Pull(seq)
		invs[i] = ci
	}
	defer func() {
		for _, ci := range invs {
			ci.stop()
		}
	}()
	finished := 0
	for finished < len(invs) {
		waiting := 0
		for _, ci := range invs {
			if ci.done {
				continue
			}
			_, ok := ci.next()
			if ci.pan != nil {
				panic(ci.pan)
			}
			if ok {
				waiting++
			} else {
				ci.done = true
				finished++
				res.Invocations++
			}
		}
		if waiting > 0 && finished > 0 {
			// MSL §6.9.1 threadgroup_barrier: "all threads in a threadgroup
			// executing the kernel must execute this function before any
			// thread can continue"; a barrier in divergent control flow that
			// part of the threadgroup never reaches is undefined.
			panic(trapPanic{fmt.Sprintf("threadgroup_barrier reached by %d threads of threadgroup %v while %d threads had already finished (undefined: MSL §6.9.1)", waiting, wg.id, finished)})
		}
	}
}

// sortedSlots is used by tests and diagnostics.
func sortedSlots(m map[Slot][]byte) []Slot {
	ks := make([]Slot, 0, len(m))
	for k := range m {
		ks = append(ks, k)
	}
	sort.Slice(ks, func(i, j int) bool {
		if ks[i].Class != ks[j].Class {
			return ks[i].Class < ks[j].Class
		}
		return ks[i].Index < ks[j].Index
	})
	return ks
}

var _ = binary.LittleEndian
