package ctext

import "testing"

func BenchmarkInterpreterLoop(b *testing.B) {
	src := exprShader(hdr430, "", "  uint s = 0u; vec3 v = vec3(1.0);\n  for (uint i = 0u; i < 10000u; i++) { s += i * 3u + (i >> 2u); v = v * 1.0001 + vec3(0.5); if ((i & 1u) == 0u) { s ^= uv[0]; } }\n  o[0] = s + uint(v.x);\n", nil)
	p, err := Parse(GLSL, src)
	if err != nil {
		b.Fatal(err)
	}
	b.ResetTimer()
	var steps int64
	for n := 0; n < b.N; n++ {
		res, err := p.Run(RunConfig{Buffers: map[Slot][]byte{{Class: 's', Index: 0}: zeros(4), {Class: 's', Index: 1}: stdInputBuf()}, NumWorkgroups: [3]uint32{1, 1, 1}})
		if err != nil || res.Trap != "" {
			b.Fatal(err, res)
		}
		steps = res.Steps
	}
	b.ReportMetric(float64(steps), "steps/run")
}

func BenchmarkParse(b *testing.B) {
	src := exprShader(hdr430, "struct S { vec3 a; float b; };\nfloat f(S s, inout int k) { k++; return s.a.x * s.b; }\n", "  uint s = 0u; vec3 v = vec3(1.0);\n  for (uint i = 0u; i < 10000u; i++) { s += i * 3u + (i >> 2u); v = v * 1.0001 + vec3(0.5); if ((i & 1u) == 0u) { s ^= uv[0]; } }\n  int k = 0; o[0] = s + uint(f(S(v, 2.0), k));\n", nil)
	for n := 0; n < b.N; n++ {
		if _, err := Parse(GLSL, src); err != nil {
			b.Fatal(err)
		}
	}
}
