package ctext

import (
	"math"
	"math/bits"
)

// Shared numeric helper library (all dialects).
//
// Floating point model: IEEE-754 binary32, round-to-nearest-even for
// + - * / and conversions, subnormals preserved (no flush).  Every helper
// rounds through an explicit float32 conversion so that the Go compiler cannot
// fuse a multiply with an add (Go spec, "Floating-point operators").
// Transcendental functions are computed in float64 and rounded once to
// float32; target languages only give ULP bounds for them, callers must
// compare such results with a tolerance.

func fadd(a, b float32) float32 { return float32(a + b) }
func fsub(a, b float32) float32 { return float32(a - b) }
func fmul(a, b float32) float32 { return float32(a * b) }
func fdiv(a, b float32) float32 { return float32(a / b) }

// ffma returns the correctly rounded fused a*b+c in binary32.
func ffma(a, b, c float32) float32 {
	// p = a*b is exact in float64 (24+24 significant bits <= 53).  s = p+c is
	// rounded to float64 with exact error e (TwoSum).  Rounding s to binary32
	// equals rounding s+e unless s lies exactly on a binary32 half-way point,
	// in which case the sign of e decides.
	p := float64(a) * float64(b)
	s := p + float64(c)
	r := float32(s)
	if math.IsInf(s, 0) || math.IsNaN(s) || float64(r) == s {
		return r
	}
	bb := s - p
	e := (p - (s - bb)) + (float64(c) - bb)
	if e == 0 {
		return r
	}
	if float64(r) > s {
		lo := math.Nextafter32(r, float32(math.Inf(-1)))
		if s == (float64(lo)+float64(r))/2 && e < 0 {
			return lo
		}
	} else {
		hi := math.Nextafter32(r, float32(math.Inf(1)))
		if s == (float64(r)+float64(hi))/2 && e > 0 {
			return hi
		}
	}
	return r
}

// f64to32 rounds a float64 result of a transcendental to binary32.
func f64to32(x float64) float32 { return float32(x) }

func isNaN32(f float32) bool { return f != f }
func isInf32(f float32) bool { return f > math.MaxFloat32 || f < -math.MaxFloat32 }

// ftoi converts float to int32 truncating toward zero; ok=false when the
// value is NaN, infinite or out of range.
func ftoi(f float32) (int32, bool) {
	if isNaN32(f) || isInf32(f) {
		return 0, false
	}
	t := math.Trunc(float64(f))
	if t < -2147483648 || t > 2147483647 {
		return 0, false
	}
	return int32(t), true
}

// ftou converts float to uint32 truncating toward zero; ok=false when the
// value is NaN, infinite, negative (after truncation < 0) or out of range.
func ftou(f float32) (uint32, bool) {
	if isNaN32(f) || isInf32(f) {
		return 0, false
	}
	t := math.Trunc(float64(f))
	if t < 0 || t > 4294967295 {
		return 0, false
	}
	if t == 0 && math.Signbit(float64(f)) && f != 0 {
		// e.g. -0.5 truncates to -0: a negative input; GLSL: "undefined to
		// convert a negative floating-point value to an uint".
		return 0, false
	}
	return uint32(t), true
}

// itof / utof: correctly rounded (RNE) integer to float conversions.
func itof(i int32) float32  { return float32(i) }
func utof(u uint32) float32 { return float32(u) }

// roundEven32 rounds to nearest, ties to even.
func roundEven32(f float32) float32 { return float32(math.RoundToEven(float64(f))) }

// isTie reports whether f is exactly half-way between two integers.
func isTie(f float32) bool {
	if isNaN32(f) || isInf32(f) {
		return false
	}
	fl := math.Floor(float64(f))
	return float64(f)-fl == 0.5
}

// ---- half precision -------------------------------------------------------

// f32ToF16 converts to IEEE binary16 with round-to-nearest-even; exact reports
// whether the conversion was exact (and in range).
func f32ToF16(f float32) (h uint16, exact bool) {
	b := math.Float32bits(f)
	sign := uint16(b>>16) & 0x8000
	exp := int((b >> 23) & 0xff)
	man := b & 0x7fffff
	switch {
	case exp == 0xff: // inf / nan
		if man != 0 {
			return sign | 0x7e00, true
		}
		return sign | 0x7c00, true
	case exp == 0 && man == 0:
		return sign, true
	}
	e := exp - 127 + 15
	if e >= 31 {
		return sign | 0x7c00, false // overflow to infinity
	}
	if e <= 0 {
		// subnormal half (or underflow to zero)
		if e < -10 {
			return sign, false
		}
		m := man | 0x800000
		shift := uint(14 - e)
		hm := m >> shift
		rem := m & ((1 << shift) - 1)
		half := uint32(1) << (shift - 1)
		ex := rem == 0
		if rem > half || (rem == half && hm&1 == 1) {
			hm++
		}
		return sign | uint16(hm), ex
	}
	hm := man >> 13
	rem := man & 0x1fff
	ex := rem == 0
	r := uint32(e)<<10 | hm
	if rem > 0x1000 || (rem == 0x1000 && hm&1 == 1) {
		r++ // may carry into the exponent (and to infinity), which is correct
	}
	if r >= 0x7c00 {
		return sign | 0x7c00, false
	}
	return sign | uint16(r), ex
}

// f16ToF32 converts IEEE binary16 to binary32 (always exact).
func f16ToF32(h uint16) float32 {
	sign := uint32(h&0x8000) << 16
	exp := uint32(h>>10) & 0x1f
	man := uint32(h & 0x3ff)
	switch {
	case exp == 0:
		if man == 0 {
			return math.Float32frombits(sign)
		}
		// subnormal: man * 2^-24
		f := float32(man) * float32(math.Ldexp(1, -24))
		if sign != 0 {
			f = -f
		}
		return f
	case exp == 31:
		if man == 0 {
			return math.Float32frombits(sign | 0x7f800000)
		}
		return math.Float32frombits(sign | 0x7fc00000 | man<<13)
	}
	return math.Float32frombits(sign | (exp+112)<<23 | man<<13)
}

// ---- bit operations ---------------------------------------------------------

func bitCount32(u uint32) int32    { return int32(bits.OnesCount32(u)) }
func bitReverse32(u uint32) uint32 { return bits.Reverse32(u) }

// findLSB32: bit number of the least significant 1 bit; -1 for 0.
func findLSB32(u uint32) int32 {
	if u == 0 {
		return -1
	}
	return int32(bits.TrailingZeros32(u))
}

// findMSBu: bit number of the most significant 1 bit; -1 for 0.
func findMSBu(u uint32) int32 {
	if u == 0 {
		return -1
	}
	return int32(31 - bits.LeadingZeros32(u))
}

// findMSBi: for positive: most significant 1 bit; for negative: most
// significant 0 bit; -1 for 0 and -1.
func findMSBi(i int32) int32 {
	if i >= 0 {
		return findMSBu(uint32(i))
	}
	return findMSBu(^uint32(i))
}

// bitfieldExtractU / I: ok=false when offset or bits is negative or
// offset+bits > 32 (result undefined in GLSL / HLSL / MSL alike).
func bitfieldExtractU(v uint32, offset, nbits int32) (uint32, bool) {
	if offset < 0 || nbits < 0 || int64(offset)+int64(nbits) > 32 {
		return 0, false
	}
	if nbits == 0 {
		return 0, true
	}
	if nbits == 32 {
		return v, true
	}
	return (v >> uint(offset)) & (uint32(1)<<uint(nbits) - 1), true
}

func bitfieldExtractI(v int32, offset, nbits int32) (int32, bool) {
	u, ok := bitfieldExtractU(uint32(v), offset, nbits)
	if !ok {
		return 0, false
	}
	if nbits == 0 || nbits == 32 {
		return int32(u), true
	}
	sh := uint(32 - nbits)
	return int32(u<<sh) >> sh, true
}

func bitfieldInsert32(base, insert uint32, offset, nbits int32) (uint32, bool) {
	if offset < 0 || nbits < 0 || int64(offset)+int64(nbits) > 32 {
		return 0, false
	}
	if nbits == 0 {
		return base, true
	}
	var mask uint32
	if nbits == 32 {
		mask = 0xffffffff
	} else {
		mask = (uint32(1)<<uint(nbits) - 1) << uint(offset)
	}
	return (base &^ mask) | ((insert << uint(offset)) & mask), true
}

// ---- normalised packing -------------------------------------------------------

// packNorm converts one component: round(clamp(c, lo, 1) * scale).  tie
// reports that the product is exactly half-way between two integers (the
// rounding direction of GLSL round() is implementation-defined); nan reports
// a NaN input (clamp of NaN is undefined).
func packNorm(c float32, lo float32, scale float32) (v int32, tie, nan bool) {
	if isNaN32(c) {
		return 0, false, true
	}
	if c < lo {
		c = lo
	}
	if c > 1 {
		c = 1
	}
	p := fmul(c, scale)
	if isTie(p) {
		return int32(math.RoundToEven(float64(p))), true, false
	}
	return int32(math.Floor(float64(p) + 0.5)), false, false
}

func clampf(x, lo, hi float32) float32 {
	if x < lo {
		return lo
	}
	if x > hi {
		return hi
	}
	return x
}
