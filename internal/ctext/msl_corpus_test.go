package ctext

import (
	"errors"
	"fmt"
	"os"
	"path/filepath"
	"sort"
	"strings"
	"testing"

	"github.com/gogpu/naga"
	"github.com/gogpu/naga/ir"
	"github.com/gogpu/naga/msl"
)

// forEachCorpusKernel compiles every compute entry point of the naga snapshot
// corpus to MSL (one text per entry point, selected with PipelineOptions) and
// calls f with the result.
func forEachCorpusKernel(t *testing.T, opts msl.Options, f func(file, entry, txt string, err error)) (files, skippedFront int) {
	t.Helper()
	paths, _ := filepath.Glob("/repo/snapshot/testdata/in/*.wgsl")
	if len(paths) == 0 {
		t.Skip("corpus not found")
	}
	sort.Strings(paths)
	for _, path := range paths {
		b, err := os.ReadFile(path)
		if err != nil {
			t.Fatal(err)
		}
		src := string(b)
		var m *ir.Module
		func() {
			defer func() {
				if r := recover(); r != nil {
					m = nil
				}
			}()
			ast, err := naga.Parse(src)
			if err != nil {
				return
			}
			m, err = naga.LowerWithSource(ast, src)
			if err != nil {
				m = nil
			}
		}()
		if m == nil {
			skippedFront++
			continue
		}
		for _, ep := range m.EntryPoints {
			if ep.Stage != ir.StageCompute {
				continue
			}
			var txt string
			var cerr error
			func() {
				defer func() {
					if r := recover(); r != nil {
						cerr = fmt.Errorf("panic: %v", r)
					}
				}()
				txt, _, cerr = msl.CompileWithPipeline(m, opts, msl.PipelineOptions{EntryPoint: &msl.EntryPointSelector{Stage: ir.StageCompute, Name: ep.Name}})
			}()
			f(filepath.Base(path), ep.Name, txt, cerr)
		}
	}
	return len(paths), skippedFront
}

// TestCorpusParsesMSL compiles every compute entry point of the naga snapshot
// corpus to MSL under several option sets and requires that the text parses
// as MSL.  Statistics are printed with -v.  InvalidErrors are compared
// against the triaged list.
func TestCorpusParsesMSL(t *testing.T) {
	type result struct {
		file, entry, cfg string
		err              error
	}
	var results []result
	runStats := map[string]int{}
	backendRejected := 0
	var nfiles, skippedFront int
	for _, mc := range mslConfigs {
		opts := mc.opts
		if mc.binding == "map" {
			opts.FakeMissingBindings = true // no per-entry map for the corpus: every binding is "missing"
		}
		nfiles, skippedFront = forEachCorpusKernel(t, opts, func(file, entry, txt string, err error) {
			if err != nil {
				backendRejected++
				return
			}
			prog, perr := Parse(MSL, txt)
			if perr == nil {
				// functions with unmodelled constructs are isolated: Parse
				// succeeds, running the kernel reports the reason
				for _, e := range prog.EntryPoints() {
					if e.Stage == "kernel" && e.Unsupported != "" {
						perr = &UnsupportedError{Dialect: MSL, What: e.Unsupported}
					}
				}
			}
			results = append(results, result{file, entry, mc.name, perr})
			if prog == nil || perr != nil {
				return
			}
			// smoke run over zero-filled buffers: must never panic
			cfg := RunConfig{NumWorkgroups: [3]uint32{1, 1, 1}, LocalSize: [3]uint32{2, 1, 1}, StepLimit: 300000, BlockByName: map[string][]byte{}, Buffers: map[Slot][]byte{}}
			for _, e := range prog.EntryPoints() {
				if e.Stage != "kernel" {
					continue
				}
				cfg.Entry = e.Name
				for _, a := range e.Args {
					if a.BlockName != "" && a.Type != "_mslBufferSizes" {
						cfg.BlockByName[a.Name] = make([]byte, 1024)
					}
				}
			}
			res, rerr := prog.Run(cfg)
			switch {
			case rerr != nil:
				runStats["error: "+firstWords(rerr.Error(), 4)]++
			case res.Trap != "":
				runStats["trap: "+firstWords(res.Trap, 4)]++
				if testing.Verbose() {
					t.Logf("    trap in %s:%s [%s]: %s", file, entry, mc.name, res.Trap)
				}
			case len(res.Poison) > 0:
				runStats["poison"]++
				if testing.Verbose() && mc.name == mslConfigs[1].name {
					t.Logf("    poison in %s:%s: %s", file, entry, res.Poison[0])
				}
			default:
				runStats["clean"]++
			}
		})
	}
	ok, unsup, invalid := 0, 0, 0
	unsupWhat := map[string]int{}
	invalidByMsg := map[string][]string{}
	for _, r := range results {
		var ie *InvalidError
		var ue *UnsupportedError
		switch {
		case r.err == nil:
			ok++
		case errors.As(r.err, &ue):
			unsup++
			unsupWhat[ue.What]++
		case errors.As(r.err, &ie):
			invalid++
			key := ie.Code + ": " + ie.Msg
			invalidByMsg[key] = append(invalidByMsg[key], r.file+":"+r.entry+":"+r.cfg)
		default:
			t.Errorf("%s %s %s: unexpected error type %v", r.file, r.entry, r.cfg, r.err)
		}
	}
	t.Logf("corpus: %d files, %d skipped by naga front end, %d (entry,config) rejected by the MSL backend", nfiles, skippedFront, backendRejected)
	t.Logf("parsed %d texts: ok %d, unsupported %d, invalid %d", len(results), ok, unsup, invalid)
	for _, k := range sortedKeys(unsupWhat) {
		t.Logf("  unsupported x%d: %s", unsupWhat[k], k)
	}
	for _, k := range sortedKeys(runStats) {
		t.Logf("  smoke run x%d: %s", runStats[k], k)
	}
	untriaged := 0
	for _, k := range sortedKeys(invalidByMsg) {
		where := invalidByMsg[k]
		known := false
		for _, pat := range triagedNagaMSLDefects {
			if strings.Contains(k, pat) {
				known = true
			}
		}
		tag := "UNTRIAGED"
		if known {
			tag = "naga defect"
		} else {
			untriaged += len(where)
		}
		t.Logf("  invalid [%s] x%d: %s   e.g. %s", tag, len(where), k, where[0])
	}
	if untriaged > 0 {
		t.Errorf("%d corpus texts fail to parse with an untriaged InvalidError", untriaged)
	}
	// textures, ray queries, 64-bit integers and atomics make up the bulk of
	// the unsupported corpus texts (they are a large share of the compute
	// entry points of the snapshot corpus)
	if len(results) > 0 && unsup*4 > len(results) {
		t.Errorf("more than 25%% of the corpus is unsupported (%d of %d)", unsup, len(results))
	}
}

// triagedNagaMSLDefects: substrings of InvalidError messages on corpus
// outputs that were examined by hand and are defects of the generated MSL.
var triagedNagaMSLDefects = []string{
	// f64: "constant double MIN_F64_ = ..." / "naga_f2i32(double value)": MSL has no double type (§2.1)
	`MSL has no type "double"`,
	// ReadZeroSkipWrite index check written inside the operand of '&':
	// "naga_atomic_compare_exchange_weak_explicit(&uint(_e20) < 128 ? arr.inner[_e20] : DefaultConstructible(), ..."
	"cannot take the address of an rvalue of type uint",
	// ReadZeroSkipWrite load "c ? x : DefaultConstructible()" emitted without parentheses as an operand:
	// "a * uint(i) < 4 ? v[i] : DefaultConstructible()"
	"with a DefaultConstructible operand is ambiguous",
	// golden 7048-multiple-dynamic-2.msl: WGSL "(val_0 * val_1).xxyy" is written
	// "val_0_ * val_1_.xxyy": the swizzle applies to the right operand only (float2 * float4)
	"operator * cannot be applied to float2 and float4",
	// golden mesh-shader.msl: the task function "ts_main" uses the task payload variable
	// "taskPayload", which is declared nowhere in the text
	`undeclared identifier "taskPayload"`,
}

// TestGoldenMSLParses parses every MSL golden file of naga's snapshot suite
// (all stages, the option sets of the snapshot configuration).  It is a
// parser-coverage test: InvalidErrors must be in the triaged list.
func TestGoldenMSLParses(t *testing.T) {
	paths, _ := filepath.Glob("/repo/snapshot/testdata/golden/msl/*.msl")
	if len(paths) == 0 {
		t.Skip("goldens not found")
	}
	sort.Strings(paths)
	ok, unsupTexts, invalid := 0, 0, 0
	unsupWhat := map[string]int{}
	invalidByMsg := map[string][]string{}
	entries, entriesUnsup := 0, 0
	for _, path := range paths {
		b, err := os.ReadFile(path)
		if err != nil {
			t.Fatal(err)
		}
		prog, perr := Parse(MSL, string(b))
		var ie *InvalidError
		var ue *UnsupportedError
		switch {
		case perr == nil:
			ok++
			for _, e := range prog.EntryPoints() {
				entries++
				if e.Unsupported != "" {
					entriesUnsup++
				}
			}
			for _, u := range prog.UnsupportedFunctions() {
				unsupWhat[u[strings.Index(u, ": ")+2:]]++
			}
		case errors.As(perr, &ue):
			unsupTexts++
			unsupWhat["(whole text) "+ue.What]++
		case errors.As(perr, &ie):
			invalid++
			key := ie.Code + ": " + ie.Msg
			invalidByMsg[key] = append(invalidByMsg[key], filepath.Base(path))
		default:
			t.Errorf("%s: unexpected error type %v", path, perr)
		}
	}
	t.Logf("goldens: %d texts: parsed %d, unsupported as a whole %d, invalid %d; %d entry points, %d of them not runnable", len(paths), ok, unsupTexts, invalid, entries, entriesUnsup)
	for _, k := range sortedKeys(unsupWhat) {
		t.Logf("  unsupported x%d: %s", unsupWhat[k], k)
	}
	untriaged := 0
	for _, k := range sortedKeys(invalidByMsg) {
		where := invalidByMsg[k]
		known := false
		for _, pat := range triagedNagaMSLDefects {
			if strings.Contains(k, pat) {
				known = true
			}
		}
		tag := "UNTRIAGED"
		if known {
			tag = "naga defect"
		} else {
			untriaged += len(where)
		}
		t.Logf("  invalid [%s] x%d: %s   e.g. %s", tag, len(where), k, where[0])
	}
	if untriaged > 0 {
		t.Errorf("%d golden texts fail to parse with an untriaged InvalidError", untriaged)
	}
}
