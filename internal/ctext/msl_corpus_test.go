package ctext

import (
	"fmt"
	"os"
	"path/filepath"
	"sort"
	"testing"

	"github.com/gogpu/naga"
	"github.com/gogpu/naga/ir"
	"github.com/gogpu/naga/msl"
)

// forEachCorpusKernel compiles every compute entry point of the naga snapshot
// corpus to MSL (one text per entry point, selected with PipelineOptions) and
// calls f with the result.
func forEachCorpusKernel(t *testing.T, opts msl.Options, f func(file, entry, txt string, err error)) (files, skippedFront int) {
	t.Helper()
	paths, _ := filepath.Glob("/repo/snapshot/testdata/in/*.wgsl")
	if len(paths) == 0 {
		t.Skip("corpus not found")
	}
	sort.Strings(paths)
	for _, path := range paths {
		b, err := os.ReadFile(path)
		if err != nil {
			t.Fatal(err)
		}
		src := string(b)
		var m *ir.Module
		func() {
			defer func() {
				if r := recover(); r != nil {
					m = nil
				}
			}()
			ast, err := naga.Parse(src)
			if err != nil {
				return
			}
			m, err = naga.LowerWithSource(ast, src)
			if err != nil {
				m = nil
			}
		}()
		if m == nil {
			skippedFront++
			continue
		}
		for _, ep := range m.EntryPoints {
			if ep.Stage != ir.StageCompute {
				continue
			}
			var txt string
			var cerr error
			func() {
				defer func() {
					if r := recover(); r != nil {
						cerr = fmt.Errorf("panic: %v", r)
					}
				}()
				txt, _, cerr = msl.CompileWithPipeline(m, opts, msl.PipelineOptions{EntryPoint: &msl.EntryPointSelector{Stage: ir.StageCompute, Name: ep.Name}})
			}()
			f(filepath.Base(path), ep.Name, txt, cerr)
		}
	}
	return len(paths), skippedFront
}
