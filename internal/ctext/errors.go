package ctext

import (
	"errors"
	"fmt"
)

// Pos is a 1-based source position.
type Pos struct{ Line, Col int }

func (p Pos) String() string { return fmt.Sprintf("%d:%d", p.Line, p.Col) }

// InvalidError reports that the text is NOT valid in the target language
// (syntax error, undeclared identifier, no matching overload, assignment to
// a non-l-value, keyword used as identifier ...).  It is a finding about the
// producer of the text.
type InvalidError struct {
	Dialect Dialect
	Pos     Pos
	Code    string // short stable class, e.g. "syntax", "undeclared", "no-overload", "type", "lvalue", "keyword", "reserved", "redeclared", "version"
	Msg     string
}

func (e *InvalidError) Error() string {
	return fmt.Sprintf("invalid %s at %s [%s]: %s", e.Dialect, e.Pos, e.Code, e.Msg)
}

// UnsupportedError reports valid target code that this front end does not
// model (yet).  Never a violation.
type UnsupportedError struct {
	Dialect Dialect
	Pos     Pos
	What    string
}

func (e *UnsupportedError) Error() string {
	return fmt.Sprintf("unsupported %s at %s: %s", e.Dialect, e.Pos, e.What)
}

// ErrStepLimit is returned by Run when RunConfig.StepLimit is exhausted.
var ErrStepLimit = errors.New("ctext: step limit exceeded")

// Dialect selects the target language.
type Dialect int

const (
	GLSL Dialect = iota
	MSL
	HLSL
)

func (d Dialect) String() string {
	switch d {
	case GLSL:
		return "GLSL"
	case MSL:
		return "MSL"
	case HLSL:
		return "HLSL"
	}
	return fmt.Sprintf("Dialect(%d)", int(d))
}

// bail is the panic payload used inside the front end; Parse recovers it.
type bail struct{ err error }

func (p Pos) invalid(d Dialect, code, format string, a ...any) {
	panic(bail{&InvalidError{Dialect: d, Pos: p, Code: code, Msg: fmt.Sprintf(format, a...)}})
}

func (p Pos) unsupported(d Dialect, format string, a ...any) {
	panic(bail{&UnsupportedError{Dialect: d, Pos: p, What: fmt.Sprintf(format, a...)}})
}
