package ctext

import (
	"strings"
	"testing"
)

// Every poison / trap rule of the HLSL dialect, one case each.

func TestHLSLPoisonRules(t *testing.T) {
	cases := []struct {
		name, decls, pre, expr string
		want                   string // substring of the poison report
	}{
		{"int div by zero", "", "", "asuint(iv.x / iv.z)", "division or modulus by zero"},
		{"uint div by zero", "", "", "uv.x / uv.z", "division or modulus by zero"},
		{"int mod by zero", "", "", "asuint(iv.x % iv.z)", "division or modulus by zero"},
		{"uint mod by zero", "", "", "uv.x % uv.z", "division or modulus by zero"},
		{"INT_MIN / -1", "", "", "asuint(iv.w / (iv.z - 1))", "INT_MIN / -1"},
		{"INT_MIN % -1", "", "", "asuint(iv.w % (iv.z - 1))", "INT_MIN / -1"},
		{"float to int out of range", "", "", "asuint(int(fv.w))", "floating-point value to int"},
		{"float to uint negative", "", "", "uint(fv.y)", "floating-point value to uint"},
		{"float to uint out of range", "", "", "uint(fv.w)", "floating-point value to uint"},
		{"NaN to int", "", "", "asuint((int)sqrt(fv.y))", "floating-point value to int"},
		{"implicit float to int out of range", "", "  int k = fv.w;\n", "asuint(k)", "floating-point value to int"},
		{"uninitialised local", "", "  uint q;\n", "q", "never written"},
		{"partially initialised array", "", "  uint q[2]; q[0] = 1u;\n", "q[1]", "never written"},
		{"uninitialised struct member", "struct S { uint a; uint b; };", "  S s; s.a = 1u;\n", "s.b", "never written"},
		{"out parameter never written", "void g(out uint a) { }", "  uint q = 1u; g(q);\n", "q", "out parameter"},
		{"out parameter read before write", "uint g(out uint a) { uint r = a; a = 1u; return r; }", "  uint q = 7u;\n", "g(q)", "out parameter"},
		{"missing return value", "uint g(uint a) { if (a > 100u) { return 1u; } }", "", "g(uv.x)", "without returning a value"},
		{"groupshared never written", "groupshared uint gs[4];", "", "gs[1]", "groupshared variable that was never written"},
		{"pow(0, 0)", "", "", "asuint(pow(fv.z, fv.z))", "pow(0, 0)"},
		{"atan2(0, 0)", "", "", "asuint(atan2(fv.z, fv.z))", "atan2(0, 0)"},
		{"frexp of infinity", "", "  float e;\n", "asuint(frexp(fv.w * fv.w * fv.w * fv.w, e))", "frexp"},
		{"misaligned load", "", "", "inp.Load(2)", "not a multiple of 4"},
	}
	for _, c := range cases {
		t.Run(c.name, func(t *testing.T) {
			_, res := hlslEval(t, c.decls, c.pre, []string{c.expr})
			if res.Trap != "" {
				t.Fatalf("unexpected trap: %s", res.Trap)
			}
			if len(res.Poison) == 0 || !strings.Contains(strings.Join(res.Poison, "; "), c.want) {
				t.Errorf("poison = %v, want %q", res.Poison, c.want)
			}
		})
	}
}

func TestHLSLPoisonNotObservedWhenUnused(t *testing.T) {
	// an undefined value that does not reach an observable use is not reported
	pre := "  uint dead = uv.x / uv.z;\n  uint sel = (uv.z == 0u) ? 5u : (uv.x / uv.z);\n  bool both = (uv.z != 0u) && ((uv.x / uv.z) > 1u);\n"
	w, res := hlslEval(t, "", pre, []string{"uv.x", "sel", "uint(both)"})
	clean(t, res)
	wantW(t, w, uint32(7), uint32(5), uint32(0))
}

func TestHLSLPoisonObservedUses(t *testing.T) {
	for name, body := range map[string]string{
		"if":      "uint q; if (q > 1u) { o.Store(0, 1u); }",
		"while":   "uint q; while (q > 1u) { break; }",
		"switch":  "int q; switch (q) { case 0: { break; } default: { break; } }",
		"index":   "uint q; uint a[2] = { 1u, 2u }; o.Store(0, a[q & 1u]);",
		"address": "uint q; o.Store(q, 1u);",
		"ternary": "bool q; o.Store(0, q ? 1u : 2u);",
		"atomic":  "uint q; o.InterlockedAdd(0, q);",
	} {
		src := "RWByteAddressBuffer o : register(u0);\n[numthreads(1,1,1)]\nvoid main() { " + body + " }\n"
		res := runHLSLSrc(t, src, map[Slot][]byte{{Class: 'u', Index: 0}: zeros(16)}, [3]uint32{1, 1, 1})
		if len(res.Poison) == 0 {
			t.Errorf("%s: poison not observed (trap %q)", name, res.Trap)
		}
	}
}

func TestHLSLTraps(t *testing.T) {
	cases := []struct{ name, decls, pre, expr, want string }{
		{"array index", "", "  uint a[3] = { 1u, 2u, 3u };\n", "a[uv.x]", "index 7 out of range"},
		{"negative array index", "", "  uint a[3] = { 1u, 2u, 3u };\n", "a[iv.y]", "index -7 out of range"},
		{"vector index", "", "", "uv[uv.w]", "index 32 out of range"},
		{"matrix row index", "", "  float2x3 m = float2x3(1, 2, 3, 4, 5, 6);\n", "asuint(m[uv.x - 5u].x)", "index 2 out of range"},
		{"matrix column index", "", "  float2x3 m = float2x3(1, 2, 3, 4, 5, 6);\n", "asuint(m[1][uv.x - 4u])", "index 3 out of range"},
		{"groupshared array", "groupshared uint gs[4];", "  gs[0] = 1u;\n", "gs[uv.x]", "index 7 out of range"},
		{"array store", "", "  uint a[3] = { 1u, 2u, 3u }; a[uv.x] = 1u;\n", "a[0]", "index 7 out of range"},
		{"cbuffer-less static array", "static const uint K[2] = { 1u, 2u };", "", "K[uv.x]", "index 7 out of range"},
	}
	for _, c := range cases {
		t.Run(c.name, func(t *testing.T) {
			_, res := hlslEval(t, c.decls, c.pre, []string{c.expr})
			if !strings.Contains(res.Trap, c.want) {
				t.Errorf("trap = %q (poison %v), want %q", res.Trap, res.Poison, c.want)
			}
		})
	}
	// constant index out of range is a compile-time error (FXC X3504 / X3030)
	src := hlslExprShader("", "  uint a[3] = { 1u, 2u, 3u };\n", []string{"a[3]"})
	if code, err := hlslParseErr(src); code != "index" {
		t.Errorf("constant out-of-range index: %q %v", code, err)
	}
	// constant buffer smaller than its declaration
	cb := "cbuffer C : register(b2) { float4 a; uint k; }\nRWByteAddressBuffer o : register(u0);\n[numthreads(1,1,1)]\nvoid main() { o.Store(0, k); }\n"
	res := runHLSLSrc(t, cb, map[Slot][]byte{{Class: 'u', Index: 0}: zeros(4), {Class: 'b', Index: 2}: zeros(16)}, [3]uint32{1, 1, 1})
	if !strings.Contains(res.Trap, "outside the 16 bytes") {
		t.Errorf("short cbuffer: trap %q", res.Trap)
	}
}

func TestHLSLInfoCounters(t *testing.T) {
	_, res := hlslEval(t, "", "", []string{"1u << 33u", "asuint(iv.y % 3)", "f32tof16(0.1)", "asuint(mad(fv.x, 0.1, 0.7))", "asuint(faceforward(float2(1, 2), float2(1, 0), float2(0, 1)).x)"})
	clean(t, res)
	for _, k := range []string{"hlsl.shift.masked", "hlsl.mod.mixed-sign", "f32tof16.inexact", "hlsl.faceforward.zero-dot"} {
		if res.Info[k] == 0 {
			t.Errorf("counter %s not incremented: %v", k, res.Info)
		}
	}
}

func TestHLSLStepLimit(t *testing.T) {
	src := "RWByteAddressBuffer o : register(u0);\n[numthreads(1,1,1)]\nvoid main() { uint i = 0u; while (true) { i++; } }\n"
	p := mustParseHLSL(t, src)
	_, err := p.Run(RunConfig{Buffers: map[Slot][]byte{{Class: 'u', Index: 0}: zeros(4)}, NumWorkgroups: [3]uint32{1, 1, 1}, StepLimit: 10000})
	if err != ErrStepLimit {
		t.Errorf("err = %v", err)
	}
}
