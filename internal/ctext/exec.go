package ctext

import (
	"fmt"
	"iter"
	"sort"
)

type ctl uint8

const (
	ctlNone ctl = iota
	ctlBreak
	ctlContinue
	ctlReturn
	ctlDiscard
)

func (ev *evaluator) execBlock(b *BlockStmt) ctl {
	for _, s := range b.Stmts {
		if c := ev.exec(s); c != ctlNone {
			return c
		}
	}
	return ctlNone
}

func (ev *evaluator) cond(e Expr, what string) bool {
	v := ev.eval(e)
	if v.C[0].P != 0 {
		ev.observe(v.C[0].P, "undefined value used as "+what+" condition", e.base().Pos)
	}
	return v.C[0].Bool()
}

func (ev *evaluator) exec(s Stmt) ctl {
	ev.step()
	switch x := s.(type) {
	case *BlockStmt:
		return ev.execBlock(x)
	case *DeclStmt:
		for _, v := range x.Vars {
			if v.Sym.Kind != SymLocal {
				continue // declared by a dialect hook as something else (MSL threadgroup local)
			}
			slot := ev.frame[v.Sym.Slot : v.Sym.Slot+v.T.nsc]
			if v.Init != nil {
				val := ev.eval(v.Init)
				copy(slot, val.C)
			} else {
				p := ev.poison(whyUninit)
				for i := range slot {
					slot[i] = Cell{P: p}
				}
			}
		}
	case *ExprStmt:
		if x.X != nil {
			ev.eval(x.X)
		}
	case *IfStmt:
		if ev.cond(x.Cond, "an if") {
			return ev.exec(x.Then)
		} else if x.Else != nil {
			return ev.exec(x.Else)
		}
	case *WhileStmt:
		for ev.cond(x.Cond, "a while") {
			switch ev.exec(x.Body) {
			case ctlBreak:
				return ctlNone
			case ctlReturn:
				return ctlReturn
			case ctlDiscard:
				return ctlDiscard
			}
		}
	case *DoWhileStmt:
		for {
			switch ev.exec(x.Body) {
			case ctlBreak:
				return ctlNone
			case ctlReturn:
				return ctlReturn
			case ctlDiscard:
				return ctlDiscard
			}
			if !ev.cond(x.Cond, "a do-while") {
				break
			}
		}
	case *ForStmt:
		if x.Init != nil {
			ev.exec(x.Init)
		}
		for x.Cond == nil || ev.cond(x.Cond, "a for") {
			switch ev.exec(x.Body) {
			case ctlBreak:
				return ctlNone
			case ctlReturn:
				return ctlReturn
			case ctlDiscard:
				return ctlDiscard
			}
			if x.Post != nil {
				ev.eval(x.Post)
			}
			ev.step()
		}
	case *SwitchStmt:
		v := ev.eval(x.X)
		if v.C[0].P != 0 {
			ev.observe(v.C[0].P, "undefined value used as a switch selector", x.Pos)
		}
		start, ok := x.cases[v.C[0].B]
		if !ok {
			start = x.defaultIdx
		}
		if start < 0 {
			return ctlNone
		}
		for i := start; i < len(x.Body); i++ {
			if _, isLabel := x.Body[i].(*CaseLabel); isLabel {
				continue
			}
			switch ev.exec(x.Body[i]) {
			case ctlBreak:
				return ctlNone
			case ctlContinue:
				return ctlContinue
			case ctlReturn:
				return ctlReturn
			case ctlDiscard:
				return ctlDiscard
			}
		}
	case *BreakStmt:
		return ctlBreak
	case *ContinueStmt:
		return ctlContinue
	case *DiscardStmt:
		return ctlDiscard
	case *ReturnStmt:
		if x.X != nil {
			ev.retVal = ev.eval(x.X)
		}
		return ctlReturn
	case *CaseLabel:
	default:
		ev.trap("unsupported: statement node %T", s)
	}
	return ctlNone
}

// ---------------------------------------------------------------------------
// Run
// ---------------------------------------------------------------------------

// Slot identifies a resource binding.  GLSL: Class 's' = shader-storage block
// binding, 'u' = uniform block binding (separate namespaces in GL); Space is
// unused.  HLSL: Class is the register class of the text ('t' SRV, 'u' UAV,
// 'b' constant buffer), Index the register number, Space the register space.
type Slot struct {
	Class byte
	Index uint32
	Space uint32
}

// RunConfig configures one execution of an entry point.
type RunConfig struct {
	Entry         string            // GLSL: "main" (default)
	Buffers       map[Slot][]byte   // bound by the binding found in the text; mutated in place
	BlockByName   map[string][]byte // fallback for blocks without binding qualifier: keyed by block name
	NumWorkgroups [3]uint32
	StepLimit     int64
	ReverseOrder  bool // run workgroups and invocations in reverse order
	// NumWorkgroupsSlot (HLSL): when non-nil and Buffers has no entry for it,
	// a 12-byte constant buffer holding NumWorkgroups is bound at this slot
	// (naga's _NagaConstants cbuffer: hlsl.Options.SpecialConstantsBinding).
	NumWorkgroupsSlot *Slot
	// LocalSize (MSL): threads per threadgroup.  MSL text does not carry the
	// workgroup size (it is a dispatch parameter of the Metal API), so the
	// caller supplies the @workgroup_size of the WGSL entry point; zero
	// components count as 1.
	LocalSize [3]uint32
	// SizesFrom (MSL): how the `_mslBufferSizes` argument is filled when no
	// buffer is bound to it explicitly: member name ("size3" = WGSL global
	// variable number 3) -> slot of the buffer whose bound byte length the
	// member receives (see msl_run.go).
	SizesFrom map[string]Slot
	// SizesFromName (MSL): same, but designating the buffer by the name of
	// the entry-point argument it is bound to (BlockByName binding).
	SizesFromName map[string]string
}

// RunResult reports one execution.
type RunResult struct {
	Steps       int64
	Trap        string           // non-empty: execution stopped on undefined behaviour ("unsupported:" prefix: unmodelled construct)
	Poison      []string         // undefined values that reached an observable use
	Info        map[string]int64 // counters, e.g. "fma.differs", "packHalf2x16.inexact"
	Invocations int64
	Accesses    int64 // executed buffer loads + stores (4-byte leaves)
}

const maxInvocations = 1 << 22

// Run executes the entry point for every invocation of every workgroup.
func (p *Program) Run(cfg RunConfig) (res *RunResult, err error) {
	if p.hooks != nil && p.hooks.run != nil {
		return p.hooks.run(p, cfg)
	}
	entry := cfg.Entry
	if entry == "" {
		entry = "main"
	}
	var fn *Function
	for _, f := range p.funcs {
		if f.Name == entry && len(f.Params) == 0 && f.Body != nil {
			fn = f
		}
	}
	if fn == nil {
		return nil, fmt.Errorf("ctext: no entry point %q", entry)
	}
	if !p.hasLocalSize {
		return nil, &UnsupportedError{Dialect: p.Dialect, What: "Run of a non-compute shader (no local_size declaration)"}
	}
	sh := newShared(p)
	sh.limit = cfg.StepLimit
	sh.numWG = cfg.NumWorkgroups
	total := int64(1)
	for i := 0; i < 3; i++ {
		total *= int64(cfg.NumWorkgroups[i]) * int64(p.localSize[i])
		if total > maxInvocations {
			return nil, fmt.Errorf("ctext: more than %d invocations", maxInvocations)
		}
	}
	// bind buffers
	for _, b := range p.blocks {
		bb := &boundBuf{blk: b}
		if b.Binding >= 0 {
			if d, ok := cfg.Buffers[Slot{Class: b.Class, Index: uint32(b.Binding)}]; ok {
				bb.data, bb.bound = d, true
			}
		}
		if !bb.bound {
			if d, ok := cfg.BlockByName[b.Name]; ok {
				bb.data, bb.bound = d, true
			}
		}
		if bb.bound && b.Layout != "std140" && b.Layout != "std430" {
			return nil, &UnsupportedError{Dialect: p.Dialect, Pos: b.Pos, What: "block " + b.Name + " has implementation-defined layout " + b.Layout}
		}
		sh.bufs = append(sh.bufs, bb)
	}
	res = &RunResult{}
	finish := func() {
		res.Steps = sh.steps
		res.Poison = sh.events
		res.Info = sh.infos
		res.Accesses = sh.accesses
	}
	var runErr error
	func() {
		defer func() {
			if r := recover(); r != nil {
				switch t := r.(type) {
				case trapPanic:
					res.Trap = t.msg
				case stepPanic:
					runErr = ErrStepLimit
				default:
					panic(r)
				}
			}
		}()
		p.dispatch(sh, fn, cfg, res)
	}()
	finish()
	if runErr != nil {
		return res, runErr
	}
	return res, nil
}

func (p *Program) newInvocation(sh *shared, wg *workgroup, lid [3]uint32) *evaluator {
	ev := &evaluator{sh: sh, wg: wg, lid: lid}
	ls := p.localSize
	for i := 0; i < 3; i++ {
		ev.gid[i] = wg.id[i]*ls[i] + lid[i]
	}
	ev.lidx = lid[2]*ls[0]*ls[1] + lid[1]*ls[0] + lid[0]
	ev.priv = make([]Cell, p.privSize)
	pUninit := ev.poison(whyUninit)
	for i := range ev.priv {
		ev.priv[i].P = pUninit
	}
	for _, g := range p.globals {
		if g.Storage == "global" && g.initVal != nil {
			copy(ev.priv[g.CellOff:], g.initVal.C)
		}
	}
	return ev
}

// runEntry executes the entry function of one invocation.
func (ev *evaluator) runEntry(fn *Function) {
	frame := make([]Cell, fn.FrameSize)
	p := ev.poison(whyUninit)
	for i := range frame {
		frame[i].P = p
	}
	ev.frame = frame
	if h := ev.sh.prog.hooks; h != nil && h.entry != nil {
		h.entry(ev, fn)
	}
	if c := ev.execBlock(fn.Body); c == ctlDiscard {
		ev.trap("unsupported: discard")
	}
}

func (p *Program) dispatch(sh *shared, fn *Function, cfg RunConfig, res *RunResult) {
	nw := cfg.NumWorkgroups
	ls := p.localSize
	var wgIDs [][3]uint32
	for z := uint32(0); z < nw[2]; z++ {
		for y := uint32(0); y < nw[1]; y++ {
			for x := uint32(0); x < nw[0]; x++ {
				wgIDs = append(wgIDs, [3]uint32{x, y, z})
			}
		}
	}
	var lids [][3]uint32
	for z := uint32(0); z < ls[2]; z++ {
		for y := uint32(0); y < ls[1]; y++ {
			for x := uint32(0); x < ls[0]; x++ {
				lids = append(lids, [3]uint32{x, y, z})
			}
		}
	}
	if cfg.ReverseOrder {
		for i, j := 0, len(wgIDs)-1; i < j; i, j = i+1, j-1 {
			wgIDs[i], wgIDs[j] = wgIDs[j], wgIDs[i]
		}
		for i, j := 0, len(lids)-1; i < j; i, j = i+1, j-1 {
			lids[i], lids[j] = lids[j], lids[i]
		}
	}
	useCoroutines := fn.hasBarrier
	for _, id := range wgIDs {
		wg := &workgroup{id: id, shared: make([]Cell, p.sharedSize)}
		pu := uint16(0)
		if p.sharedSize > 0 {
			tmp := &evaluator{sh: sh}
			pu = tmp.poison("read of a shared variable that was never written (undefined value, GLSL 4.60 §4.3.8)")
		}
		for i := range wg.shared {
			wg.shared[i].P = pu
		}
		if !useCoroutines {
			for _, lid := range lids {
				ev := p.newInvocation(sh, wg, lid)
				ev.runEntry(fn)
				res.Invocations++
			}
			continue
		}
		p.runWorkgroupCoroutines(sh, fn, wg, lids, res)
	}
}

type coInv struct {
	ev   *evaluator
	next func() (struct{}, bool)
	stop func()
	done bool
	pan  any
}

func (p *Program) runWorkgroupCoroutines(sh *shared, fn *Function, wg *workgroup, lids [][3]uint32, res *RunResult) {
	invs := make([]*coInv, len(lids))
	for i, lid := range lids {
		ci := &coInv{ev: p.newInvocation(sh, wg, lid)}
		seq := iter.Seq[struct{}](func(yield func(struct{}) bool) {
			ci.ev.yield = yield
			defer func() {
				if r := recover(); r != nil {
					if _, abort := r.(abortPanic); !abort {
						ci.pan = r
					}
				}
			}()
			ci.ev.runEntry(fn)
		})
		ci.next, ci.stop = iter.Pull(seq)
		invs[i] = ci
	}
	stopAll := func() {
		for _, ci := range invs {
			ci.stop()
		}
	}
	defer stopAll()
	finished := 0
	for finished < len(invs) {
		waiting := 0
		for _, ci := range invs {
			if ci.done {
				continue
			}
			_, ok := ci.next()
			if ci.pan != nil {
				panic(ci.pan)
			}
			if ok {
				waiting++
			} else {
				ci.done = true
				finished++
				res.Invocations++
			}
		}
		if waiting > 0 && finished > 0 {
			// GLSL 4.60 §8.16: barrier() must be reached by all invocations
			// of the workgroup ("uniform flow control"), otherwise undefined.
			panic(trapPanic{fmt.Sprintf("barrier() reached by %d invocations of workgroup %v while %d invocations had already finished (undefined: GLSL 4.60 §8.16)", waiting, wg.id, finished)})
		}
	}
}

// sortedKeys is used by reflection helpers that must not depend on map order.
func sortedKeys[V any](m map[string]V) []string {
	ks := make([]string, 0, len(m))
	for k := range m {
		ks = append(ks, k)
	}
	sort.Strings(ks)
	return ks
}
