package ctext

import (
	"bytes"
	"sync"
	"testing"
)

func TestInfoCounters(t *testing.T) {
	// fma: fused and unfused results differ for 1+2^-12 squared minus 1: (1+e)^2 = 1 + 2e + e^2,
	// e^2 = 2^-24 is lost when the product is rounded to binary32 first.
	got, res := evalExprs(t, hdr430, "", "  float e = uintBitsToFloat(0x3F800800u);\n", []string{
		"floatBitsToUint(fma(e, e, -1.0))",
		"packHalf2x16(vec2(0.1, 1.0))",
	})
	clean(t, res)
	// exact: 2^-11 + 2^-24 = 0x3A000400 (2^-11 = 0x3A000000, ulp there is 2^-34; 2^-24 = 0x400 ulps)
	if got[0] != 0x3A000400 {
		t.Errorf("fma = %#x", got[0])
	}
	if res.Info["fma.differs"] != 1 {
		t.Errorf("fma.differs = %d", res.Info["fma.differs"])
	}
	// 0.1 is not representable in binary16: nearest is 0x2E66 (0.0999755859375)
	if got[1] != 0x3C002E66 {
		t.Errorf("packHalf2x16 = %#x", got[1])
	}
	if res.Info["packHalf2x16.inexact"] != 1 {
		t.Errorf("packHalf2x16.inexact = %d", res.Info["packHalf2x16.inexact"])
	}
}

func TestFloatEqualityCorners(t *testing.T) {
	checkExprs(t, hdr430, "struct S { float f; int i; };\n", "  float nan = fv[2] / fv[2]; float nz = -fv[2];\n", []xcase{
		{"uint(nz == fv[2])", 1},            // -0 == +0
		{"uint(S(nan, 1) == S(nan, 1))", 0}, // NaN != NaN inside aggregates
		{"uint(S(nz, 1) == S(0.0, 1))", 1},
		{"uint(vec2(nan, 1.0) != vec2(nan, 1.0))", 1},
		{"uint(float[2](1.0, nz) == float[2](1.0, 0.0))", 1},
		{"floatBitsToUint(nz)", 0x80000000},
		{"floatBitsToUint(abs(nz))", 0},
		{"floatBitsToUint(nz * 2.0 + 0.0)", 0}, // -0 + +0 = +0 (round to nearest)
		{"uint(isnan(nan + 1.0)) + uint(isinf(1.0 / fv[2])) + uint(isinf(-1.0 / fv[2]))", 3},
	})
}

func TestHalfConversion(t *testing.T) {
	for _, c := range []struct {
		f     float32
		h     uint16
		exact bool
	}{
		{0, 0, true}, {1, 0x3C00, true}, {-2, 0xC000, true}, {65504, 0x7BFF, true}, {65520, 0x7C00, false},
		{5.9604645e-08, 0x0001, true},  // smallest subnormal 2^-24
		{6.1035156e-05, 0x0400, true},  // smallest normal 2^-14
		{2.9802322e-08, 0x0000, false}, // 2^-25: tie, rounds to even (0)
		{0.1, 0x2E66, false},
		{1.0009765625, 0x3C01, true},   // 1 + 2^-10
		{1.00048828125, 0x3C00, false}, // 1 + 2^-11: tie to even
		{1.00146484375, 0x3C02, false}, // 1 + 3*2^-11: tie to even (up)
	} {
		h, ex := f32ToF16(c.f)
		if h != c.h || ex != c.exact {
			t.Errorf("f32ToF16(%g) = %#x,%v want %#x,%v", c.f, h, ex, c.h, c.exact)
		}
		if c.exact {
			if back := f16ToF32(c.h); back != c.f {
				t.Errorf("f16ToF32(%#x) = %g want %g", c.h, back, c.f)
			}
		}
	}
}

func TestFMAHelper(t *testing.T) {
	// ties in the final rounding decided by the low part of the exact product
	a := float32(1 + 1.0/4096) // 1 + 2^-12
	if got := ffma(a, a, -1); fbits(got) != 0x3A000400 {
		t.Errorf("ffma = %#x", fbits(got))
	}
	if got := ffma(3, 5, 7); got != 22 {
		t.Errorf("ffma(3,5,7) = %g", got)
	}
	// 2^24+1 is not representable: (2^12+1)*(2^12-1) + 2 = 2^24 + 1 -> ties to even 2^24
	if got := ffma(4097, 4095, 2); got != 16777216 {
		t.Errorf("ffma tie = %g", got)
	}
	// ... + 2 + tiny positive must round up to 2^24+2
	if got := ffma(4097, 4095, 2.0000002); got != 16777218 {
		t.Errorf("ffma above tie = %g", got)
	}
}

func TestConcurrentParseAndRun(t *testing.T) {
	src := exprShader(hdr430, "shared uint sh[2];\n", "  sh[0] = uv[0]; barrier();\n", []string{"sh[0] * 3u", "uint(iv[1] * 2)"})
	p := mustParse(t, src)
	var wg sync.WaitGroup
	outs := make([][]byte, 8)
	for i := range outs {
		wg.Add(1)
		go func(i int) {
			defer wg.Done()
			if _, err := Parse(GLSL, src); err != nil {
				t.Error(err)
			}
			out := zeros(8)
			res, err := p.Run(RunConfig{Buffers: map[Slot][]byte{{Class: 's', Index: 0}: out, {Class: 's', Index: 1}: stdInputBuf()}, NumWorkgroups: [3]uint32{1, 1, 1}, StepLimit: 10000})
			if err != nil || res.Trap != "" || len(res.Poison) > 0 {
				t.Errorf("run %d: %v %+v", i, err, res)
			}
			outs[i] = out
		}(i)
	}
	wg.Wait()
	for i := range outs {
		if !bytes.Equal(outs[i], outs[0]) {
			t.Errorf("run %d differs", i)
		}
	}
	if getU32(outs[0], 0) != 21 || getI32(outs[0], 1) != -14 {
		t.Errorf("got %v", words32(outs[0]))
	}
}

func TestWriteonlyAndCoherentBlocksRun(t *testing.T) {
	src := `#version 310 es
precision highp float;
layout(local_size_x = 2) in;
layout(std430, binding = 0) writeonly buffer W { uint w[]; } wb;
layout(std430, binding = 1) readonly coherent buffer R { uint r[2]; };
layout(std140, binding = 0) uniform U { uvec4 k[2]; };
void main() { uint i = gl_LocalInvocationIndex; wb.w[i] = r[i] + k[1].y + uint(wb.w.length()); }`
	p := mustParse(t, src)
	out := zeros(12)
	res := run1(t, p, map[Slot][]byte{{Class: 's', Index: 0}: out, {Class: 's', Index: 1}: u32s(100, 200), {Class: 'u', Index: 0}: u32s(1, 2, 3, 4, 5, 6, 7, 8)}, [3]uint32{1, 1, 1})
	clean(t, res)
	wantWords(t, words32(out), 109, 209, 0)
	if res.Accesses == 0 || res.Invocations != 2 {
		t.Errorf("accesses %d invocations %d", res.Accesses, res.Invocations)
	}
}

func TestUnsupportedIsNotInvalid(t *testing.T) {
	for _, src := range []string{
		"#version 430 core\nlayout(local_size_x = 1) in;\nuniform sampler2D tex;\nvoid main() { vec4 c = texture(tex, vec2(0.0)); }",
		"#version 430 core\nlayout(local_size_x = 1) in;\nlayout(rgba8) uniform image2D img;\nvoid main() { imageStore(img, ivec2(0), vec4(1.0)); }",
		"#version 430 core\nlayout(local_size_x = 1) in;\nvoid main() { double d = 1.0LF; d = d * 2.0LF; }",
		"#version 430 core\n#define X 1\nlayout(local_size_x = 1) in;\nvoid main() { }",
		"#version 430 core\n#extension GL_ARB_gpu_shader_int64 : require\nlayout(local_size_x = 1) in;\nvoid main() { int64_t x = 1L; }",
		"#version 450 core\nlayout(local_size_x = 1) in;\nvoid main() { int a[2] = { 1, 2 }; }",
		"#version 430 core\nlayout(local_size_x = 1) in;\nvoid main() { uint n = gl_NumSubgroups; }",
	} {
		code, err := parseErr(src)
		if code != "unsupported" {
			t.Errorf("want UnsupportedError, got %q (%v) for\n%s", code, err, src)
		}
	}
	// running a non-compute shader is unsupported, parsing it is fine
	p := mustParse(t, "#version 330 core\nlayout(location = 0) in vec3 pos;\nout vec4 color;\nuniform mat4 mvp;\nvoid main() { color = mvp * vec4(pos, 1.0); }")
	if _, err := p.Run(RunConfig{NumWorkgroups: [3]uint32{1, 1, 1}}); err == nil {
		t.Errorf("Run of a vertex shader succeeded")
	}
}
