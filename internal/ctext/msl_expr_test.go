package ctext

import (
	"math"
	"strings"
	"testing"
)

// Expectations in the msl_*_test.go files are computed by hand from ISO C++14
// and the Metal Shading Language Specification, never from a run.
//
// Standard inputs (buffer 1): iv = {7, -7, 0, INT_MIN}, uv = {7, 0xFFFFFFFF, 0, 32},
// fv = {1.5, -2.5, 0.0, 1e10}.

func TestMSLIntegerSemantics(t *testing.T) {
	checkMSLExprs(t, "", "", []ew{
		// usual arithmetic conversions: int with uint -> uint (C++14 [expr]/10)
		{"in.iv[1] < in.uv[0]", uint32(0)},                           // -7 -> 4294967289 < 7 is false
		{"in.iv[1] < 7", uint32(1)},                                  // both int
		{"in.uv[0] - 8u", uint32(0xFFFFFFFF)},                        // unsigned arithmetic wraps
		{"in.iv[1] + in.uv[0]", uint32(0)},                           // 0xFFFFFFF9 + 7
		{"static_cast<uint>(in.iv[0] / 2 * -1)", uint32(0xFFFFFFFD)}, // 3 * -1
		{"static_cast<uint>(in.iv[1] / 2)", uint32(0xFFFFFFFD)},      // -7 / 2 truncates toward zero
		{"static_cast<uint>(in.iv[1] % 3)", uint32(0xFFFFFFFF)},      // sign of the dividend
		{"static_cast<uint>(in.iv[0] % -3)", uint32(1)},
		{"static_cast<uint>(true) + true", uint32(2)}, // bool promotes to int
		{"uint(in.iv[1])", uint32(0xFFFFFFF9)},
		{"uint(-1)", uint32(0xFFFFFFFF)},
		{"unsigned(in.iv[1]) + 1", uint32(0xFFFFFFFA)},
		{"31 - metal::clz(in.uv[0])", uint32(2)}, // int - uint -> uint; clz(7) = 29
		{"in.uv[0] == -1 || in.uv[1] == -1", uint32(1)},
		{"(in.uv[1] == 0) | (in.uv[2] == 0)", uint32(1)}, // bool | bool -> int 1
		{"static_cast<uint>(static_cast<char>(200) + 0)", uint32(0xFFFFFFC8)},
		{"static_cast<uint>(static_cast<metal::uchar>(300))", uint32(44)},
		{"static_cast<uint>(static_cast<short>(0x18000))", uint32(0xFFFF8000)},
		// MSL §3.1: the shift amount is taken modulo the bit width
		{"1u << 35u", uint32(8)},
		{"in.uv[0] << in.uv[3]", uint32(7)},
		{"static_cast<uint>(in.iv[1] >> 1)", uint32(0xFFFFFFFC)}, // arithmetic shift
		{"static_cast<uint>(1 << 31)", uint32(0x80000000)},
		{"in.uv[1] >> 28u", uint32(15)},
		// literal types: C++14 [lex.icon]
		{"0x80000000 > 0", uint32(1)}, // unsigned int
		{"static_cast<uint>(-2147483647 - 1)", uint32(0x80000000)},
		{"4294967295u + 1u", uint32(0)},
		// floating <-> integer
		{"static_cast<uint>(static_cast<int>(in.fv[1]))", uint32(0xFFFFFFFE)}, // -2.5 -> -2
		{"static_cast<uint>(in.fv[0])", uint32(1)},
		{"static_cast<uint>(-0.5)", uint32(0)},                              // truncates to 0: representable
		{"as_type<uint>(static_cast<float>(in.uv[1]))", uint32(0x4F800000)}, // rounds to 2^32
		{"as_type<uint>(in.iv[0] * 0.5)", float32(3.5)},
		{"as_type<uint>(1 / 2 + 1.0)", float32(1)},
		{"as_type<uint>(static_cast<float>(in.iv[1]) / 2)", float32(-3.5)},
		{"static_cast<uint>(1 < 2 < 3)", uint32(1)},
		{"as_type<uint>(true ? 1 : 2.5)", float32(1)}, // common type float
		{"(in.uv[0], 5u)", uint32(5)},
		{"!in.iv[2]", uint32(1)},
		{"!in.fv[0]", uint32(0)},
		{"~in.uv[2]", uint32(0xFFFFFFFF)},
		{"-in.uv[0]", uint32(0xFFFFFFF9)},
		{"static_cast<uint>(-true)", uint32(0xFFFFFFFF)},
		{"static_cast<uint>(static_cast<bool>(in.fv[1])) + static_cast<uint>(static_cast<bool>(in.fv[2]))", uint32(1)},
		{"static_cast<uint>(in.iv[0] > 3 ? in.iv[0] : in.iv[1])", uint32(7)},
		{"in.uv[0] & 5u | 8u ^ 1u", uint32(13)},    // & binds tighter than ^ than |: 5 | 9
		{"1u + 2u * 3u - 8u / 4u % 3u", uint32(5)}, // 1 + 6 - (2 % 3)
	})
}

func TestMSLPoisonRules(t *testing.T) {
	poison := func(name, pre, expr, why string) {
		t.Run(name, func(t *testing.T) {
			_, res := evalMSL(t, "struct struct_t { uint a; uint b; };\n", pre, []string{expr})
			if res.Trap != "" {
				t.Fatalf("unexpected trap %s", res.Trap)
			}
			if len(res.Poison) == 0 || !strings.Contains(strings.Join(res.Poison, ";"), why) {
				t.Fatalf("%s: want poison %q, got %v", expr, why, res.Poison)
			}
		})
	}
	poison("signed add overflow", "", "static_cast<uint>(in.iv[3] - 1)", "signed integer overflow")
	poison("signed mul overflow", "", "static_cast<uint>(in.iv[3] * 2)", "signed integer overflow")
	poison("negate INT_MIN", "", "static_cast<uint>(-in.iv[3])", "signed integer overflow")
	poison("INT_MIN / -1", "", "static_cast<uint>(in.iv[3] / (in.iv[1] / 7))", "INT_MIN / -1")
	poison("INT_MIN % -1", "", "static_cast<uint>(in.iv[3] % (in.iv[1] / 7))", "INT_MIN / -1")
	poison("int / 0", "", "static_cast<uint>(in.iv[0] / in.iv[2])", "by zero")
	poison("uint % 0", "", "in.uv[0] % in.uv[2]", "by zero")
	poison("float to int out of range", "", "static_cast<uint>(static_cast<int>(in.fv[3]))", "out-of-range")
	poison("negative float to uint", "", "static_cast<uint>(in.fv[1])", "out-of-range")
	poison("NaN to int", "", "static_cast<uint>(static_cast<int>(in.fv[2] / in.fv[2]))", "out-of-range")
	poison("uninitialised local", "  uint x;\n", "x", "uninitialised")
	poison("uninitialised member", "  struct_t s;\n  s.a = 1u;\n", "s.b", "uninitialised")
	poison("poison through arithmetic", "  uint x;\n", "x * 0u + 1u", "uninitialised")
	t.Run("poison as a condition", func(t *testing.T) {
		_, res := evalMSL(t, "", "  bool b;\n  if (b) { o[1] = 1u; }\n", []string{"0u", "0u"})
		if len(res.Poison) == 0 || !strings.Contains(res.Poison[0], "if condition") {
			t.Fatalf("want a poison report for the condition, got %v", res.Poison)
		}
	})
	t.Run("defined: unsigned wrap, shifts, select of an unselected poison", func(t *testing.T) {
		got, res := evalMSL(t, "", "  uint x;\n", []string{"in.uv[1] * in.uv[1]", "in.uv[1] << 33u", "metal::select(x, 5u, true)", "true ? 6u : x"})
		clean(t, res)
		want := []uint32{1, 0xFFFFFFFE, 5, 6}
		for i := range want {
			if got[i] != want[i] {
				t.Errorf("word %d = %#x, want %#x", i, got[i], want[i])
			}
		}
	})
	t.Run("int.overflow is counted", func(t *testing.T) {
		_, res := evalMSL(t, "", "", []string{"static_cast<uint>(in.iv[3] - 1)"})
		if res.Info["int.overflow"] != 1 {
			t.Fatalf("Info[int.overflow] = %d, want 1", res.Info["int.overflow"])
		}
	})
}

func TestMSLTraps(t *testing.T) {
	trap := func(name, decls, pre, expr, why string) {
		t.Run(name, func(t *testing.T) {
			_, res := evalMSL(t, decls, pre, []string{expr})
			if !strings.Contains(res.Trap, why) {
				t.Fatalf("%s: want trap %q, got trap=%q poison=%v", expr, why, res.Trap, res.Poison)
			}
		})
	}
	trap("array wrapper index", "struct W { int inner[3]; };\n", "  W w = {};\n", "static_cast<uint>(w.inner[in.uv[0] - 4u])", "index 3 out of range [0,3)")
	trap("negative index", "struct W { int inner[3]; };\n", "  W w = {};\n", "static_cast<uint>(w.inner[in.iv[1]])", "index -7 out of range")
	trap("vector index", "", "  metal::uint4 v = metal::uint4(1u);\n", "v[in.uv[0] - 3u]", "index 4 out of range [0,4)")
	trap("matrix column index", "", "  metal::float2x2 m = {};\n", "as_type<uint>(m[in.uv[0] - 5u].x)", "index 2 out of range [0,2)")
	trap("buffer load outside the bound bytes", "", "", "in.uv[in.uv[0]]", "out of range")                           // uv[7]
	trap("runtime array past the bound buffer", "", "", "o[in.uv[1] >> 20u] = 0u", "index 4095 out of range [0,33)") // the bound slice has 33 words
	t.Run("const index out of range is not a compile error in C++", func(t *testing.T) {
		src := mslExprShader("struct W { int inner[3]; };\n", "  W w = {};\n  if (in.uv[2] == 1u) { w.inner[5] = 1; }\n", []string{"0u"})
		mustParseMSL(t, src)
	})
}

func TestMSLSelectAndRelational(t *testing.T) {
	checkMSLExprs(t, "", "  metal::uint3 sv = metal::select(metal::uint3(1u, 2u, 3u), metal::uint3(4u, 5u, 6u), metal::bool3(true, false, in.uv[0] > 1u));\n"+
		"  metal::bool3 cmp = metal::int3(1, 5, 3) < metal::int3(2, 5, 1);\n  metal::bool2 nb = !metal::bool2(true, false);\n"+
		"  metal::bool2 lv = metal::bool2(true, false) || metal::bool2(false, false);\n", []ew{
		{"metal::select(1u, 2u, true)", uint32(2)}, // select(a, b, c) = c ? b : a (MSL §6.4)
		{"metal::select(1u, 2u, false)", uint32(1)},
		{"sv.x * 100u + sv.y * 10u + sv.z", uint32(426)},
		{"as_type<uint>(metal::select(1.0, 2.0, in.fv[0] > 1.0))", float32(2)},
		{"metal::select(7, 1, in.uv[2] == 0u)", uint32(1)}, // int result converted on the store
		{"static_cast<uint>(cmp.x) + static_cast<uint>(cmp.y) * 2u + static_cast<uint>(cmp.z) * 4u", uint32(1)},
		{"static_cast<uint>(metal::all(cmp)) + static_cast<uint>(metal::any(cmp)) * 2u", uint32(2)},
		{"static_cast<uint>(nb.x) + static_cast<uint>(nb.y) * 2u", uint32(2)},
		{"static_cast<uint>(lv.x) + static_cast<uint>(lv.y) * 2u", uint32(1)},
		{"static_cast<uint>(metal::all(metal::uint2(4294967295u) == metal::uint2(4294967295u, 0u)))", uint32(0)},
		{"static_cast<uint>(metal::any(metal::bool3(true) & metal::bool3(false, false, true)))", uint32(1)},
	})
}

func TestMSLAsType(t *testing.T) {
	checkMSLExprs(t, "", "", []ew{
		{"as_type<uint>(1.0f)", uint32(0x3F800000)},
		{"as_type<uint>(as_type<float>(0x40400000u) * 2.0)", float32(6)},
		{"as_type<uint>(metal::half2(1.0h, -2.0h))", uint32(0xC0003C00)}, // x in the low half-word
		{"as_type<uint>(float(as_type<metal::half2>(0xC0003C00u).y))", float32(-2)},
		{"as_type<metal::uint2>(metal::float2(1.0, -2.0)).y", uint32(0xC0000000)},
		{"static_cast<uint>(as_type<int>(0xFFFFFFFFu) < 0)", uint32(1)},
		{"static_cast<uint>(as_type<metal::uchar4>(0x04030201u).w)", uint32(4)},
		{"static_cast<uint>(as_type<metal::char4>(0x80030201u).w)", uint32(0xFFFFFF80)},
		{"static_cast<uint>(as_type<metal::ushort2>(0xBEEF1234u).y)", uint32(0xBEEF)},
		{"as_type<uint>(as_type<metal::float3>(metal::int3(0, 0x40000000, 0)).y)", float32(2)},
		{"as_type<uint>(as_type<int>(as_type<uint>(in.iv[1]) + as_type<uint>(in.iv[1])))", uint32(0xFFFFFFF2)}, // naga's wrapping add
	})
	for _, src := range []string{
		"as_type<uint>(metal::float2(1.0))",                // 8 bytes -> 4 bytes
		"as_type<metal::float3>(metal::int2(1)).x > 0",     // 8 -> 16
		"as_type<metal::half2>(1.0h).x > 0",                // 2 -> 4
		"as_type<metal::float2>(metal::float3(1.0)).x > 0", // 16 -> 8
	} {
		code, err := parseErrMSL(mslExprShader("", "", []string{src}))
		if code != "type" {
			t.Errorf("%s: want an InvalidError [type] (sizes differ), got %q %v", src, code, err)
		}
	}
}

func TestMSLBraceInit(t *testing.T) {
	decls := "struct Inner { int a; float b; };\nstruct W { int inner[3]; };\n" +
		"struct Outer { Inner in; W w; metal::float2 v; char _pad[4]; uint u; };\n" +
		"W mk() { return {1, 2, 3}; }\nInner mki(int k) { return Inner {k, 0.5}; }\n"
	pre := "  Outer x = Outer {Inner {1, 2.5}, W {4, 5, 6}, metal::float2(7.0, 8.0), {}, 9u};\n" +
		"  Outer y = {{1, 2.5}, {{4, 5}}, {}, {}, 3u};\n" + // w.inner[2], v value-initialised
		"  Outer z = {1, 2.5, 4, 5, 6};\n" + // brace elision; the rest zero
		"  W w2 = {};\n  int s = {};\n  metal::int2 q = {};\n  metal::float2x2 m = {};\n  W w3 = W {1};\n" +
		"  W w4 = {};\n  w4 = {7, 8, 9};\n  W w5 = mk();\n  w2 = {};\n" +
		"  metal::uint3 u3 = metal::uint3 {};\n  uint u1 = uint {5u};\n  metal::float4 f4 = {1.0, 2.0};\n"
	checkMSLExprs(t, decls, pre, []ew{
		{"static_cast<uint>(x.in.a) + static_cast<uint>(x.w.inner[2]) * 10u + x.u * 100u", uint32(961)},
		{"as_type<uint>(x.in.b + x.v.y)", float32(10.5)},
		{"static_cast<uint>(y.in.a + y.w.inner[0] + y.w.inner[1] + y.w.inner[2]) + y.u * 100u", uint32(310)},
		{"as_type<uint>(y.v.x + y.v.y + y.in.b)", float32(2.5)},
		{"static_cast<uint>(z.in.a + z.w.inner[0] * 10 + z.w.inner[2] * 100) + z.u", uint32(641)},
		{"as_type<uint>(z.in.b + z.v.x)", float32(2.5)},
		{"static_cast<uint>(w2.inner[0] + w2.inner[2] + s + q.x + q.y)", uint32(0)},
		{"as_type<uint>(m[0][0] + m[1][1])", float32(0)},
		{"static_cast<uint>(w3.inner[0] * 100 + w3.inner[1] * 10 + w3.inner[2])", uint32(100)},
		{"static_cast<uint>(w4.inner[0] * 100 + w4.inner[1] * 10 + w4.inner[2])", uint32(789)},
		{"static_cast<uint>(w5.inner[0] * 100 + w5.inner[1] * 10 + w5.inner[2])", uint32(123)},
		{"static_cast<uint>(Outer {}.in.a) + Outer {}.u + u3.y + u1", uint32(5)},
		{"static_cast<uint>(mki(4).a)", uint32(4)},
		{"as_type<uint>(f4.x + f4.y * 10.0 + f4.z * 100.0 + f4.w)", float32(21)},
		{"static_cast<uint>(int {})", uint32(0)},
	})
	for _, bad := range []struct{ pre, code string }{
		{"  W w = W {1, 2, 3, 4};\n", "type"},  // excess elements
		{"  Inner i = {1, 2.5, 3};\n", "type"}, // excess elements
		{"  Inner i = {W {}, 1.0};\n", "type"}, // W does not convert to int
		{"  int i = {1, 2};\n", "type"},        // scalar from two clauses
		{"  W w = {};\n  w = {1, 2, 3, 4};\n", "type"},
	} {
		code, err := parseErrMSL(mslExprShader(decls, bad.pre, []string{"0u"}))
		if code != bad.code {
			t.Errorf("%q: want InvalidError [%s], got %q %v", bad.pre, bad.code, code, err)
		}
	}
}

func TestMSLReferences(t *testing.T) {
	decls := "struct P { int x; int y; };\nstruct W { int inner[3]; };\nstruct C { uint k; };\n" +
		"void inc(thread int& x, int by) { x = x + by; }\n" +
		"void setv(thread metal::int3& v, int i) { v[i] = 9; v.x = v.x + 1; }\n" +
		"void wr(device type_o& out, uint i, uint v) { out[i] = v; }\n" +
		"uint rd(device In const& c, uint i) { return c.uv[i]; }\n" +
		"void chain(thread int& x) { inc(x, 2); inc(x, 3); }\n" +
		"void swap(thread int& a, thread int& b) { int t = a; a = b; b = t; }\n" +
		"void byval(int x) { x = 5; }\n" +
		"void wr1(device uint& x) { x = 1u; }\n" +
		"void fill(thread W& w) { for (int i = 0; i < 3; i = i + 1) { w.inner[i] = i * i; } }\n" +
		"int sum(W w) { w.inner[0] = 100; return w.inner[0] + w.inner[1] + w.inner[2]; }\n"
	pre := "  int a = 1;\n  inc(a, 4);\n  metal::int3 v = metal::int3(1, 2, 3);\n  setv(v, 2);\n  wr(o, 20u, 77u);\n" +
		"  int c = 10;\n  chain(c);\n  P p = P {1, 2};\n  swap(p.x, p.y);\n  W w = {};\n  fill(w);\n  inc(w.inner[2], 5);\n" +
		"  int bv = 3;\n  byval(bv);\n  int s = sum(w);\n" +
		"  uint sel = 0u;\n  int l0 = 0;\n  int l1 = 0;\n  inc(in.uv[2] == 0u ? l0 : l1, 7);\n" // l-value ?: binds to a reference
	checkMSLExprs(t, decls, pre, []ew{
		{"static_cast<uint>(a)", uint32(5)},
		{"static_cast<uint>(v.x * 100 + v.y * 10 + v.z)", uint32(229)},
		{"o[20]", uint32(77)},
		{"rd(in, 3u)", uint32(32)},
		{"static_cast<uint>(c)", uint32(15)},
		{"static_cast<uint>(p.x * 10 + p.y)", uint32(21)},
		{"static_cast<uint>(w.inner[0] + w.inner[1] * 10 + w.inner[2] * 100)", uint32(910)}, // 0, 1, 4+5
		{"static_cast<uint>(bv)", uint32(3)},
		{"static_cast<uint>(s)", uint32(110)},        // 100 + 1 + 9; the argument was copied
		{"static_cast<uint>(w.inner[0])", uint32(0)}, // caller's copy unchanged
		{"static_cast<uint>(l0 * 10 + l1) + sel", uint32(70)},
	})
	for _, bad := range []struct{ pre, code string }{
		{"  inc(5, 1);\n", "lvalue"},                       // rvalue to a non-const reference
		{"  uint u = 1u;\n  inc(u, 1);\n", "no-overload"},  // thread int& does not bind a uint
		{"  in.uv[0] = 1u;\n", "lvalue"},                   // through a reference to const
		{"  int k = rd(in);\n", "no-overload"},             // arity
		{"  const int k = 1;\n  inc(k, 1);\n", "lvalue"},   // const object
		{"  threadgroup int tg;\n  inc(tg, 1);\n", "type"}, // thread int& cannot bind a threadgroup object
		{"  uint u = 0u;\n  wr1(u);\n", "type"},            // device uint& cannot bind a thread object
		{"  chain(in.iv[0]);\n", "lvalue"},                 // reference to const
	} {
		code, err := parseErrMSL(mslExprShader(decls, bad.pre, []string{"0u"}))
		if code != bad.code {
			t.Errorf("%q: want InvalidError [%s], got %q %v", bad.pre, bad.code, code, err)
		}
	}
}

func TestMSLVectorsAndMatrices(t *testing.T) {
	pre := "  metal::float3x2 m = metal::float3x2(metal::float2(1.0, 2.0), metal::float2(3.0, 4.0), metal::float2(5.0, 6.0));\n" +
		"  metal::float2 mv = m * metal::float3(1.0, 1.0, 1.0);\n" + // sum of the columns
		"  metal::float3 vm = metal::float2(1.0, 1.0) * m;\n" + // dot with each column
		"  metal::float2x2 d = metal::float2x2(2.0);\n" +
		"  metal::float2x2 s4 = metal::float2x2(1.0, 2.0, 3.0, 4.0);\n" + // column-major
		"  metal::float2x2 pr = s4 * s4;\n" + // (7,10), (15,22)
		"  metal::float2x3 t = metal::transpose(m);\n" +
		"  m[1] = metal::float2(30.0, 40.0);\n  m[2].y = 60.0;\n  m[0][1] = 20.0;\n" +
		"  metal::float4 v = metal::float4(metal::float2(1.0, 2.0), 3.0, 4.0);\n" +
		"  metal::float4 w = v.wzyx;\n  w.yz = metal::float2(9.0, 8.0);\n  w[3] = 7.0;\n" +
		"  metal::int3 iv = metal::int3(2) * 3 + metal::int3(1, 2, 3);\n" + // scalar broadcast
		"  metal::uint2 sh = metal::uint2(1u, 2u) << metal::uint2(4u, 1u);\n" +
		"  metal::float3 sc = 2.0 * metal::float3(1.0, 2.0, 3.0) - 1;\n"
	checkMSLExprs(t, "", pre, []ew{
		{"as_type<uint>(mv.x * 100.0 + mv.y)", float32(912)},
		{"as_type<uint>(vm.x * 10000.0 + vm.y * 100.0 + vm.z)", float32(30711)},
		{"as_type<uint>(d[0][0] + d[1][1] * 10.0 + d[0][1] + d[1][0])", float32(22)},
		{"as_type<uint>(s4[1][0] * 10.0 + s4[0].y)", float32(32)},
		{"as_type<uint>(pr[0][0] + pr[0][1] * 100.0 + pr[1].x * 10000.0)", float32(151007)},
		{"as_type<uint>(pr[1][1])", float32(22)},
		{"as_type<uint>(t[1][2] * 10.0 + t[0][1])", float32(63)}, // t[c][r] = m[r][c]: m[2][1] = 6, m[1][0] = 3
		{"as_type<uint>(m[0].x + m[0].y + m[1].x + m[1][1] + m[2][0] + m[2][1])", float32(156)},
		{"as_type<uint>(metal::determinant(s4))", float32(-2)},
		{"as_type<uint>(w.x * 1000.0 + w.y * 100.0 + w.z * 10.0 + w.w)", float32(4987)},
		{"static_cast<uint>(iv.x * 100 + iv.y * 10 + iv.z)", uint32(789)},
		{"sh.x * 10u + sh.y", uint32(164)},
		{"as_type<uint>(sc.x * 100.0 + sc.y * 10.0 + sc.z)", float32(135)},
		{"as_type<uint>(metal::dot(metal::float3(1.0, 2.0, 3.0), metal::float3(4.0, -5.0, 6.0)))", float32(12)},
		{"as_type<uint>(metal::cross(metal::float3(1.0, 2.0, 3.0), metal::float3(4.0, -5.0, 6.0)).x)", float32(27)},
		{"as_type<uint>(metal::clamp(metal::float2(-1.0, 5.0), 0.0, 2.0).y)", float32(2)}, // scalar -> vector splat of the bounds
		{"as_type<uint>(metal::mix(metal::float2(0.0), metal::float2(8.0), 0.25).x)", float32(2)},
	})
	for _, bad := range []struct{ pre, code string }{
		{"  metal::float2 a = metal::int2(1, 2);\n", "type"},                   // no implicit vector conversion
		{"  metal::float3 a = metal::float2(1.0, 2.0);\n", "type"},             // sizes differ
		{"  metal::float2 a = metal::float2(1.0) + metal::int2(1);\n", "type"}, // mixed vector operands
		{"  metal::float3 a = metal::float3(1.0, 2.0);\n", "type"},             // 2 components for a float3
		{"  metal::float2x2 a = metal::float2x2(metal::float3(1.0), metal::float3(1.0));\n", "type"},
		{"  metal::float2 a = metal::float2x2(1.0) * metal::float3(1.0);\n", "type"}, // dimension mismatch
		{"  float a = metal::float2(1.0);\n", "type"},                                // vector to scalar
		{"  float a = 1.0;\n  float b = a.x;\n", "type"},                             // no members on scalars
		{"  metal::float2 a = metal::float2(1.0);\n  float b = a.z;\n", "type"},
	} {
		code, err := parseErrMSL(mslExprShader("", bad.pre, []string{"0u"}))
		if code != bad.code {
			t.Errorf("%q: want InvalidError [%s], got %q %v", bad.pre, bad.code, code, err)
		}
	}
}

func TestMSLHalf(t *testing.T) {
	checkMSLExprs(t, "", "  half h = 0.1h;\n  half big = 60000.0h;\n  metal::half2 hv = metal::half2(1.5h, 2.5h) * 2.0h;\n", []ew{
		// 0.1 rounds to the binary16 value 0x2E66 = 0.0999755859375
		{"as_type<uint>(float(h))", float32(0.0999755859375)},
		{"as_type<uint>(float(h + h))", float32(0.199951171875)},
		// 2049 is not representable in binary16 (11 significant bits): 2048 + 1 -> 2048 (ties to even)
		{"as_type<uint>(float(half(2048.0h + 1.0h)))", float32(2048)},
		{"as_type<uint>(float(half(2048.0h + 3.0h)))", float32(2052)},
		{"as_type<uint>(float(big + big))", float32(math.Inf(1))}, // overflows binary16
		{"as_type<uint>(float(half(in.fv[0]) * 3.0h))", float32(4.5)},
		{"as_type<uint>(h * 2.0)", float32(0.199951171875)}, // half * float literal -> float
		{"as_type<uint>(float(hv.x + hv.y))", float32(8)},
		{"as_type<uint>(float(half(1.0) / half(3.0)))", float32(0.333251953125)}, // 0x3555
		{"static_cast<uint>(static_cast<int>(half(-2.75)))", uint32(0xFFFFFFFE)},
		{"as_type<uint>(float(static_cast<half>(2049)))", float32(2048)}, // int -> half rounds once
		{"as_type<uint>(float(metal::fma(half(2.0), half(3.0), half(1.0))))", float32(7)},
		{"as_type<uint>(float(metal::floor(half(-1.5))))", float32(-2)},
	})
}
