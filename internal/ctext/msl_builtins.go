package ctext

import (
	"fmt"
	"math"
	"math/bits"
	"strings"
	"sync"
)

// The functions of namespace metal (Metal Shading Language Specification §6
// "Metal Standard Library": §6.2 common, §6.3 integer, §6.4 relational, §6.5
// math, §6.6 matrix, §6.7 geometric, §6.9 threadgroup synchronisation,
// §6.13? pack/unpack, §6.15? atomic functions).
//
// The genType functions are declared for T = float, half and their vectors
// (integer functions: int, uint and their vectors; the 8/16/64-bit integer
// overloads are not modelled).  A call is resolved with C++ overload
// resolution over these overloads plus Metal's implicit scalar-to-vector
// conversion, so clamp(float3, float, float) selects the float3 overload.
//
// metal::precise:: and metal::fast:: variants are the same mathematical
// functions (the parser drops the qualifier).

// mslSig mini-language.  Generic tokens (expanded over the component count
// n = 1..4, vector-only forms over 2..4):
//
//	F f FV        floating genType / scalar / vector-only; expanded over float and half
//	Z z ZV        integer genType / scalar / vector-only; expanded over int and uint
//	I i  U u      int / uint genType and scalar
//	B b BV        bool genType / scalar / vector-only
//	f2 h3 i4 u2   fixed vectors;  Mcr   matrix of the current floating base
//	out T         reference parameter written by the function
func mslSigType(tok string, n int, fbase, zbase *Type) *Type {
	switch tok {
	case "void":
		return tVoid
	case "F", "FV":
		return vecOf(fbase, n)
	case "f":
		return fbase
	case "Z", "ZV":
		return vecOf(zbase, n)
	case "z":
		return zbase
	case "I":
		return vecOf(tInt, n)
	case "U":
		return vecOf(tUint, n)
	case "i":
		return tInt
	case "u":
		return tUint
	case "B", "BV":
		return vecOf(tBool, n)
	case "b":
		return tBool
	}
	if len(tok) == 3 && tok[0] == 'M' {
		return matOf(fbase, int(tok[1]-'0'), int(tok[2]-'0'))
	}
	if len(tok) == 2 {
		d := int(tok[1] - '0')
		switch tok[0] {
		case 'f':
			return vecOf(tFloat, d)
		case 'h':
			return vecOf(tHalf, d)
		case 'i':
			return vecOf(tInt, d)
		case 'u':
			return vecOf(tUint, d)
		case 'v': // vector of the current floating base
			return vecOf(fbase, d)
		}
	}
	panic("ctext: bad MSL signature token " + tok)
}

// halfWrap rounds the results of a floating-point builtin instantiated for
// half to binary16.
func halfWrap(impl builtinImpl) builtinImpl {
	return func(ev *evaluator, s *builtinSig, a []Value) Value {
		r := impl(ev, s, a)
		if r.T != nil && r.T.Kind != KVoid {
			r = fixHalf(r)
		}
		for i := range a {
			if s.out != nil && s.out[i] {
				a[i] = fixHalf(a[i])
			}
		}
		return r
	}
}

func (tb *builtinTable) mdef(spec string, impl builtinImpl, flags bflag) {
	open := strings.IndexByte(spec, '(')
	head := strings.Fields(spec[:open])
	retTok, name := head[0], head[1]
	inner := strings.TrimSpace(spec[open+1 : strings.LastIndexByte(spec, ')')])
	var ptoks []string
	if inner != "" {
		for _, p := range strings.Split(inner, ",") {
			ptoks = append(ptoks, strings.TrimSpace(p))
		}
	}
	generic, vecOnly, usesF, usesZ := false, false, false, false
	for _, t := range append([]string{retTok}, ptoks...) {
		f := strings.Fields(t)
		tk := f[len(f)-1]
		switch tk {
		case "F", "Z", "I", "U", "B":
			generic = true
		case "FV", "ZV", "BV":
			generic, vecOnly = true, true
		}
		switch {
		case tk == "F" || tk == "f" || tk == "FV" || (len(tk) == 3 && tk[0] == 'M') || (len(tk) == 2 && tk[0] == 'v'):
			usesF = true
		case tk == "Z" || tk == "z" || tk == "ZV":
			usesZ = true
		}
	}
	lo, hi := 1, 1
	if generic {
		hi = 4
		if vecOnly {
			lo = 2
		}
	}
	fbases := []*Type{tFloat}
	if usesF {
		fbases = []*Type{tFloat, tHalf}
	}
	zbases := []*Type{tInt}
	if usesZ {
		zbases = []*Type{tInt, tUint}
	}
	for _, fb := range fbases {
		for _, zb := range zbases {
			for n := lo; n <= hi; n++ {
				s := &builtinSig{name: name, impl: impl, pure: flags&bfPure != 0, barrier: flags&bfBarrier != 0}
				if fb == tHalf {
					s.impl = halfWrap(impl)
				}
				s.ret = mslSigType(retTok, n, fb, zb)
				anyOut := false
				for _, p := range ptoks {
					f := strings.Fields(p)
					isOut := len(f) == 2 && f[0] == "out"
					s.params = append(s.params, mslSigType(f[len(f)-1], n, fb, zb))
					s.out = append(s.out, isOut)
					anyOut = anyOut || isOut
				}
				if !anyOut {
					s.out = nil
				}
				dup := false
				for _, o := range tb.byName[name] {
					if len(o.params) == len(s.params) {
						same := true
						for i := range o.params {
							if o.params[i] != s.params[i] {
								same = false
							}
						}
						dup = dup || same
					}
				}
				if !dup {
					tb.byName[name] = append(tb.byName[name], s)
				}
			}
		}
	}
}

var (
	mslTableOnce sync.Once
	mslTable     *builtinTable
)

func mslBuiltins() *builtinTable {
	mslTableOnce.Do(func() { mslTable = buildMSLBuiltins() })
	return mslTable
}

// mslUnmodelledFuncs: functions of namespace metal that exist but are not
// modelled (=> UnsupportedError).
var mslUnmodelledFuncPrefixes = []string{"simd_", "quad_", "simdgroup_", "atomic_thread_fence", "dfdx", "dfdy", "fwidth", "discard_fragment",
	"get_", "unpack_unorm10a2", "unpack_unorm565", "pack_float_to_unorm10a2", "pack_float_to_unorm565", "pack_half_to_", "pack_float_to_srgb", "unpack_srgb", "unpack_unorm4x8_srgb",
	"max3", "min3", "median3", "fmax3", "fmin3", "fmedian3", "mad24", "mul24", "nextafter", "ilogb", "logb", "remquo", "remainder", "erf", "lgamma", "tgamma",
	"absdiff", "hadd", "rhadd", "madsat", "divide", "sincos", "isordered", "isunordered", "wait_for_", "draw_", "memcpy", "any_of", "all_of", "async_", "wait_group_events", "sample", "read", "write", "gather", "is_null"}

var mslAtomicFuncs = map[string]bool{
	"atomic_load_explicit": true, "atomic_store_explicit": true, "atomic_exchange_explicit": true,
	"atomic_fetch_add_explicit": true, "atomic_fetch_sub_explicit": true, "atomic_fetch_and_explicit": true,
	"atomic_fetch_or_explicit": true, "atomic_fetch_xor_explicit": true, "atomic_fetch_min_explicit": true,
	"atomic_fetch_max_explicit": true, "atomic_compare_exchange_weak_explicit": true,
	// void forms on 64-bit atomics (MSL 2.4): valid, not modelled
	"atomic_min_explicit": true, "atomic_max_explicit": true,
}

func mslIsUnmodelledFunc(name string) bool {
	for _, p := range mslUnmodelledFuncPrefixes {
		if strings.HasPrefix(name, p) {
			return true
		}
	}
	return false
}

// mslIsBuiltinFunc reports whether name is a function of namespace metal.
func mslIsBuiltinFunc(name string) bool {
	if len(mslBuiltins().byName[name]) > 0 || mslAtomicFuncs[name] || name == "threadgroup_barrier" {
		return true
	}
	return mslIsUnmodelledFunc(name)
}

const (
	whyMSLClamp      = "clamp with minval > maxval: \"results are undefined\" (MSL §6.2 / §6.3 clamp)"
	whyMSLSmoothstep = "smoothstep with edge0 >= edge1 or a NaN operand: \"results are undefined\" (MSL §6.2 smoothstep)"
	whyMSLBits       = "extract_bits / insert_bits with offset + bits greater than the bit width: \"the result is undefined\" (MSL §6.3)"
	whyMSLFrexp      = "frexp of an infinity or NaN: the exponent is unspecified (MSL §6.5 frexp / C99 7.12.6.4)"
)

// fmaxM / fminM: MSL §6.5 fmax / fmin (max / min): "If one argument is a NaN,
// fmax() returns the other argument. If both arguments are NaNs, fmax()
// returns a NaN."
func fmaxM(x, y float32) float32 {
	switch {
	case isNaN32(x):
		return y
	case isNaN32(y):
		return x
	case x < y:
		return y
	}
	return x
}

func fminM(x, y float32) float32 {
	switch {
	case isNaN32(x):
		return y
	case isNaN32(y):
		return x
	case y < x:
		return y
	}
	return x
}

func mslPackUnit(ev *evaluator, c float32, lo, scale float32) int32 {
	// MSL §7.7.? "Conversion rules for normalized integer pixel data types":
	// the value is clamped, scaled and converted with round-to-nearest-even
	// ("preferred"; other roundings are allowed within 0.6 ulp of the integer
	// result, so exact ties are implementation-dependent).
	c = fminM(fmaxM(c, lo), 1)
	p := float64(c) * float64(scale)
	fl := math.Floor(p)
	if d := p - fl; d >= 0.4 && d <= 0.6 {
		ev.info("pack.near-tie")
	}
	return int32(math.RoundToEven(p))
}

func buildMSLBuiltins() *builtinTable {
	tb := &builtinTable{byName: map[string][]*builtinSig{}}
	P := bfPure
	fn1 := func(names string, f func(float64) float64) {
		for _, n := range strings.Fields(names) {
			tb.mdef("F "+n+"(F)", m1(f), P)
		}
	}
	// ---- §6.5 math ------------------------------------------------------------
	fn1("acos", math.Acos)
	fn1("acosh", math.Acosh)
	fn1("asin", math.Asin)
	fn1("asinh", math.Asinh)
	fn1("atan", math.Atan)
	fn1("atanh", math.Atanh)
	fn1("ceil", math.Ceil)
	fn1("cos", math.Cos)
	fn1("cosh", math.Cosh)
	fn1("cospi", func(x float64) float64 { return math.Cos(math.Pi * x) })
	fn1("exp", math.Exp)
	fn1("exp2", math.Exp2)
	fn1("exp10", func(x float64) float64 { return math.Pow(10, x) })
	fn1("fabs abs", math.Abs)
	fn1("floor", math.Floor)
	fn1("log", math.Log)
	fn1("log2", math.Log2)
	fn1("log10", math.Log10)
	fn1("rint", math.RoundToEven) // "round to integral value using round-to-nearest-even"
	fn1("round", math.Round)      // "halfway cases away from zero"
	fn1("rsqrt", func(x float64) float64 { return 1 / math.Sqrt(x) })
	fn1("sin", math.Sin)
	fn1("sinh", math.Sinh)
	fn1("sinpi", func(x float64) float64 { return math.Sin(math.Pi * x) })
	fn1("sqrt", math.Sqrt)
	fn1("tan", math.Tan)
	fn1("tanh", math.Tanh)
	fn1("tanpi", func(x float64) float64 { return math.Tan(math.Pi * x) })
	fn1("trunc", math.Trunc)
	tb.mdef("F atan2(F, F)", ff2(func(y, x float32) (float32, string) { return f64to32(math.Atan2(float64(y), float64(x))), "" }), P)
	tb.mdef("F copysign(F, F)", ff2(func(x, y float32) (float32, string) { return float32(math.Copysign(float64(x), float64(y))), "" }), P)
	tb.mdef("F fdim(F, F)", ff2(func(x, y float32) (float32, string) {
		if isNaN32(x) || isNaN32(y) {
			return float32(math.NaN()), ""
		}
		if x > y {
			return fsub(x, y), ""
		}
		return 0, ""
	}), P)
	tb.mdef("F fma(F, F, F)", cw(func(ev *evaluator, in []Cell) (Cell, string) {
		a, b, c := in[0].F(), in[1].F(), in[2].F()
		fused := ffma(a, b, c)
		unfused := fadd(fmul(a, b), c)
		if math.Float32bits(fused) != math.Float32bits(unfused) && !(isNaN32(fused) && isNaN32(unfused)) {
			ev.info("fma.differs")
		}
		return f32Cell(fused), ""
	}), P)
	for _, n := range []string{"fmax", "max"} {
		tb.mdef("F "+n+"(F, F)", ff2(func(x, y float32) (float32, string) { return fmaxM(x, y), "" }), P)
	}
	for _, n := range []string{"fmin", "min"} {
		tb.mdef("F "+n+"(F, F)", ff2(func(x, y float32) (float32, string) { return fminM(x, y), "" }), P)
	}
	tb.mdef("F fmod(F, F)", ff2(func(x, y float32) (float32, string) { return float32(math.Mod(float64(x), float64(y))), "" }), P)
	// fract: "Returns the fractional part of x that is greater than or equal to 0 or less than 1":
	// fmin(x - floor(x), 0x1.fffffep-1f)
	fractImpl := func(limit float32) builtinImpl {
		return ff1(func(x float32) (float32, string) {
			if isNaN32(x) {
				return x, ""
			}
			if isInf32(x) {
				return 0, ""
			}
			return fminM(fsub(x, floor32(x)), limit), ""
		})
	}
	for n := 1; n <= 4; n++ {
		tb.byName["fract"] = append(tb.byName["fract"],
			&builtinSig{name: "fract", params: []*Type{vecOf(tFloat, n)}, ret: vecOf(tFloat, n), impl: fractImpl(math.Float32frombits(0x3f7fffff)), pure: true},
			&builtinSig{name: "fract", params: []*Type{vecOf(tHalf, n)}, ret: vecOf(tHalf, n), impl: halfWrap(fractImpl(0.99951171875)), pure: true})
	}
	tb.mdef("F frexp(F, out I)", func(ev *evaluator, s *builtinSig, a []Value) Value {
		r := mkValue(s.ret)
		e := mkValue(s.params[1])
		for i, c := range a[0].C {
			if c.P != 0 {
				r.C[i].P, e.C[i].P = c.P, c.P
				continue
			}
			x := c.F()
			if isNaN32(x) || isInf32(x) {
				r.C[i] = c
				e.C[i].P = ev.poison(whyMSLFrexp)
				continue
			}
			fr, ex := math.Frexp(float64(x))
			r.C[i] = f32Cell(float32(fr))
			e.C[i] = i32Cell(int32(ex))
		}
		a[1] = e
		return r
	}, 0)
	tb.mdef("F ldexp(F, I)", cw(func(ev *evaluator, in []Cell) (Cell, string) {
		return f32Cell(float32(math.Ldexp(float64(in[0].F()), int(in[1].I())))), ""
	}), P)
	tb.mdef("F modf(F, out F)", func(ev *evaluator, s *builtinSig, a []Value) Value {
		r := mkValue(s.ret)
		w := mkValue(s.params[1])
		for i, c := range a[0].C {
			if c.P != 0 {
				r.C[i].P, w.C[i].P = c.P, c.P
				continue
			}
			x := c.F()
			t := float32(math.Trunc(float64(x)))
			w.C[i] = f32Cell(t)
			switch {
			case isInf32(x):
				r.C[i] = f32Cell(float32(math.Copysign(0, float64(x))))
			case isNaN32(x):
				r.C[i] = c
			default:
				r.C[i] = f32Cell(float32(math.Copysign(float64(fsub(x, t)), float64(x))))
			}
		}
		a[1] = w
		return r
	}, 0)
	for _, n := range []string{"pow", "powr"} {
		tb.mdef("F "+n+"(F, F)", ff2(func(x, y float32) (float32, string) { return f64to32(math.Pow(float64(x), float64(y))), "" }), P)
	}
	// ---- §6.2 common ----------------------------------------------------------
	tb.mdef("F clamp(F, F, F)", ff3(func(x, lo, hi float32) (float32, string) {
		if lo > hi {
			return 0, whyMSLClamp
		}
		return fminM(fmaxM(x, lo), hi), "" // "Returns fmin(fmax(x, minval), maxval)"
	}), P)
	tb.mdef("F mix(F, F, F)", cw(func(ev *evaluator, in []Cell) (Cell, string) {
		x, y, a := in[0].F(), in[1].F(), in[2].F()
		if !(a >= 0 && a <= 1) {
			// "a needs to be a value in the range 0.0 to 1.0. If a is not in
			// the range 0.0 to 1.0, the return values are undefined": counted,
			// the formula is still applied (judgement call, see README)
			ev.info("mix.a-outside-0-1")
		}
		return f32Cell(fadd(x, fmul(fsub(y, x), a))), "" // "x + (y - x) * a"
	}), P)
	tb.mdef("F saturate(F)", ff1(func(x float32) (float32, string) { return fminM(fmaxM(x, 0), 1), "" }), P)
	tb.mdef("F sign(F)", ff1(func(x float32) (float32, string) {
		switch {
		case x > 0:
			return 1, ""
		case x < 0:
			return -1, ""
		case x == 0:
			return x, "" // -0.0 for -0.0, +0.0 for +0.0
		}
		return 0, "" // "Returns 0.0 if x is a NaN"
	}), P)
	tb.mdef("F smoothstep(F, F, F)", ff3(func(e0, e1, x float32) (float32, string) {
		if isNaN32(e0) || isNaN32(e1) || isNaN32(x) || e0 >= e1 {
			return 0, whyMSLSmoothstep
		}
		t := fminM(fmaxM(fdiv(fsub(x, e0), fsub(e1, e0)), 0), 1)
		return fmul(fmul(t, t), fsub(3, fmul(2, t))), ""
	}), P)
	tb.mdef("F step(F, F)", ff2(func(edge, x float32) (float32, string) {
		if x < edge {
			return 0, ""
		}
		return 1, ""
	}), P)
	// ---- §6.4 relational --------------------------------------------------------
	tb.mdef("b all(BV)", func(ev *evaluator, s *builtinSig, a []Value) Value {
		var p uint16
		for _, c := range a[0].C {
			if c.P == 0 && !c.Bool() {
				return boolValue(false)
			}
			if c.P != 0 {
				p = c.P
			}
		}
		return Value{T: tBool, C: []Cell{{B: 1, P: p}}}
	}, P)
	tb.mdef("b any(BV)", func(ev *evaluator, s *builtinSig, a []Value) Value {
		var p uint16
		for _, c := range a[0].C {
			if c.P == 0 && c.Bool() {
				return boolValue(true)
			}
			if c.P != 0 {
				p = c.P
			}
		}
		return Value{T: tBool, C: []Cell{{P: p}}}
	}, P)
	tb.mdef("B isnan(F)", cw(func(ev *evaluator, in []Cell) (Cell, string) { return boolCell(isNaN32(in[0].F())), "" }), P)
	tb.mdef("B isinf(F)", cw(func(ev *evaluator, in []Cell) (Cell, string) { return boolCell(isInf32(in[0].F())), "" }), P)
	tb.mdef("B isfinite(F)", cw(func(ev *evaluator, in []Cell) (Cell, string) {
		return boolCell(!isNaN32(in[0].F()) && !isInf32(in[0].F())), ""
	}), P)
	tb.mdef("B signbit(F)", cw(func(ev *evaluator, in []Cell) (Cell, string) { return boolCell(in[0].B>>31 != 0), "" }), P)
	// select(a, b, c): "c ? b : a" per component; an operand that is not
	// selected has no effect
	sel := func(ev *evaluator, s *builtinSig, a []Value) Value {
		r := mkValue(s.ret)
		for i := range r.C {
			c := a[2].C[i]
			switch {
			case c.P != 0:
				r.C[i].P = c.P
			case c.Bool():
				r.C[i] = a[1].C[i]
			default:
				r.C[i] = a[0].C[i]
			}
		}
		return r
	}
	tb.mdef("F select(F, F, B)", sel, P)
	tb.mdef("Z select(Z, Z, B)", sel, P)
	tb.mdef("B select(B, B, B)", sel, P)
	// ---- §6.3 integer -------------------------------------------------------------
	tb.mdef("I abs(I)", cw(func(ev *evaluator, in []Cell) (Cell, string) {
		x := in[0].I()
		if x == math.MinInt32 {
			ev.info("abs.int-min")
		}
		if x < 0 {
			x = -x
		}
		return i32Cell(x), ""
	}), P)
	tb.mdef("U abs(U)", cw(func(ev *evaluator, in []Cell) (Cell, string) { return in[0], "" }), P)
	minmax := func(name string, pickI func(a, b int32) bool, pickU func(a, b uint32) bool) {
		tb.mdef("I "+name+"(I, I)", ii2(func(a, b int32) (int32, string) {
			if pickI(a, b) {
				return b, ""
			}
			return a, ""
		}), P)
		tb.mdef("U "+name+"(U, U)", uu2(func(a, b uint32) (uint32, string) {
			if pickU(a, b) {
				return b, ""
			}
			return a, ""
		}), P)
	}
	minmax("min", func(a, b int32) bool { return b < a }, func(a, b uint32) bool { return b < a })
	minmax("max", func(a, b int32) bool { return a < b }, func(a, b uint32) bool { return a < b })
	tb.mdef("I clamp(I, I, I)", cw(func(ev *evaluator, in []Cell) (Cell, string) {
		x, lo, hi := in[0].I(), in[1].I(), in[2].I()
		if lo > hi {
			// §6.3: "Returns min(max(x, minval), maxval)"; whether the
			// "undefined if minval > maxval" of the floating-point clamp
			// (§6.2) extends to the integer one is not certain: the formula
			// is applied and the occurrence counted
			ev.info("clamp.int.minval>maxval")
		}
		if x < lo {
			x = lo
		}
		if x > hi {
			x = hi
		}
		return i32Cell(x), ""
	}), P)
	tb.mdef("U clamp(U, U, U)", cw(func(ev *evaluator, in []Cell) (Cell, string) {
		x, lo, hi := in[0].U(), in[1].U(), in[2].U()
		if lo > hi {
			ev.info("clamp.int.minval>maxval")
		}
		if x < lo {
			x = lo
		}
		if x > hi {
			x = hi
		}
		return u32Cell(x), ""
	}), P)
	// clz / ctz: "If x is 0, returns the size in bits of the type of x"
	tb.mdef("Z clz(Z)", cw(func(ev *evaluator, in []Cell) (Cell, string) {
		return u32Cell(uint32(bits.LeadingZeros32(in[0].U()))), ""
	}), P)
	tb.mdef("Z ctz(Z)", cw(func(ev *evaluator, in []Cell) (Cell, string) {
		return u32Cell(uint32(bits.TrailingZeros32(in[0].U()))), ""
	}), P)
	tb.mdef("Z popcount(Z)", cw(func(ev *evaluator, in []Cell) (Cell, string) { return u32Cell(uint32(bits.OnesCount32(in[0].U()))), "" }), P)
	tb.mdef("Z reverse_bits(Z)", cw(func(ev *evaluator, in []Cell) (Cell, string) { return u32Cell(bits.Reverse32(in[0].U())), "" }), P)
	tb.mdef("Z rotate(Z, Z)", cw(func(ev *evaluator, in []Cell) (Cell, string) {
		return u32Cell(bits.RotateLeft32(in[0].U(), int(in[1].U()&31))), ""
	}), P)
	tb.mdef("I extract_bits(I, u, u)", cw(func(ev *evaluator, in []Cell) (Cell, string) {
		off, nb := in[1].U(), in[2].U()
		if uint64(off)+uint64(nb) > 32 {
			return Cell{}, whyMSLBits
		}
		v, _ := bitfieldExtractI(in[0].I(), int32(off), int32(nb))
		return i32Cell(v), ""
	}), P)
	tb.mdef("U extract_bits(U, u, u)", cw(func(ev *evaluator, in []Cell) (Cell, string) {
		off, nb := in[1].U(), in[2].U()
		if uint64(off)+uint64(nb) > 32 {
			return Cell{}, whyMSLBits
		}
		v, _ := bitfieldExtractU(in[0].U(), int32(off), int32(nb))
		return u32Cell(v), ""
	}), P)
	tb.mdef("Z insert_bits(Z, Z, u, u)", cw(func(ev *evaluator, in []Cell) (Cell, string) {
		off, nb := in[2].U(), in[3].U()
		if uint64(off)+uint64(nb) > 32 {
			return Cell{}, whyMSLBits
		}
		v, _ := bitfieldInsert32(in[0].U(), in[1].U(), int32(off), int32(nb))
		return u32Cell(v), ""
	}), P)
	tb.mdef("I mulhi(I, I)", ii2(func(a, b int32) (int32, string) { return int32((int64(a) * int64(b)) >> 32), "" }), P)
	tb.mdef("U mulhi(U, U)", uu2(func(a, b uint32) (uint32, string) { return uint32((uint64(a) * uint64(b)) >> 32), "" }), P)
	tb.mdef("I madhi(I, I, I)", cw(func(ev *evaluator, in []Cell) (Cell, string) {
		return i32Cell(int32((int64(in[0].I())*int64(in[1].I()))>>32) + in[2].I()), ""
	}), P)
	tb.mdef("U madhi(U, U, U)", cw(func(ev *evaluator, in []Cell) (Cell, string) {
		return u32Cell(uint32((uint64(in[0].U())*uint64(in[1].U()))>>32) + in[2].U()), ""
	}), P)
	tb.mdef("I addsat(I, I)", ii2(func(a, b int32) (int32, string) {
		s := int64(a) + int64(b)
		return int32(math.Max(math.MinInt32, math.Min(math.MaxInt32, float64(s)))), ""
	}), P)
	tb.mdef("U addsat(U, U)", uu2(func(a, b uint32) (uint32, string) {
		s := uint64(a) + uint64(b)
		if s > math.MaxUint32 {
			s = math.MaxUint32
		}
		return uint32(s), ""
	}), P)
	tb.mdef("I subsat(I, I)", ii2(func(a, b int32) (int32, string) {
		s := int64(a) - int64(b)
		return int32(math.Max(math.MinInt32, math.Min(math.MaxInt32, float64(s)))), ""
	}), P)
	tb.mdef("U subsat(U, U)", uu2(func(a, b uint32) (uint32, string) {
		if b > a {
			return 0, ""
		}
		return a - b, ""
	}), P)
	// ---- §6.7 geometric -----------------------------------------------------------
	sumSq := func(v Value, w *Value) (float64, uint16) {
		var s float64
		for i, c := range v.C {
			if c.P != 0 {
				return 0, c.P
			}
			x := float64(c.F())
			if w != nil {
				if w.C[i].P != 0 {
					return 0, w.C[i].P
				}
				x = float64(fsub(c.F(), w.C[i].F()))
			}
			s += x * x
		}
		return s, 0
	}
	scalarRes := func(s *builtinSig, f float64, p uint16) Value {
		return Value{T: s.ret, C: []Cell{{B: math.Float32bits(f64to32(f)), P: p}}}
	}
	tb.mdef("f length(F)", func(ev *evaluator, s *builtinSig, a []Value) Value {
		ss, p := sumSq(a[0], nil)
		return scalarRes(s, math.Sqrt(ss), p)
	}, P)
	tb.mdef("f length_squared(F)", func(ev *evaluator, s *builtinSig, a []Value) Value {
		ss, p := sumSq(a[0], nil)
		return scalarRes(s, ss, p)
	}, P)
	tb.mdef("f distance(F, F)", func(ev *evaluator, s *builtinSig, a []Value) Value {
		ss, p := sumSq(a[0], &a[1])
		return scalarRes(s, math.Sqrt(ss), p)
	}, P)
	tb.mdef("f distance_squared(F, F)", func(ev *evaluator, s *builtinSig, a []Value) Value {
		ss, p := sumSq(a[0], &a[1])
		return scalarRes(s, ss, p)
	}, P)
	dot := func(ev *evaluator, x, y Value) Cell {
		return ev.mslDot(x.T.Scalar(), len(x.C), func(i int) (Cell, Cell) { return x.C[i], y.C[i] })
	}
	tb.mdef("f dot(FV, FV)", func(ev *evaluator, s *builtinSig, a []Value) Value {
		return Value{T: s.ret, C: []Cell{dot(ev, a[0], a[1])}}
	}, P)
	tb.mdef("v3 cross(v3, v3)", func(ev *evaluator, s *builtinSig, a []Value) Value {
		r := mkValue(s.ret)
		x, y := a[0].C, a[1].C
		idx := [3][2]int{{1, 2}, {2, 0}, {0, 1}}
		for i := 0; i < 3; i++ {
			j, k := idx[i][0], idx[i][1]
			if p := firstPoison(x[j], y[k], y[j], x[k]); p != 0 {
				r.C[i].P = p
				continue
			}
			r.C[i] = f32Cell(fsub(fmul(x[j].F(), y[k].F()), fmul(y[j].F(), x[k].F())))
		}
		return r
	}, P)
	tb.mdef("F normalize(F)", func(ev *evaluator, s *builtinSig, a []Value) Value {
		r := mkValue(s.ret)
		ss, p := sumSq(a[0], nil)
		l := math.Sqrt(ss)
		for i, c := range a[0].C {
			if p != 0 {
				r.C[i].P = p
				continue
			}
			r.C[i] = f32Cell(f64to32(float64(c.F()) / l))
		}
		return r
	}, P)
	tb.mdef("F faceforward(F, F, F)", func(ev *evaluator, s *builtinSig, a []Value) Value {
		// "Returns N if dot(Nref, I) < 0.0 else -N"
		d := dot(ev, a[2], a[1])
		r := mkValue(s.ret)
		for i, c := range a[0].C {
			switch {
			case d.P != 0:
				r.C[i].P = d.P
			case c.P != 0:
				r.C[i].P = c.P
			case d.F() < 0:
				r.C[i] = c
			default:
				r.C[i] = Cell{B: c.B ^ 0x80000000}
			}
		}
		return r
	}, P)
	tb.mdef("F reflect(F, F)", func(ev *evaluator, s *builtinSig, a []Value) Value {
		// "I - 2 * dot(N, I) * N"
		d := dot(ev, a[1], a[0])
		r := mkValue(s.ret)
		for i := range r.C {
			I, N := a[0].C[i], a[1].C[i]
			if p := firstPoison(d, I, N); p != 0 {
				r.C[i].P = p
				continue
			}
			r.C[i] = f32Cell(fsub(I.F(), fmul(fmul(2, d.F()), N.F())))
		}
		return r
	}, P)
	tb.mdef("F refract(F, F, f)", func(ev *evaluator, s *builtinSig, a []Value) Value {
		// k = 1 - eta^2 (1 - dot(N,I)^2); k < 0 ? 0 : eta I - (eta dot(N,I) + sqrt(k)) N
		d := dot(ev, a[1], a[0])
		eta := a[2].C[0]
		r := mkValue(s.ret)
		if p := firstPoison(d, eta); p != 0 {
			for i := range r.C {
				r.C[i].P = p
			}
			return r
		}
		e, dd := float64(eta.F()), float64(d.F())
		k := 1 - e*e*(1-dd*dd)
		for i := range r.C {
			I, N := a[0].C[i], a[1].C[i]
			if p := firstPoison(I, N); p != 0 {
				r.C[i].P = p
				continue
			}
			if k < 0 {
				r.C[i] = f32Cell(0)
			} else {
				r.C[i] = f32Cell(f64to32(e*float64(I.F()) - (e*dd+math.Sqrt(k))*float64(N.F())))
			}
		}
		return r
	}, P)
	// ---- §6.6 matrix ------------------------------------------------------------------
	for c := 2; c <= 4; c++ {
		for r := 2; r <= 4; r++ {
			tb.mdef(fmt.Sprintf("M%d%d transpose(M%d%d)", r, c, c, r), func(ev *evaluator, s *builtinSig, a []Value) Value {
				res := mkValue(s.ret)
				in := s.params[0]
				for col := 0; col < in.Cols; col++ {
					for row := 0; row < in.Rows; row++ {
						res.C[row*in.Cols+col] = a[0].C[col*in.Rows+row]
					}
				}
				return res
			}, P)
		}
		tb.mdef(fmt.Sprintf("f determinant(M%d%d)", c, c), func(ev *evaluator, s *builtinSig, a []Value) Value {
			if p := a[0].anyPoison(); p != 0 {
				return Value{T: s.ret, C: []Cell{{P: p}}}
			}
			return Value{T: s.ret, C: []Cell{f32Cell(f64to32(det64(matTo64(a[0]))))}}
		}, P)
	}
	// ---- pack / unpack ---------------------------------------------------------------
	packN := func(n int, lo, scale float32, bitsPer uint) builtinImpl {
		return func(ev *evaluator, s *builtinSig, a []Value) Value {
			var out uint32
			var p uint16
			for i := 0; i < n; i++ {
				c := a[0].C[i]
				if c.P != 0 {
					p = c.P
					continue
				}
				x := c.F()
				pr := float64(fminM(fmaxM(x, lo), 1)) * float64(scale)
				if pr-math.Floor(pr) == 0.5 {
					p = ev.poison("pack_float_to_*norm*: the rounding of an exact tie is implementation-dependent (MSL §7.7 conversion rules: round-to-nearest-even preferred, 0.6 ulp allowed)")
				}
				v := mslPackUnit(ev, x, lo, scale)
				out |= (uint32(v) & (1<<bitsPer - 1)) << (uint(i) * bitsPer)
			}
			return Value{T: tUint, C: []Cell{{B: out, P: p}}}
		}
	}
	unpackN := func(n int, signed bool, scale float32, bitsPer uint) builtinImpl {
		return func(ev *evaluator, s *builtinSig, a []Value) Value {
			r := mkValue(s.ret)
			c := a[0].C[0]
			for i := 0; i < n; i++ {
				if c.P != 0 {
					r.C[i].P = c.P
					continue
				}
				raw := (c.B >> (uint(i) * bitsPer)) & (1<<bitsPer - 1)
				var f float32
				if signed {
					sh := 32 - bitsPer
					iv := int32(raw<<sh) >> sh
					f = fmaxM(fdiv(float32(iv), scale), -1)
				} else {
					f = fdiv(float32(raw), scale)
				}
				r.C[i] = f32Cell(f)
			}
			return r
		}
	}
	tb.mdef("u pack_float_to_unorm4x8(f4)", packN(4, 0, 255, 8), P)
	tb.mdef("u pack_float_to_snorm4x8(f4)", packN(4, -1, 127, 8), P)
	tb.mdef("u pack_float_to_unorm2x16(f2)", packN(2, 0, 65535, 16), P)
	tb.mdef("u pack_float_to_snorm2x16(f2)", packN(2, -1, 32767, 16), P)
	tb.mdef("f4 unpack_unorm4x8_to_float(u)", unpackN(4, false, 255, 8), P)
	tb.mdef("f4 unpack_snorm4x8_to_float(u)", unpackN(4, true, 127, 8), P)
	tb.mdef("f2 unpack_unorm2x16_to_float(u)", unpackN(2, false, 65535, 16), P)
	tb.mdef("f2 unpack_snorm2x16_to_float(u)", unpackN(2, true, 32767, 16), P)
	return tb
}

// ---------------------------------------------------------------------------
// calls
// ---------------------------------------------------------------------------

func (x *mslCall) checkCustom(c *checker) Expr {
	r := c.rules.(*mslRules)
	if x.sig != nil || x.spec != mslPlain {
		return x
	}
	for i := range x.Args {
		x.Args[i] = c.value(x.Args[i])
		if x.Args[i].base().T == tInitList {
			c.unsupported(x.Args[i].base().Pos, "braced initializer list as a function argument")
		}
	}
	full := "metal::" + x.Name
	switch {
	case x.Name == "threadgroup_barrier":
		if len(x.Args) != 1 || x.Args[0].base().T != tMemFlags {
			c.invalid(x.Pos, "no-overload", "no matching function for call to %s%s (void threadgroup_barrier(mem_flags))", full, mslArgTypes(x.Args))
		}
		if fi := r.st.funcInfo[c.fn]; c.fn == nil || fi == nil {
			c.unsupported(x.Pos, "threadgroup_barrier outside a function")
		}
		x.spec = mslBarrier
		x.T = tVoid
		c.fn.hasBarrier = true
		return x
	case mslAtomicFuncs[x.Name]:
		r.checkAtomic(c, x)
		return x
	}
	sigs := mslBuiltins().byName[x.Name]
	if len(sigs) == 0 {
		if mslIsUnmodelledFunc(x.Name) || strings.Contains(x.Name, "::") {
			c.unsupported(x.Pos, "function %s", full)
		}
		// not a function this front end knows: it cannot tell whether the
		// Metal standard library has it
		c.unsupported(x.Pos, "function %s (unknown to this front end)", full)
	}
	for _, a := range x.Args {
		at := mslUnpack(a.base().T)
		sc := at.Scalar()
		if sc == nil || (sc.Var != nil && sc != tHalf) || at.Kind == KDouble {
			c.unsupported(x.Pos, "%s with an argument of type %s", full, mslTypeString(a.base().T))
		}
	}
	var cands []candidate
	for _, s := range sigs {
		dirs := make([]string, len(s.params))
		for i := range dirs {
			dirs[i] = "in"
			if s.out != nil && s.out[i] {
				dirs[i] = "ref"
			}
		}
		cands = append(cands, candidate{s.params, dirs, s})
	}
	fake := &Call{ExprBase: ExprBase{Pos: x.Pos}, Name: full, Args: x.Args}
	ref, why := c.pickOverload(fake, cands)
	if ref == nil {
		if (x.Name == "all" || x.Name == "any") && len(x.Args) == 1 && mslArith(x.Args[0].base().T) {
			// the specification lists the vector forms; whether a scalar
			// overload exists (naga calls it for WGSL all(bool)) is not certain
			c.unsupported(x.Pos, "%s(bool)", full)
		}
		if why == "ambiguous" {
			c.invalid(x.Pos, "no-overload", "call to %s%s is ambiguous", full, mslArgTypes(x.Args))
		}
		c.invalid(x.Pos, "no-overload", "no matching function for call to %s%s", full, mslArgTypes(x.Args))
	}
	sig := ref.(*builtinSig)
	x.sig = sig
	x.T = sig.ret
	x.Const = sig.pure
	for i, a := range x.Args {
		if sig.out != nil && sig.out[i] {
			c.requireWritable(a, fmt.Sprintf("argument %d of %s (reference parameter)", i+1, full))
			x.Const = false
			continue
		}
		conv := c.convertTo(a, sig.params[i])
		if conv == nil {
			c.invalid(a.base().Pos, "type", "argument %d of %s: cannot convert %s to %s", i+1, full, mslTypeString(a.base().T), mslTypeString(sig.params[i]))
		}
		x.Args[i] = conv
		if !conv.base().Const {
			x.Const = false
		}
	}
	return x
}

// checkAtomic: MSL §6.15? "Atomic Functions": the object is reached through a
// pointer to an atomic type in the device or threadgroup address space;
// memory_order_relaxed is the only order of the *_explicit functions.
func (r *mslRules) checkAtomic(c *checker, x *mslCall) {
	full := "metal::" + x.Name
	if x.Name == "atomic_min_explicit" || x.Name == "atomic_max_explicit" {
		c.unsupported(x.Pos, "function %s", full)
	}
	nargs := map[string]int{"atomic_load_explicit": 2, "atomic_store_explicit": 3, "atomic_compare_exchange_weak_explicit": 5}[x.Name]
	if nargs == 0 {
		nargs = 3
	}
	if len(x.Args) != nargs {
		c.invalid(x.Pos, "no-overload", "no matching function for call to %s%s", full, mslArgTypes(x.Args))
	}
	pt := x.Args[0].base().T
	if pt.Kind != KPtr || !mslIsAtomic(pt.Elem) {
		if pt.Kind == KPtr && pt.Elem.Kind == KOpaque {
			c.unsupported(x.Pos, "%s on %s", full, mslTypeString(pt))
		}
		c.invalid(x.Pos, "no-overload", "no matching function for call to %s%s: the first argument must be a pointer to an atomic object", full, mslArgTypes(x.Args))
	}
	if pt.Space != "device" && pt.Space != "threadgroup" {
		c.invalid(x.Pos, "type", "%s: atomic objects live in the device or threadgroup address space, the pointer is to %s (MSL §2.6)", full, pt.Space)
	}
	vt := tUint
	if pt.Elem == tAtomicInt {
		vt = tInt
	}
	order := func(i int) {
		if x.Args[i].base().T != tMemOrder {
			c.invalid(x.Args[i].base().Pos, "type", "%s: argument %d must be a metal::memory_order", full, i+1)
		}
		if e, ok := x.Args[i].(*mslEnum); !ok || e.val != 0 {
			c.invalid(x.Args[i].base().Pos, "type", "%s: memory_order_relaxed is the only supported memory order (MSL atomic functions)", full)
		}
	}
	value := func(i int) {
		conv := c.convertTo(x.Args[i], vt)
		if conv == nil {
			c.invalid(x.Args[i].base().Pos, "type", "%s: cannot convert argument %d of type %s to %s", full, i+1, mslTypeString(x.Args[i].base().T), mslTypeString(vt))
		}
		x.Args[i] = conv
	}
	x.spec = mslAtomicOp
	switch x.Name {
	case "atomic_load_explicit":
		order(1)
		x.T = vt
	case "atomic_store_explicit":
		value(1)
		order(2)
		x.T = tVoid
	case "atomic_compare_exchange_weak_explicit":
		et := x.Args[1].base().T
		if et.Kind != KPtr || et.Elem != vt || et.Space != "thread" {
			c.invalid(x.Args[1].base().Pos, "type", "%s: the expected value is passed as thread %s*, got %s", full, mslTypeString(vt), mslTypeString(et))
		}
		value(2)
		order(3)
		order(4)
		x.spec = mslAtomicCAS
		x.T = tBool
	default:
		value(1)
		order(2)
		x.T = vt
	}
}

func (x *mslCall) evalCustom(ev *evaluator) Value {
	switch x.spec {
	case mslBarrier:
		ev.eval(x.Args[0])
		ev.barrier(x.Pos)
		return Value{T: tVoid}
	case mslAtomicOp, mslAtomicCAS:
		return x.evalAtomic(ev)
	}
	sig := x.sig
	args := make([]Value, len(x.Args))
	var refs []Ref
	if sig.out != nil {
		refs = make([]Ref, len(x.Args))
	}
	for i, a := range x.Args {
		if sig.out != nil && sig.out[i] {
			refs[i] = ev.evalRef(a)
			continue
		}
		args[i] = ev.eval(a)
	}
	ret := sig.impl(ev, sig, args)
	for i := range args {
		if sig.out != nil && sig.out[i] {
			ev.store(refs[i], args[i], x.Pos)
		}
	}
	return ret
}

func (x *mslCall) evalAtomic(ev *evaluator) Value {
	if ev.constMode {
		ev.trap("atomic function in a constant expression")
	}
	ref := ev.evalRef(x.Args[0])
	if x.Name == "atomic_store_explicit" {
		v := ev.eval(x.Args[1])
		ev.eval(x.Args[2])
		ev.store(ref, Value{T: ref.T, C: []Cell{v.C[0]}}, x.Pos)
		return Value{T: tVoid}
	}
	old := ev.load(ref)
	if p := old.anyPoison(); p != 0 {
		ev.observe(p, "undefined value read by metal::"+x.Name, x.Pos)
	}
	vt := tUint
	if ref.T == tAtomicInt {
		vt = tInt
	}
	oldV := Value{T: vt, C: []Cell{old.C[0]}}
	put := func(c Cell) { ev.store(ref, Value{T: ref.T, C: []Cell{c}}, x.Pos) }
	if x.spec == mslAtomicCAS {
		// the weak form may fail spuriously (C++14 [atomics.types.operations.req]/25);
		// the interpreter never does: counted so that callers can tell
		ev.info("atomic.compare_exchange_weak")
		eref := ev.evalRef(x.Args[1])
		exp := ev.load(eref)
		des := ev.eval(x.Args[2])
		ev.eval(x.Args[3])
		ev.eval(x.Args[4])
		if p := firstPoison(old.C[0], exp.C[0]); p != 0 {
			put(Cell{P: p})
			return Value{T: tBool, C: []Cell{{P: p}}}
		}
		if old.C[0].B == exp.C[0].B {
			put(des.C[0])
			return boolValue(true)
		}
		ev.store(eref, Value{T: eref.T, C: []Cell{old.C[0]}}, x.Pos)
		return boolValue(false)
	}
	switch x.Name {
	case "atomic_load_explicit":
		ev.eval(x.Args[1])
		return oldV
	}
	v := ev.eval(x.Args[1])
	ev.eval(x.Args[2])
	o, d := old.C[0], v.C[0]
	if p := firstPoison(o, d); p != 0 {
		put(Cell{P: p})
		return oldV
	}
	var n uint32
	signed := vt == tInt
	switch x.Name {
	case "atomic_exchange_explicit":
		n = d.B
	case "atomic_fetch_add_explicit":
		n = o.B + d.B // atomic arithmetic wraps: C++14 [atomics.types.operations.req]/29 "no undefined results"
	case "atomic_fetch_sub_explicit":
		n = o.B - d.B
	case "atomic_fetch_and_explicit":
		n = o.B & d.B
	case "atomic_fetch_or_explicit":
		n = o.B | d.B
	case "atomic_fetch_xor_explicit":
		n = o.B ^ d.B
	case "atomic_fetch_min_explicit":
		n = o.B
		if (signed && d.I() < o.I()) || (!signed && d.U() < o.U()) {
			n = d.B
		}
	case "atomic_fetch_max_explicit":
		n = o.B
		if (signed && d.I() > o.I()) || (!signed && d.U() > o.U()) {
			n = d.B
		}
	default:
		ev.trap("unsupported: metal::%s", x.Name)
	}
	put(Cell{B: n})
	return oldV
}
