package ctext

import "testing"

// WGSL cases written for the MSL dialect (constructs whose MSL translation
// differs in kind from the GLSL one: packed vec3 members, wrapper structs,
// reference parameters into storage / workgroup memory, helper functions for
// division, f16, `?:` operands).  Expectations are computed by hand from WGSL.

func f16s(v ...uint16) []byte {
	b := make([]byte, 2*len(v))
	for i, x := range v {
		b[2*i] = byte(x)
		b[2*i+1] = byte(x >> 8)
	}
	return b
}

func TestNagaMSLExtra(t *testing.T) {
	runNagaCasesMSL(t, []nagaCase{
		{
			name: "select as an operand",
			wgsl: outF + inF + `@compute @workgroup_size(1) fn main() {
  o[0] = 1.0 + select(1.0, 2.0, a[0] > 1.0) + 3.0;          // 1 + 2 + 3
  o[1] = select(10.0, 20.0, a[0] < 1.0) * 2.0;              // 10 * 2
  let k = select(1, 2, a[0] > 1.0) * 10 + select(3, 4, a[1] > 5.0);  // 20 + 3
  o[2] = f32(k);
  o[3] = -select(5.0, 6.0, a[1] == 1.0);                    // -6
}`,
			bufs: map[gb][]byte{{0, 0}: zeros(16), {0, 1}: f32s(2, 1)},
			want: map[gb][]any{{0, 0}: wordsOf(float32(6), float32(20), float32(23), float32(-6))},
		},
		{
			name: "swizzle of a binary expression, same size",
			wgsl: outF + inF + `@compute @workgroup_size(1) fn main() {
  let p = vec2<f32>(a[0], a[1]);       // (1, 2)
  let q = vec2<f32>(a[2], a[3]);       // (3, 5)
  let s = (p + q).yx;                  // (7, 4)
  o[0] = s.x;
  o[1] = (p - q)[1] + (-p).y;          // -3 - 2
}`,
			bufs: map[gb][]byte{{0, 0}: zeros(8), {0, 1}: f32s(1, 2, 3, 5)},
			want: map[gb][]any{{0, 0}: wordsOf(float32(7), float32(-5))},
		},
		{
			name: "swizzle of a binary expression, widening",
			wgsl: outF + inF + `@compute @workgroup_size(1) fn main() {
  let p = vec2<f32>(a[0], a[1]);       // (1, 2)
  let q = vec2<f32>(a[2], a[3]);       // (3, 5)
  let r = (p * q).xxyy;                // (3, 3, 10, 10)
  o[0] = r.x + r.w;
}`,
			bufs: map[gb][]byte{{0, 0}: zeros(4), {0, 1}: f32s(1, 2, 3, 5)},
			want: map[gb][]any{{0, 0}: wordsOf(float32(13))},
		},
		{
			name: "firstLeadingBit of an unsigned all-ones value",
			wgsl: outU + inU + `@compute @workgroup_size(1) fn main() {
  o[0] = firstLeadingBit(a[0]);                 // 0xFFFFFFFF: most significant 1 bit is bit 31
  o[1] = firstLeadingBit(a[1]);                 // 0 -> 0xFFFFFFFF
  o[2] = firstLeadingBit(vec2<u32>(a[0], 0x80000000u)).x + firstLeadingBit(vec2<u32>(a[0], 0x80000000u)).y;  // 31 + 31
  o[3] = bitcast<u32>(firstLeadingBit(bitcast<i32>(a[0])));   // i32 -1 -> -1
}`,
			bufs: map[gb][]byte{{0, 0}: zeros(16), {0, 1}: u32s(0xFFFFFFFF, 0)},
			want: map[gb][]any{{0, 0}: wordsOf(uint32(31), uint32(0xFFFFFFFF), uint32(62), uint32(0xFFFFFFFF))},
		},
		{
			name: "component of a constant matrix built from splats",
			wgsl: outF + inF + `@compute @workgroup_size(1) fn main() {
  const m: mat2x4<f32> = mat2x4<f32>(vec4<f32>(2.0), vec4<f32>(1.0, 2.0, 3.0, 4.0));
  o[0] = m[0i][0i] + a[0];              // 2 + 5
  o[1] = m[1][2] + a[0];                // 3 + 5
}`,
			bufs: map[gb][]byte{{0, 0}: zeros(8), {0, 1}: f32s(5)},
			want: map[gb][]any{{0, 0}: wordsOf(float32(7), float32(8))},
		},
		{
			name: "integer remainder assignment through a pointer",
			wgsl: outI + inI + `
fn f(p: ptr<function, i32>) { (*p) %= a[1]; }
@compute @workgroup_size(1) fn main() {
  var x = a[0];                         // 17
  f(&x);                                // 17 % 5
  o[0] = x;
  var u = 23u;
  let q = &u;
  (*q) %= 7u;
  o[1] = i32(u);
}`,
			bufs: map[gb][]byte{{0, 0}: zeros(8), {0, 1}: i32s(17, 5)},
			want: map[gb][]any{{0, 0}: wordsOf(2, 2)},
		},
		{
			name: "constant-folded matrix sum",
			wgsl: outF + inF + `@compute @workgroup_size(1) fn main() {
  var v = (mat2x2<f32>(3.0, 0.75, -1.0, 0.0) + mat2x2<f32>(vec2<f32>(-0.125), vec2<f32>(0.0)));
  o[0] = v[0][0] + v[1][0] + a[0];      // 2.875 - 1 + 5
}`,
			bufs: map[gb][]byte{{0, 0}: zeros(4), {0, 1}: f32s(5)},
			want: map[gb][]any{{0, 0}: wordsOf(float32(6.875))},
		},
		{
			name: "negative literal in a private struct initializer",
			wgsl: outI + inI + `
struct S { a: u32, b: i32, c: array<u32, 2> }
var<private> pv: S = S(7u, (-1i), array<u32, 2>(1u, 2u));
@compute @workgroup_size(1) fn main() {
  o[0] = pv.b + a[0];                   // -1 + 10
  o[1] = i32(pv.a + pv.c[1]);           // 9
}`,
			bufs: map[gb][]byte{{0, 0}: zeros(8), {0, 1}: i32s(10)},
			want: map[gb][]any{{0, 0}: wordsOf(9, 9)},
		},
		{
			name: "wrapping add on a vec3 member of a local struct",
			wgsl: "struct S { a: u32, v: vec3<i32>, b: u32 }\n@group(0) @binding(0) var<storage, read_write> o: array<i32>;\n@group(0) @binding(1) var<storage, read> s: S;\n" + `
@compute @workgroup_size(1) fn main() {
  let loc = s;
  let r = (vec3<i32>(-1, 4, -4) & loc.v) + loc.v;   // v = (6, 5, 3): (6, 4, 0) + (6, 5, 3)
  o[0] = r.x * 100 + r.y * 10 + r.z;
}`,
			bufs: map[gb][]byte{{0, 0}: zeros(4), {0, 1}: cat(u32s(1, 0, 0, 0), i32s(6, 5, 3), u32s(2))},
			want: map[gb][]any{{0, 0}: wordsOf(1293)},
		},
		{
			name: "member of a constant struct that holds a vector",
			wgsl: outU + inU + `
struct S { a: i32, b: u32, v: vec3<i32>, c: u32, d: f32 }
@compute @workgroup_size(1) fn main() {
  const k: S = S(0i, 3u, vec3<i32>(-3i, 127i, -8i), 2147483648u, 2.5f);
  o[0] = k.c + a[0];                    // 0x80000000 + 1
  o[1] = u32(k.d * 2.0) + k.b;          // 5 + 3
}`,
			bufs: map[gb][]byte{{0, 0}: zeros(8), {0, 1}: u32s(1)},
			want: map[gb][]any{{0, 0}: wordsOf(uint32(0x80000001), uint32(8))},
		},
		{
			name: "private initializer with a vector conversion",
			wgsl: outU + inU + `
var<private> pv: vec2<bool> = vec2<bool>(vec2<i32>(1, 0));
var<private> pf: vec2<f32> = vec2<f32>(vec2<u32>(3u, 4u));
@compute @workgroup_size(1) fn main() {
  o[0] = u32(pv.x) + u32(pv.y) * 2u + a[0];     // 1 + 0 + 10
  o[1] = u32(pf.x + pf.y);                      // 7
}`,
			bufs: map[gb][]byte{{0, 0}: zeros(8), {0, 1}: u32s(10)},
			want: map[gb][]any{{0, 0}: wordsOf(uint32(11), uint32(7))},
		},
		{
			name: "integer division and remainder edge cases",
			wgsl: outI + inI + `@compute @workgroup_size(1) fn main() {
  // WGSL: x / 0 = x, MIN / -1 = MIN, x % 0 = 0, MIN % -1 = 0, % takes the sign of the dividend
  o[0] = a[0] / a[1];        // 7 / 0 = 7
  o[1] = a[2] / a[3];        // MIN / -1 = MIN
  o[2] = a[0] % a[1];        // 7 % 0 = 0
  o[3] = a[2] % a[3];        // MIN % -1 = 0
  o[4] = a[4] % a[5];        // -7 % 3 = -1
  o[5] = a[0] % a[3] + a[4] / a[5];  // 7 % -1 = 0 ; -7 / 3 = -2
  let u = vec2<u32>(u32(a[0]), 9u) / vec2<u32>(u32(a[1]), 2u);   // (7 / 0 = 7, 4)
  o[6] = i32(u.x * 10u + u.y);
  let v = vec2<i32>(a[4], a[0]) % vec2<i32>(a[5], a[1]);         // (-1, 0)
  o[7] = v.x * 10 + v.y;
  o[8] = i32(u32(a[0]) % u32(a[1])) + i32(9u % 4u);              // 0 + 1
}`,
			bufs: map[gb][]byte{{0, 0}: zeros(36), {0, 1}: i32s(7, 0, -2147483648, -1, -7, 3)},
			want: map[gb][]any{{0, 0}: wordsOf(7, -2147483648, 0, 0, -1, -2, 74, -10, 1)},
		},
		{
			name: "shift amounts and wrapping arithmetic",
			wgsl: outU + inU + `@compute @workgroup_size(1) fn main() {
  o[0] = a[0] << a[1];                  // WGSL: the amount is taken modulo 32: 3 << (33 % 32) = 6
  o[1] = a[2] >> a[1];                  // 0x80000000 >> 1
  o[2] = bitcast<u32>(bitcast<i32>(a[2]) >> a[1]);   // arithmetic: 0xC0000000
  o[3] = bitcast<u32>(bitcast<i32>(a[3]) * 3);       // 0x7FFFFFFF * 3 wraps: 0x7FFFFFFD
  o[4] = bitcast<u32>(-bitcast<i32>(a[2]));          // -MIN = MIN
  o[5] = bitcast<u32>(abs(bitcast<i32>(a[2])));      // abs(MIN) = MIN
  o[6] = bitcast<u32>(bitcast<i32>(a[3]) + bitcast<i32>(a[3]));  // wraps to -2
}`,
			bufs: map[gb][]byte{{0, 0}: zeros(28), {0, 1}: u32s(3, 33, 0x80000000, 0x7FFFFFFF)},
			want: map[gb][]any{{0, 0}: wordsOf(uint32(6), uint32(0x40000000), uint32(0xC0000000), uint32(0x7FFFFFFD), uint32(0x80000000), uint32(0x80000000), uint32(0xFFFFFFFE))},
		},
		{
			name: "integer dot product wraps",
			wgsl: outI + inI + `@compute @workgroup_size(1) fn main() {
  let p = vec2<i32>(a[0], a[1]);        // (65536, 1)
  o[0] = dot(p, p);                     // 2^32 + 1 wraps to 1
  let q = vec3<u32>(65536u, 2u, 3u);
  o[1] = i32(dot(q, q));                // 0 + 4 + 9
}`,
			bufs: map[gb][]byte{{0, 0}: zeros(8), {0, 1}: i32s(65536, 1)},
			want: map[gb][]any{{0, 0}: wordsOf(1, 13)},
		},
		{
			name: "packed vec3 members and struct copies",
			// S { a: vec3<f32> @0, b: f32 @12, c: vec3<i32> @16, d: vec3<u32> @32, e: u32 @44 } size 48
			wgsl: "struct S { a: vec3<f32>, b: f32, c: vec3<i32>, d: vec3<u32>, e: u32 }\n@group(0) @binding(0) var<storage, read_write> s: S;\n@group(0) @binding(1) var<storage, read_write> o: array<f32>;\n@group(0) @binding(2) var<uniform> u: S;\n" + `
fn scale(p: S, k: f32) -> S { var r = p; r.a = r.a * k; r.c.y = 50; return r; }
@compute @workgroup_size(1) fn main() {
  let t = s;                            // whole struct load
  o[0] = t.a.x + t.a.z + t.b;           // 1 + 3 + 4
  s.a = u.a + vec3<f32>(0.5);           // (10.5, 20.5, 30.5): must not touch b
  s.a.y = 7.0;
  s.c = vec3<i32>(-1, -2, -3);          // must not touch the word after it (d.x is separate)
  s.d.z = u.d.z + s.e;                  // 33 + 9
  var loc = scale(u, 2.0);
  o[1] = loc.a.y + f32(loc.c.y) + f32(loc.d.x) + f32(loc.e);   // 40 + 50 + 31 + 99
  loc.a = loc.a.zyx;
  o[2] = loc.a.x;                       // 60
  o[3] = f32(u.c.z) + u.b;              // 7 + 44
}`,
			bufs: map[gb][]byte{{0, 0}: cat(f32s(1, 2, 3, 4), i32s(5, 6, 7), u32s(8, 8, 8, 8, 9)), {0, 1}: zeros(16),
				{0, 2}: cat(f32s(10, 20, 30, 44), i32s(5, 6, 7, 0), u32s(31, 32, 33, 99))},
			want: map[gb][]any{
				{0, 1}: wordsOf(float32(8), float32(220), float32(60), float32(51)),
				{0, 0}: wordsOf(float32(10.5), float32(7), float32(30.5), float32(4), -1, -2, -3, skip, uint32(8), uint32(8), uint32(42), uint32(9)),
			},
		},
		{
			name: "references into storage and workgroup memory",
			wgsl: "struct E { v: vec3<i32>, w: i32 }\n@group(0) @binding(0) var<storage, read_write> es: array<E, 3>;\n@group(0) @binding(1) var<storage, read_write> o: array<i32>;\n" + `
var<workgroup> wg: array<i32, 4>;
var<private> pv: vec2<i32> = vec2<i32>(3, 4);
fn bump_s(p: ptr<storage, E, read_write>, by: i32) -> i32 { (*p).w += by; (*p).v.y = by; return (*p).w; }
fn bump_w(p: ptr<workgroup, array<i32, 4>>, i: i32) { (*p)[i] = (*p)[i] * 2 + 1; }
fn bump_p(p: ptr<private, vec2<i32>>) { (*p).x += (*p).y; }
@compute @workgroup_size(1) fn main() {
  o[0] = bump_s(&es[1], 5);             // w: 7 + 5
  o[1] = bump_s(&es[2], -1);            // w: 0 - 1
  wg[2] = 10;
  bump_w(&wg, 2);                       // 21
  bump_w(&wg, 2);                       // 43
  o[2] = wg[2];
  bump_p(&pv); bump_p(&pv);             // x: 3 + 4 + 4
  o[3] = pv.x * 10 + pv.y;
}`,
			bufs: map[gb][]byte{{0, 0}: i32s(1, 2, 3, 0, 4, 5, 6, 7, 7, 8, 9, 0), {0, 1}: zeros(16)},
			want: map[gb][]any{
				{0, 1}: wordsOf(12, -1, 43, 114),
				{0, 0}: wordsOf(1, 2, 3, 0, 4, 5, 6, 12, 7, -1, 9, -1),
			},
		},
		{
			name: "references into storage that is also written directly",
			wgsl: "struct E { v: vec3<i32>, w: i32 }\n@group(0) @binding(0) var<storage, read_write> es: array<E, 3>;\n@group(0) @binding(1) var<storage, read_write> o: array<i32>;\n" + `
fn bump_s(p: ptr<storage, E, read_write>, by: i32) -> i32 { (*p).w += by; (*p).v.y = by; return (*p).w; }
fn rd(p: ptr<storage, array<E, 3>, read_write>, i: i32) -> i32 { return (*p)[i].v.z; }
@compute @workgroup_size(1) fn main() {
  es[0].w = 100;
  o[0] = bump_s(&es[1], 5);             // w: 7 + 5
  o[1] = bump_s(&es[0], -1);            // w: 100 - 1
  o[2] = rd(&es, 2) + rd(&es, 0);       // 9 + 3
}`,
			bufs: map[gb][]byte{{0, 0}: i32s(1, 2, 3, 0, 4, 5, 6, 7, 7, 8, 9, 0), {0, 1}: zeros(12)},
			want: map[gb][]any{
				{0, 1}: wordsOf(12, 99, 12),
				{0, 0}: wordsOf(1, -1, 3, 99, 4, 5, 6, 12, 7, 8, 9, 0),
			},
		},
		{
			name: "references into workgroup and private memory",
			wgsl: outI + `
var<workgroup> wg: array<i32, 4>;
var<private> pv: vec2<i32> = vec2<i32>(3, 4);
fn bump_w(p: ptr<workgroup, array<i32, 4>>, i: i32) { (*p)[i] = (*p)[i] * 2 + 1; }
fn bump_p(p: ptr<private, vec2<i32>>) { (*p).x += (*p).y; }
fn bump_f(p: ptr<function, array<i32, 2>>, q: ptr<function, i32>) { (*p)[1] += *q; *q = 0; }
@compute @workgroup_size(1) fn main() {
  wg[2] = 10;
  bump_w(&wg, 2);                       // 21
  bump_w(&wg, 2);                       // 43
  o[0] = wg[2];
  bump_p(&pv); bump_p(&pv);             // x: 3 + 4 + 4
  o[1] = pv.x * 10 + pv.y;
  var arr = array<i32, 2>(1, 2); var k = 5;
  bump_f(&arr, &k); bump_f(&arr, &k);   // arr[1] = 7, k = 0
  o[2] = arr[0] * 100 + arr[1] * 10 + k;
}`,
			bufs: map[gb][]byte{{0, 0}: zeros(12)},
			want: map[gb][]any{{0, 0}: wordsOf(43, 114, 170)},
		},
		{
			name: "f16 arithmetic and storage",
			// H { a: f16 @0, b: vec2<f16> @4, c: vec3<f16> @8, d: f16 @14, m: mat2x2<f16> @16, e: f32 @24 } size 32
			wgsl: "enable f16;\nstruct H { a: f16, b: vec2<f16>, c: vec3<f16>, d: f16, m: mat2x2<f16>, e: f32 }\n" +
				"@group(0) @binding(0) var<storage, read_write> o: array<f32>;\n@group(0) @binding(1) var<storage, read_write> h: H;\n@group(0) @binding(2) var<storage, read> hs: array<f16>;\n" + `
@compute @workgroup_size(1) fn main() {
  let x = hs[0] + hs[1];                // 1.5 + 2.25
  h.a = x * 2.0h;                       // 7.5
  h.b = vec2<f16>(hs[2], x);            // (3, 3.75)
  h.c = vec3<f16>(1.0h, 2.0h, 3.0h) * hs[1];   // (2.25, 4.5, 6.75)
  h.d = f16(o[1]);                      // 0.1 rounds to 0x2E66
  h.m[1] = vec2<f16>(5.0h, 6.0h);
  o[0] = f32(h.a) + f32(h.c.z) + f32(dot(h.b, h.b));   // 7.5 + 6.75 + 23.0625
  o[2] = f32(i32(hs[3])) + f32(max(hs[0], hs[1])) + f32(u32(hs[2]));   // -2 + 2.25 + 3
  o[3] = f32(hs[4] + hs[5]);            // 2048 + 1 is not representable in f16: ties to even -> 2048
}`,
			bufs: map[gb][]byte{{0, 0}: f32s(0, 0.1, 0, 0), {0, 1}: zeros(32), {0, 2}: f16s(0x3E00, 0x4080, 0x4200, 0xC180, 0x6800, 0x3C00)},
			want: map[gb][]any{
				{0, 0}: wordsOf(float32(37.3125), float32(0.1), float32(3.25), float32(2048)),
				{0, 1}: wordsOf(uint32(0x00004780), uint32(0x43804200), uint32(0x44804080), uint32(0x2E6646C0), uint32(0), uint32(0x46004500), uint32(0)),
			},
		},
		{
			name: "matrices in arrays and uniform mat2x2",
			// U { m: mat2x2<f32> @0 (16), am: array<mat2x2<f32>, 2> @16 (32), t: f32 @48 } size 56
			wgsl: "struct U { m: mat2x2<f32>, am: array<mat2x2<f32>, 2>, t: f32 }\n@group(0) @binding(0) var<storage, read_write> o: array<f32>;\n@group(0) @binding(1) var<uniform> u: U;\n@group(0) @binding(2) var<storage, read_write> s: U;\n" + `
@compute @workgroup_size(1) fn main() {
  o[0] = u.m[1][0] + u.m[0][1];                  // 3 + 2
  o[1] = u.am[1][0].y + u.am[0][1].x + u.t;      // 10 + 7 + 99
  let i = u32(u.m[0][0]);                        // 1
  o[2] = u.am[i][i].x;                           // am[1][1].x = 11
  let p = u.am[0] * u.m;                         // am0 = (5,6),(7,8); m = (1,2),(3,4): col0 = 5+14, 6+16 ; col1 = 15+28, 18+32
  o[3] = p[0].x + p[1].y;                        // 19 + 50
  s.am[i] = u.m;
  s.am[0][1] = vec2<f32>(70.0, 80.0);
  s.m[i][0] = 30.0;
  s.t = determinant(u.am[1]);                    // 9*12 - 11*10 = -2
}`,
			bufs: map[gb][]byte{{0, 0}: zeros(16), {0, 1}: cat(f32s(1, 2, 3, 4), f32s(5, 6, 7, 8, 9, 10, 11, 12), f32s(99, 0)), {0, 2}: zeros(56)},
			want: map[gb][]any{
				{0, 0}: wordsOf(float32(5), float32(116), float32(11), float32(69)),
				{0, 2}: wordsOf(float32(0), float32(0), float32(30), float32(0), float32(0), float32(0), float32(70), float32(80), float32(1), float32(2), float32(3), float32(4), float32(-2)),
			},
		},
		{
			name: "constant arrays let arrays and dynamic indexing",
			wgsl: outI + inI + `
const K = array<vec2<i32>, 3>(vec2<i32>(1, 2), vec2<i32>(3, 4), vec2<i32>(5, 6));
struct T { a: array<i32, 3>, b: i32 }
fn pick(t: T, i: i32) -> i32 { return t.a[i] + t.b; }
@compute @workgroup_size(1) fn main() {
  let i = a[0]; let j = a[1];             // 2, 1
  o[0] = K[i].y * 10 + K[j][0];           // 60 + 3
  let la = array<i32, 4>(a[0], a[1], 7, 8);
  o[1] = la[i] + la[j + 2];               // 7 + 8
  var t = T(array<i32, 3>(10, 20, 30), 5);
  t.a[j] = 21;
  o[2] = pick(t, j) + pick(t, 0);         // 26 + 15
  var m = array<array<i32, 2>, 2>(array<i32, 2>(1, 2), array<i32, 2>(3, 4));
  m[j][0] = m[0][j] * 10;                 // m[1][0] = 20
  o[3] = m[1][0] + m[1][1];               // 24
  let vv = vec4<i32>(9, 8, 7, 6);
  o[4] = vv[i] * 10 + vec3<i32>(1, 2, 3)[j];   // 70 + 2
}`,
			bufs: map[gb][]byte{{0, 0}: zeros(20), {0, 1}: i32s(2, 1)},
			want: map[gb][]any{{0, 0}: wordsOf(63, 15, 41, 24, 72)},
		},
		{
			name: "float builtins on vectors with scalar operands",
			wgsl: outF + inF + `@compute @workgroup_size(1) fn main() {
  let v = vec3<f32>(a[0], a[1], a[2]);           // -1, 0.5, 3
  let c = clamp(v, vec3<f32>(0.0), vec3<f32>(1.0));   // 0, 0.5, 1
  o[0] = c.x + c.y * 10.0 + c.z * 100.0;
  let m = mix(v, vec3<f32>(1.0), 0.5);           // 0, 0.75, 2
  o[1] = m.x + m.y * 10.0 + m.z * 100.0;
  let s = step(vec3<f32>(0.5), v);               // 0, 1, 1
  o[2] = s.x + s.y * 10.0 + s.z * 100.0;
  let sm = smoothstep(vec3<f32>(0.0), vec3<f32>(1.0), v);   // 0, 0.5, 1
  o[3] = sm.x + sm.y * 10.0 + sm.z * 100.0;
  let mn = min(v, vec3<f32>(0.75)) + max(v, vec3<f32>(0.75));   // (-1 + 0.75, 0.5 + 0.75, 0.75 + 3)
  o[4] = mn.x + mn.y * 10.0 + mn.z * 100.0;      // -0.25 + 12.5 + 375
  let sg = sign(v) + floor(v) + fract(v);        // (-1 -1 + 0, 1 + 0 + 0.5, 1 + 3 + 0)
  o[5] = sg.x + sg.y * 10.0 + sg.z * 100.0;      // -2 + 15 + 400
  o[6] = saturate(a[2]) + saturate(a[0]) + abs(a[0]) + trunc(-a[1]) ;   // 1 + 0 + 1 - 0
  let f = fma(v, vec3<f32>(2.0), vec3<f32>(1.0));   // -1, 2, 7
  o[7] = f.x + f.y * 10.0 + f.z * 100.0;
}`,
			bufs: map[gb][]byte{{0, 0}: zeros(32), {0, 1}: f32s(-1, 0.5, 3)},
			want: map[gb][]any{{0, 0}: wordsOf(float32(105), float32(207.5), float32(110), float32(105), float32(387.25), float32(413), float32(2), float32(719))},
		},
		{
			name: "workgroup struct atomics array and uniform load",
			wgsl: outU + `
struct W { cnt: atomic<u32>, arr: array<atomic<i32>, 2>, plain: u32 }
var<workgroup> w: W;
var<workgroup> flag: u32;
@compute @workgroup_size(4) fn main(@builtin(local_invocation_index) li: u32, @builtin(workgroup_id) wid: vec3<u32>) {
  atomicAdd(&w.cnt, li);                       // 0+1+2+3
  atomicMax(&w.arr[1], i32(li) - 1);           // max(0, -1..2) = 2
  atomicMin(&w.arr[0], i32(li) - 2);           // min(0, -2..1) = -2
  if li == 2u { w.plain = 40u + wid.x; flag = 9u; }
  let f = workgroupUniformLoad(&flag);         // barrier + load
  let total = atomicLoad(&w.cnt) * 1000u + u32(atomicLoad(&w.arr[1]) * 100 + atomicLoad(&w.arr[0]) * -10) + w.plain + f;
  o[wid.x * 4u + li] = total;                  // 6000 + 200 + 20 + 40 + wid + 9
}`,
			groups: [3]uint32{2, 1, 1},
			bufs:   map[gb][]byte{{0, 0}: zeros(32)},
			want:   map[gb][]any{{0, 0}: wordsOf(uint32(6269), uint32(6269), uint32(6269), uint32(6269), uint32(6270), uint32(6270), uint32(6270), uint32(6270))},
		},
	}, mslKnownDefects)
}
