package ctext

import "strings"

// HLSL keyword and reserved-word tables, transcribed from the Microsoft HLSL
// language reference ("Keywords" and "Reserved Words" appendix pages), NOT
// from naga.  Only words whose status is certain are listed:
//
//   - hlslKeywords: keywords of the language proper (types, control flow,
//     storage classes, object types).  Contextual words that DXC accepts as
//     identifiers (sample, point, line, triangle, lineadj, triangleadj)
//     and the effect-framework words (pass, technique ... see below)
//     are deliberately NOT in this table.
//   - hlslReservedWords: the "Reserved Words" appendix (C++ words reserved for
//     future use).
//   - hlslFXCCaseInsensitive: words the FXC front end reserves in every
//     spelling (asm, decl, pass, technique: "case-insensitive keywords").
//
// Using one of them as a declared identifier is an InvalidError with Code
// "keyword" (first two tables) or "keyword-fxc" (last table: rejected by FXC,
// i.e. shader models up to 5.1; accepted by DXC).
var hlslKeywords = words(`
AppendStructuredBuffer asm asm_fragment BlendState bool break Buffer ByteAddressBuffer
case cbuffer centroid class column_major compile compile_fragment CompileShader const continue
ComputeShader ConsumeStructuredBuffer default DepthStencilState DepthStencilView discard do
double DomainShader dword else export extern false float for fxgroup GeometryShader groupshared
half Hullshader if in inline inout InputPatch int interface linear matrix
min16float min10float min16int min12int min16uint namespace nointerpolation noperspective NULL
out OutputPatch packoffset pixelfragment PixelShader PointStream LineStream TriangleStream precise
RasterizerState RenderTargetView return register row_major RWBuffer RWByteAddressBuffer
RWStructuredBuffer RWTexture1D RWTexture1DArray RWTexture2D RWTexture2DArray RWTexture3D
sampler SamplerState SamplerComparisonState shared snorm stateblock stateblock_state static
string struct switch StructuredBuffer tbuffer texture Texture1D Texture1DArray Texture2D
Texture2DArray Texture2DMS Texture2DMSArray Texture3D TextureCube TextureCubeArray true typedef
uint uniform unorm unsigned vector vertexfragment VertexShader void volatile while
ConstantBuffer globallycoherent
`)

var hlslReservedWords = words(`
auto catch char const_cast delete dynamic_cast enum explicit friend goto long mutable new
operator private protected public reinterpret_cast short signed sizeof static_cast template
this throw try typename union using virtual
`)

var hlslFXCCaseInsensitive = words(`asm decl pass technique`)

// hlslReservedKind classifies a word: "" (free), "keyword", "reserved",
// "keyword-fxc".  Built-in numeric type names (float3, int2x2, ...) are
// keywords too; they are recognised by hlslNumericType.
func hlslReservedKind(w string) string {
	if hlslKeywords[w] {
		return "keyword"
	}
	if hlslReservedWords[w] {
		return "reserved"
	}
	if _, ok := hlslNumericType(w); ok {
		return "keyword"
	}
	if hlslFXCCaseInsensitive[strings.ToLower(w)] {
		return "keyword-fxc"
	}
	return ""
}
