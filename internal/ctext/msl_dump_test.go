package ctext

import (
	"fmt"
	"os"
	"strconv"
	"testing"

	"github.com/gogpu/naga"
	"github.com/gogpu/naga/ir"
	"github.com/gogpu/naga/msl"
)

// compileMSL lowers WGSL and runs naga's MSL backend with the given options.
func compileMSL(src string, opts msl.Options) (string, msl.TranslationInfo, *ir.Module, error) {
	ast, err := naga.Parse(src)
	if err != nil {
		return "", msl.TranslationInfo{}, nil, fmt.Errorf("parse: %w", err)
	}
	m, err := naga.LowerWithSource(ast, src)
	if err != nil {
		return "", msl.TranslationInfo{}, nil, fmt.Errorf("lower: %w", err)
	}
	txt, info, err := msl.Compile(m, opts)
	if err != nil {
		return "", info, m, fmt.Errorf("msl: %w", err)
	}
	return txt, info, m, nil
}

// TestDumpMSL is a developer aid: CTEXT_DUMP_WGSL=/path/file.wgsl
// [CTEXT_DUMP_MSLVER=21|30 ...] [CTEXT_DUMP_POLICY=0|1|2] [CTEXT_DUMP_FAKE=1]
// go test -run TestDumpMSL -v prints the MSL naga emits and what this front
// end says about it.
func TestDumpMSL(t *testing.T) {
	path := os.Getenv("CTEXT_DUMP_WGSL")
	if path == "" {
		t.Skip("set CTEXT_DUMP_WGSL to use")
	}
	b, err := os.ReadFile(path)
	if err != nil {
		t.Fatal(err)
	}
	opts := msl.Options{LangVersion: msl.Version2_1}
	if s := os.Getenv("CTEXT_DUMP_MSLVER"); s != "" {
		n, _ := strconv.Atoi(s)
		opts.LangVersion = msl.Version{Major: uint8(n / 10), Minor: uint8(n % 10)}
	}
	if s := os.Getenv("CTEXT_DUMP_POLICY"); s != "" {
		n, _ := strconv.Atoi(s)
		opts.BoundsCheckPolicies = msl.BoundsCheckPolicies{Index: msl.BoundsCheckPolicy(n), Buffer: msl.BoundsCheckPolicy(n)}
	}
	if os.Getenv("CTEXT_DUMP_FAKE") != "" {
		opts.FakeMissingBindings = true
	}
	if os.Getenv("CTEXT_DUMP_ZEROWG") != "" {
		opts.ZeroInitializeWorkgroupMemory = true
	}
	if os.Getenv("CTEXT_DUMP_LOOPBOUND") != "" {
		opts.ForceLoopBounding = true
	}
	txt, info, _, err := compileMSL(string(b), opts)
	fmt.Printf("// err=%v info=%+v\n%s\n", err, info, numbered(txt))
	if err == nil {
		p, perr := Parse(MSL, txt)
		fmt.Printf("// ctext.Parse: %v\n", perr)
		if p != nil {
			fmt.Printf("// blocks: %+v\n", p.Blocks())
		}
	}
}

// TestSurveyMSL (developer aid, CTEXT_SURVEY=dir) writes the MSL of every
// compute entry point of the corpus to dir.
func TestSurveyMSL(t *testing.T) {
	dir := os.Getenv("CTEXT_SURVEY")
	if dir == "" {
		t.Skip("set CTEXT_SURVEY to use")
	}
	forEachCorpusKernel(t, msl.Options{LangVersion: msl.Version2_1, FakeMissingBindings: true, ZeroInitializeWorkgroupMemory: true, ForceLoopBounding: true}, func(file, entry, txt string, err error) {
		if err != nil {
			fmt.Printf("%s:%s: %v\n", file, entry, err)
			return
		}
		os.WriteFile(dir+"/"+file+"."+entry+".msl", []byte(txt), 0o644)
	})
}
