package ctext

import (
	"errors"
	"strings"
	"testing"
)

func mustParseHLSL(t *testing.T, src string) *Program {
	t.Helper()
	p, err := Parse(HLSL, src)
	if err != nil {
		t.Fatalf("Parse: %v\n%s", err, numbered(src))
	}
	return p
}

// hlslParseErr returns the error code of an InvalidError ("" if Parse
// succeeds, "unsupported" for UnsupportedError).
func hlslParseErr(src string) (string, error) {
	_, err := Parse(HLSL, src)
	if err == nil {
		return "", nil
	}
	var ie *InvalidError
	if errors.As(err, &ie) {
		return ie.Code, err
	}
	var ue *UnsupportedError
	if errors.As(err, &ue) {
		return "unsupported", err
	}
	return "other", err
}

func tslot(i uint32) Slot { return Slot{Class: 't', Index: i} }
func uslot(i uint32) Slot { return Slot{Class: 'u', Index: i} }
func bslot(i uint32) Slot { return Slot{Class: 'b', Index: i} }

const hlslStdDecls = `
RWByteAddressBuffer o : register(u0);
ByteAddressBuffer inp : register(t1);
`

// hlslExprShader stores each expression (converted with asuint where needed by
// the caller) into o at 4*i.  inp holds stdInputBuf(): iv[4] at 0, uv[4] at 16,
// fv[4] at 32.
func hlslExprShader(decls, pre string, exprs []string) string {
	var sb strings.Builder
	sb.WriteString(hlslStdDecls)
	sb.WriteString("static int4 iv = (int4)0; static uint4 uv = (uint4)0; static float4 fv = (float4)0;\n")
	sb.WriteString(decls)
	sb.WriteString("\n[numthreads(1, 1, 1)]\nvoid main() {\n")
	sb.WriteString("  iv = asint(inp.Load4(0)); uv = inp.Load4(16); fv = asfloat(inp.Load4(32));\n")
	sb.WriteString(pre)
	for i, e := range exprs {
		sb.WriteString("  o.Store(" + itoa(4*i) + ", " + e + ");\n")
	}
	sb.WriteString("}\n")
	return sb.String()
}

// hlslEval runs hlslExprShader and returns the stored words plus the result.
func hlslEval(t *testing.T, decls, pre string, exprs []string) ([]uint32, *RunResult) {
	t.Helper()
	src := hlslExprShader(decls, pre, exprs)
	p := mustParseHLSL(t, src)
	out := zeros(4 * len(exprs))
	res, err := p.Run(RunConfig{Buffers: map[Slot][]byte{uslot(0): out, tslot(1): stdInputBuf()}, NumWorkgroups: [3]uint32{1, 1, 1}, StepLimit: 5_000_000})
	if err != nil {
		t.Fatalf("Run: %v\n%s", err, numbered(src))
	}
	return words32(out), res
}

// hlslU evaluates expressions of type uint and requires a clean run.
func hlslU(t *testing.T, decls, pre string, exprs []string) []uint32 {
	t.Helper()
	w, res := hlslEval(t, decls, pre, exprs)
	clean(t, res)
	return w
}

func wantW(t *testing.T, got []uint32, want ...any) {
	t.Helper()
	if len(got) < len(want) {
		t.Fatalf("got %d words, want %d", len(got), len(want))
	}
	for i, w := range want {
		if ok, ws := compareWord(got[i], w); !ok {
			t.Errorf("word %d = %#x (%d, %g), want %s", i, got[i], int32(got[i]), getF32(u32s(got[i]), 0), ws)
		}
	}
}
