package ctext

import (
	"fmt"
	"strings"
)

// hlslRules implements langRules (and the optional hooks of hlsl_ext.go) with
// the typing rules of the HLSL language reference (Microsoft Learn: "Data
// Types", "Type casts", "Operators", "Statements", "Intrinsic Functions") as
// implemented by FXC / DXC for the HLSL 2018 language version.
//
// Language version: naga's HLSL is judged on HLSL 2016/2018 semantics (what
// FXC implements and what DXC implements with -HV 2018): && and || evaluate
// both operands and work component-wise on vectors, ?: evaluates both arms and
// accepts a vector condition.  (HLSL 2021, DXC's default since 2022, short-
// circuits scalar && || ?: and rejects the vector forms; naga emits the
// vector forms, so it targets the older language.)
type hlslRules struct {
	fe *hlslFE
	st *hlslState
}

func (r *hlslRules) userMayRedeclareBuiltin() bool { return true }
func (r *hlslRules) returnConverts() bool          { return true }
func (r *hlslRules) checkArrayDims(c *checker, tx *TypeExpr) {
}

func (r *hlslRules) namedType(name string) (*Type, bool) {
	if name == "void" {
		return tVoid, true
	}
	if t, ok := hlslNumericType(name); ok {
		if t.Kind == KOpaque {
			Pos{}.unsupported(HLSL, "type %s (16-bit, 64-bit, minimum-precision, 1-component or integer-matrix types are not modelled)", name)
		}
		return t, true
	}
	switch name {
	case "ByteAddressBuffer":
		return tHLSLByteBuf, true
	case "RWByteAddressBuffer":
		return tHLSLRWByteBuf, true
	}
	base := name
	if i := strings.IndexByte(name, '<'); i >= 0 {
		base = name[:i]
	}
	if hlslObjectTypes[base] {
		if t, ok := r.st.objTypes[name]; ok {
			return t, true
		}
		t := &Type{Kind: KOpaque, Name: name, nsc: 1}
		r.st.objTypes[name] = t
		return t, true
	}
	return nil, false
}

func (r *hlslRules) builtinVar(c *checker, pos Pos, name string) *Symbol { return nil }

func (r *hlslRules) checkCtor(c *checker, call *Call, t *Type) {
	c.unsupported(call.Pos, "constructor call syntax for %s", hlslTypeName(t))
}

// ---------------------------------------------------------------------------
// implicit conversions: HLSL reference "Type casts" / DXC Sema: every
// numeric type converts implicitly to every other numeric type; a scalar is
// replicated; a vector / matrix may be truncated (warning X3206).
// ---------------------------------------------------------------------------

func (r *hlslRules) implicitConv(from, to *Type) bool {
	if from == to {
		return true
	}
	if !hlslIsNumeric(from) || !hlslIsNumeric(to) {
		return false
	}
	return hlslImplicitShape(from, to)
}

func hlslConvRank(from, to *Type) int {
	if from == to {
		return 0
	}
	rank := 0
	fr, fc := hlslDims(from)
	tr, tc := hlslDims(to)
	switch {
	case fr == tr && fc == tc:
	case fr == 1 && fc == 1:
		rank += 10 // splat
	default:
		rank += 20 // truncation
	}
	fb, tb := from.Base(), to.Base()
	switch {
	case fb == tb:
	case (fb == KInt && tb == KUint) || (fb == KUint && tb == KInt):
		rank += 1
	case (fb == KInt || fb == KUint || fb == KBool) && (tb == KFloat):
		rank += 2
	case fb == KBool && (tb == KInt || tb == KUint):
		rank += 2
	case fb == KFloat && tb == KDouble:
		rank += 2
	default:
		rank += 3 // float -> int, anything -> bool
	}
	return rank
}

func (r *hlslRules) convBetter(from, a, b *Type) bool {
	return hlslConvRank(from, a) < hlslConvRank(from, b)
}

// pickOverload: HLSL overload resolution as DXC implements it (SemaHLSL
// ScoreFunction): every viable candidate gets a score that adds up the cost of
// the conversion of each argument, the lowest score wins; equal best scores are
// ambiguous.  (An exact match scores 0.)  A tie is reported as not modelled
// rather than as invalid text: the cost table of the compilers is finer than
// hlslConvRank.
func (r *hlslRules) pickOverload(c *checker, x *Call, cands []candidate) (any, string) {
	best, bestScore, tie := any(nil), -1, false
	for _, cd := range cands {
		if len(cd.params) != len(x.Args) {
			continue
		}
		score, ok := 0, true
		for i, a := range x.Args {
			at := a.base().T
			switch cd.dirs[i] {
			case "in":
				if !r.implicitConv(at, cd.params[i]) {
					ok = false
				}
				score += hlslConvRank(at, cd.params[i])
			case "out":
				if !r.implicitConv(cd.params[i], at) {
					ok = false
				}
				score += hlslConvRank(cd.params[i], at)
			default:
				if !r.implicitConv(at, cd.params[i]) || !r.implicitConv(cd.params[i], at) {
					ok = false
				}
				score += hlslConvRank(at, cd.params[i])
			}
		}
		if !ok {
			continue
		}
		switch {
		case bestScore < 0 || score < bestScore:
			best, bestScore, tie = cd.ref, score, false
		case score == bestScore:
			tie = true
		}
	}
	if best == nil {
		return nil, "none"
	}
	if tie {
		c.unsupported(x.Pos, "overload resolution of %s%s: two candidates with the same conversion cost", x.Name, hlslArgTypes(x.Args))
	}
	return best, ""
}

func (r *hlslRules) convertNode(c *checker, e Expr, t *Type) Expr {
	b := e.base()
	if !r.implicitConv(b.T, t) {
		return nil
	}
	if b.T.Base() == KDouble || t.Base() == KDouble {
		c.prog.usesDouble = true
	}
	return &hlslConv{ExprBase: ExprBase{Pos: b.Pos, T: t, Const: b.Const}, X: e}
}

// ---------------------------------------------------------------------------
// operators
// ---------------------------------------------------------------------------

// hlslArithBase: usual arithmetic conversions of HLSL (bool < int < uint <
// float < double); bool operands are promoted to int.
func hlslArithBase(a, b Kind) Kind {
	rank := func(k Kind) int {
		switch k {
		case KBool:
			return 0
		case KInt:
			return 1
		case KUint:
			return 2
		case KFloat:
			return 3
		case KDouble:
			return 4
		}
		return -1
	}
	k := a
	if rank(b) > rank(a) {
		k = b
	}
	if k == KBool {
		k = KInt
	}
	return k
}

// hlslCommonDims combines the shapes of two numeric operands: a scalar adapts
// to the other operand; two vectors (matrices) are truncated to the smaller
// size in each dimension.
func hlslCommonDims(lt, rt *Type) (rows, cols int, ok bool) {
	lr, lc := hlslDims(lt)
	rr, rc := hlslDims(rt)
	switch {
	case lr == 1 && lc == 1:
		return rr, rc, true
	case rr == 1 && rc == 1:
		return lr, lc, true
	case lt.Kind != rt.Kind:
		return 0, 0, false // vector with matrix
	}
	rows, cols = lr, lc
	if rr < rows {
		rows = rr
	}
	if rc < cols {
		cols = rc
	}
	return rows, cols, true
}

func (r *hlslRules) unaryType(c *checker, pos Pos, op string, t *Type) *Type {
	if !hlslIsNumeric(t) {
		c.invalid(pos, "type", "unary operator %s cannot be applied to %s", op, hlslTypeName(t))
	}
	rows, cols := hlslDims(t)
	switch op {
	case "-", "+":
		if t.Base() == KBool {
			if rt := hlslShape(KInt, rows, cols); rt != nil {
				return rt
			}
			c.unsupported(pos, "integer matrix")
		}
		return t
	case "!":
		if rt := hlslShape(KBool, rows, cols); rt != nil {
			return rt
		}
		c.unsupported(pos, "bool matrix")
	case "~":
		switch t.Base() {
		case KInt, KUint:
			return t
		case KBool:
			if rt := hlslShape(KInt, rows, cols); rt != nil {
				return rt
			}
		}
		// FXC error X3082: int or unsigned int type required
		c.invalid(pos, "type", "operator ~ needs an integer operand, got %s (X3082)", hlslTypeName(t))
	}
	c.invalid(pos, "type", "unary operator %s cannot be applied to %s", op, hlslTypeName(t))
	return nil
}

func (r *hlslRules) binaryTypes(c *checker, pos Pos, op string, lt, rt *Type) (res, lc, rc *Type, mode binMode) {
	bad := func(why string) {
		c.invalid(pos, "type", "operator %s cannot be applied to %s and %s%s", op, hlslTypeName(lt), hlslTypeName(rt), why)
	}
	if !hlslIsNumeric(lt) || !hlslIsNumeric(rt) {
		bad(" (scalar, vector or matrix operands required)")
	}
	rows, cols, ok := hlslCommonDims(lt, rt)
	if !ok {
		bad(" (vector with matrix)")
	}
	shape := func(k Kind) *Type {
		t := hlslShape(k, rows, cols)
		if t == nil {
			c.unsupported(pos, "bool / integer matrix (operator %s on %s and %s)", op, hlslTypeName(lt), hlslTypeName(rt))
		}
		return t
	}
	lb, rb := lt.Base(), rt.Base()
	mode = bmCustom
	switch op {
	case "+", "-", "*", "/", "%":
		k := hlslArithBase(lb, rb)
		t := shape(k)
		return t, t, t, mode
	case "&", "|", "^":
		if lb == KFloat || rb == KFloat || lb == KDouble || rb == KDouble {
			bad(" (X3082: int or unsigned int type required)")
		}
		k := hlslArithBase(lb, rb)
		t := shape(k)
		return t, t, t, mode
	case "<<", ">>":
		if lb == KFloat || rb == KFloat || lb == KDouble || rb == KDouble {
			bad(" (X3082: int or unsigned int type required)")
		}
		lk, rk := lb, rb
		if lk == KBool {
			lk = KInt
		}
		if rk == KBool {
			rk = KInt
		}
		return shape(lk), shape(lk), shape(rk), mode
	case "<", ">", "<=", ">=", "==", "!=":
		k := lb
		if lb != rb || lb == KBool && (op != "==" && op != "!=") {
			k = hlslArithBase(lb, rb)
		}
		t := shape(k)
		return shape(KBool), t, t, mode
	case "&&", "||":
		t := shape(KBool)
		return t, t, t, mode
	}
	bad("")
	return
}

// hlslBinary evaluates an operator on operands that the checker has already
// brought to the same shape (and, except for shifts, the same base type).
func hlslBinary(ev *evaluator, op string, l, r Value, rt *Type, pos Pos) Value {
	res := ev.mk(rt)
	k := l.T.Base()
	n := len(res.C)
	for i := 0; i < n; i++ {
		a := l.C[0]
		if len(l.C) > 1 {
			a = l.C[i]
		}
		b := r.C[0]
		if len(r.C) > 1 {
			b = r.C[i]
		}
		if op == "&&" || op == "||" {
			// both operands are evaluated (no short circuit before HLSL 2021);
			// the result is determined by one operand alone when that operand
			// is false (&&) / true (||)
			absorb := op == "||"
			switch {
			case a.P == 0 && a.Bool() == absorb:
				res.C[i] = boolCell(absorb)
			case b.P == 0 && b.Bool() == absorb:
				res.C[i] = boolCell(absorb)
			case a.P != 0:
				res.C[i].P = a.P
			case b.P != 0:
				res.C[i].P = b.P
			default:
				res.C[i] = boolCell(!absorb)
			}
			continue
		}
		if p := firstPoison(a, b); p != 0 {
			res.C[i].P = p
			continue
		}
		c, why := ev.hlslScalarBinary(op, k, a, b)
		if why != "" {
			c = Cell{P: ev.poison(why)}
		}
		res.C[i] = c
	}
	return res
}

const (
	whyHLSLDivZero = "integer division or modulus by zero is undefined in HLSL (DXIL sdiv/udiv/srem/urem follow LLVM: undefined; D3D11 udiv returns 0xffffffff: implementations differ)"
	whyHLSLDivOvf  = "integer division overflow (INT_MIN / -1, INT_MIN % -1) is undefined in HLSL (LLVM sdiv/srem overflow)"
)

func (ev *evaluator) hlslScalarBinary(op string, k Kind, a, b Cell) (Cell, string) {
	switch op {
	case "==":
		if k == KFloat {
			return boolCell(a.F() == b.F()), ""
		}
		return boolCell(a.B == b.B), ""
	case "!=":
		if k == KFloat {
			return boolCell(a.F() != b.F()), ""
		}
		return boolCell(a.B != b.B), ""
	}
	switch k {
	case KFloat:
		x, y := a.F(), b.F()
		switch op {
		case "+":
			return f32Cell(fadd(x, y)), ""
		case "-":
			return f32Cell(fsub(x, y)), ""
		case "*":
			return f32Cell(fmul(x, y)), ""
		case "/":
			return f32Cell(fdiv(x, y)), ""
		case "%":
			// HLSL reference, Operators: "% ... also operates on floating-point
			// data types"; the remainder has the sign of the dividend (fmod).
			return f32Cell(hlslFmod(x, y)), ""
		case "<":
			return boolCell(x < y), ""
		case ">":
			return boolCell(x > y), ""
		case "<=":
			return boolCell(x <= y), ""
		case ">=":
			return boolCell(x >= y), ""
		}
	case KInt:
		x, y := a.I(), b.I()
		switch op {
		case "+":
			return i32Cell(x + y), ""
		case "-":
			return i32Cell(x - y), ""
		case "*":
			return i32Cell(x * y), ""
		case "/", "%":
			if y == 0 {
				return Cell{}, whyHLSLDivZero
			}
			if x == -2147483648 && y == -1 {
				return Cell{}, whyHLSLDivOvf
			}
			if op == "/" {
				return i32Cell(x / y), ""
			}
			if (x < 0) != (y < 0) && x%y != 0 {
				// The HLSL reference says "% is defined only in cases where
				// either both sides are positive or both sides are negative";
				// FXC and DXC both produce the remainder with the sign of the
				// dividend.  Counted, not poisoned.
				ev.info("hlsl.mod.mixed-sign")
			}
			return i32Cell(x % y), ""
		case "&":
			return i32Cell(x & y), ""
		case "|":
			return i32Cell(x | y), ""
		case "^":
			return i32Cell(x ^ y), ""
		case "<":
			return boolCell(x < y), ""
		case ">":
			return boolCell(x > y), ""
		case "<=":
			return boolCell(x <= y), ""
		case ">=":
			return boolCell(x >= y), ""
		case "<<":
			// D3D11.3 functional spec ishl/ishr/ushr: "the lower 5 bits of
			// src1 are used"; DXIL.rst: shift amounts are masked likewise.
			if b.U() >= 32 {
				ev.info("hlsl.shift.masked")
			}
			return i32Cell(x << (b.U() & 31)), ""
		case ">>":
			if b.U() >= 32 {
				ev.info("hlsl.shift.masked")
			}
			return i32Cell(x >> (b.U() & 31)), ""
		}
	case KUint:
		x, y := a.U(), b.U()
		switch op {
		case "+":
			return u32Cell(x + y), ""
		case "-":
			return u32Cell(x - y), ""
		case "*":
			return u32Cell(x * y), ""
		case "/":
			if y == 0 {
				return Cell{}, whyHLSLDivZero
			}
			return u32Cell(x / y), ""
		case "%":
			if y == 0 {
				return Cell{}, whyHLSLDivZero
			}
			return u32Cell(x % y), ""
		case "&":
			return u32Cell(x & y), ""
		case "|":
			return u32Cell(x | y), ""
		case "^":
			return u32Cell(x ^ y), ""
		case "<":
			return boolCell(x < y), ""
		case ">":
			return boolCell(x > y), ""
		case "<=":
			return boolCell(x <= y), ""
		case ">=":
			return boolCell(x >= y), ""
		case "<<":
			if y >= 32 {
				ev.info("hlsl.shift.masked")
			}
			return u32Cell(x << (y & 31)), ""
		case ">>":
			if y >= 32 {
				ev.info("hlsl.shift.masked")
			}
			return u32Cell(x >> (y & 31)), ""
		}
	case KBool:
		switch op {
		case "<", ">", "<=", ">=":
			x, y := a.B, b.B
			switch op {
			case "<":
				return boolCell(x < y), ""
			case ">":
				return boolCell(x > y), ""
			case "<=":
				return boolCell(x <= y), ""
			}
			return boolCell(x >= y), ""
		}
	}
	ev.trap("unsupported: operator %s on component kind %d", op, k)
	return Cell{}, ""
}

// hlslUnary evaluates + - ! ~ (operand of any numeric type).
func hlslUnary(ev *evaluator, op string, v Value) Value {
	base := v.T.Base()
	rows, cols := hlslDims(v.T)
	rt := v.T
	switch op {
	case "!":
		rt = hlslShape(KBool, rows, cols)
	case "-", "+", "~":
		if base == KBool {
			rt = hlslShape(KInt, rows, cols)
		}
	}
	r := ev.mk(rt)
	for i, c := range v.C {
		if c.P != 0 {
			r.C[i].P = c.P
			continue
		}
		switch op {
		case "+":
			r.C[i] = c
		case "-":
			if base == KFloat {
				r.C[i] = Cell{B: c.B ^ 0x80000000}
			} else {
				r.C[i] = Cell{B: -c.B}
			}
		case "!":
			if base == KFloat {
				r.C[i] = boolCell(c.F() == 0)
			} else {
				r.C[i] = boolCell(c.B == 0)
			}
		case "~":
			r.C[i] = Cell{B: ^c.B}
		}
	}
	return r
}

// ---------------------------------------------------------------------------
// conditions, ?:
// ---------------------------------------------------------------------------

func (r *hlslRules) condition(c *checker, e Expr, what string) Expr {
	e = c.value(e)
	t := e.base().T
	if t == tBool {
		return e
	}
	if !t.IsScalar() {
		// FXC error X3019 / DXC: conditional expressions must evaluate to a scalar
		c.invalid(e.base().Pos, "type", "%s condition must be a scalar, got %s", what, hlslTypeName(t))
	}
	return r.convertNode(c, e, tBool)
}

func (r *hlslRules) condExpr(c *checker, x *Cond) Expr {
	x.C = c.value(x.C)
	x.A = c.value(x.A)
	x.B = c.value(x.B)
	ct, at, bt := x.C.base().T, x.A.base().T, x.B.base().T
	if !hlslIsNumeric(ct) {
		c.invalid(x.C.base().Pos, "type", "condition of ?: must be a scalar or vector, got %s", hlslTypeName(ct))
	}
	if ct.Kind == KMat {
		c.unsupported(x.Pos, "matrix condition in ?:")
	}
	sel := &hlslSelect{ExprBase: ExprBase{Pos: x.Pos}}
	sel.Const = x.C.base().Const && x.A.base().Const && x.B.base().Const
	conv := func(e Expr, t *Type) Expr {
		ne := c.convertTo(e, t)
		if ne == nil {
			c.invalid(x.Pos, "type", "?: cannot convert %s to %s", hlslTypeName(e.base().T), hlslTypeName(t))
		}
		return ne
	}
	if !hlslIsNumeric(at) || !hlslIsNumeric(bt) {
		if at != bt {
			c.invalid(x.Pos, "type", "second and third operands of ?: have mismatched types %s and %s", hlslTypeName(at), hlslTypeName(bt))
		}
		if !ct.IsScalar() {
			c.invalid(x.Pos, "type", "vector condition with operands of type %s", hlslTypeName(at))
		}
		if at.Kind == KOpaque || at.Kind == KVoid {
			c.unsupported(x.Pos, "?: on %s", hlslTypeName(at))
		}
		sel.C, sel.A, sel.B = conv(x.C, tBool), x.A, x.B
		sel.T = at
		return sel
	}
	k := at.Base()
	if at.Base() != bt.Base() {
		k = hlslArithBase(at.Base(), bt.Base())
	}
	rows, cols, ok := hlslCommonDims(at, bt)
	if !ok {
		c.invalid(x.Pos, "type", "second and third operands of ?: have mismatched types %s and %s", hlslTypeName(at), hlslTypeName(bt))
	}
	if !ct.IsScalar() {
		// component-wise selection: the operands take the condition's size
		// (a longer condition / longer operands are truncated)
		n := ct.N
		if rows != 1 {
			c.invalid(x.Pos, "type", "?: with a %s condition cannot select between %s and %s", hlslTypeName(ct), hlslTypeName(at), hlslTypeName(bt))
		}
		if cols == 1 || cols > n {
			cols = n
		}
		sel.C = conv(x.C, vecOf(tBool, cols))
	} else {
		sel.C = conv(x.C, tBool)
	}
	rt := hlslShape(k, rows, cols)
	if rt == nil {
		c.unsupported(x.Pos, "bool / integer matrix in ?:")
	}
	sel.A, sel.B = conv(x.A, rt), conv(x.B, rt)
	sel.T = rt
	return sel
}

// index: operator[] on object types (textures, structured buffers) is valid
// HLSL that is not modelled; a non-integer index is converted (HLSL allows
// any numeric scalar as an index, with a warning for float).
func (r *hlslRules) index(c *checker, x *Index) Expr {
	xt := x.X.base().T
	if xt.Kind == KOpaque {
		c.unsupported(x.Pos, "operator[] on %s", hlslTypeName(xt))
	}
	it := x.I.base().T
	if it != tInt && it != tUint && it.IsScalar() {
		to := tInt
		if e := c.convertTo(x.I, to); e != nil {
			x.I = e
		}
	}
	return nil
}

// checkSwitch: FXC error X3533 "non-empty case statements must have break or
// return": flagged only when a non-empty case group clearly runs into the
// next label (its last statement is an expression or declaration statement).
func (r *hlslRules) checkSwitch(c *checker, x *SwitchStmt) {
	var last Stmt
	for i, s := range x.Body {
		if _, isLabel := s.(*CaseLabel); isLabel {
			if last != nil && i > 0 {
				if hlslFallsThrough(last) {
					c.invalid(s.stmtPos(), "fallthrough", "non-empty case falls through into the next label (FXC X3533: non-empty case statements must have break or return)")
				}
			}
			last = nil
			continue
		}
		last = s
	}
}

func hlslFallsThrough(s Stmt) bool {
	switch x := s.(type) {
	case *ExprStmt, *DeclStmt:
		return true
	case *BlockStmt:
		if len(x.Stmts) == 0 {
			return true
		}
		return hlslFallsThrough(x.Stmts[len(x.Stmts)-1])
	}
	return false
}

// ---------------------------------------------------------------------------
// swizzles
// ---------------------------------------------------------------------------

var hlslSwizzleSets = []string{"xyzw", "rgba"}

func (r *hlslRules) checkVecMember(c *checker, m *Member) bool {
	xt := m.X.base().T
	n := xt.VecSize()
	if len(m.Name) == 0 || len(m.Name) > 4 {
		c.invalid(m.Pos, "type", "bad swizzle .%s", m.Name)
	}
	set := -1
	swz := make([]uint8, len(m.Name))
	for i := 0; i < len(m.Name); i++ {
		found := false
		for si, s := range hlslSwizzleSets {
			if k := strings.IndexByte(s, m.Name[i]); k >= 0 {
				if set >= 0 && set != si {
					c.invalid(m.Pos, "type", "swizzle .%s mixes component name sets", m.Name)
				}
				set = si
				if k >= n {
					c.invalid(m.Pos, "type", "swizzle .%s selects component %d of %s", m.Name, k, hlslTypeName(xt))
				}
				swz[i] = uint8(k)
				found = true
				break
			}
		}
		if !found {
			c.invalid(m.Pos, "type", "%q is not a member or swizzle of %s", m.Name, hlslTypeName(xt))
		}
	}
	m.Swz = swz
	m.T = vecOf(xt.Scalar(), len(swz))
	m.LV = m.X.base().LV
	m.Const = m.X.base().Const
	return true
}

// ---------------------------------------------------------------------------
// module-scope declarations
// ---------------------------------------------------------------------------

// hlslResource is one resource variable (cbuffer, ConstantBuffer<T>, byte
// address buffer, or an object type that is only type-checked).
type hlslResource struct {
	Name     string
	Kind     string // "cbuffer", "ConstantBuffer", "ByteAddressBuffer", "RWByteAddressBuffer", or the object type name
	Generic  string // template argument text
	Pos      Pos
	Reg      *hlslRegister
	Block    *IfaceBlock // byte storage (nil for objects that are only type-checked)
	ArrayLen int         // resource array (binding array): element count, 0 = not an array
	T        *Type       // the variable's type (object resources)
}

var (
	tHLSLByteBuf   = &Type{Kind: KOpaque, Name: "ByteAddressBuffer", nsc: 1}
	tHLSLRWByteBuf = &Type{Kind: KOpaque, Name: "RWByteAddressBuffer", nsc: 1}
)

// hlslEntry is a function with a [numthreads] attribute.
type hlslEntry struct {
	Fn         *Function
	NumThreads [3]uint32
}

func (r *hlslRules) checkTop(c *checker, decls []*hlslDecl) {
	for _, d := range decls {
		switch {
		case d.Typedef != nil:
			r.typedefDecl(c, d.Typedef)
		case d.CBuffer != nil:
			r.cbufferDecl(c, d.CBuffer)
		case d.Resource != nil:
			r.resourceDecl(c, d.Resource)
		case d.Func != nil:
			if d.Struct != nil && d.Struct.Def == nil {
				c.invalid(d.Pos, "syntax", "structure definition in a function return type")
			}
			r.functionDecl(c, d.Func)
		default:
			if d.Struct != nil && d.Struct.Def == nil {
				r.structDecl(c, d.Struct)
			}
			for _, v := range d.Vars {
				r.globalVar(c, v, d.Storage)
			}
		}
	}
	if len(r.st.entries) > 0 {
		c.prog.hasLocalSize = true
		c.prog.localSize = r.st.entries[0].NumThreads
	}
}

func (r *hlslRules) structDecl(c *checker, sd *StructDecl) *Type {
	for _, f := range sd.Fields {
		if f.TypeX.Struct != nil {
			c.unsupported(f.Pos, "nested structure definition")
		}
	}
	t := c.declareStruct(sd)
	r.st.structs[sd.Def] = sd
	for _, f := range t.Struct.Fields {
		if f.T.hasRuntimeArray() {
			c.invalid(sd.Pos, "type", "unsized array member %q", f.Name)
		}
	}
	return t
}

func (r *hlslRules) typedefDecl(c *checker, td *hlslTypedef) {
	var t *Type
	if td.TypeX.Struct != nil && td.TypeX.Struct.Def == nil {
		st := r.structDecl(c, td.TypeX.Struct)
		t = st
		for i := len(td.TypeX.Dims) - 1; i >= 0; i-- {
			d := c.expr(td.TypeX.Dims[i])
			n := c.constInt(d, "array size")
			if n <= 0 {
				c.invalid(td.Pos, "type", "array size must be greater than zero")
			}
			t = c.prog.tt.arrayOf(t, int(n))
		}
	} else {
		t = c.resolveType(td.TypeX, unsizedNo)
	}
	if t.Kind == KVoid {
		c.invalid(td.Pos, "type", "typedef of void")
	}
	c.declare(&Symbol{Kind: SymStruct, Name: td.Name, T: t, Pos: td.Pos}, "typedef")
}

func (r *hlslRules) functionDecl(c *checker, fn *Function) {
	for _, p := range fn.Params {
		if p.TypeX.Struct != nil {
			c.invalid(p.Pos, "syntax", "structure definition in a parameter list")
		}
	}
	if hlslObjectTypes[hlslBaseTypeName(fn.RetX.Name)] {
		c.unsupported(fn.Pos, "function %s returning object type %s", fn.Name, fn.RetX.Name)
	}
	c.function(fn)
	for _, p := range fn.Params {
		if p.T != nil && p.T.hasRuntimeArray() {
			c.invalid(p.Pos, "type", "parameter %q has an unsized array type", p.Name)
		}
	}
	for _, a := range r.st.attrs[fn] {
		switch a.Name {
		case "numthreads":
			if len(a.Args) != 3 {
				c.invalid(a.Pos, "syntax", "numthreads needs three arguments")
			}
			e := &hlslEntry{Fn: fn}
			for i := range a.Args {
				a.Args[i] = c.value(a.Args[i])
				n := c.constInt(a.Args[i], "numthreads argument")
				if n <= 0 || n > 1024 {
					c.invalid(a.Pos, "type", "numthreads component %d out of range", n)
				}
				e.NumThreads[i] = uint32(n)
			}
			if fn.Ret.Kind != KVoid {
				c.invalid(fn.Pos, "type", "compute entry point %s must return void", fn.Name)
			}
			r.st.entries = append(r.st.entries, e)
		}
	}
}

// globalVar declares a module-scope variable.
//
//	static T x = init;      private per-invocation variable ("global")
//	static const T x = init; constant
//	groupshared T x;         workgroup variable ("shared"), never initialised
//
// A global without static / groupshared is a member of the implicit $Globals
// constant buffer (HLSL reference, "Variable syntax > Storage_Class": global
// variables are uniform by default; const alone does not change that): not
// modelled.
func (r *hlslRules) globalVar(c *checker, v *VarDecl, storage string) {
	g := &GlobalVar{Decl: v, Name: v.Name, Pos: v.Pos}
	switch storage {
	case "groupshared":
		g.Storage = "shared"
	case "static":
		g.Storage = "global"
	case "static const":
		g.Storage = "const"
	default:
		c.unsupported(v.Pos, "global variable %q without static or groupshared (member of the implicit $Globals constant buffer)", v.Name)
	}
	um := unsizedNo
	if v.Init != nil {
		um = unsizedOuter
	}
	if v.TypeX.Struct != nil && v.TypeX.Struct.Def == nil {
		r.structDecl(c, v.TypeX.Struct)
	}
	t := c.resolveType(v.TypeX, um)
	if t.Kind == KVoid {
		c.invalid(v.Pos, "type", "variable %q of type void", v.Name)
	}
	if t.Kind == KOpaque || t.containsKind(KOpaque) {
		c.unsupported(v.Pos, "static / groupshared variable of object type %s", hlslTypeName(t))
	}
	if v.Init != nil {
		if g.Storage == "shared" {
			// FXC error X3009 / DXC: groupshared variables cannot have initialisers
			c.invalid(v.Pos, "syntax", "groupshared variable %q cannot have an initializer", v.Name)
		}
		v.Init = c.value(v.Init)
		it := v.Init.base().T
		if t.Kind == KArray && t.N < 0 {
			if it.Kind != KArray || it.Elem != t.Elem {
				c.invalid(v.Pos, "type", "cannot initialise %s with %s", hlslTypeName(t), hlslTypeName(it))
			}
			t = it
		}
		init := c.convertTo(v.Init, t)
		if init == nil {
			c.invalid(v.Pos, "type", "cannot initialise %q of type %s with a value of type %s", v.Name, hlslTypeName(t), hlslTypeName(it))
		}
		v.Init = init
		g.Init = init
	} else if g.Storage == "const" {
		c.invalid(v.Pos, "syntax", "static const variable %q needs an initializer", v.Name)
	}
	if t.Kind == KArray && t.N < 0 {
		c.invalid(v.Pos, "type", "array %q of unknown size", v.Name)
	}
	g.T = t
	v.T = t
	s := &Symbol{Kind: SymGlobal, Name: v.Name, T: t, Pos: v.Pos, Global: g}
	var cv *Value
	if g.Init != nil && g.Init.base().Const {
		if val, ok := c.fold(g.Init); ok {
			cv = &val
		}
	}
	switch g.Storage {
	case "const":
		s.ReadOnly = true
		if cv != nil {
			s.Const = true
			s.CV = cv
		} else {
			// initialiser not foldable (e.g. a call of a helper function):
			// a read-only per-invocation variable initialised at entry
			g.Storage = "global"
			g.CellOff = c.prog.privSize
			c.prog.privSize += t.nsc
			r.st.dynInit = append(r.st.dynInit, g)
		}
	case "global":
		g.CellOff = c.prog.privSize
		c.prog.privSize += t.nsc
		switch {
		case cv != nil:
		case g.Init != nil:
			r.st.dynInit = append(r.st.dynInit, g)
		default:
			// HLSL reference, Storage_Class "static": "If the declaration does
			// not include an initializer, the value is set to zero."
			z := mkValue(t)
			cv = &z
		}
	case "shared":
		g.CellOff = c.prog.sharedSize
		c.prog.sharedSize += t.nsc
	}
	g.initVal = cv
	v.Sym = s
	c.prog.globals = append(c.prog.globals, g)
	c.declare(s, "global")
}

func (r *hlslRules) newBlock(c *checker, name string, pos Pos, reg *hlslRegister, class byte) *IfaceBlock {
	blk := &IfaceBlock{Pos: pos, Name: name, Class: class, Binding: -1, Layout: "cbuffer", idx: len(c.prog.blocks)}
	if reg != nil {
		if reg.Class != class {
			c.invalid(reg.Pos, "type", "resource %q needs a %c register, got %c%d", name, class, reg.Class, reg.Index)
		}
		blk.Binding = reg.Index
	}
	c.prog.blocks = append(c.prog.blocks, blk)
	return blk
}

func (r *hlslRules) cbufferDecl(c *checker, cb *hlslCBufferDecl) {
	blk := r.newBlock(c, cb.Name, cb.Pos, cb.Reg, 'b')
	c.noteIdent(cb.Name, "block", 0, cb.Pos)
	res := &hlslResource{Name: cb.Name, Kind: "cbuffer", Pos: cb.Pos, Reg: cb.Reg, Block: blk}
	r.st.resources = append(r.st.resources, res)
	off := 0
	seen := map[string]bool{}
	for i, m := range cb.Members {
		if m.TypeX.Struct != nil && m.TypeX.Struct.Def == nil {
			r.structDecl(c, m.TypeX.Struct)
		}
		mt := c.resolveType(m.TypeX, unsizedNo)
		if mt.Kind == KVoid || mt.Kind == KOpaque || mt.containsKind(KOpaque) {
			c.unsupported(m.Pos, "cbuffer member %q of type %s", m.Name, hlslTypeName(mt))
		}
		if seen[m.Name] {
			c.invalid(m.Pos, "redeclared", "duplicate cbuffer member %q", m.Name)
		}
		seen[m.Name] = true
		m.T = mt
		lay := r.cbLayout(c, mt, hlslRowMajorQual(m.Quals))
		off = hlslCBPlace(off, lay)
		bm := &BlockMember{Decl: m, Name: m.Name, T: mt, Offset: off, Lay: lay, Block: blk, Index: i}
		blk.Members = append(blk.Members, bm)
		off += lay.Size
		c.declare(&Symbol{Kind: SymBlockMember, Name: m.Name, T: mt, Pos: m.Pos, Block: blk, Member: bm, ReadOnly: true}, "block-member")
	}
	blk.Size = roundUp(off, 16)
}

func hlslRowMajorQual(q Quals) int8 {
	if q.layoutItem("row_major") != nil {
		return 1
	}
	if q.layoutItem("column_major") != nil {
		return 2
	}
	return 0
}

func (r *hlslRules) resourceDecl(c *checker, rd *hlslResourceDecl) {
	res := &hlslResource{Name: rd.Name, Kind: rd.TypeName, Generic: rd.GenericS, Pos: rd.Pos, Reg: rd.Reg}
	r.st.resources = append(r.st.resources, res)
	n := 0
	for i := len(rd.Dims) - 1; i >= 0; i-- {
		if rd.Dims[i] == nil {
			c.unsupported(rd.Pos, "unbounded resource array %q", rd.Name)
		}
		d := c.value(rd.Dims[i])
		k := int(c.constInt(d, "array size"))
		if k <= 0 {
			c.invalid(rd.Pos, "type", "array size must be greater than zero")
		}
		if n == 0 {
			n = k
		} else {
			n *= k
		}
	}
	res.ArrayLen = n
	switch rd.TypeName {
	case "ConstantBuffer":
		// ConstantBuffer<T> name : register(b#): the members of T, laid out with
		// the constant-buffer packing rules, accessed as name.member
		if n > 0 {
			c.unsupported(rd.Pos, "array of ConstantBuffer")
		}
		inner := strings.TrimSuffix(strings.TrimPrefix(rd.GenericS, "<"), ">")
		s := c.lookup(inner)
		if s == nil || s.Kind != SymStruct || s.T.Kind != KStruct {
			c.unsupported(rd.Pos, "ConstantBuffer<%s>", inner)
		}
		blk := r.newBlock(c, rd.Name, rd.Pos, rd.Reg, 'b')
		res.Block = blk
		res.T = s.T
		lay := r.cbLayout(c, s.T, 0)
		vd := &VarDecl{Pos: rd.Pos, Name: rd.Name, T: s.T}
		bm := &BlockMember{Decl: vd, Name: rd.Name, T: s.T, Offset: 0, Lay: lay, Block: blk, Index: 0}
		blk.Members = append(blk.Members, bm)
		blk.Size = roundUp(lay.Size, 16)
		c.declare(&Symbol{Kind: SymBlockMember, Name: rd.Name, T: s.T, Pos: rd.Pos, Block: blk, Member: bm, ReadOnly: true}, "global")
		return
	case "ByteAddressBuffer", "RWByteAddressBuffer":
		t := tHLSLByteBuf
		class := byte('t')
		if rd.TypeName == "RWByteAddressBuffer" {
			t, class = tHLSLRWByteBuf, 'u'
		}
		blk := r.newBlock(c, rd.Name, rd.Pos, rd.Reg, class)
		blk.Layout = "raw"
		res.Block = blk
		r.declareObject(c, rd, res, t, uint32(blk.idx))
		return
	}
	// other object types: type-checked as names only
	t, _ := r.namedType(rd.TypeName + rd.GenericS)
	r.declareObject(c, rd, res, t, 0xffffffff)
}

// declareObject declares a resource variable as a constant whose value is the
// index of its byte storage (so that it can be passed to functions).
func (r *hlslRules) declareObject(c *checker, rd *hlslResourceDecl, res *hlslResource, t *Type, idx uint32) {
	vt := t
	if res.ArrayLen > 0 {
		vt = c.prog.tt.arrayOf(t, res.ArrayLen)
		idx = 0xfffffffe // binding arrays are not modelled
	}
	res.T = vt
	v := mkValue(vt)
	for i := range v.C {
		v.C[i].B = idx
	}
	g := &GlobalVar{Name: rd.Name, T: vt, Storage: "const", Pos: rd.Pos, initVal: &v}
	c.prog.globals = append(c.prog.globals, g)
	c.declare(&Symbol{Kind: SymGlobal, Name: rd.Name, T: vt, Pos: rd.Pos, Global: g, ReadOnly: true, Const: true, CV: &v}, "global")
}

func (r *hlslRules) fmtType(t *Type) string { return hlslTypeName(t) }

var _ = fmt.Sprintf
