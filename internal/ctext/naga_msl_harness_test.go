package ctext

import (
	"fmt"
	"math"
	"sort"
	"strings"
	"testing"

	"github.com/gogpu/naga/ir"
	"github.com/gogpu/naga/msl"
)

// mslConfig is one option set of naga's MSL backend under which every
// nagaCase must compute the same (hand-computed, WGSL-defined) result.
type mslConfig struct {
	name    string
	opts    msl.Options
	binding string // "auto" (naga assigns [[buffer(n)]] sequentially), "fake" (FakeMissingBindings), "map" (explicit PerEntryPointMap)
}

var mslConfigs = []mslConfig{
	{"2.1 auto unchecked", msl.Options{LangVersion: msl.Version2_1}, "auto"},
	{"3.0 fake rzsw zero-wg loop-bound", msl.Options{LangVersion: msl.Version3_0, FakeMissingBindings: true, ZeroInitializeWorkgroupMemory: true, ForceLoopBounding: true,
		BoundsCheckPolicies: msl.BoundsCheckPolicies{Index: msl.BoundsCheckReadZeroSkipWrite, Buffer: msl.BoundsCheckReadZeroSkipWrite}}, "fake"},
	{"1.2 map restrict", msl.Options{LangVersion: msl.Version1_2,
		BoundsCheckPolicies: msl.BoundsCheckPolicies{Index: msl.BoundsCheckRestrict, Buffer: msl.BoundsCheckRestrict}}, "map"},
	{"2.4 auto restrict zero-wg", msl.Options{LangVersion: msl.Version2_4, ZeroInitializeWorkgroupMemory: true,
		BoundsCheckPolicies: msl.BoundsCheckPolicies{Index: msl.BoundsCheckRestrict, Buffer: msl.BoundsCheckUnchecked}}, "auto"},
	{"2.0 fake unchecked loop-bound", msl.Options{LangVersion: msl.Version2_0, FakeMissingBindings: true, ForceLoopBounding: true}, "fake"},
	{"3.1 map rzsw loop-bound", msl.Options{LangVersion: msl.Version3_1, ForceLoopBounding: true, ZeroInitializeWorkgroupMemory: true,
		BoundsCheckPolicies: msl.BoundsCheckPolicies{Index: msl.BoundsCheckReadZeroSkipWrite, Buffer: msl.BoundsCheckRestrict}}, "map"},
}

// mslBound describes how the harness bound the WGSL resources for one run.
type mslBound struct {
	txt   string
	entry string // MSL name of the entry point
	cfg   RunConfig
	work  map[gb][]byte
}

// bufferGlobals lists the buffer-typed global variables of a module that
// carry a binding, with their handle.
type bufGlobal struct {
	handle int
	name   string
	key    gb
}

func bufferGlobals(m *ir.Module) []bufGlobal {
	var out []bufGlobal
	for i, g := range m.GlobalVariables {
		if g.Binding == nil {
			continue
		}
		switch m.Types[g.Type].Inner.(type) {
		case ir.SamplerType, ir.ImageType:
			continue
		}
		out = append(out, bufGlobal{i, g.Name, gb{g.Binding.Group, g.Binding.Binding}})
	}
	return out
}

// matchArg finds the entry-point argument that naga generated for a WGSL
// global named name (the namer may append "_" or "_N").
func matchArg(e EntryInfo, name string) (ArgInfo, bool) {
	for _, a := range e.Args {
		if a.Name == name {
			return a, true
		}
	}
	for _, a := range e.Args {
		if strings.HasPrefix(a.Name, name+"_") {
			rest := a.Name[len(name)+1:]
			ok := true
			for _, ch := range rest {
				if ch < '0' || ch > '9' {
					ok = false
				}
			}
			if ok {
				return a, true
			}
		}
	}
	return ArgInfo{}, false
}

// prepareMSL compiles a case under a configuration, parses the text and
// builds the RunConfig.
func prepareMSL(c nagaCase, mc mslConfig, reverse bool) (problem string, b *mslBound, p *Program) {
	entry := c.entry
	if entry == "" {
		entry = "main"
	}
	// lower once to learn the globals
	_, _, m, err := compileMSL(c.wgsl, msl.Options{LangVersion: msl.Version2_1})
	if m == nil {
		return "naga: " + err.Error(), nil, nil
	}
	globals := bufferGlobals(m)
	sort.Slice(globals, func(i, j int) bool {
		a, b := globals[i].key, globals[j].key
		return a[0] < b[0] || (a[0] == b[0] && a[1] < b[1])
	})
	opts := mc.opts
	slotOf := map[gb]uint32{}
	const sizesSlot = 30
	switch mc.binding {
	case "auto":
		// documented in naga (computeResourceMap): sequential indices over all
		// buffer globals sorted by (group, binding)
		for i, g := range globals {
			slotOf[g.key] = uint32(i)
		}
	case "map":
		res := msl.EntryPointResources{Resources: map[ir.ResourceBinding]msl.BindTarget{}}
		for i, g := range globals {
			s := uint8(10 + 2*i)
			slotOf[g.key] = uint32(s)
			sl := s
			res.Resources[ir.ResourceBinding{Group: g.key[0], Binding: g.key[1]}] = msl.BindTarget{Buffer: &sl, Mutable: true}
		}
		ss := uint8(sizesSlot)
		res.SizesBuffer = &ss
		opts.PerEntryPointMap = map[string]msl.EntryPointResources{entry: res}
	}
	txt, info, _, err := compileMSL(c.wgsl, opts)
	if err != nil {
		return "naga: " + err.Error(), nil, nil
	}
	b = &mslBound{txt: txt, work: map[gb][]byte{}}
	p, err = Parse(MSL, txt)
	if err != nil {
		return "parse: " + err.Error(), b, nil
	}
	b.entry = info.EntryPointNames[entry]
	if b.entry == "" {
		b.entry = entry
	}
	var ls [3]uint32
	for _, ep := range m.EntryPoints {
		if ep.Name == entry {
			ls = ep.Workgroup
		}
	}
	cfg := RunConfig{Entry: b.entry, NumWorkgroups: c.groups, LocalSize: ls, StepLimit: 20_000_000, ReverseOrder: reverse,
		Buffers: map[Slot][]byte{}, BlockByName: map[string][]byte{}, SizesFrom: map[string]Slot{}, SizesFromName: map[string]string{}}
	if cfg.NumWorkgroups == [3]uint32{} {
		cfg.NumWorkgroups = [3]uint32{1, 1, 1}
	}
	for k, d := range c.bufs {
		b.work[k] = append([]byte(nil), d...)
	}
	var ei EntryInfo
	for _, e := range p.EntryPoints() {
		if e.Name == b.entry {
			ei = e
		}
	}
	if ei.Name == "" {
		return fmt.Sprintf("entry point %q not found in the text (EntryPoints: %+v)", b.entry, p.EntryPoints()), b, p
	}
	for _, g := range globals {
		data, ok := b.work[g.key]
		if !ok {
			continue
		}
		member := fmt.Sprintf("size%d", g.handle)
		switch mc.binding {
		case "fake":
			a, ok := matchArg(ei, g.name)
			if !ok {
				continue // the entry point does not use this global
			}
			if a.Buffer >= 0 || a.User == "" {
				return fmt.Sprintf("argument %s: expected a [[user(..)]] attribute with FakeMissingBindings, got %v", a.Name, a.Attrs), b, p
			}
			cfg.BlockByName[a.Name] = data
			cfg.SizesFromName[member] = a.Name
		default:
			s := Slot{Class: 'b', Index: slotOf[g.key]}
			cfg.Buffers[s] = data
			cfg.SizesFrom[member] = s
		}
	}
	b.cfg = cfg
	return "", b, p
}

// runNagaCaseMSL compiles and runs one case for one configuration; it returns
// a description of the first discrepancy ("" if none).
func runNagaCaseMSL(c nagaCase, mc mslConfig, reverse bool) (problem string, txt string, res *RunResult) {
	problem, b, p := prepareMSL(c, mc, reverse)
	if b != nil {
		txt = b.txt
	}
	if problem != "" {
		return problem, txt, nil
	}
	res, err := p.Run(b.cfg)
	if err != nil {
		return "run: " + err.Error(), txt, res
	}
	if res.Trap != "" {
		return "trap: " + res.Trap, txt, res
	}
	if len(res.Poison) > 0 {
		return "poison: " + strings.Join(res.Poison, "; "), txt, res
	}
	wkeys := make([]gb, 0, len(c.want))
	for k := range c.want {
		wkeys = append(wkeys, k)
	}
	sort.Slice(wkeys, func(i, j int) bool {
		return wkeys[i][0] < wkeys[j][0] || (wkeys[i][0] == wkeys[j][0] && wkeys[i][1] < wkeys[j][1])
	})
	for _, k := range wkeys {
		got := words32(b.work[k])
		want := c.want[k]
		if len(got) < len(want) {
			return fmt.Sprintf("buffer %v has %d words, expectation has %d", k, len(got), len(want)), txt, res
		}
		for i, w := range want {
			if ok, ws := compareWord(got[i], w); !ok {
				return fmt.Sprintf("mismatch: buffer %v word %d = %#x (%d, %g), want %s", k, i, got[i], int32(got[i]), math.Float32frombits(got[i]), ws), txt, res
			}
		}
	}
	return "", txt, res
}

// mslDefects: suspected defects of naga's MSL output per case name:
// configuration name (or "*") -> substring expected in the problem report.
type mslDefects map[string]map[string]string

func runNagaCasesMSL(t *testing.T, cases []nagaCase, defects mslDefects) {
	t.Helper()
	for _, c := range cases {
		c := c
		t.Run(c.name, func(t *testing.T) {
			for _, mc := range mslConfigs {
				for _, rev := range []bool{false, true} {
					problem, txt, _ := runNagaCaseMSL(c, mc, rev)
					wantDefect := ""
					if d := defects[c.name]; d != nil {
						wantDefect = d[mc.name]
						if wantDefect == "" {
							wantDefect = d["*"]
						}
					}
					switch {
					case (strings.HasPrefix(problem, "parse: unsupported") || strings.HasPrefix(problem, "run: unsupported")) && mslUnsupportedOK[c.name] != "" && strings.Contains(problem, mslUnsupportedOK[c.name]):
						if !rev {
							t.Logf("[%s] not modelled (counted, never a violation): %s", mc.name, problem)
						}
					case !mc.opts.ZeroInitializeWorkgroupMemory && strings.HasPrefix(problem, "poison:") && strings.Contains(problem, "threadgroup memory that was never written") && wantDefect == "":
						// without ZeroInitializeWorkgroupMemory naga intentionally
						// leaves workgroup memory uninitialised: the option changes
						// the meaning, the interpreter must notice the reads
						if !rev {
							t.Logf("[%s] workgroup memory is read uninitialised, as the options say", mc.name)
						}
					case wantDefect != "":
						if !strings.Contains(problem, wantDefect) {
							t.Errorf("[%s rev=%v] expected the known defect %q, got %q\n%s", mc.name, rev, wantDefect, problem, numbered(txt))
						} else if !rev {
							t.Logf("[%s] suspected naga defect still present: %s", mc.name, problem)
						}
					case problem != "":
						if rev {
							t.Errorf("[%s rev=%v] %s", mc.name, rev, problem)
						} else {
							t.Errorf("[%s rev=%v] %s\n%s", mc.name, rev, problem, numbered(txt))
						}
					}
				}
			}
		})
	}
}

// mslUnsupportedOK: cases whose MSL text uses a construct this front end
// deliberately does not judge (case name -> substring of the UnsupportedError).
var mslUnsupportedOK = map[string]string{
	// metal::all / metal::any of a scalar bool: the specification lists the
	// vector forms; whether the scalar overloads exist is not certain
	"all and any of a scalar bool": "metal::all(bool)",
}
