package ctext

import (
	"math"
	"strconv"
	"strings"
)

// hlslFE is the HLSL front end.  Grammar reference: the HLSL language
// reference (Microsoft Learn, "Language Syntax": Variables, Data Types,
// Functions, Statements, Expressions) and the DirectXShaderCompiler grammar
// for the constructs where the reference is silent.
type hlslFE struct {
	st *hlslState
}

// hlslState is the dialect state attached to a Program (side tables that keep
// the shared AST free of HLSL-only fields).
type hlslState struct {
	fe        *hlslFE
	paramSem  map[*Param]string          // parameter -> semantic
	fieldSem  map[*VarDecl]string        // struct field declarator -> semantic
	funcSem   map[*Function]string       // function -> return semantic
	attrs     map[*Function][]hlslAttr   // function -> [attributes]
	structs   map[*StructDef]*StructDecl // struct -> its declaration (field qualifiers)
	resources []*hlslResource            // declaration order
	entries   []*hlslEntry
	dynInit   []*GlobalVar // globals whose initialiser is evaluated at invocation start
	warnings  []string
	objTypes  map[string]*Type // object types other than byte-address buffers, by spelling
}

type hlslAttr struct {
	Pos  Pos
	Name string
	Args []Expr
}

// hlslRegister is a ": register(x#, space#)" annotation.
type hlslRegister struct {
	Pos      Pos
	Class    byte // 'b', 't', 'u', 's'
	Index    int
	Space    int
	HasSpace bool
}

// hlslDecl is one external declaration.
type hlslDecl struct {
	Pos      Pos
	Struct   *StructDecl
	Typedef  *hlslTypedef
	Vars     []*VarDecl // static / groupshared / static const / plain globals
	Storage  string     // of Vars: "static", "static const", "groupshared", "const", ""
	Func     *Function
	CBuffer  *hlslCBufferDecl
	Resource *hlslResourceDecl
}

type hlslTypedef struct {
	Pos   Pos
	Name  string
	TypeX *TypeExpr
}

type hlslCBufferDecl struct {
	Pos     Pos
	Name    string
	Reg     *hlslRegister
	Members []*VarDecl
	TBuffer bool
}

type hlslResourceDecl struct {
	Pos      Pos
	TypeName string    // ByteAddressBuffer, ConstantBuffer, Texture2D ...
	Generic  *TypeExpr // ConstantBuffer<T>, StructuredBuffer<T>
	GenericS string    // unparsed generic argument text when it is not a plain type
	Name     string
	Dims     []Expr
	Reg      *hlslRegister
	Quals    []string // globallycoherent ...
	Init     Expr     // object alias initialiser (not evaluated)
}

var hlslObjectTypes = words(`
ByteAddressBuffer RWByteAddressBuffer ConstantBuffer StructuredBuffer RWStructuredBuffer
AppendStructuredBuffer ConsumeStructuredBuffer Buffer RWBuffer
Texture1D Texture1DArray Texture2D Texture2DArray Texture2DMS Texture2DMSArray Texture3D
TextureCube TextureCubeArray RWTexture1D RWTexture1DArray RWTexture2D RWTexture2DArray RWTexture3D
SamplerState SamplerComparisonState sampler RaytracingAccelerationStructure
RasterizerOrderedBuffer RasterizerOrderedByteAddressBuffer RasterizerOrderedStructuredBuffer
RasterizerOrderedTexture1D RasterizerOrderedTexture2D RasterizerOrderedTexture3D
RayQuery RayDesc BuiltInTriangleIntersectionAttributes CANDIDATE_TYPE COMMITTED_STATUS InputPatch OutputPatch PointStream LineStream TriangleStream
`)

// hlslNumericType resolves the built-in scalar / vector / matrix type names.
// HLSL "floatRxC" has R rows and C columns and m[i] is ROW i; the shared Type
// stores a matrix as Cols column vectors of Rows components with m[i] = column
// i, so floatRxC is represented as the shared matrix with Cols=R, Rows=C (i.e.
// the transposed GLSL matrix): indexing, constructors (row-major fill) and
// value layout (row after row) then coincide with HLSL's meaning.  mul(),
// transpose() and determinant() are written against HLSL's meaning in
// hlsl_builtins.go.
func hlslNumericType(name string) (*Type, bool) {
	base, rest := "", ""
	for _, b := range []string{"bool", "int", "uint", "dword", "float", "double", "half",
		"min16float", "min10float", "min16int", "min12int", "min16uint",
		"int16_t", "uint16_t", "int32_t", "uint32_t", "int64_t", "uint64_t", "float16_t", "float32_t", "float64_t"} {
		if strings.HasPrefix(name, b) && len(b) > len(base) {
			r := name[len(b):]
			ok := r == "" || (len(r) == 1 && r[0] >= '1' && r[0] <= '4') ||
				(len(r) == 3 && r[0] >= '1' && r[0] <= '4' && r[1] == 'x' && r[2] >= '1' && r[2] <= '4')
			if ok {
				base, rest = b, r
			}
		}
	}
	if base == "" {
		return nil, false
	}
	var s *Type
	switch base {
	case "bool":
		s = tBool
	case "int", "int32_t":
		s = tInt
	case "uint", "dword", "uint32_t":
		s = tUint
	case "float", "float32_t":
		s = tFloat
	case "double", "float64_t":
		s = tDouble
	default:
		// 16-bit, minimum-precision and 64-bit integer types: valid, not modelled
		return &Type{Kind: KOpaque, Name: name}, true
	}
	switch len(rest) {
	case 0:
		return s, true
	case 1:
		n := int(rest[0] - '0')
		if n == 1 {
			return &Type{Kind: KOpaque, Name: name}, true // float1: not modelled
		}
		return vecOf(s, n), true
	}
	r, c := int(rest[0]-'0'), int(rest[2]-'0')
	if r == 1 || c == 1 || (s != tFloat && s != tDouble) {
		return &Type{Kind: KOpaque, Name: name}, true // 1-row/1-column and integer matrices: not modelled
	}
	return matOf(s, r, c), true
}

// hlslTypeName spells a shared type the HLSL way.
func hlslTypeName(t *Type) string {
	if t == nil {
		return "<nil>"
	}
	sc := func(k Kind) string {
		switch k {
		case KBool:
			return "bool"
		case KInt:
			return "int"
		case KUint:
			return "uint"
		case KFloat:
			return "float"
		case KDouble:
			return "double"
		}
		return "?"
	}
	switch t.Kind {
	case KVoid:
		return "void"
	case KBool, KInt, KUint, KFloat, KDouble:
		return sc(t.Kind)
	case KVec:
		return sc(t.Elem.Kind) + strconv.Itoa(t.N)
	case KMat:
		// shared Cols = HLSL rows, shared Rows = HLSL columns
		return sc(t.Elem.Kind) + strconv.Itoa(t.Cols) + "x" + strconv.Itoa(t.Rows)
	case KArray:
		var dims []string
		e := t
		for e.Kind == KArray {
			if e.N < 0 {
				dims = append(dims, "[]")
			} else {
				dims = append(dims, "["+strconv.Itoa(e.N)+"]")
			}
			e = e.Elem
		}
		return hlslTypeName(e) + strings.Join(dims, "")
	case KStruct:
		return t.Struct.Name
	case KOpaque:
		return t.Name
	}
	return "?"
}

// hlslBaseTypeName strips template arguments.
func hlslBaseTypeName(name string) string {
	if i := strings.IndexByte(name, '<'); i >= 0 {
		return name[:i]
	}
	return name
}

func (fe *hlslFE) hasDiscard() bool { return true }

func (fe *hlslFE) isReservedWord(p *parser, w string) bool {
	return hlslReservedKind(w) == "keyword" || hlslReservedKind(w) == "reserved"
}

func (fe *hlslFE) checkDeclIdent(p *parser, t Token) {
	switch k := hlslReservedKind(t.Text); k {
	case "keyword", "reserved":
		t.Pos.invalid(HLSL, "keyword", "%q is a keyword or reserved word of HLSL and cannot be declared as an identifier", t.Text)
	case "keyword-fxc":
		t.Pos.invalid(HLSL, "keyword-fxc", "%q is reserved (in any letter case) by the FXC compiler and cannot be declared as an identifier for shader models 5.x", t.Text)
	}
}

var hlslDeclQualifiers = words(`
const static extern uniform volatile precise groupshared shared row_major column_major
nointerpolation noperspective centroid linear sample snorm unorm globallycoherent inline export
in out inout
`)

// isTypeStart reports whether the token names a type here.
func (fe *hlslFE) isTypeStart(p *parser, t Token) bool {
	if t.Kind != TIdent {
		return false
	}
	if t.Text == "struct" {
		return true
	}
	if p.varHides(t.Text) {
		return false
	}
	if _, ok := hlslNumericType(t.Text); ok {
		return true
	}
	if t.Text == "vector" || t.Text == "matrix" || t.Text == "void" {
		return true
	}
	if hlslObjectTypes[t.Text] {
		return true
	}
	return p.isTypeName(t.Text)
}

// varHides reports whether a variable declared in an enclosing scope hides
// the (built-in) type name.  Built-in type names are keywords in HLSL, so this
// is only relevant for user type names; kept for symmetry with isTypeName.
func (p *parser) varHides(name string) bool {
	for i := len(p.varScopes) - 1; i >= 0; i-- {
		if p.varScopes[i][name] {
			return true
		}
		if p.typeScopes[i][name] {
			return false
		}
	}
	return false
}

func (fe *hlslFE) startsDecl(p *parser) bool {
	t := p.peek()
	if t.Kind != TIdent {
		return false
	}
	switch t.Text {
	case "const", "static", "row_major", "column_major", "precise", "volatile", "struct", "typedef", "groupshared", "extern", "uniform":
		return true
	}
	if !fe.isTypeStart(p, t) {
		// "name name": a declaration with an unknown type name (reported by
		// parseTypeName); statement keywords never reach this point
		return p.peekN(1).Kind == TIdent && hlslReservedKind(t.Text) == ""
	}
	n := p.peekN(1)
	if n.Kind == TIdent {
		return true // T name
	}
	if n.Kind == TPunct && n.Text == "<" && (t.Text == "vector" || t.Text == "matrix" || hlslObjectTypes[t.Text]) {
		return true
	}
	if n.Kind == TPunct && n.Text == "[" {
		// "T[2] name" is not an HLSL declarator; report it as such (instead
		// of a confusing expression error) when an identifier follows the
		// bracket groups.
		j := 1
		for p.peekN(j).Kind == TPunct && p.peekN(j).Text == "[" {
			depth := 0
			for {
				tk := p.peekN(j)
				if tk.Kind == TEOF {
					return false
				}
				if tk.Kind == TPunct && tk.Text == "[" {
					depth++
				}
				if tk.Kind == TPunct && tk.Text == "]" {
					depth--
					if depth == 0 {
						j++
						break
					}
				}
				j++
			}
		}
		return p.peekN(j).Kind == TIdent
	}
	return false
}

// ---------------------------------------------------------------------------
// literals
// ---------------------------------------------------------------------------

// numberLit: HLSL reference, "Grammar > Numbers": integer suffixes u/U and
// l/L; floating suffixes h/H (half), f/F (float), l/L (double); unsuffixed
// floating literals are float.  Unsuffixed integer literals are int; one that
// does not fit int but fits 32 bits keeps its bit pattern and is typed uint.
func (fe *hlslFE) numberLit(p *parser, t Token) Expr {
	if t.IsFloat {
		switch t.Suffix {
		case "", "f", "F":
			f, err := strconv.ParseFloat(t.Text, 32)
			if err != nil && !math.IsInf(f, 0) {
				t.Pos.invalid(HLSL, "syntax", "bad floating literal %q", t.Text)
			}
			return &Lit{ExprBase: ExprBase{Pos: t.Pos}, V: floatValue(float32(f))}
		case "h", "H":
			t.Pos.unsupported(HLSL, "half-precision literal %s", t.String())
		case "l", "L":
			f, _ := strconv.ParseFloat(t.Text, 64)
			return &Lit{ExprBase: ExprBase{Pos: t.Pos}, V: Value{T: tDouble, C: []Cell{f32Cell(float32(f))}}}
		}
		t.Pos.invalid(HLSL, "syntax", "bad suffix on floating literal %q", t.String())
	}
	unsigned := false
	switch strings.ToLower(t.Suffix) {
	case "":
	case "u":
		unsigned = true
	case "l", "ul", "lu", "ll", "ull":
		t.Pos.unsupported(HLSL, "64-bit integer literal %s", t.String())
	case "f", "h":
		// "1f" is not a valid HLSL literal
		t.Pos.invalid(HLSL, "syntax", "bad suffix on integer literal %q", t.String())
	default:
		t.Pos.invalid(HLSL, "syntax", "bad suffix on integer literal %q", t.String())
	}
	body := t.Text
	var v uint64
	var err error
	switch {
	case strings.HasPrefix(body, "0x") || strings.HasPrefix(body, "0X"):
		if len(body) == 2 {
			t.Pos.invalid(HLSL, "syntax", "bad hexadecimal literal %q", body)
		}
		v, err = strconv.ParseUint(body[2:], 16, 64)
	case len(body) > 1 && body[0] == '0':
		v, err = strconv.ParseUint(body[1:], 8, 64)
		if err != nil {
			t.Pos.invalid(HLSL, "syntax", "bad octal literal %q", body)
		}
	default:
		v, err = strconv.ParseUint(body, 10, 64)
	}
	if err != nil || v > 0xffffffff {
		t.Pos.unsupported(HLSL, "integer literal %s does not fit in 32 bits", t.String())
	}
	typ := tInt
	if unsigned || v > 0x7fffffff {
		typ = tUint
	}
	return &Lit{ExprBase: ExprBase{Pos: t.Pos}, V: Value{T: typ, C: []Cell{{B: uint32(v)}}}}
}

// ---------------------------------------------------------------------------
// types
// ---------------------------------------------------------------------------

func (fe *hlslFE) parseArrayDims(p *parser) []Expr {
	var dims []Expr
	for p.isPunct("[") {
		p.next()
		if p.accept("]") {
			dims = append(dims, nil)
			continue
		}
		e := p.parseCond()
		p.expect("]")
		dims = append(dims, e)
	}
	return dims
}

// parseTypeName parses a type name WITHOUT array suffixes (HLSL puts array
// dimensions after the declared name).
func (fe *hlslFE) parseTypeName(p *parser) *TypeExpr {
	t := p.peek()
	if t.Kind != TIdent {
		t.Pos.invalid(HLSL, "syntax", "expected a type, found %q", t.String())
	}
	tx := &TypeExpr{Pos: t.Pos}
	switch {
	case t.Text == "struct":
		tx.Struct = fe.parseStructSpec(p, "")
		tx.Name = tx.Struct.Name
		return tx
	case t.Text == "vector" || t.Text == "matrix":
		p.next()
		if !p.isPunct("<") {
			// "vector" alone is float4, "matrix" alone is float4x4
			if t.Text == "vector" {
				tx.Name = "float4"
			} else {
				tx.Name = "float4x4"
			}
			return tx
		}
		p.next()
		bt := p.next()
		if bt.Kind != TIdent {
			bt.Pos.invalid(HLSL, "syntax", "expected a scalar type in %s<>", t.Text)
		}
		name := bt.Text
		for i := 0; i < 2; i++ {
			if !p.accept(",") {
				break
			}
			nt := p.next()
			if nt.Kind != TNumber || nt.Suffix != "" || nt.IsFloat {
				nt.Pos.unsupported(HLSL, "%s<> with a non-literal dimension", t.Text)
			}
			if i == 1 {
				name += "x"
			}
			name += nt.Text
		}
		p.expect(">")
		if _, ok := hlslNumericType(name); !ok {
			t.Pos.invalid(HLSL, "type", "bad %s<> type (%s)", t.Text, name)
		}
		tx.Name = name
		return tx
	}
	if !fe.isTypeStart(p, t) {
		if k := hlslReservedKind(t.Text); k == "keyword" || k == "reserved" {
			t.Pos.invalid(HLSL, "syntax", "expected a type, found keyword %q", t.Text)
		}
		t.Pos.invalid(HLSL, "undeclared", "unknown type name %q", t.Text)
	}
	p.next()
	tx.Name = t.Text
	if nt, ok := hlslNumericType(t.Text); ok && nt.Kind == KOpaque && !p.isTypeName(t.Text) {
		t.Pos.unsupported(HLSL, "type %s (16-bit, 64-bit, minimum-precision, 1-component and integer-matrix types are not modelled)", t.Text)
	}
	if hlslObjectTypes[t.Text] && p.isPunct("<") {
		// object type with template arguments: skip them, keep the text
		depth := 0
		var sb strings.Builder
		for {
			tk := p.next()
			if tk.Kind == TEOF {
				tk.Pos.invalid(HLSL, "syntax", "unterminated template argument list")
			}
			sb.WriteString(tk.String())
			if tk.Kind == TPunct && tk.Text == "<" {
				depth++
			}
			if tk.Kind == TPunct && tk.Text == ">" {
				depth--
				if depth == 0 {
					break
				}
			}
			if tk.Kind == TPunct && tk.Text == ">>" {
				depth -= 2
				if depth <= 0 {
					break
				}
			}
		}
		tx.Name = t.Text + sb.String()
	}
	return tx
}

func (fe *hlslFE) parseStructSpec(p *parser, typedefName string) *StructDecl {
	st := p.expectWord("struct")
	sd := &StructDecl{Pos: st.Pos}
	if p.peek().Kind == TIdent {
		sd.Name = p.declIdent().Text
	}
	if p.isPunct(":") {
		p.peek().Pos.unsupported(HLSL, "struct inheritance")
	}
	p.expect("{")
	for !p.isPunct("}") {
		if p.peek().Kind == TEOF {
			p.peek().Pos.invalid(HLSL, "syntax", "unexpected end of input in struct")
		}
		sd.Fields = append(sd.Fields, fe.parseMemberDecls(p, true)...)
	}
	p.next()
	if len(sd.Fields) == 0 {
		sd.Pos.unsupported(HLSL, "empty struct")
	}
	if sd.Name != "" {
		p.declareType(sd.Name)
	}
	return sd
}

// hlslQuals is the result of parsing declaration modifiers.
type hlslQuals struct {
	q           Quals
	static      bool
	groupshared bool
	extern      bool
	rowMajor    int8 // 0 unspecified, 1 row_major, 2 column_major
	other       []string
	any         bool
}

func (fe *hlslFE) parseQualifiers(p *parser) hlslQuals {
	var hq hlslQuals
	hq.q.Pos = p.peek().Pos
	for {
		t := p.peek()
		if t.Kind != TIdent || !hlslDeclQualifiers[t.Text] {
			return hq
		}
		// "sample"/"linear" are contextual: a qualifier only when followed by another word
		if (t.Text == "sample" || t.Text == "linear") && p.peekN(1).Kind != TIdent {
			return hq
		}
		p.next()
		hq.any = true
		switch t.Text {
		case "const":
			hq.q.Const = true
		case "static":
			hq.static = true
		case "extern":
			hq.extern = true
		case "uniform":
			hq.q.Uniform = true
		case "volatile":
			hq.q.Volatile = true
		case "precise":
			hq.q.Precise = true
		case "groupshared":
			hq.groupshared = true
		case "shared":
			hq.other = append(hq.other, t.Text)
		case "row_major":
			hq.rowMajor = 1
			hq.q.Layout = append(hq.q.Layout, LayoutItem{Pos: t.Pos, Name: "row_major"})
		case "column_major":
			hq.rowMajor = 2
			hq.q.Layout = append(hq.q.Layout, LayoutItem{Pos: t.Pos, Name: "column_major"})
		case "in":
			hq.q.In = true
		case "out":
			hq.q.Out = true
		case "inout":
			hq.q.Inout = true
		case "nointerpolation", "noperspective", "linear":
			hq.q.Interp = t.Text
		case "centroid":
			hq.q.Centroid = true
		case "sample":
			hq.q.Sample = true
		default:
			hq.other = append(hq.other, t.Text)
		}
	}
}

// parseSemantic parses an optional ": NAME" (semantic) — not register().
func (fe *hlslFE) parseSemantic(p *parser) string {
	if !p.isPunct(":") {
		return ""
	}
	n := p.peekN(1)
	if n.Kind != TIdent || n.Text == "register" || n.Text == "packoffset" {
		return ""
	}
	p.next()
	p.next()
	return n.Text
}

func (fe *hlslFE) parseRegister(p *parser) *hlslRegister {
	if !p.isPunct(":") {
		return nil
	}
	n := p.peekN(1)
	if n.Kind != TIdent || n.Text != "register" {
		return nil
	}
	p.next()
	p.next()
	p.expect("(")
	rt := p.next()
	if rt.Kind != TIdent || len(rt.Text) < 2 {
		rt.Pos.invalid(HLSL, "syntax", "expected a register name like t0, u1, b2 or s3, found %q", rt.String())
	}
	reg := &hlslRegister{Pos: rt.Pos, Class: rt.Text[0]}
	switch reg.Class {
	case 'b', 't', 'u', 's', 'c':
	default:
		rt.Pos.invalid(HLSL, "syntax", "unknown register class in %q", rt.Text)
	}
	n64, err := strconv.ParseUint(rt.Text[1:], 10, 31)
	if err != nil {
		rt.Pos.invalid(HLSL, "syntax", "bad register number in %q", rt.Text)
	}
	reg.Index = int(n64)
	if p.isPunct("[") {
		p.peek().Pos.unsupported(HLSL, "register subcomponent / offset")
	}
	if p.accept(",") {
		sp := p.next()
		if sp.Kind != TIdent || !strings.HasPrefix(sp.Text, "space") {
			sp.Pos.invalid(HLSL, "syntax", "expected spaceN, found %q", sp.String())
		}
		s64, err := strconv.ParseUint(sp.Text[5:], 10, 31)
		if err != nil {
			sp.Pos.invalid(HLSL, "syntax", "bad register space %q", sp.Text)
		}
		reg.Space = int(s64)
		reg.HasSpace = true
	}
	p.expect(")")
	return reg
}

// parseMemberDecls parses "quals type a, b[2] : SEM;" inside a struct or
// cbuffer.
func (fe *hlslFE) parseMemberDecls(p *parser, inStruct bool) []*VarDecl {
	hq := fe.parseQualifiers(p)
	if hq.static || hq.groupshared || hq.extern {
		hq.q.Pos.unsupported(HLSL, "static / groupshared / extern member declaration")
	}
	tx := fe.parseTypeName(p)
	if p.isPunct("[") {
		p.peek().Pos.invalid(HLSL, "syntax", "array dimensions must follow the declared name, not the type (%s[...] name)", tx.Name)
	}
	var out []*VarDecl
	for {
		if p.peek().Kind == TIdent && p.peekN(1).Kind == TPunct && p.peekN(1).Text == "(" {
			p.peek().Pos.unsupported(HLSL, "member function")
		}
		name := p.declIdent()
		vd := &VarDecl{Pos: name.Pos, Name: name.Text, Quals: hq.q}
		dims := fe.parseArrayDims(p)
		vd.TypeX = &TypeExpr{Pos: tx.Pos, Name: tx.Name, Struct: tx.Struct, Dims: dims}
		if sem := fe.parseSemantic(p); sem != "" {
			fe.st.fieldSem[vd] = sem
		}
		if p.isPunct(":") {
			// packoffset / register on a member
			p.peek().Pos.unsupported(HLSL, "packoffset / register annotation on a member")
		}
		if p.isPunct("=") {
			p.peek().Pos.unsupported(HLSL, "default value of a struct or cbuffer member")
		}
		out = append(out, vd)
		if p.accept(",") {
			continue
		}
		p.expect(";")
		return out
	}
}

// ---------------------------------------------------------------------------
// expressions: casts, constructors
// ---------------------------------------------------------------------------

func (fe *hlslFE) parsePrimary(p *parser) Expr {
	t := p.peek()
	if t.Kind == TPunct && t.Text == "(" {
		// C-style cast: "(" type-name dims? ")" unary-expression
		n := p.peekN(1)
		if n.Kind == TIdent && n.Text != "struct" && fe.isTypeStart(p, n) {
			j := 2
			if n.Text == "vector" || n.Text == "matrix" {
				return nil // rare generic spelling in a cast: treated as an expression (will fail to parse)
			}
			// skip [dims]
			for p.peekN(j).Kind == TPunct && p.peekN(j).Text == "[" {
				depth := 0
				for {
					tk := p.peekN(j)
					if tk.Kind == TEOF {
						return nil
					}
					if tk.Kind == TPunct && tk.Text == "[" {
						depth++
					}
					if tk.Kind == TPunct && tk.Text == "]" {
						depth--
						if depth == 0 {
							j++
							break
						}
					}
					j++
				}
			}
			if tk := p.peekN(j); tk.Kind == TPunct && tk.Text == ")" {
				p.next() // (
				tx := fe.parseTypeName(p)
				tx.Dims = fe.parseArrayDims(p)
				p.expect(")")
				p.enter(t.Pos)
				x := p.parseUnary()
				p.leave()
				return &hlslCast{ExprBase: ExprBase{Pos: t.Pos}, TypeX: tx, X: x}
			}
		}
		return nil
	}
	if t.Kind == TNumber {
		return nil
	}
	if t.Kind != TIdent {
		return nil
	}
	if nt, isNum := hlslNumericType(t.Text); isNum && !p.varHides(t.Text) {
		if nt.Kind == KOpaque {
			t.Pos.unsupported(HLSL, "type %s (16-bit, 64-bit, minimum-precision, 1-component and integer-matrix types are not modelled)", t.Text)
		}
		// functional cast / numeric constructor: T(args)
		n := p.peekN(1)
		if !(n.Kind == TPunct && n.Text == "(") {
			t.Pos.invalid(HLSL, "syntax", "type name %q used as an expression (expected '(' for a constructor)", t.Text)
		}
		p.next()
		args := p.parseArgs()
		return &hlslCtor{ExprBase: ExprBase{Pos: t.Pos}, TypeX: &TypeExpr{Pos: t.Pos, Name: t.Text}, Args: args}
	}
	if p.isTypeName(t.Text) {
		n := p.peekN(1)
		if n.Kind == TPunct && n.Text == "(" {
			// HLSL structs and typedefs have no constructors: "S(a, b)" is not valid
			t.Pos.invalid(HLSL, "syntax", "%q is a type; HLSL has no constructor syntax for structure or typedef types", t.Text)
		}
		t.Pos.invalid(HLSL, "syntax", "type name %q used as an expression", t.Text)
	}
	return nil
}

// ---------------------------------------------------------------------------
// local declarations
// ---------------------------------------------------------------------------

func (fe *hlslFE) parseDeclStmt(p *parser) Stmt {
	start := p.peek()
	if start.Kind == TIdent && start.Text == "typedef" {
		start.Pos.unsupported(HLSL, "typedef inside a function")
	}
	hq := fe.parseQualifiers(p)
	if hq.static {
		hq.q.Pos.unsupported(HLSL, "static local variable")
	}
	if hq.groupshared || hq.extern || hq.q.Uniform || hq.q.In || hq.q.Out || hq.q.Inout {
		hq.q.Pos.invalid(HLSL, "syntax", "storage class not allowed on a local variable")
	}
	tx := fe.parseTypeName(p)
	if hlslObjectTypes[hlslBaseTypeName(tx.Name)] {
		tx.Pos.unsupported(HLSL, "local variable of object type %s", tx.Name)
	}
	ds := &DeclStmt{Pos: start.Pos}
	if p.accept(";") {
		if tx.Struct == nil {
			start.Pos.invalid(HLSL, "syntax", "declaration declares nothing")
		}
		ds.Struct = tx.Struct
		return ds
	}
	if p.isPunct("[") {
		p.peek().Pos.invalid(HLSL, "syntax", "array dimensions must follow the declared name, not the type (%s[...] name)", tx.Name)
	}
	ds.Struct = tx.Struct
	q := hq.q
	q.Layout = nil // row_major on a local has no effect on values
	ds.Vars = fe.parseDeclarators(p, q, tx)
	p.expect(";")
	return ds
}

// parseDeclarators parses "a, b[2] = init, ..." up to (not including) ';'.
func (fe *hlslFE) parseDeclarators(p *parser, q Quals, tx *TypeExpr) []*VarDecl {
	var out []*VarDecl
	for {
		name := p.declIdent()
		vd := &VarDecl{Pos: name.Pos, Name: name.Text, Quals: q}
		dims := fe.parseArrayDims(p)
		vd.TypeX = &TypeExpr{Pos: tx.Pos, Name: tx.Name, Struct: tx.Struct, Dims: dims}
		if p.isPunct(":") {
			p.peek().Pos.unsupported(HLSL, "semantic / register annotation on this declaration")
		}
		if p.accept("=") {
			vd.Init = fe.parseInitializer(p, vd.TypeX)
		}
		p.declareVar(name.Text)
		out = append(out, vd)
		if !p.accept(",") {
			return out
		}
	}
}

func (fe *hlslFE) parseInitializer(p *parser, tx *TypeExpr) Expr {
	if p.isPunct("{") {
		return fe.parseInitList(p, tx)
	}
	return p.parseAssign()
}

func (fe *hlslFE) parseInitList(p *parser, tx *TypeExpr) Expr {
	lb := p.expect("{")
	p.enter(lb.Pos)
	defer p.leave()
	il := &hlslInit{ExprBase: ExprBase{Pos: lb.Pos}, TypeX: tx}
	for !p.isPunct("}") {
		if p.isPunct("{") {
			il.Elems = append(il.Elems, fe.parseInitList(p, nil))
		} else {
			il.Elems = append(il.Elems, p.parseAssign())
		}
		if !p.accept(",") {
			break
		}
	}
	p.expect("}")
	return il
}

// ---------------------------------------------------------------------------
// translation unit
// ---------------------------------------------------------------------------

func (fe *hlslFE) parseTranslationUnit(p *parser) []*hlslDecl {
	var decls []*hlslDecl
	for {
		t := p.peek()
		if t.Kind == TEOF {
			return decls
		}
		if t.Kind == TDirective {
			f := strings.Fields(t.Text)
			if len(f) > 0 && (f[0] == "pragma" || f[0] == "line") {
				p.next()
				continue
			}
			t.Pos.unsupported(HLSL, "preprocessor directive #%s", t.Text)
		}
		if p.accept(";") {
			continue
		}
		decls = append(decls, fe.parseExternalDecl(p))
	}
}

func (fe *hlslFE) parseAttributes(p *parser) []hlslAttr {
	var attrs []hlslAttr
	for p.isPunct("[") {
		lb := p.next()
		if p.isPunct("[") {
			lb.Pos.unsupported(HLSL, "[[...]] attribute")
		}
		name := p.next()
		if name.Kind != TIdent {
			name.Pos.invalid(HLSL, "syntax", "expected attribute name, found %q", name.String())
		}
		a := hlslAttr{Pos: name.Pos, Name: name.Text}
		if p.isPunct("(") {
			a.Args = p.parseArgs()
		}
		p.expect("]")
		attrs = append(attrs, a)
	}
	return attrs
}

func (fe *hlslFE) parseExternalDecl(p *parser) *hlslDecl {
	start := p.peek()
	d := &hlslDecl{Pos: start.Pos}
	attrs := fe.parseAttributes(p)
	t := p.peek()
	if t.Kind != TIdent {
		t.Pos.invalid(HLSL, "syntax", "unexpected %q at global scope", t.String())
	}
	switch t.Text {
	case "typedef":
		p.next()
		hq := fe.parseQualifiers(p)
		_ = hq
		var tx *TypeExpr
		if p.isWord("struct") {
			sd := fe.parseStructSpec(p, "")
			tx = &TypeExpr{Pos: sd.Pos, Name: sd.Name, Struct: sd}
		} else {
			tx = fe.parseTypeName(p)
		}
		if p.isPunct("[") {
			p.peek().Pos.invalid(HLSL, "syntax", "array dimensions must follow the declared name in a typedef")
		}
		name := p.declIdent()
		dims := fe.parseArrayDims(p)
		p.expect(";")
		if tx.Struct != nil && tx.Struct.Name == "" && len(dims) == 0 {
			// typedef struct { ... } Name;  ==  struct Name { ... };
			tx.Struct.Name = name.Text
			tx.Struct.Pos = name.Pos
			p.declareType(name.Text)
			d.Struct = tx.Struct
			return d
		}
		p.declareType(name.Text)
		d.Typedef = &hlslTypedef{Pos: name.Pos, Name: name.Text, TypeX: &TypeExpr{Pos: tx.Pos, Name: tx.Name, Struct: tx.Struct, Dims: dims}}
		return d
	case "cbuffer", "tbuffer":
		p.next()
		name := p.declIdent()
		cb := &hlslCBufferDecl{Pos: name.Pos, Name: name.Text, TBuffer: t.Text == "tbuffer"}
		cb.Reg = fe.parseRegister(p)
		p.expect("{")
		for !p.isPunct("}") {
			if p.peek().Kind == TEOF {
				p.peek().Pos.invalid(HLSL, "syntax", "unexpected end of input in cbuffer")
			}
			ms := fe.parseMemberDecls(p, false)
			for _, m := range ms {
				p.declareVar(m.Name)
			}
			cb.Members = append(cb.Members, ms...)
		}
		p.next()
		p.accept(";")
		if cb.TBuffer {
			cb.Pos.unsupported(HLSL, "tbuffer")
		}
		d.CBuffer = cb
		return d
	case "namespace", "class", "interface", "template", "using", "enum":
		t.Pos.unsupported(HLSL, "%s declaration", t.Text)
	}
	hq := fe.parseQualifiers(p)
	t = p.peek()
	if t.Kind != TIdent {
		t.Pos.invalid(HLSL, "syntax", "unexpected %q at global scope", t.String())
	}
	// resource objects
	isFuncWithObjectReturn := p.peekN(1).Kind == TIdent && p.peekN(2).Kind == TPunct && p.peekN(2).Text == "("
	if hlslObjectTypes[t.Text] && !isFuncWithObjectReturn {
		tx := fe.parseTypeName(p)
		rd := &hlslResourceDecl{Pos: tx.Pos, TypeName: t.Text, Quals: hq.other}
		if len(tx.Name) > len(t.Text) {
			rd.GenericS = tx.Name[len(t.Text):]
		}
		if p.isPunct("[") {
			p.peek().Pos.invalid(HLSL, "syntax", "array dimensions must follow the declared name, not the type")
		}
		name := p.declIdent()
		rd.Name = name.Text
		rd.Pos = name.Pos
		rd.Dims = fe.parseArrayDims(p)
		rd.Reg = fe.parseRegister(p)
		if p.isPunct("{") {
			p.peek().Pos.unsupported(HLSL, "sampler state block")
		}
		if p.accept("=") {
			// "static const SamplerState s = heap[index];": an object alias; the
			// initialiser is parsed but not evaluated (objects other than byte
			// address buffers are type-checked as names only)
			if !hq.static {
				rd.Pos.unsupported(HLSL, "initialiser of a non-static resource variable")
			}
			rd.Init = p.parseAssign()
		}
		p.expect(";")
		p.declareVar(name.Text)
		d.Resource = rd
		return d
	}
	tx := fe.parseTypeName(p)
	if p.accept(";") {
		if tx.Struct == nil {
			start.Pos.invalid(HLSL, "syntax", "declaration declares nothing")
		}
		d.Struct = tx.Struct
		return d
	}
	d.Struct = tx.Struct
	if p.isPunct("[") {
		// naga defect candidate: "static uint[2][3] a = ...;"
		p.peek().Pos.invalid(HLSL, "syntax", "array dimensions must follow the declared name, not the type (\"%s[...] name\" is not an HLSL declarator)", tx.Name)
	}
	// function?
	if p.peek().Kind == TIdent && p.peekN(1).Kind == TPunct && p.peekN(1).Text == "(" {
		name := p.declIdent()
		fn := &Function{Pos: name.Pos, Name: name.Text, RetX: tx}
		if hq.groupshared || hq.q.Uniform || hq.q.In || hq.q.Out || hq.q.Inout {
			hq.q.Pos.invalid(HLSL, "syntax", "storage class on a function return type")
		}
		p.expect("(")
		p.pushScope()
		if p.isWord("void") && p.peekN(1).Kind == TPunct && p.peekN(1).Text == ")" {
			p.next()
		}
		for !p.isPunct(")") {
			pq := fe.parseQualifiers(p)
			if pq.static || pq.groupshared || pq.extern {
				pq.q.Pos.invalid(HLSL, "syntax", "storage class on a parameter")
			}
			ptx := fe.parseTypeName(p)
			if p.isPunct("[") {
				p.peek().Pos.invalid(HLSL, "syntax", "array dimensions must follow the parameter name, not the type")
			}
			prm := &Param{Pos: ptx.Pos, Quals: pq.q, TypeX: ptx, Dir: "in"}
			n := 0
			if pq.q.In {
				n++
			}
			if pq.q.Out {
				prm.Dir = "out"
				n++
			}
			if pq.q.Inout {
				prm.Dir = "inout"
				n++
			}
			if pq.q.In && pq.q.Out && !pq.q.Inout {
				prm.Dir = "inout" // "in out" is inout
				n = 1
			}
			if n > 1 {
				pq.q.Pos.invalid(HLSL, "syntax", "conflicting in/out/inout on a parameter")
			}
			if p.peek().Kind == TIdent {
				nm := p.declIdent()
				prm.Name = nm.Text
				prm.Pos = nm.Pos
				dims := fe.parseArrayDims(p)
				prm.TypeX = &TypeExpr{Pos: ptx.Pos, Name: ptx.Name, Struct: ptx.Struct, Dims: dims}
				p.declareVar(nm.Text)
			}
			if sem := fe.parseSemantic(p); sem != "" {
				fe.st.paramSem[prm] = sem
			}
			if p.isPunct("=") {
				p.peek().Pos.unsupported(HLSL, "default parameter value")
			}
			fn.Params = append(fn.Params, prm)
			if p.accept(",") {
				if p.isPunct(")") {
					p.peek().Pos.invalid(HLSL, "syntax", "trailing comma in parameter list")
				}
				continue
			}
			break
		}
		p.expect(")")
		if sem := fe.parseSemantic(p); sem != "" {
			fe.st.funcSem[fn] = sem
		}
		if len(attrs) > 0 {
			fe.st.attrs[fn] = attrs
		}
		if p.accept(";") {
			p.popScope()
			d.Func = fn
			return d
		}
		if !p.isPunct("{") {
			p.peek().Pos.invalid(HLSL, "syntax", "expected ';' or function body, found %q", p.peek().String())
		}
		fn.Body = p.parseBlock()
		p.popScope()
		d.Func = fn
		return d
	}
	if len(attrs) > 0 {
		attrs[0].Pos.invalid(HLSL, "syntax", "attribute on a variable declaration")
	}
	switch {
	case hq.groupshared:
		d.Storage = "groupshared"
	case hq.static && hq.q.Const:
		d.Storage = "static const"
	case hq.static:
		d.Storage = "static"
	case hq.q.Const:
		d.Storage = "const"
	}
	if hq.extern || hq.q.In || hq.q.Out || hq.q.Inout {
		hq.q.Pos.unsupported(HLSL, "extern / in / out global variable")
	}
	d.Vars = fe.parseDeclarators(p, hq.q, tx)
	p.expect(";")
	return d
}

// hlslMergeTemplateCalls merges ". Name < T > (" (templated method call, e.g.
// buf.Load<int64_t>(0)) into a single identifier token "Name<T>" so that the
// shared postfix parser sees a method call; checkMethod reports such methods as
// not modelled.
func hlslMergeTemplateCalls(toks []Token) []Token {
	out := toks[:0:0]
	for i := 0; i < len(toks); i++ {
		t := toks[i]
		if t.Kind == TIdent && i > 0 && toks[i-1].Kind == TPunct && toks[i-1].Text == "." && i+4 < len(toks) &&
			toks[i+1].Kind == TPunct && toks[i+1].Text == "<" && toks[i+2].Kind == TIdent &&
			toks[i+3].Kind == TPunct && toks[i+3].Text == ">" && toks[i+4].Kind == TPunct && toks[i+4].Text == "(" {
			t.Text = t.Text + "<" + toks[i+2].Text + ">"
			out = append(out, t)
			i += 3
			continue
		}
		out = append(out, t)
	}
	return out
}

var hlslStmtAttributes = words(`branch flatten loop unroll fastopt allow_uav_condition forcecase call`)

// hlslDropStatementAttributes removes "[branch]", "[loop]", "[unroll(4)]" ...
// in front of if / for / while / do / switch (HLSL reference, "Flow Control":
// the attributes only guide code generation).  An unknown attribute name in
// that position is an InvalidError.
func hlslDropStatementAttributes(toks []Token) []Token {
	out := toks[:0:0]
	droppedUpTo := -2
	for i := 0; i < len(toks); i++ {
		t := toks[i]
		if t.Kind == TPunct && t.Text == "[" && i+2 < len(toks) && toks[i+1].Kind == TIdent && i > 0 {
			prev := toks[i-1]
			atStmtStart := prev.Kind == TPunct && (prev.Text == "{" || prev.Text == "}" || prev.Text == ";" || prev.Text == ":") ||
				prev.Kind == TIdent && (prev.Text == "else" || prev.Text == "do") || droppedUpTo == i-1
			j := i + 2
			if j < len(toks) && toks[j].Kind == TPunct && toks[j].Text == "(" {
				depth := 0
				for ; j < len(toks); j++ {
					if toks[j].Kind == TPunct && toks[j].Text == "(" {
						depth++
					}
					if toks[j].Kind == TPunct && toks[j].Text == ")" {
						depth--
						if depth == 0 {
							j++
							break
						}
					}
				}
			}
			if atStmtStart && j+1 < len(toks) && toks[j].Kind == TPunct && toks[j].Text == "]" {
				nx := toks[j+1]
				isStmt := nx.Kind == TIdent && (nx.Text == "if" || nx.Text == "for" || nx.Text == "while" || nx.Text == "do" || nx.Text == "switch") ||
					nx.Kind == TPunct && nx.Text == "["
				if isStmt {
					if !hlslStmtAttributes[toks[i+1].Text] {
						toks[i+1].Pos.invalid(HLSL, "syntax", "unknown statement attribute [%s]", toks[i+1].Text)
					}
					i = j
					droppedUpTo = j
					continue
				}
			}
		}
		out = append(out, t)
	}
	return out
}

// hlslPrelex rewrites the spellings of infinity that the shared tokenizer
// cannot read ("1.#INF", valid in FXC and DXC) into an equally long overflowing
// literal, so that positions are preserved.
func hlslPrelex(src string) string {
	return strings.ReplaceAll(src, "1.#INF", "1e+999")
}
