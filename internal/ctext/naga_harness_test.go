package ctext

import (
	"fmt"
	"math"
	"sort"
	"strings"
	"testing"

	"github.com/gogpu/naga/glsl"
)

// gb is a WGSL (group, binding) pair.
type gb [2]uint32

type approx float32  // compare within a relative tolerance of 1e-5 (inexact builtins)
type anyval struct{} // do not compare this word (padding)

var skip = anyval{}

// nagaCase is a WGSL compute shader with inputs and hand-computed expected
// buffer contents (computed from WGSL semantics, never from a run).
type nagaCase struct {
	name   string
	wgsl   string
	entry  string // default "main"
	bufs   map[gb][]byte
	groups [3]uint32 // default {1,1,1}
	want   map[gb][]any
	// defect: substring expected in the parse error / trap / poison / mismatch
	// report for a suspected naga defect; the case then passes only if the
	// defect is (still) observed, and logs it.
	defect map[string]string // version string ("430 core", "310 es", "*") -> substring
}

var nagaVersions = []struct {
	v       glsl.Version
	useBMap bool
}{
	{glsl.Version{Major: 4, Minor: 30}, false},
	{glsl.Version{Major: 3, Minor: 10, ES: true}, false},
	{glsl.Version{Major: 4, Minor: 50}, true},
	{glsl.Version{Major: 3, Minor: 20, ES: true}, true},
}

func wordsOf(vals ...any) []any { return vals }

func compareWord(got uint32, want any) (bool, string) {
	switch w := want.(type) {
	case anyval:
		return true, ""
	case uint32:
		return got == w, fmt.Sprintf("%d (%#x)", w, w)
	case int:
		return int32(got) == int32(w), fmt.Sprintf("%d", w)
	case int32:
		return int32(got) == w, fmt.Sprintf("%d", w)
	case float32:
		g := math.Float32frombits(got)
		return g == w || (g != g && w != w), fmt.Sprintf("%g", w)
	case float64:
		g := math.Float32frombits(got)
		return g == float32(w), fmt.Sprintf("%g", w)
	case approx:
		g := float64(math.Float32frombits(got))
		d := math.Abs(g - float64(w))
		return d <= 1e-5*math.Max(1, math.Abs(float64(w))), fmt.Sprintf("~%g", float32(w))
	case bool:
		if w {
			return got == 1, "true"
		}
		return got == 0, "false"
	}
	return false, fmt.Sprintf("unsupported expectation %T", want)
}

// runNagaCase compiles and runs one case for one version; it returns a
// description of the first discrepancy ("" if none).
func runNagaCase(c nagaCase, v glsl.Version, useBMap bool, reverse bool) (problem string, glslText string, res *RunResult) {
	entry := c.entry
	if entry == "" {
		entry = "main"
	}
	var bm map[glsl.BindingMapKey]uint8
	keys := make([]gb, 0, len(c.bufs))
	for k := range c.bufs {
		keys = append(keys, k)
	}
	sort.Slice(keys, func(i, j int) bool {
		return keys[i][0] < keys[j][0] || (keys[i][0] == keys[j][0] && keys[i][1] < keys[j][1])
	})
	if useBMap {
		bm = map[glsl.BindingMapKey]uint8{}
		for i, k := range keys {
			bm[glsl.BindingMapKey{Group: k[0], Binding: k[1]}] = uint8(10 + i)
		}
	}
	txt, info, _, err := compileGLSL(c.wgsl, v, entry, bm)
	if err != nil {
		return "naga: " + err.Error(), "", nil
	}
	p, err := Parse(GLSL, txt)
	if err != nil {
		return "parse: " + err.Error(), txt, nil
	}
	cfg := RunConfig{NumWorkgroups: c.groups, StepLimit: 20_000_000, ReverseOrder: reverse, Buffers: map[Slot][]byte{}, BlockByName: map[string][]byte{}}
	if cfg.NumWorkgroups == [3]uint32{} {
		cfg.NumWorkgroups = [3]uint32{1, 1, 1}
	}
	work := map[gb][]byte{}
	for k, b := range c.bufs {
		work[k] = append([]byte(nil), b...)
	}
	for _, u := range info.Uniforms {
		k := gb{u.Binding.Group, u.Binding.Binding}
		data, ok := work[k]
		if !ok {
			continue
		}
		if useBMap {
			cls := byte('u')
			if u.IsStorage {
				cls = 's'
			}
			cfg.Buffers[Slot{Class: cls, Index: uint32(bm[glsl.BindingMapKey{Group: k[0], Binding: k[1]}])}] = data
		} else {
			cfg.BlockByName[u.BlockName] = data
		}
	}
	res, err = p.Run(cfg)
	if err != nil {
		return "run: " + err.Error(), txt, res
	}
	if res.Trap != "" {
		return "trap: " + res.Trap, txt, res
	}
	if len(res.Poison) > 0 {
		return "poison: " + strings.Join(res.Poison, "; "), txt, res
	}
	wkeys := make([]gb, 0, len(c.want))
	for k := range c.want {
		wkeys = append(wkeys, k)
	}
	sort.Slice(wkeys, func(i, j int) bool {
		return wkeys[i][0] < wkeys[j][0] || (wkeys[i][0] == wkeys[j][0] && wkeys[i][1] < wkeys[j][1])
	})
	for _, k := range wkeys {
		got := words32(work[k])
		want := c.want[k]
		if len(got) < len(want) {
			return fmt.Sprintf("buffer %v has %d words, expectation has %d", k, len(got), len(want)), txt, res
		}
		for i, w := range want {
			if ok, ws := compareWord(got[i], w); !ok {
				return fmt.Sprintf("mismatch: buffer %v word %d = %#x (%d, %g), want %s", k, i, got[i], int32(got[i]), math.Float32frombits(got[i]), ws), txt, res
			}
		}
	}
	return "", txt, res
}

func runNagaCases(t *testing.T, cases []nagaCase) {
	t.Helper()
	for _, c := range cases {
		c := c
		t.Run(c.name, func(t *testing.T) {
			for _, nv := range nagaVersions {
				for _, rev := range []bool{false, true} {
					problem, txt, _ := runNagaCase(c, nv.v, nv.useBMap, rev)
					vs := nv.v.String()
					wantDefect := ""
					if c.defect != nil {
						wantDefect = c.defect[vs]
						if wantDefect == "" {
							wantDefect = c.defect["*"]
						}
					}
					switch {
					case wantDefect != "":
						if !strings.Contains(problem, wantDefect) {
							t.Errorf("[%s rev=%v] expected the known defect %q, got %q\n%s", vs, rev, wantDefect, problem, numbered(txt))
						} else if !rev {
							t.Logf("[%s] suspected naga defect still present: %s", vs, problem)
						}
					case problem != "":
						t.Errorf("[%s bmap=%v rev=%v] %s\n%s", vs, nv.useBMap, rev, problem, numbered(txt))
						return
					}
				}
			}
		})
	}
}
