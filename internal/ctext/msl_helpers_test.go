package ctext

import (
	"errors"
	"strings"
	"testing"
)

const mslHdr = "// language: metal2.1\n#include <metal_stdlib>\n#include <simd/simd.h>\n\nusing metal::uint;\n" +
	"struct DefaultConstructible {\n    template<typename T>\n    operator T() && {\n        return T {};\n    }\n};\n" +
	"typedef uint type_o[1];\ntypedef int type_i[1];\ntypedef float type_f[1];\n"

func mustParseMSL(t *testing.T, src string) *Program {
	t.Helper()
	p, err := Parse(MSL, src)
	if err != nil {
		t.Fatalf("Parse: %v\n%s", err, numbered(src))
	}
	return p
}

// parseErrMSL returns the error code of an InvalidError ("" if Parse
// succeeds, "unsupported" for UnsupportedError).
func parseErrMSL(src string) (string, error) {
	prog, err := Parse(MSL, src)
	if err == nil {
		if u := prog.UnsupportedFunctions(); len(u) > 0 {
			return "unsupported", &UnsupportedError{Dialect: MSL, What: u[0]}
		}
		return "", nil
	}
	var ie *InvalidError
	if errors.As(err, &ie) {
		return ie.Code, err
	}
	var ue *UnsupportedError
	if errors.As(err, &ue) {
		return "unsupported", err
	}
	return "other", err
}

func runMSL(t *testing.T, p *Program, cfg RunConfig) *RunResult {
	t.Helper()
	if cfg.NumWorkgroups == [3]uint32{} {
		cfg.NumWorkgroups = [3]uint32{1, 1, 1}
	}
	if cfg.StepLimit == 0 {
		cfg.StepLimit = 5_000_000
	}
	res, err := p.Run(cfg)
	if err != nil {
		t.Fatalf("Run: %v", err)
	}
	return res
}

// mslExprShader builds a kernel that stores each expression (of type uint)
// into o[i].  Buffer 1 holds the standard inputs iv[4], uv[4], fv[4].
func mslExprShader(decls, pre string, exprs []string) string {
	var sb strings.Builder
	sb.WriteString(mslHdr)
	sb.WriteString("struct In { int iv[4]; uint uv[4]; float fv[4]; };\n")
	sb.WriteString(decls)
	sb.WriteString("\nkernel void k(device type_o& o [[buffer(0)]], device In const& in [[buffer(1)]]) {\n")
	sb.WriteString(pre)
	for i, e := range exprs {
		sb.WriteString("  o[" + itoa(i) + "] = " + e + ";\n")
	}
	sb.WriteString("}\n")
	return sb.String()
}

func evalMSL(t *testing.T, decls, pre string, exprs []string) ([]uint32, *RunResult) {
	t.Helper()
	src := mslExprShader(decls, pre, exprs)
	p := mustParseMSL(t, src)
	out := zeros(4 * (len(exprs) + 32))
	res := runMSL(t, p, RunConfig{Buffers: map[Slot][]byte{{Class: 'b', Index: 0}: out, {Class: 'b', Index: 1}: stdInputBuf()}})
	return words32(out), res
}

// checkMSLExprs evaluates the expressions and compares with the expected words.
func checkMSLExprs(t *testing.T, decls, pre string, cases []struct {
	expr string
	want any
}) *RunResult {
	t.Helper()
	exprs := make([]string, len(cases))
	for i, c := range cases {
		exprs[i] = c.expr
	}
	got, res := evalMSL(t, decls, pre, exprs)
	clean(t, res)
	for i, c := range cases {
		if ok, ws := compareWord(got[i], c.want); !ok {
			t.Errorf("%s = %#x (%d, %g), want %s", c.expr, got[i], int32(got[i]), getF32(u32s(got[i]), 0), ws)
		}
	}
	return res
}

type ew = struct {
	expr string
	want any
}
