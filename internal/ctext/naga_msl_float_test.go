package ctext

// Generated from naga_float_test.go: the same WGSL cases and hand-computed (WGSL-defined)
// expectations, run through naga's MSL backend under every configuration of
// mslConfigs.  The `defect` fields are those of the GLSL run and are ignored
// here; MSL findings are recorded in mslKnownDefects (naga_msl_defects_test.go).

import "testing"

func TestNagaMSLFloats(t *testing.T) {
	runNagaCasesMSL(t, []nagaCase{
		{
			name: "float arithmetic exact",
			wgsl: outF + inF + `@compute @workgroup_size(1) fn main() {
  let x = a[0]; let y = a[1];          // 7.5, -2.0
  o[0] = x + y; o[1] = x - y; o[2] = x * y; o[3] = x / y;
  o[4] = x % 2.0;                      // 7.5 - 2*trunc(3.75) = 1.5
  o[5] = -x % 2.0;                     // -7.5 - 2*trunc(-3.75) = -1.5
  o[6] = -x;
  o[7] = (x + y) * (x - y) / 0.5;      // 5.5 * 9.5 / 0.5 = 104.5
}`,
			bufs: map[gb][]byte{{0, 0}: zeros(32), {0, 1}: f32s(7.5, -2.0)},
			want: map[gb][]any{{0, 0}: wordsOf(float32(5.5), float32(9.5), float32(-15), float32(-3.75), float32(1.5), float32(-1.5), float32(-7.5), float32(104.5))},
		},
		{
			name: "float builtins exact",
			wgsl: outF + inF + `@compute @workgroup_size(1) fn main() {
  let x = a[0]; let y = a[1];          // -2.5, 1.75
  o[0] = floor(x); o[1] = ceil(x); o[2] = trunc(x); o[3] = fract(x);   // -3, -2, -2, 0.5
  o[4] = abs(x); o[5] = sign(x); o[6] = sign(y);
  o[7] = min(x, y); o[8] = max(x, y);
  o[9] = clamp(x, -1.0, 1.0); o[10] = saturate(y);
  o[11] = mix(2.0, 4.0, 0.25);         // 2.5
  o[12] = step(0.0, x); o[13] = step(0.0, y);
  o[14] = sqrt(16.0 * y * y / 3.0625); // sqrt(16) = 4
  o[15] = fma(x, 2.0, y);              // -3.25
  o[16] = round(y);                    // 2 (not a tie)
  o[17] = smoothstep(0.0, 2.0, 1.0);   // 0.5
  o[18] = floor(y) + ceil(y) * 10.0 + trunc(y) * 100.0 + fract(y); // 1 + 20 + 100 + 0.75
  o[19] = inverseSqrt(0.25);           // 2
  o[20] = exp2(3.0) + log2(8.0) + pow(2.0, 3.0); // 8 + 3 + 8
}`,
			bufs: map[gb][]byte{{0, 0}: zeros(84), {0, 1}: f32s(-2.5, 1.75)},
			want: map[gb][]any{{0, 0}: wordsOf(float32(-3), float32(-2), float32(-2), float32(0.5), float32(2.5), float32(-1), float32(1), float32(-2.5), float32(1.75),
				float32(-1), float32(1), float32(2.5), float32(0), float32(1), float32(4), float32(-3.25), float32(2), float32(0.5), float32(121.75), approx(2), approx(19))},
		},
		{
			name: "round ties to even",
			wgsl: outF + inF + `@compute @workgroup_size(1) fn main() {
  o[0] = round(a[0]);   // 2.5 -> 2 (WGSL: ties to even)
  o[1] = round(a[1]);   // 3.5 -> 4
  o[2] = round(a[2]);   // -0.5 -> -0
}`,
			bufs: map[gb][]byte{{0, 0}: zeros(12), {0, 1}: f32s(2.5, 3.5, -0.5)},
			want: map[gb][]any{{0, 0}: wordsOf(float32(2), float32(4), float32(0))},
			// D4: WGSL round() is round-half-to-even; GLSL round() leaves the direction of
			// ties to the implementation (GLSL 4.60 §8.3); roundEven() is the matching builtin.
			defect: map[string]string{"*": "implementation-chosen direction"},
		},
		{
			name: "transcendental builtins within tolerance",
			wgsl: outF + inF + `@compute @workgroup_size(1) fn main() {
  let x = a[0];                       // 0.5
  o[0] = sin(x); o[1] = cos(x); o[2] = tan(x);
  o[3] = asin(x); o[4] = acos(x); o[5] = atan(x); o[6] = atan2(x, 2.0);
  o[7] = sinh(x); o[8] = cosh(x); o[9] = tanh(x);
  o[10] = asinh(x); o[11] = acosh(x + 1.0); o[12] = atanh(x);
  o[13] = exp(x); o[14] = log(x); o[15] = pow(x, 3.0);
  o[16] = radians(x * 360.0); o[17] = degrees(x);
  o[18] = length(vec2<f32>(3.0, 4.0)) + distance(vec2<f32>(1.0, 1.0), vec2<f32>(4.0, 5.0));
  o[19] = normalize(vec3<f32>(0.0, 3.0, 4.0)).z;
}`,
			bufs: map[gb][]byte{{0, 0}: zeros(80), {0, 1}: f32s(0.5)},
			want: map[gb][]any{{0, 0}: wordsOf(approx(0.479425539), approx(0.877582562), approx(0.546302490), approx(0.523598776), approx(1.047197551), approx(0.463647609), approx(0.244978663),
				approx(0.521095305), approx(1.127625965), approx(0.462117157), approx(0.481211825), approx(0.962423650), approx(0.549306144),
				approx(1.648721271), approx(-0.693147181), approx(0.125), approx(3.141592654), approx(28.64788976), approx(10), approx(0.8))},
		},
		{
			name: "geometric builtins exact",
			wgsl: outF + inF + `@compute @workgroup_size(1) fn main() {
  let u = vec3<f32>(a[0], a[1], a[2]);     // 1, 2, 3
  let v = vec3<f32>(4.0, -5.0, 6.0);
  o[0] = dot(u, v);                          // 4 - 10 + 18 = 12
  let c = cross(u, v);                       // (2*6 - 3*-5, 3*4 - 1*6, 1*-5 - 2*4) = (27, 6, -13)
  o[1] = c.x; o[2] = c.y; o[3] = c.z;
  let r = reflect(vec2<f32>(1.0, -1.0), vec2<f32>(0.0, 1.0));  // I - 2*dot(N,I)*N = (1, 1)
  o[4] = r.x; o[5] = r.y;
  let f = faceForward(vec2<f32>(1.0, 2.0), vec2<f32>(0.0, 1.0), vec2<f32>(0.0, 1.0)); // dot(e3,e2) = 1 >= 0 -> -e1
  o[6] = f.x; o[7] = f.y;
  o[8] = dot(u.xy, u.yz) + dot(vec4<f32>(u, 1.0), vec4<f32>(1.0));   // 2 + 6 + 7
}`,
			bufs: map[gb][]byte{{0, 0}: zeros(36), {0, 1}: f32s(1, 2, 3)},
			want: map[gb][]any{{0, 0}: wordsOf(float32(12), float32(27), float32(6), float32(-13), float32(1), float32(1), float32(-1), float32(-2), float32(15))},
		},
		{
			name: "conversions in range",
			wgsl: outU + inF + `@compute @workgroup_size(1) fn main() {
  o[0] = bitcast<u32>(i32(a[0]));       // -1.5 -> -1
  o[1] = u32(a[1]);                     // 3.99 -> 3
  o[2] = bitcast<u32>(f32(i32(a[2])));  // -7.0 -> -7 -> -7.0
  o[3] = bitcast<u32>(f32(4294967295u)); // rounds to 2^32
  let big = u32(a[3]);                  // 3e9 fits u32
  o[4] = big;
  o[5] = bitcast<u32>(i32(big));        // same bits
  o[6] = u32(bitcast<i32>(big));        // same bits
  o[7] = u32(bool(a[0])) + u32(bool(a[4])) * 2u + u32(true) * 4u; // -1.5 -> true, 0.0 -> false
  o[8] = bitcast<u32>(f32(a[4] == 0.0) + f32(true));               // 2.0
  o[9] = bitcast<u32>(vec2<i32>(vec2<f32>(a[0], a[1])).y);         // 3
  o[10] = u32(vec3<f32>(vec3<u32>(1u, 2u, 3u)).z);
  o[11] = bitcast<u32>(i32(a[5]));      // 16777216.0 exactly
}`,
			bufs: map[gb][]byte{{0, 0}: zeros(48), {0, 1}: f32s(-1.5, 3.99, -7.0, 3e9, 0.0, 16777216.0)},
			want: map[gb][]any{{0, 0}: wordsOf(-1, uint32(3), float32(-7), float32(4294967296), uint32(3000000000), uint32(3000000000), uint32(3000000000), uint32(5), float32(2), 3, uint32(3), 16777216)},
		},
		{
			name: "bitcast",
			wgsl: outU + inU + `@compute @workgroup_size(1) fn main() {
  o[0] = bitcast<u32>(1.0f);
  o[1] = bitcast<u32>(bitcast<f32>(a[0]) * 2.0);   // 3.0 * 2
  o[2] = bitcast<u32>(bitcast<i32>(a[1]) / 2);     // -1 / 2 = 0
  let v = bitcast<vec2<u32>>(vec2<f32>(1.0, -2.0));
  o[3] = v.x; o[4] = v.y;
  let w = bitcast<vec3<f32>>(vec3<i32>(0x40400000, 0, -2147483648));
  o[5] = u32(w.x); o[6] = bitcast<u32>(w.z);       // 3, -0.0 bits
  o[7] = bitcast<u32>(bitcast<i32>(a[1]) >> 31u);  // -1
}`,
			bufs: map[gb][]byte{{0, 0}: zeros(32), {0, 1}: u32s(0x40400000, 0xFFFFFFFF)},
			want: map[gb][]any{{0, 0}: wordsOf(uint32(0x3F800000), float32(6), uint32(0), uint32(0x3F800000), uint32(0xC0000000), uint32(3), uint32(0x80000000), uint32(0xFFFFFFFF))},
		},
		{
			name: "pack",
			wgsl: outU + inF + `@compute @workgroup_size(1) fn main() {
  o[0] = pack4x8unorm(vec4<f32>(a[0], a[1], 0.2, 2.0));    // 0, 255, 51, 255
  o[1] = pack4x8snorm(vec4<f32>(a[2], a[1], a[0], -2.0));  // -127, 127, 0, -127
  o[2] = pack2x16unorm(vec2<f32>(a[1], a[0]));
  o[3] = pack2x16snorm(vec2<f32>(a[2], a[1]));
  o[4] = pack2x16float(vec2<f32>(a[1], a[3]));             // 1.0, -2.0
}`,
			bufs: map[gb][]byte{{0, 0}: zeros(20), {0, 1}: f32s(0, 1, -1, -2)},
			want: map[gb][]any{{0, 0}: wordsOf(uint32(0xFF33FF00), uint32(0x81007F81), uint32(0x0000FFFF), uint32(0x7FFF8001), uint32(0xC0003C00))},
		},
		{
			name: "unpack",
			wgsl: outF + inU + `@compute @workgroup_size(1) fn main() {
  let p = unpack4x8unorm(a[0]);       // 0xFF000000 -> 0,0,0,1
  o[0] = p.x; o[1] = p.w;
  let q = unpack4x8snorm(a[1]);       // 0x00007F81 -> -1, 1, 0, 0
  o[2] = q.x; o[3] = q.y; o[4] = q.z;
  let r = unpack2x16float(a[2]);      // 0xC0003C00 -> 1, -2
  o[5] = r.x; o[6] = r.y;
  let s = unpack2x16unorm(a[3]);      // 0xFFFF0000 -> 0, 1
  o[7] = s.x; o[8] = s.y;
  let u = unpack2x16snorm(a[4]);      // 0x80007FFF -> 1, clamp(-32768/32767) = -1
  o[9] = u.x; o[10] = u.y;
  let k = unpack4x8unorm(a[5]);       // 0x00000033 -> 51/255 = 0.2
  o[11] = k.x;
}`,
			bufs: map[gb][]byte{{0, 0}: zeros(48), {0, 1}: u32s(0xFF000000, 0x7F81, 0xC0003C00, 0xFFFF0000, 0x80007FFF, 0x33)},
			want: map[gb][]any{{0, 0}: wordsOf(float32(0), float32(1), float32(-1), float32(1), float32(0), float32(1), float32(-2), float32(0), float32(1), float32(1), float32(-1), float32(0.2))},
		},
		{
			name: "modf frexp ldexp",
			wgsl: outF + inF + `@compute @workgroup_size(1) fn main() {
  let m = modf(a[0]);                 // -2.75 -> fract -0.75, whole -2
  o[0] = m.fract; o[1] = m.whole;
  let f = frexp(a[1]);                // 12.0 = 0.75 * 2^4
  o[2] = f.fract; o[3] = f32(f.exp);
  o[4] = ldexp(a[2], 3);              // 1.5 * 8
  o[5] = ldexp(a[2], -1);
  let mv = modf(vec2<f32>(a[0], a[1]));
  o[6] = mv.fract.x + mv.whole.y;     // -0.75 + 12
  let fv = frexp(vec2<f32>(a[1], a[2]));   // 1.5 = 0.75 * 2^1
  o[7] = fv.fract.y + f32(fv.exp.x) + f32(fv.exp.y) * 10.0; // 0.75 + 4 + 10
}`,
			bufs: map[gb][]byte{{0, 0}: zeros(32), {0, 1}: f32s(-2.75, 12.0, 1.5)},
			want: map[gb][]any{{0, 0}: wordsOf(float32(-0.75), float32(-2), float32(0.75), float32(4), float32(12), float32(0.75), float32(11.25), float32(14.75))},
		},
	}, mslKnownDefects)
}
