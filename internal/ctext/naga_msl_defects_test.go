package ctext

// Generated from naga_defects_test.go: the same WGSL cases and hand-computed (WGSL-defined)
// expectations, run through naga's MSL backend under every configuration of
// mslConfigs.  The `defect` fields are those of the GLSL run and are ignored
// here; MSL findings are recorded in mslKnownDefects (naga_msl_defects_test.go).

import "testing"

// Further suspected naga defects found while building this package; each case
// asserts that the defect is still observable (so that a fix shows up as a
// test failure asking to move the case to the passing set).
func TestNagaMSLSuspectedDefects(t *testing.T) {
	runNagaCasesMSL(t, []nagaCase{
		{
			name: "determinant result type",
			wgsl: outF + "@group(0) @binding(1) var<storage, read> m: mat2x2<f32>;\n" + `@compute @workgroup_size(1) fn main() {
  let d = determinant(m);
  o[0] = d;                              // 1*4 - 3*2 = -2
}`,
			bufs: map[gb][]byte{{0, 0}: zeros(4), {0, 1}: f32s(1, 2, 3, 4)},
			want: map[gb][]any{{0, 0}: wordsOf(float32(-2))},
			// D9: "let d = determinant(m)" is declared "mat2x2 d = determinant(..)": the
			// result of determinant is a float (GLSL 4.60 §8.6).  Conversions of the result
			// (u32(determinant(m))) are written as mat3x3(...) constructors for the same reason.
			defect: map[string]string{"*": "of type mat2x2 with a value of type float"},
		},
		{
			name: "abs of unsigned",
			wgsl: outU + inU + `@compute @workgroup_size(1) fn main() {
  o[0] = abs(a[0]);                      // identity on u32
  let v = abs(vec2<u32>(a[0], 7u));
  o[1] = v.x + v.y;
}`,
			bufs: map[gb][]byte{{0, 0}: zeros(8), {0, 1}: u32s(0xFFFFFFF0)},
			want: map[gb][]any{{0, 0}: wordsOf(uint32(0xFFFFFFF0), uint32(0xFFFFFFF7))},
			// D10: abs(u32) is written as abs(uint): GLSL has abs only for genFType, genIType
			// (and genDType) (§8.3).  In 4.x the argument converts implicitly to float and the
			// float result cannot be assigned to uint; in ESSL there is no overload at all.
			defect: map[string]string{"430 core": "parse: invalid GLSL", "450 core": "parse: invalid GLSL", "310 es": "no overload of built-in function abs", "320 es": "no overload of built-in function abs"},
		},
		{
			name: "all and any of a scalar bool",
			wgsl: outU + inU + `@compute @workgroup_size(1) fn main() {
  let b = a[0] > 1u;
  o[0] = u32(all(b)) + u32(any(b)) * 2u;  // identity on bool
}`,
			bufs: map[gb][]byte{{0, 0}: zeros(4), {0, 1}: u32s(5)},
			want: map[gb][]any{{0, 0}: wordsOf(uint32(3))},
			// D11: all(bool) / any(bool) are written as all(b) / any(b): the GLSL functions
			// take bvec2..4 only (§8.7).
			defect: map[string]string{"*": "no overload of built-in function all"},
		},
		{
			name: "function named vecs",
			wgsl: outI + inI + `
fn vecs(p: vec3<i32>, q: vec3<i32>) -> vec3<i32> { return p + q; }
@compute @workgroup_size(1) fn main() {
  let r = vecs(vec3(1, 2, 3), vec3<i32>(a[0], a[1], a[2]));
  o[0] = r.x * 100 + r.y * 10 + r.z;    // (11, 22, 33)
}`,
			bufs: map[gb][]byte{{0, 0}: zeros(4), {0, 1}: i32s(10, 20, 30)},
			want: map[gb][]any{{0, 0}: wordsOf(1100 + 220 + 33)},
			// D8 (front end, visible through every backend): the call of the user function
			// "vecs" is lowered to a vector constructor "ivec4(ivec3(1,2,3), ivec3(...))" and
			// the function is never called.
			defect: map[string]string{"*": "mismatch: buffer [0 0] word 0"},
		},
		{
			name: "signed remainder with negative operands",
			wgsl: outI + inI + `@compute @workgroup_size(1) fn main() {
  o[0] = a[0] % a[1];                    // -7 % 3 = -1 in WGSL (sign of the dividend)
  o[1] = a[2] % a[3];                    // 7 % -3 = 1
}`,
			bufs: map[gb][]byte{{0, 0}: zeros(8), {0, 1}: i32s(-7, 3, 7, -3)},
			want: map[gb][]any{{0, 0}: wordsOf(-1, 1)},
			// Observation O1 (outside the domain of C05, which excludes GLSL-undefined inputs):
			// i32 % is written as the GLSL operator %, whose result is undefined when either
			// operand is negative (GLSL 4.60 §5.9); WGSL defines it.
			defect: map[string]string{"*": "with a negative operand is undefined"},
		},
	}, mslKnownDefects)
}

// mslKnownDefects: suspected defects of naga's MSL backend exposed by the
// cases above (case name -> configuration name or "*" -> substring of the
// problem report).  A case listed here passes only while the defect is still
// observed.
var mslKnownDefects = mslDefects{
	// M1 (= GLSL D9): `let d = determinant(m)` is declared with the operand's type:
	// "metal::float2x2 d = metal::determinant(_e1); o[0] = d;" - a float cannot
	// initialise a float2x2 variable that is then stored to a float.
	"determinant result type": {"*": `cannot initialise "d"`},
	// M2 (= GLSL D5): `let t = transpose(m)` (m: mat2x3) is declared "metal::float2x3 t";
	// metal::transpose(float2x3) is a float3x2 (MSL §6.6): no such conversion.
	"transpose": {"*": `cannot initialise "t"`},
	// M3 (= GLSL D4): WGSL round() is round-half-to-even; the text calls metal::round,
	// which rounds halfway cases away from zero (MSL §6.5); metal::rint is the match.
	"round ties to even": {"*": "mismatch: buffer [0 0] word 0"},
	// M4 (front end, = GLSL D8): a call of a user function named "vecs" is lowered to a
	// vector constructor; the MSL backend then spells the type "metal::int67".
	"function named vecs": {"*": "metal::int67"},
	// M5: with the ReadZeroSkipWrite index policy a checked load is written
	// "c ? x : DefaultConstructible()" WITHOUT parentheses even when it is an operand:
	// "o[7] = uint(_e70) < 4 ? v[_e70] : DefaultConstructible() + uint(i) < 2 ? ... : DefaultConstructible();"
	// which C++ parses as c1 ? v[..] : ((DefaultConstructible() + uint(i)) < 2 ? ... ) - ill-formed
	// (operator+ on the helper struct is ambiguous), and mis-associated even if it compiled.
	"vector construction swizzle component write": {"3.1 map rzsw loop-bound": "with a DefaultConstructible operand is ambiguous"},
	// M6: select(f, t, c) is written "(c) ? t : f" without enclosing parentheses:
	// "o[0] = (1.0 + (_e6 > 1.0) ? 2.0 : 1.0) + 3.0;" parses as ((1.0 + (c)) ? 2.0 : 1.0) + 3.0
	// (C++14 [expr.cond]: ?: binds weaker than +), giving 5 instead of 6; likewise
	// "(c) ? 20.0 : 10.0 * 2.0" multiplies only the last operand.
	"select as an operand": {"*": "mismatch: buffer [0 0] word 0"},
	// M7: dot() of signed integer vectors is "( + a.x * b.x + a.y * b.y)" in int arithmetic:
	// WGSL defines wrap-around, signed overflow is undefined in C++14 [expr]/4 (every other
	// i32 operation of the backend goes through as_type<uint>).
	"integer dot product wraps": {"*": "signed integer overflow"},
	// M8: a storage buffer that the entry point only writes THROUGH A POINTER ARGUMENT is
	// declared "device type_2 const& es" and then passed to "device E& p": a reference to
	// non-const cannot bind to a const object (C++14 [dcl.init.ref]/5).
	"references into storage and workgroup memory": {"*": `"es" is read-only`},
	// M9: a swizzle of a binary expression loses its parentheses: WGSL "(p + q).yx" is
	// written "p + q.yx" (the swizzle binds to q only: C++14 [expr.post] before [expr.add]);
	// with a widening swizzle "(p * q).xxyy" becomes "p * q.xxyy", float2 * float4, which
	// does not compile.
	"swizzle of a binary expression, same size": {"*": "mismatch: buffer [0 0] word 0"},
	"swizzle of a binary expression, widening":  {"*": "operator * cannot be applied to float2 and float4"},
	// M10 (corpus: atomicCompareExchange.wgsl under ReadZeroSkipWrite): the bounds check is written inside
	// the operand of '&': "f(&uint(_e20) < 128 ? arr.inner[_e20] : DefaultConstructible(), ...)".
	//
	// M11: a component of a constant matrix whose column is a splat is written "0.0[0]": the column
	// "vec4(2.0)" is emitted as the scalar "2.0" and then indexed.
	"component of a constant matrix built from splats": {"*": "cannot index a value of type float"},
	// M12: "(*p) %= x" on an integer pointee is written "p = metal::fmod(p, x)": metal::fmod has
	// floating-point overloads only; with int arguments the call is ambiguous (float / half).
	"integer remainder assignment through a pointer": {"*": "metal::fmod(int, int) is ambiguous"},
	// M13: a constant-folded matrix + matrix is declared and constructed as a vector:
	// "metal::float2 v = metal::float2(2.875, 0.625, -1.0, 0.0);"
	"constant-folded matrix sum": {"*": "the arguments supply 4 components, the vector has 2"},
	// M14: a negated literal inside the struct initializer of a private variable is emitted as "{}":
	// "S pv = S {7u, {}, type_1 {1u, 2u}};" (pv.b reads 0 instead of -1).
	"negative literal in a private struct initializer": {"*": "mismatch: buffer [0 0] word 0"},
	// M15: the wrapping add "as_type<metal::uint3>(loc.v)" is applied directly to a packed_int3 member of
	// a by-value struct: as_type between a 12-byte and a 16-byte type is an error (MSL: "as_type ... of a
	// different number of bytes").
	"wrapping add on a vec3 member of a local struct": {"*": "as_type<uint3>(packed_int3)"},
	// M16: firstLeadingBit(u32) uses the signed formula's test "x == 0 || x == -1": for 0xFFFFFFFF the
	// result is 0xFFFFFFFF instead of 31.
	"firstLeadingBit of an unsigned all-ones value": {"*": "mismatch: buffer [0 0] word 0"},
	// F1 (front end, visible in every backend): a member of a constant struct value that holds a vector
	// is evaluated with a flattened component index: k.c reads 127 (v.y) instead of 0x80000000.
	"member of a constant struct that holds a vector": {"*": "mismatch: buffer [0 0] word 0"},
	// M17: the initializer of a private variable that converts a vector, vec2<bool>(vec2<i32>(1, 0)), is
	// emitted with the types shuffled: "metal::bool2 pv = metal::float2(uint(1u, 0u));" - a scalar
	// constructed from two values.
	"private initializer with a vector conversion": {"*": "a scalar is initialised from exactly one expression"},
}
