package ctext

import (
	"fmt"
	"strings"
)

// mslState is the MSL-specific part of a Program.
type mslState struct {
	version     int // 21 for "// language: metal2.1" (0 if the comment is absent)
	funcInfo    map[*Function]*mslFuncInfo
	paramInfo   map[*Param]*mslParamInfo
	memberAttrs map[string][]mslAttr // "Struct.member" -> attributes
	userFuncs   map[string]bool
	ptrs        map[mslPtrKey]*Type
	zeroConv    map[*Type]bool // struct types with the convert-to-zero-of-any-type operator
	templates   map[string][]*mslTemplate
	entries     []*mslEntry
	structPos   map[string]Pos
	fe          *mslFE
	parser      *parser
	sizesStruct *Type // struct _mslBufferSizes
	opaques     map[string]*Type
	// functions that use a valid but unmodelled construct: skipped by the
	// parser (by name) or abandoned by the checker (by function)
	skipped       map[string]*UnsupportedError
	skippedList   []mslSkipped
	unsupportedFn map[*Function]*UnsupportedError
}

// mslSkipped is a function the parser skipped.
type mslSkipped struct {
	Name  string
	Stage string
	Pos   Pos
	Err   *UnsupportedError
}

func (st *mslState) ptrTo(elem *Type, space string) *Type {
	k := mslPtrKey{elem, space}
	if t, ok := st.ptrs[k]; ok {
		return t
	}
	t := &Type{Kind: KPtr, Elem: elem, Space: space}
	st.ptrs[k] = t
	return t
}

// mslRules implements langRules (and the optional rule interfaces of
// hlsl_ext.go) with the typing rules of C++14 as restricted / extended by the
// Metal Shading Language Specification.
type mslRules struct {
	c  *checker
	fe *mslFE
	st *mslState
}

func (r *mslRules) userMayRedeclareBuiltin() bool { return true }
func (r *mslRules) returnConverts() bool          { return true }

func (r *mslRules) checkArrayDims(c *checker, tx *TypeExpr) {}

func (r *mslRules) builtinFuncs(name string) (sigs []*builtinSig, known, unmodelled bool, needs string) {
	return nil, false, false, ""
}

func (r *mslRules) builtinVar(c *checker, pos Pos, name string) *Symbol { return nil }

func (r *mslRules) checkCtor(c *checker, call *Call, t *Type) {
	c.unsupported(call.Pos, "constructor call node")
}

func (r *mslRules) checkMethod(c *checker, m *Method) {
	c.unsupported(m.Pos, "member function call .%s()", m.Name)
}

func (r *mslRules) namedType(name string) (*Type, bool) {
	if strings.HasPrefix(name, "*") {
		bar := strings.IndexByte(name, '|')
		space, inner := name[1:bar], name[bar+1:]
		pointee := r.c.resolveType(&TypeExpr{Name: inner}, unsizedNo)
		return r.st.ptrTo(pointee, space), true
	}
	if strings.HasPrefix(name, "%") {
		t := r.st.opaques[name]
		if t == nil {
			t = &Type{Kind: KOpaque, Name: "metal::" + name[1:]}
			r.st.opaques[name] = t
		}
		return t, true
	}
	if s := r.c.lookup(name); s != nil && s.Kind == SymStruct {
		return nil, false // a user type (struct, typedef, template parameter) hides the built-in name
	}
	if t, ok := mslTypeNames[name]; ok {
		return t, true
	}
	return nil, false
}

// ---------------------------------------------------------------------------
// type classes and conversions
// ---------------------------------------------------------------------------

// mslArith: bool, the integer types and the floating-point types (C++14
// [basic.fundamental] arithmetic types), atomics excluded.
func mslArith(t *Type) bool {
	if t == nil || !t.IsScalar() || t.Kind == KDouble {
		return false
	}
	return t.Var == nil || !t.Var.atomic
}

func mslIsAtomic(t *Type) bool { return t != nil && t.Var != nil && t.Var.atomic }

// mslPromote: integral promotions, C++14 [conv.prom].
func mslPromote(t *Type) *Type {
	switch t {
	case tBool, tChar, tUchar, tShort, tUshort:
		return tInt
	}
	return t
}

// mslUsualArith: usual arithmetic conversions, C++14 [expr]/10 (float ranks
// above half; MSL has no double).
func mslUsualArith(a, b *Type) *Type {
	if a == tFloat || b == tFloat {
		return tFloat
	}
	if a == tHalf || b == tHalf {
		return tHalf
	}
	a, b = mslPromote(a), mslPromote(b)
	if a == b {
		return a
	}
	return tUint // int with unsigned int
}

// mslUnpack returns the ordinary vector type of a packed vector type.
func mslUnpack(t *Type) *Type {
	if t.Kind == KVec && t.Packed {
		return mslUnpacked[t]
	}
	return t
}

// implicitConv: C++14 [conv] standard conversions between arithmetic types;
// MSL §2.? "Implicit Type Conversions": "Implicit conversions from scalar to
// vector types are supported ... the scalar value is replicated in each
// element of the vector"; "Implicit conversions from a vector type to another
// vector or scalar type are not permitted" (packed <-> unpacked vectors of the
// same element type convert, §2.2.3).
func (r *mslRules) implicitConv(from, to *Type) bool {
	if from == to {
		return true
	}
	if from == tInitList {
		return to.Kind != KVoid && to.Kind != KOpaque && to.Kind != KPtr
	}
	if r.st.zeroConv[from] {
		return to.Kind != KVoid && to.Kind != KOpaque && to.Kind != KPtr && !to.hasRuntimeArray()
	}
	switch {
	case mslArith(from) && mslArith(to):
		return true
	case mslArith(from) && to.Kind == KVec && mslArith(to.Elem):
		return true
	case from.Kind == KVec && to.Kind == KVec && from.N == to.N && from.Elem == to.Elem:
		return true
	}
	return false
}

// convRank orders implicit conversion sequences: C++14 [over.ics.rank]: exact
// match < promotion < conversion; the scalar-to-vector splat ranks last.
func (r *mslRules) convRank(from, to *Type) int {
	switch {
	case from == to:
		return 0
	case mslArith(from) && mslArith(to):
		if to == tInt && mslPromote(from) == tInt {
			return 1
		}
		return 2
	case from.Kind == KVec && to.Kind == KVec:
		return 2
	}
	return 3
}

func (r *mslRules) convBetter(from, a, b *Type) bool {
	return r.convRank(from, a) < r.convRank(from, b)
}

// convertNode builds the implicit conversion of e to t (nil: impossible).
func (r *mslRules) convertNode(c *checker, e Expr, t *Type) Expr {
	b := e.base()
	if b.T == t {
		return e
	}
	if br, ok := e.(*mslBrace); ok && br.T == tInitList {
		if t.Kind == KVoid || t.Kind == KOpaque || t.Kind == KPtr {
			return nil
		}
		br.typeAs(c, r, t)
		return br
	}
	if r.st.zeroConv[b.T] {
		if !r.implicitConv(b.T, t) {
			return nil
		}
		if !b.LV {
			// the conversion function is &&-qualified: it needs an rvalue
			return &mslZero{ExprBase: ExprBase{Pos: b.Pos, T: t, Const: true}}
		}
		return nil
	}
	if !r.implicitConv(b.T, t) {
		return nil
	}
	return &mslConv{ExprBase: ExprBase{Pos: b.Pos, T: t, Const: b.Const}, X: e}
}

// condition: C++14 [stmt.select]/4, [conv.bool]: the condition is
// contextually converted to bool.
func (r *mslRules) condition(c *checker, e Expr, what string) Expr {
	e = c.value(e)
	t := e.base().T
	switch {
	case t == tBool:
		return e
	case mslArith(t):
		return &mslConv{ExprBase: ExprBase{Pos: e.base().Pos, T: tBool, Const: e.base().Const}, X: e}
	case t.Kind == KPtr:
		c.unsupported(e.base().Pos, "pointer used as a condition")
	}
	c.invalid(e.base().Pos, "type", "%s condition of type %s is not contextually convertible to bool", what, mslTypeString(t))
	return nil
}

// condExpr: C++14 [expr.cond].
func (r *mslRules) condExpr(c *checker, x *Cond) Expr {
	x.C = c.value(x.C)
	if x.C.base().T.Kind == KVec {
		c.unsupported(x.Pos, "?: with a vector condition")
	}
	x.C = r.condition(c, x.C, "?:")
	x.A = c.value(x.A)
	x.B = c.value(x.B)
	at, bt := x.A.base().T, x.B.base().T
	conv := func(e Expr, t *Type) Expr {
		n := r.convertNode(c, e, t)
		if n == nil {
			c.invalid(x.Pos, "type", "operands of ?: have incompatible types %s and %s", mslTypeString(at), mslTypeString(bt))
		}
		return n
	}
	switch {
	case at == tInitList || bt == tInitList:
		c.invalid(x.Pos, "syntax", "braced initializer list as an operand of ?:")
	case at == bt:
		x.T = at
		// C++14 [expr.cond]/4: two l-values of the same type give an l-value
		x.LV = x.A.base().LV && x.B.base().LV && !r.st.zeroConv[at]
	case r.st.zeroConv[bt]:
		x.B = conv(x.B, at)
		x.T = at
	case r.st.zeroConv[at]:
		x.A = conv(x.A, bt)
		x.T = bt
	case mslArith(at) && mslArith(bt):
		ct := mslUsualArith(at, bt)
		x.A, x.B = conv(x.A, ct), conv(x.B, ct)
		x.T = ct
	case at.Kind == KVec && bt.Kind == KVec && mslUnpack(at) == mslUnpack(bt):
		ut := mslUnpack(at)
		x.A, x.B = conv(x.A, ut), conv(x.B, ut)
		x.T = ut
	case (at.Kind == KVec && mslArith(bt)) || (bt.Kind == KVec && mslArith(at)):
		c.unsupported(x.Pos, "?: mixing a vector and a scalar")
	default:
		c.invalid(x.Pos, "type", "operands of ?: have incompatible types %s and %s", mslTypeString(at), mslTypeString(bt))
	}
	x.Const = x.C.base().Const && x.A.base().Const && x.B.base().Const
	return x
}

// ---------------------------------------------------------------------------
// operators: C++14 [expr.unary.op], [expr.mul] ... [expr.log.or]; MSL §3.1
// "Scalar and Vector Operators", §3.2 "Matrix Operators"
// ---------------------------------------------------------------------------

func (r *mslRules) unaryType(c *checker, pos Pos, op string, t *Type) *Type {
	ut := mslUnpack(t)
	switch op {
	case "-", "+":
		switch {
		case mslArith(t):
			return mslPromote(t)
		case ut.Kind == KVec && ut.Elem != tBool && mslArith(ut.Elem):
			r.noNarrowVec(c, pos, ut)
			return ut
		case t.Kind == KMat && op == "-":
			return t
		}
	case "!":
		switch {
		case mslArith(t):
			return tBool
		case ut.Kind == KVec && ut.Elem == tBool:
			return ut
		case ut.Kind == KVec:
			c.unsupported(pos, "operator ! on a non-bool vector")
		}
	case "~":
		switch {
		case mslArith(t) && t.Kind != KFloat:
			return mslPromote(t)
		case ut.Kind == KVec && (ut.Elem.Kind == KInt || ut.Elem.Kind == KUint):
			r.noNarrowVec(c, pos, ut)
			return ut
		}
	}
	c.invalid(pos, "type", "unary operator %s cannot be applied to %s", op, mslTypeString(t))
	return nil
}

// noNarrowVec: vectors of 8- and 16-bit integers compute without promotion;
// that arithmetic is not modelled.
func (r *mslRules) noNarrowVec(c *checker, pos Pos, t *Type) {
	if t.Kind == KVec && t.Elem.Var != nil && t.Elem != tHalf {
		c.unsupported(pos, "arithmetic on %s", mslTypeString(t))
	}
}

func (r *mslRules) binaryTypes(c *checker, pos Pos, op string, lt, rt *Type) (res, lc, rc *Type, mode binMode) {
	bad := func(why string) {
		c.invalid(pos, "type", "operator %s cannot be applied to %s and %s%s", op, mslTypeString(lt), mslTypeString(rt), why)
	}
	mode = bmCustom
	if lt == tInitList || rt == tInitList {
		c.invalid(pos, "syntax", "braced initializer list as an operand of %s", op)
	}
	if r.st.zeroConv[lt] || r.st.zeroConv[rt] {
		// the class converts to every type T through its conversion function
		// template, so every built-in candidate operator (C++14 [over.built])
		// is viable with an indistinguishable user-defined conversion
		// sequence: the call is ambiguous ([over.match.oper], [over.ics.rank])
		c.invalid(pos, "no-overload", "use of operator %s with a DefaultConstructible operand is ambiguous: the operand converts to every arithmetic type (C++14 [over.built], [over.match.oper]) - missing parentheses around a `?:` expression?", op)
	}
	if lt == tMemFlags && rt == tMemFlags && op == "|" {
		return tMemFlags, lt, rt, bmCustom
	}
	switch op {
	case "&&", "||":
		if mslArith(lt) && mslArith(rt) {
			return tBool, tBool, tBool, bmLogical
		}
		// MSL §3.1: "The logical operators and (&&), or (||) operate on two
		// Boolean expressions. The result is a scalar or vector Boolean."
		lu, ru := mslUnpack(lt), mslUnpack(rt)
		switch {
		case lu.Kind == KVec && lu.Elem == tBool && (ru == lu || ru == tBool):
			return lu, lu, lu, bmCustom
		case ru.Kind == KVec && ru.Elem == tBool && lu == tBool:
			return ru, ru, ru, bmCustom
		case lu.Kind == KVec || ru.Kind == KVec:
			c.unsupported(pos, "operator %s on non-bool vectors", op)
		}
		bad("")
	case "^^":
		c.invalid(pos, "syntax", "^^ is not a C++ operator")
	}
	isCmp := op == "<" || op == ">" || op == "<=" || op == ">=" || op == "==" || op == "!="
	isShift := op == "<<" || op == ">>"
	intOnly := op == "%" || op == "&" || op == "|" || op == "^" || isShift
	lu, ru := mslUnpack(lt), mslUnpack(rt)
	elemOK := func(e *Type) bool {
		if !mslArith(e) {
			return false
		}
		if intOnly && e.Kind == KFloat {
			return false
		}
		return true
	}
	// ---- matrices ----
	if lu.Kind == KMat || ru.Kind == KMat {
		if intOnly || isCmp {
			if isCmp {
				c.unsupported(pos, "comparison of matrices")
			}
			bad("")
		}
		switch {
		case lu.Kind == KMat && ru.Kind == KMat:
			switch op {
			case "+", "-":
				if lu != ru {
					bad(" (matrix types differ)")
				}
				return lu, lu, ru, mode
			case "*":
				if lu.Elem != ru.Elem {
					bad(" (matrix element types differ)")
				}
				if lu.Cols != ru.Rows {
					bad(" (columns of the left matrix must equal rows of the right matrix)")
				}
				return matOf(lu.Elem, ru.Cols, lu.Rows), lu, ru, mode
			}
			bad("")
		case lu.Kind == KMat && ru.Kind == KVec:
			if op != "*" || ru.Elem != lu.Elem || ru.N != lu.Cols {
				bad(" (matrix * vector needs a vector with as many components as the matrix has columns)")
			}
			return vecOf(lu.Elem, lu.Rows), lu, ru, mode
		case lu.Kind == KVec && ru.Kind == KMat:
			if op != "*" || lu.Elem != ru.Elem || lu.N != ru.Rows {
				bad(" (vector * matrix needs a vector with as many components as the matrix has rows)")
			}
			return vecOf(ru.Elem, ru.Cols), lu, ru, mode
		case lu.Kind == KMat && mslArith(ru):
			if op != "*" {
				c.unsupported(pos, "matrix %s scalar", op)
			}
			return lu, lu, lu.Elem, mode
		case mslArith(lu) && ru.Kind == KMat:
			if op != "*" {
				c.unsupported(pos, "scalar %s matrix", op)
			}
			return ru, ru.Elem, ru, mode
		}
		bad("")
	}
	// ---- vectors ----
	if lu.Kind == KVec || ru.Kind == KVec {
		var vt *Type
		switch {
		case lu.Kind == KVec && ru.Kind == KVec:
			if lu.N != ru.N {
				bad(" (vector sizes differ)")
			}
			if !elemOK(lu.Elem) || !elemOK(ru.Elem) {
				bad("")
			}
			if isShift {
				r.noNarrowVec(c, pos, lu)
				r.noNarrowVec(c, pos, ru)
				return lu, lu, ru, mode
			}
			if lu != ru {
				// MSL: no implicit conversions between vector types
				bad(" (no implicit conversion between vector types)")
			}
			vt = lu
			lc, rc = lu, ru
		case lu.Kind == KVec:
			if !elemOK(lu.Elem) || !elemOK(ru) {
				bad("")
			}
			vt = lu
			lc, rc = lu, lu
			if isShift {
				rc = mslPromote(ru)
			}
		default:
			if !elemOK(ru.Elem) || !elemOK(lu) {
				bad("")
			}
			if isShift {
				bad(" (a scalar cannot be shifted by a vector)")
			}
			vt = ru
			lc, rc = ru, ru
		}
		r.noNarrowVec(c, pos, vt)
		if vt.Elem == tBool {
			switch op {
			case "&", "|", "^", "==", "!=":
			default:
				c.unsupported(pos, "operator %s on bool vectors", op)
			}
		}
		if isCmp {
			return vecOf(tBool, vt.N), lc, rc, mode
		}
		return vt, lc, rc, mode
	}
	// ---- scalars ----
	if !mslArith(lt) || !mslArith(rt) {
		if (lt.Kind == KStruct || lt.Kind == KArray) && lt == rt && (op == "==" || op == "!=") {
			bad(" (C++ defines no comparison of class or array types)")
		}
		if lt.Kind == KPtr || rt.Kind == KPtr {
			c.unsupported(pos, "pointer arithmetic / comparison")
		}
		bad("")
	}
	if intOnly && (lt.Kind == KFloat || rt.Kind == KFloat) {
		bad(" (integer operands required)")
	}
	if isShift {
		pl := mslPromote(lt)
		return pl, pl, mslPromote(rt), mode
	}
	ct := mslUsualArith(lt, rt)
	if isCmp {
		return tBool, ct, ct, mode
	}
	return ct, ct, ct, mode
}

// ---------------------------------------------------------------------------
// members: swizzles (MSL §2.2.1 "Accessing Vector Components")
// ---------------------------------------------------------------------------

var mslSwizzleSets = []string{"xyzw", "rgba"}

func (r *mslRules) checkVecMember(c *checker, m *Member) bool {
	xt := m.X.base().T
	if xt.IsScalar() {
		c.invalid(m.Pos, "type", "member reference base type %s is not a structure or vector", mslTypeString(xt))
	}
	if xt.Packed {
		// MSL §2.2.3: components of packed vectors are reached with an array index
		c.unsupported(m.Pos, "swizzle of a packed vector")
	}
	n := xt.N
	if len(m.Name) == 0 || len(m.Name) > 4 {
		c.invalid(m.Pos, "type", "bad vector component selection .%s", m.Name)
	}
	set := -1
	swz := make([]uint8, len(m.Name))
	for i := 0; i < len(m.Name); i++ {
		found := false
		for si, s := range mslSwizzleSets {
			if k := strings.IndexByte(s, m.Name[i]); k >= 0 {
				if set >= 0 && set != si {
					c.invalid(m.Pos, "type", "vector component selection .%s mixes the xyzw and rgba name sets", m.Name)
				}
				set = si
				if k >= n {
					c.invalid(m.Pos, "type", "vector component selection .%s reaches component %d of %s", m.Name, k, mslTypeString(xt))
				}
				swz[i] = uint8(k)
				found = true
				break
			}
		}
		if !found {
			if m.Name == "lo" || m.Name == "hi" || m.Name == "even" || m.Name == "odd" {
				c.unsupported(m.Pos, "vector component selection .%s", m.Name)
			}
			c.invalid(m.Pos, "type", "%q is not a component selection of %s", m.Name, mslTypeString(xt))
		}
	}
	m.Swz = swz
	m.T = vecOf(xt.Elem, len(swz))
	m.LV = m.X.base().LV
	m.Const = m.X.base().Const
	return true
}

// ---------------------------------------------------------------------------
// local variables in the threadgroup address space (MSL §4.4)
// ---------------------------------------------------------------------------

func (r *mslRules) localVar(c *checker, v *VarDecl) bool {
	if v.TypeX.Name == "auto" && !v.Quals.Shared {
		// C++14 [dcl.spec.auto]: the type is deduced from the initializer
		// (top-level cv-qualifiers and references dropped)
		v.Init = c.value(v.Init)
		t := v.Init.base().T
		if t == tInitList || !mslValueType(t) || r.st.zeroConv[t] {
			c.unsupported(v.Pos, "auto deduced from an initializer of type %s", mslTypeString(t))
		}
		if t.Kind == KOpaque || t.containsKind(KOpaque) {
			c.unsupported(v.Pos, "local variable of type %s", mslTypeString(t))
		}
		v.T = t
		s := &Symbol{Kind: SymLocal, Name: v.Name, T: t, Pos: v.Pos, Slot: c.frame, ReadOnly: v.Quals.Const}
		c.frame += t.nsc
		if c.frame > c.fn.FrameSize {
			c.fn.FrameSize = c.frame
		}
		if v.Quals.Const && v.Init.base().Const {
			if cv, ok := c.fold(v.Init); ok {
				s.Const = true
				s.CV = &cv
			}
		}
		v.Sym = s
		c.declare(s, "local")
		return true
	}
	if !v.Quals.Shared {
		if t := c.resolveType(&TypeExpr{Pos: v.TypeX.Pos, Name: v.TypeX.Name}, unsizedNo); t.Kind == KOpaque || t.containsKind(KOpaque) {
			c.unsupported(v.Pos, "local variable of type %s", mslTypeString(t))
		}
		return false
	}
	fi := r.st.funcInfo[c.fn]
	if fi == nil || fi.Stage != "kernel" {
		// MSL §4.4: threadgroup variables are declared in kernel (mesh, object) functions
		c.unsupported(v.Pos, "threadgroup variable declared outside a kernel function")
	}
	if v.Init != nil {
		c.unsupported(v.Pos, "threadgroup variable with an initializer")
	}
	t := c.resolveType(v.TypeX, unsizedNo)
	if t.Kind == KVoid || t.Kind == KOpaque || t.Kind == KPtr || t.hasRuntimeArray() {
		c.invalid(v.Pos, "type", "threadgroup variable %q cannot have type %s", v.Name, mslTypeString(t))
	}
	v.T = t
	g := &GlobalVar{Decl: v, Name: v.Name, T: t, Storage: "shared", Pos: v.Pos, CellOff: c.prog.sharedSize}
	c.prog.sharedSize += t.nsc
	s := &Symbol{Kind: SymGlobal, Name: v.Name, T: t, Pos: v.Pos, Global: g}
	v.Sym = s
	c.declare(s, "local")
	return true
}

// symSpace returns the address space of the object a symbol designates.
func (r *mslRules) symSpace(c *checker, s *Symbol) string {
	switch s.Kind {
	case SymParam:
		if c.fn != nil {
			for _, p := range c.fn.Params {
				if p.Sym == s {
					if pi := r.st.paramInfo[p]; pi != nil && (pi.Ref || pi.Ptr) {
						return pi.Space
					}
				}
			}
		}
		return "thread"
	case SymGlobal:
		switch s.Global.Storage {
		case "shared":
			return "threadgroup"
		case "const":
			return "constant"
		}
	}
	return "thread"
}

// ---------------------------------------------------------------------------
// module scope
// ---------------------------------------------------------------------------

func (r *mslRules) checkTop(c *checker, decls []*mslTop) {
	for _, d := range decls {
		switch {
		case d.Struct != nil:
			t := c.declareStruct(d.Struct)
			if r.fe.zeroConv[d.Struct.Name] {
				r.st.zeroConv[t] = true
			}
			if d.Struct.Name == "_mslBufferSizes" {
				r.st.sizesStruct = t
			}
		case d.Typedef != nil:
			td := d.Typedef
			t := c.resolveType(td.TypeX, unsizedNo)
			if t.Kind == KArray && t.N == 1 && len(td.TypeX.Dims) == 1 {
				// `typedef T name[1];` is the Metal idiom for a buffer of
				// unknown length: the interpreter lets the index run to the
				// end of the bound buffer (see README, judgement calls).
				t = c.prog.tt.arrayOf(t.Elem, -1)
			}
			c.declare(&Symbol{Kind: SymStruct, Name: td.Name, T: t, Pos: td.Pos}, "typedef")
		case d.Template != nil:
			tpl := d.Template
			r.st.templates[tpl.Name] = append(r.st.templates[tpl.Name], tpl)
			if s := c.scopes[0].syms[tpl.Name]; s == nil {
				c.declare(&Symbol{Kind: SymFunc, Name: tpl.Name, Pos: tpl.Pos}, "function")
			} else if s.Kind != SymFunc {
				c.invalid(tpl.Pos, "redeclared", "%q redeclared as a function template (previously a %s at %s)", tpl.Name, symKindName(s.Kind), s.Pos)
			} else {
				c.noteIdent(tpl.Name, "function", 0, tpl.Pos)
			}
			for _, tp := range tpl.TParams {
				c.noteIdent(tp, "template-param", 1, tpl.Pos)
			}
			for _, p := range tpl.Proto.Params {
				if p.Name != "" {
					c.noteIdent(p.Name, "param", 1, p.Pos)
				}
			}
		case d.Func != nil:
			r.function(c, d.Func)
		default:
			for _, v := range d.Vars {
				r.globalVar(c, d, v)
			}
		}
	}
}

// globalVar: MSL §4.2 "constant Address Space": "Variables in program scope
// must be declared in the constant address space and initialized during the
// declaration statement"; the initializer must be a compile-time constant.
func (r *mslRules) globalVar(c *checker, d *mslTop, v *VarDecl) {
	switch d.VarSpace {
	case "constant":
	case "":
		c.invalid(v.Pos, "syntax", "program-scope variable %q must be declared in the constant address space (MSL §4.2)", v.Name)
	default:
		c.invalid(v.Pos, "syntax", "program-scope variable %q cannot be in the %s address space (MSL §4.2)", v.Name, d.VarSpace)
	}
	g := &GlobalVar{Decl: v, Name: v.Name, Pos: v.Pos, Storage: "const"}
	t := c.resolveType(v.TypeX, unsizedNo)
	if t.Kind == KVoid || t.Kind == KPtr || t.hasRuntimeArray() {
		c.invalid(v.Pos, "type", "variable %q cannot have type %s", v.Name, mslTypeString(t))
	}
	if t.Kind == KOpaque {
		c.unsupported(v.Pos, "program-scope variable of type %s", mslTypeString(t))
	}
	if v.Init == nil {
		c.invalid(v.Pos, "syntax", "constant variable %q needs an initializer (MSL §4.2)", v.Name)
	}
	v.Init = c.value(v.Init)
	init := c.convertTo(v.Init, t)
	if init == nil {
		c.invalid(v.Pos, "type", "cannot initialise %q of type %s with a value of type %s", v.Name, mslTypeString(t), mslTypeString(v.Init.base().T))
	}
	v.Init = init
	g.Init = init
	g.T = t
	v.T = t
	s := &Symbol{Kind: SymGlobal, Name: v.Name, T: t, Pos: v.Pos, Global: g, ReadOnly: true}
	if !init.base().Const {
		c.unsupported(v.Pos, "initializer of %q is not a constant expression this front end can fold", v.Name)
	}
	val, ok := c.fold(init)
	if !ok {
		c.unsupported(v.Pos, "initializer of %q could not be evaluated", v.Name)
	}
	s.Const = true
	s.CV = &val
	g.initVal = &val
	v.Sym = s
	c.prog.globals = append(c.prog.globals, g)
	c.declare(s, "global")
}

// mslArgKind classifies a kernel argument.
type mslArgKind uint8

const (
	argValue       mslArgKind = iota // value with a built-in attribute
	argBuffer                        // device / constant reference or pointer
	argThreadgroup                   // threadgroup reference or pointer
	argOther                         // texture, sampler, stage_in ...: not executable
)

// mslArg is one argument of an entry point.
type mslArg struct {
	Param   *Param
	Info    *mslParamInfo
	Kind    mslArgKind
	Builtin string // attribute naming a built-in input
	Index   int    // [[buffer(n)]] / [[threadgroup(n)]]; -1 when absent
	User    string // [[user(name)]]
	Block   *IfaceBlock
	tgOff   int // cell offset of a threadgroup argument in the workgroup area
}

// mslEntry is an entry point.
type mslEntry struct {
	Fn    *Function
	Stage string
	Args  []*mslArg
}

var mslBuiltinInputs = map[string]bool{
	"thread_position_in_grid": true, "thread_position_in_threadgroup": true, "thread_index_in_threadgroup": true,
	"threadgroup_position_in_grid": true, "threadgroups_per_grid": true, "threads_per_threadgroup": true,
	"threads_per_grid": true, "dispatch_threads_per_threadgroup": true,
}

// resolveCall (callRules): a call that matched no user function.
func (r *mslRules) resolveCall(c *checker, x *Call) Expr {
	if ue := r.st.skipped[x.Name]; ue != nil {
		c.unsupported(x.Pos, "call of %s, which uses a construct that is not modelled (%s)", x.Name, ue.What)
	}
	return nil
}

// checkIsolated checks a function; a valid-but-unmodelled construct inside it
// marks the function (and through the call graph its callers) as unsupported
// instead of failing the translation unit.
func (r *mslRules) checkIsolated(c *checker, fn *Function) {
	nscopes := len(c.scopes)
	defer func() {
		rec := recover()
		if rec == nil {
			return
		}
		b, ok := rec.(bail)
		if !ok {
			panic(rec)
		}
		ue, ok := b.err.(*UnsupportedError)
		if !ok {
			panic(rec)
		}
		c.scopes = c.scopes[:nscopes]
		c.fn, c.frame, c.loops, c.swits = nil, 0, 0, 0
		registered := false
		if s := c.scopes[0].syms[fn.Name]; s != nil && s.Kind == SymFunc {
			for _, f := range s.Funcs {
				if f == fn {
					registered = true
				}
			}
		}
		if registered {
			r.st.unsupportedFn[fn] = ue
			if fn.callees == nil {
				fn.callees = map[*Function]bool{}
			}
		} else {
			r.st.skipped[fn.Name] = ue
			fi := r.st.funcInfo[fn]
			stage := ""
			if fi != nil {
				stage = fi.Stage
			}
			r.st.skippedList = append(r.st.skippedList, mslSkipped{Name: fn.Name, Stage: stage, Pos: fn.Pos, Err: ue})
		}
	}()
	c.function(fn)
}

func (r *mslRules) function(c *checker, fn *Function) {
	fi := r.st.funcInfo[fn]
	r.checkIsolated(c, fn)
	if r.st.skipped[fn.Name] != nil && r.st.unsupportedFn[fn] == nil {
		registered := false
		if s := c.scopes[0].syms[fn.Name]; s != nil && s.Kind == SymFunc {
			for _, f := range s.Funcs {
				registered = registered || f == fn
			}
		}
		if !registered {
			return
		}
	}
	if r.st.unsupportedFn[fn] == nil {
		r.checkCallSpaces(c, fn)
	}
	if fi == nil || fi.Stage == "" {
		return
	}
	if fn.Body == nil {
		return
	}
	e := &mslEntry{Fn: fn, Stage: fi.Stage}
	if fi.Stage == "kernel" && fn.Ret.Kind != KVoid {
		// MSL §5.1.3? "a kernel function must return void"
		c.invalid(fn.Pos, "type", "kernel function %s must return void (MSL §5.1)", fn.Name)
	}
	for _, p := range fn.Params {
		pi := r.st.paramInfo[p]
		a := &mslArg{Param: p, Info: pi, Index: -1, Kind: argOther}
		for _, at := range pi.Attrs {
			switch {
			case mslBuiltinInputs[at.Name]:
				a.Builtin = at.Name
			case at.Name == "buffer" || at.Name == "threadgroup":
				if len(at.Args) == 1 {
					n := 0
					ok := len(at.Args[0]) > 0
					for _, ch := range at.Args[0] {
						if ch < '0' || ch > '9' {
							ok = false
							break
						}
						n = n*10 + int(ch-'0')
					}
					if ok {
						a.Index = n
					} else {
						c.unsupported(at.Pos, "attribute %s with a non-literal index", at)
					}
				}
			case at.Name == "user":
				if len(at.Args) == 1 {
					a.User = at.Args[0]
				}
			}
		}
		pointee := p.T
		if pi.Ptr {
			pointee = p.T.Elem
		}
		switch {
		case (pi.Ref || pi.Ptr) && (pi.Space == "device" || pi.Space == "constant"):
			a.Kind = argBuffer
			blk := &IfaceBlock{Pos: p.Pos, Name: p.Name, Instance: fn.Name, Class: 'b', Binding: a.Index, Layout: "metal", idx: len(c.prog.blocks)}
			blk.Quals.Readonly = pi.ConstTo
			lay := c.prog.lc.mslLayoutOf(pointee)
			blk.Size = lay.Size
			if pointee.Kind == KStruct {
				for i, f := range pointee.Struct.Fields {
					bm := &BlockMember{Name: f.Name, T: f.T, Offset: lay.Fields[i].Off, Lay: lay.Fields[i].L, Block: blk, Index: i}
					blk.Members = append(blk.Members, bm)
					if f.T.hasRuntimeArray() {
						blk.Size = lay.Fields[i].Off
					}
				}
			} else {
				blk.Members = []*BlockMember{{Name: "", T: pointee, Offset: 0, Lay: lay, Block: blk}}
				if pointee.hasRuntimeArray() {
					blk.Size = 0
				}
			}
			a.Block = blk
			c.prog.blocks = append(c.prog.blocks, blk)
		case (pi.Ref || pi.Ptr) && pi.Space == "threadgroup":
			a.Kind = argThreadgroup
			if fi.Stage == "kernel" {
				a.tgOff = c.prog.sharedSize
				c.prog.sharedSize += pointee.nsc
			}
		case !pi.Ref && !pi.Ptr && a.Builtin != "":
			a.Kind = argValue
		}
		e.Args = append(e.Args, a)
	}
	r.st.entries = append(r.st.entries, e)
}

// ---------------------------------------------------------------------------
// function templates (C++14 [temp.deduct.call], the subset naga emits:
// parameters of the forms A, space A&, space A*)
// ---------------------------------------------------------------------------

// resolveTemplateCall performs template argument deduction for every template
// named name, overload resolution among the deduced signatures (C++14
// [over.match.funcs]/7: only the selected specialisation is instantiated) and
// instantiates the winner.  It returns nil when no template is viable.
func (r *mslRules) resolveTemplateCall(c *checker, x *mslTemplateCall) *Function {
	type inst struct {
		tpl  *mslTemplate
		bind map[string]*Type
		key  string
	}
	withScope := func(tpl *mslTemplate, bind map[string]*Type, f func()) {
		savedScopes, savedFn, savedFrame, savedLoops, savedSwits := c.scopes, c.fn, c.frame, c.loops, c.swits
		// restore on unwinding too: the frames above run deferred pops
		defer func() {
			c.scopes, c.fn, c.frame, c.loops, c.swits = savedScopes, savedFn, savedFrame, savedLoops, savedSwits
		}()
		tscope := &scope{syms: map[string]*Symbol{}}
		for _, tp := range tpl.TParams {
			tscope.syms[tp] = &Symbol{Kind: SymStruct, Name: tp, T: bind[tp], Pos: tpl.Pos, Depth: 1}
		}
		c.scopes = []*scope{savedScopes[0], tscope}
		c.loops, c.swits = 0, 0
		f()
	}
	var cands []candidate
	for _, tpl := range r.st.templates[x.Name] {
		if len(tpl.Proto.Params) != len(x.Args) {
			continue
		}
		bind := map[string]*Type{}
		ok := true
		for i, p := range tpl.Proto.Params {
			pi := r.st.paramInfo[p]
			at := x.Args[i].base().T
			pname := p.TypeX.Name
			want := at
			if pi.Ptr {
				bar := strings.IndexByte(pname, '|')
				space := pname[1:bar]
				pname = pname[bar+1:]
				if at.Kind != KPtr || at.Space != space {
					ok = false
					break
				}
				want = at.Elem
			}
			isT := false
			for _, tp := range tpl.TParams {
				if tp == pname {
					isT = true
				}
			}
			if !isT {
				continue // a non-dependent parameter: judged by overload resolution
			}
			if len(p.TypeX.Dims) > 0 {
				c.unsupported(x.Pos, "template parameter of array type")
			}
			if old, seen := bind[pname]; seen && old != want {
				ok = false
				break
			}
			bind[pname] = want
		}
		if !ok {
			continue
		}
		key := ""
		for _, tp := range tpl.TParams {
			bt := bind[tp]
			if bt == nil {
				c.unsupported(x.Pos, "template argument %s of %s cannot be deduced", tp, x.Name)
			}
			key += fmt.Sprintf("%s=%p;", tp, bt)
		}
		// the parameter types of the specialisation
		var pts []*Type
		var dirs []string
		withScope(tpl, bind, func() {
			for _, p := range tpl.Proto.Params {
				pts = append(pts, c.resolveType(&TypeExpr{Pos: p.TypeX.Pos, Name: p.TypeX.Name}, unsizedNo))
				dirs = append(dirs, p.Dir)
			}
		})
		cands = append(cands, candidate{pts, dirs, &inst{tpl, bind, key}})
	}
	if len(cands) == 0 {
		return nil
	}
	fake := &Call{ExprBase: ExprBase{Pos: x.Pos}, Name: x.Name, Args: x.Args}
	ref, why := c.pickOverload(fake, cands)
	if ref == nil {
		if why == "ambiguous" {
			c.invalid(x.Pos, "no-overload", "call of %s%s is ambiguous", x.Name, mslArgTypes(x.Args))
		}
		return nil
	}
	in := ref.(*inst)
	if fn := in.tpl.instances[in.key]; fn != nil {
		return fn
	}
	fn := r.fe.instantiate(r.st.parser, in.tpl)
	in.tpl.instances[in.key] = fn
	withScope(in.tpl, in.bind, func() { c.function(fn) })
	return fn
}

// ---------------------------------------------------------------------------
// address spaces of reference arguments (MSL §4: a reference or pointer is
// declared with the address space of the object it designates; binding it to
// an object of another address space is ill-formed)
// ---------------------------------------------------------------------------

// exprSpace returns the address space of the object designated by an l-value
// expression inside fn ("" when it cannot be told).
func (r *mslRules) exprSpace(fn *Function, e Expr) string {
	if cd, ok := e.(*Cond); ok {
		a, b := r.exprSpace(fn, cd.A), r.exprSpace(fn, cd.B)
		if a == b {
			return a
		}
		return ""
	}
	s, _ := rootSymbol(e)
	if s == nil {
		return ""
	}
	switch s.Kind {
	case SymParam:
		for _, p := range fn.Params {
			if p.Sym == s {
				if pi := r.st.paramInfo[p]; pi != nil && (pi.Ref || pi.Ptr) {
					return pi.Space
				}
			}
		}
		return "thread"
	case SymLocal:
		return "thread"
	case SymGlobal:
		switch s.Global.Storage {
		case "shared":
			return "threadgroup"
		case "const":
			return "constant"
		}
	}
	return ""
}

// checkCallSpaces walks the body of fn and checks every call of a user
// function: a reference parameter binds only to an object of its own address
// space.
func (r *mslRules) checkCallSpaces(c *checker, fn *Function) {
	if fn.Body == nil {
		return
	}
	var visitE func(e Expr)
	call := func(x *Call) {
		if x.Fn == nil {
			return
		}
		for i, p := range x.Fn.Params {
			pi := r.st.paramInfo[p]
			if pi == nil || !pi.Ref || i >= len(x.Args) {
				continue
			}
			got := r.exprSpace(fn, x.Args[i])
			if got != "" && got != pi.Space {
				c.invalid(x.Args[i].base().Pos, "type", "argument %d of %s: a reference to the %s address space cannot bind to an object in the %s address space (MSL §4)", i+1, x.Fn.Name, pi.Space, got)
			}
		}
	}
	visitE = func(e Expr) {
		switch x := e.(type) {
		case nil:
		case *Unary:
			visitE(x.X)
		case *IncDec:
			visitE(x.X)
		case *Binary:
			visitE(x.L)
			visitE(x.R)
		case *Assign:
			visitE(x.L)
			visitE(x.R)
		case *Cond:
			visitE(x.C)
			visitE(x.A)
			visitE(x.B)
		case *Call:
			for _, a := range x.Args {
				visitE(a)
			}
			call(x)
		case *Index:
			visitE(x.X)
			visitE(x.I)
		case *Member:
			visitE(x.X)
		case *Method:
			visitE(x.X)
			for _, a := range x.Args {
				visitE(a)
			}
		case *Convert:
			visitE(x.X)
		case *Comma:
			visitE(x.L)
			visitE(x.R)
		case *mslCast:
			for _, a := range x.Args {
				visitE(a)
			}
		case *mslAsType:
			visitE(x.X)
		case *mslBrace:
			for _, it := range x.items {
				visitE(it.e)
			}
		case *mslAddrOf:
			visitE(x.X)
		case *mslCall:
			for _, a := range x.Args {
				visitE(a)
			}
		case *mslTemplateCall:
			for _, a := range x.Args {
				visitE(a)
			}
			if x.call != nil {
				call(x.call)
			}
		case *mslConv:
			visitE(x.X)
		}
	}
	var visitS func(s Stmt)
	visitS = func(s Stmt) {
		switch x := s.(type) {
		case nil:
		case *BlockStmt:
			for _, st := range x.Stmts {
				visitS(st)
			}
		case *DeclStmt:
			for _, v := range x.Vars {
				if v.Init != nil {
					visitE(v.Init)
				}
			}
		case *ExprStmt:
			if x.X != nil {
				visitE(x.X)
			}
		case *IfStmt:
			visitE(x.Cond)
			visitS(x.Then)
			if x.Else != nil {
				visitS(x.Else)
			}
		case *ForStmt:
			if x.Init != nil {
				visitS(x.Init)
			}
			if x.Cond != nil {
				visitE(x.Cond)
			}
			if x.Post != nil {
				visitE(x.Post)
			}
			visitS(x.Body)
		case *WhileStmt:
			visitE(x.Cond)
			visitS(x.Body)
		case *DoWhileStmt:
			visitS(x.Body)
			visitE(x.Cond)
		case *SwitchStmt:
			visitE(x.X)
			for _, st := range x.Body {
				visitS(st)
			}
		case *ReturnStmt:
			if x.X != nil {
				visitE(x.X)
			}
		}
	}
	visitS(fn.Body)
}
