package ctext

// Memory layout of interface blocks.
//
// std140 / std430 follow OpenGL 4.6 core §7.6.2.2 "Standard Uniform Block
// Layout" (rules 1-10) and the std430 relaxation at the end of that section:
//
//  1. scalar consuming N basic machine units: base alignment N.
//  2. two-component vector: 2N.   3. three- or four-component vector: 4N.
//  4. array of scalars or vectors: base alignment and array stride are the
//     element's base alignment, rounded up to that of a vec4 (std140 only).
//  5. column-major matrix with C columns and R rows: stored as an array of C
//     column vectors with R components (rule 4).   6. arrays of those.
//  7. row-major matrix: an array of R row vectors with C components. 8. arrays.
//  9. structure: base alignment is the largest member base alignment, rounded
//     up to that of a vec4 (std140 only); members are placed in order, each at
//     the next multiple of its base alignment; the structure's size is rounded
//     up to its base alignment.
// 10. array of structures: elements laid out in order per rule 9.
//
// A vec3 consumes 3N, so a following scalar may share its 16-byte slot.

// LayoutKind selects the packing rules.
type LayoutKind uint8

const (
	LayoutStd140 LayoutKind = iota
	LayoutStd430
)

func (k LayoutKind) String() string {
	if k == LayoutStd140 {
		return "std140"
	}
	return "std430"
}

// TypeLayout is the byte layout of a type inside a block.
type TypeLayout struct {
	T        *Type
	Size     int // bytes consumed (arrays: Stride*N; runtime arrays: 0)
	Align    int // base alignment
	Stride   int // arrays: element stride; matrices: stride between columns (rows if RowMajor)
	RowMajor bool
	Elem     *TypeLayout   // arrays
	Fields   []FieldLayout // structs
}

// FieldLayout places a struct field.
type FieldLayout struct {
	Off int
	L   *TypeLayout
}

type layoutKey struct {
	t        *Type
	kind     LayoutKind
	rowMajor bool
}

type layoutCache map[layoutKey]*TypeLayout

func roundUp(x, a int) int {
	if a <= 0 {
		return x
	}
	return (x + a - 1) / a * a
}

// layoutOf computes (and caches) the layout of t.
func (lc layoutCache) layoutOf(t *Type, kind LayoutKind, rowMajor bool) *TypeLayout {
	key := layoutKey{t, kind, rowMajor}
	if l, ok := lc[key]; ok {
		return l
	}
	l := &TypeLayout{T: t}
	scalarSize := func(s *Type) int {
		if s.Kind == KDouble {
			return 8
		}
		return 4 // bool, int, uint, float
	}
	vecAlign := func(s *Type, n int) int {
		switch n {
		case 1:
			return scalarSize(s)
		case 2:
			return 2 * scalarSize(s)
		}
		return 4 * scalarSize(s)
	}
	switch t.Kind {
	case KBool, KInt, KUint, KFloat, KDouble:
		l.Size = scalarSize(t)
		l.Align = l.Size
	case KVec:
		l.Size = t.N * scalarSize(t.Elem)
		l.Align = vecAlign(t.Elem, t.N)
	case KMat:
		// as an array of column (or row) vectors
		count, comps := t.Cols, t.Rows
		if rowMajor {
			count, comps = t.Rows, t.Cols
		}
		a := vecAlign(t.Elem, comps)
		if kind == LayoutStd140 {
			a = roundUp(a, 16)
		}
		l.Align = a
		l.Stride = roundUp(comps*scalarSize(t.Elem), a)
		l.Size = l.Stride * count
		l.RowMajor = rowMajor
	case KArray:
		el := lc.layoutOf(t.Elem, kind, rowMajor)
		a := el.Align
		if kind == LayoutStd140 {
			a = roundUp(a, 16)
		}
		l.Align = a
		l.Elem = el
		l.Stride = roundUp(el.Size, a)
		if t.N > 0 {
			l.Size = l.Stride * t.N
		}
	case KStruct:
		off := 0
		a := 0
		for _, f := range t.Struct.Fields {
			fl := lc.layoutOf(f.T, kind, rowMajor)
			off = roundUp(off, fl.Align)
			l.Fields = append(l.Fields, FieldLayout{Off: off, L: fl})
			off += fl.Size
			if fl.Align > a {
				a = fl.Align
			}
		}
		if kind == LayoutStd140 {
			a = roundUp(a, 16)
		}
		if a == 0 {
			a = 4
		}
		l.Align = a
		l.Size = roundUp(off, a)
	default:
		l.Align = 4
	}
	lc[key] = l
	return l
}
