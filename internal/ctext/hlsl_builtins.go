package ctext

import (
	"encoding/binary"
	"math"
	"strings"
	"sync"
)

// HLSL intrinsic functions (HLSL reference, "Intrinsic Functions") and the
// methods of (RW)ByteAddressBuffer ("ByteAddressBuffer / RWByteAddressBuffer
// object").  Where the reference does not define a corner case the Direct3D
// 11.3 functional specification (instruction semantics, chapter 22, and the
// floating-point rules of §3.1) or the DXIL specification is cited.

func fmod64(x, y float64) float64 { return math.Mod(x, y) }

// hlslIntr describes one intrinsic.
type hlslIntr struct {
	nargs int
	// base selects the element type the arguments are unified to:
	//   'f' float, 'n' numeric (usual arithmetic conversions among the
	//   arguments), 'i' integer (int / uint, sign kept), 'u' uint, 'a' as given.
	base byte
	// ret: 's' same as the parameters, 'b' bool, 'i' int, 'u' uint, 'f' float
	// of the same shape; 'S' scalar of the parameter base, 'B' scalar bool.
	ret     byte
	impl    func(k Kind) builtinImpl
	special func(r *hlslRules, c *checker, x *Call) *builtinSig
	impure  bool
	barrier bool
}

var (
	hlslIntrOnce sync.Once
	hlslIntrTab  map[string]*hlslIntr
)

// valid HLSL intrinsics that are not modelled
var hlslUnmodelled = words(`
ddx ddy ddx_coarse ddy_coarse ddx_fine ddy_fine fwidth clip abort printf errorf noise lit dst
tex1D tex2D tex3D texCUBE tex1Dlod tex2Dlod tex1Dbias tex2Dbias tex1Dgrad tex2Dgrad tex1Dproj tex2Dproj
EvaluateAttributeAtCentroid EvaluateAttributeAtSample EvaluateAttributeSnapped GetRenderTargetSampleCount GetRenderTargetSamplePosition
asdouble fma msad4 D3DCOLORtoUBYTE4 CheckAccessFullyMapped Process2DQuadTessFactorsAvg ProcessIsolineTessFactors
dot4add_u8packed dot4add_i8packed dot2add pack_u8 pack_s8 pack_clamp_u8 pack_clamp_s8 unpack_u8u32 unpack_s8s32 unpack_u8u16 unpack_s8s16
NonUniformResourceIndex IsHelperLane
InterlockedCompareStoreFloatBitwise InterlockedCompareExchangeFloatBitwise
TraceRay ReportHit CallShader IgnoreHit AcceptHitAndEndSearch DispatchMesh SetMeshOutputCounts
`)

func hlslIsUnmodelled(name string) bool {
	return hlslUnmodelled[name] || strings.HasPrefix(name, "Wave") || strings.HasPrefix(name, "Quad")
}

func (r *hlslRules) builtinFuncs(name string) (sigs []*builtinSig, known, unmodelled bool, needs string) {
	if _, ok := hlslIntrinsics()[name]; ok {
		return nil, true, false, ""
	}
	if hlslIsUnmodelled(name) {
		return nil, true, true, ""
	}
	return nil, false, false, ""
}

// resolveCall types a call of an intrinsic function.
func (r *hlslRules) resolveCall(c *checker, x *Call) Expr {
	in := hlslIntrinsics()[x.Name]
	if in == nil {
		if hlslIsUnmodelled(x.Name) {
			c.unsupported(x.Pos, "intrinsic function %s", x.Name)
		}
		return nil
	}
	var sig *builtinSig
	if in.special != nil {
		sig = in.special(r, c, x)
	} else {
		sig = r.genericSig(c, x, in)
	}
	sig.name = x.Name
	sig.pure = !in.impure && !in.barrier
	sig.barrier = in.barrier
	x.BI = sig
	x.T = sig.ret
	dirs := make([]string, len(sig.params))
	for i := range dirs {
		dirs[i] = "in"
		if sig.out != nil && sig.out[i] {
			dirs[i] = "out"
		}
		if sig.lvalue != nil && sig.lvalue[i] {
			dirs[i] = "inout"
		}
	}
	for i, a := range x.Args {
		if dirs[i] == "out" {
			if !r.implicitConv(sig.params[i], a.base().T) {
				c.invalid(a.base().Pos, "type", "argument %d of %s: cannot store %s into %s", i+1, x.Name, hlslTypeName(sig.params[i]), hlslTypeName(a.base().T))
			}
		}
	}
	c.bindArgs(x, sig.params, dirs)
	x.Const = sig.pure
	for _, a := range x.Args {
		if !a.base().Const {
			x.Const = false
		}
	}
	if sig.barrier && c.fn != nil {
		c.fn.hasBarrier = true
	}
	return x
}

func (r *hlslRules) badArgs(c *checker, x *Call, why string) {
	// FXC error X3013: no matching N parameter intrinsic function
	c.invalid(x.Pos, "no-overload", "no overload of intrinsic %s matches argument types %s%s", x.Name, hlslArgTypes(x.Args), why)
}

func hlslArgTypes(args []Expr) string {
	s := "("
	for i, a := range args {
		if i > 0 {
			s += ", "
		}
		s += hlslTypeName(a.base().T)
	}
	return s + ")"
}

// unify computes the common shape and base of numeric arguments.
func (r *hlslRules) unify(c *checker, x *Call, args []Expr, base byte) *Type {
	rows, cols := 1, 1
	var shapeT *Type
	k := KVoid
	for _, a := range args {
		at := a.base().T
		if !hlslIsNumeric(at) {
			r.badArgs(c, x, " (scalar, vector or matrix arguments required)")
		}
		if at.Base() == KDouble {
			c.unsupported(x.Pos, "intrinsic %s with double-precision arguments", x.Name)
		}
		if shapeT == nil {
			shapeT = at
			rows, cols = hlslDims(at)
		} else {
			rr, cc, ok := hlslCommonDims(shapeT, at)
			if !ok {
				r.badArgs(c, x, " (vector mixed with matrix)")
			}
			rows, cols = rr, cc
			if st := hlslShape(KFloat, rows, cols); st != nil {
				shapeT = st
			}
		}
		if k == KVoid {
			k = at.Base()
		} else if k != at.Base() {
			k = hlslArithBase(k, at.Base())
		}
	}
	switch base {
	case 'f':
		k = KFloat
	case 'n':
		if k == KBool {
			k = KInt
		}
	case 'i':
		if k == KFloat {
			r.badArgs(c, x, " (integer arguments required)")
		}
		if k == KBool {
			k = KInt
		}
	case 'u':
		if k == KFloat {
			r.badArgs(c, x, " (integer arguments required)")
		}
		k = KUint
	}
	t := hlslShape(k, rows, cols)
	if t == nil {
		c.unsupported(x.Pos, "intrinsic %s on a bool / integer matrix", x.Name)
	}
	return t
}

func (r *hlslRules) genericSig(c *checker, x *Call, in *hlslIntr) *builtinSig {
	if len(x.Args) != in.nargs {
		r.badArgs(c, x, "")
	}
	pt := r.unify(c, x, x.Args, in.base)
	rows, cols := hlslDims(pt)
	var rt *Type
	switch in.ret {
	case 's':
		rt = pt
	case 'b':
		rt = hlslShape(KBool, rows, cols)
	case 'i':
		rt = hlslShape(KInt, rows, cols)
	case 'u':
		rt = hlslShape(KUint, rows, cols)
	case 'f':
		rt = hlslShape(KFloat, rows, cols)
	case 'S':
		rt = pt.Scalar()
	case 'B':
		rt = tBool
	}
	if rt == nil {
		c.unsupported(x.Pos, "intrinsic %s on a matrix", x.Name)
	}
	s := &builtinSig{ret: rt, impl: in.impl(pt.Base())}
	for range x.Args {
		s.params = append(s.params, pt)
	}
	return s
}

// ---- float helpers ----------------------------------------------------------

// D3D11.3 functional spec §3.1.x / DXIL FMin, FMax: if one operand is NaN the
// other is returned.
func hlslFmin(a, b float32) float32 {
	switch {
	case isNaN32(a):
		return b
	case isNaN32(b):
		return a
	case b < a:
		return b
	}
	return a
}
func hlslFmax(a, b float32) float32 {
	switch {
	case isNaN32(a):
		return b
	case isNaN32(b):
		return a
	case a < b:
		return b
	}
	return a
}

func hf1(f func(x float32) float32) builtinImpl {
	return cw(func(ev *evaluator, in []Cell) (Cell, string) { return f32Cell(f(in[0].F())), "" })
}
func hf2(f func(x, y float32) float32) builtinImpl {
	return cw(func(ev *evaluator, in []Cell) (Cell, string) { return f32Cell(f(in[0].F(), in[1].F())), "" })
}
func hf3(f func(x, y, z float32) float32) builtinImpl {
	return cw(func(ev *evaluator, in []Cell) (Cell, string) {
		return f32Cell(f(in[0].F(), in[1].F(), in[2].F())), ""
	})
}
func fOnly(impl builtinImpl) func(Kind) builtinImpl { return func(Kind) builtinImpl { return impl } }
func hm1(f func(float64) float64) func(Kind) builtinImpl {
	return fOnly(m1(f))
}

// byKind builds an implementation that depends on the unified base type.
func byKind(f, i, u cellFn) func(Kind) builtinImpl {
	return func(k Kind) builtinImpl {
		switch k {
		case KFloat:
			return cw(f)
		case KInt:
			return cw(i)
		}
		return cw(u)
	}
}

func hlslSaturate(x float32) float32 {
	// D3D11.3 functional spec §3.1: "_sat" of NaN is 0
	if isNaN32(x) || x < 0 {
		return 0
	}
	if x > 1 {
		return 1
	}
	return x
}

func hlslIntrinsics() map[string]*hlslIntr {
	hlslIntrOnce.Do(func() { hlslIntrTab = buildHLSLIntrinsics() })
	return hlslIntrTab
}

func buildHLSLIntrinsics() map[string]*hlslIntr {
	t := map[string]*hlslIntr{}
	f1 := func(name string, f func(float64) float64) {
		t[name] = &hlslIntr{nargs: 1, base: 'f', ret: 's', impl: hm1(f)}
	}
	// ---- trigonometry / exponential: IEEE results (NaN outside the domain:
	// D3D11.3 functional spec, instruction definitions of sqrt, log, rsq ...)
	f1("sin", math.Sin)
	f1("cos", math.Cos)
	f1("tan", math.Tan)
	f1("asin", math.Asin)
	f1("acos", math.Acos)
	f1("atan", math.Atan)
	f1("sinh", math.Sinh)
	f1("cosh", math.Cosh)
	f1("tanh", math.Tanh)
	f1("exp", math.Exp)
	f1("exp2", math.Exp2)
	f1("log", math.Log)
	f1("log2", math.Log2)
	f1("log10", math.Log10)
	f1("sqrt", math.Sqrt)
	f1("rsqrt", func(x float64) float64 { return 1 / math.Sqrt(x) })
	f1("rcp", func(x float64) float64 { return 1 / x })
	f1("floor", math.Floor)
	f1("ceil", math.Ceil)
	f1("trunc", math.Trunc)
	// HLSL reference, round: "Halfway cases are rounded to the nearest even"
	// (DXIL Round_ne, D3D11 round_ne).
	f1("round", math.RoundToEven)
	t["degrees"] = &hlslIntr{nargs: 1, base: 'f', ret: 's', impl: fOnly(hf1(func(x float32) float32 { return fmul(x, float32(180/math.Pi)) }))}
	t["radians"] = &hlslIntr{nargs: 1, base: 'f', ret: 's', impl: fOnly(hf1(func(x float32) float32 { return fmul(x, float32(math.Pi/180)) }))}
	t["frac"] = &hlslIntr{nargs: 1, base: 'f', ret: 's', impl: fOnly(hf1(func(x float32) float32 { return fsub(x, floor32(x)) }))}
	t["saturate"] = &hlslIntr{nargs: 1, base: 'f', ret: 's', impl: fOnly(hf1(hlslSaturate))}
	t["atan2"] = &hlslIntr{nargs: 2, base: 'f', ret: 's', impl: fOnly(ff2(func(y, x float32) (float32, string) {
		if x == 0 && y == 0 {
			return 0, "atan2(0, 0) is not defined (HLSL reference, atan2: \"well-defined for every point other than the origin\")"
		}
		return f64to32(math.Atan2(float64(y), float64(x))), ""
	}))}
	t["pow"] = &hlslIntr{nargs: 2, base: 'f', ret: 's', impl: fOnly(ff2(func(x, y float32) (float32, string) {
		// HLSL reference, pow: table of special cases
		switch {
		case x < 0:
			return float32(math.NaN()), ""
		case x == 0 && y == 0:
			return 0, "pow(0, 0) depends on the graphics processor: 0, 1 or NaN (HLSL reference, pow)"
		case x == 0 && y < 0:
			return float32(math.Inf(1)), ""
		}
		return f64to32(math.Pow(float64(x), float64(y))), ""
	}))}
	t["fmod"] = &hlslIntr{nargs: 2, base: 'f', ret: 's', impl: fOnly(hf2(hlslFmod))}
	t["ldexp"] = &hlslIntr{nargs: 2, base: 'f', ret: 's', impl: fOnly(cw(func(ev *evaluator, in []Cell) (Cell, string) {
		// HLSL reference, ldexp: x * 2^exp.  Compilers compute exp2(exp) in
		// binary32 first; when that intermediate over/underflows although the
		// product is representable the exact product is returned and counted.
		x, e := in[0].F(), in[1].F()
		p := math.Exp2(float64(e))
		if (float32(p) == 0 || isInf32(float32(p))) && x != 0 && !isInf32(x) && !isNaN32(x) {
			ev.info("hlsl.ldexp.intermediate-range")
		}
		return f32Cell(float32(float64(x) * p)), ""
	}))}
	t["step"] = &hlslIntr{nargs: 2, base: 'f', ret: 's', impl: fOnly(hf2(func(y, x float32) float32 {
		if x >= y {
			return 1
		}
		return 0
	}))}
	t["smoothstep"] = &hlslIntr{nargs: 3, base: 'f', ret: 's', impl: fOnly(hf3(func(lo, hi, x float32) float32 {
		tt := hlslSaturate(fdiv(fsub(x, lo), fsub(hi, lo)))
		return fmul(fmul(tt, tt), fsub(3, fmul(2, tt)))
	}))}
	t["lerp"] = &hlslIntr{nargs: 3, base: 'f', ret: 's', impl: fOnly(hf3(func(x, y, s float32) float32 {
		// HLSL reference, lerp: x*(1-s) + y*s = x + s*(y-x)
		return fadd(x, fmul(s, fsub(y, x)))
	}))}
	t["mad"] = &hlslIntr{nargs: 3, base: 'n', ret: 's', impl: byKind(
		func(ev *evaluator, in []Cell) (Cell, string) {
			a, b, c := in[0].F(), in[1].F(), in[2].F()
			fused := ffma(a, b, c)
			if un := fadd(fmul(a, b), c); un != fused && !(isNaN32(un) && isNaN32(fused)) {
				// HLSL reference, mad: whether the operation is fused is up to the
				// hardware / driver
				ev.info("mad.differs")
			}
			return f32Cell(fused), ""
		},
		func(ev *evaluator, in []Cell) (Cell, string) { return i32Cell(in[0].I()*in[1].I() + in[2].I()), "" },
		func(ev *evaluator, in []Cell) (Cell, string) { return u32Cell(in[0].U()*in[1].U() + in[2].U()), "" },
	)}
	t["abs"] = &hlslIntr{nargs: 1, base: 'n', ret: 's', impl: byKind(
		func(ev *evaluator, in []Cell) (Cell, string) { return Cell{B: in[0].B &^ 0x80000000}, "" },
		func(ev *evaluator, in []Cell) (Cell, string) {
			x := in[0].I()
			if x < 0 {
				x = -x // INT_MIN wraps to itself (DXIL: imax(x, 0-x))
			}
			return i32Cell(x), ""
		},
		func(ev *evaluator, in []Cell) (Cell, string) { return in[0], "" },
	)}
	t["sign"] = &hlslIntr{nargs: 1, base: 'n', ret: 'i', impl: byKind(
		func(ev *evaluator, in []Cell) (Cell, string) {
			x := in[0].F()
			switch {
			case x > 0:
				return i32Cell(1), ""
			case x < 0:
				return i32Cell(-1), ""
			}
			return i32Cell(0), "" // 0 and NaN: (x > 0) - (x < 0)
		},
		func(ev *evaluator, in []Cell) (Cell, string) {
			x := in[0].I()
			switch {
			case x > 0:
				return i32Cell(1), ""
			case x < 0:
				return i32Cell(-1), ""
			}
			return i32Cell(0), ""
		},
		func(ev *evaluator, in []Cell) (Cell, string) {
			if in[0].U() != 0 {
				return i32Cell(1), ""
			}
			return i32Cell(0), ""
		},
	)}
	t["min"] = &hlslIntr{nargs: 2, base: 'n', ret: 's', impl: byKind(
		func(ev *evaluator, in []Cell) (Cell, string) { return f32Cell(hlslFmin(in[0].F(), in[1].F())), "" },
		func(ev *evaluator, in []Cell) (Cell, string) {
			if in[1].I() < in[0].I() {
				return in[1], ""
			}
			return in[0], ""
		},
		func(ev *evaluator, in []Cell) (Cell, string) {
			if in[1].U() < in[0].U() {
				return in[1], ""
			}
			return in[0], ""
		},
	)}
	t["max"] = &hlslIntr{nargs: 2, base: 'n', ret: 's', impl: byKind(
		func(ev *evaluator, in []Cell) (Cell, string) { return f32Cell(hlslFmax(in[0].F(), in[1].F())), "" },
		func(ev *evaluator, in []Cell) (Cell, string) {
			if in[1].I() > in[0].I() {
				return in[1], ""
			}
			return in[0], ""
		},
		func(ev *evaluator, in []Cell) (Cell, string) {
			if in[1].U() > in[0].U() {
				return in[1], ""
			}
			return in[0], ""
		},
	)}
	// HLSL reference, clamp: min(max(x, min), max)
	t["clamp"] = &hlslIntr{nargs: 3, base: 'n', ret: 's', impl: byKind(
		func(ev *evaluator, in []Cell) (Cell, string) {
			return f32Cell(hlslFmin(hlslFmax(in[0].F(), in[1].F()), in[2].F())), ""
		},
		func(ev *evaluator, in []Cell) (Cell, string) {
			x := in[0].I()
			if in[1].I() > x {
				x = in[1].I()
			}
			if in[2].I() < x {
				x = in[2].I()
			}
			return i32Cell(x), ""
		},
		func(ev *evaluator, in []Cell) (Cell, string) {
			x := in[0].U()
			if in[1].U() > x {
				x = in[1].U()
			}
			if in[2].U() < x {
				x = in[2].U()
			}
			return u32Cell(x), ""
		},
	)}
	t["isnan"] = &hlslIntr{nargs: 1, base: 'f', ret: 'b', impl: fOnly(cw(func(ev *evaluator, in []Cell) (Cell, string) { return boolCell(isNaN32(in[0].F())), "" }))}
	t["isinf"] = &hlslIntr{nargs: 1, base: 'f', ret: 'b', impl: fOnly(cw(func(ev *evaluator, in []Cell) (Cell, string) { return boolCell(isInf32(in[0].F())), "" }))}
	t["isfinite"] = &hlslIntr{nargs: 1, base: 'f', ret: 'b', impl: fOnly(cw(func(ev *evaluator, in []Cell) (Cell, string) {
		return boolCell(!isInf32(in[0].F()) && !isNaN32(in[0].F())), ""
	}))}
	// ---- integer bit functions -------------------------------------------
	t["countbits"] = &hlslIntr{nargs: 1, base: 'u', ret: 'u', impl: fOnly(cw(func(ev *evaluator, in []Cell) (Cell, string) { return i32Cell(bitCount32(in[0].U())), "" }))}
	t["reversebits"] = &hlslIntr{nargs: 1, base: 'u', ret: 'u', impl: fOnly(cw(func(ev *evaluator, in []Cell) (Cell, string) { return u32Cell(bitReverse32(in[0].U())), "" }))}
	// HLSL reference, firstbithigh: "location of the first set bit starting
	// from the highest order bit and working downward"; DXC (HLOperationLower,
	// TranslateFirstbitHi) converts DXIL's MSB-relative count to the bit index
	// counted from the LSB and keeps -1 for "none"; for negative signed values
	// the first 0 bit is located.  Result type follows the argument.
	t["firstbithigh"] = &hlslIntr{nargs: 1, base: 'i', ret: 's', impl: func(k Kind) builtinImpl {
		if k == KInt {
			return cw(func(ev *evaluator, in []Cell) (Cell, string) { return i32Cell(findMSBi(in[0].I())), "" })
		}
		return cw(func(ev *evaluator, in []Cell) (Cell, string) { return i32Cell(findMSBu(in[0].U())), "" })
	}}
	t["firstbitlow"] = &hlslIntr{nargs: 1, base: 'i', ret: 's', impl: fOnly(cw(func(ev *evaluator, in []Cell) (Cell, string) { return i32Cell(findLSB32(in[0].U())), "" }))}
	// HLSL reference, f16tof32: "the low 16 bits"; f32tof16: the D3D11.3
	// functional spec (§3.2.2 floating point conversion) allows round-to-zero
	// or round-to-nearest-even when narrowing: RNE is returned and an inexact
	// conversion is counted.
	t["f16tof32"] = &hlslIntr{nargs: 1, base: 'u', ret: 'f', impl: fOnly(cw(func(ev *evaluator, in []Cell) (Cell, string) { return f32Cell(f16ToF32(uint16(in[0].U()))), "" }))}
	t["f32tof16"] = &hlslIntr{nargs: 1, base: 'f', ret: 'u', impl: fOnly(cw(func(ev *evaluator, in []Cell) (Cell, string) {
		h, exact := f32ToF16(in[0].F())
		if !exact {
			ev.info("f32tof16.inexact")
		}
		return u32Cell(uint32(h)), ""
	}))}
	// ---- reinterpretation ----------------------------------------------------
	asX := func(to Kind) func(r *hlslRules, c *checker, x *Call) *builtinSig {
		return func(r *hlslRules, c *checker, x *Call) *builtinSig {
			if len(x.Args) != 1 {
				if len(x.Args) == 3 && x.Name == "asuint" {
					c.unsupported(x.Pos, "asuint(double, out, out)")
				}
				r.badArgs(c, x, "")
			}
			at := x.Args[0].base().T
			if !hlslIsNumeric(at) {
				r.badArgs(c, x, "")
			}
			switch at.Base() {
			case KInt, KUint, KFloat:
			case KDouble:
				c.unsupported(x.Pos, "%s of a double", x.Name)
			default:
				r.badArgs(c, x, " (bool argument)")
			}
			rows, cols := hlslDims(at)
			rt := hlslShape(to, rows, cols)
			if rt == nil {
				c.unsupported(x.Pos, "%s on a matrix", x.Name)
			}
			return &builtinSig{params: []*Type{at}, ret: rt, impl: func(ev *evaluator, s *builtinSig, a []Value) Value {
				v := ev.mk(s.ret)
				copy(v.C, a[0].C)
				return v
			}}
		}
	}
	t["asuint"] = &hlslIntr{special: asX(KUint)}
	t["asint"] = &hlslIntr{special: asX(KInt)}
	t["asfloat"] = &hlslIntr{special: asX(KFloat)}
	// ---- any / all ---------------------------------------------------------------
	anyAll := func(all bool) func(Kind) builtinImpl {
		return func(k Kind) builtinImpl {
			return func(ev *evaluator, s *builtinSig, a []Value) Value {
				res := all
				var p uint16
				for _, c := range a[0].C {
					if c.P != 0 {
						p = c.P
						continue
					}
					nz := c.B != 0
					if k == KFloat {
						nz = c.F() != 0
					}
					if all {
						res = res && nz
					} else {
						res = res || nz
					}
				}
				// a poisoned component leaves the result undefined unless the
				// other components already decide it
				if p != 0 && res == all {
					return Value{T: tBool, C: []Cell{{P: p}}}
				}
				return boolValue(res)
			}
		}
	}
	t["all"] = &hlslIntr{nargs: 1, base: 'a', ret: 'B', impl: anyAll(true)}
	t["any"] = &hlslIntr{nargs: 1, base: 'a', ret: 'B', impl: anyAll(false)}
	// ---- vector functions ----------------------------------------------------
	t["dot"] = &hlslIntr{nargs: 2, base: 'n', ret: 'S', impl: func(k Kind) builtinImpl {
		return func(ev *evaluator, s *builtinSig, a []Value) Value {
			if k == KFloat {
				return scalarValue(tFloat, ev.dotCells(len(a[0].C), func(i int) (Cell, Cell) { return a[0].C[i], a[1].C[i] }))
			}
			var acc uint32
			for i := range a[0].C {
				if p := firstPoison(a[0].C[i], a[1].C[i]); p != 0 {
					return Value{T: s.ret, C: []Cell{{P: p}}}
				}
				acc += a[0].C[i].B * a[1].C[i].B
			}
			return scalarValue(s.ret, Cell{B: acc})
		}
	}}
	t["length"] = &hlslIntr{nargs: 1, base: 'f', ret: 'S', impl: fOnly(func(ev *evaluator, s *builtinSig, a []Value) Value {
		return scalarValue(tFloat, hlslLength(ev, a[0].C))
	})}
	t["distance"] = &hlslIntr{nargs: 2, base: 'f', ret: 'S', impl: fOnly(func(ev *evaluator, s *builtinSig, a []Value) Value {
		d := make([]Cell, len(a[0].C))
		for i := range d {
			if p := firstPoison(a[0].C[i], a[1].C[i]); p != 0 {
				d[i].P = p
				continue
			}
			d[i] = f32Cell(fsub(a[1].C[i].F(), a[0].C[i].F()))
		}
		return scalarValue(tFloat, hlslLength(ev, d))
	})}
	t["normalize"] = &hlslIntr{nargs: 1, base: 'f', ret: 's', impl: fOnly(func(ev *evaluator, s *builtinSig, a []Value) Value {
		l := hlslLength(ev, a[0].C)
		r := ev.mk(s.ret)
		for i, c := range a[0].C {
			if p := firstPoison(c, l); p != 0 {
				r.C[i].P = p
				continue
			}
			r.C[i] = f32Cell(fdiv(c.F(), l.F()))
		}
		return r
	})}
	t["cross"] = &hlslIntr{special: func(r *hlslRules, c *checker, x *Call) *builtinSig {
		if len(x.Args) != 2 {
			r.badArgs(c, x, "")
		}
		for _, a := range x.Args {
			if !r.implicitConv(a.base().T, vecOf(tFloat, 3)) || a.base().T.IsScalar() {
				r.badArgs(c, x, " (float3 arguments required)")
			}
		}
		v3 := vecOf(tFloat, 3)
		return &builtinSig{params: []*Type{v3, v3}, ret: v3, impl: func(ev *evaluator, s *builtinSig, a []Value) Value {
			r := ev.mk(s.ret)
			x, y := a[0].C, a[1].C
			idx := [3][2]int{{1, 2}, {2, 0}, {0, 1}}
			for i := 0; i < 3; i++ {
				j, k := idx[i][0], idx[i][1]
				if p := firstPoison(x[j], y[k], x[k], y[j]); p != 0 {
					r.C[i].P = p
					continue
				}
				r.C[i] = f32Cell(fsub(fmul(x[j].F(), y[k].F()), fmul(x[k].F(), y[j].F())))
			}
			return r
		}}
	}}
	t["reflect"] = &hlslIntr{nargs: 2, base: 'f', ret: 's', impl: fOnly(func(ev *evaluator, s *builtinSig, a []Value) Value {
		// HLSL reference, reflect: v = i - 2 * n * dot(i, n)
		d := ev.dotCells(len(a[0].C), func(i int) (Cell, Cell) { return a[0].C[i], a[1].C[i] })
		r := ev.mk(s.ret)
		for i := range r.C {
			if p := firstPoison(d, a[0].C[i], a[1].C[i]); p != 0 {
				r.C[i].P = p
				continue
			}
			r.C[i] = f32Cell(fsub(a[0].C[i].F(), fmul(fmul(2, a[1].C[i].F()), d.F())))
		}
		return r
	})}
	t["faceforward"] = &hlslIntr{nargs: 3, base: 'f', ret: 's', impl: fOnly(func(ev *evaluator, s *builtinSig, a []Value) Value {
		// HLSL reference, faceforward: -n * sign(dot(i, ng)); DXC selects
		// (dot < 0) ? n : -n.  The two differ only for dot == 0 (counted).
		d := ev.dotCells(len(a[0].C), func(i int) (Cell, Cell) { return a[1].C[i], a[2].C[i] })
		r := ev.mk(s.ret)
		if d.P == 0 && d.F() == 0 {
			ev.info("hlsl.faceforward.zero-dot")
		}
		for i := range r.C {
			if p := firstPoison(d, a[0].C[i]); p != 0 {
				r.C[i].P = p
				continue
			}
			if d.F() < 0 {
				r.C[i] = a[0].C[i]
			} else {
				r.C[i] = Cell{B: a[0].C[i].B ^ 0x80000000}
			}
		}
		return r
	})}
	t["refract"] = &hlslIntr{special: func(r *hlslRules, c *checker, x *Call) *builtinSig {
		if len(x.Args) != 3 {
			r.badArgs(c, x, "")
		}
		pt := r.unify(c, x, x.Args[:2], 'f')
		if !x.Args[2].base().T.IsScalar() {
			r.badArgs(c, x, " (scalar refraction index required)")
		}
		return &builtinSig{params: []*Type{pt, pt, tFloat}, ret: pt, impl: func(ev *evaluator, s *builtinSig, a []Value) Value {
			d := ev.dotCells(len(a[0].C), func(i int) (Cell, Cell) { return a[1].C[i], a[0].C[i] })
			r := ev.mk(s.ret)
			eta := a[2].C[0]
			if p := firstPoison(d, eta); p != 0 {
				for i := range r.C {
					r.C[i].P = p
				}
				return r
			}
			e := eta.F()
			k := fsub(1, fmul(fmul(e, e), fsub(1, fmul(d.F(), d.F()))))
			for i := range r.C {
				if p := firstPoison(a[0].C[i], a[1].C[i]); p != 0 {
					r.C[i].P = p
					continue
				}
				if k < 0 {
					r.C[i] = f32Cell(0)
					continue
				}
				sq := float32(math.Sqrt(float64(k)))
				r.C[i] = f32Cell(fsub(fmul(e, a[0].C[i].F()), fmul(fadd(fmul(e, d.F()), sq), a[1].C[i].F())))
			}
			return r
		}}
	}}
	// ---- out-parameter functions ------------------------------------------------
	t["modf"] = &hlslIntr{special: func(r *hlslRules, c *checker, x *Call) *builtinSig {
		if len(x.Args) != 2 {
			r.badArgs(c, x, "")
		}
		pt := r.unify(c, x, x.Args[:1], 'f')
		return &builtinSig{params: []*Type{pt, pt}, out: []bool{false, true}, ret: pt, impl: func(ev *evaluator, s *builtinSig, a []Value) Value {
			// HLSL reference, modf: "splits the value x into fractional and
			// integer parts, each of which has the same sign as x"
			r, w := ev.mk(s.ret), ev.mk(s.params[1])
			for i, c := range a[0].C {
				if c.P != 0 {
					r.C[i].P, w.C[i].P = c.P, c.P
					continue
				}
				xv := c.F()
				ip := float32(math.Trunc(float64(xv)))
				fr := fsub(xv, ip)
				if isInf32(xv) {
					fr = float32(math.Copysign(0, float64(xv)))
				}
				w.C[i], r.C[i] = f32Cell(ip), f32Cell(fr)
			}
			a[1] = w
			return r
		}}
	}}
	t["frexp"] = &hlslIntr{special: func(r *hlslRules, c *checker, x *Call) *builtinSig {
		if len(x.Args) != 2 {
			r.badArgs(c, x, "")
		}
		pt := r.unify(c, x, x.Args[:1], 'f')
		return &builtinSig{params: []*Type{pt, pt}, out: []bool{false, true}, ret: pt, impl: func(ev *evaluator, s *builtinSig, a []Value) Value {
			// HLSL reference, frexp: mantissa in [0.5, 1) and exponent, both 0
			// for x = 0.  FXC and DXC (HLOperationLower, TranslateFrexp) build
			// the mantissa from the fraction bits only, i.e. without the sign;
			// infinities, NaN and subnormals are not handled by that lowering.
			r, w := ev.mk(s.ret), ev.mk(s.params[1])
			for i, c := range a[0].C {
				if c.P != 0 {
					r.C[i].P, w.C[i].P = c.P, c.P
					continue
				}
				xv := c.F()
				switch {
				case xv == 0:
					r.C[i], w.C[i] = f32Cell(0), f32Cell(0)
				case isNaN32(xv) || isInf32(xv) || c.B&0x7f800000 == 0:
					p := ev.poison("frexp of an infinity, NaN or subnormal value is not defined by the HLSL reference (compilers derive mantissa and exponent from the bit fields)")
					r.C[i].P, w.C[i].P = p, p
				default:
					m, e := math.Frexp(math.Abs(float64(xv)))
					r.C[i], w.C[i] = f32Cell(float32(m)), f32Cell(float32(e))
				}
			}
			a[1] = w
			return r
		}}
	}}
	t["sincos"] = &hlslIntr{special: func(r *hlslRules, c *checker, x *Call) *builtinSig {
		if len(x.Args) != 3 {
			r.badArgs(c, x, "")
		}
		pt := r.unify(c, x, x.Args[:1], 'f')
		return &builtinSig{params: []*Type{pt, pt, pt}, out: []bool{false, true, true}, ret: tVoid, impl: func(ev *evaluator, s *builtinSig, a []Value) Value {
			sn, cs := ev.mk(s.params[1]), ev.mk(s.params[2])
			for i, c := range a[0].C {
				if c.P != 0 {
					sn.C[i].P, cs.C[i].P = c.P, c.P
					continue
				}
				sn.C[i] = f32Cell(f64to32(math.Sin(float64(c.F()))))
				cs.C[i] = f32Cell(f64to32(math.Cos(float64(c.F()))))
			}
			a[1], a[2] = sn, cs
			return Value{T: tVoid}
		}}
	}}
	// ---- matrices -----------------------------------------------------------------
	t["mul"] = &hlslIntr{special: hlslMulSig}
	t["transpose"] = &hlslIntr{special: func(r *hlslRules, c *checker, x *Call) *builtinSig {
		if len(x.Args) != 1 || x.Args[0].base().T.Kind != KMat {
			r.badArgs(c, x, " (matrix argument required)")
		}
		mt := x.Args[0].base().T
		hr, hc := hlslDims(mt)
		rt := hlslShape(mt.Base(), hc, hr)
		return &builtinSig{params: []*Type{mt}, ret: rt, impl: func(ev *evaluator, s *builtinSig, a []Value) Value {
			r := ev.mk(s.ret)
			for i := 0; i < hr; i++ {
				for j := 0; j < hc; j++ {
					r.C[j*hr+i] = a[0].C[i*hc+j]
				}
			}
			return r
		}}
	}}
	t["determinant"] = &hlslIntr{special: func(r *hlslRules, c *checker, x *Call) *builtinSig {
		if len(x.Args) != 1 || x.Args[0].base().T.Kind != KMat || x.Args[0].base().T.Cols != x.Args[0].base().T.Rows {
			r.badArgs(c, x, " (square matrix argument required)")
		}
		mt := x.Args[0].base().T
		if mt.Base() != KFloat {
			c.unsupported(x.Pos, "determinant of a non-float matrix")
		}
		n := mt.Cols
		return &builtinSig{params: []*Type{mt}, ret: tFloat, impl: func(ev *evaluator, s *builtinSig, a []Value) Value {
			if p := a[0].anyPoison(); p != 0 {
				return Value{T: tFloat, C: []Cell{{P: p}}}
			}
			m := make([]float32, n*n)
			for i := range m {
				m[i] = a[0].C[i].F()
			}
			return floatValue(hlslDet(m, n))
		}}
	}}
	// ---- HLSL 2021 helpers (harmless in older versions: not declared there) -------
	// ---- barriers ---------------------------------------------------------------------
	nop := func(r *hlslRules, c *checker, x *Call) *builtinSig {
		if len(x.Args) != 0 {
			r.badArgs(c, x, "")
		}
		return &builtinSig{ret: tVoid, impl: func(ev *evaluator, s *builtinSig, a []Value) Value { return Value{T: tVoid} }}
	}
	for _, n := range []string{"GroupMemoryBarrierWithGroupSync", "DeviceMemoryBarrierWithGroupSync", "AllMemoryBarrierWithGroupSync"} {
		t[n] = &hlslIntr{special: nop, barrier: true}
	}
	for _, n := range []string{"GroupMemoryBarrier", "DeviceMemoryBarrier", "AllMemoryBarrier"} {
		// memory fences without execution synchronisation: invocations of this
		// interpreter are sequentially consistent, nothing to do
		t[n] = &hlslIntr{special: nop, impure: true}
	}
	// ---- atomics on groupshared variables --------------------------------------------
	for _, op := range []string{"Add", "And", "Or", "Xor", "Min", "Max", "Exchange", "CompareExchange", "CompareStore"} {
		op := op
		t["Interlocked"+op] = &hlslIntr{impure: true, special: func(r *hlslRules, c *checker, x *Call) *builtinSig {
			return r.interlockedSig(c, x, op)
		}}
	}
	return t
}

func hlslLength(ev *evaluator, cs []Cell) Cell {
	d := ev.dotCells(len(cs), func(i int) (Cell, Cell) { return cs[i], cs[i] })
	if d.P != 0 {
		return d
	}
	return f32Cell(float32(math.Sqrt(float64(d.F()))))
}

// hlslDet: cofactor expansion along the first row, binary32 arithmetic.
func hlslDet(m []float32, n int) float32 {
	if n == 2 {
		return fsub(fmul(m[0], m[3]), fmul(m[1], m[2]))
	}
	var acc float32
	for col := 0; col < n; col++ {
		sub := make([]float32, 0, (n-1)*(n-1))
		for i := 1; i < n; i++ {
			for j := 0; j < n; j++ {
				if j != col {
					sub = append(sub, m[i*n+j])
				}
			}
		}
		term := fmul(m[col], hlslDet(sub, n-1))
		if col%2 == 1 {
			term = -term
		}
		if col == 0 {
			acc = term
		} else {
			acc = fadd(acc, term)
		}
	}
	return acc
}

// hlslMulSig types mul(a, b) with HLSL's meaning (HLSL reference, mul): a
// vector on the left is a ROW vector, a vector on the right a COLUMN vector;
// floatRxC has R rows and C columns.
func hlslMulSig(r *hlslRules, c *checker, x *Call) *builtinSig {
	if len(x.Args) != 2 {
		r.badArgs(c, x, "")
	}
	at, bt := x.Args[0].base().T, x.Args[1].base().T
	if !hlslIsNumeric(at) || !hlslIsNumeric(bt) {
		r.badArgs(c, x, "")
	}
	k := hlslArithBase(at.Base(), bt.Base())
	if k == KDouble {
		c.unsupported(x.Pos, "mul on double")
	}
	ar, ac := hlslDims(at)
	br, bc := hlslDims(bt)
	mk := func(rows, cols int) *Type {
		t := hlslShape(k, rows, cols)
		if t == nil {
			c.unsupported(x.Pos, "mul on an integer matrix")
		}
		return t
	}
	switch {
	case at.IsScalar() || bt.IsScalar():
		// component-wise product
		rows, cols := ar, ac
		if at.IsScalar() {
			rows, cols = br, bc
		}
		rt := mk(rows, cols)
		return &builtinSig{params: []*Type{mk(ar, ac), mk(br, bc)}, ret: rt, impl: func(ev *evaluator, s *builtinSig, a []Value) Value {
			return hlslBinary(ev, "*", a[0], a[1], s.ret, Pos{})
		}}
	case at.Kind == KVec && bt.Kind == KVec:
		n := ac
		if bc < n {
			n = bc
		}
		pt := mk(1, n)
		return &builtinSig{params: []*Type{pt, pt}, ret: pt.Scalar(), impl: hlslIntrinsics()["dot"].impl(k)}
	case at.Kind == KVec && bt.Kind == KMat:
		// row vector (1 x R) times R x C -> 1 x C
		if ac != br {
			r.badArgs(c, x, " (the vector size must equal the number of matrix rows)")
		}
		return &builtinSig{params: []*Type{mk(1, ac), mk(br, bc)}, ret: mk(1, bc), impl: func(ev *evaluator, s *builtinSig, a []Value) Value {
			res := ev.mk(s.ret)
			for j := 0; j < bc; j++ {
				res.C[j] = ev.dotCells(br, func(i int) (Cell, Cell) { return a[0].C[i], a[1].C[i*bc+j] })
			}
			return res
		}}
	case at.Kind == KMat && bt.Kind == KVec:
		// R x C times column vector (C x 1) -> R
		if ac != bc {
			r.badArgs(c, x, " (the vector size must equal the number of matrix columns)")
		}
		return &builtinSig{params: []*Type{mk(ar, ac), mk(1, bc)}, ret: mk(1, ar), impl: func(ev *evaluator, s *builtinSig, a []Value) Value {
			res := ev.mk(s.ret)
			for i := 0; i < ar; i++ {
				res.C[i] = ev.dotCells(ac, func(j int) (Cell, Cell) { return a[0].C[i*ac+j], a[1].C[j] })
			}
			return res
		}}
	}
	// R x K times K x C -> R x C
	if ac != br {
		r.badArgs(c, x, " (columns of the first matrix must equal rows of the second)")
	}
	return &builtinSig{params: []*Type{mk(ar, ac), mk(br, bc)}, ret: mk(ar, bc), impl: func(ev *evaluator, s *builtinSig, a []Value) Value {
		res := ev.mk(s.ret)
		for i := 0; i < ar; i++ {
			for j := 0; j < bc; j++ {
				res.C[i*bc+j] = ev.dotCells(ac, func(kk int) (Cell, Cell) { return a[0].C[i*ac+kk], a[1].C[kk*bc+j] })
			}
		}
		return res
	}}
}

// ---------------------------------------------------------------------------
// atomics
// ---------------------------------------------------------------------------

// hlslAtomicOp computes the new memory value of an Interlocked operation.
func hlslAtomicOp(op string, signed bool, old, v, cmp uint32) uint32 {
	switch op {
	case "Add":
		return old + v
	case "And":
		return old & v
	case "Or":
		return old | v
	case "Xor":
		return old ^ v
	case "Min":
		if signed {
			if int32(v) < int32(old) {
				return v
			}
			return old
		}
		if v < old {
			return v
		}
		return old
	case "Max":
		if signed {
			if int32(v) > int32(old) {
				return v
			}
			return old
		}
		if v > old {
			return v
		}
		return old
	case "Exchange":
		return v
	case "CompareExchange", "CompareStore":
		if old == cmp {
			return v
		}
		return old
	}
	return old
}

// interlockedSig: InterlockedOp(dest, value[, out original]) on a groupshared
// int / uint (HLSL reference, InterlockedAdd ...: "dest ... a shared memory
// variable or a resource variable").  Signedness of Min / Max is that of dest.
func (r *hlslRules) interlockedSig(c *checker, x *Call, op string) *builtinSig {
	want := []int{2, 3}
	switch op {
	case "CompareExchange":
		want = []int{4}
	case "CompareStore":
		want = []int{3}
	}
	ok := false
	for _, n := range want {
		ok = ok || len(x.Args) == n
	}
	if !ok {
		r.badArgs(c, x, "")
	}
	dt := x.Args[0].base().T
	if dt != tInt && dt != tUint {
		if dt.Kind == KOpaque {
			c.unsupported(x.Pos, "Interlocked%s on %s", op, hlslTypeName(dt))
		}
		r.badArgs(c, x, " (the destination must be an int or uint)")
	}
	// the destination must live in groupshared memory
	for e := x.Args[0]; ; {
		switch m := e.(type) {
		case *Member:
			if m.Swz != nil && len(m.Swz) > 1 {
				c.invalid(m.Pos, "type", "Interlocked%s on a multi-component swizzle", op)
			}
			e = m.X
			continue
		case *Index:
			e = m.X
			continue
		}
		break
	}
	if s, _ := rootSymbol(x.Args[0]); s == nil || s.Kind != SymGlobal || s.Global.Storage != "shared" {
		// FXC error X3669 / DXC: interlocked targets must be groupshared or UAV
		c.invalid(x.Args[0].base().Pos, "type", "Interlocked%s needs a groupshared variable (or UAV element) as its destination", op)
	}
	for _, a := range x.Args[1:] {
		if at := a.base().T; (at == tInt || at == tUint) && at != dt && (op == "Min" || op == "Max") {
			c.prog.hl.warnings = append(c.prog.hl.warnings, "Interlocked"+op+" mixes int and uint operands at "+x.Pos.String())
		}
	}
	s := &builtinSig{ret: tVoid}
	n := len(x.Args)
	s.params = make([]*Type, n)
	s.lvalue = make([]bool, n)
	s.out = make([]bool, n)
	for i := range s.params {
		s.params[i] = dt
	}
	s.lvalue[0] = true
	hasOrig := (op == "CompareExchange") || (op != "CompareStore" && n == 3)
	if hasOrig {
		s.out[n-1] = true
	} else {
		s.out = nil
	}
	signed := dt == tInt
	s.impl = func(ev *evaluator, sg *builtinSig, a []Value) Value {
		old := a[0].C[0]
		var v, cmp Cell
		if op == "CompareExchange" || op == "CompareStore" {
			cmp, v = a[1].C[0], a[2].C[0]
		} else {
			v = a[1].C[0]
		}
		nv := Cell{B: hlslAtomicOp(op, signed, old.B, v.B, cmp.B)}
		if p := firstPoison(old, v, cmp); p != 0 {
			nv = Cell{P: p}
		}
		a[0] = Value{T: dt, C: []Cell{nv}}
		if hasOrig {
			a[n-1] = Value{T: dt, C: []Cell{old}}
		}
		return Value{T: tVoid}
	}
	return s
}

// ---------------------------------------------------------------------------
// (RW)ByteAddressBuffer methods
// ---------------------------------------------------------------------------

// Out-of-range accesses: Direct3D 11.3 functional spec §5.3.10 / §7.13 (raw
// buffer addressing): reads of out-of-bounds addresses return 0 for the
// out-of-bounds components, writes are dropped ("robust buffer access").  The
// interpreter does exactly that and counts Info["hlsl.oob.load"/"hlsl.oob.store"].
// Addresses must be multiples of 4 ("the address must be a multiple of 4",
// HLSL reference, ByteAddressBuffer::Load): a misaligned load yields an
// undefined value, a misaligned store traps.

func (ev *evaluator) hlslBuf(m *Method) *boundBuf {
	recv := ev.eval(m.X)
	idx := recv.C[0].B
	switch idx {
	case 0xffffffff:
		ev.trap("unsupported: method %s on an object type that is not modelled", m.Name)
	case 0xfffffffe:
		ev.trap("unsupported: resource arrays (binding arrays)")
	}
	if int(idx) >= len(ev.sh.bufs) {
		ev.trap("internal: bad resource handle %d", idx)
	}
	bb := ev.sh.bufs[idx]
	if !bb.bound {
		ev.trap("access to resource %s which has no buffer bound", bb.blk.Name)
	}
	return bb
}

func (ev *evaluator) hlslAddr(e Expr, what string) uint32 {
	v := ev.eval(e)
	if v.C[0].P != 0 {
		ev.observe(v.C[0].P, "undefined value used as "+what, e.base().Pos)
	}
	return v.C[0].B
}

func (r *hlslRules) checkMethod(c *checker, m *Method) {
	xt := m.X.base().T
	if xt != tHLSLByteBuf && xt != tHLSLRWByteBuf {
		if xt.Kind == KOpaque {
			c.unsupported(m.Pos, "method %s of %s", m.Name, hlslTypeName(xt))
		}
		c.invalid(m.Pos, "type", "%s has no methods (.%s)", hlslTypeName(xt), m.Name)
	}
	rw := xt == tHLSLRWByteBuf
	needRW := func() {
		if !rw {
			c.invalid(m.Pos, "undeclared", "ByteAddressBuffer has no method %s (read-only resource)", m.Name)
		}
	}
	nargs := func(ns ...int) {
		for _, n := range ns {
			if len(m.Args) == n {
				return
			}
		}
		c.invalid(m.Pos, "no-overload", "%s.%s: wrong number of arguments (%d)", hlslTypeName(xt), m.Name, len(m.Args))
	}
	conv := func(i int, t *Type) {
		e := c.convertTo(m.Args[i], t)
		if e == nil {
			c.invalid(m.Args[i].base().Pos, "type", "%s.%s: argument %d: cannot convert %s to %s", hlslTypeName(xt), m.Name, i+1, hlslTypeName(m.Args[i].base().T), hlslTypeName(t))
		}
		m.Args[i] = e
	}
	outArg := func(i int, from *Type) {
		c.requireWritable(m.Args[i], "out argument of "+m.Name)
		if !r.implicitConv(from, m.Args[i].base().T) {
			c.invalid(m.Args[i].base().Pos, "type", "%s.%s: cannot store %s into %s", hlslTypeName(xt), m.Name, hlslTypeName(from), hlslTypeName(m.Args[i].base().T))
		}
	}
	width := func(name, prefix string) int {
		switch strings.TrimPrefix(name, prefix) {
		case "":
			return 1
		case "2":
			return 2
		case "3":
			return 3
		case "4":
			return 4
		}
		return 0
	}
	switch {
	case strings.HasPrefix(m.Name, "Load") && width(m.Name, "Load") > 0:
		n := width(m.Name, "Load")
		if len(m.Args) == 2 {
			c.unsupported(m.Pos, "Load with a tiled-resource status argument")
		}
		nargs(1)
		conv(0, tUint)
		m.T = vecOf(tUint, n)
		m.Impl = func(ev *evaluator, m *Method) Value {
			bb := ev.hlslBuf(m)
			addr := ev.hlslAddr(m.Args[0], "a buffer address")
			v := ev.mk(m.T)
			for i := 0; i < n; i++ {
				v.C[i] = ev.hlslRawLoad(bb, uint64(addr)+uint64(4*i))
			}
			return v
		}
	case strings.HasPrefix(m.Name, "Store") && width(m.Name, "Store") > 0:
		needRW()
		n := width(m.Name, "Store")
		nargs(2)
		conv(0, tUint)
		conv(1, vecOf(tUint, n))
		m.T = tVoid
		m.Impl = func(ev *evaluator, m *Method) Value {
			bb := ev.hlslBuf(m)
			addr := ev.hlslAddr(m.Args[0], "a buffer address")
			v := ev.eval(m.Args[1])
			for i := 0; i < n; i++ {
				ev.hlslRawStore(bb, uint64(addr)+uint64(4*i), v.C[i], m.Pos)
			}
			return Value{T: tVoid}
		}
	case m.Name == "GetDimensions":
		nargs(1)
		outArg(0, tUint)
		m.T = tVoid
		m.Impl = func(ev *evaluator, m *Method) Value {
			bb := ev.hlslBuf(m)
			ref := ev.evalRef(m.Args[0])
			ev.store(ref, ev.hlslConvertValue(uintValue(uint32(len(bb.data))), ref.T), m.Pos)
			return Value{T: tVoid}
		}
	case strings.HasPrefix(m.Name, "Interlocked"):
		needRW()
		op := strings.TrimPrefix(m.Name, "Interlocked")
		switch op {
		case "Add", "And", "Or", "Xor", "Min", "Max", "Exchange":
			nargs(2, 3)
		case "CompareExchange":
			nargs(4)
		case "CompareStore":
			nargs(3)
		default:
			if strings.HasSuffix(op, "64") || strings.Contains(op, "Float") {
				c.unsupported(m.Pos, "method %s", m.Name)
			}
			c.invalid(m.Pos, "undeclared", "RWByteAddressBuffer has no method %s", m.Name)
		}
		conv(0, tUint)
		// the value argument keeps its own integer type: it selects the signed
		// or unsigned form of Min / Max
		vt := m.Args[1].base().T
		if vt != tInt && vt != tUint {
			vt = tUint
			if m.Args[1].base().T.Base() == KInt {
				vt = tInt
			}
		}
		nvals := 1
		if op == "CompareExchange" || op == "CompareStore" {
			nvals = 2
		}
		for i := 1; i <= nvals; i++ {
			conv(i, vt)
		}
		hasOrig := len(m.Args) == nvals+2
		if hasOrig {
			outArg(nvals+1, vt)
		}
		signed := vt == tInt
		m.T = tVoid
		m.Impl = func(ev *evaluator, m *Method) Value {
			bb := ev.hlslBuf(m)
			addr := uint64(ev.hlslAddr(m.Args[0], "a buffer address"))
			var v, cmp Cell
			if nvals == 2 {
				cmp, v = ev.eval(m.Args[1]).C[0], ev.eval(m.Args[2]).C[0]
			} else {
				v = ev.eval(m.Args[1]).C[0]
			}
			var ref Ref
			if hasOrig {
				ref = ev.evalRef(m.Args[nvals+1])
			}
			if addr%4 != 0 {
				ev.trap("Interlocked%s at misaligned byte address %d of %s", op, addr, bb.blk.Name)
			}
			var orig Cell
			if addr+4 > uint64(len(bb.data)) {
				// out of range: nothing is written; the returned value is undefined
				ev.info("hlsl.oob.atomic")
				orig = Cell{P: ev.poison("original value returned by an Interlocked operation outside the buffer is undefined (D3D11.3 functional spec, out-of-bounds UAV atomics)")}
			} else {
				ev.sh.accesses++
				old := binary.LittleEndian.Uint32(bb.data[addr:])
				orig = Cell{B: old}
				if p := firstPoison(v, cmp); p != 0 {
					ev.observe(p, "undefined value used by "+m.Name+" on "+bb.blk.Name, m.Pos)
				}
				binary.LittleEndian.PutUint32(bb.data[addr:], hlslAtomicOp(op, signed, old, v.B, cmp.B))
			}
			if hasOrig {
				ev.store(ref, ev.hlslConvertValue(Value{T: vt, C: []Cell{orig}}, ref.T), m.Pos)
			}
			return Value{T: tVoid}
		}
	default:
		if strings.HasPrefix(m.Name, "Load") || strings.HasPrefix(m.Name, "Store") {
			c.unsupported(m.Pos, "method %s (templated / 64-bit byte-address access)", m.Name)
		}
		c.invalid(m.Pos, "undeclared", "%s has no method %s", hlslTypeName(xt), m.Name)
	}
}

func (ev *evaluator) hlslRawLoad(bb *boundBuf, addr uint64) Cell {
	if addr%4 != 0 {
		return Cell{P: ev.poison("byte-address Load at an address that is not a multiple of 4 (HLSL reference, ByteAddressBuffer::Load)")}
	}
	if addr+4 > uint64(len(bb.data)) {
		ev.info("hlsl.oob.load")
		return Cell{}
	}
	ev.sh.accesses++
	return Cell{B: binary.LittleEndian.Uint32(bb.data[addr:])}
}

func (ev *evaluator) hlslRawStore(bb *boundBuf, addr uint64, c Cell, pos Pos) {
	if addr%4 != 0 {
		ev.trap("byte-address Store at address %d of %s which is not a multiple of 4", addr, bb.blk.Name)
	}
	if addr+4 > uint64(len(bb.data)) {
		ev.info("hlsl.oob.store")
		return
	}
	ev.sh.accesses++
	if c.P != 0 {
		ev.observe(c.P, "undefined value stored to buffer "+bb.blk.Name, pos)
	}
	binary.LittleEndian.PutUint32(bb.data[addr:], c.B)
}
