package ctext

import (
	"errors"
	"fmt"
	"os"
	"path/filepath"
	"sort"
	"strings"
	"testing"

	"github.com/gogpu/naga"
	"github.com/gogpu/naga/glsl"
	"github.com/gogpu/naga/ir"
)

// knownNagaInvalid lists corpus outputs whose InvalidError has been triaged
// as a defect of naga's GLSL writer (see README / session report), keyed by
// "file:entry:version" prefix matching on the error text class.  Every other
// InvalidError fails the test.
type corpusResult struct {
	file, entry, version string
	err                  error
}

func compileGLSL(src string, ver glsl.Version, entry string, bm map[glsl.BindingMapKey]uint8) (string, glsl.TranslationInfo, *ir.Module, error) {
	ast, err := naga.Parse(src)
	if err != nil {
		return "", glsl.TranslationInfo{}, nil, fmt.Errorf("parse: %w", err)
	}
	m, err := naga.LowerWithSource(ast, src)
	if err != nil {
		return "", glsl.TranslationInfo{}, nil, fmt.Errorf("lower: %w", err)
	}
	txt, info, err := glsl.Compile(m, glsl.Options{LangVersion: ver, EntryPoint: entry, BindingMap: bm})
	if err != nil {
		return "", info, m, fmt.Errorf("glsl: %w", err)
	}
	return txt, info, m, nil
}

var corpusVersions = []glsl.Version{
	{Major: 4, Minor: 30}, {Major: 4, Minor: 50}, {Major: 4, Minor: 60},
	{Major: 3, Minor: 10, ES: true}, {Major: 3, Minor: 20, ES: true},
}

// TestCorpusParses compiles every compute entry point of the naga snapshot
// corpus to GLSL and requires that the text parses as GLSL.  Statistics are
// printed with -v.  InvalidErrors are compared against the triaged list.
func TestCorpusParses(t *testing.T) {
	files, _ := filepath.Glob("/repo/snapshot/testdata/in/*.wgsl")
	if len(files) == 0 {
		t.Skip("corpus not found")
	}
	sort.Strings(files)
	var results []corpusResult
	runStats := map[string]int{}
	skippedFront, skippedBackend, total := 0, 0, 0
	for _, f := range files {
		b, err := os.ReadFile(f)
		if err != nil {
			t.Fatal(err)
		}
		src := string(b)
		var m *ir.Module
		func() {
			defer func() {
				if r := recover(); r != nil {
					m = nil
				}
			}()
			ast, err := naga.Parse(src)
			if err != nil {
				return
			}
			m, err = naga.LowerWithSource(ast, src)
			if err != nil {
				m = nil
			}
		}()
		if m == nil {
			skippedFront++
			continue
		}
		for _, ep := range m.EntryPoints {
			if ep.Stage != ir.StageCompute {
				continue
			}
			for _, v := range corpusVersions {
				var txt string
				var cerr error
				func() {
					defer func() {
						if r := recover(); r != nil {
							cerr = fmt.Errorf("panic: %v", r)
						}
					}()
					txt, _, cerr = glsl.Compile(m, glsl.Options{LangVersion: v, EntryPoint: ep.Name})
				}()
				if cerr != nil {
					skippedBackend++
					continue
				}
				total++
				prog, perr := Parse(GLSL, txt)
				results = append(results, corpusResult{filepath.Base(f), ep.Name, v.String(), perr})
				if prog != nil {
					// smoke run over zero-filled buffers: must never panic
					cfg := RunConfig{NumWorkgroups: [3]uint32{1, 1, 1}, StepLimit: 300000, BlockByName: map[string][]byte{}}
					for _, b := range prog.Blocks() {
						cfg.BlockByName[b.Name] = make([]byte, 1024)
					}
					res, rerr := prog.Run(cfg)
					switch {
					case rerr != nil:
						runStats["error: "+firstWords(rerr.Error(), 4)]++
					case res.Trap != "":
						runStats["trap: "+firstWords(res.Trap, 4)]++
					case len(res.Poison) > 0:
						runStats["poison"]++
					default:
						runStats["clean"]++
					}
				}
			}
		}
	}
	ok, unsup, invalid := 0, 0, 0
	unsupWhat := map[string]int{}
	invalidByMsg := map[string][]string{}
	for _, r := range results {
		var ie *InvalidError
		var ue *UnsupportedError
		switch {
		case r.err == nil:
			ok++
		case errors.As(r.err, &ue):
			unsup++
			unsupWhat[ue.What]++
		case errors.As(r.err, &ie):
			invalid++
			key := ie.Code + ": " + ie.Msg
			invalidByMsg[key] = append(invalidByMsg[key], r.file+":"+r.entry+":"+r.version)
		default:
			t.Errorf("%s %s %s: unexpected error type %v", r.file, r.entry, r.version, r.err)
		}
	}
	t.Logf("corpus: %d files, %d skipped by naga front end, %d (entry,version) rejected by the GLSL backend", len(files), skippedFront, skippedBackend)
	t.Logf("parsed %d texts: ok %d, unsupported %d, invalid %d", total, ok, unsup, invalid)
	for _, k := range sortedKeys(unsupWhat) {
		t.Logf("  unsupported x%d: %s", unsupWhat[k], k)
	}
	for _, k := range sortedKeys(runStats) {
		t.Logf("  smoke run x%d: %s", runStats[k], k)
	}
	untriaged := 0
	for _, k := range sortedKeys(invalidByMsg) {
		where := invalidByMsg[k]
		known := false
		for _, pat := range triagedNagaDefects {
			if strings.Contains(k, pat) {
				known = true
			}
		}
		tag := "UNTRIAGED"
		if known {
			tag = "naga defect"
		} else {
			untriaged += len(where)
		}
		t.Logf("  invalid [%s] x%d: %s   e.g. %s", tag, len(where), k, where[0])
	}
	if untriaged > 0 {
		t.Errorf("%d corpus texts fail to parse with an untriaged InvalidError", untriaged)
	}
	if total > 0 && unsup*5 > total {
		t.Errorf("more than 20%% of the corpus is unsupported (%d of %d)", unsup, total)
	}
}

func firstWords(s string, n int) string {
	f := strings.Fields(s)
	if len(f) > n {
		f = f[:n]
	}
	return strings.Join(f, " ")
}

// triagedNagaDefects: substrings of InvalidError messages on corpus outputs
// that were examined by hand and are defects of the generated GLSL (the text
// is not valid GLSL of the declared version).  See the session report.
var triagedNagaDefects = []string{
	// i64 / u64 / f16 types and literals are emitted without any #extension line
	"requires an extension that the text does not enable",
	// f64.wgsl at ES 3.10 / 3.20: ESSL has no double type
	`expected a type, found keyword "double"`,
	// abstract-float operand of "matrix * scalar" is written as a double literal 2.0LF
	"of type mat2x2 with a value of type dmat2x2",
	`double literal "2.0LF" needs GLSL 4.00`,
	// atomic<f32> is declared as uint and assigned float values
	"cannot assign float to uint",
}
