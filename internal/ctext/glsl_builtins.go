package ctext

import (
	"fmt"
	"math"
	"strings"
	"sync"
)

// builtinSig is one concrete overload of an intrinsic function.
type builtinSig struct {
	name    string
	params  []*Type
	out     []bool // out parameters (value produced by the intrinsic)
	lvalue  []bool // memory (inout) parameters of atomic functions
	ret     *Type
	impl    builtinImpl
	pure    bool // may appear in constant expressions
	barrier bool // control barrier: suspends the invocation
	minDesk int  // first desktop GLSL version that has it
	minES   int  // first ESSL version that has it (0 = never)
}

// builtinImpl computes an intrinsic.  a holds the argument values (for out
// parameters the slot is empty on entry and must be filled; for memory
// parameters it holds the current memory value on entry and the new one on
// exit).
type builtinImpl func(ev *evaluator, s *builtinSig, a []Value) Value

// cellFn computes one component from one component of each argument.
type cellFn func(ev *evaluator, in []Cell) (Cell, string)

// cw lifts a cellFn component-wise with scalar broadcast and poison
// propagation.
func cw(f cellFn) builtinImpl {
	return func(ev *evaluator, s *builtinSig, a []Value) Value {
		r := mkValue(s.ret)
		in := make([]Cell, len(a))
		for i := range r.C {
			var p uint16
			for k := range a {
				j := i
				if len(a[k].C) == 1 {
					j = 0
				}
				in[k] = a[k].C[j]
				if in[k].P != 0 && p == 0 {
					p = in[k].P
				}
			}
			if p != 0 {
				r.C[i].P = p
				continue
			}
			c, why := f(ev, in)
			if why != "" {
				c.P = ev.poison(why)
			}
			r.C[i] = c
		}
		return r
	}
}

// m1 lifts a float64 function (result rounded once to binary32).
func m1(f func(float64) float64) builtinImpl {
	return cw(func(ev *evaluator, in []Cell) (Cell, string) {
		return f32Cell(f64to32(f(float64(in[0].F())))), ""
	})
}

// m1d is m1 with a domain predicate: outside the domain the GLSL result is
// undefined.
func m1d(f func(float64) float64, ok func(x float32) bool, why string) builtinImpl {
	return cw(func(ev *evaluator, in []Cell) (Cell, string) {
		x := in[0].F()
		if !ok(x) {
			return Cell{}, why
		}
		return f32Cell(f64to32(f(float64(x)))), ""
	})
}

func ff1(f func(float32) (float32, string)) builtinImpl {
	return cw(func(ev *evaluator, in []Cell) (Cell, string) {
		v, why := f(in[0].F())
		return f32Cell(v), why
	})
}
func ff2(f func(a, b float32) (float32, string)) builtinImpl {
	return cw(func(ev *evaluator, in []Cell) (Cell, string) {
		v, why := f(in[0].F(), in[1].F())
		return f32Cell(v), why
	})
}
func ff3(f func(a, b, c float32) (float32, string)) builtinImpl {
	return cw(func(ev *evaluator, in []Cell) (Cell, string) {
		v, why := f(in[0].F(), in[1].F(), in[2].F())
		return f32Cell(v), why
	})
}
func ii2(f func(a, b int32) (int32, string)) builtinImpl {
	return cw(func(ev *evaluator, in []Cell) (Cell, string) {
		v, why := f(in[0].I(), in[1].I())
		return i32Cell(v), why
	})
}
func uu2(f func(a, b uint32) (uint32, string)) builtinImpl {
	return cw(func(ev *evaluator, in []Cell) (Cell, string) {
		v, why := f(in[0].U(), in[1].U())
		return u32Cell(v), why
	})
}

func floor32(x float32) float32 { return float32(math.Floor(float64(x))) }

const (
	whyNaN = "NaN operand: which operand min/max/clamp/step return for NaN is unspecified (GLSL 4.60 §8.3, §4.7.1)"
)

func fmin(a, b float32) (float32, string) {
	if isNaN32(a) || isNaN32(b) {
		return 0, whyNaN
	}
	// GLSL 4.60 §8.3: min(x,y) = y if y < x, otherwise x
	if b < a {
		return b, ""
	}
	return a, ""
}
func fmax(a, b float32) (float32, string) {
	if isNaN32(a) || isNaN32(b) {
		return 0, whyNaN
	}
	// max(x,y) = y if x < y, otherwise x
	if a < b {
		return b, ""
	}
	return a, ""
}

const whyClamp = "clamp with minVal > maxVal is undefined (GLSL 4.60 §8.3)"

// ---------------------------------------------------------------------------
// signature mini-language
// ---------------------------------------------------------------------------

// Tokens: F I U B = genFType/genIType/genUType/genBType (size N = 1..4);
// V IV UV BV = vector-only (N = 2..4); f i u b = scalars; v2..v4, iv2.., uv2..,
// bv2.. = fixed vectors; mCR = matCxR; void.  Prefix "out " / "inout ".
func sigType(tok string, n int) *Type {
	switch tok {
	case "void":
		return tVoid
	case "F":
		return vecOf(tFloat, n)
	case "I":
		return vecOf(tInt, n)
	case "U":
		return vecOf(tUint, n)
	case "B":
		return vecOf(tBool, n)
	case "V":
		return vecOf(tFloat, n)
	case "IV":
		return vecOf(tInt, n)
	case "UV":
		return vecOf(tUint, n)
	case "BV":
		return vecOf(tBool, n)
	case "f":
		return tFloat
	case "i":
		return tInt
	case "u":
		return tUint
	case "b":
		return tBool
	}
	if len(tok) >= 2 {
		d := int(tok[len(tok)-1] - '0')
		switch tok[:len(tok)-1] {
		case "v":
			return vecOf(tFloat, d)
		case "iv":
			return vecOf(tInt, d)
		case "uv":
			return vecOf(tUint, d)
		case "bv":
			return vecOf(tBool, d)
		}
		if tok[0] == 'm' && len(tok) == 3 {
			return matOf(tFloat, int(tok[1]-'0'), int(tok[2]-'0'))
		}
	}
	panic("ctext: bad signature token " + tok)
}

type builtinTable struct {
	byName map[string][]*builtinSig
}

type bflag uint8

const (
	bfPure bflag = 1 << iota
	bfBarrier
)

// def registers "RET name(P1, P2, ...)" expanded over the generic sizes.
func (tb *builtinTable) def(minDesk, minES int, spec string, impl builtinImpl, flags bflag) {
	open := strings.IndexByte(spec, '(')
	head := strings.Fields(spec[:open])
	retTok, name := head[0], head[1]
	inner := strings.TrimSpace(spec[open+1 : strings.LastIndexByte(spec, ')')])
	var ptoks []string
	if inner != "" {
		for _, p := range strings.Split(inner, ",") {
			ptoks = append(ptoks, strings.TrimSpace(p))
		}
	}
	generic, vecOnly := false, false
	all := append([]string{retTok}, ptoks...)
	for _, t := range all {
		f := strings.Fields(t)
		switch f[len(f)-1] {
		case "F", "I", "U", "B":
			generic = true
		case "V", "IV", "UV", "BV":
			generic, vecOnly = true, true
		}
	}
	lo, hi := 1, 1
	if generic {
		hi = 4
		if vecOnly {
			lo = 2
		}
	}
	for n := lo; n <= hi; n++ {
		s := &builtinSig{name: name, impl: impl, minDesk: minDesk, minES: minES, pure: flags&bfPure != 0, barrier: flags&bfBarrier != 0}
		s.ret = sigType(retTok, n)
		for _, p := range ptoks {
			f := strings.Fields(p)
			isOut, isLV := false, false
			if len(f) == 2 {
				isOut = f[0] == "out"
				isLV = f[0] == "inout"
			}
			s.params = append(s.params, sigType(f[len(f)-1], n))
			s.out = append(s.out, isOut)
			s.lvalue = append(s.lvalue, isLV)
		}
		anyOut, anyLV := false, false
		for i := range s.out {
			anyOut = anyOut || s.out[i]
			anyLV = anyLV || s.lvalue[i]
		}
		if !anyOut {
			s.out = nil
		}
		if !anyLV {
			s.lvalue = nil
		}
		dup := false
		for _, o := range tb.byName[name] {
			if len(o.params) == len(s.params) {
				same := true
				for i := range o.params {
					if o.params[i] != s.params[i] {
						same = false
					}
				}
				if same {
					dup = true
				}
			}
		}
		if !dup {
			tb.byName[name] = append(tb.byName[name], s)
		}
	}
}

var (
	glslTableOnce sync.Once
	glslTable     *builtinTable
)

func glslBuiltins() *builtinTable {
	glslTableOnce.Do(func() { glslTable = buildGLSLBuiltins() })
	return glslTable
}

// Names of GLSL built-in functions that exist but are not modelled.
var glslUnmodelledPrefixes = []string{"texture", "texel", "image", "dFdx", "dFdy", "fwidth", "subgroup", "atomicCounter", "interpolateAt", "noise", "shadow", "EmitVertex", "EndPrimitive", "EmitStreamVertex", "EndStreamPrimitive", "packDouble", "unpackDouble", "anyInvocation", "allInvocations"}

func (r *glslRules) builtinFuncs(name string) (sigs []*builtinSig, known, unmodelled bool, needs string) {
	all := glslBuiltins().byName[name]
	if len(all) == 0 {
		for _, p := range glslUnmodelledPrefixes {
			if strings.HasPrefix(name, p) {
				return nil, true, true, ""
			}
		}
		return nil, false, false, ""
	}
	for _, s := range all {
		if r.fe.atLeast(s.minDesk, s.minES) || r.fe.lenient {
			sigs = append(sigs, s)
		}
	}
	if len(sigs) == 0 {
		needs = fmt.Sprintf("needs GLSL %d / ESSL %d", all[0].minDesk, all[0].minES)
	}
	return sigs, true, false, needs
}

// ---------------------------------------------------------------------------
// the table: GLSL 4.60 chapter 8 / ESSL 3.20 chapter 8
// ---------------------------------------------------------------------------

func buildGLSLBuiltins() *builtinTable {
	tb := &builtinTable{byName: map[string][]*builtinSig{}}
	P := bfPure

	// ---- 8.1 angle and trigonometry ------------------------------------
	tb.def(110, 100, "F radians(F)", m1(func(x float64) float64 { return x * math.Pi / 180 }), P)
	tb.def(110, 100, "F degrees(F)", m1(func(x float64) float64 { return x * 180 / math.Pi }), P)
	tb.def(110, 100, "F sin(F)", m1(math.Sin), P)
	tb.def(110, 100, "F cos(F)", m1(math.Cos), P)
	tb.def(110, 100, "F tan(F)", m1(math.Tan), P)
	in11 := func(x float32) bool { return !(x < -1 || x > 1) }
	tb.def(110, 100, "F asin(F)", m1d(math.Asin, in11, "asin(x) with |x| > 1 is undefined (GLSL 4.60 §8.1)"), P)
	tb.def(110, 100, "F acos(F)", m1d(math.Acos, in11, "acos(x) with |x| > 1 is undefined (GLSL 4.60 §8.1)"), P)
	tb.def(110, 100, "F atan(F, F)", ff2(func(y, x float32) (float32, string) {
		if x == 0 && y == 0 {
			return 0, "atan(y, x) with x = y = 0 is undefined (GLSL 4.60 §8.1)"
		}
		return f64to32(math.Atan2(float64(y), float64(x))), ""
	}), P)
	tb.def(110, 100, "F atan(F)", m1(math.Atan), P)
	tb.def(130, 300, "F sinh(F)", m1(math.Sinh), P)
	tb.def(130, 300, "F cosh(F)", m1(math.Cosh), P)
	tb.def(130, 300, "F tanh(F)", m1(math.Tanh), P)
	tb.def(130, 300, "F asinh(F)", m1(math.Asinh), P)
	tb.def(130, 300, "F acosh(F)", m1d(math.Acosh, func(x float32) bool { return !(x < 1) }, "acosh(x) with x < 1 is undefined (GLSL 4.60 §8.1)"), P)
	tb.def(130, 300, "F atanh(F)", m1d(math.Atanh, func(x float32) bool { return !(x >= 1 || x <= -1) }, "atanh(x) with |x| >= 1 is undefined (GLSL 4.60 §8.1)"), P)

	// ---- 8.2 exponential -------------------------------------------------
	tb.def(110, 100, "F pow(F, F)", ff2(func(x, y float32) (float32, string) {
		if x < 0 {
			return 0, "pow(x, y) with x < 0 is undefined (GLSL 4.60 §8.2)"
		}
		if x == 0 && y <= 0 {
			return 0, "pow(x, y) with x = 0 and y <= 0 is undefined (GLSL 4.60 §8.2)"
		}
		return f64to32(math.Pow(float64(x), float64(y))), ""
	}), P)
	tb.def(110, 100, "F exp(F)", m1(math.Exp), P)
	tb.def(110, 100, "F log(F)", m1d(math.Log, func(x float32) bool { return !(x <= 0) }, "log(x) with x <= 0 is undefined (GLSL 4.60 §8.2)"), P)
	tb.def(110, 100, "F exp2(F)", m1(math.Exp2), P)
	tb.def(110, 100, "F log2(F)", m1d(math.Log2, func(x float32) bool { return !(x <= 0) }, "log2(x) with x <= 0 is undefined (GLSL 4.60 §8.2)"), P)
	tb.def(110, 100, "F sqrt(F)", m1d(math.Sqrt, func(x float32) bool { return !(x < 0) }, "sqrt(x) with x < 0 is undefined (GLSL 4.60 §8.2)"), P)
	tb.def(110, 100, "F inversesqrt(F)", m1d(func(x float64) float64 { return 1 / math.Sqrt(x) }, func(x float32) bool { return !(x <= 0) }, "inversesqrt(x) with x <= 0 is undefined (GLSL 4.60 §8.2)"), P)

	// ---- 8.3 common ---------------------------------------------------------
	tb.def(110, 100, "F abs(F)", m1(math.Abs), P)
	tb.def(130, 300, "I abs(I)", cw(func(ev *evaluator, in []Cell) (Cell, string) {
		x := in[0].I()
		if x < 0 {
			x = -x // INT_MIN wraps to itself
		}
		return i32Cell(x), ""
	}), P)
	tb.def(110, 100, "F sign(F)", ff1(func(x float32) (float32, string) {
		switch {
		case x > 0:
			return 1, ""
		case x < 0:
			return -1, ""
		case x == 0:
			return 0, ""
		}
		return 0, "sign(NaN) is not defined (GLSL 4.60 §8.3)"
	}), P)
	tb.def(130, 300, "I sign(I)", cw(func(ev *evaluator, in []Cell) (Cell, string) {
		x := in[0].I()
		switch {
		case x > 0:
			return i32Cell(1), ""
		case x < 0:
			return i32Cell(-1), ""
		}
		return i32Cell(0), ""
	}), P)
	tb.def(110, 100, "F floor(F)", m1(math.Floor), P)
	tb.def(130, 300, "F trunc(F)", m1(math.Trunc), P)
	tb.def(130, 300, "F round(F)", ff1(func(x float32) (float32, string) {
		if isTie(x) {
			return 0, "round(x) with a fraction of exactly 0.5 rounds in an implementation-chosen direction (GLSL 4.60 §8.3)"
		}
		return float32(math.Round(float64(x))), ""
	}), P)
	tb.def(130, 300, "F roundEven(F)", m1(math.RoundToEven), P)
	tb.def(110, 100, "F ceil(F)", m1(math.Ceil), P)
	tb.def(110, 100, "F fract(F)", ff1(func(x float32) (float32, string) { return fsub(x, floor32(x)), "" }), P)
	modImpl := ff2(func(x, y float32) (float32, string) {
		// mod(x, y) = x - y * floor(x / y)
		return fsub(x, fmul(y, floor32(fdiv(x, y)))), ""
	})
	tb.def(110, 100, "F mod(F, F)", modImpl, P)
	tb.def(110, 100, "F mod(F, f)", modImpl, P)
	tb.def(130, 300, "F modf(F, out F)", func(ev *evaluator, s *builtinSig, a []Value) Value {
		r := mkValue(s.ret)
		w := mkValue(s.params[1])
		for i, c := range a[0].C {
			if c.P != 0 {
				r.C[i].P, w.C[i].P = c.P, c.P
				continue
			}
			x := c.F()
			t := float32(math.Trunc(float64(x)))
			w.C[i] = f32Cell(t)
			if isInf32(x) {
				r.C[i] = f32Cell(float32(math.Copysign(0, float64(x))))
			} else {
				r.C[i] = f32Cell(fsub(x, t))
			}
		}
		a[1] = w
		return r
	}, 0)
	for _, v := range []struct {
		spec string
		impl builtinImpl
	}{
		{"F min(F, F)", ff2(fmin)}, {"F min(F, f)", ff2(fmin)},
		{"F max(F, F)", ff2(fmax)}, {"F max(F, f)", ff2(fmax)},
	} {
		tb.def(110, 100, v.spec, v.impl, P)
	}
	imin := ii2(func(a, b int32) (int32, string) {
		if b < a {
			return b, ""
		}
		return a, ""
	})
	imax := ii2(func(a, b int32) (int32, string) {
		if a < b {
			return b, ""
		}
		return a, ""
	})
	umin := uu2(func(a, b uint32) (uint32, string) {
		if b < a {
			return b, ""
		}
		return a, ""
	})
	umax := uu2(func(a, b uint32) (uint32, string) {
		if a < b {
			return b, ""
		}
		return a, ""
	})
	tb.def(130, 300, "I min(I, I)", imin, P)
	tb.def(130, 300, "I min(I, i)", imin, P)
	tb.def(130, 300, "U min(U, U)", umin, P)
	tb.def(130, 300, "U min(U, u)", umin, P)
	tb.def(130, 300, "I max(I, I)", imax, P)
	tb.def(130, 300, "I max(I, i)", imax, P)
	tb.def(130, 300, "U max(U, U)", umax, P)
	tb.def(130, 300, "U max(U, u)", umax, P)
	fclamp := ff3(func(x, lo, hi float32) (float32, string) {
		if isNaN32(x) || isNaN32(lo) || isNaN32(hi) {
			return 0, whyNaN
		}
		if lo > hi {
			return 0, whyClamp
		}
		// clamp = min(max(x, minVal), maxVal)
		return clampf(x, lo, hi), ""
	})
	tb.def(110, 100, "F clamp(F, F, F)", fclamp, P)
	tb.def(110, 100, "F clamp(F, f, f)", fclamp, P)
	iclamp := cw(func(ev *evaluator, in []Cell) (Cell, string) {
		x, lo, hi := in[0].I(), in[1].I(), in[2].I()
		if lo > hi {
			return Cell{}, whyClamp
		}
		if x < lo {
			x = lo
		}
		if x > hi {
			x = hi
		}
		return i32Cell(x), ""
	})
	uclamp := cw(func(ev *evaluator, in []Cell) (Cell, string) {
		x, lo, hi := in[0].U(), in[1].U(), in[2].U()
		if lo > hi {
			return Cell{}, whyClamp
		}
		if x < lo {
			x = lo
		}
		if x > hi {
			x = hi
		}
		return u32Cell(x), ""
	})
	tb.def(130, 300, "I clamp(I, I, I)", iclamp, P)
	tb.def(130, 300, "I clamp(I, i, i)", iclamp, P)
	tb.def(130, 300, "U clamp(U, U, U)", uclamp, P)
	tb.def(130, 300, "U clamp(U, u, u)", uclamp, P)
	fmix := ff3(func(x, y, a float32) (float32, string) {
		// mix(x, y, a) = x * (1 - a) + y * a
		return fadd(fmul(x, fsub(1, a)), fmul(y, a)), ""
	})
	tb.def(110, 100, "F mix(F, F, F)", fmix, P)
	tb.def(110, 100, "F mix(F, F, f)", fmix, P)
	// mix with a boolean selector: components not selected have no effect,
	// so their poison does not propagate.
	selMix := func(ev *evaluator, s *builtinSig, a []Value) Value {
		r := mkValue(s.ret)
		for i := range r.C {
			sel := a[2].C[i]
			if sel.P != 0 {
				r.C[i].P = sel.P
				continue
			}
			if sel.Bool() {
				r.C[i] = a[1].C[i]
			} else {
				r.C[i] = a[0].C[i]
			}
		}
		return r
	}
	tb.def(130, 300, "F mix(F, F, B)", selMix, P)
	tb.def(450, 310, "I mix(I, I, B)", selMix, P)
	tb.def(450, 310, "U mix(U, U, B)", selMix, P)
	tb.def(450, 310, "B mix(B, B, B)", selMix, P)
	fstep := ff2(func(edge, x float32) (float32, string) {
		if isNaN32(edge) || isNaN32(x) {
			return 0, whyNaN
		}
		if x < edge {
			return 0, ""
		}
		return 1, ""
	})
	tb.def(110, 100, "F step(F, F)", fstep, P)
	tb.def(110, 100, "F step(f, F)", fstep, P)
	fsmooth := ff3(func(e0, e1, x float32) (float32, string) {
		if isNaN32(e0) || isNaN32(e1) || isNaN32(x) {
			return 0, whyNaN
		}
		if e0 >= e1 {
			return 0, "smoothstep with edge0 >= edge1 is undefined (GLSL 4.60 §8.3)"
		}
		t := clampf(fdiv(fsub(x, e0), fsub(e1, e0)), 0, 1)
		return fmul(fmul(t, t), fsub(3, fmul(2, t))), ""
	})
	tb.def(110, 100, "F smoothstep(F, F, F)", fsmooth, P)
	tb.def(110, 100, "F smoothstep(f, f, F)", fsmooth, P)
	tb.def(130, 300, "B isnan(F)", cw(func(ev *evaluator, in []Cell) (Cell, string) { return boolCell(isNaN32(in[0].F())), "" }), P)
	tb.def(130, 300, "B isinf(F)", cw(func(ev *evaluator, in []Cell) (Cell, string) { return boolCell(isInf32(in[0].F())), "" }), P)
	bitsSame := cw(func(ev *evaluator, in []Cell) (Cell, string) { return Cell{B: in[0].B}, "" })
	tb.def(330, 300, "I floatBitsToInt(F)", bitsSame, P)
	tb.def(330, 300, "U floatBitsToUint(F)", bitsSame, P)
	tb.def(330, 300, "F intBitsToFloat(I)", bitsSame, P)
	tb.def(330, 300, "F uintBitsToFloat(U)", bitsSame, P)
	tb.def(400, 320, "F fma(F, F, F)", cw(func(ev *evaluator, in []Cell) (Cell, string) {
		a, b, c := in[0].F(), in[1].F(), in[2].F()
		fused := ffma(a, b, c)
		unfused := fadd(fmul(a, b), c)
		if math.Float32bits(fused) != math.Float32bits(unfused) && !(isNaN32(fused) && isNaN32(unfused)) {
			ev.info("fma.differs")
		}
		return f32Cell(fused), ""
	}), P)
	tb.def(400, 310, "F frexp(F, out I)", func(ev *evaluator, s *builtinSig, a []Value) Value {
		r := mkValue(s.ret)
		e := mkValue(s.params[1])
		for i, c := range a[0].C {
			if c.P != 0 {
				r.C[i].P, e.C[i].P = c.P, c.P
				continue
			}
			x := c.F()
			if isNaN32(x) || isInf32(x) {
				p := ev.poison("frexp of an infinity or NaN is undefined (GLSL 4.60 §8.3)")
				r.C[i].P, e.C[i].P = p, p
				continue
			}
			fr, ex := math.Frexp(float64(x))
			r.C[i] = f32Cell(float32(fr))
			e.C[i] = i32Cell(int32(ex))
		}
		a[1] = e
		return r
	}, 0)
	tb.def(400, 310, "F ldexp(F, I)", cw(func(ev *evaluator, in []Cell) (Cell, string) {
		x, e := in[0].F(), in[1].I()
		if e > 128 {
			return Cell{}, "ldexp with exp > +128 is undefined (GLSL 4.60 §8.3)"
		}
		if e < -126 && x != 0 && !isNaN32(x) && !isInf32(x) {
			return Cell{}, "ldexp with exp < -126 may or may not flush to zero (GLSL 4.60 §8.3)"
		}
		r := float32(math.Ldexp(float64(x), int(e)))
		if isInf32(r) && !isInf32(x) {
			return Cell{}, "ldexp result too large to be represented is undefined (GLSL 4.60 §8.3)"
		}
		return f32Cell(r), ""
	}), P)

	// ---- 8.4 floating-point pack and unpack -------------------------------------
	packN := func(n int, lo, scale float32, bitsPer uint) builtinImpl {
		return func(ev *evaluator, s *builtinSig, a []Value) Value {
			var out uint32
			var p uint16
			for i := 0; i < n; i++ {
				c := a[0].C[i]
				if c.P != 0 {
					p = c.P
					continue
				}
				v, tie, nan := packNorm(c.F(), lo, scale)
				if nan {
					p = ev.poison("pack*norm* of NaN: clamp of NaN is undefined (GLSL 4.60 §8.4, §8.3)")
				}
				if tie {
					p = ev.poison("pack*norm*: round() of an exact tie rounds in an implementation-chosen direction (GLSL 4.60 §8.4, §8.3)")
				}
				out |= (uint32(v) & (1<<bitsPer - 1)) << (uint(i) * bitsPer)
			}
			return Value{T: tUint, C: []Cell{{B: out, P: p}}}
		}
	}
	unpackN := func(n int, signed bool, scale float32, bitsPer uint) builtinImpl {
		return func(ev *evaluator, s *builtinSig, a []Value) Value {
			r := mkValue(s.ret)
			c := a[0].C[0]
			for i := 0; i < n; i++ {
				if c.P != 0 {
					r.C[i].P = c.P
					continue
				}
				raw := (c.B >> (uint(i) * bitsPer)) & (1<<bitsPer - 1)
				var f float32
				if signed {
					sh := 32 - bitsPer
					iv := int32(raw<<sh) >> sh
					f = clampf(fdiv(float32(iv), scale), -1, 1)
				} else {
					f = fdiv(float32(raw), scale)
				}
				r.C[i] = f32Cell(f)
			}
			return r
		}
	}
	tb.def(400, 300, "u packUnorm2x16(v2)", packN(2, 0, 65535, 16), P)
	tb.def(400, 300, "u packSnorm2x16(v2)", packN(2, -1, 32767, 16), P)
	tb.def(400, 310, "u packUnorm4x8(v4)", packN(4, 0, 255, 8), P)
	tb.def(400, 310, "u packSnorm4x8(v4)", packN(4, -1, 127, 8), P)
	tb.def(400, 300, "v2 unpackUnorm2x16(u)", unpackN(2, false, 65535, 16), P)
	tb.def(400, 300, "v2 unpackSnorm2x16(u)", unpackN(2, true, 32767, 16), P)
	tb.def(400, 310, "v4 unpackUnorm4x8(u)", unpackN(4, false, 255, 8), P)
	tb.def(400, 310, "v4 unpackSnorm4x8(u)", unpackN(4, true, 127, 8), P)
	tb.def(400, 300, "u packHalf2x16(v2)", func(ev *evaluator, s *builtinSig, a []Value) Value {
		var out uint32
		var p uint16
		for i := 0; i < 2; i++ {
			c := a[0].C[i]
			if c.P != 0 {
				p = c.P
				continue
			}
			h, exact := f32ToF16(c.F())
			if !exact {
				// the rounding of the float -> half conversion is not specified
				ev.info("packHalf2x16.inexact")
			}
			out |= uint32(h) << (uint(i) * 16)
		}
		return Value{T: tUint, C: []Cell{{B: out, P: p}}}
	}, P)
	tb.def(400, 300, "v2 unpackHalf2x16(u)", func(ev *evaluator, s *builtinSig, a []Value) Value {
		r := mkValue(s.ret)
		c := a[0].C[0]
		for i := 0; i < 2; i++ {
			if c.P != 0 {
				r.C[i].P = c.P
				continue
			}
			r.C[i] = f32Cell(f16ToF32(uint16(c.B >> (uint(i) * 16))))
		}
		return r
	}, P)

	// ---- 8.5 geometric ---------------------------------------------------------------
	sumSq := func(v Value, w *Value) (float64, uint16) {
		var s float64
		for i, c := range v.C {
			if c.P != 0 {
				return 0, c.P
			}
			x := float64(c.F())
			if w != nil {
				if w.C[i].P != 0 {
					return 0, w.C[i].P
				}
				x = float64(fsub(c.F(), w.C[i].F()))
			}
			s += x * x
		}
		return s, 0
	}
	tb.def(110, 100, "f length(F)", func(ev *evaluator, s *builtinSig, a []Value) Value {
		ss, p := sumSq(a[0], nil)
		return Value{T: tFloat, C: []Cell{{B: math.Float32bits(f64to32(math.Sqrt(ss))), P: p}}}
	}, P)
	tb.def(110, 100, "f distance(F, F)", func(ev *evaluator, s *builtinSig, a []Value) Value {
		ss, p := sumSq(a[0], &a[1])
		return Value{T: tFloat, C: []Cell{{B: math.Float32bits(f64to32(math.Sqrt(ss))), P: p}}}
	}, P)
	dot := func(x, y Value) Cell {
		var acc float32
		for i := range x.C {
			if x.C[i].P != 0 {
				return Cell{P: x.C[i].P}
			}
			if y.C[i].P != 0 {
				return Cell{P: y.C[i].P}
			}
			m := fmul(x.C[i].F(), y.C[i].F())
			if i == 0 {
				acc = m
			} else {
				acc = fadd(acc, m)
			}
		}
		return f32Cell(acc)
	}
	tb.def(110, 100, "f dot(F, F)", func(ev *evaluator, s *builtinSig, a []Value) Value {
		return Value{T: tFloat, C: []Cell{dot(a[0], a[1])}}
	}, P)
	tb.def(110, 100, "v3 cross(v3, v3)", func(ev *evaluator, s *builtinSig, a []Value) Value {
		r := mkValue(s.ret)
		x, y := a[0].C, a[1].C
		idx := [3][2]int{{1, 2}, {2, 0}, {0, 1}}
		for i := 0; i < 3; i++ {
			j, k := idx[i][0], idx[i][1]
			if p := firstPoison(x[j], y[k], y[j], x[k]); p != 0 {
				r.C[i].P = p
				continue
			}
			r.C[i] = f32Cell(fsub(fmul(x[j].F(), y[k].F()), fmul(y[j].F(), x[k].F())))
		}
		return r
	}, P)
	tb.def(110, 100, "F normalize(F)", func(ev *evaluator, s *builtinSig, a []Value) Value {
		r := mkValue(s.ret)
		ss, p := sumSq(a[0], nil)
		if p == 0 && ss == 0 {
			p = ev.poison("normalize of a zero-length vector divides by zero (GLSL 4.60 §8.5)")
		}
		l := math.Sqrt(ss)
		for i, c := range a[0].C {
			if p != 0 {
				r.C[i].P = p
				continue
			}
			r.C[i] = f32Cell(f64to32(float64(c.F()) / l))
		}
		return r
	}, P)
	tb.def(110, 100, "F faceforward(F, F, F)", func(ev *evaluator, s *builtinSig, a []Value) Value {
		// if dot(Nref, I) < 0 return N, otherwise return -N
		d := dot(a[2], a[1])
		r := mkValue(s.ret)
		for i, c := range a[0].C {
			switch {
			case d.P != 0:
				r.C[i].P = d.P
			case c.P != 0:
				r.C[i].P = c.P
			case d.F() < 0:
				r.C[i] = c
			default:
				r.C[i] = f32Cell(-c.F())
			}
		}
		return r
	}, P)
	tb.def(110, 100, "F reflect(F, F)", func(ev *evaluator, s *builtinSig, a []Value) Value {
		// I - 2 * dot(N, I) * N
		d := dot(a[1], a[0])
		r := mkValue(s.ret)
		for i := range r.C {
			I, N := a[0].C[i], a[1].C[i]
			if p := firstPoison(d, I, N); p != 0 {
				r.C[i].P = p
				continue
			}
			r.C[i] = f32Cell(fsub(I.F(), fmul(fmul(2, d.F()), N.F())))
		}
		return r
	}, P)
	tb.def(110, 100, "F refract(F, F, f)", func(ev *evaluator, s *builtinSig, a []Value) Value {
		// k = 1 - eta*eta*(1 - dot(N,I)^2); k < 0 ? 0 : eta*I - (eta*dot(N,I) + sqrt(k))*N
		d := dot(a[1], a[0])
		eta := a[2].C[0]
		r := mkValue(s.ret)
		if p := firstPoison(d, eta); p != 0 {
			for i := range r.C {
				r.C[i].P = p
			}
			return r
		}
		e, dd := float64(eta.F()), float64(d.F())
		k := 1 - e*e*(1-dd*dd)
		for i := range r.C {
			I, N := a[0].C[i], a[1].C[i]
			if p := firstPoison(I, N); p != 0 {
				r.C[i].P = p
				continue
			}
			if k < 0 {
				r.C[i] = f32Cell(0)
			} else {
				r.C[i] = f32Cell(f64to32(e*float64(I.F()) - (e*dd+math.Sqrt(k))*float64(N.F())))
			}
		}
		return r
	}, P)

	// ---- 8.6 matrix ---------------------------------------------------------------------
	for c := 2; c <= 4; c++ {
		for r := 2; r <= 4; r++ {
			m := fmt.Sprintf("m%d%d", c, r)
			tb.def(110, 100, m+" matrixCompMult("+m+", "+m+")", ff2(func(a, b float32) (float32, string) { return fmul(a, b), "" }), P)
			// outerProduct(vecR c, vecC r) -> matCxR : result[col][row] = c[row]*r[col]
			tb.def(120, 300, fmt.Sprintf("%s outerProduct(v%d, v%d)", m, r, c), func(ev *evaluator, s *builtinSig, a []Value) Value {
				res := mkValue(s.ret)
				rows := s.ret.Rows
				for col := 0; col < s.ret.Cols; col++ {
					for row := 0; row < rows; row++ {
						x, y := a[0].C[row], a[1].C[col]
						if p := firstPoison(x, y); p != 0 {
							res.C[col*rows+row].P = p
							continue
						}
						res.C[col*rows+row] = f32Cell(fmul(x.F(), y.F()))
					}
				}
				return res
			}, P)
			tb.def(120, 300, fmt.Sprintf("m%d%d transpose(%s)", r, c, m), func(ev *evaluator, s *builtinSig, a []Value) Value {
				res := mkValue(s.ret)
				in := s.params[0]
				for col := 0; col < in.Cols; col++ {
					for row := 0; row < in.Rows; row++ {
						res.C[row*in.Cols+col] = a[0].C[col*in.Rows+row]
					}
				}
				return res
			}, P)
		}
		m := fmt.Sprintf("m%d%d", c, c)
		tb.def(150, 300, "f determinant("+m+")", func(ev *evaluator, s *builtinSig, a []Value) Value {
			if p := a[0].anyPoison(); p != 0 {
				return Value{T: tFloat, C: []Cell{{P: p}}}
			}
			return floatValue(f64to32(det64(matTo64(a[0]))))
		}, P)
		tb.def(140, 300, m+" inverse("+m+")", func(ev *evaluator, s *builtinSig, a []Value) Value {
			res := mkValue(s.ret)
			p := a[0].anyPoison()
			var inv [][]float64
			if p == 0 {
				var ok bool
				inv, ok = inverse64(matTo64(a[0]))
				if !ok {
					p = ev.poison("inverse of a singular matrix is undefined (GLSL 4.60 §8.6)")
				}
			}
			n := s.ret.Cols
			for col := 0; col < n; col++ {
				for row := 0; row < n; row++ {
					if p != 0 {
						res.C[col*n+row].P = p
					} else {
						res.C[col*n+row] = f32Cell(f64to32(inv[col][row]))
					}
				}
			}
			return res
		}, P)
	}

	// ---- 8.7 vector relational ----------------------------------------------------------
	type rel struct {
		name string
		f    func(a, b float32) bool
		i    func(a, b int32) bool
		u    func(a, b uint32) bool
	}
	for _, r := range []rel{
		{"lessThan", func(a, b float32) bool { return a < b }, func(a, b int32) bool { return a < b }, func(a, b uint32) bool { return a < b }},
		{"lessThanEqual", func(a, b float32) bool { return a <= b }, func(a, b int32) bool { return a <= b }, func(a, b uint32) bool { return a <= b }},
		{"greaterThan", func(a, b float32) bool { return a > b }, func(a, b int32) bool { return a > b }, func(a, b uint32) bool { return a > b }},
		{"greaterThanEqual", func(a, b float32) bool { return a >= b }, func(a, b int32) bool { return a >= b }, func(a, b uint32) bool { return a >= b }},
		{"equal", func(a, b float32) bool { return a == b }, func(a, b int32) bool { return a == b }, func(a, b uint32) bool { return a == b }},
		{"notEqual", func(a, b float32) bool { return a != b }, func(a, b int32) bool { return a != b }, func(a, b uint32) bool { return a != b }},
	} {
		r := r
		tb.def(110, 100, "BV "+r.name+"(V, V)", cw(func(ev *evaluator, in []Cell) (Cell, string) { return boolCell(r.f(in[0].F(), in[1].F())), "" }), P)
		tb.def(110, 100, "BV "+r.name+"(IV, IV)", cw(func(ev *evaluator, in []Cell) (Cell, string) { return boolCell(r.i(in[0].I(), in[1].I())), "" }), P)
		tb.def(130, 300, "BV "+r.name+"(UV, UV)", cw(func(ev *evaluator, in []Cell) (Cell, string) { return boolCell(r.u(in[0].U(), in[1].U())), "" }), P)
	}
	tb.def(110, 100, "BV equal(BV, BV)", cw(func(ev *evaluator, in []Cell) (Cell, string) { return boolCell(in[0].Bool() == in[1].Bool()), "" }), P)
	tb.def(110, 100, "BV notEqual(BV, BV)", cw(func(ev *evaluator, in []Cell) (Cell, string) { return boolCell(in[0].Bool() != in[1].Bool()), "" }), P)
	tb.def(110, 100, "b any(BV)", func(ev *evaluator, s *builtinSig, a []Value) Value {
		// a true component decides regardless of undefined others
		var p uint16
		for _, c := range a[0].C {
			if c.P == 0 && c.Bool() {
				return boolValue(true)
			}
			if c.P != 0 {
				p = c.P
			}
		}
		return Value{T: tBool, C: []Cell{{P: p}}}
	}, P)
	tb.def(110, 100, "b all(BV)", func(ev *evaluator, s *builtinSig, a []Value) Value {
		var p uint16
		for _, c := range a[0].C {
			if c.P == 0 && !c.Bool() {
				return boolValue(false)
			}
			if c.P != 0 {
				p = c.P
			}
		}
		return Value{T: tBool, C: []Cell{{B: 1, P: p}}}
	}, P)
	tb.def(110, 100, "BV not(BV)", cw(func(ev *evaluator, in []Cell) (Cell, string) { return boolCell(!in[0].Bool()), "" }), P)

	// ---- 8.8 integer ---------------------------------------------------------------------
	tb.def(400, 310, "U uaddCarry(U, U, out U)", func(ev *evaluator, s *builtinSig, a []Value) Value {
		r, c := mkValue(s.ret), mkValue(s.ret)
		for i := range r.C {
			x, y := a[0].C[i], a[1].C[i]
			if p := firstPoison(x, y); p != 0 {
				r.C[i].P, c.C[i].P = p, p
				continue
			}
			sum := uint64(x.U()) + uint64(y.U())
			r.C[i] = u32Cell(uint32(sum))
			c.C[i] = u32Cell(uint32(sum >> 32))
		}
		a[2] = c
		return r
	}, 0)
	tb.def(400, 310, "U usubBorrow(U, U, out U)", func(ev *evaluator, s *builtinSig, a []Value) Value {
		r, c := mkValue(s.ret), mkValue(s.ret)
		for i := range r.C {
			x, y := a[0].C[i], a[1].C[i]
			if p := firstPoison(x, y); p != 0 {
				r.C[i].P, c.C[i].P = p, p
				continue
			}
			r.C[i] = u32Cell(x.U() - y.U())
			if x.U() < y.U() {
				c.C[i] = u32Cell(1)
			}
		}
		a[2] = c
		return r
	}, 0)
	tb.def(400, 310, "void umulExtended(U, U, out U, out U)", func(ev *evaluator, s *builtinSig, a []Value) Value {
		msb, lsb := mkValue(s.params[0]), mkValue(s.params[0])
		for i := range msb.C {
			x, y := a[0].C[i], a[1].C[i]
			if p := firstPoison(x, y); p != 0 {
				msb.C[i].P, lsb.C[i].P = p, p
				continue
			}
			pr := uint64(x.U()) * uint64(y.U())
			msb.C[i], lsb.C[i] = u32Cell(uint32(pr>>32)), u32Cell(uint32(pr))
		}
		a[2], a[3] = msb, lsb
		return Value{T: tVoid}
	}, 0)
	tb.def(400, 310, "void imulExtended(I, I, out I, out I)", func(ev *evaluator, s *builtinSig, a []Value) Value {
		msb, lsb := mkValue(s.params[0]), mkValue(s.params[0])
		for i := range msb.C {
			x, y := a[0].C[i], a[1].C[i]
			if p := firstPoison(x, y); p != 0 {
				msb.C[i].P, lsb.C[i].P = p, p
				continue
			}
			pr := int64(x.I()) * int64(y.I())
			msb.C[i], lsb.C[i] = i32Cell(int32(pr>>32)), u32Cell(uint32(pr))
		}
		a[2], a[3] = msb, lsb
		return Value{T: tVoid}
	}, 0)
	const whyBitfield = "bitfieldExtract/Insert with negative offset or bits, or offset+bits greater than the number of bits, is undefined (GLSL 4.60 §8.8)"
	bfx := func(signed bool) builtinImpl {
		return func(ev *evaluator, s *builtinSig, a []Value) Value {
			r := mkValue(s.ret)
			off, nb := a[1].C[0], a[2].C[0]
			for i := range r.C {
				v := a[0].C[i]
				if p := firstPoison(v, off, nb); p != 0 {
					r.C[i].P = p
					continue
				}
				var ok bool
				if signed {
					var x int32
					x, ok = bitfieldExtractI(v.I(), off.I(), nb.I())
					r.C[i] = i32Cell(x)
				} else {
					var x uint32
					x, ok = bitfieldExtractU(v.U(), off.I(), nb.I())
					r.C[i] = u32Cell(x)
				}
				if !ok {
					r.C[i] = Cell{P: ev.poison(whyBitfield)}
				}
			}
			return r
		}
	}
	tb.def(400, 310, "I bitfieldExtract(I, i, i)", bfx(true), P)
	tb.def(400, 310, "U bitfieldExtract(U, i, i)", bfx(false), P)
	bfi := func(ev *evaluator, s *builtinSig, a []Value) Value {
		r := mkValue(s.ret)
		off, nb := a[2].C[0], a[3].C[0]
		for i := range r.C {
			b, ins := a[0].C[i], a[1].C[i]
			if p := firstPoison(b, ins, off, nb); p != 0 {
				r.C[i].P = p
				continue
			}
			x, ok := bitfieldInsert32(b.U(), ins.U(), off.I(), nb.I())
			r.C[i] = u32Cell(x)
			if !ok {
				r.C[i] = Cell{P: ev.poison(whyBitfield)}
			}
		}
		return r
	}
	tb.def(400, 310, "I bitfieldInsert(I, I, i, i)", bfi, P)
	tb.def(400, 310, "U bitfieldInsert(U, U, i, i)", bfi, P)
	rev := cw(func(ev *evaluator, in []Cell) (Cell, string) { return u32Cell(bitReverse32(in[0].U())), "" })
	tb.def(400, 310, "I bitfieldReverse(I)", rev, P)
	tb.def(400, 310, "U bitfieldReverse(U)", rev, P)
	cnt := cw(func(ev *evaluator, in []Cell) (Cell, string) { return i32Cell(bitCount32(in[0].U())), "" })
	tb.def(400, 310, "I bitCount(I)", cnt, P)
	tb.def(400, 310, "I bitCount(U)", cnt, P)
	lsb := cw(func(ev *evaluator, in []Cell) (Cell, string) { return i32Cell(findLSB32(in[0].U())), "" })
	tb.def(400, 310, "I findLSB(I)", lsb, P)
	tb.def(400, 310, "I findLSB(U)", lsb, P)
	tb.def(400, 310, "I findMSB(I)", cw(func(ev *evaluator, in []Cell) (Cell, string) { return i32Cell(findMSBi(in[0].I())), "" }), P)
	tb.def(400, 310, "I findMSB(U)", cw(func(ev *evaluator, in []Cell) (Cell, string) { return i32Cell(findMSBu(in[0].U())), "" }), P)

	// ---- 8.11 atomic memory functions --------------------------------------------------------
	atom := func(name string, fi func(old, d int32) int32, fu func(old, d uint32) uint32) {
		tb.def(430, 310, "i "+name+"(inout i, i)", func(ev *evaluator, s *builtinSig, a []Value) Value {
			old := a[0]
			n := old.C[0]
			if p := firstPoison(old.C[0], a[1].C[0]); p != 0 {
				n = Cell{P: p}
			} else {
				n = i32Cell(fi(old.C[0].I(), a[1].C[0].I()))
			}
			a[0] = Value{T: tInt, C: []Cell{n}}
			return old
		}, 0)
		tb.def(430, 310, "u "+name+"(inout u, u)", func(ev *evaluator, s *builtinSig, a []Value) Value {
			old := a[0]
			n := old.C[0]
			if p := firstPoison(old.C[0], a[1].C[0]); p != 0 {
				n = Cell{P: p}
			} else {
				n = u32Cell(fu(old.C[0].U(), a[1].C[0].U()))
			}
			a[0] = Value{T: tUint, C: []Cell{n}}
			return old
		}, 0)
	}
	atom("atomicAdd", func(o, d int32) int32 { return o + d }, func(o, d uint32) uint32 { return o + d })
	atom("atomicMin", func(o, d int32) int32 {
		if d < o {
			return d
		}
		return o
	}, func(o, d uint32) uint32 {
		if d < o {
			return d
		}
		return o
	})
	atom("atomicMax", func(o, d int32) int32 {
		if d > o {
			return d
		}
		return o
	}, func(o, d uint32) uint32 {
		if d > o {
			return d
		}
		return o
	})
	atom("atomicAnd", func(o, d int32) int32 { return o & d }, func(o, d uint32) uint32 { return o & d })
	atom("atomicOr", func(o, d int32) int32 { return o | d }, func(o, d uint32) uint32 { return o | d })
	atom("atomicXor", func(o, d int32) int32 { return o ^ d }, func(o, d uint32) uint32 { return o ^ d })
	atom("atomicExchange", func(o, d int32) int32 { return d }, func(o, d uint32) uint32 { return d })
	cas := func(ev *evaluator, s *builtinSig, a []Value) Value {
		old := a[0]
		if p := firstPoison(old.C[0], a[1].C[0]); p != 0 {
			a[0] = Value{T: old.T, C: []Cell{{P: p}}}
		} else if old.C[0].B == a[1].C[0].B {
			a[0] = Value{T: old.T, C: []Cell{a[2].C[0]}}
		}
		return old
	}
	tb.def(430, 310, "i atomicCompSwap(inout i, i, i)", cas, 0)
	tb.def(430, 310, "u atomicCompSwap(inout u, u, u)", cas, 0)

	// ---- 8.16 / 8.17 barriers -----------------------------------------------------------------
	nop := func(ev *evaluator, s *builtinSig, a []Value) Value { return Value{T: tVoid} }
	tb.def(400, 310, "void barrier()", nop, bfBarrier)
	tb.def(400, 310, "void memoryBarrier()", nop, 0)
	tb.def(420, 310, "void memoryBarrierAtomicCounter()", nop, 0)
	tb.def(420, 310, "void memoryBarrierBuffer()", nop, 0)
	tb.def(430, 310, "void memoryBarrierShared()", nop, 0)
	tb.def(420, 310, "void memoryBarrierImage()", nop, 0)
	tb.def(430, 310, "void groupMemoryBarrier()", nop, 0)
	return tb
}

func firstPoison(cs ...Cell) uint16 {
	for _, c := range cs {
		if c.P != 0 {
			return c.P
		}
	}
	return 0
}

// matTo64 converts a square matrix value to [col][row] float64.
func matTo64(v Value) [][]float64 {
	n := v.T.Cols
	m := make([][]float64, n)
	for c := 0; c < n; c++ {
		m[c] = make([]float64, n)
		for r := 0; r < n; r++ {
			m[c][r] = float64(v.C[c*n+r].F())
		}
	}
	return m
}

func det64(m [][]float64) float64 {
	n := len(m)
	switch n {
	case 1:
		return m[0][0]
	case 2:
		return m[0][0]*m[1][1] - m[1][0]*m[0][1]
	}
	var d float64
	for c := 0; c < n; c++ {
		d += m[c][0] * cofactor64(m, c, 0)
	}
	return d
}

func minor64(m [][]float64, col, row int) [][]float64 {
	n := len(m)
	out := make([][]float64, 0, n-1)
	for c := 0; c < n; c++ {
		if c == col {
			continue
		}
		cc := make([]float64, 0, n-1)
		for r := 0; r < n; r++ {
			if r != row {
				cc = append(cc, m[c][r])
			}
		}
		out = append(out, cc)
	}
	return out
}

func cofactor64(m [][]float64, col, row int) float64 {
	d := det64(minor64(m, col, row))
	if (col+row)%2 == 1 {
		return -d
	}
	return d
}

func inverse64(m [][]float64) ([][]float64, bool) {
	n := len(m)
	d := det64(m)
	if d == 0 || math.IsNaN(d) || math.IsInf(d, 0) {
		return nil, false
	}
	inv := make([][]float64, n)
	for c := 0; c < n; c++ {
		inv[c] = make([]float64, n)
		for r := 0; r < n; r++ {
			// inverse[c][r] = cofactor(r, c) / det  (adjugate is the transpose)
			inv[c][r] = cofactor64(m, r, c) / d
		}
	}
	return inv, true
}
