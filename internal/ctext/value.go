package ctext

import (
	"fmt"
	"math"
	"strings"
)

// Cell is one scalar component.  B holds the bit pattern (bool: 0/1, int and
// uint: two's complement, float: IEEE binary32).  P != 0 marks the component
// as POISON (a value the target language leaves undefined); it indexes the
// run's table of reasons (P-1).
type Cell struct {
	B uint32
	P uint16
}

// Value is a flat sequence of cells typed by T: vectors are N cells, matrices
// Cols*Rows cells in column-major order (m[c][r] = C[c*Rows+r]), arrays and
// structs are the concatenation of their elements / fields.
type Value struct {
	T *Type
	C []Cell
}

func mkValue(t *Type) Value { return Value{T: t, C: make([]Cell, t.nsc)} }

func boolCell(b bool) Cell {
	if b {
		return Cell{B: 1}
	}
	return Cell{}
}
func f32Cell(f float32) Cell { return Cell{B: math.Float32bits(f)} }
func i32Cell(i int32) Cell   { return Cell{B: uint32(i)} }
func u32Cell(u uint32) Cell  { return Cell{B: u} }

func (c Cell) F() float32 { return math.Float32frombits(c.B) }
func (c Cell) I() int32   { return int32(c.B) }
func (c Cell) U() uint32  { return c.B }
func (c Cell) Bool() bool { return c.B != 0 }

func scalarValue(t *Type, c Cell) Value { return Value{T: t, C: []Cell{c}} }
func boolValue(b bool) Value            { return scalarValue(tBool, boolCell(b)) }
func intValue(i int32) Value            { return scalarValue(tInt, i32Cell(i)) }
func uintValue(u uint32) Value          { return scalarValue(tUint, u32Cell(u)) }
func floatValue(f float32) Value        { return scalarValue(tFloat, f32Cell(f)) }

// anyPoison returns the first poison id among the cells (0 if none).
func (v Value) anyPoison() uint16 {
	for _, c := range v.C {
		if c.P != 0 {
			return c.P
		}
	}
	return 0
}

func (v Value) clone() Value {
	c := make([]Cell, len(v.C))
	copy(c, v.C)
	return Value{T: v.T, C: c}
}

// String renders a value for diagnostics.
func (v Value) String() string {
	if v.T == nil {
		return "<novalue>"
	}
	var sb strings.Builder
	fmtValue(&sb, v.T, v.C)
	return sb.String()
}

func fmtValue(sb *strings.Builder, t *Type, c []Cell) {
	switch t.Kind {
	case KBool, KInt, KUint, KFloat, KDouble:
		if c[0].P != 0 {
			sb.WriteString("poison")
			return
		}
		switch t.Kind {
		case KBool:
			fmt.Fprintf(sb, "%v", c[0].B != 0)
		case KInt:
			fmt.Fprintf(sb, "%d", c[0].I())
		case KUint:
			fmt.Fprintf(sb, "%du", c[0].U())
		default:
			fmt.Fprintf(sb, "%g", c[0].F())
		}
	case KVec, KMat:
		sb.WriteString(t.String())
		sb.WriteByte('(')
		for i := range c {
			if i > 0 {
				sb.WriteString(", ")
			}
			fmtValue(sb, t.Elem, c[i:i+1])
		}
		sb.WriteByte(')')
	case KArray:
		sb.WriteString(t.String())
		sb.WriteByte('(')
		n := t.Elem.nsc
		for i := 0; i*n < len(c); i++ {
			if i > 0 {
				sb.WriteString(", ")
			}
			fmtValue(sb, t.Elem, c[i*n:(i+1)*n])
		}
		sb.WriteByte(')')
	case KStruct:
		sb.WriteString(t.Struct.Name)
		sb.WriteByte('(')
		off := 0
		for i, f := range t.Struct.Fields {
			if i > 0 {
				sb.WriteString(", ")
			}
			fmtValue(sb, f.T, c[off:off+f.T.nsc])
			off += f.T.nsc
		}
		sb.WriteByte(')')
	default:
		sb.WriteString("?")
	}
}

// fieldOffset is the cell offset of struct field i.
func fieldOffset(t *Type, i int) int {
	off := 0
	for j := 0; j < i; j++ {
		off += t.Struct.Fields[j].T.nsc
	}
	return off
}
