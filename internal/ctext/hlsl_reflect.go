package ctext

import "strconv"

// HLSL reflection (C07 layout, C16 identifiers, C17 bindings).

// HLSLResource describes one resource variable of an HLSL program.
type HLSLResource struct {
	Name     string
	Kind     string       // "cbuffer", "ConstantBuffer", "ByteAddressBuffer", "RWByteAddressBuffer", or another object type name (Texture2D ...)
	Generic  string       // template argument text, e.g. "<NagaConstants>"
	Class    byte         // register class in the text: 'b', 't', 'u', 's'; 0 when the declaration has no register annotation
	Register int          // -1 when absent
	Space    int          // 0 when absent
	HasSpace bool         // the text spells ", spaceN"
	ArrayLen int          // resource array length, 0 = not an array
	Modelled bool         // backed by byte storage in Run
	Size     int          // constant buffers: bytes (rounded up to a register)
	Members  []MemberInfo // constant buffers: members with their byte offsets per the cbuffer packing rules
	Pos      Pos
}

// HLSLParam describes one parameter of an entry point.
type HLSLParam struct {
	Name     string
	Type     string
	Dir      string
	Semantic string
	Fields   []HLSLParam // struct-typed parameter: its fields and their semantics
}

// HLSLEntryPoint describes a function carrying [numthreads].
type HLSLEntryPoint struct {
	Name       string
	NumThreads [3]uint32
	Params     []HLSLParam
	Pos        Pos
}

func hlslMemberInfo(name string, t *Type, off int, l *TypeLayout) MemberInfo {
	mi := MemberInfo{Name: name, Type: hlslTypeName(t), Offset: off, Size: l.Size, Align: l.Align}
	inner, il := t, l
	if t.Kind == KArray {
		mi.ArrayStride = l.Stride
		mi.ArrayLen = t.N
		for inner.Kind == KArray {
			inner, il = inner.Elem, il.Elem
		}
	}
	switch inner.Kind {
	case KMat:
		mi.MatrixStride = il.Stride
		mi.RowMajor = !il.RowMajor // TypeLayout.RowMajor is in shared (transposed) terms, see cbLayout
	case KStruct:
		for i, f := range inner.Struct.Fields {
			mi.Members = append(mi.Members, hlslMemberInfo(f.Name, f.T, il.Fields[i].Off, il.Fields[i].L))
		}
	}
	return mi
}

// HLSLResources lists the resource variables in declaration order.
func (p *Program) HLSLResources() []HLSLResource {
	if p.hl == nil {
		return nil
	}
	var out []HLSLResource
	for _, r := range p.hl.resources {
		hr := HLSLResource{Name: r.Name, Kind: r.Kind, Generic: r.Generic, Register: -1, ArrayLen: r.ArrayLen, Pos: r.Pos}
		if r.Reg != nil {
			hr.Class, hr.Register, hr.Space, hr.HasSpace = r.Reg.Class, r.Reg.Index, r.Reg.Space, r.Reg.HasSpace
		}
		if r.Block != nil && r.ArrayLen == 0 {
			hr.Modelled = true
			hr.Size = r.Block.Size
			for _, m := range r.Block.Members {
				hr.Members = append(hr.Members, hlslMemberInfo(m.Name, m.T, m.Offset, m.Lay))
			}
		}
		out = append(out, hr)
	}
	return out
}

// hlslBlocks is Blocks() for HLSL: the byte-backed resources.  Class is the
// register class ('b' cbuffer / ConstantBuffer, 't' ByteAddressBuffer, 'u'
// RWByteAddressBuffer), Binding the register number (-1 if absent), Layout
// "cbuffer" or "raw".  The register space is reported by HLSLResources.
func (p *Program) hlslBlocks() []BlockInfo {
	var out []BlockInfo
	resOf := map[*IfaceBlock]*hlslResource{}
	for _, r := range p.hl.resources {
		if r.Block != nil {
			resOf[r.Block] = r
		}
	}
	for _, b := range p.blocks {
		bi := BlockInfo{Name: b.Name, Class: b.Class, Binding: b.Binding, Layout: b.Layout, Size: b.Size, ReadOnly: b.Class != 'u', Space: "space0"}
		if r := resOf[b]; r != nil {
			bi.Type = r.Kind
			if r.Reg != nil {
				bi.Space = "space" + strconv.Itoa(r.Reg.Space)
			}
		}
		for _, m := range b.Members {
			bi.Members = append(bi.Members, hlslMemberInfo(m.Name, m.T, m.Offset, m.Lay))
		}
		out = append(out, bi)
	}
	return out
}

// HLSLEntryPoints lists the compute entry points ([numthreads] functions).
func (p *Program) HLSLEntryPoints() []HLSLEntryPoint {
	if p.hl == nil {
		return nil
	}
	var out []HLSLEntryPoint
	for _, e := range p.hl.entries {
		ep := HLSLEntryPoint{Name: e.Fn.Name, NumThreads: e.NumThreads, Pos: e.Fn.Pos}
		for _, prm := range e.Fn.Params {
			hp := HLSLParam{Name: prm.Name, Type: hlslTypeName(prm.T), Dir: prm.Dir, Semantic: p.hl.paramSem[prm]}
			if prm.T.Kind == KStruct {
				if sd := p.hl.structs[prm.T.Struct]; sd != nil {
					for i, f := range prm.T.Struct.Fields {
						hp.Fields = append(hp.Fields, HLSLParam{Name: f.Name, Type: hlslTypeName(f.T), Dir: prm.Dir, Semantic: p.hl.fieldSem[sd.Fields[i]]})
					}
				}
			}
			ep.Params = append(ep.Params, hp)
		}
		out = append(out, ep)
	}
	return out
}

// HLSLWarnings lists constructs that are valid but suspicious (mixed-sign
// interlocked operands ...).
func (p *Program) HLSLWarnings() []string {
	if p.hl == nil {
		return nil
	}
	return append([]string(nil), p.hl.warnings...)
}
