// Command w2g compiles a WGSL file to GLSL via naga (developer tool; not part of the oracle).
package main

import (
	"flag"
	"fmt"
	"os"

	"github.com/gogpu/naga"
	"github.com/gogpu/naga/glsl"
	"verif/internal/ctext"
)

func main() {
	ver := flag.Int("v", 430, "version (430, 450, 460, 310, 320)")
	ep := flag.String("e", "", "entry point")
	quiet := flag.Bool("q", false, "do not print the GLSL")
	doParse := flag.Bool("p", false, "parse with ctext")
	flag.Parse()
	for _, f := range flag.Args() {
		b, err := os.ReadFile(f)
		if err != nil {
			panic(err)
		}
		src := string(b)
		ast, err := naga.Parse(src)
		if err != nil {
			fmt.Println("PARSE ERR:", err)
			continue
		}
		m, err := naga.LowerWithSource(ast, src)
		if err != nil {
			fmt.Println("LOWER ERR:", err)
			continue
		}
		v := glsl.Version{Major: uint8(*ver / 100), Minor: uint8(*ver % 100)}
		if *ver == 310 || *ver == 320 || *ver == 300 {
			v.ES = true
		}
		eps := []string{*ep}
		if *ep == "" {
			eps = nil
			for _, e := range m.EntryPoints {
				eps = append(eps, e.Name)
			}
		}
		for _, e := range eps {
			txt, info, err := glsl.Compile(m, glsl.Options{LangVersion: v, EntryPoint: e})
			if !*quiet {
				fmt.Printf("// ==== %s ep=%s err=%v info=%+v\n%s\n", f, e, err, info, txt)
			}
			if *doParse && err == nil {
				_, perr := ctext.Parse(ctext.GLSL, txt)
				fmt.Printf("// ctext.Parse %s ep=%s: %v\n", f, e, perr)
			}
		}
	}
}
