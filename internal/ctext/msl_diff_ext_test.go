//go:build ctextdiff

package ctext_test

import (
	"errors"
	"fmt"
	"os"
	"regexp"
	"sort"
	"strings"
	"testing"

	"github.com/gogpu/naga"
	"github.com/gogpu/naga/ir"
	"github.com/gogpu/naga/msl"
	"pgregory.net/rapid"

	"verif/internal/ctext"
	"verif/internal/wgen"
	"verif/internal/wref"
	"verif/internal/xrun"
)

// TestMSLDifferential is a self-test of the MSL dialect through the public API
// (it is NOT the C04 check, which lives in checks/c04): generated WGSL compute
// programs are evaluated by the framework's reference evaluator (wref) and,
// compiled by naga to MSL under a random option set, by this interpreter.
// Discrepancies whose cause has been triaged as a naga defect (diffKnown) are
// counted; anything else fails: it is an interpreter bug or a new finding that
// must be triaged.
//
// It is behind the build tag ctextdiff (so that the package's tests do not
// depend on wgen / wref / xrun being buildable) and the environment variable:
// CTEXT_MSL_DIFF=1 go test -tags ctextdiff -run TestMSLDifferential -rapid.checks=N
func TestMSLDifferential(t *testing.T) {
	if os.Getenv("CTEXT_MSL_DIFF") == "" {
		t.Skip("set CTEXT_MSL_DIFF=1 to run the differential self-test")
	}
	stats := map[string]int{}
	defer func() {
		ks := make([]string, 0, len(stats))
		for k := range stats {
			ks = append(ks, k)
		}
		sort.Strings(ks)
		for _, k := range ks {
			t.Logf("%6d  %s", stats[k], k)
		}
	}()
	rapid.Check(t, func(t *rapid.T) {
		f := wgen.DefaultFeatures()
		f.ConstOK = wref.ConstOK
		f.Off = func(tag string) bool { return diffOff[tag] }
		gc := wgen.GenExec(t, f)
		c, _, discard, err := xrun.Build(gc, nil)
		if err != nil {
			stats["harness: reference evaluator failed"]++
			return
		}
		if discard != "" {
			stats["discard: "+discard]++
			return
		}
		dc := diffConfigs[rapid.IntRange(0, len(diffConfigs)-1).Draw(t, "config")]
		verdict, txt := diffJudge(c, dc)
		key := verdict
		if i := strings.Index(key, " @"); i > 0 {
			key = key[:i]
		}
		stats[key]++
		if strings.HasPrefix(verdict, "FAIL") {
			t.Fatalf("%s [%s]\n---- WGSL\n%s\n---- MSL\n%s", verdict, dc.name, c.WGSL, numberLines(txt))
		}
	})
}

type diffConfig struct {
	name    string
	opts    msl.Options
	binding string // "auto", "fake", "map"
}

var diffConfigs = []diffConfig{
	{"2.1 auto unchecked zero-wg", msl.Options{LangVersion: msl.Version2_1, ZeroInitializeWorkgroupMemory: true}, "auto"},
	{"3.0 fake rzsw zero-wg loop-bound", msl.Options{LangVersion: msl.Version3_0, FakeMissingBindings: true, ZeroInitializeWorkgroupMemory: true, ForceLoopBounding: true,
		BoundsCheckPolicies: msl.BoundsCheckPolicies{Index: msl.BoundsCheckReadZeroSkipWrite, Buffer: msl.BoundsCheckReadZeroSkipWrite}}, "fake"},
	{"1.2 map restrict zero-wg", msl.Options{LangVersion: msl.Version1_2, ZeroInitializeWorkgroupMemory: true,
		BoundsCheckPolicies: msl.BoundsCheckPolicies{Index: msl.BoundsCheckRestrict, Buffer: msl.BoundsCheckRestrict}}, "map"},
	{"2.4 auto restrict zero-wg loop-bound", msl.Options{LangVersion: msl.Version2_4, ZeroInitializeWorkgroupMemory: true, ForceLoopBounding: true,
		BoundsCheckPolicies: msl.BoundsCheckPolicies{Index: msl.BoundsCheckRestrict, Buffer: msl.BoundsCheckUnchecked}}, "auto"},
	{"3.1 map rzsw zero-wg", msl.Options{LangVersion: msl.Version3_1, ZeroInitializeWorkgroupMemory: true,
		BoundsCheckPolicies: msl.BoundsCheckPolicies{Index: msl.BoundsCheckReadZeroSkipWrite, Buffer: msl.BoundsCheckRestrict}}, "map"},
}

// diffOff: generator constructs switched off because they run into a triaged
// naga defect on almost every use (they are exercised by the cases of
// naga_msl_*_test.go instead): M6 select, M3 round, M1 determinant, M2
// transpose, M7 integer dot; module-scope constant expressions naga's front
// end rejects.
var diffOff = map[string]bool{
	"builtin.select": true, "builtin.round": true, "builtin.determinant": true, "builtin.transpose": true,
	"const-fold.mat-binary": true, // M13: a folded matrix + matrix is declared and constructed as a vector type
	"const.index.composite": true, // front end: member of a constant struct holding a vector evaluates to the wrong component
	"private-init.unary":    true, // M14: a negated literal inside a private variable's struct initializer is emitted as {}
	"ptr.deref.compound":    true, // M12: integer %= through a pointer is written metal::fmod
	"transpose.nonsquare":   true, "determinant.negate": true, "module-const.expr": true, "module-const.struct": true,
}

// diffKnown: signatures of discrepancies triaged as naga defects
// (naga_msl_defects_test.go) -> label.
var diffKnown = []struct{ pat, label string }{
	{"with a DefaultConstructible operand is ambiguous", "M5 rzsw load without parentheses"},
	{"signed integer overflow", "M7 signed overflow in naga_dot"},
	{"is read-only (parameter)", "M8 storage buffer declared const but passed to a non-const reference"},
	{"cannot take the address of an rvalue", "M10 rzsw check inside the operand of &"},
	{"vector sizes differ", "M9 swizzle of a binary expression without parentheses"},
	{"cannot index a value of type float", "M11 component of a constant splat written 0.0[0]"},
	{"metal::fmod(int, int) is ambiguous", "M12 integer %= through a pointer written metal::fmod"},
	{"the arguments supply", "M13 constant-folded matrix expression constructed as a vector"},
	{"(packed_", "M15 as_type applied to a packed vec3 member of a local struct (12 bytes) with a 16-byte target"},
	{"operands of ?: have incompatible types", "M6 `?:` operand without parentheses (swizzle applied to the last operand only)"},
	{"condition of type DefaultConstructible", "M5 rzsw load without parentheses"},
	{"metal::fmod(uint, uint) is ambiguous", "M12 integer %= through a pointer written metal::fmod"},
}

func numberLines(src string) string {
	var sb strings.Builder
	for i, l := range strings.Split(src, "\n") {
		fmt.Fprintf(&sb, "%d: %s\n", i+1, l)
	}
	return sb.String()
}

func words(s string, n int) string {
	f := strings.Fields(s)
	if len(f) > n {
		f = f[:n]
	}
	return strings.Join(f, " ")
}

type bufGlobalX struct {
	handle int
	name   string
	key    [2]uint32
}

func diffJudge(c *xrun.Case, dc diffConfig) (verdict, txt string) {
	ast, err := naga.Parse(c.WGSL)
	if err != nil {
		return "rejected by naga: parse: " + words(err.Error(), 5), ""
	}
	m, err := naga.LowerWithSource(ast, c.WGSL)
	if err != nil {
		return "rejected by naga: lower: " + words(err.Error(), 5), ""
	}
	var globals []bufGlobalX
	for i, g := range m.GlobalVariables {
		if g.Binding == nil {
			continue
		}
		switch m.Types[g.Type].Inner.(type) {
		case ir.SamplerType, ir.ImageType:
			continue
		}
		globals = append(globals, bufGlobalX{i, g.Name, [2]uint32{g.Binding.Group, g.Binding.Binding}})
	}
	sort.Slice(globals, func(i, j int) bool {
		a, b := globals[i].key, globals[j].key
		return a[0] < b[0] || (a[0] == b[0] && a[1] < b[1])
	})
	opts := dc.opts
	slotOf := map[[2]uint32]uint32{}
	switch dc.binding {
	case "auto":
		for i, g := range globals {
			slotOf[g.key] = uint32(i)
		}
	case "map":
		res := msl.EntryPointResources{Resources: map[ir.ResourceBinding]msl.BindTarget{}}
		for i, g := range globals {
			s := uint8(3 + 2*i)
			slotOf[g.key] = uint32(s)
			sl := s
			res.Resources[ir.ResourceBinding{Group: g.key[0], Binding: g.key[1]}] = msl.BindTarget{Buffer: &sl, Mutable: true}
		}
		ss := uint8(30)
		res.SizesBuffer = &ss
		opts.PerEntryPointMap = map[string]msl.EntryPointResources{c.Entry: res}
	}
	txt, info, err := msl.Compile(m, opts)
	if err != nil {
		return "rejected by naga (msl): " + words(err.Error(), 6), ""
	}
	classify := func(kind, msg string) string {
		for _, k := range diffKnown {
			if strings.Contains(msg, k.pat) {
				return "known naga defect: " + k.label
			}
		}
		if kind == "mismatch" && strings.Contains(txt, "uint(-1), ") && strings.Contains(txt, " == -1)") {
			return "known naga defect (textual signature): M16 firstLeadingBit(u32) tests x == -1 @" + msg
		}
		if swizzleOfParen.MatchString(c.WGSL) && kind != "step limit" {
			return "known naga defect (WGSL signature): M9 swizzle of a parenthesised expression @" + msg
		}
		if kind != "step limit" && bareConditional(txt) {
			return "known naga defect (textual signature): M6 `?:` operand without parentheses @" + msg
		}
		return "FAIL " + kind + ": " + msg
	}
	p, err := ctext.Parse(ctext.MSL, txt)
	if err != nil {
		var ue *ctext.UnsupportedError
		if errors.As(err, &ue) {
			return "unsupported: " + words(ue.What, 5), txt
		}
		return classify("invalid MSL", err.Error()), txt
	}
	entry := info.EntryPointNames[c.Entry]
	if entry == "" {
		entry = c.Entry
	}
	var ei ctext.EntryInfo
	for _, e := range p.EntryPoints() {
		if e.Name == entry {
			ei = e
		}
	}
	cfg := ctext.RunConfig{Entry: entry, NumWorkgroups: c.NumWG, StepLimit: c.StepBudget() * 4,
		LocalSize: [3]uint32{uint32(c.WGSize[0]), uint32(c.WGSize[1]), uint32(c.WGSize[2])},
		Buffers:   map[ctext.Slot][]byte{}, BlockByName: map[string][]byte{}, SizesFrom: map[string]ctext.Slot{}, SizesFromName: map[string]string{}}
	work := map[[2]int][]byte{}
	init := c.InitialBuffers()
	for _, g := range globals {
		k := [2]int{int(g.key[0]), int(g.key[1])}
		data, ok := init[k]
		if !ok {
			continue
		}
		work[k] = data
		member := fmt.Sprintf("size%d", g.handle)
		if dc.binding == "fake" {
			// the argument generated for the global: its name, possibly with a numeric suffix
			argName := ""
			for _, a := range ei.Args {
				if a.Name == g.name || (strings.HasPrefix(a.Name, g.name+"_") && strings.Trim(a.Name[len(g.name)+1:], "0123456789") == "") {
					argName = a.Name
					break
				}
			}
			if argName == "" {
				continue
			}
			cfg.BlockByName[argName] = data
			cfg.SizesFromName[member] = argName
		} else {
			s := ctext.Slot{Class: 'b', Index: slotOf[g.key]}
			cfg.Buffers[s] = data
			cfg.SizesFrom[member] = s
		}
	}
	res, err := p.Run(cfg)
	if err != nil {
		var ue *ctext.UnsupportedError
		if errors.As(err, &ue) {
			return "unsupported: " + words(ue.What, 5), txt
		}
		if err == ctext.ErrStepLimit {
			return classify("step limit", "the MSL does not terminate within 4x the reference step budget"), txt
		}
		return "FAIL run: " + err.Error(), txt
	}
	if res.Trap != "" {
		if strings.HasPrefix(res.Trap, "unsupported:") {
			return "unsupported (run): " + words(res.Trap, 5), txt
		}
		return classify("trap", res.Trap), txt
	}
	if len(res.Poison) > 0 {
		return classify("poison", res.Poison[0]), txt
	}
	if ok, msg := c.Compare(work); !ok {
		return classify("mismatch", msg), txt
	}
	return "ok", txt
}

var swizzleOfParen = regexp.MustCompile(`\)\.[xyzwrgba]{2,4}\b`)

// bareConditional reports the textual signature of defect M6: a conditional
// expression that is an operand of an arithmetic operator without enclosing
// parentheses:  `x + (c) ? a : b`,  `x + c ? a : b`,  `(c) ? a : b * y`.
func bareConditional(txt string) bool {
	isOp := func(b byte) bool { return strings.IndexByte("+-*/%&|^", b) >= 0 }
	for i := 0; i < len(txt); i++ {
		if txt[i] != '?' {
			continue
		}
		// left: the condition operand is a parenthesised group or a name
		j := i - 1
		for j >= 0 && txt[j] == ' ' {
			j--
		}
		if j >= 0 && txt[j] == ')' {
			depth := 0
			for ; j >= 0; j-- {
				if txt[j] == ')' {
					depth++
				}
				if txt[j] == '(' {
					depth--
					if depth == 0 {
						break
					}
				}
			}
			// a call: skip the callee name
			for j > 0 && (txt[j-1] == '_' || txt[j-1] == ':' || (txt[j-1] >= 'a' && txt[j-1] <= 'z') || (txt[j-1] >= 'A' && txt[j-1] <= 'Z') || (txt[j-1] >= '0' && txt[j-1] <= '9')) {
				j--
			}
			j--
		} else {
			for j >= 0 && (txt[j] == '_' || txt[j] == '.' || (txt[j] >= 'a' && txt[j] <= 'z') || (txt[j] >= 'A' && txt[j] <= 'Z') || (txt[j] >= '0' && txt[j] <= '9')) {
				j--
			}
		}
		for j >= 0 && txt[j] == ' ' {
			j--
		}
		if j >= 0 && (isOp(txt[j]) || (txt[j] == '=' && j > 0 && strings.IndexByte("=!<>", txt[j-1]) >= 0) ||
			(j > 0 && (txt[j] == '>' || txt[j] == '<') && txt[j-1] == txt[j])) {
			return true
		}
		// right: the else operand is followed by an arithmetic operator
		depth := 0
		k := i + 1
		for ; k < len(txt); k++ {
			c := txt[k]
			if c == '(' || c == '[' {
				depth++
			}
			if c == ')' || c == ']' {
				if depth == 0 {
					break
				}
				depth--
			}
			if depth == 0 && (c == ';' || c == ',' || c == '\n') {
				break
			}
			if depth == 0 && c == ':' && k+1 < len(txt) && txt[k+1] != ':' && txt[k-1] != ':' {
				// the else operand: one primary expression
				m := k + 1
				for m < len(txt) && txt[m] == ' ' {
					m++
				}
				d2 := 0
				for ; m < len(txt); m++ {
					e := txt[m]
					if e == '(' || e == '[' {
						d2++
					} else if e == ')' || e == ']' {
						if d2 == 0 {
							break
						}
						d2--
					} else if d2 == 0 && (e == ' ' || e == ';' || e == ',') {
						break
					}
				}
				for m < len(txt) && txt[m] == ' ' {
					m++
				}
				if m < len(txt) && (isOp(txt[m]) || strings.IndexByte("<>=!", txt[m]) >= 0) {
					return true
				}
				break
			}
		}
	}
	return false
}
