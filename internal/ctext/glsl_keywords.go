package ctext

import (
	"strings"
	"sync"
)

// Independent keyword / reserved-word tables for GLSL, transcribed from
// "The OpenGL Shading Language 4.60" §3.6 and "The OpenGL ES Shading Language
// 3.20" §3.7 (Keywords).  Only words that are certain for ALL of the versions
// in the given family that this front end accepts (desktop >= 3.30, ES >= 3.00)
// are listed in the common tables; version-dependent words carry a guard.

// glslKeywordsCommon: keywords of both desktop GLSL (>= 3.30) and ESSL (>= 3.00).
var glslKeywordsCommon = words(`
const uniform layout centroid flat smooth
break continue do for while switch case default if else
in out inout
float int uint void bool true false
invariant discard return
mat2 mat3 mat4 mat2x2 mat2x3 mat2x4 mat3x2 mat3x3 mat3x4 mat4x2 mat4x3 mat4x4
vec2 vec3 vec4 ivec2 ivec3 ivec4 bvec2 bvec3 bvec4 uvec2 uvec3 uvec4
lowp mediump highp precision
sampler2D sampler3D samplerCube sampler2DShadow samplerCubeShadow
sampler2DArray sampler2DArrayShadow
isampler2D isampler3D isamplerCube isampler2DArray
usampler2D usampler3D usamplerCube usampler2DArray
struct
`)

// Reserved for future use in both families (every version considered).
var glslReservedCommon = words(`
common partition active asm class union enum typedef template this
goto inline noinline public static extern external interface
long short half fixed unsigned superp input output
hvec2 hvec3 hvec4 fvec2 fvec3 fvec4
sampler3DRect filter sizeof cast namespace using
`)

// Desktop keywords (all desktop versions >= 3.30).
var glslKeywordsDesktop = words(`
attribute varying noperspective
sampler1D sampler1DShadow sampler1DArray sampler1DArrayShadow
isampler1D isampler1DArray usampler1D usampler1DArray
sampler2DRect sampler2DRectShadow isampler2DRect usampler2DRect
samplerBuffer isamplerBuffer usamplerBuffer
sampler2DMS isampler2DMS usampler2DMS
sampler2DMSArray isampler2DMSArray usampler2DMSArray
`)

// Desktop keywords added in 4.00.
var glslKeywordsDesktop400 = words(`
double dvec2 dvec3 dvec4
dmat2 dmat3 dmat4 dmat2x2 dmat2x3 dmat2x4 dmat3x2 dmat3x3 dmat3x4 dmat4x2 dmat4x3 dmat4x4
patch sample subroutine
samplerCubeArray samplerCubeArrayShadow isamplerCubeArray usamplerCubeArray
`)

// Desktop keywords added in 4.20 (image types, memory qualifiers, atomic_uint).
var glslKeywordsDesktop420 = words(`
coherent volatile restrict readonly writeonly atomic_uint
image1D iimage1D uimage1D image2D iimage2D uimage2D image3D iimage3D uimage3D
image2DRect iimage2DRect uimage2DRect imageCube iimageCube uimageCube
imageBuffer iimageBuffer uimageBuffer
image1DArray iimage1DArray uimage1DArray image2DArray iimage2DArray uimage2DArray
imageCubeArray iimageCubeArray uimageCubeArray
image2DMS iimage2DMS uimage2DMS image2DMSArray iimage2DMSArray uimage2DMSArray
`)

// Desktop keywords added in 4.30 / 4.00.
var glslKeywordsDesktop430 = words(`buffer shared`)
var glslKeywordsDesktop400b = words(`precise`)

// ESSL 3.10 additions to the 3.00 keyword set.
var glslKeywordsES310 = words(`
precise buffer shared coherent volatile restrict readonly writeonly atomic_uint
sampler2DMS isampler2DMS usampler2DMS
image2D iimage2D uimage2D image3D iimage3D uimage3D
imageCube iimageCube uimageCube image2DArray iimage2DArray uimage2DArray
`)

// ESSL 3.20 additions.
var glslKeywordsES320 = words(`
precise patch sample
samplerBuffer isamplerBuffer usamplerBuffer imageBuffer iimageBuffer uimageBuffer
sampler2DMSArray isampler2DMSArray usampler2DMSArray
samplerCubeArray samplerCubeArrayShadow isamplerCubeArray usamplerCubeArray
imageCubeArray iimageCubeArray uimageCubeArray
`)

// Reserved in every ESSL 3.x version (some become keywords later; a word that
// is either reserved or a keyword cannot be an identifier, which is all that
// matters here).
var glslReservedES = words(`
attribute varying noperspective subroutine
double dvec2 dvec3 dvec4
dmat2 dmat3 dmat4 dmat2x2 dmat2x3 dmat2x4 dmat3x2 dmat3x3 dmat3x4 dmat4x2 dmat4x3 dmat4x4
resource patch sample
coherent volatile restrict readonly writeonly atomic_uint
sampler1D sampler1DShadow sampler1DArray sampler1DArrayShadow
isampler1D isampler1DArray usampler1D usampler1DArray
sampler2DRect sampler2DRectShadow isampler2DRect usampler2DRect
samplerBuffer isamplerBuffer usamplerBuffer
sampler2DMS isampler2DMS usampler2DMS
sampler2DMSArray isampler2DMSArray usampler2DMSArray
image1D iimage1D uimage1D image2D iimage2D uimage2D image3D iimage3D uimage3D
image2DRect iimage2DRect uimage2DRect imageCube iimageCube uimageCube
imageBuffer iimageBuffer uimageBuffer
image1DArray iimage1DArray uimage1DArray image2DArray iimage2DArray uimage2DArray
image2DMS iimage2DMS uimage2DMS image2DMSArray iimage2DMSArray uimage2DMSArray
`)

// Reserved in desktop GLSL >= 4.20 ("resource" since 4.20).
var glslReservedDesktop420 = words(`resource`)

func words(s string) map[string]bool {
	m := map[string]bool{}
	for _, w := range strings.Fields(s) {
		m[w] = true
	}
	return m
}

// glslReservedSet builds the set of words that cannot be identifiers for a
// given version.
func glslReservedSet(version int, es bool) map[string]bool {
	key := version * 2
	if es {
		key++
	}
	reservedCacheMu.Lock()
	defer reservedCacheMu.Unlock()
	if m, ok := reservedCache[key]; ok {
		return m
	}
	m := buildGLSLReservedSet(version, es)
	reservedCache[key] = m
	return m
}

var (
	reservedCacheMu sync.Mutex
	reservedCache   = map[int]map[string]bool{} // read-only once built
)

func buildGLSLReservedSet(version int, es bool) map[string]bool {
	m := map[string]bool{}
	add := func(sets ...map[string]bool) {
		for _, s := range sets {
			for w := range s {
				m[w] = true
			}
		}
	}
	add(glslKeywordsCommon, glslReservedCommon)
	if es {
		add(glslReservedES)
		if version >= 310 {
			add(glslKeywordsES310)
		}
		if version >= 320 {
			add(glslKeywordsES320)
		}
	} else {
		add(glslKeywordsDesktop)
		if version >= 400 {
			add(glslKeywordsDesktop400, glslKeywordsDesktop400b)
		}
		if version >= 420 {
			add(glslKeywordsDesktop420, glslReservedDesktop420)
		}
		if version >= 430 {
			add(glslKeywordsDesktop430)
		}
	}
	return m
}

// glslOpaqueTypes: type keywords that this front end only knows by name.
func glslIsOpaqueTypeName(w string) bool {
	if w == "atomic_uint" {
		return true
	}
	for _, p := range []string{"sampler", "isampler", "usampler", "image", "iimage", "uimage"} {
		if strings.HasPrefix(w, p) && len(w) > len(p) {
			c := w[len(p)]
			if c == '1' || c == '2' || c == '3' || c == 'C' || c == 'B' || c == 'S' {
				return true
			}
		}
	}
	return false
}
