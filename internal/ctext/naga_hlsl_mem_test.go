package ctext

// Generated from naga_mem_test.go (same WGSL cases and hand-computed expectations);
// HLSL-specific findings are recorded in hlslKnownDefects (naga_hlsl_harness_test.go).

import "testing"

func TestNagaHLSLVectorsMatrices(t *testing.T) {
	runNagaHLSLCases(t, []nagaCase{
		{
			name: "vector construction swizzle component write",
			wgsl: outF + inF + `@compute @workgroup_size(1) fn main() {
  let v = vec4<f32>(a[0], a[1], a[2], a[3]);      // 1,2,3,4
  let s = v.wzyx.xy;                              // (4,3)
  var w = vec4<f32>(s, v.xx);                     // 4,3,1,1
  w.y = 9.0;
  w[2] = 8.0;
  let i = u32(a[0]);                              // 1
  w[i] = w[i] + 0.5;                              // w.y = 9.5
  o[0] = w.x; o[1] = w.y; o[2] = w.z; o[3] = w.w;
  let k = v.zyx * 2.0 + vec3<f32>(1.0) - v.xxy / 2.0;  // (6,4,2)+1-(0.5,0.5,1) = (6.5, 4.5, 2)
  o[4] = k.x; o[5] = k.y; o[6] = k.z;
  o[7] = v[i + 1u] + vec2<f32>(v.z, v.w)[i];      // 3 + 4
  let sp = vec3<f32>(a[1]);                       // splat 2
  o[8] = sp.x + sp.y + sp.z;
  o[9] = (v * v).w - (2.0 * v).y + (v / 4.0).x;   // 16 - 4 + 0.25
}`,
			bufs: map[gb][]byte{{0, 0}: zeros(40), {0, 1}: f32s(1, 2, 3, 4)},
			want: map[gb][]any{{0, 0}: wordsOf(float32(4), float32(9.5), float32(8), float32(1), float32(6.5), float32(4.5), float32(2), float32(7), float32(6), float32(12.25))},
		},
		{
			name: "vector comparisons any all",
			wgsl: outU + inF + `@compute @workgroup_size(1) fn main() {
  let p = vec3<f32>(a[0], a[1], a[2]);     // 1, 5, 3
  let q = vec3<f32>(2.0, 5.0, 1.0);
  let lt = p < q; let le = p <= q; let eq = p == q; let ne = p != q; let gt = p > q; let ge = p >= q;
  o[0] = u32(lt.x) + u32(lt.y) * 2u + u32(lt.z) * 4u;   // T F F = 1
  o[1] = u32(le.x) + u32(le.y) * 2u + u32(le.z) * 4u;   // T T F = 3
  o[2] = u32(eq.x) + u32(eq.y) * 2u + u32(eq.z) * 4u;   // F T F = 2
  o[3] = u32(ne.x) + u32(ne.y) * 2u + u32(ne.z) * 4u;   // T F T = 5
  o[4] = u32(gt.x) + u32(gt.y) * 2u + u32(gt.z) * 4u;   // F F T = 4
  o[5] = u32(ge.x) + u32(ge.y) * 2u + u32(ge.z) * 4u;   // F T T = 6
  o[6] = u32(any(lt)) + u32(all(lt)) * 2u + u32(all(le | gt)) * 4u + u32(any(eq & ne)) * 8u; // 1 + 0 + 4 + 0
  let n = !lt;
  o[7] = u32(n.x) + u32(n.y) * 2u + u32(n.z) * 4u;      // 6
}`,
			bufs: map[gb][]byte{{0, 0}: zeros(32), {0, 1}: f32s(1, 5, 3)},
			want: map[gb][]any{{0, 0}: wordsOf(uint32(1), uint32(3), uint32(2), uint32(5), uint32(4), uint32(6), uint32(5), uint32(6))},
		},
		{
			name: "matrix products",
			wgsl: outF + "@group(0) @binding(1) var<storage, read> m: mat2x3<f32>;\n@group(0) @binding(2) var<storage, read> sq: mat2x2<f32>;\n" + `@compute @workgroup_size(1) fn main() {
  // m = columns (1,2,3), (4,5,6) ; sq = columns (1,2), (3,4)
  let mv = m * vec2<f32>(1.0, 2.0);            // (9, 12, 15)
  o[0] = mv.x; o[1] = mv.y; o[2] = mv.z;
  let vm = vec3<f32>(1.0, 2.0, 3.0) * m;       // (14, 32)
  o[3] = vm.x; o[4] = vm.y;
  let mm = m * sq;                             // mat2x3: col0 = m*(1,2) = (9,12,15), col1 = m*(3,4) = (19,26,33)
  o[5] = mm[0].z; o[6] = mm[1].x; o[7] = mm[1][2];
  let ss = sq * sq;                            // (7,10), (15,22)
  o[8] = ss[0][0]; o[9] = ss[0][1]; o[10] = ss[1][0]; o[11] = ss[1][1];
  let two = o[14] + 2.0;                       // 0 + 2 (a runtime f32, not an abstract literal)
  let sc = sq * two + sq - (two / 4.0) * sq;   // 2.5 * sq
  o[12] = sc[1][1];                            // 10
  o[13] = determinant(sq);                     // -2
  o[14] = m[1][0] + m[0].y;                    // 4 + 2
}`,
			bufs: map[gb][]byte{{0, 0}: zeros(60), {0, 1}: f32s(1, 2, 3, 0, 4, 5, 6, 0), {0, 2}: f32s(1, 2, 3, 4)},
			want: map[gb][]any{{0, 0}: wordsOf(float32(9), float32(12), float32(15), float32(14), float32(32), float32(15), float32(19), float32(33), float32(7), float32(10), float32(15), float32(22), float32(10), float32(-2), float32(6))},
		},
		{
			name: "matrix times abstract float literal",
			wgsl: outF + "@group(0) @binding(1) var<storage, read> sq: mat2x2<f32>;\n" + `@compute @workgroup_size(1) fn main() {
  let sc = sq * 2.0;
  o[0] = sc[1][1];                             // 8
  let sd = 0.5 * sq;
  o[1] = sd[0][1];                             // 1
}`,
			bufs: map[gb][]byte{{0, 0}: zeros(8), {0, 1}: f32s(1, 2, 3, 4)},
			want: map[gb][]any{{0, 0}: wordsOf(float32(8), float32(1))},
		},
		{
			name: "transpose",
			wgsl: outF + "@group(0) @binding(1) var<storage, read> m: mat2x3<f32>;\n" + `@compute @workgroup_size(1) fn main() {
  let t = transpose(m);                        // mat3x2: t[c][r] = m[r][c]
  o[0] = t[2][1];                              // m[1][2] = 6
  o[1] = t[1][0];                              // m[0][1] = 2
  let tv = t * vec3<f32>(1.0, 1.0, 1.0);       // rows of t summed: (1+2+3, 4+5+6)
  o[2] = tv.x; o[3] = tv.y;
}`,
			bufs: map[gb][]byte{{0, 0}: zeros(16), {0, 1}: f32s(1, 2, 3, 0, 4, 5, 6, 0)},
			want: map[gb][]any{{0, 0}: wordsOf(float32(6), float32(2), float32(6), float32(15))},
		},
		{
			name: "matrix construction and column writes",
			wgsl: outF + inF + `@compute @workgroup_size(1) fn main() {
  var m = mat3x2<f32>(vec2<f32>(1.0, 2.0), vec2<f32>(3.0, 4.0), vec2<f32>(5.0, 6.0));
  m[1] = vec2<f32>(a[0], a[1]);      // (10, 20)
  m[2][0] = a[2];                    // 30
  let i = u32(a[3]);                 // 0
  m[i][1] = 7.0;
  m[i + 1u].x = 8.0;
  o[0] = m[0].x; o[1] = m[0].y; o[2] = m[1].x; o[3] = m[1].y; o[4] = m[2].x; o[5] = m[2].y;
  let z = mat2x2<f32>(1.0, 2.0, 3.0, 4.0);
  let id = mat2x2<f32>(vec2<f32>(1.0, 0.0), vec2<f32>(0.0, 1.0));
  let r = z * id + z;
  o[6] = r[1][0];                    // 6
  let c = m[i + 2u];                 // (30, 6)
  o[7] = c.x + c.y;
}`,
			bufs: map[gb][]byte{{0, 0}: zeros(32), {0, 1}: f32s(10, 20, 30, 0)},
			want: map[gb][]any{{0, 0}: wordsOf(float32(1), float32(7), float32(8), float32(20), float32(30), float32(6), float32(6), float32(36))},
		},
	})
}

func TestNagaHLSLBuffers(t *testing.T) {
	// struct S { a: vec3<f32>, b: f32, c: array<vec3<f32>, 2>, m: mat3x3<f32>, n: mat2x3<f32>, k: i32 }
	// WGSL layout (same for storage and uniform here): a 0, b 12, c 16 (stride 16, size 32), m 48 (3 cols, stride 16, size 48),
	// n 96 (2 cols, stride 16, size 32), k 128 ; size 144 (align 16)
	sDecl := "struct S { a: vec3<f32>, b: f32, c: array<vec3<f32>, 2>, m: mat3x3<f32>, n: mat2x3<f32>, k: i32 }\n"
	sBytes := func() []byte {
		b := zeros(144)
		copy(b[0:], f32s(1, 2, 3, 4))                 // a, b
		copy(b[16:], f32s(5, 6, 7, -1, 8, 9, 10, -1)) // c[0], pad, c[1], pad
		copy(b[48:], f32s(11, 12, 13, -1, 14, 15, 16, -1, 17, 18, 19, -1))
		copy(b[96:], f32s(20, 21, 22, -1, 23, 24, 25, -1))
		copy(b[128:], i32s(-9))
		return b
	}
	runNagaHLSLCases(t, []nagaCase{
		{
			name: "storage struct with vec3 padding read and copy",
			wgsl: sDecl + "@group(0) @binding(0) var<storage, read_write> d: S;\n@group(0) @binding(1) var<storage, read> s: S;\n@group(0) @binding(2) var<storage, read_write> o: array<f32>;\n" + `@compute @workgroup_size(1) fn main() {
  o[0] = s.a.z + s.b;                 // 3 + 4
  o[1] = s.c[1].y + s.c[0].x;         // 9 + 5
  o[2] = s.m[2][1] + s.m[0].x;        // 18 + 11
  o[3] = s.n[1].z + f32(s.k);         // 25 - 9
  let mv = s.m * s.a;                 // col0*1 + col1*2 + col2*3 = (11+28+51, 12+30+54, 13+32+57)
  o[4] = mv.x; o[5] = mv.y; o[6] = mv.z;
  d = s;                              // whole-struct copy
  d.b = 40.0;
  d.c[0] = vec3<f32>(50.0, 60.0, 70.0);
  d.m[1].y = 150.0;
  d.k = d.k * 2;
}`,
			bufs: map[gb][]byte{{0, 0}: zeros(144), {0, 1}: sBytes(), {0, 2}: zeros(28)},
			want: map[gb][]any{
				{0, 2}: wordsOf(float32(7), float32(14), float32(29), float32(16), float32(90), float32(96), float32(102)),
				{0, 0}: wordsOf(float32(1), float32(2), float32(3), float32(40), float32(50), float32(60), float32(70), skip, float32(8), float32(9), float32(10), skip,
					float32(11), float32(12), float32(13), skip, float32(14), float32(150), float32(16), skip, float32(17), float32(18), float32(19), skip,
					float32(20), float32(21), float32(22), skip, float32(23), float32(24), float32(25), skip, -18),
			},
		},
		{
			name: "uniform struct std140",
			wgsl: sDecl + "@group(0) @binding(0) var<storage, read_write> o: array<f32>;\n@group(0) @binding(1) var<uniform> u: S;\n" + `@compute @workgroup_size(1) fn main() {
  o[0] = u.a.y + u.b;                 // 2 + 4
  o[1] = u.c[1].z;                    // 10
  o[2] = u.m[1][2];                   // 16
  o[3] = u.n[0].y;                    // 21
  o[4] = f32(u.k);
  let t = u;                          // load the whole struct
  o[5] = t.c[0].y + t.m[2].z + t.n[1].x; // 6 + 19 + 23
}`,
			bufs: map[gb][]byte{{0, 0}: zeros(24), {0, 1}: sBytes()},
			want: map[gb][]any{{0, 0}: wordsOf(float32(6), float32(10), float32(16), float32(21), float32(-9), float32(48))},
		},
		{
			name: "uniform arrays with 16-byte stride",
			// U { v: array<vec4<f32>, 2> (0..32), w: array<vec4<u32>, 2> at 32, m: mat4x4<f32> at 64, t: f32 at 128 }
			wgsl: "struct U { v: array<vec4<f32>, 2>, w: array<vec4<u32>, 2>, m: mat4x4<f32>, t: f32 }\n@group(0) @binding(0) var<storage, read_write> o: array<f32>;\n@group(0) @binding(1) var<uniform> u: U;\n" + `@compute @workgroup_size(1) fn main() {
  o[0] = u.v[1].z + f32(u.w[1].y);    // 7 + 14
  o[1] = u.m[1][0] + u.m[0][1] + u.m[3][3];  // 5 + 2 + 16
  o[2] = u.t;
  let mm = u.m * vec4<f32>(1.0, 0.0, 0.0, 1.0); // col0 + col3 = (1+13, 2+14, 3+15, 4+16)
  o[3] = mm.x; o[4] = mm.w;
}`,
			bufs: map[gb][]byte{{0, 0}: zeros(20), {0, 1}: cat(f32s(1, 2, 3, 4, 5, 6, 7, 8), u32s(9, 10, 11, 12, 13, 14, 15, 16), f32s(1, 2, 3, 4, 5, 6, 7, 8, 9, 10, 11, 12, 13, 14, 15, 16), f32s(99, 0, 0, 0))},
			want: map[gb][]any{{0, 0}: wordsOf(float32(21), float32(23), float32(99), float32(14), float32(20))},
		},
		{
			name: "uniform mat2x2 member",
			// WGSL layout: U { m: mat2x2<f32> at 0 (column stride 8, size 16), t: f32 at 16 } size 32? (align 8 -> size 24)
			wgsl: "struct U { m: mat2x2<f32>, t: f32 }\n@group(0) @binding(0) var<storage, read_write> o: array<f32>;\n@group(0) @binding(1) var<uniform> u: U;\n" + `@compute @workgroup_size(1) fn main() {
  o[0] = u.m[1][0] + u.m[0][1];       // 3 + 2
  o[1] = u.t;
}`,
			bufs: map[gb][]byte{{0, 0}: zeros(8), {0, 1}: cat(f32s(1, 2, 3, 4), f32s(99, 0, 0, 0, 0, 0, 0, 0, 0, 0, 0, 0))},
			want: map[gb][]any{{0, 0}: wordsOf(float32(5), float32(99))},
		},
		{
			name: "runtime array and arrayLength",
			// struct Hdr { n: u32, pad: u32, items: array<P> }, P { pos: vec2<f32>, id: u32 } : P size 16 (align 8), items at offset 8
			wgsl: "struct P { pos: vec2<f32>, id: u32 }\nstruct Hdr { n: u32, pad: u32, items: array<P> }\n@group(0) @binding(0) var<storage, read_write> h: Hdr;\n@group(0) @binding(1) var<storage, read_write> raw: array<u32>;\n" + `@compute @workgroup_size(1) fn main() {
  let n = arrayLength(&h.items);      // (56 - 8) / 16 = 3
  h.n = n;
  raw[0] = arrayLength(&raw);         // 5
  for (var i = 0u; i < n; i++) {
    h.items[i].id = i * 10u + u32(h.items[i].pos.y);
  }
  h.items[n - 1u].pos = vec2<f32>(7.0, 8.0);
  raw[arrayLength(&raw) - 1u] = 77u;
}`,
			bufs: map[gb][]byte{{0, 0}: cat(u32s(0, 0xAAAAAAAA), f32s(1, 2), u32s(0, 0xBBBBBBBB), f32s(3, 4), u32s(0, 0xBBBBBBBB), f32s(5, 6), u32s(0, 0xBBBBBBBB)), {0, 1}: zeros(20)},
			want: map[gb][]any{
				{0, 0}: wordsOf(uint32(3), uint32(0xAAAAAAAA), float32(1), float32(2), uint32(2), skip, float32(3), float32(4), uint32(14), skip, float32(7), float32(8), uint32(26), skip),
				{0, 1}: wordsOf(uint32(5), uint32(0), uint32(0), uint32(0), uint32(77)),
			},
		},
		{
			name: "array of structs via pointers",
			wgsl: "struct E { v: vec3<i32>, w: i32 }\n@group(0) @binding(0) var<storage, read_write> es: array<E, 3>;\n" + `
fn bump(p: ptr<function, i32>, by: i32) -> i32 { let old = *p; *p = old + by; return old; }
@compute @workgroup_size(1) fn main() {
  let p = &es[1];
  (*p).w = (*p).v.x + (*p).v.z;       // 4 + 6
  let q = &es[2].v;
  (*q).y = 100;
  var loc = es[0].w;                  // 7
  let old = bump(&loc, 5);
  es[0].w = loc * 100 + old;          // 1207
  es[0].v = es[1].v + es[2].v;        // (4,5,6) + (7,100,9)
}`,
			bufs: map[gb][]byte{{0, 0}: i32s(1, 2, 3, 7, 4, 5, 6, 0, 7, 8, 9, 0)},
			want: map[gb][]any{{0, 0}: wordsOf(11, 105, 15, 1207, 4, 5, 6, 10, 7, 100, 9, 0)},
		},
		{
			name: "nested arrays and private initialisers",
			wgsl: outI + inI + `
var<private> tbl: array<array<i32, 3>, 2> = array<array<i32, 3>, 2>(array<i32, 3>(1, 2, 3), array<i32, 3>(4, 5, 6));
var<private> acc: i32 = 100;
var<private> zero: vec2<i32>;
const K = array<i32, 4>(10, 20, 30, 40);
fn add(x: i32) { acc += x; }
@compute @workgroup_size(1) fn main() {
  let i = a[0]; let j = a[1];        // 1, 2
  o[0] = tbl[i][j] + tbl[0][i];      // 6 + 2
  tbl[i][0] = 50;
  o[1] = tbl[1][0] + tbl[1][1];      // 55
  o[2] = K[j] + K[i + j];            // 30 + 40
  add(5); add(K[0]);
  o[3] = acc + zero.x + zero.y;      // 115
  var loc: array<vec2<i32>, 3>;
  loc[j] = vec2<i32>(7, 8);
  loc[i].y = 9;
  o[4] = loc[0].x + loc[1].y * 10 + loc[2].x * 100 + loc[2].y * 1000; // 0 + 90 + 700 + 8000
  var copy = tbl;
  copy[0][2] = -1;
  o[5] = copy[0][2] + tbl[0][2];     // -1 + 3
}`,
			bufs: map[gb][]byte{{0, 0}: zeros(24), {0, 1}: i32s(1, 2)},
			want: map[gb][]any{{0, 0}: wordsOf(8, 55, 70, 115, 8790, 2)},
		},
	})
}
