package ctext

import (
	"errors"
	"strings"
	"testing"
)

// runBody runs a main() body that writes to "uint o[]" (binding 0, n words).
func runBody(t *testing.T, hdr, decls, body string, n int) ([]uint32, *RunResult) {
	t.Helper()
	src := exprShader(hdr, decls, body, nil)
	p := mustParse(t, src)
	out := zeros(4 * n)
	res := run1(t, p, map[Slot][]byte{{Class: 's', Index: 0}: out, {Class: 's', Index: 1}: stdInputBuf()}, [3]uint32{1, 1, 1})
	return words32(out), res
}

func wantWords(t *testing.T, got []uint32, want ...uint32) {
	t.Helper()
	for i, w := range want {
		if got[i] != w {
			t.Errorf("o[%d] = %d (%#x), want %d (%#x)", i, got[i], got[i], w, w)
		}
	}
}

func TestSwitchFallThrough(t *testing.T) {
	body := `
  for (int i = 0; i < 6; i++) {
    uint r = 0u;
    switch (i) {
      case 0: r += 1u;          // falls through
      case 1: r += 10u; break;
      default: r += 1000u;      // default in the middle, falls through into case 3
      case 3: { r += 100u; break; }
      case 4:
      case 5: r += 7u; if (i == 5) { break; } r += 1u; break;
    }
    o[i] = r;
  }
  // continue inside a switch continues the enclosing loop
  uint c = 0u;
  for (int i = 0; i < 4; i++) {
    switch (i) { case 1: continue; default: break; }
    c += 1u;
  }
  o[6] = c;
  // no matching case and no default: nothing executes
  uint z = 5u;
  switch (9) { case 1: z = 0u; break; }
  o[7] = z;
  // uint selector with int labels (4.x: int converted to uint before the compare)
  switch (uv[0]) { case 7: o[8] = 1u; break; default: o[8] = 2u; break; }
`
	got, res := runBody(t, hdr430, "", body, 9)
	clean(t, res)
	wantWords(t, got, 11, 10, 1100, 100, 8, 7, 3, 5, 1)
}

func TestLoops(t *testing.T) {
	body := `
  int s = 0;
  for (int i = 0; i < 10; i++) { if (i == 2) continue; if (i == 5) break; s += i; }
  o[0] = uint(s);                       // 0+1+3+4 = 8
  int w = 0; int n = 10;
  while (n > 0) { n -= 3; w++; }
  o[1] = uint(w);                       // 10,7,4,1 -> 4 iterations
  int d = 0;
  do { d++; } while (d < 0);
  o[2] = uint(d);                       // body runs once
  int k = 0;
  for (;;) { k++; if (k >= 7) { break; } }
  o[3] = uint(k);
  // nested loops with break of the inner only
  int cnt = 0;
  for (int a = 0; a < 3; a++) { for (int b = 0; b < 3; b++) { if (b > a) break; cnt++; } }
  o[4] = uint(cnt);                     // 1+2+3
  // comma operator and post/pre increments
  int p = 1; int q = (p++, p + 1);
  o[5] = uint(q) * 10u + uint(p);       // q = 3, p = 2
  int r = 5; int r1 = r++; int r2 = ++r; int r3 = r--; int r4 = --r;
  o[6] = uint(r1 * 1000 + r2 * 100 + r3 * 10 + r4); // 5,7,7,5
  // scoping: inner declaration hides the outer one
  int v = 1; { int v = 2; v++; } o[7] = uint(v);
  // a variable declared in a loop body is undefined again on each iteration unless initialised
  int acc = 0;
  for (int i = 0; i < 3; i++) { int t = i * 2; acc += t; }
  o[8] = uint(acc);
  int x = 3; { int y = x; int x = y + 1; o[9] = uint(x); }  // inner x initialised from outer x through y
`
	got, res := runBody(t, hdr430, "", body, 10)
	clean(t, res)
	wantWords(t, got, 8, 4, 1, 7, 6, 32, 5775, 1, 6, 4)
}

func TestFunctionsInOut(t *testing.T) {
	decls := `
struct P { int a; float b[2]; };
int g = 10;
void addTo(inout int x, int d) { x += d; }
void setOut(out int x) { x = 42; }
int both(inout int x, out int y) { y = x * 2; x = x + 1; return x + y; }
void swap(inout vec2 v) { v = v.yx; }
// copy-in / copy-out: the callee works on its own copy; the global is only updated at return
int alias(inout int x) { x = 1; int seen = g; x = 2; return seen; }
void mod(inout P p) { p.a = 7; p.b[1] = 3.0; }
int byValue(int x) { x = x + 100; return x; }
int fwd(int a);
int usesFwd(int a) { return fwd(a) + 1; }
int fwd(int a) { return a * 3; }
float over(float x) { return 1.0; }
float over(int x) { return 2.0; }
float over(vec2 x) { return 3.0; }
int early(int a) { if (a > 0) { return 1; } return 2; }
int loopret(int a) { for (int i = 0; i < 10; i++) { if (i == a) { return i * 10; } } return -1; }
`
	body := `
  int a = 1; addTo(a, 4); o[0] = uint(a);
  int b; setOut(b); o[1] = uint(b);
  int c = 3; int d; int e = both(c, d); o[2] = uint(c * 100 + d * 10) + uint(e); // c=4,d=6,e=10
  vec2 v = vec2(1.0, 2.0); swap(v); o[3] = uint(v.x) * 10u + uint(v.y);
  int seen = alias(g); o[4] = uint(seen) * 10u + uint(g);   // seen = 10 (global untouched during the call), g = 2 after
  P p = P(1, float[2](1.0, 2.0)); mod(p); o[5] = uint(p.a) * 10u + uint(p.b[1]);
  int bv = 5; int r = byValue(bv); o[6] = uint(r) + uint(bv);
  o[7] = uint(usesFwd(2));
  o[8] = uint(over(1.0)) * 100u + uint(over(1)) * 10u + uint(over(vec2(0.0)));
  o[9] = uint(early(1) * 10 + early(-1));
  o[10] = uint(loopret(3)) + uint(loopret(50) + 1);
  // out argument that is a swizzle / array element
  ivec3 iv3 = ivec3(0); setOut(iv3.y); int arr[2] = int[2](0, 0); setOut(arr[1]); o[11] = uint(iv3.y + arr[1] + iv3.x);
`
	got, res := runBody(t, hdr430, decls, body, 12)
	clean(t, res)
	wantWords(t, got, 5, 42, 470, 21, 102, 73, 110, 7, 123, 12, 30, 84)
}

func TestIntOutConversion(t *testing.T) {
	// out parameter: the conversion goes from the parameter type to the argument type (§6.1.1)
	decls := "void give(out int x) { x = -3; }\n"
	got, res := runBody(t, hdr430, decls, "  float f; give(f); o[0] = floatBitsToUint(f);\n", 1)
	clean(t, res)
	wantWords(t, got, fb(-3))
	if code, _ := parseErr(exprShader(hdr430, "void give(out float x) { x = 1.0; }\n", "  int i; give(i);\n", nil)); code != "no-overload" {
		t.Errorf("out float -> int argument accepted: %q", code)
	}
}

func TestGlobalsPerInvocationSharedPerWorkgroup(t *testing.T) {
	src := `#version 430 core
layout(local_size_x = 4) in;
layout(std430, binding = 0) buffer O { uint o[]; };
int counter = 5;
shared uint total;
shared uint slots[4];
void bump() { counter++; }
void main() {
  uint li = gl_LocalInvocationIndex;
  if (li == 0u) { total = 0u; }
  barrier();
  bump(); bump();
  slots[li] = uint(counter) + li;
  atomicAdd(total, li + 1u);
  barrier();
  // read the neighbour's slot: needs the barrier above
  o[gl_GlobalInvocationID.x] = slots[(li + 1u) % 4u] * 100u + total;
}`
	p := mustParse(t, src)
	for _, rev := range []bool{false, true} {
		out := zeros(4 * 8)
		res, err := p.Run(RunConfig{Buffers: map[Slot][]byte{{Class: 's', Index: 0}: out}, NumWorkgroups: [3]uint32{2, 1, 1}, StepLimit: 100000, ReverseOrder: rev})
		if err != nil {
			t.Fatal(err)
		}
		clean(t, res)
		// counter = 7 in every invocation; slots[i] = 7+i; total = 1+2+3+4 = 10
		want := []uint32{810, 910, 1010, 710, 810, 910, 1010, 710}
		wantWords(t, words32(out), want...)
		if res.Invocations != 8 {
			t.Errorf("invocations = %d", res.Invocations)
		}
	}
}

func TestBuiltinVariables(t *testing.T) {
	src := `#version 430 core
layout(local_size_x = 2, local_size_y = 3, local_size_z = 1) in;
layout(std430, binding = 0) buffer O { uint o[]; };
void main() {
  uint flatIdx = gl_GlobalInvocationID.y * (gl_NumWorkGroups.x * gl_WorkGroupSize.x) + gl_GlobalInvocationID.x;
  o[flatIdx] = gl_WorkGroupID.x * 100000u + gl_WorkGroupID.y * 10000u + gl_LocalInvocationID.x * 1000u + gl_LocalInvocationID.y * 100u + gl_LocalInvocationIndex * 10u + gl_NumWorkGroups.y;
}`
	p := mustParse(t, src)
	if p.LocalSize() != [3]uint32{2, 3, 1} {
		t.Fatalf("local size %v", p.LocalSize())
	}
	out := zeros(4 * 4 * 6)
	res, err := p.Run(RunConfig{Buffers: map[Slot][]byte{{Class: 's', Index: 0}: out}, NumWorkgroups: [3]uint32{2, 2, 1}, StepLimit: 100000})
	if err != nil {
		t.Fatal(err)
	}
	clean(t, res)
	w := words32(out)
	// global (x=3, y=4): workgroup (1,1), local (1,1), local index 1*2+1 = 3; flat = 4*4+3 = 19
	if w[19] != 1*100000+1*10000+1*1000+1*100+3*10+2 {
		t.Errorf("o[19] = %d", w[19])
	}
	// global (0,2): workgroup (0,0), local (0,2), index 4; flat = 8
	if w[8] != 0+0+0+200+40+2 {
		t.Errorf("o[8] = %d", w[8])
	}
}

func TestBarrierDivergenceTraps(t *testing.T) {
	src := `#version 430 core
layout(local_size_x = 2) in;
layout(std430, binding = 0) buffer O { uint o[]; };
void main() { if (gl_LocalInvocationIndex == 0u) { return; } barrier(); o[0] = 1u; }`
	p := mustParse(t, src)
	res, err := p.Run(RunConfig{Buffers: map[Slot][]byte{{Class: 's', Index: 0}: zeros(4)}, NumWorkgroups: [3]uint32{1, 1, 1}, StepLimit: 10000})
	if err != nil {
		t.Fatal(err)
	}
	if !strings.Contains(res.Trap, "barrier()") {
		t.Errorf("trap = %q", res.Trap)
	}
}

func TestStepLimit(t *testing.T) {
	p := mustParse(t, exprShader(hdr430, "", "  uint i = 0u; while (true) { i++; }\n", nil))
	_, err := p.Run(RunConfig{Buffers: map[Slot][]byte{{Class: 's', Index: 0}: zeros(4), {Class: 's', Index: 1}: stdInputBuf()}, NumWorkgroups: [3]uint32{1, 1, 1}, StepLimit: 5000})
	if !errors.Is(err, ErrStepLimit) {
		t.Errorf("err = %v", err)
	}
	// also inside a coroutine-scheduled run
	p = mustParse(t, exprShader(hdr430, "", "  barrier(); uint i = 0u; while (true) { i++; }\n", nil))
	_, err = p.Run(RunConfig{Buffers: map[Slot][]byte{{Class: 's', Index: 0}: zeros(4), {Class: 's', Index: 1}: stdInputBuf()}, NumWorkgroups: [3]uint32{1, 1, 1}, StepLimit: 5000})
	if !errors.Is(err, ErrStepLimit) {
		t.Errorf("err = %v", err)
	}
}

func TestAtomics(t *testing.T) {
	src := `#version 430 core
layout(local_size_x = 1) in;
layout(std430, binding = 0) buffer O { uint o[]; };
layout(std430, binding = 2) buffer A { uint au; int ai; uint arr[2]; } at;
shared int si;
void main() {
  si = 5;
  o[0] = atomicAdd(at.au, 3u);            // old 10 -> 13
  o[1] = uint(atomicMin(at.ai, -5));      // old -2 -> -5
  o[2] = uint(atomicMax(at.ai, 4));       // old -5 -> 4
  o[3] = atomicAnd(at.arr[0], 0xF0u);     // old 0xFF -> 0xF0
  o[4] = atomicOr(at.arr[0], 0x0Fu);      // old 0xF0 -> 0xFF
  o[5] = atomicXor(at.arr[1], 0xFFu);     // old 0x0F -> 0xF0
  o[6] = atomicExchange(at.arr[1], 7u);   // old 0xF0 -> 7
  o[7] = atomicCompSwap(at.arr[1], 7u, 9u);  // equal: -> 9, returns 7
  o[8] = atomicCompSwap(at.arr[1], 7u, 11u); // not equal: stays 9, returns 9
  o[9] = uint(atomicAdd(si, 1)) * 10u + uint(si);
}`
	p := mustParse(t, src)
	out := zeros(40)
	ab := cat(u32s(10), i32s(-2), u32s(0xFF, 0x0F))
	res := run1(t, p, map[Slot][]byte{{Class: 's', Index: 0}: out, {Class: 's', Index: 2}: ab}, [3]uint32{1, 1, 1})
	clean(t, res)
	wantWords(t, words32(out), 10, 0xFFFFFFFE, 0xFFFFFFFB, 0xFF, 0xF0, 0x0F, 0xF0, 7, 9, 56)
	wantWords(t, words32(ab), 13, 4, 0xFF, 9)
	// atomics need a buffer or shared variable
	if code, _ := parseErr(hdr430 + "void main() { uint x = 0u; atomicAdd(x, 1u); }"); code != "type" {
		t.Errorf("atomicAdd on a local accepted: %q", code)
	}
}
