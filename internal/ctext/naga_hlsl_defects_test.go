package ctext

import "testing"

// The cases of naga_defects_test.go (GLSL findings) run through the HLSL backend,
// followed by HLSL-specific cases.
func TestNagaHLSLOtherCases(t *testing.T) {
	runNagaHLSLCases(t, []nagaCase{
		{
			name: "determinant result type",
			wgsl: outF + "@group(0) @binding(1) var<storage, read> m: mat2x2<f32>;\n" + `@compute @workgroup_size(1) fn main() {
  let d = determinant(m);
  o[0] = d;                              // 1*4 - 3*2 = -2
}`,
			bufs: map[gb][]byte{{0, 0}: zeros(4), {0, 1}: f32s(1, 2, 3, 4)},
			want: map[gb][]any{{0, 0}: wordsOf(float32(-2))},
		},
		{
			name: "abs of unsigned",
			wgsl: outU + inU + `@compute @workgroup_size(1) fn main() {
  o[0] = abs(a[0]);                      // identity on u32
  let v = abs(vec2<u32>(a[0], 7u));
  o[1] = v.x + v.y;
}`,
			bufs: map[gb][]byte{{0, 0}: zeros(8), {0, 1}: u32s(0xFFFFFFF0)},
			want: map[gb][]any{{0, 0}: wordsOf(uint32(0xFFFFFFF0), uint32(0xFFFFFFF7))},
		},
		{
			name: "all and any of a scalar bool",
			wgsl: outU + inU + `@compute @workgroup_size(1) fn main() {
  let b = a[0] > 1u;
  o[0] = u32(all(b)) + u32(any(b)) * 2u;  // identity on bool
}`,
			bufs: map[gb][]byte{{0, 0}: zeros(4), {0, 1}: u32s(5)},
			want: map[gb][]any{{0, 0}: wordsOf(uint32(3))},
		},
		{
			name: "function named vecs",
			wgsl: outI + inI + `
fn vecs(p: vec3<i32>, q: vec3<i32>) -> vec3<i32> { return p + q; }
@compute @workgroup_size(1) fn main() {
  let r = vecs(vec3(1, 2, 3), vec3<i32>(a[0], a[1], a[2]));
  o[0] = r.x * 100 + r.y * 10 + r.z;    // (11, 22, 33)
}`,
			bufs: map[gb][]byte{{0, 0}: zeros(4), {0, 1}: i32s(10, 20, 30)},
			want: map[gb][]any{{0, 0}: wordsOf(1100 + 220 + 33)},
		},
		{
			name: "signed remainder with negative operands",
			wgsl: outI + inI + `@compute @workgroup_size(1) fn main() {
  o[0] = a[0] % a[1];                    // -7 % 3 = -1 in WGSL (sign of the dividend)
  o[1] = a[2] % a[3];                    // 7 % -3 = 1
}`,
			bufs: map[gb][]byte{{0, 0}: zeros(8), {0, 1}: i32s(-7, 3, 7, -3)},
			want: map[gb][]any{{0, 0}: wordsOf(-1, 1)},
		},
	})
}

// H10: without hlsl.Options.SpecialConstantsBinding, @builtin(num_workgroups)
// is silently given the semantic SV_GroupID (the workgroup id) instead of being
// rejected or routed through a constant buffer.  The test asserts that the
// defect is still present.
func TestNagaHLSLNumWorkgroupsWithoutConstants(t *testing.T) {
	m, err := lowerWGSL(outU + `@compute @workgroup_size(1) fn main(@builtin(num_workgroups) nwg: vec3<u32>, @builtin(workgroup_id) wid: vec3<u32>) {
  o[wid.x] = nwg.x * 10u + nwg.y;
}`)
	if err != nil {
		t.Fatal(err)
	}
	txt, _, err := compileHLSLModule(m, hlslOptions(hlslConfigs[0], "main", nil))
	if err != nil {
		t.Skipf("naga now rejects num_workgroups without a constants binding: %v", err)
	}
	p, err := Parse(HLSL, txt)
	if err != nil {
		t.Fatalf("%v\n%s", err, numbered(txt))
	}
	out := zeros(12)
	res, err := p.Run(RunConfig{Buffers: map[Slot][]byte{{Class: 'u', Index: 0}: out}, NumWorkgroups: [3]uint32{3, 1, 1}, StepLimit: 10000})
	if err != nil || res.Trap != "" {
		t.Fatalf("%v %+v", err, res)
	}
	got := words32(out)
	if got[0] == 31 && got[1] == 31 && got[2] == 31 {
		t.Fatalf("defect H10 no longer observed: move this case to the passing set\n%s", numbered(txt))
	}
	sem := ""
	for _, prm := range p.HLSLEntryPoints()[0].Params {
		sem += prm.Name + ":" + prm.Semantic + " "
	}
	t.Logf("suspected naga defect still present: num_workgroups read as %v (want 31 31 31); parameters: %s", got, sem)
}
