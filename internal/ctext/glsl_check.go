package ctext

import (
	"strings"
)

// glslRules implements langRules with the typing rules of GLSL 4.60 §5
// (Operators and Expressions), §4.1.10 (Implicit Conversions), §5.4
// (Constructors) and the matching sections of ESSL 3.20.
type glslRules struct {
	fe *glslFE
}

func (r *glslRules) userMayRedeclareBuiltin() bool { return !r.fe.es }
func (r *glslRules) returnConverts() bool          { return !r.fe.es }
func (r *glslRules) namedType(name string) (*Type, bool) {
	return r.fe.builtinType(name)
}

func (r *glslRules) checkArrayDims(c *checker, tx *TypeExpr) {
	if len(tx.Dims) > 1 && !r.fe.atLeast(430, 310) {
		c.invalid(tx.Pos, "version", "arrays of arrays need GLSL 4.30 / ESSL 3.10")
	}
}

func sameShape(a, b *Type) bool {
	if a.IsScalar() && b.IsScalar() {
		return true
	}
	if a.Kind == KVec && b.Kind == KVec {
		return a.N == b.N
	}
	if a.Kind == KMat && b.Kind == KMat {
		return a.Cols == b.Cols && a.Rows == b.Rows
	}
	return false
}

// implicitConv: GLSL 4.60 §4.1.10 table; ESSL has no implicit conversions
// (ESSL 3.20 §4.1.10? no such section: "there are no implicit conversions
// between types", §5.9/§4).
func (r *glslRules) implicitConv(from, to *Type) bool {
	if from == to {
		return true
	}
	if r.fe.es {
		return false
	}
	if !sameShape(from, to) {
		return false
	}
	return r.baseConv(from.Base(), to.Base())
}

func (r *glslRules) baseConv(fb, tb Kind) bool {
	if fb == tb {
		return true
	}
	if r.fe.es {
		return false
	}
	v400 := r.fe.version >= 400
	switch fb {
	case KInt:
		return (tb == KUint && v400) || tb == KFloat || (tb == KDouble && v400)
	case KUint:
		return tb == KFloat || (tb == KDouble && v400)
	case KFloat:
		return tb == KDouble && v400
	}
	return false
}

// convBetter: GLSL 4.60 §6.1.1 rules 2 and 3.
func (r *glslRules) convBetter(from, a, b *Type) bool {
	fb, ab, bb := from.Base(), a.Base(), b.Base()
	if fb == KFloat && ab == KDouble && bb != KDouble {
		return true
	}
	if (fb == KInt || fb == KUint) && ab == KFloat && bb == KDouble {
		return true
	}
	return false
}

// commonBase returns the base type both operand bases convert to.
func (r *glslRules) commonBase(a, b Kind) (Kind, bool) {
	if a == b {
		return a, true
	}
	if r.baseConv(a, b) {
		return b, true
	}
	if r.baseConv(b, a) {
		return a, true
	}
	return KVoid, false
}

func (r *glslRules) unaryType(c *checker, pos Pos, op string, t *Type) *Type {
	switch op {
	case "-", "+":
		if t.IsNumericScalar() || ((t.IsVec() || t.IsMat()) && t.Base() != KBool) {
			return t
		}
	case "!":
		if t == tBool {
			return t
		}
	case "~":
		if t.IsIntegral() {
			return t
		}
	}
	c.invalid(pos, "type", "unary operator %s cannot be applied to %s", op, t)
	return nil
}

func (r *glslRules) binaryTypes(c *checker, pos Pos, op string, lt, rt *Type) (res, lc, rc *Type, mode binMode) {
	bad := func(why string) {
		c.invalid(pos, "type", "operator %s cannot be applied to %s and %s%s", op, lt, rt, why)
	}
	arith := func(t *Type) bool {
		return t.IsNumericScalar() || ((t.IsVec() || t.IsMat()) && t.Base() != KBool)
	}
	switch op {
	case "+", "-", "*", "/", "%", "&", "|", "^":
		integerOnly := op == "%" || op == "&" || op == "|" || op == "^"
		if !arith(lt) || !arith(rt) {
			bad("")
		}
		if integerOnly && (!lt.IsIntegral() || !rt.IsIntegral()) {
			bad(" (integer operands required)")
		}
		if op == "%" && !r.fe.atLeast(130, 300) {
			bad(" (% needs GLSL 1.30)")
		}
		b, ok := r.commonBase(lt.Base(), rt.Base())
		if !ok {
			bad(" (no implicit conversion between the operand types)")
		}
		lc, rc = lt.withBase(b), rt.withBase(b)
		if lc == nil || rc == nil {
			bad("")
		}
		switch {
		case lc.IsScalar() && rc.IsScalar():
			return lc, lc, rc, bmComponent
		case lc.IsScalar():
			return rc, lc, rc, bmComponent
		case rc.IsScalar():
			return lc, lc, rc, bmComponent
		case lc.IsVec() && rc.IsVec():
			if lc.N != rc.N {
				bad(" (vector sizes differ)")
			}
			return lc, lc, rc, bmComponent
		}
		// at least one matrix, no scalar
		if op == "*" {
			switch {
			case lc.IsMat() && rc.IsVec():
				if rc.N != lc.Cols {
					bad(" (vector size must equal the number of matrix columns)")
				}
				return vecOf(lc.Elem, lc.Rows), lc, rc, bmMatVec
			case lc.IsVec() && rc.IsMat():
				if lc.N != rc.Rows {
					bad(" (vector size must equal the number of matrix rows)")
				}
				return vecOf(rc.Elem, rc.Cols), lc, rc, bmVecMat
			case lc.IsMat() && rc.IsMat():
				if lc.Cols != rc.Rows {
					bad(" (columns of the left matrix must equal rows of the right matrix)")
				}
				return matOf(lc.Elem, rc.Cols, lc.Rows), lc, rc, bmMatMat
			}
		}
		if lc.IsMat() && rc.IsMat() && lc.Cols == rc.Cols && lc.Rows == rc.Rows {
			return lc, lc, rc, bmComponent
		}
		bad("")
	case "<<", ">>":
		if !lt.IsIntegral() || !rt.IsIntegral() {
			bad(" (integer operands required)")
		}
		if !r.fe.atLeast(130, 300) {
			bad(" (shifts need GLSL 1.30)")
		}
		if lt.IsScalar() && !rt.IsScalar() {
			bad(" (if the first operand is a scalar the second must be a scalar)")
		}
		if lt.IsVec() && rt.IsVec() && lt.N != rt.N {
			bad(" (vector sizes differ)")
		}
		return lt, lt, rt, bmComponent
	case "<", ">", "<=", ">=":
		if !lt.IsNumericScalar() || !rt.IsNumericScalar() {
			bad(" (relational operators need scalar integer or floating-point operands; use lessThan() etc. for vectors)")
		}
		b, ok := r.commonBase(lt.Base(), rt.Base())
		if !ok {
			bad(" (no implicit conversion between the operand types)")
		}
		return tBool, scalarType(b), scalarType(b), bmComponent
	case "==", "!=":
		if lt.Kind == KOpaque || rt.Kind == KOpaque || lt.Kind == KVoid || rt.Kind == KVoid ||
			lt.containsKind(KOpaque) || rt.containsKind(KOpaque) {
			bad("")
		}
		if lt.hasRuntimeArray() || rt.hasRuntimeArray() {
			bad(" (arrays of unknown size)")
		}
		switch {
		case lt == rt:
			return tBool, lt, rt, bmWholeEq
		case r.implicitConv(lt, rt):
			return tBool, rt, rt, bmWholeEq
		case r.implicitConv(rt, lt):
			return tBool, lt, lt, bmWholeEq
		}
		bad(" (operand types must match)")
	case "&&", "||", "^^":
		if lt != tBool || rt != tBool {
			bad(" (scalar bool operands required)")
		}
		return tBool, lt, rt, bmLogical
	}
	bad("")
	return
}

// ---------------------------------------------------------------------------
// constructors: GLSL 4.60 §5.4
// ---------------------------------------------------------------------------

func (r *glslRules) checkCtor(c *checker, call *Call, t *Type) {
	args := call.Args
	pos := call.Pos
	call.Ctor = t
	call.T = t
	compArg := func(a Expr) int {
		at := a.base().T
		if at.IsScalar() || at.IsVec() || at.IsMat() {
			return at.nsc
		}
		c.invalid(a.base().Pos, "type", "constructor %s: argument of type %s is not a scalar, vector or matrix", t, at)
		return 0
	}
	countComponents := func(need int) {
		if len(args) == 0 {
			c.invalid(pos, "type", "constructor %s needs arguments", t)
		}
		have := 0
		for i, a := range args {
			if have >= need {
				// GLSL 4.60 §5.4.2: "It is a compile-time error to provide
				// extra arguments beyond this last used argument."
				c.invalid(a.base().Pos, "type", "constructor %s: too many arguments (argument %d is unused)", t, i+1)
			}
			have += compArg(a)
		}
		if have < need {
			c.invalid(pos, "type", "constructor %s: not enough components (%d of %d)", t, have, need)
		}
	}
	switch t.Kind {
	case KBool, KInt, KUint, KFloat, KDouble:
		if len(args) != 1 {
			c.invalid(pos, "type", "scalar constructor %s needs exactly one argument, got %d", t, len(args))
		}
		compArg(args[0])
	case KVec:
		if len(args) == 1 && args[0].base().T.IsScalar() {
			return // splat
		}
		countComponents(t.N)
	case KMat:
		if len(args) == 1 && args[0].base().T.IsScalar() {
			return // diagonal
		}
		if len(args) == 1 && args[0].base().T.IsMat() {
			return // matrix from matrix
		}
		for _, a := range args {
			if a.base().T.IsMat() {
				// GLSL 4.60 §5.4.2: "If a matrix argument is given to a matrix
				// constructor, it is a compile-time error to have any other arguments."
				c.invalid(a.base().Pos, "type", "constructor %s: a matrix argument must be the only argument", t)
			}
		}
		countComponents(t.nsc)
	case KArray:
		if t.Elem.Kind == KArray && t.Elem.N < 0 {
			c.invalid(pos, "type", "array constructor %s: inner dimension of unknown size", t)
		}
		if t.N < 0 {
			if len(args) == 0 {
				c.invalid(pos, "type", "array constructor %s needs at least one argument", t)
			}
			t = c.prog.tt.arrayOf(t.Elem, len(args))
			call.Ctor, call.T = t, t
		}
		if len(args) != t.N {
			c.invalid(pos, "type", "array constructor %s needs exactly %d arguments, got %d", t, t.N, len(args))
		}
		for i, a := range args {
			conv := c.convertTo(a, t.Elem)
			if conv == nil {
				c.invalid(a.base().Pos, "type", "array constructor %s: argument %d has type %s", t, i+1, a.base().T)
			}
			args[i] = conv
		}
	case KStruct:
		fs := t.Struct.Fields
		if len(args) != len(fs) {
			c.invalid(pos, "type", "structure constructor %s needs exactly %d arguments, got %d", t, len(fs), len(args))
		}
		for i, a := range args {
			conv := c.convertTo(a, fs[i].T)
			if conv == nil {
				c.invalid(a.base().Pos, "type", "structure constructor %s: argument %d (member %s of type %s) has type %s", t, i+1, fs[i].Name, fs[i].T, a.base().T)
			}
			args[i] = conv
		}
	default:
		c.invalid(pos, "type", "type %s has no constructor", t)
	}
}

// ---------------------------------------------------------------------------
// swizzles, .length()
// ---------------------------------------------------------------------------

var swizzleSets = []string{"xyzw", "rgba", "stpq"}

func (r *glslRules) checkVecMember(c *checker, m *Member) bool {
	xt := m.X.base().T
	if xt.IsScalar() && !r.fe.atLeast(420, 0) {
		c.invalid(m.Pos, "type", "swizzling a scalar (%s) needs GLSL 4.20", xt)
	}
	n := xt.VecSize()
	if len(m.Name) == 0 || len(m.Name) > 4 {
		c.invalid(m.Pos, "type", "bad swizzle .%s", m.Name)
	}
	set := -1
	swz := make([]uint8, len(m.Name))
	for i := 0; i < len(m.Name); i++ {
		found := false
		for si, s := range swizzleSets {
			if k := strings.IndexByte(s, m.Name[i]); k >= 0 {
				if set >= 0 && set != si {
					c.invalid(m.Pos, "type", "swizzle .%s mixes component name sets", m.Name)
				}
				set = si
				if k >= n {
					c.invalid(m.Pos, "type", "swizzle .%s selects component %d of %s", m.Name, k, xt)
				}
				swz[i] = uint8(k)
				found = true
				break
			}
		}
		if !found {
			c.invalid(m.Pos, "type", "%q is not a member or swizzle of %s", m.Name, xt)
		}
	}
	m.Swz = swz
	m.T = vecOf(xt.Scalar(), len(swz))
	m.LV = m.X.base().LV
	m.Const = m.X.base().Const
	return true
}

func (r *glslRules) checkMethod(c *checker, m *Method) {
	if m.Name != "length" {
		c.invalid(m.Pos, "undeclared", "unknown method .%s()", m.Name)
	}
	if len(m.Args) != 0 {
		c.invalid(m.Pos, "type", ".length() takes no arguments")
	}
	xt := m.X.base().T
	m.T = tInt
	switch xt.Kind {
	case KArray:
		if xt.N > 0 {
			m.Const = true
			v := intValue(int32(xt.N))
			m.CV = &v
			return
		}
		if _, bm := rootSymbol(m.X); bm == nil || bm.Block.Class != 's' {
			c.invalid(m.Pos, "type", ".length() of an array of unknown size that is not a buffer block member")
		}
		return
	case KVec, KMat:
		if !r.fe.atLeast(420, 0) {
			c.invalid(m.Pos, "version", ".length() on %s needs GLSL 4.20", xt)
		}
		n := xt.N
		if xt.Kind == KMat {
			n = xt.Cols
		}
		m.Const = true
		v := intValue(int32(n))
		m.CV = &v
		return
	}
	c.invalid(m.Pos, "type", ".length() cannot be applied to %s", xt)
}

// ---------------------------------------------------------------------------
// built-in variables
// ---------------------------------------------------------------------------

type builtinVar uint8

const (
	bvNone builtinVar = iota
	bvNumWorkGroups
	bvWorkGroupSize
	bvWorkGroupID
	bvLocalInvocationID
	bvGlobalInvocationID
	bvLocalInvocationIndex
)

var glslComputeVars = map[string]struct {
	id builtinVar
	t  *Type
}{
	"gl_NumWorkGroups":        {bvNumWorkGroups, vecOf(tUint, 3)},
	"gl_WorkGroupSize":        {bvWorkGroupSize, vecOf(tUint, 3)},
	"gl_WorkGroupID":          {bvWorkGroupID, vecOf(tUint, 3)},
	"gl_LocalInvocationID":    {bvLocalInvocationID, vecOf(tUint, 3)},
	"gl_GlobalInvocationID":   {bvGlobalInvocationID, vecOf(tUint, 3)},
	"gl_LocalInvocationIndex": {bvLocalInvocationIndex, tUint},
}

func (r *glslRules) builtinVar(c *checker, pos Pos, name string) *Symbol {
	if !strings.HasPrefix(name, "gl_") {
		return nil
	}
	if bv, ok := glslComputeVars[name]; ok {
		if !c.prog.hasLocalSize {
			// compute built-ins exist only in compute shaders; a compute
			// shader must declare its local size before using them is not
			// required, so only complain when no compute capability exists.
			if !r.fe.atLeast(430, 310) {
				return nil
			}
		}
		s := &Symbol{Kind: SymBuiltinVar, Name: name, T: bv.t, ReadOnly: true, Builtin: bv.id}
		if bv.id == bvWorkGroupSize && c.prog.hasLocalSize {
			s.Const = true
			v := Value{T: bv.t, C: []Cell{u32Cell(c.prog.localSize[0]), u32Cell(c.prog.localSize[1]), u32Cell(c.prog.localSize[2])}}
			s.CV = &v
		}
		return s
	}
	c.unsupported(pos, "built-in variable %s", name)
	return nil
}

// ---------------------------------------------------------------------------
// module-scope declarations
// ---------------------------------------------------------------------------

func (r *glslRules) checkTop(c *checker, decls []*topDecl) {
	blockNames := map[string]Pos{}
	defaultLayout := map[byte]string{'s': "", 'u': ""}
	defaultRowMajor := map[byte]bool{}
	checkGlobalName := func(name string, pos Pos) {
		if bp, ok := blockNames[name]; ok {
			// GLSL 4.60 §4.3.9: "It is a compile-time error to use a block
			// name at global scope for anything other than as a block name".
			c.invalid(pos, "redeclared", "%q is already used as a block name (at %s)", name, bp)
		}
	}
	for _, d := range decls {
		switch {
		case d.QualOnly != nil:
			r.qualifierDecl(c, d, defaultLayout, defaultRowMajor)
		case d.BlockDef != nil:
			bd := d.BlockDef
			if _, ok := blockNames[bd.Name]; ok {
				c.invalid(bd.Pos, "redeclared", "block name %q used twice", bd.Name)
			}
			if s := c.scopes[0].syms[bd.Name]; s != nil {
				c.invalid(bd.Pos, "redeclared", "block name %q clashes with the %s declared at %s", bd.Name, symKindName(s.Kind), s.Pos)
			}
			blockNames[bd.Name] = bd.Pos
			r.blockDecl(c, bd, defaultLayout, defaultRowMajor, checkGlobalName)
		case d.Func != nil:
			checkGlobalName(d.Func.Name, d.Func.Pos)
			if d.Struct != nil && d.Struct.Def == nil {
				c.invalid(d.Pos, "syntax", "structure definition in a function return type")
			}
			c.function(d.Func)
		default:
			if d.Struct != nil && d.Struct.Def == nil {
				if d.Struct.Name != "" {
					checkGlobalName(d.Struct.Name, d.Struct.Pos)
				}
				c.declareStruct(d.Struct)
			}
			for _, v := range d.Vars {
				checkGlobalName(v.Name, v.Pos)
				r.globalVar(c, v)
			}
		}
	}
}

func (r *glslRules) qualifierDecl(c *checker, d *topDecl, defLayout map[byte]string, defRowMajor map[byte]bool) {
	q := d.QualOnly
	if len(d.Requal) > 0 {
		// invariant gl_Position; precise x;
		for _, id := range d.Requal {
			if strings.HasPrefix(id.Text, "gl_") {
				continue
			}
			if c.lookup(id.Text) == nil {
				c.invalid(id.Pos, "undeclared", "undeclared identifier %q in requalification", id.Text)
			}
		}
		return
	}
	switch {
	case q.In && q.HasLayout:
		isCompute := false
		for i := range q.Layout {
			it := &q.Layout[i]
			switch it.Name {
			case "local_size_x", "local_size_y", "local_size_z":
				isCompute = true
				if !r.fe.atLeast(430, 310) {
					c.invalid(it.Pos, "version", "compute shaders need GLSL 4.30 / ESSL 3.10")
				}
				if it.Val == nil {
					c.invalid(it.Pos, "syntax", "%s needs a value", it.Name)
				}
				it.Val = c.expr(it.Val)
				n := c.constInt(it.Val, it.Name)
				if n <= 0 {
					c.invalid(it.Pos, "type", "%s must be greater than zero", it.Name)
				}
				k := int(it.Name[len(it.Name)-1] - 'x')
				if c.prog.hasLocalSize && c.prog.localSizeSet[k] && c.prog.localSize[k] != uint32(n) {
					c.invalid(it.Pos, "redeclared", "%s redeclared with a different value", it.Name)
				}
				c.prog.localSize[k] = uint32(n)
				c.prog.localSizeSet[k] = true
			}
		}
		if isCompute {
			c.prog.hasLocalSize = true
		}
	case (q.Buffer || q.Uniform) && q.HasLayout:
		cls := byte('u')
		if q.Buffer {
			cls = 's'
		}
		for _, it := range q.Layout {
			switch it.Name {
			case "std140", "std430", "shared", "packed":
				defLayout[cls] = it.Name
			case "row_major":
				defRowMajor[cls] = true
			case "column_major":
				defRowMajor[cls] = false
			}
		}
	}
}

func (r *glslRules) blockDecl(c *checker, bd *blockDecl, defLayout map[byte]string, defRowMajor map[byte]bool, checkGlobalName func(string, Pos)) {
	q := bd.Quals
	n := 0
	for _, b := range []bool{q.Uniform, q.Buffer, q.In, q.Out} {
		if b {
			n++
		}
	}
	if n != 1 {
		c.invalid(bd.Pos, "syntax", "an interface block needs exactly one of uniform, buffer, in, out")
	}
	if q.In || q.Out {
		c.unsupported(bd.Pos, "in/out interface blocks")
	}
	blk := &IfaceBlock{Pos: bd.Pos, Name: bd.Name, Instance: bd.Instance, Quals: q, Binding: -1, idx: len(c.prog.blocks)}
	if q.Buffer {
		blk.Class = 's'
		if !r.fe.atLeast(430, 310) {
			c.invalid(bd.Pos, "version", "buffer blocks need GLSL 4.30 / ESSL 3.10")
		}
	} else {
		blk.Class = 'u'
		if q.Readonly || q.Writeonly || q.Coherent || q.Volatile || q.Restrict {
			c.invalid(bd.Pos, "syntax", "memory qualifiers are only allowed on buffer blocks")
		}
	}
	blk.Layout = defLayout[blk.Class]
	blk.RowMajor = defRowMajor[blk.Class]
	for i := range q.Layout {
		it := &q.Layout[i]
		switch it.Name {
		case "std140", "shared", "packed":
			blk.Layout = it.Name
		case "std430":
			if blk.Class != 's' {
				// GLSL 4.60 §4.4.5: "std430 ... is only available for shader storage blocks"
				c.invalid(it.Pos, "type", "layout(std430) is only allowed on buffer blocks")
			}
			blk.Layout = it.Name
		case "row_major":
			blk.RowMajor = true
		case "column_major":
			blk.RowMajor = false
		case "binding":
			if !r.fe.atLeast(420, 310) {
				c.invalid(it.Pos, "version", "layout(binding) needs GLSL 4.20 / ESSL 3.10")
			}
			if it.Val == nil {
				c.invalid(it.Pos, "syntax", "binding needs a value")
			}
			it.Val = c.expr(it.Val)
			b := c.constInt(it.Val, "binding")
			if b < 0 {
				c.invalid(it.Pos, "type", "negative binding")
			}
			blk.Binding = int(b)
		case "set", "push_constant":
			c.unsupported(it.Pos, "Vulkan layout qualifier %s", it.Name)
		case "location", "component", "index", "offset", "align", "xfb_buffer", "xfb_offset", "xfb_stride":
			c.unsupported(it.Pos, "block layout qualifier %s", it.Name)
		default:
			c.invalid(it.Pos, "syntax", "unknown layout qualifier %q on an interface block", it.Name)
		}
	}
	if blk.Layout == "" {
		blk.Layout = "shared"
	}
	if len(bd.Members) == 0 {
		c.invalid(bd.Pos, "syntax", "interface block %s has no members", bd.Name)
	}
	if len(bd.InstDims) > 0 {
		blk.ArrayDim = true
		c.unsupported(bd.InstPos, "arrays of interface blocks")
	}
	c.noteIdent(bd.Name, "block", 0, bd.Pos)

	kind := LayoutStd140
	if blk.Layout == "std430" {
		kind = LayoutStd430
	}
	off := 0
	seen := map[string]bool{}
	for i, m := range bd.Members {
		mq := m.Quals
		if mq.Const || mq.In || mq.Out || mq.Uniform || mq.Buffer || mq.Shared {
			c.invalid(m.Pos, "syntax", "block member %q cannot have a storage qualifier", m.Name)
		}
		if blk.Class != 's' && (mq.Readonly || mq.Writeonly || mq.Coherent || mq.Volatile || mq.Restrict) {
			c.invalid(m.Pos, "syntax", "memory qualifiers are only allowed on members of buffer blocks")
		}
		um := unsizedNo
		if i == len(bd.Members)-1 && blk.Class == 's' {
			um = unsizedOuter
		}
		if m.TypeX.Struct != nil {
			c.invalid(m.Pos, "syntax", "structure definitions are not allowed inside an interface block")
		}
		mt := c.resolveType(m.TypeX, um)
		if mt.Kind == KVoid || mt.Kind == KOpaque || mt.containsKind(KOpaque) {
			c.invalid(m.Pos, "type", "block member %q cannot have type %s", m.Name, mt)
		}
		if seen[m.Name] {
			c.invalid(m.Pos, "redeclared", "duplicate block member %q", m.Name)
		}
		seen[m.Name] = true
		m.T = mt
		rowMajor := blk.RowMajor
		explicitOff, explicitAlign := -1, 0
		for k := range mq.Layout {
			it := &mq.Layout[k]
			switch it.Name {
			case "row_major":
				rowMajor = true
			case "column_major":
				rowMajor = false
			case "offset", "align":
				if !r.fe.atLeast(440, 0) {
					c.invalid(it.Pos, "version", "layout(%s) on block members needs GLSL 4.40", it.Name)
				}
				if it.Val == nil {
					c.invalid(it.Pos, "syntax", "%s needs a value", it.Name)
				}
				it.Val = c.expr(it.Val)
				v := int(c.constInt(it.Val, it.Name))
				if it.Name == "offset" {
					explicitOff = v
				} else {
					if v <= 0 || v&(v-1) != 0 {
						c.invalid(it.Pos, "type", "align must be a power of two")
					}
					explicitAlign = v
				}
			default:
				c.invalid(it.Pos, "syntax", "layout qualifier %q not allowed on a block member", it.Name)
			}
		}
		lay := c.prog.lc.layoutOf(mt, kind, rowMajor)
		a := lay.Align
		if explicitAlign > a {
			a = explicitAlign
		}
		if explicitOff >= 0 {
			if explicitOff%lay.Align != 0 {
				c.invalid(m.Pos, "type", "layout(offset=%d) is not a multiple of the base alignment %d of %s", explicitOff, lay.Align, mt)
			}
			if explicitOff < off {
				c.invalid(m.Pos, "type", "layout(offset=%d) overlaps the previous member", explicitOff)
			}
			off = explicitOff
		}
		off = roundUp(off, a)
		bm := &BlockMember{Decl: m, Name: m.Name, T: mt, Offset: off, Lay: lay, Block: blk, Index: i}
		blk.Members = append(blk.Members, bm)
		off += lay.Size
		if bd.Instance == "" {
			checkGlobalName(m.Name, m.Pos)
			c.declare(&Symbol{Kind: SymBlockMember, Name: m.Name, T: mt, Pos: m.Pos, Block: blk, Member: bm}, "block-member")
		} else {
			c.noteIdent(m.Name, "block-member", 1, m.Pos)
		}
	}
	blk.Size = off
	if bd.Instance != "" {
		checkGlobalName(bd.Instance, bd.InstPos)
		c.declare(&Symbol{Kind: SymBlockInstance, Name: bd.Instance, T: tVoid, Pos: bd.InstPos, Block: blk}, "block-instance")
	}
	c.prog.blocks = append(c.prog.blocks, blk)
}

func (r *glslRules) globalVar(c *checker, v *VarDecl) {
	q := v.Quals
	g := &GlobalVar{Decl: v, Name: v.Name, Pos: v.Pos}
	switch {
	case q.Buffer:
		c.invalid(v.Pos, "syntax", "the buffer qualifier can only be used with an interface block")
	case q.Inout:
		c.invalid(v.Pos, "syntax", "inout is only allowed on parameters")
	case q.Const:
		g.Storage = "const"
	case q.Shared:
		g.Storage = "shared"
		if !r.fe.atLeast(430, 310) {
			c.invalid(v.Pos, "version", "shared variables need GLSL 4.30 / ESSL 3.10")
		}
	case q.Uniform:
		g.Storage = "uniform"
	case q.In:
		g.Storage = "in"
	case q.Out:
		g.Storage = "out"
	default:
		g.Storage = "global"
	}
	um := unsizedNo
	if v.Init != nil {
		um = unsizedOuter
	}
	t := c.resolveType(v.TypeX, um)
	if t.Kind == KVoid {
		c.invalid(v.Pos, "type", "variable %q of type void", v.Name)
	}
	if (t.Kind == KOpaque || t.containsKind(KOpaque)) && g.Storage != "uniform" {
		c.invalid(v.Pos, "type", "opaque type %s must be declared uniform", t)
	}
	if t.containsKind(KDouble) {
		c.prog.usesDouble = true
	}
	if v.Init != nil {
		switch g.Storage {
		case "shared":
			// GLSL 4.60 §4.3.8: "Variables declared as shared may not have initializers"
			c.invalid(v.Pos, "syntax", "shared variable %q cannot have an initializer", v.Name)
		case "in", "out":
			c.invalid(v.Pos, "syntax", "%s variable %q cannot have an initializer", g.Storage, v.Name)
		}
		if g.Storage == "uniform" && r.fe.es {
			c.invalid(v.Pos, "syntax", "uniform initializers are not allowed in ESSL")
		}
		v.Init = c.value(v.Init)
		it := v.Init.base().T
		if t.Kind == KArray && t.N < 0 {
			if it.Kind != KArray || it.Elem != t.Elem {
				c.invalid(v.Pos, "type", "cannot initialise %s with %s", t, it)
			}
			t = it
		}
		init := c.convertTo(v.Init, t)
		if init == nil {
			c.invalid(v.Pos, "type", "cannot initialise %q of type %s with a value of type %s", v.Name, t, it)
		}
		v.Init = init
		if !init.base().Const {
			// GLSL 4.60 §4.3: "In declarations of global variables with no
			// storage qualifier or with a const qualifier, any initializer
			// must be a constant expression."  (ESSL 3.20 §4.3 likewise.)
			c.invalid(v.Pos, "const", "initializer of global variable %q is not a constant expression", v.Name)
		}
		g.Init = init
	} else if g.Storage == "const" {
		c.invalid(v.Pos, "syntax", "const variable %q needs an initializer", v.Name)
	}
	if t.Kind == KArray && t.N < 0 {
		c.unsupported(v.Pos, "global array %q of unknown size", v.Name)
	}
	if g.Storage == "shared" && !c.prog.hasLocalSize && false {
		c.invalid(v.Pos, "syntax", "shared variables are only allowed in compute shaders")
	}
	g.T = t
	v.T = t
	s := &Symbol{Kind: SymGlobal, Name: v.Name, T: t, Pos: v.Pos, Global: g}
	switch g.Storage {
	case "const", "uniform", "in":
		s.ReadOnly = true
	}
	var cv *Value
	if g.Init != nil {
		if val, ok := c.fold(g.Init); ok {
			cv = &val
		} else {
			c.unsupported(v.Pos, "initializer of %q could not be evaluated", v.Name)
		}
	}
	switch g.Storage {
	case "const":
		s.Const = true
		s.CV = cv
	case "global":
		g.CellOff = c.prog.privSize
		c.prog.privSize += t.nsc
	case "shared":
		g.CellOff = c.prog.sharedSize
		c.prog.sharedSize += t.nsc
	}
	g.initVal = cv
	v.Sym = s
	c.prog.globals = append(c.prog.globals, g)
	c.declare(s, "global")
}
