package ctext

import (
	"fmt"
	"strings"
)

// Expression nodes owned by the MSL dialect (customExpr of hlsl_ext.go).

type (
	// mslCast is static_cast<T>(e), T(args) or (T)e.
	mslCast struct {
		ExprBase
		Form  string // "static_cast", "functional", "c-style"
		TypeX *TypeExpr
		Args  []Expr
		how   castHow
	}
	// mslAsType is as_type<T>(e).
	mslAsType struct {
		ExprBase
		TypeX *TypeExpr
		X     Expr
	}
	// mslBrace is a braced-init-list, with (T{...}) or without a type.
	mslBrace struct {
		ExprBase
		TypeX *TypeExpr
		Elems []Expr
		done  []bool // Elems[i] has been checked
		items []braceItem
	}
	braceItem struct {
		off int
		e   Expr
	}
	// mslAddrOf is &x.
	mslAddrOf struct {
		ExprBase
		X Expr
	}
	// mslDeref is *p.
	mslDeref struct {
		ExprBase
		X Expr
	}
	// mslCall is a call of a function of namespace metal.
	mslCall struct {
		ExprBase
		Name string
		Args []Expr
		sig  *builtinSig
		spec mslSpecial
	}
	// mslTemplateCall is a call of a function template.
	mslTemplateCall struct {
		ExprBase
		Name string
		Args []Expr
		call *Call
	}
	// mslConv is an implicit conversion.
	mslConv struct {
		ExprBase
		X Expr
	}
	// mslZero is the value-initialised object of its type.
	mslZero struct {
		ExprBase
	}
	// mslEnum is an enumerator of namespace metal.
	mslEnum struct {
		ExprBase
		Name string
		val  uint32
	}
)

type castHow uint8

const (
	castZero    castHow = iota // T()
	castConvert                // scalar -> scalar, vector -> vector component-wise, scalar -> vector splat
	castCompose                // vector / matrix from a list of scalars and vectors
	castDiag                   // matrix from one scalar
	castCopy                   // same type
)

type mslSpecial uint8

const (
	mslPlain mslSpecial = iota
	mslAtomicOp
	mslAtomicCAS
	mslBarrier
)

func mslValueType(t *Type) bool {
	return t.Kind != KVoid && t.Kind != KOpaque && t.Kind != KPtr
}

// ---------------------------------------------------------------------------
// casts and constructors: C++14 [expr.static.cast], [expr.type.conv],
// [expr.cast]; MSL §2.2.? "Vector Constructors", §2.3.? "Matrix Constructors"
// ---------------------------------------------------------------------------

func (x *mslCast) checkCustom(c *checker) Expr {
	r := c.rules.(*mslRules)
	t := c.resolveType(x.TypeX, unsizedNo)
	x.T = t
	for i := range x.Args {
		x.Args[i] = c.value(x.Args[i])
	}
	x.Const = true
	for _, a := range x.Args {
		if !a.base().Const {
			x.Const = false
		}
		if a.base().T == tInitList {
			c.unsupported(a.base().Pos, "braced initializer list as a constructor argument")
		}
	}
	what := fmt.Sprintf("%s to %s", x.Form, mslTypeString(t))
	if !mslValueType(t) {
		if t.Kind == KVoid && len(x.Args) == 1 {
			c.unsupported(x.Pos, "cast to void")
		}
		c.invalid(x.Pos, "type", "%s: not an object type", what)
	}
	if len(x.Args) == 0 {
		// T(): value-initialisation, C++14 [expr.type.conv]/2, [dcl.init]/8
		if t.hasRuntimeArray() {
			c.invalid(x.Pos, "type", "%s: array of unknown bound", what)
		}
		x.how = castZero
		return x
	}
	if len(x.Args) == 1 && x.Args[0].base().T == t {
		x.how = castCopy
		return x
	}
	if len(x.Args) == 1 && r.st.zeroConv[x.Args[0].base().T] && !x.Args[0].base().LV {
		x.how = castZero
		return x
	}
	ut := mslUnpack(t)
	switch {
	case mslArith(t):
		if len(x.Args) != 1 {
			c.invalid(x.Pos, "type", "%s: a scalar is initialised from exactly one expression, got %d", what, len(x.Args))
		}
		at := x.Args[0].base().T
		if !mslArith(at) {
			c.invalid(x.Pos, "type", "%s: cannot convert %s", what, mslTypeString(at))
		}
		x.how = castConvert
		return x
	case mslIsAtomic(t):
		c.invalid(x.Pos, "type", "%s: atomic types cannot be constructed from values", what)
	case ut.Kind == KVec:
		if len(x.Args) == 1 {
			at := mslUnpack(x.Args[0].base().T)
			switch {
			case mslArith(at):
				x.how = castConvert // splat
				return x
			case at.Kind == KVec && at.N == ut.N && mslArith(at.Elem):
				x.how = castConvert // component-wise explicit conversion
				return x
			case at.Kind == KVec:
				c.invalid(x.Pos, "type", "%s: vector sizes differ (%s)", what, mslTypeString(at))
			}
			c.invalid(x.Pos, "type", "%s: cannot convert %s", what, mslTypeString(at))
		}
		if x.Form != "functional" {
			c.invalid(x.Pos, "syntax", "%s with %d operands", what, len(x.Args))
		}
		have := 0
		for i, a := range x.Args {
			at := mslUnpack(a.base().T)
			switch {
			case mslArith(at):
				have++
			case at.Kind == KVec && at.Elem == ut.Elem:
				have += at.N
			case at.Kind == KVec:
				// the constructor overloads take vectors of the same element
				// type; another one would need a vector conversion
				c.unsupported(a.base().Pos, "%s: vector argument %d of type %s", what, i+1, mslTypeString(at))
			default:
				c.invalid(a.base().Pos, "type", "%s: argument %d of type %s", what, i+1, mslTypeString(at))
			}
		}
		if have != ut.N {
			c.invalid(x.Pos, "type", "%s: the arguments supply %d components, the vector has %d (MSL §2.2: vector constructors)", what, have, ut.N)
		}
		x.how = castCompose
		return x
	case t.Kind == KMat:
		if len(x.Args) == 1 && mslArith(x.Args[0].base().T) {
			x.how = castDiag
			return x
		}
		if len(x.Args) == 1 && x.Args[0].base().T.Kind == KMat {
			at := x.Args[0].base().T
			if at.Cols == t.Cols && at.Rows == t.Rows {
				// MSL §2.3 matrix constructors: a matrix of the other floating
				// type with the same dimensions converts component-wise
				x.how = castConvert
				return x
			}
			c.unsupported(x.Pos, "%s from %s", what, mslTypeString(at))
		}
		allScalar, allCols := true, true
		for _, a := range x.Args {
			at := mslUnpack(a.base().T)
			if !mslArith(at) {
				allScalar = false
			}
			if !(at.Kind == KVec && at.N == t.Rows && at.Elem == t.Elem) {
				allCols = false
			}
		}
		switch {
		case allCols && len(x.Args) == t.Cols:
		case allScalar && len(x.Args) == t.Cols*t.Rows:
		default:
			c.invalid(x.Pos, "type", "%s: a matrix is constructed from %d column vectors of %d components, from %d scalars or from one scalar (MSL §2.3: matrix constructors), got %s",
				what, t.Cols, t.Rows, t.Cols*t.Rows, argTypes(x.Args))
		}
		x.how = castCompose
		return x
	case t.Kind == KStruct || t.Kind == KArray:
		c.invalid(x.Pos, "type", "%s: no matching constructor for %s (aggregates are initialised with braces)", what, argTypes(x.Args))
	}
	c.invalid(x.Pos, "type", "%s: unsupported conversion", what)
	return nil
}

// ---------------------------------------------------------------------------
// as_type<T>: MSL §2.? "Type Conversions and Re-interpreting Data": "the
// as_type<type-id> operator ... reinterprets ... it is an error to use
// as_type<type-id> to cast data to a type of a different number of bytes"
// ---------------------------------------------------------------------------

func mslAsTypeOperand(t *Type) bool {
	switch {
	case mslArith(t) && t != tBool:
		return true
	case t.Kind == KVec && t.Elem != tBool && mslArith(t.Elem):
		return true
	}
	return false
}

func (x *mslAsType) checkCustom(c *checker) Expr {
	t := c.resolveType(x.TypeX, unsizedNo)
	x.T = t
	x.X = c.value(x.X)
	st := x.X.base().T
	x.Const = x.X.base().Const
	if !mslAsTypeOperand(t) || !mslAsTypeOperand(st) {
		if t.Kind == KStruct || st.Kind == KStruct || t.Kind == KMat || st.Kind == KMat || t.Kind == KArray || st.Kind == KArray {
			c.invalid(x.Pos, "type", "as_type<%s>(%s): as_type applies to scalar and vector types", mslTypeString(t), mslTypeString(st))
		}
		c.unsupported(x.Pos, "as_type<%s>(%s)", mslTypeString(t), mslTypeString(st))
	}
	a, b := c.prog.lc.mslLayoutOf(t).Size, c.prog.lc.mslLayoutOf(st).Size
	if a != b {
		c.invalid(x.Pos, "type", "as_type<%s>(%s): the types have different sizes (%d and %d bytes)", mslTypeString(t), mslTypeString(st), a, b)
	}
	return x
}

// ---------------------------------------------------------------------------
// braced-init-lists: C++14 [dcl.init.list], [dcl.init.aggr] (brace elision:
// /12), [dcl.init]/8 (value-initialisation of omitted members)
// ---------------------------------------------------------------------------

func (b *mslBrace) checkCustom(c *checker) Expr {
	r := c.rules.(*mslRules)
	if b.T != nil {
		return b
	}
	if b.TypeX == nil {
		// typed by its context (convertNode)
		b.T = tInitList
		return b
	}
	t := c.resolveType(b.TypeX, unsizedOuter)
	if t.Kind == KArray && t.N < 0 {
		c.unsupported(b.Pos, "braced initialisation of an array of unknown bound")
	}
	b.T = tInitList
	b.typeAs(c, r, t)
	return b
}

func (b *mslBrace) elem(c *checker, i int) Expr {
	if b.done == nil {
		b.done = make([]bool, len(b.Elems))
	}
	if !b.done[i] {
		if nb, ok := b.Elems[i].(*mslBrace); ok && nb.TypeX == nil {
			nb.T = tInitList
		} else {
			b.Elems[i] = c.value(b.Elems[i])
		}
		b.done[i] = true
	}
	return b.Elems[i]
}

// typeAs types the list as an initializer of an object of type t.
func (b *mslBrace) typeAs(c *checker, r *mslRules, t *Type) {
	if !mslValueType(t) || t.hasRuntimeArray() {
		c.invalid(b.Pos, "type", "braced initialisation of type %s", mslTypeString(t))
	}
	b.T = t
	b.items = nil
	b.Const = true
	b.initList(c, r, t, b, 0)
}

func (b *mslBrace) add(off int, e Expr) {
	if !e.base().Const {
		b.Const = false
	}
	b.items = append(b.items, braceItem{off, e})
}

// initList initialises an object of type t at cell offset off from the
// complete list src ( = {...} belongs to exactly this object).
func (b *mslBrace) initList(c *checker, r *mslRules, t *Type, src *mslBrace, off int) {
	if len(src.Elems) == 0 {
		return // value-initialisation: zero
	}
	ut := mslUnpack(t)
	switch {
	case mslArith(t):
		if len(src.Elems) != 1 {
			c.invalid(src.Pos, "type", "excess elements in the initializer of a scalar of type %s", mslTypeString(t))
		}
		e := src.elem(c, 0)
		if e.base().T == tInitList {
			c.invalid(src.Pos, "syntax", "braces around a scalar initializer nested too deeply")
		}
		conv := c.convertTo(e, t)
		if conv == nil {
			c.invalid(e.base().Pos, "type", "cannot initialise %s with %s", mslTypeString(t), mslTypeString(e.base().T))
		}
		b.add(off, conv)
	case mslIsAtomic(t):
		c.unsupported(src.Pos, "braced initialisation of an atomic object with a value")
	case ut.Kind == KVec:
		if len(src.Elems) == 1 {
			e := src.elem(c, 0)
			if et := mslUnpack(e.base().T); et.Kind == KVec {
				conv := c.convertTo(e, t)
				if conv == nil {
					c.invalid(e.base().Pos, "type", "cannot initialise %s with %s", mslTypeString(t), mslTypeString(e.base().T))
				}
				b.add(off, conv)
				return
			}
		}
		pos := 0
		b.vecElems(c, r, ut, src, &pos, off)
		if pos < len(src.Elems) {
			c.invalid(src.Pos, "type", "excess elements in the initializer of %s", mslTypeString(t))
		}
	case t.Kind == KMat:
		if len(src.Elems) == 1 {
			e := src.elem(c, 0)
			if e.base().T == t {
				b.add(off, e)
				return
			}
		}
		if len(src.Elems) > t.Cols {
			c.invalid(src.Pos, "type", "excess elements in the initializer of %s", mslTypeString(t))
		}
		ct := vecOf(t.Elem, t.Rows)
		for i := range src.Elems {
			e := src.elem(c, i)
			if nb, ok := e.(*mslBrace); ok && nb.T == tInitList {
				b.initList(c, r, ct, nb, off+i*t.Rows)
				continue
			}
			conv := c.convertTo(e, ct)
			if conv == nil || e.base().T.Kind != KVec {
				c.unsupported(src.Pos, "braced initialisation of %s from %s", mslTypeString(t), mslTypeString(e.base().T))
			}
			b.add(off+i*t.Rows, conv)
		}
	case t.Kind == KArray || t.Kind == KStruct:
		if t.Kind == KStruct && len(src.Elems) == 1 {
			// T{x} with x of type T: copy (C++14 [dcl.init.list]/3 as amended by CWG 1467)
			if e := src.elem(c, 0); e.base().T == t {
				b.add(off, e)
				return
			}
		}
		pos := 0
		b.members(c, r, t, src, &pos, off)
		if pos < len(src.Elems) {
			c.invalid(src.Elems[pos].base().Pos, "type", "excess elements in the initializer of %s", mslTypeString(t))
		}
	default:
		c.invalid(src.Pos, "type", "braced initialisation of type %s", mslTypeString(t))
	}
}

// vecElems consumes initializer-clauses for the components of a vector.
func (b *mslBrace) vecElems(c *checker, r *mslRules, vt *Type, src *mslBrace, pos *int, off int) {
	k := 0
	for k < vt.N && *pos < len(src.Elems) {
		e := src.elem(c, *pos)
		et := mslUnpack(e.base().T)
		switch {
		case mslArith(et):
			conv := c.convertTo(e, vt.Elem)
			if conv == nil {
				c.invalid(e.base().Pos, "type", "cannot initialise a component of %s with %s", mslTypeString(vt), mslTypeString(et))
			}
			b.add(off+k, conv)
			k++
		case et.Kind == KVec && et.Elem == vt.Elem && k+et.N <= vt.N:
			b.add(off+k, c.convertTo(e, et))
			k += et.N
		default:
			c.invalid(e.base().Pos, "type", "cannot initialise a component of %s with %s", mslTypeString(vt), mslTypeString(e.base().T))
		}
		*pos++
	}
}

// members initialises the elements of an aggregate in order, consuming
// initializer-clauses from src starting at *pos.
func (b *mslBrace) members(c *checker, r *mslRules, t *Type, src *mslBrace, pos *int, off int) {
	switch t.Kind {
	case KArray:
		if t.N < 0 {
			c.invalid(src.Pos, "type", "initialisation of an array of unknown bound")
		}
		for i := 0; i < t.N && *pos < len(src.Elems); i++ {
			b.object(c, r, t.Elem, src, pos, off+i*t.Elem.nsc)
		}
	case KStruct:
		o := off
		for _, f := range t.Struct.Fields {
			if *pos >= len(src.Elems) {
				break
			}
			b.object(c, r, f.T, src, pos, o)
			o += f.T.nsc
		}
	}
}

// object initialises one sub-object from the clause stream.
func (b *mslBrace) object(c *checker, r *mslRules, t *Type, src *mslBrace, pos *int, off int) {
	e := src.elem(c, *pos)
	if nb, ok := e.(*mslBrace); ok && nb.T == tInitList {
		*pos++
		if !mslValueType(t) || t.hasRuntimeArray() {
			c.invalid(nb.Pos, "type", "braced initialisation of type %s", mslTypeString(t))
		}
		b.initList(c, r, t, nb, off)
		return
	}
	et := e.base().T
	ut := mslUnpack(t)
	direct := et == t || (mslArith(t) && mslArith(et)) || r.st.zeroConv[et] ||
		(ut.Kind == KVec && mslUnpack(et) == ut)
	if !direct {
		switch {
		case t.Kind == KArray || t.Kind == KStruct:
			// brace elision, C++14 [dcl.init.aggr]/12
			if t.Kind == KStruct && len(t.Struct.Fields) == 0 {
				c.invalid(e.base().Pos, "type", "cannot initialise an empty structure %s with %s", mslTypeString(t), mslTypeString(et))
			}
			b.members(c, r, t, src, pos, off)
			return
		case ut.Kind == KVec && (mslArith(et) || (mslUnpack(et).Kind == KVec && mslUnpack(et).Elem == ut.Elem)):
			b.vecElems(c, r, ut, src, pos, off)
			return
		}
		c.invalid(e.base().Pos, "type", "cannot initialise an object of type %s with %s", mslTypeString(t), mslTypeString(et))
	}
	conv := c.convertTo(e, t)
	if conv == nil {
		c.invalid(e.base().Pos, "type", "cannot initialise an object of type %s with %s", mslTypeString(t), mslTypeString(et))
	}
	*pos++
	b.add(off, conv)
}

// ---------------------------------------------------------------------------
// & and *
// ---------------------------------------------------------------------------

func (x *mslAddrOf) checkCustom(c *checker) Expr {
	r := c.rules.(*mslRules)
	x.X = c.value(x.X)
	xb := x.X.base()
	if !xb.LV {
		c.invalid(x.Pos, "lvalue", "cannot take the address of an rvalue of type %s", mslTypeString(xb.T))
	}
	for e := x.X; e != nil; {
		switch m := e.(type) {
		case *Member:
			if m.Swz != nil {
				c.invalid(x.Pos, "lvalue", "cannot take the address of a vector component selection")
			}
			e = m.X
		case *Index:
			if t := m.X.base().T; t.Kind == KVec && !t.Packed {
				c.unsupported(x.Pos, "address of a vector element")
			}
			e = m.X
		default:
			e = nil
		}
	}
	s, _ := rootSymbol(x.X)
	if s == nil {
		c.unsupported(x.Pos, "address of this kind of expression")
	}
	space := r.symSpace(c, s)
	x.T = r.st.ptrTo(xb.T, space)
	return x
}

func (x *mslDeref) checkCustom(c *checker) Expr {
	c.unsupported(x.Pos, "pointer dereference")
	return nil
}

// ---------------------------------------------------------------------------
// implicit conversion, zero, enumerators
// ---------------------------------------------------------------------------

func (x *mslConv) checkCustom(c *checker) Expr { return x }
func (x *mslZero) checkCustom(c *checker) Expr { return x }

var mslEnumerators = map[string]struct {
	t *Type
	v uint32
}{
	"mem_flags::mem_none":                    {tMemFlags, 0},
	"mem_flags::mem_device":                  {tMemFlags, 1},
	"mem_flags::mem_threadgroup":             {tMemFlags, 2},
	"mem_flags::mem_texture":                 {tMemFlags, 4},
	"mem_flags::mem_threadgroup_imageblock":  {tMemFlags, 8},
	"mem_flags::mem_object_data":             {tMemFlags, 16},
	"memory_order_relaxed":                   {tMemOrder, 0},
	"memory_order::memory_order_relaxed":     {tMemOrder, 0},
	"memory_order_seq_cst":                   {tMemOrder, 5},
	"memory_order::memory_order_seq_cst":     {tMemOrder, 5},
	"thread_scope::thread_scope_thread":      {tMemFlags, 0},
	"thread_scope::thread_scope_threadgroup": {tMemFlags, 0},
	"thread_scope::thread_scope_device":      {tMemFlags, 0},
}

func (x *mslEnum) checkCustom(c *checker) Expr {
	e, ok := mslEnumerators[x.Name]
	if !ok || strings.HasPrefix(x.Name, "thread_scope") {
		if mslIsBuiltinFunc(x.Name) {
			c.invalid(x.Pos, "type", "function name metal::%s used as a value", x.Name)
		}
		c.unsupported(x.Pos, "metal::%s", x.Name)
	}
	x.T = e.t
	x.val = e.v
	x.Const = true
	return x
}

// ---------------------------------------------------------------------------
// calls of function templates
// ---------------------------------------------------------------------------

func (x *mslTemplateCall) checkCustom(c *checker) Expr {
	r := c.rules.(*mslRules)
	if x.call != nil {
		return x
	}
	for i := range x.Args {
		x.Args[i] = c.value(x.Args[i])
	}
	fn := r.resolveTemplateCall(c, x)
	if fn == nil {
		c.invalid(x.Pos, "no-overload", "no matching function template for call to %s%s", x.Name, mslArgTypes(x.Args))
	}
	call := &Call{ExprBase: ExprBase{Pos: x.Pos}, Name: x.Name, Args: x.Args}
	call.Fn = fn
	call.T = fn.Ret
	c.bindArgs(call, paramTypes(fn), paramDirs(fn))
	if c.fn != nil {
		c.fn.callees[fn] = true
	}
	x.call = call
	x.T = fn.Ret
	return x
}

func mslArgTypes(args []Expr) string {
	s := "("
	for i, a := range args {
		if i > 0 {
			s += ", "
		}
		s += mslTypeString(a.base().T)
	}
	return s + ")"
}
