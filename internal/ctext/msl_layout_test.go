package ctext

import (
	"fmt"
	"strings"
	"testing"
)

// TestMSLLayoutTable checks the C++ object layout with Metal's size and
// alignment table (MSL §2.1 Table 2.1, §2.2 Table 2.3, §2.2.3 Table 2.4,
// §2.3 Table 2.5).  Offsets computed by hand:
//
//	c0 char 0 | s1 short 2 | i2 int 4 | h3 half 8 | h4 half2 (4/4) 12 | h5 half3 (8/8) 16 |
//	f6 float2 (8/8) 24 | f7 float3 (16/16) 32 | p8 packed_float3 (12/4) 48 | f9 float 60 |
//	f10 float4 64 | m11 float2x2 (16/8) 80 | m12 float2x3 (32/16) 96 | m13 float3x3 (48/16) 128 |
//	m14 float4x4 (64/16) 176 | m15 half2x2 (8/4) 240 | b16 bool 248 | u17 uchar4 (4/4) 252 |
//	p18 packed_half3 (6/2) 256 | a19 atomic_uint 264 | i20 int3 (16/16) 272 |
//	arr Inner2[2] (32/16 each) 288 | last float 352 ; sizeof = 368
func TestMSLLayoutTable(t *testing.T) {
	src := mslHdr + `
struct Inner2 { metal::float3 v; float s; };
struct L {
    char c0; short s1; int i2; half h3; metal::half2 h4; metal::half3 h5; metal::float2 f6; metal::float3 f7;
    metal::packed_float3 p8; float f9; metal::float4 f10; metal::float2x2 m11; metal::float2x3 m12;
    metal::float3x3 m13; metal::float4x4 m14; metal::half2x2 m15; bool b16; metal::uchar4 u17;
    metal::packed_half3 p18; metal::atomic_uint a19; metal::int3 i20; Inner2 arr[2]; float last;
};
struct Tail { uint n; uint pad; Inner2 items[1]; };
typedef Inner2 rt[1];
struct Tail2 { uint n; char _pad1[12]; rt items; };
kernel void k(device L& l [[buffer(0)]], constant Tail2& t2 [[buffer(3)]], device rt& r [[buffer(7)]], device L const* lp [[buffer(8)]]) {
    l.last = 1.0;
}
`
	p := mustParseMSL(t, src)
	blocks := p.Blocks()
	if len(blocks) != 4 {
		t.Fatalf("want 4 blocks, got %d: %+v", len(blocks), blocks)
	}
	l := blocks[0]
	if l.Name != "l" || l.Instance != "k" || l.Class != 'b' || l.Binding != 0 || l.Space != "device" || l.Type != "L" || l.ReadOnly || l.Layout != "metal" {
		t.Errorf("block l: %+v", l)
	}
	want := []struct {
		name              string
		off, size, align  int
		matStride, stride int
	}{
		{"c0", 0, 1, 1, 0, 0}, {"s1", 2, 2, 2, 0, 0}, {"i2", 4, 4, 4, 0, 0}, {"h3", 8, 2, 2, 0, 0}, {"h4", 12, 4, 4, 0, 0},
		{"h5", 16, 8, 8, 0, 0}, {"f6", 24, 8, 8, 0, 0}, {"f7", 32, 16, 16, 0, 0}, {"p8", 48, 12, 4, 0, 0}, {"f9", 60, 4, 4, 0, 0},
		{"f10", 64, 16, 16, 0, 0}, {"m11", 80, 16, 8, 8, 0}, {"m12", 96, 32, 16, 16, 0}, {"m13", 128, 48, 16, 16, 0},
		{"m14", 176, 64, 16, 16, 0}, {"m15", 240, 8, 4, 4, 0}, {"b16", 248, 1, 1, 0, 0}, {"u17", 252, 4, 4, 0, 0},
		{"p18", 256, 6, 2, 0, 0}, {"a19", 264, 4, 4, 0, 0}, {"i20", 272, 16, 16, 0, 0}, {"arr", 288, 64, 16, 0, 32}, {"last", 352, 4, 4, 0, 0},
	}
	if len(l.Members) != len(want) {
		t.Fatalf("want %d members, got %d", len(want), len(l.Members))
	}
	for i, w := range want {
		m := l.Members[i]
		if m.Name != w.name || m.Offset != w.off || m.Size != w.size || m.Align != w.align || m.MatrixStride != w.matStride || m.ArrayStride != w.stride {
			t.Errorf("member %s: offset %d size %d align %d matrixStride %d arrayStride %d, want %+v", m.Name, m.Offset, m.Size, m.Align, m.MatrixStride, m.ArrayStride, w)
		}
	}
	if l.Size != 368 {
		t.Errorf("sizeof(L) = %d, want 368", l.Size)
	}
	arr := l.Members[21]
	if arr.ArrayLen != 2 || len(arr.Members) != 2 || arr.Members[1].Name != "s" || arr.Members[1].Offset != 16 || arr.Type != "Inner2[2]" {
		t.Errorf("arr: %+v", arr)
	}
	// Tail2: runtime array (typedef T[1]) at offset 16; fixed part 16 bytes
	t2 := blocks[1]
	if t2.Space != "constant" || !t2.ReadOnly || t2.Binding != 3 || t2.Size != 16 || t2.Members[2].Offset != 16 || t2.Members[2].ArrayLen != -1 || t2.Members[2].ArrayStride != 32 || t2.Members[1].ArrayLen != 12 {
		t.Errorf("block t2: %+v", t2)
	}
	r := blocks[2]
	if r.Binding != 7 || len(r.Members) != 1 || r.Members[0].Name != "" || r.Members[0].ArrayLen != -1 || r.Members[0].ArrayStride != 32 || r.Size != 0 {
		t.Errorf("block r: %+v", r)
	}
	lp := blocks[3]
	if lp.Binding != 8 || !lp.ReadOnly || lp.Type != "L" || lp.Size != 368 {
		t.Errorf("block lp: %+v", lp)
	}
	// entry point reflection
	eps := p.EntryPoints()
	if len(eps) != 1 || eps[0].Name != "k" || eps[0].Stage != "kernel" || len(eps[0].Args) != 4 {
		t.Fatalf("entry points: %+v", eps)
	}
	a := eps[0].Args
	if a[0].Space != "device" || !a[0].Ref || a[0].Buffer != 0 || a[0].Const || a[1].Space != "constant" || !a[1].Const || a[3].Ref || !a[3].Ptr || !a[3].Const || a[3].Attrs[0] != "buffer(8)" {
		t.Errorf("args: %+v", a)
	}
}

// TestMSLPackedAndPadding: stores through a device reference touch exactly
// the bytes of the stored leaves (padding is never written); packed vectors
// convert to and from ordinary vectors.
func TestMSLPackedAndPadding(t *testing.T) {
	src := mslHdr + `
struct S { metal::packed_float3 a; float b; metal::float3 c; float d; metal::float2x3 m; };
kernel void k(device S& s [[buffer(0)]], device type_f& o [[buffer(1)]]) {
    metal::float3 t = s.a;
    o[0] = t.x + t.y + t.z + s.b;
    s.a = metal::float3(1.0, 2.0, 3.0);
    s.a[1] = 5.0;
    s.c = metal::float3(10.0, 20.0, 30.0);
    s.m[1] = metal::float3(7.0, 8.0, 9.0);
    s.m[0].y = 6.0;
    metal::float3 u = metal::float3(s.a) * 2.0;
    o[1] = u.y;
    o[2] = s.a[2] + s.c[0];
    S copy = s;
    o[3] = copy.d + copy.m[1].z;
}
`
	p := mustParseMSL(t, src)
	b := p.Blocks()[0]
	offs := map[string]int{}
	for _, m := range b.Members {
		offs[m.Name] = m.Offset
	}
	if fmt.Sprint(offs) != "map[a:0 b:12 c:16 d:32 m:48]" || b.Size != 80 {
		t.Fatalf("layout of S: %v size %d", offs, b.Size)
	}
	sbuf := make([]byte, 80)
	for i := range sbuf {
		sbuf[i] = 0xEE
	}
	copy(sbuf[0:], f32s(100, 200, 300, 400)) // a, b
	copy(sbuf[32:], f32s(4))                 // d
	out := zeros(16)
	res := runMSL(t, p, RunConfig{Buffers: map[Slot][]byte{{Class: 'b', Index: 0}: sbuf, {Class: 'b', Index: 1}: out}})
	clean(t, res)
	wantOut := []float32{1000, 10, 13, 13}
	for i, w := range wantOut {
		if getF32(out, i) != w {
			t.Errorf("o[%d] = %g, want %g", i, getF32(out, i), w)
		}
	}
	wantS := []any{float32(1), float32(5), float32(3), float32(400), float32(10), float32(20), float32(30), uint32(0xEEEEEEEE), float32(4),
		uint32(0xEEEEEEEE), uint32(0xEEEEEEEE), uint32(0xEEEEEEEE), // tail padding of d up to m (align 16)
		uint32(0xEEEEEEEE), float32(6), uint32(0xEEEEEEEE), uint32(0xEEEEEEEE), // m[0]: only .y written
		float32(7), float32(8), float32(9), uint32(0xEEEEEEEE)} // m[1]: the column padding is not written
	got := words32(sbuf)
	for i, w := range wantS {
		if ok, ws := compareWord(got[i], w); !ok {
			t.Errorf("s word %d = %#x, want %s", i, got[i], ws)
		}
	}
}

func TestMSLKeywordsAndInvalidText(t *testing.T) {
	for _, c := range []struct{ decl, pre, code string }{
		{"", "  int device = 1;\n", "keyword"},
		{"", "  float kernel = 1.0;\n", "keyword"},
		{"", "  int half = 1;\n", "keyword"},
		{"", "  int class = 1;\n", "keyword"},
		{"", "  int thread = 1;\n", "keyword"},
		{"", "  int constant = 1;\n", "keyword"},
		{"", "  int threadgroup = 1;\n", "keyword"},
		{"", "  int vertex = 1;\n", "keyword"},
		{"", "  int fragment = 1;\n", "keyword"},
		{"", "  int template = 1;\n", "keyword"},
		{"", "  int operator = 1;\n", "keyword"},
		{"", "  int typename = 1;\n", "keyword"},
		{"", "  int bitand = 1;\n", "keyword"},
		{"void using(int x) { }\n", "", "keyword"},
		{"void f(int namespace) { }\n", "", "keyword"},
		{"struct S { int new; };\n", "", "keyword"},
		{"struct this { int a; };\n", "", "keyword"},
		{"void main(int x) { }\n", "", "keyword"},
		{"", "  uint x = y;\n", "undeclared"},
		{"", "  uint x = f(1);\n", "undeclared"},
		{"", "  uint x = 1u\n", "syntax"},
		{"", "  Foo x = {};\n", "undeclared"},
		{"", "  const uint x = 1u;\n  x = 2u;\n", "lvalue"},
		{"", "  (in.uv[0] + 1u) = 2u;\n", "lvalue"},
		{"", "  uint x = metal::clamp(1.0, 2);\n", "no-overload"},
		{"", "  uint x = metal::max(1u, 2);\n", "no-overload"}, // ambiguous: max(uint,uint) and max(int,int)
		{"", "  float x = metal::dot(1.0, 2.0);\n", "no-overload"},
		{"", "  double x = 1.0;\n", "type"},
		{"", "  metal::double2 x = {};\n", "type"},
		{"", "  long long x = 1;\n", "type"},
		{"", "  uint x = 1ull;\n", "type"},
		{"", "  uint x = 1.0l;\n", "syntax"},
		{"", "  uint x = 1 ^^ 2;\n", "syntax"},
		{"", "  if (metal::bool2(true)) { }\n", "type"},
		{"", "  metal::atomic_uint a;\n  uint x = metal::atomic_load_explicit(&a, metal::memory_order_relaxed);\n", "type"}, // thread-space atomic
		{"constant uint g;\n", "", "syntax"},
		{"uint g = 1u;\n", "", "syntax"},
		{"device uint g = 1u;\n", "", "syntax"},
		{"#version 450\n", "", "syntax"},
	} {
		code, err := parseErrMSL(mslExprShader(c.decl, c.pre, []string{"0u"}))
		if code != c.code {
			t.Errorf("%q %q: want InvalidError [%s], got %q %v", c.decl, c.pre, c.code, code, err)
		}
	}
	// valid C++ / MSL that is not modelled: never an InvalidError
	for _, c := range []struct{ decl, pre string }{
		{"", "  auto x = {1, 2};\n"},
		{"struct P { int x; };\nint f(thread P* p) { return p->x; }\n", ""},
		{"", "  uint x = [&]() { return 1u; }();\n"},
		{"float4 f(metal::texture2d<float, metal::access::sample> t, metal::sampler s) { return t.sample(s, metal::float2(0.5)); }\n", ""},
		{"", "  long x = 1;\n"},
		{"", "  uint x = 5000000000;\n"},
		{"", "  uint x = sizeof(int);\n"},
		{"enum E { A, B };\n", ""},
		{"namespace n { }\n", ""},
		{"#define X 1\n", ""},
		{"", "  uint x = metal::simd_sum(1u);\n"},
		{"", "  int* p = nullptr;\n"},
		{"struct B { int x; };\nstruct D : B { int y; };\n", ""},
		{"struct M { int x; int get() { return x; } };\n", ""},
		{"", "  metal::short2 a = metal::short2(1) + metal::short2(2);\n"},
	} {
		code, err := parseErrMSL(mslExprShader(c.decl, c.pre, []string{"0u"}))
		if code != "unsupported" {
			t.Errorf("%q %q: want UnsupportedError, got %q %v", c.decl, c.pre, code, err)
		}
	}
	// accepted spellings
	for _, c := range []struct{ decl, pre string }{
		{"", "  const auto x = metal::float2(1.0) * 2.0;\n  auto y = x.y + 1;\n  float z = y;\n"},
		{"void f(metal::texture2d<float, metal::access::sample> t, metal::sampler s) { }\n", ""},
		{"using namespace metal;\n", "  float3 v = float3(1.0);\n  uint x = uint(max(v.x, 2.0));\n"},
		{"", "  uint2 v = uint2(1u);\n  half2 h = half2(float2(1.0));\n  unsigned int u = unsigned(3);\n"},
		{"", "  metal::float2 v = metal::precise::sqrt(metal::float2(4.0)) + metal::fast::sin(metal::float2(0.0));\n"},
		{"constexpr constant float PI = 3.0;\nconstant metal::float2 V = metal::float2(1.0, PI);\nstatic constant uint N = 3u;\n", "  float x = V.y + float(N);\n"},
		{"", "  float f = INFINITY;\n  float n = NAN;\n  int big = 017 + 0x1F;\n"},
		{"inline float sq(const float x) { return x * x; }\nstatic float two() { return 2.0; }\n", "  float y = sq(two());\n"},
		{"", "  for (uint i = 0u, j = 5u; i < j; i++, j--) { }\n  uint k = 0u;\n  do { k += 2u; } while (k < 5u);\n  while (k > 0u) k -= 1u;\n"},
	} {
		if code, err := parseErrMSL(mslExprShader(c.decl, c.pre, []string{"0u"})); code != "" {
			t.Errorf("%q %q: want success, got %q %v", c.decl, c.pre, code, err)
		}
	}
	// InvalidError messages name the dialect
	_, err := parseErrMSL(mslExprShader("", "  int device = 1;\n", []string{"0u"}))
	if err == nil || !strings.Contains(err.Error(), "invalid MSL") {
		t.Errorf("error text: %v", err)
	}
}
