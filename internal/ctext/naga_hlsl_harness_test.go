package ctext

import (
	"fmt"
	"math"
	"os"
	"sort"
	"strings"
	"testing"

	"github.com/gogpu/naga"
	"github.com/gogpu/naga/hlsl"
	"github.com/gogpu/naga/ir"
)

// hlslConfig is one option set of naga's HLSL backend used by the tests.
type hlslConfig struct {
	name     string
	sm       hlsl.ShaderModel
	useBMap  bool // explicit BindingMap instead of FakeMissingBindings
	restrict bool
	loopBnd  bool
	zeroWG   bool
}

func (c hlslConfig) String() string { return c.name }

var hlslConfigs = []hlslConfig{
	{name: "sm51-fake", sm: hlsl.ShaderModel5_1, zeroWG: true},
	{name: "sm60-bmap-restrict", sm: hlsl.ShaderModel6_0, useBMap: true, restrict: true, zeroWG: true},
	{name: "sm62-fake-loopbound-nozero", sm: hlsl.ShaderModel6_2, loopBnd: true},
	{name: "sm66-bmap", sm: hlsl.ShaderModel6_6, useBMap: true, restrict: true, loopBnd: true, zeroWG: true},
}

func lowerWGSL(src string) (m *ir.Module, err error) {
	defer func() {
		if r := recover(); r != nil {
			m, err = nil, fmt.Errorf("panic: %v", r)
		}
	}()
	ast, err := naga.Parse(src)
	if err != nil {
		return nil, fmt.Errorf("parse: %w", err)
	}
	m, err = naga.LowerWithSource(ast, src)
	if err != nil {
		return nil, fmt.Errorf("lower: %w", err)
	}
	return m, nil
}

// compileHLSLModule runs naga's HLSL backend (panics are turned into errors).
func compileHLSLModule(m *ir.Module, opts *hlsl.Options) (txt string, info *hlsl.TranslationInfo, err error) {
	defer func() {
		if r := recover(); r != nil {
			err = fmt.Errorf("panic: %v", r)
		}
	}()
	return hlsl.Compile(m, opts)
}

func hlslOptions(cfg hlslConfig, entry string, bm map[hlsl.ResourceBinding]hlsl.BindTarget) *hlsl.Options {
	o := hlsl.DefaultOptions()
	o.ShaderModel = cfg.sm
	o.RestrictIndexing = cfg.restrict
	o.ForceLoopBounding = cfg.loopBnd
	o.ZeroInitializeWorkgroupMemory = cfg.zeroWG
	o.EntryPoint = entry
	if cfg.useBMap {
		o.BindingMap = bm
		o.FakeMissingBindings = false
	} else {
		o.BindingMap = nil
		o.FakeMissingBindings = true
	}
	return o
}

// TestDumpHLSL is a developer aid: CTEXT_DUMP_WGSL=/path/file.wgsl
// [CTEXT_DUMP_CFG=sm51-fake|...] go test -run TestDumpHLSL -v prints the HLSL
// naga emits and what this front end says about it.
func TestDumpHLSL(t *testing.T) {
	path := os.Getenv("CTEXT_DUMP_WGSL")
	if path == "" {
		t.Skip("set CTEXT_DUMP_WGSL to use")
	}
	b, err := os.ReadFile(path)
	if err != nil {
		t.Fatal(err)
	}
	cfg := hlslConfigs[0]
	if s := os.Getenv("CTEXT_DUMP_CFG"); s != "" {
		for _, c := range hlslConfigs {
			if c.name == s {
				cfg = c
			}
		}
	}
	m, err := lowerWGSL(string(b))
	if err != nil {
		t.Fatal(err)
	}
	bm := map[hlsl.ResourceBinding]hlsl.BindTarget{}
	for i, gv := range m.GlobalVariables {
		if gv.Binding != nil {
			bm[hlsl.ResourceBinding{Group: gv.Binding.Group, Binding: gv.Binding.Binding}] = hlsl.BindTarget{Space: uint8(1 + i%3), Register: uint32(10 + i)}
		}
	}
	txt, info, err := compileHLSLModule(m, hlslOptions(cfg, os.Getenv("CTEXT_DUMP_ENTRY"), bm))
	fmt.Printf("// ==== cfg %s err=%v\n%s\n", cfg, err, numbered(txt))
	if info != nil {
		fmt.Printf("// info: names=%v regs=%v helpers=%v\n", info.EntryPointNames, info.RegisterBindings, info.HelperFunctions)
	}
	if err == nil && os.Getenv("CTEXT_DUMP_NOPARSE") == "" {
		p, perr := Parse(HLSL, txt)
		fmt.Printf("// ctext.Parse: %v\n", perr)
		if p != nil {
			fmt.Printf("// blocks: %+v\n", p.Blocks())
		}
	}
	_ = strings.TrimSpace
}

// hlslKnownDefects records suspected naga HLSL defects per case name: config
// name (or "*") -> substring expected in the problem report.  A case listed
// here passes only while the defect is still observed.
var hlslKnownDefects = map[string]map[string]string{
	// H1: sign(x) is emitted bare; the HLSL intrinsic returns int ("int sign(float)"),
	// so asuint(sign(x)) stores the integer -1 / 0 / 1 instead of the float.
	"float builtins exact": {"*": "mismatch: buffer [0 0] word 5 = 0xffffffff"},
	// H2: asinh / acosh / atanh are emitted as calls; HLSL has no such intrinsics.
	"transcendental builtins within tolerance": {"*": `call of undeclared function "asinh"`},
	// H3: unpack2x16snorm / unpack4x8snorm lack the max(.., -1.0) clamp: -32768 / 32767 = -1.0000305.
	"unpack": {"*": "mismatch: buffer [0 0] word 10 = 0xbf800100"},
	// H4: countLeadingZeros(x) is emitted as firstbithigh(x) (the bit INDEX of the highest set
	// bit, HLSL reference) instead of 31 - firstbithigh(x).
	"countLeadingZeros countTrailingZeros non-zero": {"*": "mismatch: buffer [0 0] word 0 = 0x7"},
	// H5: countLeadingZeros(0) / countTrailingZeros(0): firstbithigh / firstbitlow return -1, WGSL requires 32.
	"countTrailingZeros of zero": {"*": "mismatch: buffer [0 0] word 0 = 0xffffffff"},
	// H6 (front end type inference, visible in every backend): "let t = transpose(m)" is declared
	// with the operand's type float2x3; HLSL has no implicit float3x2 -> float2x3 conversion.
	"transpose": {"*": "cannot initialise \"t\" of type mat2x3 with a value of type mat3x2"},
	// H7: private / workgroup array globals are declared "static int[2][3] name": not an HLSL declarator.
	"nested arrays and private initialisers": {"*": "is not an HLSL declarator"},
	// H8 (front end): the user function "vecs" is lowered to a vector constructor int4(int3, int3).
	"function named vecs": {"*": "constructor int4 needs exactly 4 components, got 6"},
	// H1 again (dedicated case): asuint(sign(x)) stores the int result of HLSL's sign().
	"sign of floats and ints": {"*": "mismatch: buffer [0 0] word 0 = 0xffffffff"},
	// H3 again: unpack4x8snorm(0x80) = -128 / 127 = -1.007874 without the clamp.
	"unpack4x8snorm of -128": {"*": "mismatch: buffer [0 0] word 0 = 0xbf810204"},
	// H7 again: also one-dimensional private arrays ("static uint[3] pa = ...").
	"one-dimensional private and workgroup arrays": {"*": "is not an HLSL declarator"},
	// H9: u.am[j] with a dynamic j on a uniform array<matCx2, N> is written
	// "__get_col_of_mat4x2(u.am, j)": the array is passed where one __mat4x2 is expected.
	"dynamic index into a uniform array of matCx2": {"*": `no overload of function "__get_col_of_mat4x2" matches argument types (__mat4x2[2], int)`},
	// Not a defect: ZeroInitializeWorkgroupMemory=false intentionally drops WGSL's zero
	// initialisation; the read of uninitialised groupshared memory is reported as poison.
	"workgroup variables are zero initialised and per workgroup": {"sm62-fake-loopbound-nozero": "read of a groupshared variable that was never written"},
	"atomics signed and sub":                                     {"sm62-fake-loopbound-nozero": "read of a groupshared variable that was never written"},
}

// hlslSlotFor maps a WGSL resource to the register the HLSL text must use.
func hlslSlotFor(m *ir.Module, k gb, cfg hlslConfig, bm map[hlsl.ResourceBinding]hlsl.BindTarget) (Slot, bool) {
	for _, gv := range m.GlobalVariables {
		if gv.Binding == nil || gv.Binding.Group != k[0] || gv.Binding.Binding != k[1] {
			continue
		}
		var cls byte
		switch {
		case gv.Space == ir.SpaceUniform:
			cls = 'b'
		case gv.Space == ir.SpaceStorage && gv.Access == ir.StorageRead:
			cls = 't'
		case gv.Space == ir.SpaceStorage:
			cls = 'u'
		default:
			return Slot{}, false
		}
		if cfg.useBMap {
			bt := bm[hlsl.ResourceBinding{Group: k[0], Binding: k[1]}]
			return Slot{Class: cls, Index: bt.Register, Space: uint32(bt.Space)}, true
		}
		// FakeMissingBindings: register = binding, space = group
		return Slot{Class: cls, Index: k[1], Space: k[0]}, true
	}
	return Slot{}, false
}

// runNagaHLSLCase compiles and runs one case for one option set; it returns a
// description of the first discrepancy ("" if none).
func runNagaHLSLCase(c nagaCase, cfg hlslConfig, reverse bool) (problem string, text string, res *RunResult) {
	entry := c.entry
	if entry == "" {
		entry = "main"
	}
	m, err := lowerWGSL(c.wgsl)
	if err != nil {
		return "naga: " + err.Error(), "", nil
	}
	keys := make([]gb, 0, len(c.bufs))
	for k := range c.bufs {
		keys = append(keys, k)
	}
	sort.Slice(keys, func(i, j int) bool {
		return keys[i][0] < keys[j][0] || (keys[i][0] == keys[j][0] && keys[i][1] < keys[j][1])
	})
	bm := map[hlsl.ResourceBinding]hlsl.BindTarget{}
	for i, k := range keys {
		bm[hlsl.ResourceBinding{Group: k[0], Binding: k[1]}] = hlsl.BindTarget{Space: uint8(1 + i%3), Register: uint32(20 + 3*i)}
	}
	opts := hlslOptions(cfg, entry, bm)
	special := hlsl.BindTarget{Space: 7, Register: 5}
	opts.SpecialConstantsBinding = &special
	txt, info, err := compileHLSLModule(m, opts)
	if err != nil {
		return "naga: hlsl: " + err.Error(), "", nil
	}
	p, err := Parse(HLSL, txt)
	if err != nil {
		return "parse: " + err.Error(), txt, nil
	}
	nwgSlot := Slot{Class: 'b', Index: 5, Space: 7}
	runCfg := RunConfig{NumWorkgroups: c.groups, StepLimit: 20_000_000, ReverseOrder: reverse, Buffers: map[Slot][]byte{}, NumWorkgroupsSlot: &nwgSlot}
	if info != nil && info.EntryPointNames[entry] != "" {
		runCfg.Entry = info.EntryPointNames[entry]
	} else {
		runCfg.Entry = entry
	}
	if runCfg.NumWorkgroups == [3]uint32{} {
		runCfg.NumWorkgroups = [3]uint32{1, 1, 1}
	}
	work := map[gb][]byte{}
	for k, b := range c.bufs {
		work[k] = append([]byte(nil), b...)
		slot, ok := hlslSlotFor(m, k, cfg, bm)
		if !ok {
			return fmt.Sprintf("harness: no resource for %v", k), txt, nil
		}
		runCfg.Buffers[slot] = work[k]
	}
	res, err = p.Run(runCfg)
	if err != nil {
		return "run: " + err.Error(), txt, res
	}
	if res.Trap != "" {
		return "trap: " + res.Trap, txt, res
	}
	if len(res.Poison) > 0 {
		return "poison: " + strings.Join(res.Poison, "; "), txt, res
	}
	wkeys := make([]gb, 0, len(c.want))
	for k := range c.want {
		wkeys = append(wkeys, k)
	}
	sort.Slice(wkeys, func(i, j int) bool {
		return wkeys[i][0] < wkeys[j][0] || (wkeys[i][0] == wkeys[j][0] && wkeys[i][1] < wkeys[j][1])
	})
	for _, k := range wkeys {
		got := words32(work[k])
		want := c.want[k]
		if len(got) < len(want) {
			return fmt.Sprintf("buffer %v has %d words, expectation has %d", k, len(got), len(want)), txt, res
		}
		for i, w := range want {
			if ok, ws := compareWord(got[i], w); !ok {
				return fmt.Sprintf("mismatch: buffer %v word %d = %#x (%d, %g), want %s", k, i, got[i], int32(got[i]), math.Float32frombits(got[i]), ws), txt, res
			}
		}
	}
	return "", txt, res
}

func runNagaHLSLCases(t *testing.T, cases []nagaCase) {
	t.Helper()
	for _, c := range cases {
		c := c
		t.Run(c.name, func(t *testing.T) {
			for _, cfg := range hlslConfigs {
				for _, rev := range []bool{false, true} {
					problem, txt, _ := runNagaHLSLCase(c, cfg, rev)
					wantDefect := ""
					if d := hlslKnownDefects[c.name]; d != nil {
						wantDefect = d[cfg.name]
						if wantDefect == "" {
							wantDefect = d["*"]
						}
					}
					switch {
					case wantDefect != "":
						if !strings.Contains(problem, wantDefect) {
							t.Errorf("[%s rev=%v] expected the known defect %q, got %q\n%s", cfg, rev, wantDefect, problem, numbered(txt))
						} else if !rev {
							t.Logf("[%s] suspected naga defect still present: %s", cfg, problem)
						}
					case problem != "":
						t.Errorf("[%s rev=%v] %s\n%s", cfg, rev, problem, numbered(txt))
						return
					}
				}
			}
		})
	}
}
