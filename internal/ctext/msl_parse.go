package ctext

import (
	"math"
	"strconv"
	"strings"
)

// mslFE is the MSL front end.  Grammar: ISO C++14 clauses 5-9 restricted to
// what Metal allows (Metal Shading Language Specification §1.4.3-§1.4.4
// "Overloading, templates ... / restrictions"), plus the Metal additions:
// address-space qualifiers (§4), function qualifiers kernel / vertex /
// fragment (§5.1), [[attributes]] (§5.2), as_type<T> (§2.?? "Type conversions
// and re-interpreting data").  Valid C++ that the interpreter does not model
// is reported as UnsupportedError, never as InvalidError.
type mslFE struct {
	st         *mslState
	usingMetal bool              // using namespace metal;
	usingNames map[string]bool   // using metal::uint;
	tplParams  []string          // template type parameters in scope while parsing a template
	templates  map[string]bool   // names of function templates (parse-time)
	zeroConv   map[string]bool   // struct names with `template<typename T> operator T() &&`
	typedefs   map[string]bool   // typedef names (parse-time)
	inFunc     *Function         // function whose body is being parsed
	funcKinds  map[string]string // stage of the function being parsed
}

// mslSpaces are the address-space qualifiers (MSL §4).
var mslSpaces = map[string]bool{"device": true, "constant": true, "thread": true, "threadgroup": true,
	"threadgroup_imageblock": true, "ray_data": true, "object_data": true}

// mslStages are the function qualifiers that make an entry point (MSL §5.1).
var mslStages = map[string]bool{"kernel": true, "vertex": true, "fragment": true}

func (fe *mslFE) hasDiscard() bool { return false }

func (fe *mslFE) isReservedWord(p *parser, w string) bool { return mslIsKeyword(w) }

func (fe *mslFE) checkDeclIdent(p *parser, t Token) {
	if mslIsKeyword(t.Text) {
		t.Pos.invalid(MSL, "keyword", "%q is a keyword of C++14 / Metal and cannot be declared as an identifier", t.Text)
	}
	if t.Text == "main" {
		// MSL §5.1 (functions): "main" cannot be used as a function name;
		// as a variable name it is legal, so only functions are checked
		// (parseFunction).
		return
	}
}

// ---------------------------------------------------------------------------
// attributes  [[ a, b(c) ]]
// ---------------------------------------------------------------------------

// mslAttr is one attribute of an attribute-specifier.
type mslAttr struct {
	Pos  Pos
	Name string   // "buffer", "user", "thread_position_in_grid", ...
	Args []string // raw argument tokens: "0", "fake0", "locn0"
}

func (a mslAttr) String() string {
	if len(a.Args) == 0 {
		return a.Name
	}
	return a.Name + "(" + strings.Join(a.Args, ",") + ")"
}

func (fe *mslFE) atAttr(p *parser) bool {
	return p.isPunct("[") && p.peekN(1).Kind == TPunct && p.peekN(1).Text == "["
}

func (fe *mslFE) parseAttrs(p *parser) []mslAttr {
	var out []mslAttr
	for fe.atAttr(p) {
		p.next()
		p.next()
		for {
			t := p.peek()
			if t.Kind != TIdent {
				t.Pos.invalid(MSL, "syntax", "expected attribute name, found %q", t.String())
			}
			p.next()
			a := mslAttr{Pos: t.Pos, Name: t.Text}
			for p.isPunct("::") {
				p.next()
				n := p.next()
				a.Name += "::" + n.Text
			}
			if p.accept("(") {
				depth := 1
				for depth > 0 {
					tk := p.next()
					switch {
					case tk.Kind == TEOF:
						tk.Pos.invalid(MSL, "syntax", "unterminated attribute argument list")
					case tk.Kind == TPunct && tk.Text == "(":
						depth++
						a.Args = append(a.Args, tk.Text)
					case tk.Kind == TPunct && tk.Text == ")":
						depth--
						if depth > 0 {
							a.Args = append(a.Args, tk.Text)
						}
					case tk.Kind == TPunct && tk.Text == "," && depth == 1:
					default:
						a.Args = append(a.Args, tk.String())
					}
				}
			}
			out = append(out, a)
			if p.accept(",") {
				continue
			}
			if p.peek().Kind == TIdent {
				// "[[color(0) index(1)]]": Apple's compiler accepts a blank
				// between attributes (the form naga and its upstream emit)
				continue
			}
			break
		}
		p.expect("]")
		p.expect("]")
	}
	return out
}

// ---------------------------------------------------------------------------
// type names
// ---------------------------------------------------------------------------

// isGlobalTypeWord: a single identifier that names a type at this point.
func (fe *mslFE) isGlobalTypeWord(p *parser, w string) bool {
	if p.isTypeName(w) {
		return true
	}
	for _, tp := range fe.tplParams {
		if tp == w {
			return !fe.hiddenByVar(p, w)
		}
	}
	if _, ok := mslTypeNames[w]; ok || mslUnmodelledTypeName(w) || mslInvalidTypeName(w) {
		switch w {
		case "array", "vec", "matrix", "atomic", "sampler", "mesh", "depth": // too generic to claim unqualified
			return false
		}
		return !fe.hiddenByVar(p, w)
	}
	return false
}

func (fe *mslFE) hiddenByVar(p *parser, w string) bool {
	for i := len(p.varScopes) - 1; i >= 0; i-- {
		if p.varScopes[i][w] {
			return true
		}
	}
	return false
}

// scanType returns the index just after a type name that starts at token
// index i (lexically: cv-qualifiers, address spaces, `unsigned int`,
// `metal::name`, `name<...>`, user type names), or ok=false.
func (fe *mslFE) scanType(p *parser, i int) (end int, ok bool) {
	tok := func(k int) Token {
		if k < len(p.toks) {
			return p.toks[k]
		}
		return p.toks[len(p.toks)-1]
	}
	for {
		t := tok(i)
		if t.Kind == TIdent && (t.Text == "const" || t.Text == "volatile" || t.Text == "constexpr" || t.Text == "static" || mslSpaces[t.Text]) {
			i++
			continue
		}
		break
	}
	t := tok(i)
	if t.Kind != TIdent {
		return 0, false
	}
	switch {
	case t.Text == "unsigned" || t.Text == "signed":
		i++
		for {
			n := tok(i)
			if n.Kind == TIdent && (n.Text == "int" || n.Text == "char" || n.Text == "short" || n.Text == "long") {
				i++
				continue
			}
			break
		}
	case t.Text == "struct" || t.Text == "class" || t.Text == "typename":
		if tok(i+1).Kind != TIdent {
			return 0, false
		}
		i += 2
	case t.Text == "auto":
		i++
	case t.Text == "metal":
		if !(tok(i+1).Kind == TPunct && tok(i+1).Text == "::") {
			return 0, false
		}
		i += 2
		if tok(i).Kind != TIdent {
			return 0, false
		}
		last := tok(i).Text
		i++
		for tok(i).Kind == TPunct && tok(i).Text == "::" && tok(i+1).Kind == TIdent {
			last = tok(i + 1).Text
			i += 2
		}
		if _, known := mslTypeNames[last]; !known && !mslUnmodelledTypeName(last) && !mslInvalidTypeName(last) &&
			!(tok(i).Kind == TPunct && tok(i).Text == "<") {
			// metal::something that is not a type (a function, an enumerator);
			// raytracing / nested-namespace types are caught by the '<' or by
			// the unmodelled-name table
			if !strings.Contains(last, "acceleration") && !strings.HasSuffix(last, "_type") && last != "ray" && last != "intersector" && last != "intersection_result" {
				return 0, false
			}
		}
	default:
		if !fe.isGlobalTypeWord(p, t.Text) {
			return 0, false
		}
		i++
	}
	// template arguments
	if tok(i).Kind == TPunct && tok(i).Text == "<" {
		depth := 0
		for {
			tk := tok(i)
			if tk.Kind == TEOF {
				return 0, false
			}
			if tk.Kind == TPunct {
				switch tk.Text {
				case "<":
					depth++
				case ">":
					depth--
				case ">>":
					depth -= 2
				case ";", "{", "}":
					return 0, false
				}
			}
			i++
			if depth <= 0 {
				break
			}
		}
		// nested-name after a template-id: metal::numeric_limits<int>::max
		if tok(i).Kind == TPunct && tok(i).Text == "::" {
			return 0, false
		}
	}
	for tok(i).Kind == TIdent && (tok(i).Text == "const" || tok(i).Text == "volatile") {
		i++
	}
	return i, true
}

// parseTypeName parses a type name (without declarator operators) into a
// TypeExpr whose Name is the canonical unqualified spelling.  quals collects
// cv / address-space words met before or after the name.
type mslDeclQuals struct {
	Const, Volatile, Constexpr, Static, Inline bool
	Space                                      string
	Pos                                        Pos
	afterType                                  bool // parsing the qualifiers that follow the type name
}

func (fe *mslFE) parseQualWords(p *parser, q *mslDeclQuals) {
	for {
		t := p.peek()
		if t.Kind != TIdent {
			return
		}
		if n := p.peekN(1); q.afterType && n.Kind == TPunct && (n.Text == "=" || n.Text == ";" || n.Text == "," || n.Text == ")" || n.Text == "[" || n.Text == "(" || n.Text == "{") {
			// `int device = 1;`: the word sits where the declarator name
			// belongs; let declIdent diagnose the keyword
			return
		}
		switch {
		case t.Text == "const":
			q.Const = true
		case t.Text == "volatile":
			q.Volatile = true
		case t.Text == "constexpr":
			q.Constexpr = true
		case t.Text == "static":
			q.Static = true
		case t.Text == "inline":
			q.Inline = true
		case mslSpaces[t.Text]:
			if q.Space != "" && q.Space != t.Text {
				t.Pos.invalid(MSL, "syntax", "more than one address-space qualifier (%s and %s)", q.Space, t.Text)
			}
			q.Space = t.Text
		default:
			return
		}
		p.next()
	}
}

func (fe *mslFE) parseTypeName(p *parser, q *mslDeclQuals) *TypeExpr {
	fe.parseQualWords(p, q)
	t := p.peek()
	if t.Kind != TIdent {
		t.Pos.invalid(MSL, "syntax", "expected a type, found %q", t.String())
	}
	tx := &TypeExpr{Pos: t.Pos}
	switch {
	case t.Text == "unsigned" || t.Text == "signed":
		p.next()
		base := "int"
		nlong := 0
		seen := false
		for {
			n := p.peek()
			if n.Kind == TIdent && (n.Text == "int" || n.Text == "char" || n.Text == "short" || n.Text == "long") {
				p.next()
				if n.Text == "long" {
					nlong++
					base = "long"
				} else if n.Text != "int" || !seen {
					if n.Text != "int" {
						base = n.Text
					}
				}
				seen = true
				continue
			}
			break
		}
		if nlong > 1 {
			t.Pos.invalid(MSL, "type", "long long is not supported by MSL (§2.1)")
		}
		if t.Text == "unsigned" {
			base = map[string]string{"int": "uint", "char": "uchar", "short": "ushort", "long": "ulong"}[base]
		}
		tx.Name = base
		fe.checkBuiltinTypeName(p, t, base, false)
	case t.Text == "struct" || t.Text == "class":
		p.next()
		n := p.peek()
		if n.Kind != TIdent {
			n.Pos.invalid(MSL, "syntax", "expected a type name after %q", t.Text)
		}
		if p.peekN(1).Kind == TPunct && p.peekN(1).Text == "{" {
			n.Pos.unsupported(MSL, "structure definition inside a declaration")
		}
		p.next()
		tx.Name = n.Text
	case t.Text == "auto":
		p.next()
		tx.Name = "auto"
	case t.Text == "decltype" || t.Text == "typename":
		t.Pos.unsupported(MSL, "%s type specifier", t.Text)
	case t.Text == "metal":
		p.next()
		p.expect("::")
		n := p.peek()
		if n.Kind != TIdent {
			n.Pos.invalid(MSL, "syntax", "expected a name after metal::")
		}
		p.next()
		name := n.Text
		nested := false
		for p.isPunct("::") {
			p.next()
			m := p.peek()
			if m.Kind != TIdent {
				m.Pos.invalid(MSL, "syntax", "expected a name after ::")
			}
			p.next()
			name += "::" + m.Text
			nested = true
		}
		if nested {
			n.Pos.unsupported(MSL, "type metal::%s", name)
		}
		tx.Name = name
		if mslResourceTypeName(name) {
			// textures and samplers are opaque handles: typed by their spelling
			spelled := name
			if p.isPunct("<") {
				depth := 0
				for {
					tk := p.next()
					if tk.Kind == TEOF {
						tk.Pos.invalid(MSL, "syntax", "unterminated template argument list")
					}
					if tk.Kind == TPunct {
						switch tk.Text {
						case "<":
							depth++
						case ">":
							depth--
						case ">>":
							depth -= 2
						}
					}
					spelled += tk.String()
					if depth <= 0 {
						break
					}
				}
			}
			tx.Name = "%" + spelled
		} else {
			fe.checkBuiltinTypeName(p, n, name, true)
		}
	case t.Text == "long":
		p.next()
		if p.isWord("long") {
			t.Pos.invalid(MSL, "type", "long long is not supported by MSL (§2.1)")
		}
		p.acceptWord("int")
		tx.Name = "long"
		fe.checkBuiltinTypeName(p, t, "long", false)
	case t.Text == "short":
		p.next()
		p.acceptWord("int")
		tx.Name = "short"
	default:
		if !fe.isGlobalTypeWord(p, t.Text) {
			if mslIsKeyword(t.Text) {
				t.Pos.invalid(MSL, "syntax", "expected a type, found keyword %q", t.Text)
			}
			t.Pos.invalid(MSL, "undeclared", "unknown type name %q", t.Text)
		}
		p.next()
		tx.Name = t.Text
		if !p.isTypeName(t.Text) && !fe.isTplParam(t.Text) {
			fe.checkBuiltinTypeName(p, t, t.Text, false)
		}
	}
	if p.isPunct("<") {
		p.peek().Pos.unsupported(MSL, "template type %s<...>", tx.Name)
	}
	q.afterType = true
	fe.parseQualWords(p, q)
	q.afterType = false
	return tx
}

func (fe *mslFE) isTplParam(w string) bool {
	for _, tp := range fe.tplParams {
		if tp == w {
			return true
		}
	}
	return false
}

// checkBuiltinTypeName classifies a built-in type name.
func (fe *mslFE) checkBuiltinTypeName(p *parser, t Token, name string, qualified bool) {
	if _, ok := mslTypeNames[name]; ok {
		return
	}
	if mslInvalidTypeName(name) {
		t.Pos.invalid(MSL, "type", "MSL has no type %q: \"Metal does not support the double, long long, unsigned long long, and long double data types\" (MSL §2.1)", name)
	}
	if mslUnmodelledTypeName(name) {
		t.Pos.unsupported(MSL, "type %s", name)
	}
	if qualified {
		t.Pos.unsupported(MSL, "type metal::%s", name)
	}
}

func (fe *mslFE) parseArrayDims(p *parser) []Expr {
	var dims []Expr
	for p.isPunct("[") && !fe.atAttr(p) {
		p.next()
		if p.accept("]") {
			dims = append(dims, nil)
			continue
		}
		e := p.parseCond()
		p.expect("]")
		dims = append(dims, e)
	}
	return dims
}

// mslResourceTypeName: texture, depth-texture and sampler types (MSL §2.9,
// §2.10): opaque handles.
func mslResourceTypeName(name string) bool {
	return name == "sampler" || strings.HasPrefix(name, "texture") || strings.HasPrefix(name, "depth")
}

// ptrTypeName encodes a pointer type in a TypeExpr name (decoded by
// mslRules.namedType): "*space|pointee".
func ptrTypeName(space, pointee string) string { return "*" + space + "|" + pointee }

// ---------------------------------------------------------------------------
// literals: C++14 [lex.icon], [lex.fcon]; MSL §2.1 (suffixes f, h; no double)
// ---------------------------------------------------------------------------

func (fe *mslFE) numberLit(p *parser, t Token) Expr {
	if t.IsFloat {
		switch t.Suffix {
		case "", "f", "F":
			// MSL has no double type (§2.1), an unsuffixed floating literal is
			// therefore read as a float literal.
			f, err := strconv.ParseFloat(t.Text, 32)
			if err != nil && !math.IsInf(f, 0) {
				t.Pos.invalid(MSL, "syntax", "bad floating literal %q", t.Text)
			}
			return &Lit{ExprBase: ExprBase{Pos: t.Pos}, V: floatValue(float32(f))}
		case "h", "H":
			f, err := strconv.ParseFloat(t.Text, 64)
			if err != nil && !math.IsInf(f, 0) {
				t.Pos.invalid(MSL, "syntax", "bad floating literal %q", t.Text)
			}
			return &Lit{ExprBase: ExprBase{Pos: t.Pos}, V: Value{T: tHalf, C: []Cell{f32Cell(roundToHalf(float32(f)))}}}
		}
		t.Pos.invalid(MSL, "syntax", "bad suffix on floating literal %q", t.String())
	}
	suffix := strings.ToLower(t.Suffix)
	unsigned := false
	long := false
	switch suffix {
	case "":
	case "u":
		unsigned = true
	case "l":
		long = true
	case "ul", "lu":
		unsigned, long = true, true
	case "ll", "ull", "llu":
		t.Pos.invalid(MSL, "type", "long long literal %q: MSL does not support long long (§2.1)", t.String())
	case "h", "f":
		// 1h / 1f are not valid C++ (a floating suffix needs a fractional
		// constant or an exponent)
		t.Pos.invalid(MSL, "syntax", "floating suffix on integer literal %q", t.String())
	default:
		t.Pos.invalid(MSL, "syntax", "bad suffix on integer literal %q", t.String())
	}
	body := t.Text
	var v uint64
	var err error
	decimal := false
	switch {
	case strings.HasPrefix(body, "0x") || strings.HasPrefix(body, "0X"):
		if len(body) == 2 {
			t.Pos.invalid(MSL, "syntax", "bad hexadecimal literal %q", body)
		}
		v, err = strconv.ParseUint(body[2:], 16, 64)
	case len(body) > 1 && body[0] == '0':
		v, err = strconv.ParseUint(body[1:], 8, 64)
		if err != nil {
			t.Pos.invalid(MSL, "syntax", "bad octal literal %q", body)
		}
	default:
		decimal = true
		v, err = strconv.ParseUint(body, 10, 64)
	}
	if err != nil {
		t.Pos.invalid(MSL, "literal", "integer literal %q is too large", t.String())
	}
	// C++14 [lex.icon] Table 6: the type is the first of the list in which the
	// value fits: none: int, long (decimal) / int, unsigned, long, unsigned
	// long (hex, octal); u: unsigned, unsigned long; l: long ...
	typ := tInt
	switch {
	case long:
		t.Pos.unsupported(MSL, "64-bit integer literal %q", t.String())
	case unsigned:
		if v > 0xffffffff {
			t.Pos.unsupported(MSL, "64-bit integer literal %q", t.String())
		}
		typ = tUint
	case v <= 0x7fffffff:
		typ = tInt
	case !decimal && v <= 0xffffffff:
		typ = tUint
	default:
		t.Pos.unsupported(MSL, "64-bit integer literal %q", t.String())
	}
	return &Lit{ExprBase: ExprBase{Pos: t.Pos}, V: Value{T: typ, C: []Cell{{B: uint32(v)}}}}
}

// ---------------------------------------------------------------------------
// expressions
// ---------------------------------------------------------------------------

var mslUnmodelledExprWords = map[string]string{
	"sizeof": "sizeof", "alignof": "alignof", "this": "this", "nullptr": "nullptr", "new": "new-expression",
	"delete": "delete-expression", "throw": "throw-expression", "typeid": "typeid", "noexcept": "noexcept-expression",
	"reinterpret_cast": "reinterpret_cast", "const_cast": "const_cast", "dynamic_cast": "dynamic_cast", "operator": "operator function call",
	"decltype": "decltype", "auto": "auto", "typename": "typename",
}

func (fe *mslFE) parsePrimary(p *parser) Expr {
	t := p.peek()
	switch t.Kind {
	case TPunct:
		switch t.Text {
		case "&":
			p.next()
			p.enter(t.Pos)
			x := p.parseUnary()
			p.leave()
			return &mslAddrOf{ExprBase: ExprBase{Pos: t.Pos}, X: x}
		case "*":
			p.next()
			p.enter(t.Pos)
			x := p.parseUnary()
			p.leave()
			return &mslDeref{ExprBase: ExprBase{Pos: t.Pos}, X: x}
		case "{":
			return fe.parseBrace(p, nil)
		case "[":
			t.Pos.unsupported(MSL, "lambda expression")
		case "::":
			t.Pos.unsupported(MSL, "global-scope qualified name")
		case "(":
			// C-style cast  (T) unary-expression
			if end, ok := fe.scanType(p, p.i+1); ok {
				j := end
				for j < len(p.toks) && p.toks[j].Kind == TPunct && (p.toks[j].Text == "&" || p.toks[j].Text == "*") {
					j++
				}
				if j < len(p.toks) && p.toks[j].Kind == TPunct && p.toks[j].Text == ")" {
					if j != end {
						t.Pos.unsupported(MSL, "cast to a pointer or reference type")
					}
					p.next()
					var q mslDeclQuals
					tx := fe.parseTypeName(p, &q)
					p.expect(")")
					p.enter(t.Pos)
					x := p.parseUnary()
					p.leave()
					return &mslCast{ExprBase: ExprBase{Pos: t.Pos}, Form: "c-style", TypeX: tx, Args: []Expr{x}}
				}
			}
		}
		return nil
	case TIdent:
	default:
		return nil
	}
	if what, ok := mslUnmodelledExprWords[t.Text]; ok {
		t.Pos.unsupported(MSL, "%s", what)
	}
	switch t.Text {
	case "static_cast", "as_type":
		p.next()
		p.expect("<")
		var q mslDeclQuals
		tx := fe.parseTypeName(p, &q)
		if p.isPunct("&") || p.isPunct("*") {
			p.peek().Pos.unsupported(MSL, "%s to a pointer or reference type", t.Text)
		}
		if q.Space != "" {
			q.Pos.unsupported(MSL, "address-space qualified type in %s", t.Text)
		}
		p.expect(">")
		p.expect("(")
		p.enter(t.Pos)
		x := p.parseExpr()
		p.leave()
		p.expect(")")
		if t.Text == "as_type" {
			return &mslAsType{ExprBase: ExprBase{Pos: t.Pos}, TypeX: tx, X: x}
		}
		return &mslCast{ExprBase: ExprBase{Pos: t.Pos}, Form: "static_cast", TypeX: tx, Args: []Expr{x}}
	case "INFINITY", "NAN":
		// macros of <metal_stdlib> (metal_math): float constants
		if fe.hiddenByVar(p, t.Text) {
			return nil
		}
		p.next()
		f := float32(math.Inf(1))
		if t.Text == "NAN" {
			f = float32(math.NaN())
		}
		return &Lit{ExprBase: ExprBase{Pos: t.Pos}, V: floatValue(f)}
	case "metal":
		if p.peekN(1).Kind == TPunct && p.peekN(1).Text == "::" {
			return fe.parseMetalName(p)
		}
		return nil
	}
	// a type name: functional cast T(args) or list-initialisation T{...}
	if _, ok := fe.scanTypeHere(p); ok {
		var q mslDeclQuals
		tx := fe.parseTypeName(p, &q)
		return fe.parseAfterType(p, t, tx)
	}
	// a call of a function template
	if fe.templates[t.Text] && !fe.hiddenByVar(p, t.Text) && p.peekN(1).Kind == TPunct && p.peekN(1).Text == "(" {
		p.next()
		args := p.parseArgs()
		return &mslTemplateCall{ExprBase: ExprBase{Pos: t.Pos}, Name: t.Text, Args: args}
	}
	if fe.usingMetal && !fe.hiddenByVar(p, t.Text) && p.peekN(1).Kind == TPunct && p.peekN(1).Text == "(" {
		if mslIsBuiltinFunc(t.Text) && !fe.st.userFuncs[t.Text] {
			p.next()
			args := p.parseArgs()
			return &mslCall{ExprBase: ExprBase{Pos: t.Pos}, Name: t.Text, Args: args}
		}
	}
	return nil
}

// scanTypeHere: does a type name (not followed by a declarator) start here?
func (fe *mslFE) scanTypeHere(p *parser) (int, bool) {
	t := p.peek()
	if t.Kind != TIdent {
		return 0, false
	}
	switch t.Text {
	case "const", "volatile", "constexpr", "static", "metal":
		return 0, false
	}
	if mslSpaces[t.Text] {
		return 0, false
	}
	return fe.scanType(p, p.i)
}

// parseAfterType parses what follows a type name in an expression.
func (fe *mslFE) parseAfterType(p *parser, at Token, tx *TypeExpr) Expr {
	switch {
	case p.isPunct("("):
		args := p.parseArgs()
		return &mslCast{ExprBase: ExprBase{Pos: at.Pos}, Form: "functional", TypeX: tx, Args: args}
	case p.isPunct("{"):
		return fe.parseBrace(p, tx)
	}
	p.peek().Pos.invalid(MSL, "syntax", "type name %q used as an expression (expected '(' or '{')", tx.Name)
	return nil
}

// parseBrace parses a braced-init-list (C++14 [dcl.init.list]).
func (fe *mslFE) parseBrace(p *parser, tx *TypeExpr) Expr {
	lb := p.expect("{")
	p.enter(lb.Pos)
	defer p.leave()
	b := &mslBrace{ExprBase: ExprBase{Pos: lb.Pos}, TypeX: tx}
	for !p.isPunct("}") {
		if p.peek().Kind == TEOF {
			p.peek().Pos.invalid(MSL, "syntax", "unexpected end of input in a braced initializer list")
		}
		if p.isPunct(".") {
			p.peek().Pos.unsupported(MSL, "designated initializer")
		}
		b.Elems = append(b.Elems, p.parseAssign())
		if !p.accept(",") {
			break
		}
	}
	p.expect("}")
	return b
}

// parseMetalName parses an expression that starts with `metal::`.
func (fe *mslFE) parseMetalName(p *parser) Expr {
	start := p.peek()
	if _, ok := fe.scanType(p, p.i); ok {
		var q mslDeclQuals
		tx := fe.parseTypeName(p, &q)
		return fe.parseAfterType(p, start, tx)
	}
	p.next() // metal
	p.expect("::")
	var parts []string
	for {
		n := p.peek()
		if n.Kind != TIdent {
			n.Pos.invalid(MSL, "syntax", "expected a name after ::")
		}
		p.next()
		parts = append(parts, n.Text)
		if p.isPunct("::") {
			p.next()
			continue
		}
		break
	}
	name := strings.Join(parts, "::")
	// precise:: / fast:: variants are the same mathematical function
	if len(parts) == 2 && (parts[0] == "precise" || parts[0] == "fast") {
		name = parts[1]
	}
	if p.isPunct("<") {
		start.Pos.unsupported(MSL, "metal::%s<...>", name)
	}
	if p.isPunct("(") {
		args := p.parseArgs()
		return &mslCall{ExprBase: ExprBase{Pos: start.Pos}, Name: name, Args: args}
	}
	if p.peek().Kind == TIdent || p.isPunct("{") {
		// used as a type; not a type this front end knows
		start.Pos.unsupported(MSL, "type metal::%s (unknown to this front end)", name)
	}
	return &mslEnum{ExprBase: ExprBase{Pos: start.Pos}, Name: name}
}

// ---------------------------------------------------------------------------
// statements: declarations
// ---------------------------------------------------------------------------

func (fe *mslFE) startsDecl(p *parser) bool {
	t := p.peek()
	if t.Kind != TIdent {
		return false
	}
	switch t.Text {
	case "const", "volatile", "constexpr", "static", "struct", "class", "typedef", "using", "auto", "enum", "union", "static_assert", "extern", "thread_local", "register":
		return true
	}
	if mslSpaces[t.Text] {
		return true
	}
	end, ok := fe.scanType(p, p.i)
	if !ok {
		if n := p.peekN(1); n.Kind == TIdent && !mslIsKeyword(t.Text) && !mslIsKeyword(n.Text) && !fe.hiddenByVar(p, t.Text) {
			// two identifiers in a row cannot start an expression: a
			// declaration whose type name is unknown
			t.Pos.invalid(MSL, "undeclared", "unknown type name %q", t.Text)
		}
		return false
	}
	n := p.toks[end]
	switch n.Kind {
	case TIdent:
		return true
	case TPunct:
		if n.Text == "&" || n.Text == "*" || n.Text == "&&" {
			// T & x  /  T * x : a declaration, because T is a type
			return true
		}
	}
	return false
}

func (fe *mslFE) parseDeclStmt(p *parser) Stmt {
	start := p.peek()
	switch start.Text {
	case "struct", "class", "union", "enum":
		if p.peekN(1).Kind == TIdent && p.peekN(2).Kind == TPunct && p.peekN(2).Text == "{" || (p.peekN(1).Kind == TPunct && p.peekN(1).Text == "{") {
			start.Pos.unsupported(MSL, "local %s definition", start.Text)
		}
		if start.Text != "struct" && start.Text != "class" {
			start.Pos.unsupported(MSL, "%s declaration", start.Text)
		}
	case "typedef", "using", "static_assert", "extern", "thread_local", "register":
		start.Pos.unsupported(MSL, "local %s declaration", start.Text)
	}
	var q mslDeclQuals
	q.Pos = start.Pos
	tx := fe.parseTypeName(p, &q)
	ds := &DeclStmt{Pos: start.Pos}
	for {
		if p.isPunct("&") || p.isPunct("*") || p.isPunct("&&") {
			p.peek().Pos.unsupported(MSL, "local reference or pointer variable")
		}
		name := p.declIdent()
		vd := &VarDecl{Pos: name.Pos, Name: name.Text}
		dims := fe.parseArrayDims(p)
		vd.TypeX = &TypeExpr{Pos: tx.Pos, Name: tx.Name, Dims: dims}
		vd.Quals.Const = q.Const || q.Constexpr
		vd.Quals.Pos = q.Pos
		if tx.Name == "auto" && (len(dims) > 0 || q.Space != "" || !(p.isPunct("=") && !(p.peekN(1).Kind == TPunct && p.peekN(1).Text == "{"))) {
			tx.Pos.unsupported(MSL, "auto in this form of declaration")
		}
		switch q.Space {
		case "", "thread":
		case "threadgroup":
			vd.Quals.Shared = true
		default:
			// MSL §4: device / constant variables cannot be declared in a function
			q.Pos.invalid(MSL, "syntax", "variable %q in the %s address space declared at function scope (MSL §4.1, §4.2)", name.Text, q.Space)
		}
		if q.Static {
			q.Pos.unsupported(MSL, "static local variable")
		}
		if attrs := fe.parseAttrs(p); len(attrs) > 0 {
			attrs[0].Pos.unsupported(MSL, "attribute on a local variable")
		}
		switch {
		case p.accept("="):
			if p.isPunct("{") {
				vd.Init = fe.parseBrace(p, &TypeExpr{Pos: tx.Pos, Name: tx.Name, Dims: dims})
			} else {
				vd.Init = p.parseAssign()
			}
		case p.isPunct("{"):
			vd.Init = fe.parseBrace(p, &TypeExpr{Pos: tx.Pos, Name: tx.Name, Dims: dims})
		case p.isPunct("("):
			at := p.peek()
			args := p.parseArgs()
			vd.Init = &mslCast{ExprBase: ExprBase{Pos: at.Pos}, Form: "functional", TypeX: &TypeExpr{Pos: tx.Pos, Name: tx.Name, Dims: dims}, Args: args}
		}
		p.declareVar(name.Text)
		ds.Vars = append(ds.Vars, vd)
		if p.accept(",") {
			continue
		}
		break
	}
	p.expect(";")
	return ds
}

// ---------------------------------------------------------------------------
// translation unit
// ---------------------------------------------------------------------------

// mslTop is one external declaration in source order.
type mslTop struct {
	Pos      Pos
	Struct   *StructDecl
	Typedef  *mslTypedef
	Vars     []*VarDecl
	VarSpace string
	Func     *Function
	Template *mslTemplate
}

type mslTypedef struct {
	Pos   Pos
	Name  string
	TypeX *TypeExpr
}

// mslTemplate is a function template: its body is parsed per instantiation
// from the recorded token range.
type mslTemplate struct {
	Pos       Pos
	Name      string
	TParams   []string
	Proto     *Function // signature only (parameter patterns)
	tokStart  int       // first token of the function declaration (after template<...>)
	instances map[string]*Function
}

// mslParamInfo is the dialect information about a parameter.
type mslParamInfo struct {
	Space   string // address space of the referenced / pointed-to object ("" for values)
	Ref     bool
	Ptr     bool
	ConstTo bool // reference / pointer to const
	Attrs   []mslAttr
}

// mslFuncInfo is the dialect information about a function.
type mslFuncInfo struct {
	Stage     string // "kernel", "vertex", "fragment" or ""
	Attrs     []mslAttr
	RetAttrs  []mslAttr
	Constexpr bool
}

func (fe *mslFE) parseTranslationUnit(p *parser) []*mslTop {
	var decls []*mslTop
	for {
		t := p.peek()
		if t.Kind == TEOF {
			break
		}
		if t.Kind == TDirective {
			p.next()
			fe.directive(t)
			continue
		}
		if p.accept(";") {
			continue
		}
		if d := fe.parseExternalDecl(p); d != nil {
			decls = append(decls, d)
		}
	}
	return decls
}

func (fe *mslFE) directive(t Token) {
	f := strings.Fields(t.Text)
	if len(f) == 0 {
		return
	}
	switch f[0] {
	case "include":
		rest := strings.Join(f[1:], "")
		switch rest {
		case "<metal_stdlib>", "<simd/simd.h>", "<metal_math>", "<metal_atomic>", "<metal_compute>", "<metal_common>", "<metal_geometric>",
			"<metal_integer>", "<metal_matrix>", "<metal_pack>", "<metal_relational>", "<metal_types>":
			return
		}
		t.Pos.unsupported(MSL, "#include %s", rest)
	case "pragma":
		return
	case "define", "undef", "if", "ifdef", "ifndef", "else", "elif", "endif", "error", "line":
		t.Pos.unsupported(MSL, "preprocessor directive #%s", f[0])
	}
	t.Pos.invalid(MSL, "syntax", "unknown preprocessor directive #%s", f[0])
}

func (fe *mslFE) parseExternalDecl(p *parser) *mslTop {
	start := p.peek()
	declStart := p.i
	if start.Kind != TIdent && !fe.atAttr(p) {
		start.Pos.invalid(MSL, "syntax", "unexpected %q at namespace scope", start.String())
	}
	d := &mslTop{Pos: start.Pos}
	switch start.Text {
	case "using":
		p.next()
		if p.acceptWord("namespace") {
			n := p.next()
			if n.Kind != TIdent {
				n.Pos.invalid(MSL, "syntax", "expected a namespace name")
			}
			if n.Text != "metal" || p.isPunct("::") {
				n.Pos.unsupported(MSL, "using namespace %s", n.Text)
			}
			fe.usingMetal = true
			p.expect(";")
			return nil
		}
		if p.isWord("metal") {
			p.next()
			p.expect("::")
			n := p.next()
			if n.Kind != TIdent {
				n.Pos.invalid(MSL, "syntax", "expected a name after metal::")
			}
			if p.isPunct("::") {
				n.Pos.unsupported(MSL, "using-declaration of a nested name")
			}
			fe.usingNames[n.Text] = true
			p.expect(";")
			return nil
		}
		start.Pos.unsupported(MSL, "using declaration / alias")
	case "namespace", "enum", "class", "union", "static_assert", "extern", "friend", "asm":
		start.Pos.unsupported(MSL, "%s declaration", start.Text)
	case "typedef":
		p.next()
		var q mslDeclQuals
		tx := fe.parseTypeName(p, &q)
		if p.isPunct("*") || p.isPunct("&") || p.isPunct("(") {
			p.peek().Pos.unsupported(MSL, "typedef of a pointer, reference or function type")
		}
		name := p.declIdent()
		dims := fe.parseArrayDims(p)
		p.expect(";")
		p.declareType(name.Text)
		fe.typedefs[name.Text] = true
		d.Typedef = &mslTypedef{Pos: name.Pos, Name: name.Text, TypeX: &TypeExpr{Pos: tx.Pos, Name: tx.Name, Dims: dims}}
		return d
	case "struct":
		if p.peekN(1).Kind == TIdent && p.peekN(2).Kind == TPunct && (p.peekN(2).Text == "{" || p.peekN(2).Text == ";" || p.peekN(2).Text == ":") {
			d.Struct = fe.parseStruct(p)
			return d
		}
		if p.peekN(1).Kind == TPunct && p.peekN(1).Text == "{" {
			start.Pos.unsupported(MSL, "anonymous structure")
		}
	case "template":
		d.Template = fe.parseTemplate(p)
		return d
	}
	// attributes, function / variable specifiers
	fi := &mslFuncInfo{}
	fi.Attrs = fe.parseAttrs(p)
	var q mslDeclQuals
	q.Pos = p.peek().Pos
	for {
		t := p.peek()
		if t.Kind == TIdent && mslStages[t.Text] {
			if fi.Stage != "" {
				t.Pos.invalid(MSL, "syntax", "more than one function qualifier (%s and %s)", fi.Stage, t.Text)
			}
			fi.Stage = t.Text
			p.next()
			continue
		}
		if fe.atAttr(p) {
			fi.Attrs = append(fi.Attrs, fe.parseAttrs(p)...)
			continue
		}
		break
	}
	tx := fe.parseTypeName(p, &q)
	// a stage qualifier may also follow other specifiers
	for p.peek().Kind == TIdent && mslStages[p.peek().Text] {
		fi.Stage = p.next().Text
	}
	if p.isPunct("&") || p.isPunct("*") {
		p.peek().Pos.unsupported(MSL, "namespace-scope pointer or reference / function returning one")
	}
	name := p.peek()
	if name.Kind != TIdent {
		name.Pos.invalid(MSL, "syntax", "expected a declarator name, found %q", name.String())
	}
	if name.Text == "operator" {
		name.Pos.unsupported(MSL, "operator function")
	}
	if p.peekN(1).Kind == TPunct && p.peekN(1).Text == "(" {
		fi.Constexpr = q.Constexpr
		if q.Space != "" {
			q.Pos.unsupported(MSL, "function returning an address-space qualified type")
		}
		d.Func = fe.parseFunctionIsolated(p, declStart, name, tx, fi)
		if d.Func == nil {
			return nil
		}
		return d
	}
	// namespace-scope variables
	d.VarSpace = q.Space
	for {
		nm := p.declIdent()
		vd := &VarDecl{Pos: nm.Pos, Name: nm.Text}
		dims := fe.parseArrayDims(p)
		vd.TypeX = &TypeExpr{Pos: tx.Pos, Name: tx.Name, Dims: dims}
		vd.Quals.Const = q.Const || q.Constexpr || q.Space == "constant"
		vd.Quals.Pos = q.Pos
		if attrs := fe.parseAttrs(p); len(attrs) > 0 {
			attrs[0].Pos.unsupported(MSL, "attribute on a namespace-scope variable (function constant / binding)")
		}
		switch {
		case p.accept("="):
			if p.isPunct("{") {
				vd.Init = fe.parseBrace(p, &TypeExpr{Pos: tx.Pos, Name: tx.Name, Dims: dims})
			} else {
				vd.Init = p.parseAssign()
			}
		case p.isPunct("{"):
			vd.Init = fe.parseBrace(p, &TypeExpr{Pos: tx.Pos, Name: tx.Name, Dims: dims})
		case p.isPunct("("):
			p.peek().Pos.unsupported(MSL, "namespace-scope variable with a parenthesised initializer")
		}
		p.declareVar(nm.Text)
		d.Vars = append(d.Vars, vd)
		if p.accept(",") {
			continue
		}
		break
	}
	p.expect(";")
	return d
}

// parseStruct parses `struct Name { members };`.
func (fe *mslFE) parseStruct(p *parser) *StructDecl {
	st := p.expectWord("struct")
	name := p.declIdent()
	sd := &StructDecl{Pos: st.Pos, Name: name.Text}
	if p.isPunct(";") {
		name.Pos.unsupported(MSL, "forward declaration of struct %s", name.Text)
	}
	if p.isPunct(":") {
		name.Pos.unsupported(MSL, "base classes")
	}
	// the name is visible inside its own definition
	p.declareType(sd.Name)
	p.expect("{")
	for !p.isPunct("}") {
		t := p.peek()
		if t.Kind == TEOF {
			t.Pos.invalid(MSL, "syntax", "unexpected end of input in struct")
		}
		if p.accept(";") {
			continue
		}
		if t.Kind == TIdent {
			switch t.Text {
			case "template":
				if fe.parseZeroConversion(p) {
					fe.zeroConv[sd.Name] = true
					continue
				}
				t.Pos.unsupported(MSL, "member template")
			case "public", "private", "protected", "friend", "using", "typedef", "static", "enum", "struct", "class", "union", "operator", "explicit", "virtual", "static_assert", "constexpr", "inline":
				t.Pos.unsupported(MSL, "%s in a structure definition", t.Text)
			}
			if t.Text == sd.Name && p.peekN(1).Kind == TPunct && p.peekN(1).Text == "(" {
				t.Pos.unsupported(MSL, "constructor")
			}
		}
		if t.Kind == TPunct && t.Text == "~" {
			t.Pos.unsupported(MSL, "destructor")
		}
		if attrs := fe.parseAttrs(p); len(attrs) > 0 {
			attrs[0].Pos.unsupported(MSL, "attribute before a structure member")
		}
		var q mslDeclQuals
		q.Pos = t.Pos
		tx := fe.parseTypeName(p, &q)
		if q.Space != "" || q.Static || q.Constexpr {
			q.Pos.unsupported(MSL, "address-space qualified or static structure member")
		}
		for {
			if p.isPunct("*") || p.isPunct("&") {
				p.peek().Pos.unsupported(MSL, "pointer or reference structure member")
			}
			mn := p.declIdent()
			if p.isPunct("(") {
				mn.Pos.unsupported(MSL, "member function")
			}
			if p.isPunct(":") {
				mn.Pos.unsupported(MSL, "bit-field")
			}
			vd := &VarDecl{Pos: mn.Pos, Name: mn.Text}
			dims := fe.parseArrayDims(p)
			vd.TypeX = &TypeExpr{Pos: tx.Pos, Name: tx.Name, Dims: dims}
			if attrs := fe.parseAttrs(p); len(attrs) > 0 {
				fe.st.memberAttrs[sd.Name+"."+mn.Text] = attrs
			}
			if p.isPunct("=") || p.isPunct("{") {
				p.peek().Pos.unsupported(MSL, "default member initializer")
			}
			sd.Fields = append(sd.Fields, vd)
			if p.accept(",") {
				continue
			}
			break
		}
		p.expect(";")
	}
	p.next()
	if p.peek().Kind == TIdent {
		p.peek().Pos.unsupported(MSL, "declarator after a structure definition")
	}
	p.expect(";")
	return sd
}

// parseZeroConversion recognises exactly
//
//	template<typename T> operator T() && { return T {}; }
//
// (naga's DefaultConstructible helper: an rvalue of the struct converts to the
// value-initialised object of any type, C++14 [class.conv.fct], [temp.deduct.conv],
// [dcl.init]/8).  It consumes the tokens and returns true on a match.
func (fe *mslFE) parseZeroConversion(p *parser) bool {
	want := []string{"template", "<", "typename", "T", ">", "operator", "T", "(", ")", "&&", "{", "return", "T", "{", "}", ";", "}"}
	tname := ""
	j := p.i
	for k, w := range want {
		if j >= len(p.toks) {
			return false
		}
		t := p.toks[j]
		if w == "T" {
			if t.Kind != TIdent {
				return false
			}
			if tname == "" {
				tname = t.Text
			} else if t.Text != tname {
				return false
			}
		} else if t.Text != w || (t.Kind != TIdent && t.Kind != TPunct) {
			return false
		}
		_ = k
		j++
	}
	p.i = j
	return true
}

// parseTemplate parses `template <typename A, ...> function-definition`.
func (fe *mslFE) parseTemplate(p *parser) *mslTemplate {
	tt := p.expectWord("template")
	p.expect("<")
	tpl := &mslTemplate{Pos: tt.Pos, instances: map[string]*Function{}}
	for {
		k := p.next()
		if k.Kind != TIdent || (k.Text != "typename" && k.Text != "class") {
			k.Pos.unsupported(MSL, "non-type or template template parameter")
		}
		n := p.declIdent()
		if p.isPunct("=") {
			n.Pos.unsupported(MSL, "default template argument")
		}
		tpl.TParams = append(tpl.TParams, n.Text)
		if p.accept(",") {
			continue
		}
		break
	}
	p.expect(">")
	if p.isWord("struct") || p.isWord("class") || p.isWord("using") {
		p.peek().Pos.unsupported(MSL, "class or alias template")
	}
	tpl.tokStart = p.i
	fe.tplParams = tpl.TParams
	defer func() { fe.tplParams = nil }()
	// signature only: parse the declarator, skip the body
	fi := &mslFuncInfo{}
	var q mslDeclQuals
	tx := fe.parseTypeName(p, &q)
	if p.isPunct("&") || p.isPunct("*") {
		p.peek().Pos.unsupported(MSL, "function template returning a pointer or reference")
	}
	name := p.peek()
	if name.Kind != TIdent || !(p.peekN(1).Kind == TPunct && p.peekN(1).Text == "(") {
		name.Pos.unsupported(MSL, "template that is not a function template")
	}
	tpl.Proto = fe.parseFunctionHeader(p, tx, fi)
	tpl.Name = tpl.Proto.Name
	if !p.isPunct("{") {
		p.peek().Pos.unsupported(MSL, "function template declaration without a body")
	}
	depth := 0
	for {
		t := p.next()
		if t.Kind == TEOF {
			t.Pos.invalid(MSL, "syntax", "unexpected end of input in a function template")
		}
		if t.Kind == TPunct && t.Text == "{" {
			depth++
		}
		if t.Kind == TPunct && t.Text == "}" {
			depth--
			if depth == 0 {
				break
			}
		}
	}
	fe.templates[tpl.Name] = true
	return tpl
}

// parseFunctionHeader parses `name ( parameters ) [attributes]` and leaves the
// parser at the body (or ';').  The caller has parsed the return type.
func (fe *mslFE) parseFunctionHeader(p *parser, ret *TypeExpr, fi *mslFuncInfo) *Function {
	name := p.peek()
	fe.checkDeclIdent(p, name)
	if name.Text == "main" {
		name.Pos.invalid(MSL, "keyword", "a function cannot be named main in MSL (§5.1)")
	}
	p.next()
	fn := &Function{Pos: name.Pos, Name: name.Text, RetX: ret}
	fe.st.funcInfo[fn] = fi
	p.expect("(")
	if p.isWord("void") && p.peekN(1).Kind == TPunct && p.peekN(1).Text == ")" {
		p.next()
	}
	for !p.isPunct(")") {
		if p.peek().Kind == TEOF {
			p.peek().Pos.invalid(MSL, "syntax", "unexpected end of input in a parameter list")
		}
		if p.isPunct(".") {
			p.peek().Pos.unsupported(MSL, "variadic function")
		}
		pi := &mslParamInfo{}
		if attrs := fe.parseAttrs(p); len(attrs) > 0 {
			pi.Attrs = append(pi.Attrs, attrs...)
		}
		var q mslDeclQuals
		q.Pos = p.peek().Pos
		ptx := fe.parseTypeName(p, &q)
		prm := &Param{Pos: ptx.Pos, TypeX: ptx, Dir: "in"}
		switch {
		case p.isPunct("&&"):
			p.peek().Pos.unsupported(MSL, "rvalue reference parameter")
		case p.accept("&"):
			pi.Ref = true
		case p.accept("*"):
			pi.Ptr = true
			// cv-qualifiers of the pointer itself
			var pq mslDeclQuals
			fe.parseQualWords(p, &pq)
			if pq.Space != "" {
				pq.Pos.invalid(MSL, "syntax", "address-space qualifier after '*'")
			}
			if p.isPunct("*") || p.isPunct("&") {
				p.peek().Pos.unsupported(MSL, "pointer to pointer / reference to pointer parameter")
			}
		}
		pi.Space = q.Space
		pi.ConstTo = q.Const || q.Space == "constant"
		switch {
		case pi.Ref:
			prm.Dir = "ref"
			if pi.ConstTo {
				prm.Dir = "cref"
				prm.Quals.Const = true
			}
			if pi.Space == "" {
				// MSL §4: "a reference or pointer type must be declared with an
				// address space attribute" - older versions reject this, newer
				// ones default to thread
				pi.Space = "thread"
			}
		case pi.Ptr:
			prm.Dir = "ptr"
			if pi.Space == "" {
				pi.Space = "thread"
			}
			prm.TypeX = &TypeExpr{Pos: ptx.Pos, Name: ptrTypeName(pi.Space, ptx.Name)}
			if pi.ConstTo {
				prm.Quals.Const = true
			}
		default:
			prm.Quals.Const = q.Const
			if q.Space != "" && q.Space != "thread" {
				q.Pos.invalid(MSL, "syntax", "parameter passed by value cannot be in the %s address space", q.Space)
			}
		}
		if p.peek().Kind == TIdent {
			nm := p.declIdent()
			prm.Name = nm.Text
			prm.Pos = nm.Pos
			dims := fe.parseArrayDims(p)
			if len(dims) > 0 {
				nm.Pos.unsupported(MSL, "array parameter (decays to a pointer)")
			}
			p.declareVar(nm.Text)
		}
		pi.Attrs = append(pi.Attrs, fe.parseAttrs(p)...)
		if p.isPunct("=") {
			p.peek().Pos.unsupported(MSL, "default argument")
		}
		fe.st.paramInfo[prm] = pi
		fn.Params = append(fn.Params, prm)
		if p.accept(",") {
			if p.isPunct(")") {
				p.peek().Pos.invalid(MSL, "syntax", "trailing comma in a parameter list")
			}
			continue
		}
		break
	}
	p.expect(")")
	for p.peek().Kind == TIdent && (p.peek().Text == "const" || p.peek().Text == "noexcept" || p.peek().Text == "override") {
		p.peek().Pos.unsupported(MSL, "%s after a parameter list", p.peek().Text)
	}
	fi.RetAttrs = fe.parseAttrs(p)
	return fn
}

// parseFunction parses a function definition or declaration.
func (fe *mslFE) parseFunction(p *parser, ret *TypeExpr, fi *mslFuncInfo) *Function {
	p.pushScope()
	defer p.popScope()
	fn := fe.parseFunctionHeader(p, ret, fi)
	fe.st.userFuncs[fn.Name] = true
	if p.accept(";") {
		return fn
	}
	if !p.isPunct("{") {
		p.peek().Pos.invalid(MSL, "syntax", "expected ';' or a function body, found %q", p.peek().String())
	}
	saved := fe.inFunc
	fe.inFunc = fn
	fn.Body = p.parseBlock()
	fe.inFunc = saved
	return fn
}

// parseFunctionIsolated parses a function definition; when the function uses
// a construct that is valid but not modelled, the whole function is skipped
// and recorded (calls of it, and running it, are then unsupported) instead of
// failing the translation unit: texts that carry vertex / fragment entry
// points next to the kernels stay usable.
func (fe *mslFE) parseFunctionIsolated(p *parser, declStart int, name Token, ret *TypeExpr, fi *mslFuncInfo) (fn *Function) {
	nt, nv, depth := len(p.typeScopes), len(p.varScopes), p.depth
	defer func() {
		r := recover()
		if r == nil {
			return
		}
		b, ok := r.(bail)
		if !ok {
			panic(r)
		}
		ue, ok := b.err.(*UnsupportedError)
		if !ok {
			panic(r)
		}
		p.typeScopes, p.varScopes, p.depth = p.typeScopes[:nt], p.varScopes[:nv], depth
		fe.inFunc = nil
		p.i = fe.skipFunction(p, declStart)
		fe.st.skipped[name.Text] = ue
		fe.st.skippedList = append(fe.st.skippedList, mslSkipped{Name: name.Text, Stage: fi.Stage, Pos: name.Pos, Err: ue})
		fe.st.userFuncs[name.Text] = true
		fn = nil
	}()
	return fe.parseFunction(p, ret, fi)
}

// skipFunction returns the token index just after the function declaration
// or definition that starts at token index i.
func (fe *mslFE) skipFunction(p *parser, i int) int {
	depth := 0
	seenParams := false
	for ; i < len(p.toks); i++ {
		t := p.toks[i]
		if t.Kind == TEOF {
			return i
		}
		if t.Kind != TPunct {
			continue
		}
		switch t.Text {
		case "(", "[":
			depth++
		case ")", "]":
			depth--
			if depth == 0 && t.Text == ")" {
				seenParams = true
			}
		case ";":
			if depth == 0 && seenParams {
				return i + 1
			}
		case "{":
			if depth == 0 && seenParams {
				braces := 0
				for ; i < len(p.toks); i++ {
					b := p.toks[i]
					if b.Kind == TEOF {
						return i
					}
					if b.Kind == TPunct && b.Text == "{" {
						braces++
					}
					if b.Kind == TPunct && b.Text == "}" {
						braces--
						if braces == 0 {
							return i + 1
						}
					}
				}
				return i
			}
		}
	}
	return i
}

// instantiate parses a fresh copy of the template's function definition (the
// checker binds the template parameters as type names).
func (fe *mslFE) instantiate(p *parser, tpl *mslTemplate) *Function {
	savedI := p.i
	defer func() { p.i = savedI }()
	p.i = tpl.tokStart
	fe.tplParams = tpl.TParams
	defer func() { fe.tplParams = nil }()
	fi := &mslFuncInfo{}
	var q mslDeclQuals
	tx := fe.parseTypeName(p, &q)
	return fe.parseFunction(p, tx, fi)
}
