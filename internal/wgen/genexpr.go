package wgen

// Expression generation: type-directed, valid by construction.

func (g *gen) expr(t *Type, depth int) Expr {
	if depth <= 0 {
		return g.leaf(t, 0)
	}
	switch t.K {
	case TScalar:
		switch t.S {
		case Bool:
			return g.boolExpr(depth)
		case I32, U32:
			return g.intExpr(t.S, depth)
		case F32:
			return g.floatExpr(depth)
		}
	case TVec:
		return g.vecExpr(t, depth)
	case TMat:
		return g.matExpr(t, depth)
	case TArray, TStruct:
		return g.aggExpr(t, depth)
	}
	return g.leaf(t, depth)
}

// callTo returns a call of a helper returning t, if any.
func (g *gen) callTo(t *Type, depth int) Expr {
	if g.noCalls {
		return nil
	}
	var cands []*Func
	for _, f := range g.funcs {
		if f.Ret != nil && f.Ret.Same(t) && g.canCall(f) && !(f.MustUse && g.noMustUse) {
			cands = append(cands, f)
		}
	}
	if len(cands) == 0 {
		return nil
	}
	f := cands[g.intn(len(cands), "callf")]
	return g.buildCall(f, depth)
}

func (g *gen) canCall(f *Func) bool {
	for _, p := range f.Params {
		if p.T.K == TPtr && g.ptrArgFor(p.T) == nil {
			return false
		}
	}
	return true
}

func (g *gen) ptrArgFor(pt *Type) *Var {
	var c []*Var
	for _, sv := range g.visible() {
		if sv.v.Kind == VVar && !sv.readonly && sv.v.T.Same(pt.Elem) && pt.Space == "function" {
			c = append(c, sv.v)
		}
	}
	if pt.Space == "private" {
		for _, v := range g.privs {
			if v.T.Same(pt.Elem) {
				c = append(c, v)
			}
		}
	}
	if len(c) == 0 {
		return nil
	}
	return c[len(c)-1]
}

func (g *gen) buildCall(f *Func, depth int) Expr {
	g.class("call")
	args := make([]Expr, len(f.Params))
	for i, p := range f.Params {
		if p.T.K == TPtr {
			g.class("call:ptr-arg")
			args[i] = &AddrOf{X: &VarRef{g.ptrArgFor(p.T)}, Space: p.T.Space}
			continue
		}
		args[i] = g.expr(p.T, depth-1)
	}
	return &CallE{Fn: f, Args: args}
}

func (g *gen) selectExpr(t *Type, depth int) Expr {
	if g.f.off("builtin.select") {
		// (open finding C04-1 concerns the scalar-condition form, emitted as an unparenthesised ?: in MSL;
		// the vector-condition form is a metal::select(...) call and stays in play)
		if t.K == TVec && !g.f.off("select.vector-cond") {
			g.class("select:vector-cond-only")
			return &Builtin{Name: "select", Args: []Expr{g.expr(t, depth-1), g.expr(t, depth-1), g.expr(Vec(t.N, Bool), depth-1)}, T: t}
		}
		return g.leaf(t, depth)
	}
	g.class("select")
	var cond Expr
	if t.K == TVec && g.chance(50, "selvec") && !g.f.off("select.vector-cond") {
		cond = g.expr(Vec(t.N, Bool), depth-1)
	} else {
		cond = g.expr(TBool, depth-1)
	}
	return &Builtin{Name: "select", Args: []Expr{g.expr(t, depth-1), g.expr(t, depth-1), cond}, T: t}
}

// extractFrom returns a scalar of kind k taken out of a computed composite.
func (g *gen) extractFrom(k Kind, depth int) Expr {
	n := 2 + g.intn(3, "exn")
	vt := Vec(n, k)
	v := g.expr(vt, depth-1)
	g.class("extract:vec")
	_, isBin := v.(*Binary)
	if g.chance(70, "exswz") || (isBin && g.f.off("swizzle.of-binary")) {
		// (open finding C04-2, MSL: a dynamic index applied to a binary expression loses its parentheses)
		return &Swizzle{X: v, Comps: []int{g.intn(n, "exc")}, Set: g.intn(2, "exset"), T: Scalar(k)}
	}
	return &Index{X: v, I: g.indexExpr(v, n, depth-1), T: Scalar(k)}
}

var intBinOps = []string{"+", "-", "*", "/", "%", "&", "|", "^", "<<", ">>"}

func (g *gen) shiftAmount(shape *Type, depth int) Expr {
	ut := shape.WithKind(U32)
	if shape.K == TScalar {
		ut = TU32
	}
	switch g.intn(3, "sha") {
	case 0:
		if shape.K == TScalar {
			return &Lit{T: TU32, Bits: uint32(g.intn(32, "shl"))}
		}
		return &Construct{T: ut, Args: []Expr{&Lit{T: TU32, Bits: uint32(g.intn(32, "shl"))}}}
	case 1:
		if !g.f.off("shift.dynamic.wide") {
			g.class("shift:raw-amount")
			return g.expr(ut, depth-1)
		}
		fallthrough
	default:
		m := Expr(&Lit{T: TU32, Bits: 32})
		if shape.K != TScalar {
			m = &Construct{T: ut, Args: []Expr{&Lit{T: TU32, Bits: 32}}}
		}
		return &Binary{Op: "%", L: g.expr(ut, depth-1), R: m, T: ut}
	}
}

func (g *gen) intBinary(t *Type, depth int) Expr {
	op := intBinOps[g.intn(len(intBinOps), "ibop")]
	g.class("bin" + op + ":" + shapeClass(t))
	if op == "<<" || op == ">>" {
		b := &Binary{Op: op, L: g.expr(t, depth-1), T: t}
		b.R = g.shiftAmount(t, depth)
		return g.guardConst(b, func() { b.L = g.runtimeOf(t) })
	}
	b := &Binary{Op: op, T: t}
	// scalar/vector mixing for vectors
	lt, rt := t, t
	// WGSL allows scalar-vector mixing for the arithmetic operators only
	// (+ - * / %), not for & | ^.
	if mixOK := op != "&" && op != "|" && op != "^"; t.K == TVec && mixOK {
		switch g.intn(4, "mix") {
		case 0:
			lt = t.ScalarOf()
		case 1:
			rt = t.ScalarOf()
		}
	}
	b.L = g.expr(lt, depth-1)
	b.R = g.expr(rt, depth-1)
	if op == "%" && t.S == I32 && g.chance(85, "remnn") && g.f.off("rem.negative") {
		// (known finding C05-13: the target leaves % with a negative operand undefined) keep most
		// signed remainders on non-negative operands so that the executions stay comparable
		g.class("rem:operands-made-non-negative")
		mask := func(x Expr, xt *Type) Expr {
			var m Expr = &Lit{T: TI32, Bits: 0x7fffffff}
			if xt.K != TScalar {
				m = &Construct{T: xt, Args: []Expr{m}}
			}
			if g.overrideFoldHazard(x) {
				return x
			}
			return &Binary{Op: "&", L: x, R: m, T: xt}
		}
		b.L, b.R = mask(b.L, lt), mask(b.R, rt)
	}
	return g.guardConst(b, func() { b.R = g.runtimeOf(rt) })
}

// runtimeOf returns a non-constant expression of numeric type t.
func (g *gen) runtimeOf(t *Type) Expr {
	switch t.K {
	case TScalar:
		if t.S == Bool {
			return &Binary{Op: "!=", L: g.runtimeLeaf(U32), R: &Lit{T: TU32, Bits: 0}, T: TBool}
		}
		return g.runtimeLeaf(t.S)
	case TVec:
		return &Construct{T: t, Args: []Expr{g.runtimeOf(t.ScalarOf())}}
	case TMat:
		args := make([]Expr, t.N)
		for i := range args {
			args[i] = g.runtimeOf(t.ColumnType())
		}
		return &Construct{T: t, Args: args}
	}
	panic("runtimeOf " + t.String())
}

func shapeClass(t *Type) string {
	switch t.K {
	case TScalar:
		return t.S.String()
	case TVec:
		return "vec<" + t.S.String() + ">"
	case TMat:
		return "mat"
	}
	return t.String()
}

func (g *gen) intBuiltin(t *Type, depth int) Expr {
	k := t.S
	names := []string{"abs", "min", "max", "clamp", "countOneBits", "countLeadingZeros", "countTrailingZeros",
		"reverseBits", "firstLeadingBit", "firstTrailingBit", "extractBits", "insertBits"}
	if k == U32 && g.f.off("builtin.abs.unsigned") {
		names = names[1:]
	}
	n := names[g.intn(len(names), "ibn")]
	if g.f.off("builtin." + n) {
		n = "min"
	}
	// Known finding (tag bits-helper.per-function, HLSL): the naga_extractBits /
	// naga_insertBits helper is emitted once per function that uses it; keep
	// these builtins in the entry point only.
	if (n == "extractBits" || n == "insertBits") && g.inHelper && g.f.off("bits-helper.per-function") {
		n = "min"
	}
	g.class("builtin:" + n + ":" + shapeClass(t))
	e := func() Expr { return g.expr(t, depth-1) }
	u := func() Expr {
		// offset / count arguments: small or arbitrary
		if g.chance(70, "bitsmall") {
			return &Lit{T: TU32, Bits: uint32(g.intn(34, "bitv"))}
		}
		return g.expr(TU32, depth-1)
	}
	var b *Builtin
	switch n {
	case "min", "max":
		b = &Builtin{Name: n, Args: []Expr{e(), e()}, T: t}
	case "clamp":
		b = &Builtin{Name: n, Args: []Expr{e(), e(), e()}, T: t}
	case "extractBits":
		b = &Builtin{Name: n, Args: []Expr{e(), u(), u()}, T: t}
	case "insertBits":
		b = &Builtin{Name: n, Args: []Expr{e(), e(), u(), u()}, T: t}
	default:
		b = &Builtin{Name: n, Args: []Expr{e()}, T: t}
	}
	return g.guardConst(b, func() { b.Args[0] = g.runtimeOf(t) })
}

func (g *gen) intExpr(k Kind, depth int) Expr {
	t := Scalar(k)
	r := g.intn(100, "ie")
	switch {
	case r < 12:
		return g.leaf(t, depth)
	case r < 45:
		return g.intBinary(t, depth)
	case r < 52:
		op := "~"
		if k == I32 && g.chance(50, "neg") {
			op = "-"
		}
		g.class("unary" + op + ":" + k.String())
		u := &Unary{Op: op, X: g.expr(t, depth-1), T: t}
		return g.guardConst(u, func() { u.X = g.runtimeOf(t) })
	case r < 66:
		return g.intBuiltin(t, depth)
	case r < 76:
		return g.convToInt(k, depth)
	case r < 82:
		return g.selectExpr(t, depth)
	case r < 88:
		if c := g.callTo(t, depth); c != nil {
			return c
		}
		return g.intBinary(t, depth)
	case r < 93:
		return g.extractFrom(k, depth)
	case r < 97:
		// dot product of integer vectors
		n := 2 + g.intn(3, "dotn")
		g.class("builtin:dot:int")
		b := &Builtin{Name: "dot", Args: []Expr{g.expr(Vec(n, k), depth-1), g.expr(Vec(n, k), depth-1)}, T: t}
		if g.inConst == 0 && len(g.inputs) > 0 && g.f.off("dot.int.bool-splat-convert") {
			// (known finding C05-18: vecN<i32>(bool-vector let) inside an integer dot)
			for i, a := range b.Args {
				bad := false
				WalkExpr(a, func(x Expr) bool {
					if c, ok := x.(*Construct); ok && len(c.Args) == 1 && c.Args[0].Type() != nil && c.Args[0].Type().K == TVec && c.Args[0].Type().S == Bool {
						bad = true
					}
					return !bad
				})
				if bad {
					b.Args[i] = g.runtimeOf(Vec(n, k))
				}
			}
		}
		if g.inConst == 0 && len(g.inputs) > 0 && g.f.off("dot.int.typed-let-splat") {
			// (known finding C04-8, MSL: integer dot of a typed let bound to a splat constructor)
			for i, a := range b.Args {
				if vr, ok := a.(*VarRef); ok && (vr.V.Kind == VLet || vr.V.Kind == VConst) && !vr.V.NoType {
					if c, ok := vr.V.Init.(*Construct); ok && len(c.Args) == 1 && c.Args[0].Type() != nil && c.Args[0].Type().K == TScalar {
						b.Args[i] = g.runtimeOf(Vec(n, k))
					}
				}
			}
		}
		return g.guardConst(b, func() { b.Args[0] = g.runtimeOf(Vec(n, k)) })
	default:
		if k == U32 && g.f.Floats && !g.f.off("builtin.pack") {
			return g.packExpr(depth)
		}
		return g.leaf(t, depth)
	}
}

func (g *gen) packExpr(depth int) Expr {
	names := []string{"pack4x8unorm", "pack4x8snorm", "pack2x16unorm", "pack2x16snorm", "pack2x16float"}
	n := names[g.intn(len(names), "pk")]
	g.class("builtin:" + n)
	w := 2
	if n[4] == '4' {
		w = 4
	}
	b := &Builtin{Name: n, Args: []Expr{g.expr(Vec(w, F32), depth-1)}, T: TU32}
	return g.guardConst(b, func() { b.Args[0] = g.runtimeOf(Vec(w, F32)) })
}

func (g *gen) convToInt(k Kind, depth int) Expr {
	t := Scalar(k)
	var src Kind
	switch g.intn(5, "cvi") {
	case 0:
		src = Bool
	case 1, 2:
		if k == I32 {
			src = U32
		} else {
			src = I32
		}
	default:
		if !g.f.Floats {
			src = Bool
		} else {
			src = F32
		}
	}
	if src == F32 && g.chance(35, "bitcast") {
		g.class("bitcast:f32->" + k.String())
		b := &Builtin{Name: "bitcast", Tmpl: t, Args: []Expr{g.floatLeafish(depth)}, T: t}
		return g.guardConst(b, func() { b.Args[0] = g.runtimeOf(TF32) })
	}
	if src != F32 && src != Bool && g.chance(35, "bitcasti") {
		g.class("bitcast:" + src.String() + "->" + k.String())
		b := &Builtin{Name: "bitcast", Tmpl: t, Args: []Expr{g.expr(Scalar(src), depth-1)}, T: t}
		return g.guardConst(b, func() { b.Args[0] = g.runtimeOf(Scalar(src)) })
	}
	if src == F32 && g.hostileF != nil && g.chance(60, "hostf") {
		// C15: convert a hostile float (infinite / out of range) loaded straight from a buffer
		g.class("convert:hostile-f32->" + k.String())
		n := g.hostileF.T.N
		return &Construct{T: t, Args: []Expr{&Index{X: &VarRef{g.hostileF}, I: &Lit{T: TU32, Bits: uint32(g.intn(n, "hostfi"))}, T: TF32}}}
	}
	g.class("convert:" + src.String() + "->" + k.String())
	c := &Construct{T: t, Args: []Expr{g.expr(Scalar(src), depth-1)}}
	return g.guardConst(c, func() { c.Args[0] = g.runtimeOf(Scalar(src)) })
}

// foldable reports whether naga may constant-fold e: a WGSL const-expression,
// or one whose non-constant leaves are `let`s bound to foldable values (naga
// folds through those).
func foldable(e Expr) bool {
	ok := true
	WalkExpr(e, func(x Expr) bool {
		switch y := x.(type) {
		case *VarRef:
			switch {
			case y.V.Kind == VConst:
			case y.V.Kind == VLet && y.V.Init != nil && foldable(y.V.Init):
			default:
				ok = false
			}
		case *CallE, *AddrOf, *Deref:
			ok = false
		case *Builtin:
			switch y.Name {
			case "arrayLength", "atomicLoad", "atomicAdd", "atomicSub", "atomicMax", "atomicMin", "atomicAnd", "atomicOr", "atomicXor", "atomicExchange", "atomicStore":
				ok = false
			}
		}
		return ok
	})
	return ok
}

// floatLeafish yields a float whose bits are determined (a load or literal),
// suitable as a bitcast source.
func (g *gen) floatLeafish(depth int) Expr { return g.leaf(TF32, depth) }

var cmpOps = []string{"==", "!=", "<", "<=", ">", ">="}

func (g *gen) boolExpr(depth int) Expr {
	r := g.intn(100, "be")
	switch {
	case r < 10:
		return g.leaf(TBool, depth)
	case r < 55:
		k := g.numKind()
		op := cmpOps[g.intn(6, "cmp")]
		g.class("cmp" + op + ":" + k.String())
		b := &Binary{Op: op, L: g.expr(Scalar(k), depth-1), R: g.expr(Scalar(k), depth-1), T: TBool}
		if !IsConstExpr(b) && foldable(b) && g.inConst == 0 && len(g.inputs) > 0 && g.f.off("const-fold.compare-let") {
			// (known finding C05-17: folded through a let, the result is typed as the operands)
			b.R = g.runtimeOf(Scalar(k))
		}
		if g.f.Overrides && g.inConst == 0 && IsOverrideExpr(b) && !IsConstExpr(b) && g.f.off("override.fold.compare") {
			b.R = g.runtimeOf(Scalar(k))
		}
		return g.guardConst(b, func() { b.R = g.runtimeOf(Scalar(k)) })
	case r < 72:
		op := []string{"&&", "||", "&", "|", "==", "!="}[g.intn(6, "lop")]
		g.class("logic" + op)
		lb := &Binary{Op: op, L: g.expr(TBool, depth-1), R: g.expr(TBool, depth-1), T: TBool}
		if (op == "&&" || op == "||") && g.f.off("const-fold.logical-named-const") {
			// (known finding C05-19) the other operand may itself fold to a literal inside naga
			// (false && x), so a named constant is kept out of every direct && / || operand
			fix := func(e Expr) Expr {
				if v, ok := e.(*VarRef); ok && v.V.Kind == VConst {
					if g.inConst > 0 || len(g.inputs) == 0 {
						return g.litOf(Bool)
					}
					return g.runtimeOf(TBool)
				}
				return e
			}
			lb.L, lb.R = fix(lb.L), fix(lb.R)
		}
		if foldable(lb) && g.f.off("const-fold.logical-named-const") {
			// (known finding C05-19: && / || of constants that include a named const fold to false)
			named := false
			WalkExpr(lb, func(x Expr) bool {
				if _, ok := x.(*VarRef); ok {
					named = true
				}
				return !named
			})
			if named {
				if g.inConst > 0 || len(g.inputs) == 0 {
					// const context: no run-time leaf exists; fall back to a literal
					return g.litOf(Bool)
				}
				lb.R = g.runtimeOf(TBool)
			}
		}
		return lb
	case r < 80:
		g.class("unary!")
		return &Unary{Op: "!", X: g.expr(TBool, depth-1), T: TBool}
	case r < 88 && !g.f.off("builtin.relational"):
		n := 2 + g.intn(3, "aan")
		name := []string{"all", "any"}[g.intn(2, "aa")]
		g.class("builtin:" + name)
		if g.chance(15, "aascalar") && !g.f.off("builtin.relational.scalar") {
			g.class("builtin:" + name + ":scalar")
			return &Builtin{Name: name, Args: []Expr{g.expr(TBool, depth-1)}, T: TBool}
		}
		return &Builtin{Name: name, Args: []Expr{g.expr(Vec(n, Bool), depth-1)}, T: TBool}
	case r < 93:
		return g.selectExpr(TBool, depth)
	case r < 97:
		if c := g.callTo(TBool, depth); c != nil {
			return c
		}
		fallthrough
	default:
		k := []Kind{I32, U32}[g.intn(2, "b2k")]
		g.class("convert:" + k.String() + "->bool")
		return &Construct{T: TBool, Args: []Expr{g.expr(Scalar(k), depth-1)}}
	}
}

var exactFloatBuiltins = []string{"abs", "min", "max", "clamp", "floor", "ceil", "trunc", "round", "fract", "sign", "step", "saturate"}
var inexactFloatBuiltins = []string{"sqrt", "inverseSqrt", "exp", "exp2", "log", "log2", "sin", "cos", "tan", "atan", "sinh", "cosh", "tanh",
	"degrees", "radians", "pow", "fma", "mix", "smoothstep", "asinh"}

func (g *gen) floatBuiltin(t *Type, depth int, inexact bool) Expr {
	e := func() Expr { return g.floatish(t, depth-1) }
	list := exactFloatBuiltins
	if inexact {
		list = inexactFloatBuiltins
	}
	n := list[g.intn(len(list), "fbn")]
	if g.f.off("builtin." + n) {
		n = "abs"
	}
	g.class("builtin:" + n + ":" + shapeClass(t))
	var b *Builtin
	switch n {
	case "min", "max", "step", "pow":
		b = &Builtin{Name: n, Args: []Expr{e(), e()}, T: t}
	case "clamp":
		// ordered literal bounds keep the call inside WGSL's defined domain
		lo := g.smallFloat()
		hi := lo + float32(g.intn(16, "clhi"))/4
		b = &Builtin{Name: n, Args: []Expr{e(), g.splatF(t, lo), g.splatF(t, hi)}, T: t}
	case "smoothstep":
		lo := g.smallFloat()
		hi := lo + float32(1+g.intn(16, "sshi"))/4
		b = &Builtin{Name: n, Args: []Expr{g.splatF(t, lo), g.splatF(t, hi), e()}, T: t}
	case "fma", "mix":
		b = &Builtin{Name: n, Args: []Expr{e(), e(), e()}, T: t}
	default:
		b = &Builtin{Name: n, Args: []Expr{e()}, T: t}
	}
	return g.guardConst(b, func() { b.Args[len(b.Args)-1] = g.runtimeOf(t) })
}

func (g *gen) splatF(t *Type, f float32) Expr {
	l := &Lit{T: TF32, Bits: f32bits(f)}
	if t.K == TScalar {
		return l
	}
	return &Construct{T: t, Args: []Expr{l}}
}

// floatish generates a float scalar/vector expression; in fuzzy sinks inexact
// productions are allowed.
func (g *gen) floatish(t *Type, depth int) Expr {
	if t.K == TVec {
		return g.vecExpr(t, depth)
	}
	return g.floatExpr(depth)
}

func (g *gen) floatExpr(depth int) Expr {
	t := TF32
	if g.fuzzy && g.chance(45, "fzprod") {
		return g.fuzzyFloat(t, depth)
	}
	r := g.intn(100, "fe")
	switch {
	case r < 14:
		return g.leaf(t, depth)
	case r < 50:
		op := []string{"+", "-", "*"}[g.intn(3, "fop")]
		g.class("bin" + op + ":f32")
		b := &Binary{Op: op, L: g.expr(t, depth-1), R: g.expr(t, depth-1), T: t}
		return g.guardConst(b, func() { b.R = g.runtimeOf(t) })
	case r < 56:
		g.class("unary-:f32")
		return &Unary{Op: "-", X: g.expr(t, depth-1), T: t}
	case r < 72:
		return g.floatBuiltin(t, depth, false)
	case r < 82:
		k := []Kind{I32, U32}[g.intn(2, "i2fk")]
		g.class("convert:" + k.String() + "->f32")
		var src Expr = g.expr(Scalar(k), depth-1)
		if g.chance(60, "i2fsmall") {
			src = &Binary{Op: "%", L: g.nonNegForRem(src, Scalar(k)), R: &Lit{T: Scalar(k), Bits: 4096}, T: Scalar(k)}
		}
		c := &Construct{T: t, Args: []Expr{src}}
		return g.guardConst(c, func() { c.Args[0] = g.runtimeOf(Scalar(k)) })
	case r < 86:
		k := []Kind{I32, U32}[g.intn(2, "bcfk")]
		if g.f.off("bitcast.to.f32") {
			return g.leaf(t, depth)
		}
		// bitcast of small integers gives subnormals; use exponent-carrying patterns
		g.class("bitcast:" + k.String() + "->f32")
		src := &Binary{Op: "|", L: &Binary{Op: "&", L: g.expr(Scalar(k), depth-1), R: &Lit{T: Scalar(k), Bits: 0x007f0000}, T: Scalar(k)},
			R: &Lit{T: Scalar(k), Bits: 0x40000000}, T: Scalar(k)}
		return &Builtin{Name: "bitcast", Tmpl: t, Args: []Expr{src}, T: t}
	case r < 91:
		return g.selectExpr(t, depth)
	case r < 95:
		if c := g.callTo(t, depth); c != nil {
			return c
		}
		fallthrough
	default:
		return g.extractFrom(F32, depth)
	}
}

func (g *gen) fuzzyFloat(t *Type, depth int) Expr {
	r := g.intn(100, "fz")
	switch {
	case r < 25:
		op := []string{"/", "%"}[g.intn(2, "fzop")]
		if op == "%" && g.f.off("float.rem") {
			op = "/"
		}
		g.class("bin" + op + ":" + shapeClass(t))
		// non-zero literal divisor most of the time
		var d Expr
		if g.chance(70, "fzlit") {
			f := g.smallFloat()
			if f == 0 {
				f = 1.5
			}
			d = g.splatF(t, f)
		} else {
			d = g.floatish(t, depth-1)
		}
		b := &Binary{Op: op, L: g.floatish(t, depth-1), R: d, T: t}
		return g.guardConst(b, func() { b.L = g.runtimeOf(t) })
	case r < 70:
		return g.floatBuiltin(t, depth, true)
	case r < 85 && t.K == TScalar:
		n := 2 + g.intn(3, "fzn")
		name := []string{"length", "distance", "dot"}[g.intn(3, "fzg")]
		g.class("builtin:" + name)
		vt := Vec(n, F32)
		args := []Expr{g.vecExpr(vt, depth-1)}
		if name != "length" {
			args = append(args, g.vecExpr(vt, depth-1))
		}
		b := &Builtin{Name: name, Args: args, T: t}
		return g.guardConst(b, func() { b.Args[0] = g.runtimeOf(vt) })
	case r < 92 && t.K == TScalar && g.f.Matrices && !g.f.off("builtin.determinant"):
		// (known finding C08-10: determinant() is typed as its matrix argument, which can break any use of the value)
		n := 2 + g.intn(3, "detn")
		g.class("builtin:determinant")
		mt := Mat(n, n, F32)
		b := &Builtin{Name: "determinant", Args: []Expr{g.matExpr(mt, depth-1)}, T: t}
		return g.guardConst(b, func() { b.Args[0] = g.runtimeOf(mt) })
	case t.K == TVec && r < 85:
		g.class("builtin:normalize")
		// keep away from the zero vector: add a constant offset
		off := g.splatF(t, 3)
		b := &Builtin{Name: "normalize", Args: []Expr{&Binary{Op: "+", L: &Builtin{Name: "abs", Args: []Expr{g.vecExpr(t, depth-1)}, T: t}, R: off, T: t}}, T: t}
		return b
	}
	op := []string{"+", "-", "*"}[g.intn(3, "fzarith")]
	return &Binary{Op: op, L: g.floatish(t, depth-1), R: g.floatish(t, depth-1), T: t}
}

func (g *gen) vecExpr(t *Type, depth int) Expr {
	if depth <= 0 {
		return g.leaf(t, 0)
	}
	k := t.S
	if k == F32 && g.fuzzy && g.chance(35, "vfz") {
		return g.fuzzyFloat(t, depth)
	}
	r := g.intn(100, "ve")
	switch {
	case r < 12:
		return g.leaf(t, depth)
	case r < 30:
		return g.vecConstruct(t, depth)
	case r < 55:
		switch k {
		case Bool:
			return g.bvecExpr(t, depth)
		case I32, U32:
			return g.intBinary(t, depth)
		default:
			op := []string{"+", "-", "*"}[g.intn(3, "vfop")]
			g.class("bin" + op + ":vec<f32>")
			lt, rt := t, t
			switch g.intn(4, "vfmix") {
			case 0:
				lt = TF32
			case 1:
				rt = TF32
			}
			b := &Binary{Op: op, L: g.expr(lt, depth-1), R: g.expr(rt, depth-1), T: t}
			return g.guardConst(b, func() { b.R = g.runtimeOf(rt) })
		}
	case r < 63:
		// swizzle of a (possibly wider) vector
		sn := t.N + g.intn(5-t.N, "swn")
		src := g.expr(Vec(sn, k), depth-1)
		comps := make([]int, t.N)
		for i := range comps {
			comps[i] = g.intn(sn, "swc")
		}
		if _, ok := src.(*Deref); ok && g.f.off("ptr.deref.swizzle") {
			// known finding: a multi-component swizzle of a dereferenced pointer parameter fails in SPIR-V
			return g.vecConstruct(t, depth)
		}
		if _, ok := src.(*Binary); ok && g.f.off("swizzle.of-binary") {
			// known finding (MSL): the parentheses around the swizzled binary expression are dropped
			return g.vecConstruct(t, depth)
		}
		g.class("swizzle:multi")
		return &Swizzle{X: src, Comps: comps, Set: g.intn(2, "swset"), T: t}
	case r < 75:
		switch k {
		case Bool:
			return g.bvecExpr(t, depth)
		case I32, U32:
			if g.chance(25, "vneg") {
				op := "~"
				if k == I32 && g.chance(50, "vnegm") {
					op = "-"
				}
				g.class("unary" + op + ":vec")
				return &Unary{Op: op, X: g.expr(t, depth-1), T: t}
			}
			return g.intBuiltin(t, depth)
		default:
			if g.chance(20, "vfneg") {
				g.class("unary-:vec<f32>")
				return &Unary{Op: "-", X: g.expr(t, depth-1), T: t}
			}
			return g.floatBuiltin(t, depth, false)
		}
	case r < 82:
		return g.selectExpr(t, depth)
	case r < 88:
		// conversion / bitcast between element kinds
		if k == Bool {
			return g.bvecExpr(t, depth)
		}
		var src Kind
		for {
			src = []Kind{I32, U32, F32, Bool}[g.intn(4, "vcs")]
			if src != k && (g.f.Floats || src != F32) {
				break
			}
		}
		if k == F32 {
			src = []Kind{I32, U32}[g.intn(2, "vcs2")]
			g.class("convert:vec:" + src.String() + "->f32")
			st := Vec(t.N, src)
			var s Expr = g.expr(st, depth-1)
			s = &Binary{Op: "%", L: g.nonNegForRem(s, st), R: &Construct{T: st, Args: []Expr{&Lit{T: Scalar(src), Bits: 4096}}}, T: st}
			return &Construct{T: t, Args: []Expr{s}}
		}
		if src != Bool && src != F32 && g.chance(40, "vbitc") {
			g.class("bitcast:vec")
			return &Builtin{Name: "bitcast", Tmpl: t, Args: []Expr{g.expr(Vec(t.N, src), depth-1)}, T: t}
		}
		g.class("convert:vec:" + src.String() + "->" + k.String())
		c := &Construct{T: t, Args: []Expr{g.expr(Vec(t.N, src), depth-1)}}
		return g.guardConst(c, func() { c.Args[0] = g.runtimeOf(Vec(t.N, src)) })
	case r < 93:
		if c := g.callTo(t, depth); c != nil {
			return c
		}
		return g.vecConstruct(t, depth)
	default:
		if k == F32 && g.f.Matrices {
			// matrix * vector or vector * matrix
			o := 2 + g.intn(3, "mvn")
			if g.chance(50, "mv") {
				g.class("mat*vec")
				return g.matVecGuard(&Binary{Op: "*", L: g.expr(Mat(o, t.N, F32), depth-1), R: g.expr(Vec(o, F32), depth-1), T: t})
			}
			g.class("vec*mat")
			return g.matVecGuard(&Binary{Op: "*", L: g.expr(Vec(o, F32), depth-1), R: g.expr(Mat(t.N, o, F32), depth-1), T: t})
		}
		if k == F32 && t.N == 3 && !g.f.off("builtin.cross") {
			g.class("builtin:cross")
			return &Builtin{Name: "cross", Args: []Expr{g.expr(t, depth-1), g.expr(t, depth-1)}, T: t}
		}
		if k == F32 && !g.f.off("builtin.unpack") {
			names := map[int][]string{2: {"unpack2x16float"}, 4: {"unpack4x8unorm", "unpack4x8snorm"}}[t.N]
			if len(names) > 0 && (g.fuzzy || t.N == 2) {
				n := names[g.intn(len(names), "upk")]
				if n == "unpack4x8snorm" && g.f.off("builtin.unpack4x8snorm") {
					n = "unpack4x8unorm"
				}
				g.class("builtin:" + n)
				var arg Expr = g.expr(TU32, depth-1)
				if n == "unpack2x16float" {
					// keep both halves finite normal halves: exponent field 01111 / 10000
					arg = &Binary{Op: "|", L: &Binary{Op: "&", L: arg, R: &Lit{T: TU32, Bits: 0x83ff83ff}, T: TU32}, R: &Lit{T: TU32, Bits: 0x3c004000}, T: TU32}
				}
				return &Builtin{Name: n, Args: []Expr{arg}, T: t}
			}
		}
		return g.vecConstruct(t, depth)
	}
}

func (g *gen) vecConstruct(t *Type, depth int) Expr {
	k := t.S
	g.class("construct:vec")
	r := g.intn(4, "vck")
	if r == 0 {
		c := &Construct{T: t, Args: []Expr{g.expr(Scalar(k), depth-1)}}
		return c
	}
	// partition N into chunks of scalars and smaller vectors
	var args []Expr
	left := t.N
	for left > 0 {
		w := 1
		if left >= 2 && r >= 2 && g.chance(40, "vchunk") {
			w = 2 + g.intn(min(left, 3)-1, "vcw")
		}
		if w >= t.N {
			w = 1
		}
		if w == 1 {
			args = append(args, g.expr(Scalar(k), depth-1))
		} else {
			a := g.expr(Vec(w, k), depth-1)
			// Known finding (tag const.index.composite): a component access of a constructor is folded
			// over the flat argument list when a vector argument is a constant expression naga does not
			// evaluate itself (bitcast<vecN>, matrix*vector, …): vec3(bitcast<vec2<i32>>(vec2<u32>(3u, 4u)), 7i).y
			// gives 7.  Keep constant vector arguments plain literal constructors.
			if foldable(a) && g.f.off("const.index.composite") {
				a = g.constOf(Vec(w, k))
			}
			args = append(args, a)
		}
		left -= w
	}
	c := &Construct{T: t, Args: args}
	if g.chance(15, "vinfer") && !g.f.off("construct.infer") {
		c.Infer = true
	}
	return c
}

func (g *gen) bvecExpr(t *Type, depth int) Expr {
	r := g.intn(100, "bv")
	switch {
	case r < 55:
		k := g.numKind()
		op := cmpOps[g.intn(6, "bvcmp")]
		g.class("cmp" + op + ":vec<" + k.String() + ">")
		vt := Vec(t.N, k)
		b := &Binary{Op: op, L: g.expr(vt, depth-1), R: g.expr(vt, depth-1), T: t}
		if g.inConst == 0 && len(g.inputs) > 0 && g.f.off("vec-compare.const-operand") {
			// (known finding C05-20: a folded operand makes the GLSL writer use the scalar operator)
			if foldable(b.L) {
				b.L = g.runtimeOf(vt)
			}
			if foldable(b.R) {
				b.R = g.runtimeOf(vt)
			}
		}
		return g.guardConst(b, func() { b.R = g.runtimeOf(vt) })
	case r < 70:
		g.class("unary!:vec")
		return &Unary{Op: "!", X: g.expr(t, depth-1), T: t}
	case r < 85:
		op := []string{"&", "|"}[g.intn(2, "bvop")]
		g.class("logic" + op + ":vec")
		return &Binary{Op: op, L: g.expr(t, depth-1), R: g.expr(t, depth-1), T: t}
	default:
		return g.vecConstruct(t, depth)
	}
}

func (g *gen) matExpr(t *Type, depth int) Expr {
	if depth <= 0 {
		return g.leaf(t, 0)
	}
	r := g.intn(100, "me")
	switch {
	case r < 20:
		return g.leaf(t, depth)
	case r < 45:
		g.class("construct:mat")
		if g.chance(60, "mcol") {
			args := make([]Expr, t.N)
			for i := range args {
				args[i] = g.expr(t.ColumnType(), depth-1)
			}
			return &Construct{T: t, Args: args}
		}
		args := make([]Expr, t.N*t.R)
		for i := range args {
			args[i] = g.expr(TF32, depth-1)
		}
		return &Construct{T: t, Args: args}
	case r < 60:
		op := []string{"+", "-"}[g.intn(2, "mop")]
		g.class("bin" + op + ":mat")
		return g.matBinGuard(&Binary{Op: op, L: g.expr(t, depth-1), R: g.expr(t, depth-1), T: t})
	case r < 72:
		g.class("mat*scalar")
		if g.chance(50, "msc") {
			return g.matBinGuard(&Binary{Op: "*", L: g.expr(t, depth-1), R: g.expr(TF32, depth-1), T: t})
		}
		return g.matBinGuard(&Binary{Op: "*", L: g.expr(TF32, depth-1), R: g.expr(t, depth-1), T: t})
	case r < 84:
		kk := 2 + g.intn(3, "mk")
		g.class("mat*mat")
		return g.matBinGuard(&Binary{Op: "*", L: g.expr(Mat(kk, t.R, F32), depth-1), R: g.expr(Mat(t.N, kk, F32), depth-1), T: t})
	case r < 94:
		if t.N != t.R && g.f.off("transpose.nonsquare") {
			// known finding: transpose() of a non-square matrix is typed as its argument
			return g.leaf(t, depth)
		}
		g.class("builtin:transpose")
		return &Builtin{Name: "transpose", Args: []Expr{g.expr(Mat(t.R, t.N, F32), depth-1)}, T: t}
	default:
		if c := g.callTo(t, depth); c != nil {
			return c
		}
		return g.leaf(t, depth)
	}
}

// matBinGuard keeps a matrix-valued binary expression away from the known
// finding "a binary operator with constant operands and a matrix result folds
// to a mistyped value" (tag const-fold.mat-binary) by making one operand a
// run-time value.
func (g *gen) matBinGuard(b *Binary) Expr {
	if !foldable(b.L) || !foldable(b.R) || !g.f.off("const-fold.mat-binary") {
		return b
	}
	if g.inConst > 0 {
		return g.constOf(b.T)
	}
	b.R = g.runtimeOf(b.R.Type())
	return b
}

// matVecGuard: same root cause as matBinGuard for matrix * vector and vector *
// matrix with constant operands (tag const-fold.mat-vec, listed under C08-12):
// the product is folded component-wise into a vector of the wrong size.
func (g *gen) matVecGuard(b *Binary) Expr {
	if !foldable(b.L) || !foldable(b.R) || !g.f.off("const-fold.mat-vec") {
		return b
	}
	if g.inConst > 0 {
		return g.constOf(b.T)
	}
	if b.R.Type().K == TVec {
		b.R = g.runtimeOf(b.R.Type())
	} else {
		b.L = g.runtimeOf(b.L.Type())
	}
	return b
}

func (g *gen) aggExpr(t *Type, depth int) Expr {
	r := g.intn(100, "ae")
	switch {
	case r < 40:
		return g.leaf(t, depth)
	case r < 85:
		g.class("construct:" + map[TypeKind]string{TArray: "array", TStruct: "struct"}[t.K])
		var args []Expr
		if t.K == TArray {
			for i := 0; i < t.N; i++ {
				args = append(args, g.expr(t.Elem, depth-1))
			}
			c := &Construct{T: t, Args: args}
			if g.chance(20, "ainfer") && !g.f.off("construct.infer") {
				// inference needs concrete argument types: all our expressions are concrete.
				// known finding: array(...) of structs / arrays is rejected ("unknown type: array")
				if ek := t.Elem.K; (ek != TArray && ek != TStruct) || !g.f.off("construct.infer.array-composite") {
					c.Infer = true
				}
			}
			return c
		}
		for _, m := range t.St.Members {
			args = append(args, g.expr(m.T, depth-1))
		}
		return &Construct{T: t, Args: args}
	default:
		if c := g.callTo(t, depth); c != nil {
			return c
		}
		return g.leaf(t, depth)
	}
}

// nonNegForRem masks the sign bit of a signed dividend most of the time when
// the target leaves % with a negative operand undefined (known finding
// C05-13), so that auxiliary "x % literal" forms do not throw the case away.
func (g *gen) nonNegForRem(x Expr, xt *Type) Expr {
	if xt.S != I32 || !g.f.off("rem.negative") || !g.chance(85, "remnn2") || g.overrideFoldHazard(x) {
		return x
	}
	var m Expr = &Lit{T: TI32, Bits: 0x7fffffff}
	if xt.K != TScalar {
		m = &Construct{T: xt, Args: []Expr{m}}
	}
	return &Binary{Op: "&", L: x, R: m, T: xt}
}

// overrideFoldHazard reports whether wrapping x in an operator other than
// + - * / would create an override-expression that ir.ProcessOverrides folds
// with its four-operator float evaluator (open finding C14-3).
func (g *gen) overrideFoldHazard(x Expr) bool {
	return g.f.Overrides && g.inConst == 0 && IsOverrideExpr(x) && !IsConstExpr(x) && g.f.off("override.fold.unsupported-op")
}
