package wgen

// WalkExpr visits e and its sub-expressions in pre-order; f returning false
// prunes the subtree.
func WalkExpr(e Expr, f func(Expr) bool) {
	if e == nil || !f(e) {
		return
	}
	switch x := e.(type) {
	case *Unary:
		WalkExpr(x.X, f)
	case *Binary:
		WalkExpr(x.L, f)
		WalkExpr(x.R, f)
	case *CallE:
		for _, a := range x.Args {
			WalkExpr(a, f)
		}
	case *Builtin:
		for _, a := range x.Args {
			WalkExpr(a, f)
		}
	case *Construct:
		for _, a := range x.Args {
			WalkExpr(a, f)
		}
	case *Index:
		WalkExpr(x.X, f)
		WalkExpr(x.I, f)
	case *MemberE:
		WalkExpr(x.X, f)
	case *Swizzle:
		WalkExpr(x.X, f)
	case *AddrOf:
		WalkExpr(x.X, f)
	case *Deref:
		WalkExpr(x.X, f)
	case *Paren:
		WalkExpr(x.X, f)
	}
}

// WalkStmts visits every statement of l (recursively, pre-order) with fs and
// every root expression held by a statement with fe (either may be nil).
func WalkStmts(l []Stmt, fs func(Stmt), fe func(Expr)) {
	ex := func(e Expr) {
		if e != nil && fe != nil {
			fe(e)
		}
	}
	var one func(s Stmt)
	one = func(s Stmt) {
		if s == nil {
			return
		}
		if fs != nil {
			fs(s)
		}
		switch x := s.(type) {
		case *DeclStmt:
			ex(x.V.Init)
		case *Assign:
			ex(x.L)
			ex(x.R)
		case *IncDec:
			ex(x.L)
		case *If:
			ex(x.Cond)
			WalkStmts(x.Then, fs, fe)
			WalkStmts(x.Else, fs, fe)
		case *Switch:
			ex(x.Sel)
			for _, c := range x.Cases {
				for _, s := range c.Sels {
					ex(s)
				}
				WalkStmts(c.Body, fs, fe)
			}
		case *Loop:
			WalkStmts(x.Body, fs, fe)
			WalkStmts(x.Continuing, fs, fe)
			ex(x.BreakIf)
		case *For:
			one(x.Init)
			ex(x.Cond)
			one(x.Update)
			WalkStmts(x.Body, fs, fe)
		case *While:
			ex(x.Cond)
			WalkStmts(x.Body, fs, fe)
		case *Return:
			ex(x.X)
		case *CallStmt:
			ex(x.Call)
		case *Block:
			WalkStmts(x.Body, fs, fe)
		case *ConstAssert:
			ex(x.X)
		}
	}
	for _, s := range l {
		one(s)
	}
}

// ContainsStruct reports whether t is or contains a structure type.
func (t *Type) ContainsStruct() bool {
	switch t.K {
	case TStruct:
		return true
	case TArray, TPtr:
		return t.Elem.ContainsStruct()
	}
	return false
}

// bitcastOnlyRefs reports whether function f names some module-scope
// declaration (variable, constant or function) exclusively inside the
// argument of a bitcast<T>(…).
func bitcastOnlyRefs(f *Func) bool {
	outside := map[any]bool{}
	inside := map[any]bool{}
	var visit func(e Expr, inBitcast bool)
	visit = func(e Expr, inBitcast bool) {
		WalkExpr(e, func(x Expr) bool {
			switch y := x.(type) {
			case *VarRef:
				switch y.V.Kind {
				case VPrivate, VWorkgroup, VStorage, VUniform, VOverride, VConst:
					if inBitcast {
						inside[y.V] = true
					} else {
						outside[y.V] = true
					}
				}
			case *CallE:
				if inBitcast {
					inside[y.Fn] = true
				} else {
					outside[y.Fn] = true
				}
			case *Builtin:
				if y.Name == "bitcast" && !inBitcast {
					for _, a := range y.Args {
						visit(a, true)
					}
					return false
				}
			}
			return true
		})
	}
	WalkStmts(f.Body, nil, func(e Expr) { visit(e, false) })
	for k := range inside {
		if !outside[k] {
			return true
		}
	}
	return false
}
