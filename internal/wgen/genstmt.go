package wgen

import (
	"encoding/binary"
	"math"
	"sort"
	"strconv"

	"pgregory.net/rapid"
)

func f32bits(f float32) uint32 { return math.Float32bits(f) }

// ---------------------------------------------------------------------------
// Statements

func (g *gen) block(n int, depth int) []Stmt {
	g.push()
	defer g.pop()
	var out []Stmt
	for i := 0; i < n && g.stmtBudget > 0; i++ {
		out = append(out, g.stmt(depth)...)
	}
	// observability of block-local variables: what a `var` declared in this block holds when the
	// block ends is stored to an output slot (so that e.g. a loop-body local that wrongly keeps
	// its value across iterations is seen)
	if g.outSlot != nil && len(g.scopes) > 0 {
		for _, sv := range g.scopes[len(g.scopes)-1] {
			if sv.v.Kind != VVar || sv.readonly || sv.v.T.K == TPtr || !g.chance(35, "bobs") {
				continue
			}
			vt := sv.v.T
			cands := g.pathsTo([]Expr{g.outSlot()}, func(t *Type) bool { return t.Same(vt) })
			if len(cands) == 0 {
				continue
			}
			g.class("stmt:block-local-observed")
			out = append(out, &Assign{L: g.buildPath(cands[g.intn(len(cands), "bobsc")], 1, true), R: &VarRef{sv.v}})
		}
	}
	return out
}

func (g *gen) exprDepth() int { return 1 + g.intn(g.f.MaxDepth, "ed") }

// assignable returns a writable reference of any type, with its type.
func (g *gen) assignTarget(want func(*Type) bool) Expr {
	cands := g.pathsTo(g.writableRoots(), func(t *Type) bool { return noAtomic(t) && t.K != TPtr && want(t) })
	// Known finding (tag storage-store.array-of-array, HLSL): storing a value that
	// contains an array of arrays to a storage buffer declares the temporary as
	// "T[M] _valueN[K]", which is not an HLSL declarator.
	{
		keep := cands[:0]
		for _, c := range cands {
			if rv := RootVar(c.root); rv != nil && rv.Kind == VStorage && hasArrayOfArray(c.t) && g.f.off("storage-store.array-of-array") {
				continue
			}
			keep = append(keep, c)
		}
		cands = keep
	}
	if len(cands) == 0 {
		return nil
	}
	c := cands[g.intn(len(cands), "at")]
	e := g.buildPath(c, 2, true)
	return e
}

func (g *gen) stmt(depth int) []Stmt {
	g.stmtBudget--
	if g.inLoop > 0 && g.outSlot != nil && g.chance(8, "accidiom") {
		if s := g.accumulatorIdiom(); s != nil {
			return s
		}
	}
	if g.outSlot != nil && g.chance(4, "shidiom") && !g.f.off("shadow.abstract-const-scope") {
		if s := g.constScopeIdiom(); s != nil {
			return s
		}
	}
	r := g.intn(100, "st")
	switch {
	case r < 18:
		return []Stmt{g.declStmt()}
	case r < 42:
		if s := g.assignStmt(); s != nil {
			return []Stmt{s}
		}
		return []Stmt{g.declStmt()}
	case r < 50:
		if s := g.compoundAssign(); s != nil {
			return []Stmt{s}
		}
		return []Stmt{g.declStmt()}
	case r < 54:
		if t := g.assignTarget(func(t *Type) bool { return t.K == TScalar && (t.S == I32 || t.S == U32) }); t != nil && !g.derefOff(t) {
			g.class("stmt:incdec")
			return []Stmt{&IncDec{L: t, Inc: g.chance(50, "inc")}}
		}
		return []Stmt{g.declStmt()}
	case r < 64 && depth > 0:
		return []Stmt{g.ifStmt(depth)}
	case r < 70 && depth > 0:
		return []Stmt{g.switchStmt(depth)}
	case r < 82 && depth > 0 && g.inLoop < 2:
		return g.loopStmt(depth)
	case r < 86:
		if g.inLoop > 0 && g.chance(60, "brk") {
			// conditional break / continue
			g.class("stmt:break/continue")
			var s Stmt = &Break{}
			if g.chance(50, "cont") {
				s = &Continue{}
			}
			return []Stmt{&If{Cond: g.expr(TBool, 2), Then: []Stmt{s}}}
		}
		if g.curFn != nil && g.curFn.Stage == "" && !g.noReturn && g.chance(50, "eret") {
			g.class("stmt:early-return")
			return []Stmt{&If{Cond: g.expr(TBool, 2), Then: []Stmt{g.returnStmt()}}}
		}
		return []Stmt{g.declStmt()}
	case r < 91:
		if s := g.callStmt(); s != nil {
			return []Stmt{s}
		}
		return []Stmt{g.declStmt()}
	case r < 94 && depth > 0:
		g.class("stmt:block")
		return []Stmt{&Block{Body: g.block(1+g.intn(3, "bn"), depth-1)}}
	case r < 96:
		g.class("stmt:phony")
		r := g.expr(g.valueType(1), g.exprDepth())
		if v, ok := r.(*VarRef); ok && v.V.Kind == VLet && g.f.off("swizzle.of-binary") {
			// `_ = v;` renames the let's expression to "phony", which the MSL writer then inlines at
			// every use; with the open finding C04-2 (no parentheses around an inlined binary base
			// of .x / [i]) that gives wrong text: keep bare lets out of phony assignments
			if _, bin := v.V.Init.(*Binary); bin {
				g.class("stmt:phony:let-of-binary-avoided")
				r = &Paren{X: &Binary{Op: "==", L: r, R: r, T: TBool}}
				if v.V.T.K != TScalar {
					r = g.litOf(Bool)
				}
			}
		}
		return []Stmt{&Assign{L: nil, R: r}}
	case r < 100 && g.f.Atomics:
		if s := g.atomicStmt(); s != nil {
			return s
		}
	}
	return []Stmt{g.declStmt()}
}

// accumulatorIdiom emits, inside a loop body, `var acc = <constant>; acc op= <run-time value>;
// <output slot> = acc;`: a loop-local variable whose declaration must re-initialise it on every
// iteration (with or without initialiser) and whose value is observed in the same iteration.
func (g *gen) accumulatorIdiom() []Stmt {
	k := []Kind{I32, U32}[g.intn(2, "acck")]
	t := Scalar(k)
	cands := g.pathsTo([]Expr{g.outSlot()}, func(x *Type) bool { return x.Same(t) })
	if len(cands) == 0 {
		return nil
	}
	g.class("stmt:loop-local-accumulator")
	v := &Var{Name: g.name("acc"), Kind: VVar, T: t, NoType: true}
	if g.chance(70, "accinit") || g.f.off("var.no-init") {
		v.Init = &Lit{T: t, Bits: uint32(g.intn(16, "accv"))}
	} else {
		v.NoType = false
	}
	g.declare(v)
	op := []string{"+", "^", "|"}[g.intn(3, "accop")]
	upd := &Assign{L: &VarRef{v}, Op: op, R: g.runtimeLeaf(k)}
	obs := &Assign{L: g.buildPath(cands[g.intn(len(cands), "accobs")], 1, true), R: &VarRef{v}}
	return []Stmt{&DeclStmt{V: v}, upd, obs}
}

// constScopeIdiom declares an abstract function-scope const and a run-time variable of the SAME name in
// nested / consecutive scopes: the const must stop being visible at the end of its block, and an inner
// declaration must hide it.
func (g *gen) constScopeIdiom() []Stmt {
	t := TI32
	cands := g.pathsTo([]Expr{g.outSlot()}, func(x *Type) bool { return x.Same(t) })
	if len(cands) == 0 {
		return nil
	}
	slot := func() Expr { return g.buildPath(cands[g.intn(len(cands), "shobs")], 1, true) }
	nm := g.name("sh")
	cv := uint32(2 + g.intn(6, "shc"))
	c := &Var{Name: nm, Kind: VConst, T: t, NoType: true, Init: &Lit{T: t, Bits: cv, Text: strconv.Itoa(int(cv))}}
	v := &Var{Name: nm, Kind: VVar, T: t, NoType: true, Init: g.runtimeLeaf(I32)}
	bump := &Assign{L: &VarRef{v}, Op: "+", R: &Lit{T: t, Bits: 1}}
	useC := func() Stmt {
		return &Assign{L: slot(), R: &Binary{Op: "+", L: g.runtimeLeaf(I32), R: &VarRef{c}, T: t}}
	}
	if g.chance(50, "shinner") {
		// { const n = 3; use } var n = x; n += 1; observe n
		g.class("stmt:const-scope:block-then-var")
		inner := &Block{Body: []Stmt{&DeclStmt{V: c}, useC()}}
		g.declare(v)
		return []Stmt{inner, &DeclStmt{V: v}, bump, &Assign{L: slot(), R: &VarRef{v}}}
	}
	// const n = 3; { var n = x; n += 1; observe n } use the const again
	g.class("stmt:const-scope:inner-var-hides-const")
	inner := &Block{Body: []Stmt{&DeclStmt{V: v}, bump, &Assign{L: slot(), R: &VarRef{v}}}}
	return []Stmt{&DeclStmt{V: c}, inner, useC()}
}

func (g *gen) declStmt() Stmt {
	t := g.valueType(1)
	kind := []VarKind{VLet, VVar, VVar, VConst}[g.intn(4, "dk")]
	v := &Var{Name: g.name("v"), Kind: kind, T: t}
	switch kind {
	case VConst:
		g.class("stmt:const")
		// function-scope const with a constant initialiser
		save := g.noCalls
		g.noCalls = true
		v.Init = g.constExprOf(t, 2)
		g.noCalls = save
		if c, ok := v.Init.(*Construct); ok && c.T != nil && c.T.K == TVec && len(c.Args) == 1 && c.Args[0].Type() != nil && c.Args[0].Type().K == TScalar && g.f.off("let.typed-splat") {
			// finding C04-8 (MSL) also hits a typed function-scope const bound to a splat constructor
			v.NoType = true
		}
	case VVar:
		g.class("stmt:var")
		if g.chance(80, "vinit") || g.f.off("var.no-init") {
			v.Init = g.expr(t, g.exprDepth())
			v.NoType = g.chance(30, "vnotype")
		}
	default:
		g.class("stmt:let")
		v.Init = g.expr(t, g.exprDepth())
		v.NoType = g.chance(40, "lnotype")
		if c, ok := v.Init.(*Construct); ok && !v.NoType && c.T != nil && c.T.K == TVec && len(c.Args) == 1 && c.Args[0].Type() != nil && c.Args[0].Type().K == TScalar && g.f.off("let.typed-splat") {
			// finding C04-8 (MSL): the vector type of a typed let bound to a splat constructor is not resolved
			v.NoType = true
		}
		if vr, ok := v.Init.(*VarRef); ok && vr.V.Kind == VLet && t.K != TScalar && g.f.off("let.alias-of-let") {
			// finding C04-10: `let b = a;` (a a let of a composite) renames a's expression to b; a use of a
			// that precedes b's declaration is then printed with b's name (MSL: undeclared identifier)
			v.Kind = VVar
		}
		if t.K != TScalar && IsRef(v.Init) && g.f.off("let.ref-snapshot") {
			// finding C01-14: `let l = v;` of a composite is re-read from v at every later `l.x` / `l[i]`
			v.Kind = VVar
		}
	}
	g.declare(v)
	return &DeclStmt{V: v}
}

// constExprOf builds a WGSL const-expression of type t over literals and
// module constants (checked by the strict constant evaluator).
func (g *gen) constExprOf(t *Type, depth int) Expr {
	saveScopes, savePriv, saveIn, saveOut, saveSlot := g.scopes, g.privs, g.inputs, g.out, g.outSlot
	// only constants are visible
	var cs [][]scopeVar
	for _, s := range g.scopes {
		var l []scopeVar
		for _, sv := range s {
			if sv.v.Kind == VConst {
				l = append(l, sv)
			}
		}
		cs = append(cs, l)
	}
	g.scopes, g.privs, g.inputs, g.out, g.outSlot = cs, nil, nil, nil, nil
	saveFz := g.fuzzy
	g.fuzzy = false
	g.inConst++
	e := g.expr(t, depth)
	g.inConst--
	g.fuzzy = saveFz
	g.scopes, g.privs, g.inputs, g.out, g.outSlot = saveScopes, savePriv, saveIn, saveOut, saveSlot
	if !IsConstExpr(e) || (g.f.ConstOK != nil && !g.f.ConstOK(e)) {
		return g.constOf(t)
	}
	g.class("constexpr:decl")
	return e
}

func (g *gen) assignStmt() Stmt {
	// fuzzy sink stores
	if g.outFz != nil && !g.inHelper && g.f.InexactSinks && g.f.Floats && g.chance(22, "fzsink") {
		cands := g.pathsTo([]Expr{g.outFzSlot()}, func(t *Type) bool { return t.K == TScalar || t.K == TVec })
		c := cands[g.intn(len(cands), "fzc")]
		lhs := g.buildPath(c, 1, true)
		g.fuzzy = true
		rhs := g.expr(lhs.Type(), g.exprDepth())
		g.fuzzy = false
		g.class("stmt:fuzzy-sink")
		return &Assign{L: lhs, R: rhs}
	}
	lhs := g.assignTarget(func(t *Type) bool { return true })
	if lhs == nil {
		return nil
	}
	g.class("stmt:assign:" + shapeOf(lhs.Type()))
	return &Assign{L: lhs, R: g.expr(lhs.Type(), g.exprDepth())}
}

func shapeOf(t *Type) string {
	switch t.K {
	case TScalar:
		return "scalar"
	case TVec:
		return "vec"
	case TMat:
		return "mat"
	case TArray:
		return "array"
	case TStruct:
		return "struct"
	}
	return "other"
}

func (g *gen) compoundAssign() Stmt {
	lhs := g.assignTarget(func(t *Type) bool { return (t.K == TScalar || t.K == TVec) && t.S != Bool })
	if lhs == nil || g.derefOff(lhs) {
		return nil
	}
	t := lhs.Type()
	var ops []string
	if t.S == F32 {
		ops = []string{"+", "-", "*"}
	} else {
		ops = []string{"+", "-", "*", "/", "%", "&", "|", "^", "<<", ">>"}
	}
	op := ops[g.intn(len(ops), "cop")]
	g.class("stmt:compound" + op)
	var rhs Expr
	if op == "<<" || op == ">>" {
		rhs = g.shiftAmount(t, 2)
	} else {
		rt := t
		if t.K == TVec && op != "&" && op != "|" && op != "^" && g.chance(30, "cscal") {
			rt = t.ScalarOf()
		}
		rhs = g.expr(rt, g.exprDepth())
	}
	// Known finding (tag compound-assign.rhs-call): `x op= f()` is lowered with
	// the call before the load of x, so a callee that writes x changes the result;
	// keep user calls out of the right side when the target is a module-scope variable.
	if rv := RootVar(lhs); rv != nil && (rv.Kind == VStorage || rv.Kind == VPrivate || rv.Kind == VWorkgroup) {
		hasCall := false
		WalkExpr(rhs, func(e Expr) bool {
			if _, ok := e.(*CallE); ok {
				hasCall = true
			}
			return !hasCall
		})
		if hasCall && g.f.off("compound-assign.rhs-call") {
			if op == "<<" || op == ">>" {
				rhs = g.shiftAmount(t, 0)
			} else {
				rhs = g.leaf(rhs.Type(), 0)
			}
		}
	}
	return &Assign{L: lhs, Op: op, R: rhs}
}

func (g *gen) ifStmt(depth int) Stmt {
	g.class("stmt:if")
	s := &If{Cond: g.expr(TBool, g.exprDepth()), Then: g.block(1+g.intn(3, "ifn"), depth-1)}
	switch g.intn(3, "else") {
	case 1:
		s.Else = g.block(1+g.intn(3, "eln"), depth-1)
		s.HasElse = true
	case 2:
		g.class("stmt:else-if")
		s.Else = []Stmt{&If{Cond: g.expr(TBool, 2), Then: g.block(1+g.intn(2, "ein"), depth-1),
			Else: g.block(g.intn(2, "eien"), depth-1)}}
		s.Else[0].(*If).HasElse = len(s.Else[0].(*If).Else) > 0
	}
	return s
}

func (g *gen) switchStmt(depth int) Stmt {
	g.class("stmt:switch")
	k := []Kind{I32, U32}[g.intn(2, "swk")]
	sel := g.expr(Scalar(k), g.exprDepth())
	if g.chance(60, "swmod") {
		sel = &Binary{Op: "%", L: g.nonNegForRem(sel, Scalar(k)), R: &Lit{T: Scalar(k), Bits: 5}, T: Scalar(k)}
	}
	s := &Switch{Sel: sel}
	used := map[uint32]bool{}
	nc := 1 + g.intn(4, "swn")
	defAt := g.intn(nc+1, "swd")
	defInList := g.chance(25, "swdl") && !g.f.off("switch.default-in-list")
	hasDef := false
	saveLoop := g.inLoop
	for i := 0; i <= nc; i++ {
		c := &Case{}
		if i == defAt && !defInList {
			c.Default = true
			hasDef = true
		} else {
			ns := 1 + g.intn(3, "swsn")
			for j := 0; j < ns; j++ {
				var v uint32
				for tries := 0; ; tries++ {
					v = uint32(g.intn(7, "swv"))
					if k == I32 && g.chance(20, "swneg") {
						v = uint32(-int32(v))
					}
					if !used[v] {
						break
					}
					v = uint32(100 + len(used))
					if !used[v] {
						break
					}
				}
				used[v] = true
				c.Sels = append(c.Sels, &Lit{T: Scalar(k), Bits: v})
			}
			if i == defAt && defInList {
				g.class("stmt:switch:default-in-list")
				pos := g.intn(len(c.Sels)+1, "swdp")
				c.Sels = append(c.Sels[:pos], append([]Expr{nil}, c.Sels[pos:]...)...)
				hasDef = true
			}
		}
		// `break` inside a switch exits the switch, `continue` still targets the loop
		g.inSwitch++
		c.Body = g.block(g.intn(3, "swb"), depth-1)
		if g.chance(25, "swbrk") {
			g.class("stmt:switch:break")
			c.Body = append(c.Body, &If{Cond: g.expr(TBool, 1), Then: []Stmt{&Break{}}})
			c.Body = append(c.Body, g.block(1, depth-1)...)
		}
		g.inSwitch--
		s.Cases = append(s.Cases, c)
	}
	g.inLoop = saveLoop
	if !hasDef {
		s.Cases = append(s.Cases, &Case{Default: true})
	}
	return s
}

func (g *gen) loopStmt(depth int) []Stmt {
	bound := 1 + g.intn(5, "lb")
	ctr := &Var{Name: g.name("ix"), Kind: VVar, T: TI32, Init: &Lit{T: TI32, Bits: 0}}
	if g.chance(50, "lu") {
		ctr.T = TU32
		ctr.Init = &Lit{T: TU32, Bits: 0}
	}
	lim := &Lit{T: ctr.T, Bits: uint32(bound)}
	cref := func() Expr { return &VarRef{ctr} }
	var limE Expr = lim
	if g.chance(25, "ldyn") {
		// data-dependent bound, capped
		g.class("loop:dynamic-bound")
		limE = &Builtin{Name: "min", Args: []Expr{g.expr(ctr.T, 2), lim}, T: ctr.T}
	}
	g.inLoop++
	defer func() { g.inLoop-- }()
	switch g.intn(3, "lk") {
	case 0:
		g.class("stmt:for")
		g.push()
		g.declareRO(ctr, true)
		body := g.block(1+g.intn(4, "fbn"), depth-1)
		g.pop()
		var upd Stmt = &IncDec{L: cref(), Inc: true}
		if g.chance(30, "fupd") {
			upd = &Assign{L: cref(), Op: "+", R: &Lit{T: ctr.T, Bits: 1}}
		} else if g.chance(20, "fupdcall") && !g.noCalls && !g.f.off("loop.update-call") {
			// the update clause calls a helper that nothing else calls
			g.class("stmt:for:update-calls-helper")
			upd = &Assign{L: cref(), R: &CallE{Fn: g.stepFn(ctr.T), Args: []Expr{cref()}}}
		}
		return []Stmt{&For{Init: &DeclStmt{V: ctr}, Cond: &Binary{Op: "<", L: cref(), R: limE, T: TBool}, Update: upd, Body: body}}
	case 1:
		g.class("stmt:while")
		g.push()
		g.declareRO(ctr, true)
		body := g.block(1+g.intn(4, "wbn"), depth-1)
		g.pop()
		body = append([]Stmt{&IncDec{L: cref(), Inc: true}}, body...)
		return []Stmt{&DeclStmt{V: ctr}, &While{Cond: &Binary{Op: "<", L: cref(), R: limE, T: TBool}, Body: body}}
	default:
		g.class("stmt:loop")
		g.push()
		g.declareRO(ctr, true)
		body := g.block(1+g.intn(4, "lbn"), depth-1)
		l := &Loop{HasCont: true}
		exit := &If{Cond: &Binary{Op: ">=", L: cref(), R: limE, T: TBool}, Then: []Stmt{&Break{}}}
		condCalls := false
		WalkExpr(limE, func(x Expr) bool {
			if _, ok := x.(*CallE); ok {
				condCalls = true
			}
			return !condCalls
		})
		if g.chance(40, "lbi") && !(condCalls && g.f.off("breakif.cond-call")) {
			// exit through break-if in the continuing block
			g.class("stmt:break-if")
			l.Body = body
			saveLoop := g.inLoop
			g.inLoop = 0 // no break/continue inside continuing
			save := g.noReturn
			g.noReturn = true
			var step Stmt = &IncDec{L: cref(), Inc: true}
			if g.chance(20, "cupdcall") && !g.noCalls && !g.f.off("loop.update-call") {
				g.class("stmt:continuing:calls-helper")
				step = &Assign{L: cref(), R: &CallE{Fn: g.stepFn(ctr.T), Args: []Expr{cref()}}}
			}
			cdepth := 0
			if g.chance(40, "cdepth") && !g.f.off("continuing.nested-control-flow") {
				// if / switch (with its own breaks) / nested loops inside the continuing block
				g.class("stmt:continuing:nested-control-flow")
				cdepth = 1
			}
			l.Continuing = append(g.block(g.intn(2, "cbn")+cdepth, cdepth), step)
			g.noReturn = save
			g.inLoop = saveLoop
			l.BreakIf = &Binary{Op: ">=", L: cref(), R: limE, T: TBool}
		} else {
			l.Body = append([]Stmt{exit}, body...)
			l.Continuing = []Stmt{&IncDec{L: cref(), Inc: true}}
		}
		g.pop()
		return []Stmt{&DeclStmt{V: ctr}, l}
	}
}

// stepFn declares a fresh helper `fn step_N(x: T) -> T { return x + 1; }` that only
// the loop being generated calls (a function reachable from a continuing block /
// for-update clause alone).
func (g *gen) stepFn(t *Type) *Func {
	x := &Var{Name: g.name("p"), Kind: VParam, T: t}
	f := &Func{Name: g.name("step_"), Params: []*Var{x}, Ret: t}
	if g.chance(50, "stepglobal") && !g.f.off("step-helper.own-global") {
		// the helper is also the only code that names a module-scope variable of its own
		// (interface lists, per-entry-point reachability, pass-through arguments)
		g.class("step-helper:own-global")
		cnt := &Var{Name: g.name("pvs"), Kind: VPrivate, T: TU32}
		g.mod.Decls = append(g.mod.Decls, cnt)
		f.Body = append(f.Body, &Assign{L: &VarRef{cnt}, Op: "+", R: &Lit{T: TU32, Bits: 1}})
	}
	f.Body = append(f.Body, &Return{X: &Binary{Op: "+", L: &VarRef{x}, R: &Lit{T: t, Bits: 1}, T: t}})
	g.mod.Decls = append(g.mod.Decls, f)
	return f
}

func (g *gen) returnStmt() Stmt {
	if g.curFn.Ret == nil {
		return &Return{}
	}
	return &Return{X: g.expr(g.curFn.Ret, 2)}
}

func (g *gen) callStmt() Stmt {
	if g.noCalls {
		return nil
	}
	var cands []*Func
	for _, f := range g.funcs {
		if g.canCall(f) && !(f.MustUse) {
			cands = append(cands, f)
		}
	}
	if len(cands) == 0 {
		return nil
	}
	f := cands[g.intn(len(cands), "csf")]
	g.class("stmt:call")
	phony := f.Ret != nil && g.chance(50, "phonycall")
	if !phony {
		// known finding (tag must_use.call-arg): a @must_use call used as an argument of a call statement is rejected
		g.noMustUse = g.f.off("must_use.call-arg")
	}
	c := g.buildCall(f, 3)
	g.noMustUse = false
	if phony {
		return &Assign{L: nil, R: c}
	}
	return &CallStmt{Call: c}
}

func (g *gen) atomicStmt() []Stmt {
	if g.outAt == nil || g.inHelper {
		return nil
	}
	cands := g.pathsTo([]Expr{&VarRef{g.outAt}}, func(t *Type) bool { return t.K == TAtomic })
	var out []pathCand
	walkAtomic(&VarRef{g.outAt}, g.outAt.T, nil, &out)
	cands = out
	if len(cands) == 0 {
		return nil
	}
	ci := g.intn(len(cands), "atc")
	c := cands[ci]
	ref := g.buildPath(c, 1, true)
	k := c.t.S
	ptr := &AddrOf{X: ref, Space: "storage"}
	ops := []string{"atomicAdd", "atomicSub", "atomicMax", "atomicMin", "atomicAnd", "atomicOr", "atomicXor"}
	if !g.multi {
		ops = append(ops, "atomicExchange", "atomicStore", "atomicLoad")
	}
	op := ops[g.intn(len(ops), "aop")]
	if g.multi {
		// different operations on one location do not commute across invocations
		if g.atomOp == nil {
			g.atomOp = map[int]string{}
		}
		if prev, ok := g.atomOp[ci]; ok {
			op = prev
		} else {
			g.atomOp[ci] = op
		}
	}
	g.class("atomic:" + op)
	switch op {
	case "atomicStore":
		g.noMustUse = g.f.off("must_use.call-arg")
		arg := g.expr(Scalar(k), 2)
		g.noMustUse = false
		return []Stmt{&CallStmt{Call: &Builtin{Name: op, Args: []Expr{ptr, arg}}}}
	case "atomicLoad":
		v := &Var{Name: g.name("al"), Kind: VLet, T: Scalar(k), Init: &Builtin{Name: op, Args: []Expr{ptr}, T: Scalar(k)}}
		g.declare(v)
		return []Stmt{&DeclStmt{V: v}}
	}
	keep := !g.multi && g.chance(50, "aret")
	if !keep {
		g.noMustUse = g.f.off("must_use.call-arg")
	}
	call := &Builtin{Name: op, Args: []Expr{ptr, g.expr(Scalar(k), 2)}, T: Scalar(k)}
	if op == "atomicSub" && k == I32 && g.f.off("atomic.sub-negated-arg") {
		// (known finding C05-16: "-" + operand text gives "--7" / "--(x)")
		if u, neg := call.Args[1].(*Unary); (neg && u.Op == "-") || foldable(call.Args[1]) {
			call.Args[1] = g.runtimeOf(Scalar(k))
		}
	}
	g.noMustUse = false
	if keep {
		v := &Var{Name: g.name("ar"), Kind: VLet, T: Scalar(k), Init: call}
		g.declare(v)
		return []Stmt{&DeclStmt{V: v}}
	}
	return []Stmt{&CallStmt{Call: call}}
}

func walkAtomic(root Expr, t *Type, steps []pathStep, out *[]pathCand) {
	switch t.K {
	case TAtomic:
		*out = append(*out, pathCand{root, append([]pathStep(nil), steps...), t})
	case TStruct:
		for i, m := range t.St.Members {
			walkAtomic(root, m.T, append(steps, pathStep{0, i, 0}), out)
		}
	case TArray:
		walkAtomic(root, t.Elem, append(steps, pathStep{1, -1, t.N}), out)
	}
}

// ---------------------------------------------------------------------------
// Functions and module

func (g *gen) helper() *Func {
	f := &Func{Name: g.name("fn_")}
	np := g.intn(4, "np")
	saveScopes, saveFn, saveLoop, saveHelper := g.scopes, g.curFn, g.inLoop, g.inHelper
	g.scopes, g.curFn, g.inLoop, g.inHelper = nil, f, 0, true
	g.push()
	hasPtr := false
	for i := 0; i < np; i++ {
		p := &Var{Name: g.name("p"), Kind: VParam, T: g.valueType(1)}
		if g.f.Pointers && !hasPtr && g.chance(25, "pptr") && !g.f.off("ptr.param") {
			hasPtr = true
			p.T = Ptr("function", g.valueType(1))
			g.class("fn:ptr-param")
		}
		f.Params = append(f.Params, p)
		g.declare(p)
	}
	if g.chance(75, "hret") {
		f.Ret = g.valueType(1)
		f.MustUse = g.chance(25, "mustuse") && !g.f.off("must_use")
	}
	save := g.stmtBudget
	g.stmtBudget = 2 + g.intn(6, "hstm")
	f.Body = g.block(g.stmtBudget, 2)
	// the block popped its own scope; params remain
	if f.Ret != nil {
		ret := func() Stmt { return &Return{X: g.expr(f.Ret, g.exprDepth())} }
		switch {
		case g.chance(15, "tailsw") && !g.f.off("fn.tail-switch-return"):
			// the function ends in a switch whose every case returns (selector groups included)
			g.class("fn:tail-switch-return")
			k := []Kind{I32, U32}[g.intn(2, "tswk")]
			sel := g.expr(Scalar(k), g.exprDepth())
			sel = &Binary{Op: "%", L: g.nonNegForRem(sel, Scalar(k)), R: &Lit{T: Scalar(k), Bits: 5}, T: Scalar(k)}
			sw := &Switch{Sel: sel}
			nc := 1 + g.intn(3, "tswn")
			next := uint32(0)
			defIn := g.intn(nc+1, "tswd") // index of the case that carries default in its list (nc: separate default)
			if g.f.off("switch.default-in-list") {
				defIn = nc
			}
			for i := 0; i < nc; i++ {
				c := &Case{}
				for j, ns := 0, 1+g.intn(3, "tswsn"); j < ns; j++ {
					c.Sels = append(c.Sels, &Lit{T: Scalar(k), Bits: next})
					next++
				}
				if i == defIn {
					pos := g.intn(len(c.Sels)+1, "tswdp")
					c.Sels = append(c.Sels[:pos], append([]Expr{nil}, c.Sels[pos:]...)...)
				}
				g.inSwitch++
				c.Body = g.block(g.intn(2, "tswb"), 1)
				g.inSwitch--
				c.Body = append(c.Body, ret())
				sw.Cases = append(sw.Cases, c)
			}
			if defIn == nc {
				sw.Cases = append(sw.Cases, &Case{Default: true, Body: []Stmt{ret()}})
			}
			f.Body = append(f.Body, sw)
		case g.chance(10, "tailif") && !g.f.off("fn.tail-if-return"):
			g.class("fn:tail-if-return")
			f.Body = append(f.Body, &If{Cond: g.expr(TBool, 2), Then: []Stmt{ret()}, Else: []Stmt{ret()}})
		default:
			f.Body = append(f.Body, ret())
		}
	}
	g.stmtBudget = save
	g.pop()
	g.scopes, g.curFn, g.inLoop, g.inHelper = saveScopes, saveFn, saveLoop, saveHelper
	g.funcs = append(g.funcs, f)
	return f
}

func (g *gen) fillBuffer(t *Type, size int) []byte {
	buf := make([]byte, size)
	// padding gets a recognisable pattern
	for i := range buf {
		buf[i] = byte(0xA0 + i%16)
	}
	var leaves []Leaf
	Leaves(t, 0, RuntimeLen(t, size), "", &leaves)
	for _, l := range leaves {
		switch l.K {
		case I32:
			binary.LittleEndian.PutUint32(buf[l.Off:], g.litOf(I32).Bits)
		case U32:
			binary.LittleEndian.PutUint32(buf[l.Off:], g.litOf(U32).Bits)
		case F32:
			binary.LittleEndian.PutUint32(buf[l.Off:], math.Float32bits(g.smallFloat()))
		}
	}
	return buf
}

// GenExec draws a valid compute program with input buffers.
func GenExec(t *rapid.T, f Features) *ExecCase {
	g := &gen{t: t, f: f, mod: &Module{}, classes: map[string]bool{}}
	g.multi = f.Multi && !f.Hostile && g.chance(25, "multi")
	wg := [3]int{1, 1, 1}
	ngroups := 1
	if g.multi {
		wg = [3]int{1 + g.intn(4, "wgx"), 1 + g.intn(2, "wgy"), 1}
		ngroups = 1 + g.intn(2, "ng")
		g.class("multi-invocation")
	}
	g.nInv = wg[0] * wg[1] * wg[2] * ngroups
	// general structs
	for i, n := 0, g.intn(3, "nst"); i < n; i++ {
		g.newStruct(1, nil)
	}
	bind := 0
	nextBinding := func() int { bind++; return bind - 1 }
	c := &ExecCase{Buffers: map[[2]int][]byte{}, NumWG: [3]uint32{uint32(ngroups), 1, 1}}

	addGlobal := func(v *Var) { g.mod.Decls = append(g.mod.Decls, v) }

	// inputs
	inS := g.newStruct(1, []*Type{TI32, TU32, TF32})
	inp := &Var{Name: "inp", Kind: VStorage, Access: "read", T: StructT(inS), Group: 0, Binding: nextBinding()}
	addGlobal(inp)
	g.inputs = append(g.inputs, inp)
	c.Buffers[[2]int{0, inp.Binding}] = g.fillBuffer(inp.T, SizeOf(inp.T))
	if g.chance(50, "uni") && !f.off("uniform") {
		us := &Struct{Name: g.name("U")}
		for i, n := 0, 1+g.intn(4, "un"); i < n; i++ {
			var mt *Type
			switch g.intn(5, "ut") {
			case 0:
				mt = Scalar(g.numKind())
			case 1, 2:
				mt = Vec(2+g.intn(3, "uvn"), g.numKind())
			case 3:
				if f.Matrices && f.Floats {
					mt = Mat(2+g.intn(3, "umc"), 2+g.intn(3, "umr"), F32)
					if mt.R == 2 && f.off("uniform.matCx2") {
						mt = Mat(mt.N, 3, F32)
					}
				} else {
					mt = Vec(4, U32)
				}
			default:
				mt = Array(Vec(4, g.numKind()), 1+g.intn(3, "uan"))
				if f.Matrices && f.Floats && g.chance(30, "uam") && !f.off("uniform.array-of-matrix") {
					// arrays (one or two levels) of matrices with 3 or 4 rows (16-byte columns, valid in uniform space)
					g.class("uniform:array-of-matrix")
					mt = Array(Mat(2+g.intn(3, "uamc"), 3+g.intn(2, "uamr"), F32), 1+g.intn(2, "uamn"))
					if g.chance(50, "uam2") {
						mt = Array(mt, 1+g.intn(2, "uamn2"))
					}
				}
			}
			us.Members = append(us.Members, &Member{Name: g.name("m"), T: mt})
		}
		g.structs = append(g.structs, us)
		g.mod.Decls = append(g.mod.Decls, us)
		uni := &Var{Name: "uni", Kind: VUniform, T: StructT(us), Group: 0, Binding: nextBinding()}
		addGlobal(uni)
		g.inputs = append(g.inputs, uni)
		c.Buffers[[2]int{0, uni.Binding}] = g.fillBuffer(uni.T, SizeOf(uni.T))
		g.class("uniform-buffer")
	}
	if f.RuntimeArray && g.chance(40, "rta") && !f.off("runtime-array") {
		et := g.hostType(1)
		var rt *Var
		if g.chance(50, "rtast") || (f.Hostile && f.off("restrict.bare-runtime-array")) {
			rs := &Struct{Name: g.name("R"), Members: []*Member{{Name: g.name("m"), T: Scalar(g.numKind())}, {Name: g.name("m"), T: Array(et, 0)}}}
			g.mod.Decls = append(g.mod.Decls, rs)
			rt = &Var{Name: "rin", Kind: VStorage, Access: "read", T: StructT(rs), Group: 0, Binding: nextBinding()}
		} else {
			rt = &Var{Name: "rin", Kind: VStorage, Access: "read", T: Array(et, 0), Group: 0, Binding: nextBinding()}
		}
		addGlobal(rt)
		g.inputs = append(g.inputs, rt)
		n := 1 + g.intn(5, "rtn")
		c.Buffers[[2]int{0, rt.Binding}] = g.fillBuffer(rt.T, SizeOfRT(rt.T, n))
		g.class("runtime-array")
	}
	if f.Hostile && f.Floats {
		hv := &Var{Name: "hostf", Kind: VStorage, Access: "read", T: Array(TF32, 8), Group: 0, Binding: nextBinding()}
		addGlobal(hv)
		g.hostileF = hv
		vals := []float32{float32(math.Inf(1)), float32(math.Inf(-1)), 2147483648, -2147483904, 4294967296, -1, 3e38, -3e38, 2147483520, 4294967040, 1.5e9, -0.75}
		buf := make([]byte, 32)
		for i := 0; i < 8; i++ {
			binary.LittleEndian.PutUint32(buf[4*i:], math.Float32bits(vals[g.intn(len(vals), "hostv")]))
		}
		c.Buffers[[2]int{0, hv.Binding}] = buf
		g.class("hostile-floats")
	}
	// outputs
	outS := g.newStruct(2, []*Type{TI32, TU32, TF32, Vec(2+g.intn(3, "ovn"), g.numKind())})
	outT := StructT(outS)
	fzS := &Struct{Name: "FzOut", Members: []*Member{{Name: "f0", T: TF32}, {Name: "f1", T: TF32}, {Name: "v2", T: Vec(2, F32)},
		{Name: "v3", T: Vec(3, F32)}, {Name: "v4", T: Vec(4, F32)}}}
	g.mod.Decls = append(g.mod.Decls, fzS)
	var outV, fzV *Var
	if g.multi {
		outV = &Var{Name: "outp", Kind: VStorage, Access: "read_write", T: Array(outT, g.nInv), Group: 0, Binding: nextBinding()}
		fzV = &Var{Name: "outf", Kind: VStorage, Access: "read_write", T: Array(StructT(fzS), g.nInv), Group: 0, Binding: nextBinding()}
	} else {
		outV = &Var{Name: "outp", Kind: VStorage, Access: "read_write", T: outT, Group: 0, Binding: nextBinding()}
		fzV = &Var{Name: "outf", Kind: VStorage, Access: "read_write", T: StructT(fzS), Group: 0, Binding: nextBinding()}
	}
	addGlobal(outV)
	addGlobal(fzV)
	g.out, g.outFz = outV, fzV
	c.Buffers[[2]int{0, outV.Binding}] = g.fillBuffer(outV.T, SizeOf(outV.T))
	c.Buffers[[2]int{0, fzV.Binding}] = g.fillBuffer(fzV.T, SizeOf(fzV.T))
	if f.Atomics && g.chance(35, "atomics") && !f.off("atomics") {
		as := &Struct{Name: "AtOut", Members: []*Member{{Name: "a", T: Atomic(U32)}, {Name: "b", T: Atomic(I32)}, {Name: "c", T: Array(Atomic(U32), 3)}}}
		g.mod.Decls = append(g.mod.Decls, as)
		g.outAt = &Var{Name: "outa", Kind: VStorage, Access: "read_write", T: StructT(as), Group: 0, Binding: nextBinding()}
		addGlobal(g.outAt)
		c.Buffers[[2]int{0, g.outAt.Binding}] = g.fillBuffer(g.outAt.T, SizeOf(g.outAt.T))
		g.class("atomics")
	}
	// pipeline-overridable constants (C14)
	if f.Overrides {
		g.genOverrides(addGlobal)
		c.Overrides = g.overrides
	}
	// module constants
	g.push() // module scope for consts
	for i, n := 0, g.intn(3, "nconst"); i < n; i++ {
		ct := g.valueType(1)
		if ct.ContainsStruct() && f.off("module-const.struct") {
			// known finding: struct-typed module constants are rejected / mis-lowered for many argument shapes
			for tries := 0; ct.ContainsStruct(); tries++ {
				ct = g.valueType(1)
				if tries > 8 {
					ct = Scalar(g.numKind())
				}
			}
		}
		if ct.K != TScalar && f.off("module-const.composite") {
			// finding C01-8: composite module constants used as a whole are emitted as OpConstantNull
			ct = Scalar(g.numKind())
		}
		cv := &Var{Name: g.name("C"), Kind: VConst, T: ct}
		if f.off("module-const.expr") {
			cv.Init = g.constOf(ct)
		} else {
			g.noCalls = true
			cv.Init = g.constExprOf(ct, 2)
			g.noCalls = false
			if _, bare := cv.Init.(*VarRef); bare && f.off("const.alias") {
				cv.Init = g.constOf(ct)
			}
		}
		addGlobal(cv)
		g.consts = append(g.consts, cv)
		g.class("module-const")
	}
	// privates
	for i, n := 0, g.privCount(); i < n; i++ {
		pt := g.valueType(1)
		// Known finding (tag private.array, HLSL): a private variable of array
		// type is declared "static T[N] name", which is not an HLSL declarator.
		for tries := 0; pt.K == TArray && f.off("private.array"); tries++ {
			if pt = g.valueType(1); tries > 8 {
				pt = TI32
			}
		}
		pv := &Var{Name: g.name("pv"), Kind: VPrivate, T: pt}
		if (g.chance(50, "privinit") || f.off("var.no-init")) && !(pt.ContainsStruct() && f.off("private.init.struct")) && !(containsBoolVec(pt) && f.off("private-init.bool-splat")) {
			g.noNeg = f.off("private-init.unary")
			pv.Init = g.constOf(pt)
			if f.off("private-init.splat") {
				// known finding (C05-14 family, MSL): a splat constructor inside a module-scope initialiser
				// is emitted with another vector type (mat3x3(int3(0), float3(0, 0, 0), int3(0)))
				for tries := 0; tries < 6 && hasSplatCtor(pv.Init); tries++ {
					pv.Init = g.constOf(pt)
				}
				if hasSplatCtor(pv.Init) {
					pv.Init = nil
				}
			}
			g.noNeg = false
		}
		addGlobal(pv)
		g.privs = append(g.privs, pv)
		g.class("private-var")
	}
	// private variables whose initialiser is an override-expression (C14: "global
	// initialisers ... derived from other overrides")
	if f.Overrides && len(g.overrides) > 0 && !f.off("override.global-init") {
		for i, n := 0, g.intn(3, "npvo"); i < n; i++ {
			ov := g.overrides[g.intn(len(g.overrides), "pvoov")]
			init := g.overrideInit(ov.T, 2)
			if p, o := isPureOverrideExpr(init); !p || !o {
				init = &VarRef{ov}
			}
			pv := &Var{Name: g.name("pvo"), Kind: VPrivate, T: ov.T, Init: init}
			addGlobal(pv)
			g.privs = append(g.privs, pv)
			g.class("private-var:override-init")
		}
	}
	// workgroup memory (multi only): written before, read after a barrier
	var wgVar *Var
	if g.multi && g.chance(60, "wgv") && !f.off("workgroup") {
		wgVar = &Var{Name: "wmem", Kind: VWorkgroup, T: Array(TU32, wg[0]*wg[1]*wg[2])}
		addGlobal(wgVar)
		g.class("workgroup-var")
	}
	// helpers (single-invocation programs let helpers touch the output directly)
	if !g.multi {
		g.outSlot = func() Expr { return &VarRef{g.out} }
		g.outFzSlot = func() Expr { return &VarRef{g.outFz} }
	}
	for i, n := 0, g.intn(f.MaxHelpers+1, "nh"); i < n; i++ {
		h := g.helper()
		g.mod.Decls = append(g.mod.Decls, h)
		g.class("helper")
	}
	// entry point
	main := &Func{Name: "main", Stage: "compute", WG: wg}
	g.curFn = main
	g.push()
	builtins := []struct {
		name string
		t    *Type
	}{{"global_invocation_id", Vec(3, U32)}, {"local_invocation_id", Vec(3, U32)}, {"local_invocation_index", TU32},
		{"workgroup_id", Vec(3, U32)}, {"num_workgroups", Vec(3, U32)}}
	var lidx, wid *Var
	for _, b := range builtins {
		need := g.multi && (b.name == "local_invocation_index" || b.name == "workgroup_id")
		if need || g.chance(30, "bi") {
			p := &Var{Name: g.name("b"), Kind: VParam, T: b.t, Builtin: b.name}
			main.Params = append(main.Params, p)
			g.declare(p)
			g.class("builtin-input:" + b.name)
			if b.name == "local_invocation_index" {
				lidx = p
			}
			if b.name == "workgroup_id" {
				wid = p
			}
		}
	}
	var body []Stmt
	if g.multi {
		fid := &Var{Name: "fid", Kind: VLet, T: TU32, Init: &Binary{Op: "+",
			L: &Binary{Op: "*", L: &Swizzle{X: &VarRef{wid}, Comps: []int{0}, T: TU32}, R: &Lit{T: TU32, Bits: uint32(wg[0] * wg[1] * wg[2])}, T: TU32},
			R: &VarRef{lidx}, T: TU32}}
		body = append(body, &DeclStmt{V: fid})
		g.declareRO(fid, true)
		g.outSlot = func() Expr { return &Index{X: &VarRef{g.out}, I: &VarRef{fid}, T: outT} }
		g.outFzSlot = func() Expr { return &Index{X: &VarRef{g.outFz}, I: &VarRef{fid}, T: StructT(fzS)} }
	}
	g.stmtBudget = 3 + g.intn(f.MaxStmts, "nstm")
	g.noReturn = g.multi
	half := g.stmtBudget / 2
	if wgVar != nil {
		// phase 1
		save := g.stmtBudget
		g.stmtBudget = half
		body = append(body, g.blockNoScope(half, 2)...)
		g.stmtBudget = save - half
		slot := &Index{X: &VarRef{wgVar}, I: &VarRef{lidx}, T: TU32}
		if g.f.Pointers && g.chance(40, "wgptr") && !f.off("ptr.param.workgroup") {
			// the invocation's slot is written through a helper that takes ptr<workgroup, u32>
			g.class("fn:ptr-param:workgroup")
			pp := &Var{Name: g.name("p"), Kind: VParam, T: Ptr("workgroup", TU32)}
			pv := &Var{Name: g.name("p"), Kind: VParam, T: TU32}
			wf := &Func{Name: g.name("wgset_"), Params: []*Var{pp, pv}}
			wf.Body = []Stmt{&Assign{L: &Deref{X: &VarRef{pp}}, R: &VarRef{pv}}}
			g.mod.Decls = append(g.mod.Decls, wf)
			body = append(body, &CallStmt{Call: &CallE{Fn: wf, Args: []Expr{&AddrOf{X: slot, Space: "workgroup"}, g.expr(TU32, 3)}}})
		} else {
			body = append(body, &Assign{L: slot, R: g.expr(TU32, 3)})
		}
		body = append(body, &Barrier{Name: "workgroupBarrier"})
		nb := &Var{Name: g.name("nb"), Kind: VLet, T: TU32, Init: &Index{X: &VarRef{wgVar},
			I: &Binary{Op: "%", L: &Binary{Op: "+", L: &VarRef{lidx}, R: &Lit{T: TU32, Bits: 1}, T: TU32}, R: &Lit{T: TU32, Bits: uint32(wg[0] * wg[1] * wg[2])}, T: TU32}, T: TU32}}
		body = append(body, &DeclStmt{V: nb})
		g.declare(nb)
		g.class("barrier")
	}
	body = append(body, g.blockNoScope(g.stmtBudget, 3)...)
	if g.chance(25, "wzh") && !f.off("workgroup") && !f.off("workgroup.helper-only") {
		// a workgroup variable that only a helper names and nothing writes: it must read as zero, wherever the
		// entry point calls that helper from (then / else branch, loop body, switch case)
		if cands := g.pathsTo([]Expr{g.outSlot()}, func(t *Type) bool { return t.Same(TU32) }); len(cands) > 0 {
			g.class("workgroup-var:helper-only")
			wz := &Var{Name: g.name("wz"), Kind: VWorkgroup, T: Array(TU32, 4)}
			addGlobal(wz)
			pi := &Var{Name: g.name("p"), Kind: VParam, T: TU32}
			rf := &Func{Name: g.name("wzread_"), Params: []*Var{pi}, Ret: TU32}
			rf.Body = []Stmt{&Return{X: &Index{X: &VarRef{wz}, I: &Binary{Op: "%", L: &VarRef{pi}, R: &Lit{T: TU32, Bits: 4}, T: TU32}, T: TU32}}}
			g.mod.Decls = append(g.mod.Decls, rf)
			slot := func() Expr { return g.buildPath(cands[g.intn(len(cands), "wzs")], 1, true) }
			call := &Assign{L: slot(), R: &Binary{Op: "+", L: &CallE{Fn: rf, Args: []Expr{g.runtimeLeaf(U32)}}, R: &Lit{T: TU32, Bits: 7}, T: TU32}}
			other := &Assign{L: slot(), R: g.runtimeLeaf(U32)}
			switch g.intn(5, "wzpos") {
			case 0:
				body = append(body, call)
			case 1:
				body = append(body, &If{Cond: g.expr(TBool, 2), Then: []Stmt{call}, Else: []Stmt{other}})
			case 2:
				g.class("workgroup-var:helper-only:else")
				body = append(body, &If{Cond: g.expr(TBool, 2), Then: []Stmt{other}, Else: []Stmt{call}})
			case 3:
				g.class("workgroup-var:helper-only:else")
				body = append(body, &If{Cond: g.expr(TBool, 2), Then: []Stmt{other}, Else: []Stmt{&If{Cond: g.expr(TBool, 1), Then: []Stmt{other}, Else: []Stmt{call}}}})
			default:
				sel := &Binary{Op: "%", L: g.runtimeLeaf(U32), R: &Lit{T: TU32, Bits: 3}, T: TU32}
				body = append(body, &Switch{Sel: sel, Cases: []*Case{{Sels: []Expr{&Lit{T: TU32, Bits: 1}}, Body: []Stmt{other}}, {Default: true, Body: []Stmt{call}}}})
			}
		}
	}
	// observability: store visible locals into matching output slots
	for _, sv := range g.visible() {
		if sv.v.Kind == VParam || sv.v.T.K == TPtr {
			continue
		}
		vt := sv.v.T
		cands := g.pathsTo([]Expr{g.outSlot()}, func(t *Type) bool { return t.Same(vt) })
		if len(cands) > 0 && g.chance(70, "obs") {
			body = append(body, &Assign{L: g.buildPath(cands[g.intn(len(cands), "obsc")], 1, true), R: &VarRef{sv.v}})
		}
	}
	g.pop()
	main.Body = body
	if f.off("switch.break-all-terminated") {
		fixTerminatedSwitches(main.Body, true)
		for _, hf := range g.funcs {
			fixTerminatedSwitches(hf.Body, hf.Ret == nil)
		}
	}
	g.mod.Decls = append(g.mod.Decls, main)
	// forward references: sometimes move the entry point / helpers to the front
	if g.chance(25, "fwd") && !f.off("forward-reference") && !(g.anyBitcastOnlyRefs() && f.off("forward-reference.bitcast")) {
		g.class("forward-reference")
		d := g.mod.Decls
		last := d[len(d)-1]
		copy(d[1:], d[:len(d)-1])
		d[0] = last
	}
	c.Mod, c.Entry = g.mod, main
	c.Src = Print(g.mod)
	for k := range g.classes {
		c.Classes = append(c.Classes, k)
	}
	sort.Strings(c.Classes)
	return c
}

// anyBitcastOnlyRefs: some function names a module-scope declaration only
// inside bitcast<T>(…) (known finding: such a use is invisible to naga's
// declaration ordering, so a forward reference stays unresolved).
func (g *gen) anyBitcastOnlyRefs() bool {
	for _, f := range g.mod.Funcs() {
		if bitcastOnlyRefs(f) {
			return true
		}
	}
	return false
}

// blockNoScope generates statements into the current scope (so that
// declarations stay visible to later phases).
func (g *gen) blockNoScope(n int, depth int) []Stmt {
	var out []Stmt
	for i := 0; i < n && g.stmtBudget > 0; i++ {
		out = append(out, g.stmt(depth)...)
	}
	return out
}

// derefOff reports whether e is a whole-pointee dereference `*p` and compound
// assignment through it is switched off.
func (g *gen) derefOff(e Expr) bool {
	if _, ok := e.(*Deref); ok {
		return g.f.off("ptr.deref.compound")
	}
	return false
}

// privCount draws the number of private variables (none when the construct is off).
func (g *gen) privCount() int {
	n := g.intn(3, "npriv")
	if g.f.off("private-var") {
		return 0
	}
	return n
}

// containsBoolVec reports whether t is, or contains, a vector of bool.
func containsBoolVec(t *Type) bool {
	switch t.K {
	case TVec:
		return t.S == Bool
	case TArray:
		return containsBoolVec(t.Elem)
	case TStruct:
		for _, m := range t.St.Members {
			if containsBoolVec(m.T) {
				return true
			}
		}
	}
	return false
}

// genOverrides declares 1-4 overrides of bool / i32 / u32 / f32 with and
// without @id and default initialisers over literals and earlier overrides.
func (g *gen) genOverrides(add func(*Var)) {
	n := 1 + g.intn(4, "nov")
	usedID := map[int]bool{}
	for i := 0; i < n; i++ {
		k := []Kind{Bool, I32, U32, F32}[g.intn(4, "ovk")]
		if k == F32 && !g.f.Floats {
			k = I32
		}
		v := &Var{Name: g.name("ov"), Kind: VOverride, T: Scalar(k), ID: -1}
		if g.chance(50, "ovid") {
			id := g.intn(20, "ovidn")
			for usedID[id] {
				id++
			}
			usedID[id] = true
			v.ID = id
		}
		if g.chance(75, "ovinit") {
			v.Init = g.overrideInit(Scalar(k), 2)
		}
		v.NoType = false
		g.overrides = append(g.overrides, v)
		add(v)
		g.class("override:" + k.String())
		if v.Init != nil {
			g.class("override:with-default")
		} else {
			g.class("override:no-default")
		}
	}
}

// overrideInit builds an override-expression: literals, earlier overrides of
// the same type and operators over them.
func (g *gen) overrideInit(t *Type, depth int) Expr {
	var earlier []*Var
	for _, o := range g.overrides {
		if o.T.Same(t) {
			earlier = append(earlier, o)
		}
	}
	if depth <= 0 || g.chance(35, "ovleaf") {
		if len(earlier) > 0 && g.chance(50, "ovref") {
			g.class("override:derived")
			return &VarRef{earlier[g.intn(len(earlier), "ovrefi")]}
		}
		if t.S == I32 || t.S == U32 {
			// small values keep derived arithmetic away from overflow
			return &Lit{T: t, Bits: uint32(g.intn(16, "ovlit"))}
		}
		return g.litOf(t.S)
	}
	switch t.S {
	case Bool:
		if g.f.off("override.init.bool-ops") {
			return g.litOf(Bool)
		}
		if g.chance(50, "ovbcmp") {
			k := []Kind{I32, U32}[g.intn(2, "ovck")]
			op := cmpOps[g.intn(6, "ovcmp")]
			g.class("override-init:cmp")
			return &Binary{Op: op, L: g.overrideInit(Scalar(k), depth-1), R: g.overrideInit(Scalar(k), depth-1), T: TBool}
		}
		if g.chance(30, "ovnot") {
			g.class("override-init:!")
			return &Unary{Op: "!", X: g.overrideInit(t, depth-1), T: t}
		}
		op := []string{"&&", "||"}[g.intn(2, "ovlop")]
		g.class("override-init:" + op)
		return &Binary{Op: op, L: g.overrideInit(t, depth-1), R: g.overrideInit(t, depth-1), T: t}
	case F32:
		op := []string{"+", "-", "*"}[g.intn(3, "ovfop")]
		g.class("override-init:f32" + op)
		return &Binary{Op: op, L: g.overrideInit(t, depth-1), R: g.overrideInit(t, depth-1), T: t}
	}
	ops := []string{"+", "-", "*", "/", "%", "&", "|", "^", "<<", ">>"}
	if t.S == U32 {
		ops = []string{"+", "*", "/", "%", "&", "|", "^", "<<", ">>"}
	}
	op := ops[g.intn(len(ops), "oviop")]
	if g.f.off("override.init.op."+op) || (op == "/" && g.f.off("override.init.int-div")) {
		op = "+"
	}
	g.class("override-init:int" + op)
	if op == "<<" || op == ">>" {
		return &Binary{Op: op, L: g.overrideInit(t, depth-1), R: &Lit{T: TU32, Bits: uint32(g.intn(8, "ovsh"))}, T: t}
	}
	if op == "/" || op == "%" {
		// non-zero literal divisor: a zero divisor in an override-expression is a pipeline-creation error
		return &Binary{Op: op, L: g.overrideInit(t, depth-1), R: &Lit{T: t, Bits: uint32(1 + g.intn(7, "ovdiv"))}, T: t}
	}
	return &Binary{Op: op, L: g.overrideInit(t, depth-1), R: g.overrideInit(t, depth-1), T: t}
}

// hasSplatCtor reports whether e contains a vector constructor with a single scalar argument.
func hasSplatCtor(e Expr) bool {
	found := false
	if e == nil {
		return false
	}
	WalkExpr(e, func(x Expr) bool {
		if c, ok := x.(*Construct); ok && c.T != nil && c.T.K == TVec && len(c.Args) == 1 && c.Args[0].Type() != nil && c.Args[0].Type().K == TScalar {
			found = true
		}
		return !found
	})
	return found
}
