package wgen

// foldsToLiteral reports whether ir.ProcessOverrides reduces e to a literal
// once the overrides are resolved: literals, scalar constants, overrides,
// lets bound to such expressions, and unary / binary operators over them.
func foldsToLiteral(e Expr) (folds, usesOverride bool) {
	if t := e.Type(); IsConstExpr(e) && t != nil && t.K == TScalar {
		return true, false // the front end evaluates it
	}
	switch x := e.(type) {
	case *Lit:
		return true, false
	case *Paren:
		return foldsToLiteral(x.X)
	case *VarRef:
		switch x.V.Kind {
		case VOverride:
			return x.V.T.K == TScalar, true
		case VConst:
			return x.V.T.K == TScalar, false
		case VLet:
			if x.V.Init != nil {
				return foldsToLiteral(x.V.Init)
			}
		}
		return false, false
	case *Unary:
		return foldsToLiteral(x.X)
	case *Binary:
		lf, lo := foldsToLiteral(x.L)
		rf, ro := foldsToLiteral(x.R)
		return lf && rf, lo || ro
	}
	return false, false
}

// OverrideFoldHazards lists the operators of function-body expressions that
// ir.ProcessOverrides folds (operands reduce to literals, at least one of
// them through an override) with an operator other than + - * / and unary
// - / !, i.e. the expressions hit by the open finding about its
// four-operator float evaluator.  Comparison operators are listed separately.
func OverrideFoldHazards(m *Module) (ops []string, compare []string) {
	visit := func(root Expr) {
		WalkExpr(root, func(e Expr) bool {
			switch x := e.(type) {
			case *Binary:
				f, o := foldsToLiteral(x)
				if !f || !o {
					return true
				}
				switch x.Op {
				case "+", "-", "*", "/":
				case "==", "!=", "<", "<=", ">", ">=":
					compare = append(compare, x.Op)
				default:
					ops = append(ops, x.Op)
				}
			case *Unary:
				if f, o := foldsToLiteral(x); f && o && x.Op == "~" {
					ops = append(ops, "~")
				}
			}
			return true
		})
	}
	for _, f := range m.Funcs() {
		WalkStmts(f.Body, nil, visit)
	}
	return ops, compare
}

// isPureOverrideExpr reports whether e is an override-expression in WGSL's
// sense that is not a const-expression: built from literals, constants and
// overrides (no lets, no run-time values) with at least one override.
func isPureOverrideExpr(e Expr) (pure, usesOverride bool) {
	switch x := e.(type) {
	case *Lit:
		return true, false
	case *Paren:
		return isPureOverrideExpr(x.X)
	case *VarRef:
		switch x.V.Kind {
		case VOverride:
			return true, true
		case VConst:
			return true, false
		}
		return false, false
	case *Unary:
		return isPureOverrideExpr(x.X)
	case *Binary:
		lp, lo := isPureOverrideExpr(x.L)
		rp, ro := isPureOverrideExpr(x.R)
		return lp && rp, lo || ro
	case *Construct:
		any := false
		for _, a := range x.Args {
			p, o := isPureOverrideExpr(a)
			if !p {
				return false, false
			}
			any = any || o
		}
		return true, any
	case *Swizzle:
		return isPureOverrideExpr(x.X)
	case *Index:
		xp, xo := isPureOverrideExpr(x.X)
		ip, io := isPureOverrideExpr(x.I)
		return xp && ip, xo || io
	case *MemberE:
		return isPureOverrideExpr(x.X)
	case *Builtin:
		if x.Name == "arrayLength" || len(x.Name) > 6 && x.Name[:6] == "atomic" {
			return false, false
		}
		any := false
		for _, a := range x.Args {
			p, o := isPureOverrideExpr(a)
			if !p {
				return false, false
			}
			any = any || o
		}
		return true, any
	}
	return false, false
}

// OverrideExprs lists the maximal override-expressions (WGSL sense, with at
// least one override operand and at least one operator) of the function bodies.
func OverrideExprs(m *Module) []Expr {
	var out []Expr
	visit := func(root Expr) {
		WalkExpr(root, func(e Expr) bool {
			if p, o := isPureOverrideExpr(e); p && o {
				if _, leaf := e.(*VarRef); !leaf {
					out = append(out, e)
				}
				return false
			}
			return true
		})
	}
	for _, f := range m.Funcs() {
		WalkStmts(f.Body, nil, visit)
	}
	return out
}
