package wgen

// VarKind says what kind of named value/variable a Var is.
type VarKind int

// Var kinds.
const (
	VLet VarKind = iota
	VVar         // function-scope `var`
	VConst       // function- or module-scope `const`
	VParam
	VPrivate
	VWorkgroup
	VStorage // Access "read" or "read_write"
	VUniform
	VOverride
)

// Var is a declared name: let / var / const / parameter / global.
type Var struct {
	Name    string
	Kind    VarKind
	T       *Type // store type (var) or value type (let/const/param/override)
	Init    Expr  // optional initialiser
	Group   int
	Binding int
	Access  string // storage: "read" | "read_write"
	Builtin string // entry-point parameter: @builtin(...)
	ID      int    // override: @id(n), -1 = none
	NoType  bool   // print without explicit type annotation (let x = …)
}

// IsRef reports whether an identifier expression naming v is a reference.
func (v *Var) IsRef() bool {
	switch v.Kind {
	case VVar, VPrivate, VWorkgroup, VStorage, VUniform:
		return true
	}
	return false
}

// Space returns the address space of a variable.
func (v *Var) Space() string {
	switch v.Kind {
	case VVar:
		return "function"
	case VPrivate:
		return "private"
	case VWorkgroup:
		return "workgroup"
	case VStorage:
		return "storage"
	case VUniform:
		return "uniform"
	}
	return ""
}

// Expr is an expression node.
type Expr interface {
	// Type is the value type of the expression (for reference expressions the
	// store type of the reference).
	Type() *Type
}

// Lit is a scalar literal.  Bits holds bool (0/1), i32, u32, f32 bit pattern;
// abstract literals use I / F.  Text, when non-empty, is the exact spelling.
type Lit struct {
	T    *Type
	Bits uint32
	I    int64
	F    float64
	Text string
}

// VarRef names a Var.
type VarRef struct{ V *Var }

// Unary is -x, !x, ~x.
type Unary struct {
	Op string
	X  Expr
	T  *Type
}

// Binary is a binary operator expression (including && and ||).
type Binary struct {
	Op   string
	L, R Expr
	T    *Type
}

// CallE is a call of a user function.
type CallE struct {
	Fn   *Func
	Args []Expr
}

// Builtin is a call of a builtin function; Tmpl is the template argument of
// bitcast<T>.
type Builtin struct {
	Name string
	Args []Expr
	T    *Type
	Tmpl *Type
}

// Construct is a value constructor / conversion T(args); no args = zero value.
// Infer prints the constructor without template arguments (vec3(…), array(…)).
type Construct struct {
	T     *Type
	Args  []Expr
	Infer bool
}

// Index is x[i].
type Index struct {
	X, I Expr
	T    *Type
}

// MemberE is x.member.
type MemberE struct {
	X   Expr
	Idx int
}

// Swizzle is x.xyz…
type Swizzle struct {
	X     Expr
	Comps []int
	Set   int // 0 = xyzw, 1 = rgba
	T     *Type
}

// AddrOf is &x.
type AddrOf struct {
	X     Expr
	Space string
}

// Deref is *p.
type Deref struct{ X Expr }

// Paren is a redundant parenthesis (meaning-neutral; used by metamorphic edits).
type Paren struct{ X Expr }

func (e *Lit) Type() *Type       { return e.T }
func (e *VarRef) Type() *Type    { return e.V.T }
func (e *Unary) Type() *Type     { return e.T }
func (e *Binary) Type() *Type    { return e.T }
func (e *CallE) Type() *Type     { return e.Fn.Ret }
func (e *Builtin) Type() *Type   { return e.T }
func (e *Construct) Type() *Type { return e.T }
func (e *Index) Type() *Type     { return e.T }
func (e *MemberE) Type() *Type   { return e.X.Type().St.Members[e.Idx].T }
func (e *Swizzle) Type() *Type   { return e.T }
func (e *AddrOf) Type() *Type    { return Ptr(e.Space, e.X.Type()) }
func (e *Deref) Type() *Type     { return e.X.Type().Elem }
func (e *Paren) Type() *Type     { return e.X.Type() }

// IsRef reports whether e is a reference expression (an l-value).
func IsRef(e Expr) bool {
	switch x := e.(type) {
	case *VarRef:
		return x.V.IsRef()
	case *Index:
		return IsRef(x.X)
	case *MemberE:
		return IsRef(x.X)
	case *Swizzle:
		return len(x.Comps) == 1 && IsRef(x.X)
	case *Deref:
		return true
	case *Paren:
		return IsRef(x.X)
	}
	return false
}

// RootVar returns the variable at the root of a reference expression (nil for
// pointer dereferences of parameters).
func RootVar(e Expr) *Var {
	switch x := e.(type) {
	case *VarRef:
		return x.V
	case *Index:
		return RootVar(x.X)
	case *MemberE:
		return RootVar(x.X)
	case *Swizzle:
		return RootVar(x.X)
	case *Paren:
		return RootVar(x.X)
	case *Deref:
		if a, ok := x.X.(*AddrOf); ok {
			return RootVar(a.X)
		}
		if v, ok := x.X.(*VarRef); ok {
			return v.V
		}
	}
	return nil
}

// Stmt is a statement node.
type Stmt interface{}

// DeclStmt declares a let / var / const.
type DeclStmt struct{ V *Var }

// Assign is `L = R`, `L op= R`, or `_ = R` (L == nil).
type Assign struct {
	L  Expr
	Op string // "" or "+", "-", …
	R  Expr
}

// IncDec is L++ / L--.
type IncDec struct {
	L   Expr
	Inc bool
}

// If statement; Else may hold a single *If for else-if chains.
type If struct {
	Cond Expr
	Then []Stmt
	Else []Stmt
	// HasElse distinguishes `else {}` from no else.
	HasElse bool
}

// Case of a switch; a nil entry in Sels is the `default` keyword inside a
// selector list; Default marks a plain `default:` clause.
type Case struct {
	Sels    []Expr
	Default bool
	Body    []Stmt
}

// Switch statement.
type Switch struct {
	Sel   Expr
	Cases []*Case
}

// Loop statement with optional continuing block and break-if.
type Loop struct {
	Body       []Stmt
	Continuing []Stmt
	BreakIf    Expr
	HasCont    bool
}

// For statement.
type For struct {
	Init   Stmt
	Cond   Expr
	Update Stmt
	Body   []Stmt
}

// While statement.
type While struct {
	Cond Expr
	Body []Stmt
}

// Break, Continue, Discard.
type Break struct{}
type Continue struct{}

// Return statement.
type Return struct{ X Expr }

// CallStmt is a call used as a statement.
type CallStmt struct{ Call Expr }

// Block is a nested compound statement.
type Block struct{ Body []Stmt }

// Barrier is workgroupBarrier() / storageBarrier().
type Barrier struct{ Name string }

// ConstAssert is a const_assert statement.
type ConstAssert struct{ X Expr }

// Func is a function or entry point.
type Func struct {
	Name    string
	Params  []*Var
	Ret     *Type
	Body    []Stmt
	MustUse bool
	Stage   string // "" | "compute"
	WG      [3]int
	// WGExpr optionally gives workgroup-size expressions (printed instead of WG).
	WGExpr []Expr
}

// Module is a whole WGSL translation unit.  Decls is printed in order; it
// may contain *Struct, *Var (globals / consts / overrides), *Func, *ConstAssert, *Alias.
type Module struct {
	Enables []string
	Decls   []any
}

// Alias is `alias Name = T;`.
type Alias struct {
	Name string
	T    *Type
}

// Funcs returns the functions of the module.
func (m *Module) Funcs() []*Func {
	var out []*Func
	for _, d := range m.Decls {
		if f, ok := d.(*Func); ok {
			out = append(out, f)
		}
	}
	return out
}

// Globals returns module-scope vars/consts/overrides.
func (m *Module) Globals() []*Var {
	var out []*Var
	for _, d := range m.Decls {
		if v, ok := d.(*Var); ok {
			out = append(out, v)
		}
	}
	return out
}

// EntryPoints returns the entry points.
func (m *Module) EntryPoints() []*Func {
	var out []*Func
	for _, f := range m.Funcs() {
		if f.Stage != "" {
			out = append(out, f)
		}
	}
	return out
}
