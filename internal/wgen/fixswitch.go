package wgen

// Exclusion for finding C01-11 (tag switch.break-all-terminated): a switch whose every case
// body ends in a terminator (break / continue / return, including the implicit return the
// lowerer pushes into a switch in function-tail position) gets OpUnreachable as its SPIR-V
// merge block although `break` branches there.  While the finding is open the generator
// removes the `break` statements that target such a switch (the rest of the program,
// including breaks in switches with a live arm, is untouched).

func endsTerminated(body []Stmt) bool {
	if len(body) == 0 {
		return false
	}
	switch x := body[len(body)-1].(type) {
	case *Break, *Continue, *Return:
		return true
	case *Block:
		return endsTerminated(x.Body)
	case *If:
		if !x.HasElse && len(x.Else) == 0 {
			return false
		}
		return endsTerminated(x.Then) && endsTerminated(x.Else)
	case *Switch:
		for _, c := range x.Cases {
			if !endsTerminated(c.Body) {
				return false
			}
		}
		return true
	}
	return false
}

// removeBreaks deletes the break statements of body that target the enclosing switch.
func removeBreaks(body []Stmt) []Stmt {
	out := body[:0:0]
	for _, s := range body {
		switch x := s.(type) {
		case *Break:
			continue
		case *If:
			x.Then = removeBreaks(x.Then)
			x.Else = removeBreaks(x.Else)
		case *Block:
			x.Body = removeBreaks(x.Body)
		}
		out = append(out, s)
	}
	return out
}

// fixTerminatedSwitches walks a function body; tail says whether the end of body is the end
// of the function (where the lowerer appends the implicit return to every path).
func fixTerminatedSwitches(body []Stmt, tail bool) {
	for i, s := range body {
		t := tail && i == len(body)-1
		switch x := s.(type) {
		case *If:
			fixTerminatedSwitches(x.Then, t)
			fixTerminatedSwitches(x.Else, t)
		case *Block:
			fixTerminatedSwitches(x.Body, t)
		case *Switch:
			for _, c := range x.Cases {
				fixTerminatedSwitches(c.Body, t)
			}
			if t || endsTerminated([]Stmt{x}) {
				for _, c := range x.Cases {
					c.Body = removeBreaks(c.Body)
				}
			}
		case *Loop:
			fixTerminatedSwitches(x.Body, false)
			fixTerminatedSwitches(x.Continuing, false)
		case *For:
			fixTerminatedSwitches(x.Body, false)
		case *While:
			fixTerminatedSwitches(x.Body, false)
		}
	}
}
