// Package wgen holds the framework's own WGSL abstract syntax (types,
// expressions, statements, modules), a printer, an independent implementation
// of WGSL's memory-layout rules, and rapid generators of valid-by-construction
// programs.  naga's parser is never used to build inputs.
package wgen

import (
	"fmt"
	"strings"
)

// Kind is a scalar kind.
type Kind int

// Scalar kinds.
const (
	Bool Kind = iota
	I32
	U32
	F32
	F16
	AbsInt
	AbsFloat
)

func (k Kind) String() string {
	switch k {
	case Bool:
		return "bool"
	case I32:
		return "i32"
	case U32:
		return "u32"
	case F32:
		return "f32"
	case F16:
		return "f16"
	case AbsInt:
		return "abstract-int"
	case AbsFloat:
		return "abstract-float"
	}
	return "?"
}

// IsInt reports i32/u32/abstract-int.
func (k Kind) IsInt() bool { return k == I32 || k == U32 || k == AbsInt }

// IsFloat reports f32/f16/abstract-float.
func (k Kind) IsFloat() bool { return k == F32 || k == F16 || k == AbsFloat }

// IsAbstract reports abstract kinds.
func (k Kind) IsAbstract() bool { return k == AbsInt || k == AbsFloat }

// TypeKind discriminates Type.
type TypeKind int

// Type kinds.
const (
	TScalar TypeKind = iota
	TVec
	TMat
	TArray
	TStruct
	TAtomic
	TPtr
)

// Type is a WGSL type.  Types are compared with Same (structural; structs by name).
type Type struct {
	K     TypeKind
	S     Kind    // scalar kind (scalar, vec, mat, atomic)
	N     int     // vec size / mat columns / array length (0 = runtime-sized)
	R     int     // mat rows
	Elem  *Type   // array element / pointee
	St    *Struct // struct
	Space string  // pointer address space ("function", "private", …)
}

// Struct is a WGSL structure declaration.
type Struct struct {
	Name    string
	Members []*Member
}

// Member is a structure member; Align/Size are the @align/@size attribute
// values (0 = absent); AlignText/SizeText optionally give the spelling to
// print (hex, named constant) instead of the decimal number.
type Member struct {
	Name      string
	T         *Type
	Align     int
	Size      int
	AlignText string
	SizeText  string
}

var (
	TBool = &Type{K: TScalar, S: Bool}
	TI32  = &Type{K: TScalar, S: I32}
	TU32  = &Type{K: TScalar, S: U32}
	TF32  = &Type{K: TScalar, S: F32}
	TF16  = &Type{K: TScalar, S: F16}
	TAbsI = &Type{K: TScalar, S: AbsInt}
	TAbsF = &Type{K: TScalar, S: AbsFloat}
)

// Scalar returns the scalar type of kind k.
func Scalar(k Kind) *Type {
	switch k {
	case Bool:
		return TBool
	case I32:
		return TI32
	case U32:
		return TU32
	case F32:
		return TF32
	case F16:
		return TF16
	case AbsInt:
		return TAbsI
	case AbsFloat:
		return TAbsF
	}
	panic("bad kind")
}

// Vec returns vecN<k>.
func Vec(n int, k Kind) *Type { return &Type{K: TVec, S: k, N: n} }

// Mat returns matCxR<k>.
func Mat(c, r int, k Kind) *Type { return &Type{K: TMat, S: k, N: c, R: r} }

// Array returns array<elem, n> (n = 0: runtime-sized).
func Array(elem *Type, n int) *Type { return &Type{K: TArray, Elem: elem, N: n} }

// StructT returns the type of a struct declaration.
func StructT(s *Struct) *Type { return &Type{K: TStruct, St: s} }

// Atomic returns atomic<k>.
func Atomic(k Kind) *Type { return &Type{K: TAtomic, S: k} }

// Ptr returns ptr<space, t>.
func Ptr(space string, t *Type) *Type { return &Type{K: TPtr, Space: space, Elem: t} }

// Same reports structural equality.
func (t *Type) Same(o *Type) bool {
	if t == o {
		return true
	}
	if t == nil || o == nil || t.K != o.K {
		return false
	}
	switch t.K {
	case TScalar, TAtomic:
		return t.S == o.S
	case TVec:
		return t.S == o.S && t.N == o.N
	case TMat:
		return t.S == o.S && t.N == o.N && t.R == o.R
	case TArray:
		return t.N == o.N && t.Elem.Same(o.Elem)
	case TStruct:
		return t.St == o.St || t.St.Name == o.St.Name
	case TPtr:
		return t.Space == o.Space && t.Elem.Same(o.Elem)
	}
	return false
}

// String prints the WGSL spelling of the type.
func (t *Type) String() string {
	switch t.K {
	case TScalar:
		return t.S.String()
	case TVec:
		return fmt.Sprintf("vec%d<%s>", t.N, t.S)
	case TMat:
		return fmt.Sprintf("mat%dx%d<%s>", t.N, t.R, t.S)
	case TArray:
		if t.N == 0 {
			return fmt.Sprintf("array<%s>", t.Elem)
		}
		return fmt.Sprintf("array<%s, %d>", t.Elem, t.N)
	case TStruct:
		return t.St.Name
	case TAtomic:
		return fmt.Sprintf("atomic<%s>", t.S)
	case TPtr:
		return fmt.Sprintf("ptr<%s, %s>", t.Space, t.Elem)
	}
	return "?"
}

// Key is a canonical string usable as a map key.
func (t *Type) Key() string { return t.String() }

// IsScalar etc.
func (t *Type) IsScalar() bool  { return t.K == TScalar }
func (t *Type) IsVec() bool     { return t.K == TVec }
func (t *Type) IsMat() bool     { return t.K == TMat }
func (t *Type) IsNumeric() bool { return (t.K == TScalar || t.K == TVec) && t.S != Bool }

// ScalarOf returns the scalar type of a scalar/vector/matrix.
func (t *Type) ScalarOf() *Type { return Scalar(t.S) }

// ColumnType returns the column vector type of a matrix.
func (t *Type) ColumnType() *Type { return Vec(t.R, t.S) }

// WithKind returns the same shape (scalar or vector) with another scalar kind.
func (t *Type) WithKind(k Kind) *Type {
	switch t.K {
	case TScalar:
		return Scalar(k)
	case TVec:
		return Vec(t.N, k)
	case TMat:
		return Mat(t.N, t.R, k)
	}
	panic("WithKind on " + t.String())
}

// Width returns 1 for scalars and N for vectors.
func (t *Type) Width() int {
	if t.K == TVec {
		return t.N
	}
	return 1
}

// Constructible reports whether values of the type can be constructed /
// passed / returned (no atomics, no runtime arrays, no pointers).
func (t *Type) Constructible() bool {
	switch t.K {
	case TScalar, TVec, TMat:
		return true
	case TArray:
		return t.N > 0 && t.Elem.Constructible()
	case TStruct:
		for _, m := range t.St.Members {
			if !m.T.Constructible() {
				return false
			}
		}
		return true
	}
	return false
}

// HostShareable reports whether the type may live in a storage/uniform buffer.
func (t *Type) HostShareable() bool {
	switch t.K {
	case TScalar, TVec, TMat:
		return t.S != Bool
	case TAtomic:
		return true
	case TArray:
		return t.Elem.HostShareable()
	case TStruct:
		for _, m := range t.St.Members {
			if !m.T.HostShareable() {
				return false
			}
		}
		return true
	}
	return false
}

// HasRuntimeArray reports whether the type is or ends in a runtime-sized array.
func (t *Type) HasRuntimeArray() bool {
	switch t.K {
	case TArray:
		return t.N == 0
	case TStruct:
		n := len(t.St.Members)
		return n > 0 && t.St.Members[n-1].T.HasRuntimeArray()
	}
	return false
}

// HasAtomic reports whether the type contains an atomic.
func (t *Type) HasAtomic() bool {
	switch t.K {
	case TAtomic:
		return true
	case TArray:
		return t.Elem.HasAtomic()
	case TStruct:
		for _, m := range t.St.Members {
			if m.T.HasAtomic() {
				return true
			}
		}
	}
	return false
}

// ---------------------------------------------------------------------------
// WGSL memory layout (WGSL spec "Memory Layout": AlignOf, SizeOf, strides).
// Written from the specification tables; independent of naga.

func roundUp(k, n int) int { return (n + k - 1) / k * k }

func scalarSize(k Kind) int {
	if k == F16 {
		return 2
	}
	return 4
}

// AlignOf returns the WGSL alignment of a host-shareable type.
func AlignOf(t *Type) int {
	switch t.K {
	case TScalar, TAtomic:
		return scalarSize(t.S)
	case TVec:
		n := t.N
		if n == 3 {
			n = 4
		}
		return n * scalarSize(t.S)
	case TMat:
		return AlignOf(Vec(t.R, t.S))
	case TArray:
		return AlignOf(t.Elem)
	case TStruct:
		a := 1
		for _, m := range t.St.Members {
			if ma := MemberAlign(m); ma > a {
				a = ma
			}
		}
		return a
	}
	panic("AlignOf " + t.String())
}

// MemberAlign returns the alignment of a member, honouring @align.
func MemberAlign(m *Member) int {
	if m.Align > 0 {
		return m.Align
	}
	return AlignOf(m.T)
}

// MemberSize returns the size of a member, honouring @size.
func MemberSize(m *Member, rtLen int) int {
	if m.Size > 0 {
		return m.Size
	}
	return SizeOfRT(m.T, rtLen)
}

// SizeOf returns the WGSL size of a type (runtime arrays count as one element).
func SizeOf(t *Type) int { return SizeOfRT(t, 1) }

// SizeOfRT is SizeOf with a given length for the trailing runtime array.
func SizeOfRT(t *Type, rtLen int) int {
	switch t.K {
	case TScalar, TAtomic:
		return scalarSize(t.S)
	case TVec:
		return t.N * scalarSize(t.S)
	case TMat:
		return t.N * roundUp(AlignOf(Vec(t.R, t.S)), SizeOf(Vec(t.R, t.S)))
	case TArray:
		n := t.N
		if n == 0 {
			n = rtLen
		}
		return n * StrideOf(t)
	case TStruct:
		off := 0
		for _, m := range t.St.Members {
			off = roundUp(MemberAlign(m), off)
			off += MemberSize(m, rtLen)
		}
		return roundUp(AlignOf(t), off)
	}
	panic("SizeOf " + t.String())
}

// StrideOf returns the element stride of an array type.
func StrideOf(t *Type) int {
	return roundUp(AlignOf(t.Elem), SizeOf(t.Elem))
}

// MemberOffsets returns the byte offset of every member of a struct.
func MemberOffsets(s *Struct) []int {
	offs := make([]int, len(s.Members))
	off := 0
	for i, m := range s.Members {
		off = roundUp(MemberAlign(m), off)
		offs[i] = off
		off += MemberSize(m, 1)
	}
	return offs
}

// MatColStride returns the byte distance between matrix columns.
func MatColStride(t *Type) int { return roundUp(AlignOf(Vec(t.R, t.S)), SizeOf(Vec(t.R, t.S))) }

// RuntimeLen returns the element count of the trailing runtime array of a
// buffer of the given byte size holding type t (0 if t has none).
func RuntimeLen(t *Type, bufSize int) int {
	switch t.K {
	case TArray:
		if t.N == 0 {
			return bufSize / StrideOf(t)
		}
	case TStruct:
		n := len(t.St.Members)
		if n == 0 {
			return 0
		}
		last := t.St.Members[n-1]
		if last.T.HasRuntimeArray() {
			offs := MemberOffsets(t.St)
			return RuntimeLen(last.T, bufSize-offs[n-1])
		}
	}
	return 0
}

// Leaf is one scalar slot of a host-shareable type tree.
type Leaf struct {
	Off  int
	K    Kind
	Path string
}

// Leaves enumerates all scalar leaves of t at base offset, in memory order,
// using rtLen elements for a trailing runtime array.
func Leaves(t *Type, base int, rtLen int, path string, out *[]Leaf) {
	switch t.K {
	case TScalar, TAtomic:
		*out = append(*out, Leaf{base, t.S, path})
	case TVec:
		for i := 0; i < t.N; i++ {
			*out = append(*out, Leaf{base + i*scalarSize(t.S), t.S, fmt.Sprintf("%s.%c", path, "xyzw"[i])})
		}
	case TMat:
		cs := MatColStride(t)
		for c := 0; c < t.N; c++ {
			for r := 0; r < t.R; r++ {
				*out = append(*out, Leaf{base + c*cs + r*scalarSize(t.S), t.S, fmt.Sprintf("%s[%d][%d]", path, c, r)})
			}
		}
	case TArray:
		n := t.N
		if n == 0 {
			n = rtLen
		}
		st := StrideOf(t)
		for i := 0; i < n; i++ {
			Leaves(t.Elem, base+i*st, rtLen, fmt.Sprintf("%s[%d]", path, i), out)
		}
	case TStruct:
		offs := MemberOffsets(t.St)
		for i, m := range t.St.Members {
			Leaves(m.T, base+offs[i], rtLen, path+"."+m.Name, out)
		}
	}
}

// DeclString prints the struct declaration.
func (s *Struct) DeclString() string {
	var b strings.Builder
	fmt.Fprintf(&b, "struct %s {\n", s.Name)
	for _, m := range s.Members {
		b.WriteString("  ")
		if m.Align > 0 {
			txt := m.AlignText
			if txt == "" {
				txt = fmt.Sprint(m.Align)
			}
			fmt.Fprintf(&b, "@align(%s) ", txt)
		}
		if m.Size > 0 {
			txt := m.SizeText
			if txt == "" {
				txt = fmt.Sprint(m.Size)
			}
			fmt.Fprintf(&b, "@size(%s) ", txt)
		}
		fmt.Fprintf(&b, "%s: %s,\n", m.Name, m.T)
	}
	b.WriteString("}\n")
	return b.String()
}

// StripLayoutAttrs returns a copy of t in which no struct member carries an
// @align or @size attribute.
func StripLayoutAttrs(t *Type) *Type {
	switch t.K {
	case TArray:
		c := *t
		c.Elem = StripLayoutAttrs(t.Elem)
		return &c
	case TStruct:
		s := &Struct{Name: t.St.Name}
		for _, m := range t.St.Members {
			s.Members = append(s.Members, &Member{Name: m.Name, T: StripLayoutAttrs(m.T)})
		}
		return StructT(s)
	}
	return t
}

// AttrsChangeLayout reports whether the @align/@size attributes inside t move
// any scalar leaf (or the total size) away from where the attribute-free
// declaration would put it.
func AttrsChangeLayout(t *Type, rtLen int) bool {
	var a, b []Leaf
	Leaves(t, 0, rtLen, "", &a)
	s := StripLayoutAttrs(t)
	Leaves(s, 0, rtLen, "", &b)
	if len(a) != len(b) || SizeOfRT(t, rtLen) != SizeOfRT(s, rtLen) {
		return true
	}
	for i := range a {
		if a[i].Off != b[i].Off {
			return true
		}
	}
	return false
}
