package wgen

import (
	"fmt"
	"math"

	"pgregory.net/rapid"
)

// ConstCase is a generated constant expression with the site it is placed in
// (property C06).
type ConstCase struct {
	E       Expr
	Decls   []*Var // module-scope constants E refers to (declaration order)
	T       *Type  // concrete type observed at the site
	Site    string
	Nodes   int    // operator / builtin nodes in E
	Classes []string
	Leaves  []*Lit // literal leaves in evaluation order when E is fully concrete (no abstract node, no named constant)
}

type cgen struct {
	t       *rapid.T
	off     func(string) bool
	decls   []*Var
	classes map[string]bool
	nodes   int
	n       int
	concrete bool
	leaves  []*Lit
	noNamed, noBuiltin, noConvert, noNegI32, noSplat bool
}

func (g *cgen) intn(n int, label string) int {
	if n <= 1 {
		return 0
	}
	return rapid.IntRange(0, n-1).Draw(g.t, label)
}
func (g *cgen) chance(p int, l string) bool { return g.intn(100, l) < p }
func (g *cgen) is(tag string) bool          { return g.off != nil && g.off(tag) }
func (g *cgen) class(s string)              { g.classes[s] = true }

var cIntVals = []int64{0, 1, 2, 3, 4, 5, 7, 8, 15, 16, 31, 32, 33, 100, 255, 256, 1000, 65535, 65536, 0x7fffffff, 0x80000000, 0xffffffff, 0x100000000}

func (g *cgen) lit(k Kind) *Lit {
	var l *Lit
	switch k {
	case Bool:
		l = &Lit{T: TBool, Bits: uint32(g.intn(2, "cb"))}
	case I32:
		v := cIntVals[g.intn(19, "ci")] // up to 0x7fffffff
		if g.chance(30, "cin") {
			v = -v
		}
		if g.chance(4, "cimin") && !g.is("const.i32min-ctor") {
			v = math.MinInt32
		}
		l = &Lit{T: TI32, Bits: uint32(int32(v))}
	case U32:
		v := cIntVals[g.intn(22, "cu")]
		l = &Lit{T: TU32, Bits: uint32(v)}
	case F32:
		k := rapid.IntRange(-40, 40).Draw(g.t, "cfk")
		d := []float32{1, 2, 4, 8}[g.intn(4, "cfd")]
		f := float32(k) / d
		if g.chance(6, "cfbig") {
			f = []float32{16777216, 1e10, 3e38, 1e-30}[g.intn(4, "cfb")]
		}
		l = &Lit{T: TF32, Bits: math.Float32bits(f)}
	case AbsInt:
		nv := len(cIntVals)
		if g.is("const.abstract-int.wide") {
			nv = 19 // keep abstract integers inside the i32 range
		}
		v := cIntVals[g.intn(nv, "ca")]
		if g.chance(30, "can") {
			v = -v
		}
		l = &Lit{T: TAbsI, I: v}
		if g.chance(15, "cahex") && v >= 0 && !g.is("const.hex-literal") {
			l.Text = fmt.Sprintf("0x%x", v)
			g.class("literal:hex")
		}
	case AbsFloat:
		k := rapid.IntRange(-40, 40).Draw(g.t, "cafk")
		d := []float64{1, 2, 4, 8}[g.intn(4, "cafd")]
		f := float64(k) / d
		if g.chance(6, "cafbig") {
			f = []float64{1e10, 1e38, 0.1, 1.0 / 3, 1e39, 1e300}[g.intn(6, "cafb")]
			if float64(float32(f)) != f && g.is("const.abstract-float.wide") {
				f = 1e10 // keep abstract floats exactly representable in binary32
			}
		}
		l = &Lit{T: TAbsF, F: f}
	}
	if k.IsAbstract() {
		g.concrete = false
	}
	g.leaves = append(g.leaves, l)
	return l
}

// conv returns an expression whose type is t or an abstract type that WGSL
// converts to t automatically.
func (g *cgen) conv(t *Type, depth int) Expr {
	if t.K == TScalar && !t.S.IsAbstract() && t.S != Bool && g.chance(35, "cabs") {
		switch t.S {
		case I32, U32:
			if t.S == U32 && g.is("const.u32.named-abstract-operand") {
				// open finding C06-19: no named abstract-int constants inside an operand of u32 arithmetic
				save := g.noNamed
				g.noNamed = true
				defer func() { g.noNamed = save }()
			}
			return g.expr(TAbsI, depth)
		case F32:
			if g.chance(50, "cabsf") || g.is("const.absint-div.float-context") {
				return g.expr(TAbsF, depth)
			}
			return g.expr(TAbsI, depth)
		}
	}
	if t.K == TScalar && t.S == AbsFloat && g.chance(30, "cabsi") && !g.is("const.absint-div.float-context") {
		return g.expr(TAbsI, depth)
	}
	return g.expr(t, depth)
}

// convArg generates the operand of a value conversion.
func (g *cgen) convArg(t *Type, depth int) Expr {
	if g.is("const.convert.of-named") {
		save := g.noNamed
		g.noNamed = true
		defer func() { g.noNamed = save }()
	}
	return g.expr(t, depth)
}

func (g *cgen) named(t *Type) Expr {
	// reuse or declare a module-scope constant of type t
	for _, d := range g.decls {
		if d.T.Same(t) && g.chance(50, "reuse") {
			g.concrete = false
			return &VarRef{d}
		}
	}
	g.n++
	v := &Var{Name: fmt.Sprintf("K%d", g.n), Kind: VConst, T: t, NoType: t.S.IsAbstract() || g.chance(30, "knotype")}
	save, saveLeaves := g.concrete, g.leaves
	v.Init = g.lit(t.S)
	g.leaves = saveLeaves
	g.concrete = save
	if v.NoType && !t.S.IsAbstract() {
		// type comes from the suffixed literal
	}
	g.decls = append(g.decls, v)
	g.concrete = false
	g.class("named-const")
	return &VarRef{v}
}

func (g *cgen) expr(t *Type, depth int) Expr {
	if t.K == TVec {
		return g.vec(t, depth)
	}
	k := t.S
	if depth <= 0 || g.chance(18, "cleaf") {
		if g.chance(20, "cnamed") && !g.is("const.named") && !g.noNamed {
			return g.named(t)
		}
		return g.lit(k)
	}
	g.nodes++
	switch k {
	case Bool:
		switch g.intn(5, "cbp") {
		case 0:
			g.class("unary!")
			return &Unary{Op: "!", X: g.expr(TBool, depth-1), T: TBool}
		case 1:
			op := []string{"&&", "||", "&", "|", "==", "!="}[g.intn(6, "cbop")]
			g.class("logic" + op)
			return &Binary{Op: op, L: g.expr(TBool, depth-1), R: g.expr(TBool, depth-1), T: TBool}
		default:
			nk := []Kind{I32, U32, F32, AbsInt, AbsFloat}[g.intn(5, "ccmpk")]
			op := cmpOps[g.intn(6, "ccmp")]
			g.class("cmp" + op + ":" + nk.String())
			nt := Scalar(nk)
			return &Binary{Op: op, L: g.expr(nt, depth-1), R: g.conv(nt, depth-1), T: TBool}
		}
	case I32, U32, AbsInt:
		r := g.intn(100, "cip")
		switch {
		case r < 50:
			ops := []string{"+", "-", "*", "/", "%", "&", "|", "^"}
			op := ops[g.intn(len(ops), "ciop")]
			if k == AbsInt && (op == "/" || op == "%") && g.is("const.absint-div.float-context") {
				op = "+"
			}
			g.class("bin" + op + ":" + k.String())
			l, rr := g.expr(t, depth-1), g.conv(t, depth-1)
			if g.chance(50, "cswap") && op != "/" && op != "%" && op != "-" {
				l, rr = rr, l
			}
			if k == U32 && g.is("const.u32.named-abstract-operand") {
				// open finding C06-19: a NAMED abstract-int constant next to a u32 operand makes the
				// function-scope folder treat the u32 arithmetic as signed
				fix := func(e Expr) Expr {
					if v, ok := e.(*VarRef); ok && v.V.T.S == AbsInt {
						return g.lit(AbsInt)
					}
					return e
				}
				l, rr = fix(l), fix(rr)
			}
			return &Binary{Op: op, L: l, R: rr, T: t}
		case r < 60 && !(k == AbsInt && g.is("const.absint.shift")):
			op := []string{"<<", ">>"}[g.intn(2, "cshop")]
			g.class("bin" + op + ":" + k.String())
			amt := &Lit{T: TU32, Bits: uint32(g.intn(34, "csh"))}
			g.leaves = append(g.leaves, amt)
			return &Binary{Op: op, L: g.expr(t, depth-1), R: amt, T: t}
		case r < 70:
			op := "~"
			if k != U32 && g.chance(60, "cneg") && !g.noNegI32 {
				op = "-"
			}
			g.class("unary" + op + ":" + k.String())
			if op == "-" && k == I32 && g.is("const.neg.named-int") {
				save := g.noNamed
				g.noNamed = true
				x := g.expr(t, depth-1)
				g.noNamed = save
				if _, isRef := x.(*VarRef); !isRef {
					return &Unary{Op: op, X: x, T: t}
				}
			}
			return &Unary{Op: op, X: g.expr(t, depth-1), T: t}
		case r < 84 && k != AbsInt && !g.noBuiltin:
			names := []string{"abs", "min", "max", "clamp", "countOneBits", "countLeadingZeros", "countTrailingZeros", "reverseBits", "firstLeadingBit", "firstTrailingBit", "dot"}
			n := names[g.intn(len(names), "cib")]
			if k == U32 && n == "abs" {
				n = "max"
			}
			if g.is("const.builtin."+n) || g.is("builtin."+n) {
				n = "min"
			}
			g.class("builtin:" + n + ":" + k.String())
			switch n {
			case "min", "max":
				return &Builtin{Name: n, Args: []Expr{g.expr(t, depth-1), g.conv(t, depth-1)}, T: t}
			case "clamp":
				return &Builtin{Name: n, Args: []Expr{g.expr(t, depth-1), g.conv(t, depth-1), g.conv(t, depth-1)}, T: t}
			case "dot":
				vt := Vec(2+g.intn(3, "cdotn"), k)
				return &Builtin{Name: n, Args: []Expr{g.expr(vt, depth-1), g.expr(vt, depth-1)}, T: t}
			default:
				return &Builtin{Name: n, Args: []Expr{g.expr(t, depth-1)}, T: t}
			}
		case r < 94 && k != AbsInt && !g.noConvert:
			// conversion from another kind
			src := []Kind{Bool, I32, U32, F32, AbsInt, AbsFloat}[g.intn(6, "ccs")]
			if src == k {
				src = AbsInt
			}
			g.class("convert:" + src.String() + "->" + k.String())
			return &Construct{T: t, Args: []Expr{g.convArg(Scalar(src), depth-1)}}
		case k != AbsInt && !g.noBuiltin:
			g.class("select:" + k.String())
			return &Builtin{Name: "select", Args: []Expr{g.expr(t, depth-1), g.conv(t, depth-1), g.expr(TBool, depth-1)}, T: t}
		}
		g.class("bin+:" + k.String())
		return &Binary{Op: "+", L: g.expr(t, depth-1), R: g.conv(t, depth-1), T: t}
	case F32, AbsFloat:
		r := g.intn(100, "cfp")
		switch {
		case r < 50:
			op := []string{"+", "-", "*", "/"}[g.intn(4, "cfop")]
			g.class("bin" + op + ":" + k.String())
			l, rr := g.expr(t, depth-1), g.conv(t, depth-1)
			if g.chance(50, "cfswap") && op != "/" && op != "-" {
				l, rr = rr, l
			}
			return &Binary{Op: op, L: l, R: rr, T: t}
		case r < 58:
			g.class("unary-:" + k.String())
			return &Unary{Op: "-", X: g.expr(t, depth-1), T: t}
		case r < 84 && k == F32 && !g.noBuiltin:
			names := []string{"abs", "min", "max", "floor", "ceil", "trunc", "round", "fract", "sign", "step", "saturate", "sqrt", "clamp", "fma", "pow", "exp2", "dot"}
			n := names[g.intn(len(names), "cfb")]
			if g.is("const.builtin."+n) || g.is("builtin."+n) {
				n = "abs"
			}
			g.class("builtin:" + n + ":f32")
			switch n {
			case "min", "max", "step", "pow":
				return &Builtin{Name: n, Args: []Expr{g.expr(t, depth-1), g.conv(t, depth-1)}, T: t}
			case "clamp":
				lo := float32(g.intn(9, "cclo")) - 4
				hi := lo + float32(g.intn(8, "cchi"))
				a, b := &Lit{T: TF32, Bits: math.Float32bits(lo)}, &Lit{T: TF32, Bits: math.Float32bits(hi)}
				g.leaves = append(g.leaves, a, b)
				return &Builtin{Name: n, Args: []Expr{g.expr(t, depth-1), a, b}, T: t}
			case "fma":
				return &Builtin{Name: n, Args: []Expr{g.expr(t, depth-1), g.conv(t, depth-1), g.conv(t, depth-1)}, T: t}
			case "dot":
				vt := Vec(2+g.intn(3, "cfdotn"), F32)
				return &Builtin{Name: n, Args: []Expr{g.expr(vt, depth-1), g.expr(vt, depth-1)}, T: t}
			default:
				return &Builtin{Name: n, Args: []Expr{g.expr(t, depth-1)}, T: t}
			}
		case r < 94 && k == F32 && !g.noConvert:
			src := []Kind{Bool, I32, U32, AbsInt, AbsFloat}[g.intn(5, "cfcs")]
			g.class("convert:" + src.String() + "->f32")
			return &Construct{T: t, Args: []Expr{g.convArg(Scalar(src), depth-1)}}
		case k == F32 && !g.noBuiltin:
			g.class("select:f32")
			return &Builtin{Name: "select", Args: []Expr{g.expr(t, depth-1), g.conv(t, depth-1), g.expr(TBool, depth-1)}, T: t}
		}
		g.class("bin*:" + k.String())
		return &Binary{Op: "*", L: g.expr(t, depth-1), R: g.conv(t, depth-1), T: t}
	}
	return g.lit(k)
}

func (g *cgen) vec(t *Type, depth int) Expr {
	st := t.ScalarOf()
	if depth <= 0 || g.chance(25, "cvleaf") {
		g.class("construct:vec")
		if g.chance(25, "cvsplat") && !g.noSplat {
			return &Construct{T: t, Args: []Expr{g.expr(st, depth-1)}}
		}
		args := make([]Expr, t.N)
		for i := range args {
			args[i] = g.conv(st, depth-1)
		}
		// keep at least one argument of the exact component type so that the
		// constructor's template type is what concretises abstract arguments
		return &Construct{T: t, Args: args}
	}
	g.nodes++
	r := g.intn(100, "cvp")
	if g.noSplat && r < 45 {
		r = 45 + r%15 // no component-wise vector operators at module-scope sites (open finding)
	}
	switch {
	case r < 45:
		var ops []string
		switch t.S {
		case F32:
			ops = []string{"+", "-", "*"}
		case Bool:
			ops = []string{"&", "|"}
		default:
			ops = []string{"+", "-", "*", "&", "|", "^"}
		}
		op := ops[g.intn(len(ops), "cvop")]
		g.class("bin" + op + ":vec")
		lt, rt := t, t
		if t.S != Bool && (op == "+" || op == "-" || op == "*") {
			switch g.intn(4, "cvmix") {
			case 0:
				lt = st
			case 1:
				rt = st
			}
		}
		return &Binary{Op: op, L: g.expr(lt, depth-1), R: g.expr(rt, depth-1), T: t}
	case r < 60:
		sn := t.N + g.intn(5-t.N, "cvsn")
		comps := make([]int, t.N)
		for i := range comps {
			comps[i] = g.intn(sn, "cvsc")
		}
		g.class("swizzle")
		return &Swizzle{X: g.expr(Vec(sn, t.S), depth-1), Comps: comps, T: t}
	case r < 75 && t.S != Bool:
		names := []string{"min", "max", "abs"}
		if t.S == U32 {
			names = names[:2]
		}
		n := names[g.intn(len(names), "cvb")]
		g.class("builtin:" + n + ":vec")
		if n == "abs" {
			return &Builtin{Name: n, Args: []Expr{g.expr(t, depth-1)}, T: t}
		}
		return &Builtin{Name: n, Args: []Expr{g.expr(t, depth-1), g.expr(t, depth-1)}, T: t}
	case r < 94 && r >= 80 && t.S == F32 && t.N == 3 && !g.noBuiltin && !g.is("const.builtin.cross") && !g.is("builtin.cross"):
		g.class("builtin:cross:vec")
		return &Builtin{Name: "cross", Args: []Expr{g.expr(t, depth-1), g.expr(t, depth-1)}, T: t}
	case r < 85 && t.S == Bool:
		k := []Kind{I32, U32, F32}[g.intn(3, "cvck")]
		op := cmpOps[g.intn(6, "cvcmp")]
		g.class("cmp" + op + ":vec")
		return &Binary{Op: op, L: g.expr(Vec(t.N, k), depth-1), R: g.expr(Vec(t.N, k), depth-1), T: t}
	case r < 90:
		g.class("select:vec")
		return &Builtin{Name: "select", Args: []Expr{g.expr(t, depth-1), g.expr(t, depth-1), g.expr(Vec(t.N, Bool), depth-1)}, T: t}
	}
	if t.S != Bool && t.S != F32 {
		op := "~"
		if t.S == I32 && g.chance(50, "cvneg") {
			op = "-"
		}
		g.class("unary" + op + ":vec")
		return &Unary{Op: op, X: g.expr(t, depth-1), T: t}
	}
	return &Construct{T: t, Args: []Expr{g.expr(st, depth-1)}}
}

// ForceConstSite (development aid) pins the site.
var ForceConstSite string

// ConstSites lists the placements of a constant expression.
var ConstSites = []string{"module-const", "module-const-inferred", "fn-const", "let", "var-init", "arg", "store", "array-size", "case-selector", "const-assert", "workgroup-size"}

// GenConstCase draws a constant expression and a site.
func GenConstCase(t *rapid.T, off func(string) bool) *ConstCase {
	g := &cgen{t: t, off: off, classes: map[string]bool{}, concrete: true}
	site := ConstSites[g.intn(len(ConstSites), "site")]
	if ForceConstSite != "" {
		site = ForceConstSite
	}
	if g.is("const.site." + site) {
		site = "let"
	}
	c := &ConstCase{Site: site}
	depth := 1 + g.intn(4, "cdepth")
	switch site {
	case "module-const", "module-const-inferred":
		g.noNamed = g.is("const.module-site.named")
		g.noNegI32 = g.is("const.module-inferred.neg-neg")
		g.noSplat = g.is("const.module-site.vec-splat")
		g.noConvert = g.is("const.module-site.convert")
	case "array-size", "case-selector", "workgroup-size", "const-assert":
		g.noNamed = g.is("const.int-site.named")
		g.noBuiltin = g.is("const.int-site.builtin")
		g.noConvert = g.is("const.int-site.convert")
	}
	switch site {
	case "array-size", "case-selector", "workgroup-size":
		// integer-valued: the observed quantity must stay a small positive number,
		// which the wrapper ((E % 7) + 7) % 7 + 1 ensures for every E
		k := []Kind{I32, U32, AbsInt}[g.intn(3, "sk")]
		tt := Scalar(k)
		inner := g.expr(tt, depth)
		seven := func() Expr {
			if k == AbsInt {
				return &Lit{T: TAbsI, I: 7}
			}
			l := &Lit{T: tt, Bits: 7}
			g.leaves = append(g.leaves, l)
			return l
		}
		one := Expr(&Lit{T: TAbsI, I: 1})
		if k != AbsInt {
			l := &Lit{T: tt, Bits: 1}
			g.leaves = append(g.leaves, l)
			one = l
		}
		e := &Binary{Op: "+", L: &Binary{Op: "%", L: &Binary{Op: "+", L: &Binary{Op: "%", L: inner, R: seven(), T: tt}, R: seven(), T: tt}, R: seven(), T: tt}, R: one, T: tt}
		c.E, c.T = e, tt
		if k == AbsInt {
			c.T = TI32
			g.concrete = false
		}
		g.nodes += 4
	default:
		var tt *Type
		switch g.intn(13, "tk") {
		case 0, 1:
			tt = TI32
		case 2, 3:
			tt = TU32
		case 4, 5:
			tt = TF32
		case 6:
			tt = TBool
		case 7, 10, 11:
			tt = Vec(2+g.intn(3, "vn"), []Kind{I32, U32, F32}[g.intn(3, "vk")])
		case 12:
			tt = Vec(3, F32)
		case 8:
			tt = TAbsI
		default:
			tt = TAbsF
		}
		if site == "const-assert" && tt.K == TVec {
			tt = TI32
		}
		c.E = g.expr(tt, depth)
		c.T = tt
		switch tt.S {
		case AbsInt:
			c.T = TI32
		case AbsFloat:
			c.T = TF32
		}
	}
	if _, bare := c.E.(*VarRef); bare && (site == "module-const" || site == "module-const-inferred") && g.is("const.alias") {
		c.Site = "let"
	}

	c.Decls, c.Nodes = g.decls, g.nodes
	if g.concrete {
		c.Leaves = g.leaves
	}
	for k := range g.classes {
		c.Classes = append(c.Classes, k)
	}
	sortStrings(c.Classes)
	return c
}
