package wgen

import (
	"fmt"
	"math"
	"strconv"
	"strings"
)

// Print renders the module as WGSL source text.
func Print(m *Module) string {
	p := &printer{}
	for _, e := range m.Enables {
		p.linef("enable %s;", e)
	}
	for _, d := range m.Decls {
		switch x := d.(type) {
		case *Struct:
			p.b.WriteString(x.DeclString())
		case *Alias:
			p.linef("alias %s = %s;", x.Name, x.T)
		case *Var:
			p.global(x)
		case *Func:
			p.fn(x)
		case *ConstAssert:
			p.linef("const_assert %s;", ExprString(x.X))
		}
	}
	return p.b.String()
}

type printer struct {
	b   strings.Builder
	ind int
}

func (p *printer) linef(f string, a ...any) {
	p.b.WriteString(strings.Repeat("  ", p.ind))
	fmt.Fprintf(&p.b, f, a...)
	p.b.WriteByte('\n')
}

func (p *printer) global(v *Var) {
	switch v.Kind {
	case VConst:
		if v.NoType {
			p.linef("const %s = %s;", v.Name, ExprString(v.Init))
		} else {
			p.linef("const %s: %s = %s;", v.Name, v.T, ExprString(v.Init))
		}
	case VOverride:
		s := ""
		if v.ID >= 0 {
			s = fmt.Sprintf("@id(%d) ", v.ID)
		}
		s += "override " + v.Name
		if !v.NoType {
			s += ": " + v.T.String()
		}
		if v.Init != nil {
			s += " = " + ExprString(v.Init)
		}
		p.linef("%s;", s)
	case VPrivate, VWorkgroup:
		s := fmt.Sprintf("var<%s> %s: %s", v.Space(), v.Name, v.T)
		if v.Init != nil {
			s += " = " + ExprString(v.Init)
		}
		p.linef("%s;", s)
	case VStorage:
		p.linef("@group(%d) @binding(%d) var<storage, %s> %s: %s;", v.Group, v.Binding, v.Access, v.Name, v.T)
	case VUniform:
		p.linef("@group(%d) @binding(%d) var<uniform> %s: %s;", v.Group, v.Binding, v.Name, v.T)
	}
}

func (p *printer) fn(f *Func) {
	var attrs []string
	if f.MustUse {
		attrs = append(attrs, "@must_use")
	}
	if f.Stage == "compute" {
		if len(f.WGExpr) > 0 {
			var a []string
			for _, e := range f.WGExpr {
				a = append(a, ExprString(e))
			}
			attrs = append(attrs, "@compute", "@workgroup_size("+strings.Join(a, ", ")+")")
		} else {
			attrs = append(attrs, "@compute", fmt.Sprintf("@workgroup_size(%d, %d, %d)", f.WG[0], f.WG[1], f.WG[2]))
		}
	}
	var ps []string
	for _, a := range f.Params {
		s := ""
		if a.Builtin != "" {
			s = "@builtin(" + a.Builtin + ") "
		}
		ps = append(ps, fmt.Sprintf("%s%s: %s", s, a.Name, a.T))
	}
	head := strings.Join(attrs, " ")
	if head != "" {
		head += " "
	}
	ret := ""
	if f.Ret != nil {
		ret = " -> " + f.Ret.String()
	}
	p.linef("%sfn %s(%s)%s {", head, f.Name, strings.Join(ps, ", "), ret)
	p.ind++
	p.stmts(f.Body)
	p.ind--
	p.linef("}")
}

func (p *printer) stmts(l []Stmt) {
	for _, s := range l {
		p.stmt(s)
	}
}

// StmtString renders a simple statement without trailing semicolon (for
// `for` headers).
func simpleStmt(s Stmt) string {
	switch x := s.(type) {
	case nil:
		return ""
	case *DeclStmt:
		return declString(x.V)
	case *Assign:
		if x.L == nil {
			return "_ = " + ExprString(x.R)
		}
		return fmt.Sprintf("%s %s= %s", ExprString(x.L), x.Op, ExprString(x.R))
	case *IncDec:
		if x.Inc {
			return ExprString(x.L) + "++"
		}
		return ExprString(x.L) + "--"
	case *CallStmt:
		return ExprString(x.Call)
	}
	panic(fmt.Sprintf("simpleStmt %T", s))
}

func declString(v *Var) string {
	kw := "let"
	switch v.Kind {
	case VVar:
		kw = "var"
	case VConst:
		kw = "const"
	}
	s := kw + " " + v.Name
	if !v.NoType {
		s += ": " + v.T.String()
	}
	if v.Init != nil {
		s += " = " + ExprString(v.Init)
	}
	return s
}

func (p *printer) stmt(s Stmt) {
	switch x := s.(type) {
	case *DeclStmt, *Assign, *IncDec, *CallStmt:
		p.linef("%s;", simpleStmt(x))
	case *If:
		p.ifStmt(x, "if")
	case *Switch:
		p.linef("switch %s {", ExprString(x.Sel))
		p.ind++
		for _, c := range x.Cases {
			if c.Default {
				p.linef("default: {")
			} else {
				var sels []string
				for _, e := range c.Sels {
					if e == nil {
						sels = append(sels, "default")
					} else {
						sels = append(sels, ExprString(e))
					}
				}
				p.linef("case %s: {", strings.Join(sels, ", "))
			}
			p.ind++
			p.stmts(c.Body)
			p.ind--
			p.linef("}")
		}
		p.ind--
		p.linef("}")
	case *Loop:
		p.linef("loop {")
		p.ind++
		p.stmts(x.Body)
		if x.HasCont {
			p.linef("continuing {")
			p.ind++
			p.stmts(x.Continuing)
			if x.BreakIf != nil {
				p.linef("break if %s;", ExprString(x.BreakIf))
			}
			p.ind--
			p.linef("}")
		}
		p.ind--
		p.linef("}")
	case *For:
		cond := ""
		if x.Cond != nil {
			cond = ExprString(x.Cond)
		}
		p.linef("for (%s; %s; %s) {", simpleStmt(x.Init), cond, simpleStmt(x.Update))
		p.ind++
		p.stmts(x.Body)
		p.ind--
		p.linef("}")
	case *While:
		p.linef("while %s {", ExprString(x.Cond))
		p.ind++
		p.stmts(x.Body)
		p.ind--
		p.linef("}")
	case *Break:
		p.linef("break;")
	case *Continue:
		p.linef("continue;")
	case *Return:
		if x.X == nil {
			p.linef("return;")
		} else {
			p.linef("return %s;", ExprString(x.X))
		}
	case *Block:
		p.linef("{")
		p.ind++
		p.stmts(x.Body)
		p.ind--
		p.linef("}")
	case *Barrier:
		p.linef("%s();", x.Name)
	case *ConstAssert:
		p.linef("const_assert %s;", ExprString(x.X))
	default:
		panic(fmt.Sprintf("print stmt %T", s))
	}
}

func (p *printer) ifStmt(x *If, kw string) {
	p.linef("%s %s {", kw, ExprString(x.Cond))
	p.ind++
	p.stmts(x.Then)
	p.ind--
	if len(x.Else) == 1 {
		if ei, ok := x.Else[0].(*If); ok {
			p.b.WriteString(strings.Repeat("  ", p.ind))
			p.b.WriteString("} else ")
			// print chained if on the same line
			sub := &printer{ind: p.ind}
			sub.ifStmt(ei, "if")
			p.b.WriteString(strings.TrimLeft(sub.b.String(), " "))
			return
		}
	}
	if x.HasElse || len(x.Else) > 0 {
		p.linef("} else {")
		p.ind++
		p.stmts(x.Else)
		p.ind--
	}
	p.linef("}")
}

// LitString spells a literal.
func LitString(l *Lit) string {
	if l.Text != "" {
		return l.Text
	}
	switch l.T.S {
	case Bool:
		if l.Bits != 0 {
			return "true"
		}
		return "false"
	case I32:
		v := int32(l.Bits)
		if v == math.MinInt32 {
			return "i32(-2147483648)"
		}
		if v < 0 {
			return fmt.Sprintf("(-%di)", -int64(v))
		}
		return fmt.Sprintf("%di", v)
	case U32:
		return fmt.Sprintf("%du", l.Bits)
	case F32:
		return f32Text(math.Float32frombits(l.Bits)) + "f"
	case F16:
		return f32Text(math.Float32frombits(l.Bits)) + "h"
	case AbsInt:
		if l.I < 0 {
			return fmt.Sprintf("(%d)", l.I)
		}
		return fmt.Sprintf("%d", l.I)
	case AbsFloat:
		s := strconv.FormatFloat(l.F, 'g', -1, 64)
		if !strings.ContainsAny(s, ".e") {
			s += ".0"
		}
		if l.F < 0 || (l.F == 0 && math.Signbit(l.F)) {
			return "(" + s + ")"
		}
		return s
	}
	panic("lit")
}

func f32Text(f float32) string {
	s := strconv.FormatFloat(float64(f), 'g', -1, 32)
	if !strings.ContainsAny(s, ".e") {
		s += ".0"
	}
	return s
}

// LitHook, when set, may replace the spelling of a literal leaf (used to
// print the run-time twin of a constant expression, whose leaves are loads).
var LitHook func(*Lit) (string, bool)

// ExprString renders an expression (fully parenthesised).
func ExprString(e Expr) string {
	switch x := e.(type) {
	case *Lit:
		if LitHook != nil {
			if s, ok := LitHook(x); ok {
				return s
			}
		}
		s := LitString(x)
		// negative float literals need parentheses when nested
		if (x.T.S == F32 || x.T.S == F16) && strings.HasPrefix(s, "-") {
			return "(" + s + ")"
		}
		return s
	case *VarRef:
		return x.V.Name
	case *Unary:
		return "(" + x.Op + ExprString(x.X) + ")"
	case *Binary:
		return "(" + ExprString(x.L) + " " + x.Op + " " + ExprString(x.R) + ")"
	case *CallE:
		return x.Fn.Name + "(" + argList(x.Args) + ")"
	case *Builtin:
		if x.Tmpl != nil {
			return x.Name + "<" + x.Tmpl.String() + ">(" + argList(x.Args) + ")"
		}
		return x.Name + "(" + argList(x.Args) + ")"
	case *Construct:
		name := x.T.String()
		if x.Infer {
			switch x.T.K {
			case TVec:
				name = fmt.Sprintf("vec%d", x.T.N)
			case TMat:
				name = fmt.Sprintf("mat%dx%d", x.T.N, x.T.R)
			case TArray:
				name = "array"
			}
		}
		return name + "(" + argList(x.Args) + ")"
	case *Index:
		return ExprString(x.X) + "[" + ExprString(x.I) + "]"
	case *MemberE:
		return ExprString(x.X) + "." + x.X.Type().St.Members[x.Idx].Name
	case *Swizzle:
		set := "xyzw"
		if x.Set == 1 {
			set = "rgba"
		}
		s := ExprString(x.X) + "."
		for _, c := range x.Comps {
			s += string(set[c])
		}
		return s
	case *AddrOf:
		return "(&" + ExprString(x.X) + ")"
	case *Deref:
		return "(*" + ExprString(x.X) + ")"
	case *Paren:
		return "(" + ExprString(x.X) + ")"
	}
	panic(fmt.Sprintf("ExprString %T", e))
}

func argList(a []Expr) string {
	s := make([]string, len(a))
	for i, e := range a {
		s[i] = ExprString(e)
	}
	return strings.Join(s, ", ")
}
