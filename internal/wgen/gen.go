package wgen

import (
	"fmt"
	"math"

	"pgregory.net/rapid"
)

// Features switches generator constructs on and off (known findings switch
// single constructs off; checks bias towards what they need).
type Features struct {
	MaxStmts     int
	MaxDepth     int
	MaxHelpers   int
	Multi        bool // allow multi-invocation programs (workgroup memory, barriers)
	Floats       bool
	Matrices     bool
	Atomics      bool
	Pointers     bool
	RuntimeArray bool
	InexactSinks bool                     // inexact float builtins / division stored into sinks
	Hostile      bool                     // C15: hostile float operands for conversions; single invocation
	HostileIdx   bool                     // C15: unguarded (possibly out-of-range) indices
	Overrides    bool                     // C14: pipeline-overridable constants
	Off          func(tag string) bool    // construct excluded (known finding)
	ConstOK      func(e Expr) bool        // strict constant-expression check (set by wref to avoid an import cycle)
}

// DefaultFeatures returns the exec-profile defaults.
func DefaultFeatures() Features {
	return Features{MaxStmts: 22, MaxDepth: 4, MaxHelpers: 3, Multi: true, Floats: true, Matrices: true,
		Atomics: true, Pointers: true, RuntimeArray: true, InexactSinks: true}
}

func (f *Features) off(tag string) bool { return f.Off != nil && f.Off(tag) }

// ExecCase is a generated compute program with its inputs.
type ExecCase struct {
	Mod     *Module
	Entry   *Func
	Src     string
	Buffers map[[2]int][]byte
	NumWG   [3]uint32
	Classes []string
	// Overrides lists the override declarations of the module (C14).
	Overrides []*Var
}

type scopeVar struct {
	v        *Var
	readonly bool // loop counters: never assigned by generated statements
}

type gen struct {
	t       *rapid.T
	f       Features
	mod     *Module
	structs []*Struct
	inputs  []*Var
	out     *Var
	outSlot func() Expr // expression denoting this invocation's writable root inside out
	privs   []*Var
	wgs     []*Var
	consts  []*Var
	funcs   []*Func
	scopes  [][]scopeVar
	nameN   int
	inLoop  int
	curFn   *Func
	multi   bool
	nInv    int
	fid     *Var
	classes map[string]bool
	stmtBudget int
	inHelper bool
	noCalls  bool
	fuzzy     bool
	inConst   int
	inSwitch  int
	noReturn  bool
	outFz     *Var
	outFzSlot func() Expr
	outAt     *Var
	hostileF  *Var // C15: read-only buffer of hostile floats, used only as conversion operands
	overrides []*Var
	atomOp    map[int]string // multi-invocation: the one (commutative) operation used on each atomic location
	noNeg     bool // literals must be non-negative (guard for tag private-init.unary)
	noMustUse bool // no calls of @must_use functions (guard for tag must_use.call-arg)
}

func (g *gen) class(s string) { g.classes[s] = true }

func (g *gen) name(prefix string) string {
	g.nameN++
	return fmt.Sprintf("%s%d", prefix, g.nameN)
}

func (g *gen) intn(n int, label string) int {
	if n <= 1 {
		return 0
	}
	return rapid.IntRange(0, n-1).Draw(g.t, label)
}

func (g *gen) chance(pct int, label string) bool {
	return rapid.IntRange(0, 99).Draw(g.t, label) < pct
}

// ---------------------------------------------------------------------------
// Types

var scalarKinds = []Kind{I32, U32, F32}

func (g *gen) numKind() Kind {
	if !g.f.Floats {
		return []Kind{I32, U32}[g.intn(2, "ik")]
	}
	return scalarKinds[g.intn(3, "nk")]
}

// valueType draws a constructible type used for locals / params / results.
func (g *gen) valueType(depth int) *Type {
	r := g.intn(100, "vt")
	switch {
	case r < 40:
		if g.chance(15, "boolT") {
			return TBool
		}
		return Scalar(g.numKind())
	case r < 70:
		n := 2 + g.intn(3, "vn")
		if g.chance(10, "bvec") {
			return Vec(n, Bool)
		}
		return Vec(n, g.numKind())
	case r < 78 && g.f.Matrices && g.f.Floats:
		return Mat(2+g.intn(3, "mc"), 2+g.intn(3, "mr"), F32)
	case r < 88 && depth > 0:
		return Array(g.valueType(depth-1), 1+g.intn(4, "an"))
	case r < 100 && len(g.structs) > 0:
		return StructT(g.structs[g.intn(len(g.structs), "st")])
	}
	return Scalar(g.numKind())
}

// hostType draws a host-shareable type.
func (g *gen) hostType(depth int) *Type {
	r := g.intn(100, "ht")
	switch {
	case r < 35:
		return Scalar(g.numKind())
	case r < 65:
		return Vec(2+g.intn(3, "hvn"), g.numKind())
	case r < 73 && g.f.Matrices && g.f.Floats:
		return Mat(2+g.intn(3, "hmc"), 2+g.intn(3, "hmr"), F32)
	case r < 88 && depth > 0:
		return Array(g.hostType(depth-1), 1+g.intn(4, "han"))
	case r < 100 && len(g.structs) > 0 && depth > 0:
		return StructT(g.structs[g.intn(len(g.structs), "hst")])
	}
	return Scalar(g.numKind())
}

func (g *gen) newStruct(minMembers int, ensure []*Type) *Struct {
	s := &Struct{Name: g.name("S")}
	n := minMembers + g.intn(4, "sm")
	for _, t := range ensure {
		s.Members = append(s.Members, &Member{Name: g.name("m"), T: t})
	}
	for i := 0; i < n; i++ {
		mt := g.hostType(2)
		// Known finding (tag struct.matcx2-member, HLSL): a matCx2 structure member is
		// split into column members read through GetMat<m>On<S> helpers, which are
		// not emitted when the structure is only reached through an array element
		// or a nested structure member.
		if mt.K == TMat && mt.R == 2 && g.f.off("struct.matcx2-member") {
			mt = Mat(mt.N, 3, F32)
		}
		// Known finding (tag struct.array-matcx2-member, HLSL): an array<matCx2, N>
		// member is declared __matCx2[N]; whole-struct stores copy it into a
		// floatCx2[N] temporary without the cast HLSL needs.
		if mt.K == TArray && g.f.off("struct.array-matcx2-member") {
			mt = noCx2Elem(mt)
		}
		s.Members = append(s.Members, &Member{Name: g.name("m"), T: mt})
	}
	// shuffle deterministically by draws
	for i := len(s.Members) - 1; i > 0; i-- {
		j := g.intn(i+1, "shuf")
		s.Members[i], s.Members[j] = s.Members[j], s.Members[i]
	}
	g.structs = append(g.structs, s)
	g.mod.Decls = append(g.mod.Decls, s)
	return s
}

// ---------------------------------------------------------------------------
// Literals

var intBoundary = []int64{0, 1, 2, 3, 4, 5, 7, 8, 15, 16, 31, 32, 33, 63, 64, 100, 127, 128, 255, 256, 1000, 65535, 65536,
	0x7fffffff, 0x7ffffffe, 0x40000000}

func (g *gen) litOf(k Kind) *Lit {
	switch k {
	case Bool:
		return &Lit{T: TBool, Bits: uint32(g.intn(2, "lb"))}
	case I32:
		v := intBoundary[g.intn(len(intBoundary), "li")]
		r := g.intn(10, "lis")
		if r < 3 {
			v = -v
		} else if r == 3 {
			v = math.MinInt32
		} else if r == 4 {
			v = int64(rapid.Int32().Draw(g.t, "lir"))
		}
		if g.noNeg && v < 0 {
			if v == math.MinInt32 {
				v = 0
			} else {
				v = -v
			}
		}
		return &Lit{T: TI32, Bits: uint32(int32(v))}
	case U32:
		v := intBoundary[g.intn(len(intBoundary), "lu")]
		r := g.intn(10, "lus")
		if r == 0 {
			v = 0xffffffff
		} else if r == 1 {
			v = 0x80000000
		} else if r == 2 {
			v = int64(rapid.Uint32().Draw(g.t, "lur"))
		}
		return &Lit{T: TU32, Bits: uint32(v)}
	case F32:
		f := g.smallFloat()
		if g.noNeg && f < 0 {
			f = -f
		}
		return &Lit{T: TF32, Bits: math.Float32bits(f)}
	}
	panic("litOf")
}

func (g *gen) smallFloat() float32 {
	k := rapid.IntRange(-32, 32).Draw(g.t, "fk")
	d := []float32{1, 2, 4, 8}[g.intn(4, "fd")]
	return float32(k) / d
}

// ---------------------------------------------------------------------------
// Scopes

func (g *gen) push()          { g.scopes = append(g.scopes, nil) }
func (g *gen) pop()           { g.scopes = g.scopes[:len(g.scopes)-1] }
func (g *gen) declare(v *Var) { g.declareRO(v, false) }
func (g *gen) declareRO(v *Var, ro bool) {
	g.scopes[len(g.scopes)-1] = append(g.scopes[len(g.scopes)-1], scopeVar{v, ro})
}

func (g *gen) visible() []scopeVar {
	var out []scopeVar
	for _, s := range g.scopes {
		out = append(out, s...)
	}
	return out
}

// ---------------------------------------------------------------------------
// Access paths

type pathStep struct {
	kind int // 0 member, 1 index (array), 2 vector component, 3 matrix column
	idx  int
	n    int // array length (0 = runtime) / vector width / matrix columns
}

type pathCand struct {
	root  Expr
	steps []pathStep
	t     *Type
}

// walk enumerates sub-objects of type want reachable from (root : t).
func walkPaths(root Expr, t *Type, want func(*Type) bool, steps []pathStep, depth int, out *[]pathCand) {
	if want(t) {
		*out = append(*out, pathCand{root, append([]pathStep(nil), steps...), t})
	}
	if depth == 0 {
		return
	}
	switch t.K {
	case TStruct:
		for i, m := range t.St.Members {
			walkPaths(root, m.T, want, append(steps, pathStep{0, i, 0}), depth-1, out)
		}
	case TArray:
		walkPaths(root, t.Elem, want, append(steps, pathStep{1, -1, t.N}), depth-1, out)
	case TVec:
		walkPaths(root, t.ScalarOf(), want, append(steps, pathStep{2, -1, t.N}), depth-1, out)
	case TMat:
		walkPaths(root, t.ColumnType(), want, append(steps, pathStep{3, -1, t.N}), depth-1, out)
	}
}

// build turns a path candidate into an expression, drawing indices.
func (g *gen) buildPath(c pathCand, depth int, forWrite bool) Expr {
	e := c.root
	t := e.Type()
	for _, s := range c.steps {
		switch s.kind {
		case 0:
			e = &MemberE{X: e, Idx: s.idx}
			t = t.St.Members[s.idx].T
		case 1:
			et := t.Elem
			e = &Index{X: e, I: g.indexExpr(e, s.n, depth), T: et}
			t = et
		case 2:
			st := t.ScalarOf()
			if g.chance(60, "vcswz") || (forWrite && !IsRef(e)) {
				e = &Swizzle{X: e, Comps: []int{g.intn(s.n, "vci")}, Set: g.intn(2, "vset"), T: st}
			} else {
				e = &Index{X: e, I: g.indexExpr(e, s.n, depth), T: st}
			}
			t = st
		case 3:
			ct := t.ColumnType()
			e = &Index{X: e, I: g.indexExpr(e, s.n, depth), T: ct}
			t = ct
		}
	}
	return e
}

// indexExpr returns an in-range index expression for an indexable of n
// elements (n == 0: runtime-sized array referenced by base).
func (g *gen) indexExpr(base Expr, n int, depth int) Expr {
	if n == 0 {
		g.class("index:runtime")
		al := &Builtin{Name: "arrayLength", Args: []Expr{&AddrOf{X: base, Space: "storage"}}, T: TU32}
		if g.f.HostileIdx && g.inConst == 0 && !g.f.off("restrict.storage-index") {
			e := g.expr(TU32, depth-1)
			if IsConstExpr(e) || g.foldableConst(e) {
				e = g.runtimeLeaf(U32)
			}
			return e
		}
		return &Binary{Op: "%", L: g.expr(TU32, depth-1), R: al, T: TU32}
	}
	hostile := g.f.HostileIdx && g.inConst == 0
	if hostile && !IsRef(base) && g.f.off("restrict.value-array-index") {
		hostile = false
	}
	if hostile && g.f.off("restrict.storage-index") {
		if rv := RootVar(base); rv != nil && (rv.Kind == VStorage || rv.Kind == VUniform) {
			hostile = false
		}
	}
	if hostile && g.chance(50, "hostileIdx") {
		g.class("index:hostile")
		k := U32
		if g.chance(50, "hidxs") {
			k = I32
		}
		e := g.expr(Scalar(k), depth-1)
		if IsConstExpr(e) || g.foldableConst(e) {
			// a constant out-of-range index is a shader-creation error: keep it a run-time value
			e = g.runtimeLeaf(k)
		}
		return e
	}
	// finding C01-13: a by-value array / matrix indexed dynamically is spilled to a variable whose
	// store sits at the first such use; later uses on other paths read it unwritten
	valueDyn := !IsRef(base) && base.Type() != nil && (base.Type().K == TArray || base.Type().K == TMat) && g.f.off("value.dynamic-index")
	if _, isBin := base.(*Binary); isBin && g.f.off("index.of-binary") {
		// finding C04-2 (MSL): the parentheses around a dynamically indexed binary expression are dropped
		valueDyn = true
	}
	if depth <= 0 || valueDyn || g.chance(45, "cidx") {
		g.class("index:const")
		i := g.intn(n, "ci")
		if g.chance(50, "cidxs") {
			return &Lit{T: TI32, Bits: uint32(i)}
		}
		return &Lit{T: TU32, Bits: uint32(i)}
	}
	g.class("index:dynamic")
	inner := func(t *Type) Expr {
		e := g.expr(t, depth-1)
		if g.f.Overrides && g.inConst == 0 && len(g.inputs) > 0 && !IsConstExpr(e) && IsOverrideExpr(e) && g.f.off("override.fold.unsupported-op") {
			// open finding C14-3: `ov % n` / min / clamp over overrides is folded by an evaluator that only knows + - * /
			return g.runtimeLeaf(t.S)
		}
		if g.inConst == 0 && len(g.inputs) > 0 && !IsConstExpr(e) && foldable(e) && g.f.off("const.index.wrapped-intermediate") {
			// open finding C06-21: an index built from constants through lets (not a const-expression, so u32 / i32
			// arithmetic wraps) is evaluated by naga's index evaluator in 64 bits without wrap-around
			g.class("index:foldable-made-runtime")
			return g.runtimeLeaf(t.S)
		}
		return e
	}
	switch g.intn(3, "dynidx") {
	case 0:
		return &Binary{Op: "%", L: inner(TU32), R: &Lit{T: TU32, Bits: uint32(n)}, T: TU32}
	case 1:
		return &Builtin{Name: "min", Args: []Expr{inner(TU32), &Lit{T: TU32, Bits: uint32(n - 1)}}, T: TU32}
	default:
		return &Builtin{Name: "clamp", Args: []Expr{inner(TI32), &Lit{T: TI32, Bits: 0}, &Lit{T: TI32, Bits: uint32(n - 1)}}, T: TI32}
	}
}

// readableRoots lists expressions that can be read: inputs, out slot,
// privates, workgroup is excluded (phase discipline), locals, params, consts.
func (g *gen) readableRoots() []Expr {
	var roots []Expr
	for _, v := range g.inputs {
		roots = append(roots, &VarRef{v})
	}
	for _, v := range g.privs {
		roots = append(roots, &VarRef{v})
	}
	for _, v := range g.consts {
		roots = append(roots, &VarRef{v})
	}
	if g.inConst == 0 {
		for _, v := range g.overrides {
			// overrides are weighted: they are what C14 is about
			roots = append(roots, &VarRef{v}, &VarRef{v})
		}
	}
	for _, sv := range g.visible() {
		if sv.v.T.K == TPtr {
			roots = append(roots, &Deref{X: &VarRef{sv.v}})
			continue
		}
		roots = append(roots, &VarRef{sv.v})
	}
	if g.out != nil && g.outSlot != nil && !g.inHelper {
		roots = append(roots, g.outSlot())
	} else if g.out != nil && !g.multi {
		roots = append(roots, &VarRef{g.out})
	}
	return roots
}

func (g *gen) writableRoots() []Expr {
	var roots []Expr
	for _, sv := range g.visible() {
		if sv.readonly {
			continue
		}
		if sv.v.Kind == VVar {
			roots = append(roots, &VarRef{sv.v})
		}
		if sv.v.T.K == TPtr {
			roots = append(roots, &Deref{X: &VarRef{sv.v}})
		}
	}
	for _, v := range g.privs {
		roots = append(roots, &VarRef{v})
	}
	if g.out != nil && g.outSlot != nil && !g.inHelper {
		// weight the output buffer
		roots = append(roots, g.outSlot(), g.outSlot())
	} else if g.out != nil && !g.multi {
		roots = append(roots, &VarRef{g.out}, &VarRef{g.out})
	}
	return roots
}

func (g *gen) pathsTo(roots []Expr, want func(*Type) bool) []pathCand {
	var out []pathCand
	for _, r := range roots {
		walkPaths(r, r.Type(), want, nil, 4, &out)
	}
	// Known finding (tag const.index.composite): constant-folding of an index /
	// member access into a `const` composite that has composite components
	// picks the wrong component or mistypes the result; keep element access
	// only into flat constants.
	decided, off := false, false
	keep := out[:0]
	for _, c := range out {
		if len(c.steps) >= 1 {
			if v, ok := c.root.(*VarRef); ok && v.V.Kind == VConst && !flatConstType(v.V.T) {
				if !decided {
					decided, off = true, g.f.off("const.index.composite")
				}
				if off {
					continue
				}
			}
		}
		// Known finding (tag storage-load.array-of-struct, HLSL): loading a whole
		// storage value that contains an array of structures or of arrays calls
		// Construct<element> helpers the HLSL writer never emits.
		if rv := RootVar(c.root); rv != nil && rv.Kind == VStorage && hasArrayOfStruct(c.t) && g.f.off("storage-load.array-of-struct") {
			continue
		}
		// Known finding (tag struct-value.vec3i-member, MSL C04-7): a vec3<i32> member read from a by-value
		// struct is used as packed_int3 inside as_type<uint3>(...) by the wrapping arithmetic.
		if n := len(c.steps); n >= 1 && c.steps[n-1].kind == 0 && c.t.K == TVec && c.t.N == 3 && c.t.S == I32 && !IsRef(c.root) && g.f.off("struct-value.vec3i-member") {
			continue
		}
		keep = append(keep, c)
	}
	return keep
}

// hasArrayOfStruct reports whether t contains an array whose element type is
// a structure or an array (the element's Construct helper is the missing one).
func hasArrayOfStruct(t *Type) bool {
	switch t.K {
	case TArray:
		return t.Elem.K == TStruct || t.Elem.K == TArray
	case TStruct:
		for _, m := range t.St.Members {
			if hasArrayOfStruct(m.T) {
				return true
			}
		}
	}
	return false
}

// noCx2Elem rebuilds an array type with matCx2 elements replaced by matCx3.
func noCx2Elem(t *Type) *Type {
	switch {
	case t.K == TArray && t.N > 0:
		return Array(noCx2Elem(t.Elem), t.N)
	case t.K == TMat && t.R == 2:
		return Mat(t.N, 3, F32)
	}
	return t
}

// hasArrayOfArray reports whether t contains an array whose element type is an array.
func hasArrayOfArray(t *Type) bool {
	switch t.K {
	case TArray:
		return t.Elem.K == TArray || hasArrayOfArray(t.Elem)
	case TStruct:
		for _, m := range t.St.Members {
			if hasArrayOfArray(m.T) {
				return true
			}
		}
	}
	return false
}

// flatConstType: vector, array of scalars, or struct of scalars — the
// composites whose constant-folded element access naga gets right.
func flatConstType(t *Type) bool {
	switch t.K {
	case TVec:
		return true
	case TArray:
		return t.Elem.K == TScalar
	case TStruct:
		for _, m := range t.St.Members {
			if m.T.K != TScalar {
				return false
			}
		}
		return true
	}
	return false
}

func noAtomic(t *Type) bool { return !t.HasAtomic() && !t.HasRuntimeArray() }

// leaf returns a leaf expression of type t: a path into something readable,
// or a literal / constructed constant.
func (g *gen) leaf(t *Type, depth int) Expr {
	if g.chance(70, "leafpath") {
		cands := g.pathsTo(g.readableRoots(), func(x *Type) bool { return x.Same(t) })
		if len(cands) > 0 {
			g.class("leaf:path")
			return g.buildPath(cands[g.intn(len(cands), "lp")], depth, false)
		}
	}
	return g.constOf(t)
}

// runtimeLeaf returns an expression of numeric scalar kind k that is
// certainly not a constant expression (a load from an input buffer).
func (g *gen) runtimeLeaf(k Kind) Expr {
	var roots []Expr
	for _, v := range g.inputs {
		roots = append(roots, &VarRef{v})
	}
	cands := g.pathsTo(roots, func(x *Type) bool { return x.K == TScalar && x.S == k })
	if len(cands) == 0 {
		// convert from another kind
		for _, k2 := range []Kind{U32, I32, F32} {
			c2 := g.pathsTo(roots, func(x *Type) bool { return x.K == TScalar && x.S == k2 })
			if len(c2) > 0 {
				return &Construct{T: Scalar(k), Args: []Expr{g.buildPath(c2[0], 0, false)}}
			}
		}
		desc := ""
		for _, v := range g.inputs {
			desc += " " + v.Name + ":" + v.T.String()
			if v.T.K == TStruct {
				for _, m := range v.T.St.Members {
					desc += " ." + m.Name + ":" + m.T.String()
				}
			}
		}
		panic("no runtime leaf; inputs:" + desc)
	}
	return g.buildPath(cands[g.intn(len(cands), "rl")], 0, false)
}

// constOf builds a literal-only expression of type t.
func (g *gen) constOf(t *Type) Expr {
	switch t.K {
	case TScalar:
		return g.litOf(t.S)
	case TVec:
		if g.chance(25, "splatc") {
			return &Construct{T: t, Args: []Expr{g.litOf(t.S)}}
		}
		args := make([]Expr, t.N)
		for i := range args {
			args[i] = g.litOf(t.S)
		}
		return &Construct{T: t, Args: args}
	case TMat:
		if g.chance(50, "matcols") {
			args := make([]Expr, t.N)
			for i := range args {
				args[i] = g.constOf(t.ColumnType())
			}
			return &Construct{T: t, Args: args}
		}
		args := make([]Expr, t.N*t.R)
		for i := range args {
			args[i] = g.litOf(t.S)
		}
		return &Construct{T: t, Args: args}
	case TArray:
		if g.chance(20, "zeroarr") {
			return &Construct{T: t}
		}
		args := make([]Expr, t.N)
		for i := range args {
			args[i] = g.constOf(t.Elem)
		}
		return &Construct{T: t, Args: args}
	case TStruct:
		if g.chance(20, "zerost") {
			return &Construct{T: t}
		}
		args := make([]Expr, len(t.St.Members))
		for i, m := range t.St.Members {
			args[i] = g.constOf(m.T)
		}
		return &Construct{T: t, Args: args}
	}
	panic("constOf " + t.String())
}

// IsConstExpr reports whether e is a WGSL const-expression (as far as the
// generator's constructs go).
func IsConstExpr(e Expr) bool {
	switch x := e.(type) {
	case *Lit:
		return true
	case *Paren:
		return IsConstExpr(x.X)
	case *VarRef:
		return x.V.Kind == VConst
	case *Unary:
		return IsConstExpr(x.X)
	case *Binary:
		return IsConstExpr(x.L) && IsConstExpr(x.R)
	case *Builtin:
		switch x.Name {
		case "arrayLength", "atomicLoad", "atomicAdd", "atomicSub", "atomicMax", "atomicMin", "atomicAnd", "atomicOr", "atomicXor", "atomicExchange", "atomicStore":
			return false
		}
		for _, a := range x.Args {
			if !IsConstExpr(a) {
				return false
			}
		}
		return true
	case *Construct:
		for _, a := range x.Args {
			if !IsConstExpr(a) {
				return false
			}
		}
		return true
	case *Index:
		return IsConstExpr(x.X) && IsConstExpr(x.I)
	case *MemberE:
		return IsConstExpr(x.X)
	case *Swizzle:
		return IsConstExpr(x.X)
	}
	return false
}

// guardConst makes sure a constant expression is one WGSL accepts (no
// division by zero, overflow, over-wide shift …); otherwise operand `slot`
// is replaced by a run-time value through fix.
func (g *gen) guardConst(e Expr, fix func()) Expr {
	if g.f.Overrides && g.inConst == 0 && len(g.inputs) > 0 && !IsConstExpr(e) && IsOverrideExpr(e) && g.f.off("override.fold.unsupported-op") {
		// open finding C14-3: override resolution folds such expressions with an
		// evaluator that only knows + - * /
		simple := false
		if b, ok := e.(*Binary); ok {
			switch b.Op {
			case "+", "-", "*", "/":
				simple = true
			}
		}
		if !simple {
			fix()
			g.class("override-fold:made-runtime")
			return e
		}
	}
	if !IsConstExpr(e) {
		// (known finding C05-17: naga folds through lets bound to module constants, but only + - * /
		// are implemented there; every other binary operator folds to a zero literal)
		if b, ok := e.(*Binary); ok && b.Op != "+" && b.Op != "-" && b.Op != "*" && b.Op != "/" &&
			g.inConst == 0 && len(g.inputs) > 0 && foldable(e) && refsNamedConst(e) && g.f.off("const-fold.through-let") {
			fix()
			g.class("fold-through-let:made-runtime")
		}
		return e
	}
	if g.f.ConstOK == nil || g.f.ConstOK(e) {
		g.class("constexpr")
		return e
	}
	if g.inConst > 0 {
		return g.constOf(e.Type())
	}
	fix()
	g.class("constexpr:made-runtime")
	return e
}

// refsNamedConst reports whether e reaches a module-scope const, directly or
// through lets.
func refsNamedConst(e Expr) bool {
	found := false
	WalkExpr(e, func(x Expr) bool {
		if r, ok := x.(*VarRef); ok {
			switch {
			case r.V.Kind == VConst:
				found = true
			case r.V.Kind == VLet && r.V.Init != nil && refsNamedConst(r.V.Init):
				found = true
			}
		}
		return !found
	})
	return found
}

// foldableConst reports whether e is a let-bound name whose initialiser is a
// constant expression (naga folds through such lets).
func (g *gen) foldableConst(e Expr) bool {
	if v, ok := e.(*VarRef); ok && v.V.Kind == VLet && v.V.Init != nil {
		return IsConstExpr(v.V.Init) || g.foldableConst(v.V.Init)
	}
	return false
}

// IsOverrideExpr reports whether e is an override-expression: built from
// literals, constants and overrides only (so that override resolution can
// evaluate it).
func IsOverrideExpr(e Expr) bool {
	switch x := e.(type) {
	case *Lit:
		return true
	case *Paren:
		return IsOverrideExpr(x.X)
	case *VarRef:
		return x.V.Kind == VConst || x.V.Kind == VOverride || (x.V.Kind == VLet && x.V.Init != nil && IsOverrideExpr(x.V.Init))
	case *Unary:
		return IsOverrideExpr(x.X)
	case *Binary:
		return IsOverrideExpr(x.L) && IsOverrideExpr(x.R)
	case *Construct:
		for _, a := range x.Args {
			if !IsOverrideExpr(a) {
				return false
			}
		}
		return true
	case *Swizzle:
		return IsOverrideExpr(x.X)
	case *Builtin:
		if x.Name == "arrayLength" || len(x.Name) > 6 && x.Name[:6] == "atomic" {
			return false
		}
		for _, a := range x.Args {
			if !IsOverrideExpr(a) {
				return false
			}
		}
		return true
	}
	return false
}
